(** * LazyListLinProofs: every operation of the LazyList model is [Conc.safe] for the invariant [Inv3]
      (structure + LP-annotated trace of the modifying operations); the history of the modifying operations of every
      reachable configuration (every schedule, any number of threads) is linearizable. *)
From Coq Require Import ZArith List String Bool Lia PeanoNat.
From LV Require Import Base.Conc Base.Events Base.Lin Spec.Specs Proofs.LinProofs.
From LV Require Proofs.MichaelListInv Proofs.MichaelListLin Proofs.MichaelListActs.
From LV Require Import Model.LazyList Proofs.LazyListBase Proofs.LazyListInv Proofs.LazyListSteps Proofs.LazyListActs
                       Proofs.LazyListDefs Proofs.LazyListProofs Proofs.LazyListLin Proofs.LazyListLinActs.
Import ListNotations.
Local Open Scope Z_scope.

Notation st := (status SetSpec).

(** ** plumbing *)
Lemma safe3_nop2 {R} t k1 o1 k2 o2 (p : prog R) l Q :
  safe3 t p l Q -> safe3 t (Act (a_nop k1 o1) (fun _ => Act (a_nop k2 o2) (fun _ => p))) l Q.
Proof. intros H. apply safe3_neutral with (v := v0); [apply neutral3_nop|]. apply safe3_neutral with (v := v0); [apply neutral3_nop|]. exact H. Qed.

Lemma safe3_assign_guard t s l (Q : unit -> lview3 -> Prop) : Q tt l -> safe3 t (assign_guard t s) l Q.
Proof. intros H. unfold assign_guard. apply safe3_nop2. exact H. Qed.
Lemma safe3_copy_guard t d s l (Q : unit -> lview3 -> Prop) : Q tt l -> safe3 t (copy_guard t d s) l Q.
Proof. intros H. unfold copy_guard. apply safe3_neutral with (v := v0); [apply neutral3_nop|]. apply safe3_assign_guard. exact H. Qed.
Lemma safe3_retire t l (Q : unit -> lview3 -> Prop) : Q tt l -> safe3 t (retire t) l Q.
Proof. intros H. unfold retire. apply safe3_nop2. exact H. Qed.
Lemma safe3_use_guarded t s l (Q : unit -> lview3 -> Prop) : Q tt l -> safe3 t (use_guarded t s) l Q.
Proof. intros H. unfold use_guarded. apply safe3_nop2. exact H. Qed.
Lemma safe3_cnt_inc ic l t (Q : unit -> lview3 -> Prop) : Q tt l -> safe3 t (cnt_inc ic) l Q.
Proof. intros H. unfold cnt_inc. destruct ic; [|exact H]. apply safe3_neutral with (v := v0); [apply neutral3_cnt|]. exact H. Qed.
Lemma safe3_cnt_dec ic l t (Q : unit -> lview3 -> Prop) : Q tt l -> safe3 t (cnt_dec ic) l Q.
Proof. intros H. unfold cnt_dec. destruct ic; [|exact H]. apply safe3_neutral with (v := v0); [apply neutral3_cnt|]. exact H. Qed.
Lemma safe3_free_guards t gs : forall fr l (Q : list nat -> lview3 -> Prop),
  (forall fr', Q fr' l) -> safe3 t (free_guards t gs fr) l Q.
Proof.
  induction gs as [|s gs IH]; intros fr l Q H; cbn [free_guards]; [apply H|].
  apply safe3_neutral with (v := v0); [apply neutral3_nop|]. apply IH. exact H.
Qed.

(** ** protect *)
Lemma safe3_protect fuel : forall t s l lv (z : st) (Q : option V -> lview3 -> Prop),
  pk (lv_facts lv) l ->
  (forall F', incl (lv_facts lv) F' -> Q None (with_facts lv F', z)) ->
  (forall v F', incl (lv_facts lv) F' -> incl (newfacts l v) F' -> Q (Some v) (with_facts lv F', z)) ->
  safe3 t (protect fuel t s l) (lv, z) Q.
Proof.
  induction fuel as [|f IH]; intros t s l lv z Q Hp HN HS; cbn [protect].
  - cbn [Conc.safe]. destruct lv. apply (HN lv_facts). apply incl_refl.
  - apply safe3_ld; [exact Hp|]. intros v _.
    apply safe3_neutral with (v := v0); [apply neutral3_nop|]. apply safe3_neutral with (v := v0); [apply neutral3_nop|].
    apply safe3_ld; [eapply pk_incl; [|exact Hp]; apply incl_app_r'|]. intros v' _.
    set (F2 := newfacts l v' ++ newfacts l v ++ lv_facts lv).
    assert (I0 : incl (lv_facts lv) F2) by (unfold F2; apply incl_appr; apply incl_app_r').
    destruct (veqb v v').
    + cbn [Conc.safe]. apply (HS v F2); auto. unfold F2. apply incl_appr. apply incl_appl. apply incl_refl.
    + change (safe3 t (protect f t s l) (with_facts lv F2, z) Q). apply IH.
      * eapply pk_incl; eauto.
      * intros F' HF. cbn [with_facts lv_facts] in HF. apply (HN F'). eapply incl_tran; eauto.
      * intros w F' HF HF'. cbn [with_facts lv_facts] in HF. apply (HS w F'); auto. eapply incl_tran; eauto.
Qed.

(** ** search *)
Lemma safe3_search fuel : forall t g0 g1 k pPrev pCur lv (z : st) (Q : option (nat * V) -> lview3 -> Prop),
  klt (lv_facts lv) pPrev k -> cur_ok (lv_facts lv) pCur ->
  (forall F', incl (lv_facts lv) F' -> Q None (with_facts lv F', z)) ->
  (forall F' pp pc, incl (lv_facts lv) F' -> found_ok F' k pp pc -> Q (Some (pp, pc)) (with_facts lv F', z)) ->
  safe3 t (search fuel t g0 g1 k pPrev pCur) (lv, z) Q.
Proof.
  induction fuel as [|f IH]; intros t g0 g1 k pPrev pCur lv z Q Hkl Hcur HN HS; cbn [search].
  - cbn [Conc.safe]. destruct lv. apply (HN lv_facts). apply incl_refl.
  - destruct (Nat.eqb_spec (vptr pCur) TAIL) as [ET|ET].
    { cbn [Conc.safe]. destruct lv as [F H o h]. apply (HS F pPrev pCur); [apply incl_refl|]. split; auto. }
    destruct (negb (Nat.eqb (vptr pCur) HEAD) && Z.leb k (vkey pCur)) eqn:Estop.
    { cbn [Conc.safe]. destruct lv as [F H o h]. apply (HS F pPrev pCur); [apply incl_refl|]. split; auto.
      apply andb_true_iff in Estop. destruct Estop as [E1 E2]. apply negb_true_iff, Nat.eqb_neq in E1. apply Z.leb_le in E2.
      right. destruct Hcur as [Hc|[Hc|Hc]]; try contradiction. auto. }
    assert (Hkl' : klt (lv_facts lv) (vptr pCur) k).
    { apply andb_false_iff in Estop. destruct Estop as [E|E].
      - apply negb_false_iff, Nat.eqb_eq in E. left. exact E.
      - apply Z.leb_gt in E. destruct Hcur as [Hc|[Hc|Hc]]; [left; exact Hc|contradiction|]. right. exists (vkey pCur). auto. }
    apply Conc.safe_bind. apply safe3_copy_guard.
    apply Conc.safe_bind. apply safe3_protect; [apply cur_pk; exact Hcur|..].
    + intros F' HF. cbn [Conc.safe]. apply HN. exact HF.
    + intros nx F1 HF1 HN1. cbn beta iota. destruct (vmark nx).
      * change (safe3 t (search f t g0 g1 k HEAD (mkV HEAD false 0)) (with_facts lv F1, z) Q). apply IH.
        -- left. reflexivity.
        -- left. reflexivity.
        -- intros F' HF. cbn [with_facts lv_facts] in HF. apply HN. eapply incl_tran; eauto.
        -- intros F' pp pc HF Hf. cbn [with_facts lv_facts] in HF. apply HS; auto. eapply incl_tran; eauto.
      * change (safe3 t (search f t g0 g1 k (vptr pCur) nx) (with_facts lv F1, z) Q). apply IH.
        -- eapply klt_incl; [exact HF1|exact Hkl'].
        -- eapply (newfacts_cur (vptr pCur)); [exact ET|exact HN1].
        -- intros F' HF. cbn [with_facts lv_facts] in HF. apply HN. eapply incl_tran; eauto.
        -- intros F' pp pc HF Hf. cbn [with_facts lv_facts] in HF. apply HS; auto. eapply incl_tran; eauto.
Qed.

(** ** spin locks *)
Lemma safe3_lock_loops fuel : forall t n lv (z : st) (Q : bool -> lview3 -> Prop),
  pk (lv_facts lv) n ->
  (~ holds lv n -> Q true (with_held lv ((n, None) :: lv_held lv), z)) -> Q false (lv, z) ->
  safe3 t (lock_outer fuel n) (lv, z) Q /\ safe3 t (lock_inner fuel n) (lv, z) Q.
Proof.
  induction fuel as [|f IH]; intros t n lv z Q Hn HT HF; split; cbn [lock_outer lock_inner]; try (cbn [Conc.safe]; exact HF).
  - apply safe3_xchg; [exact Hn| |].
    + cbn [vmark vok]. apply IH; auto.
    + intros Hfree. cbn [vmark vok Conc.safe]. apply HT. exact Hfree.
  - apply safe3_ldlock. intros b. cbn [vmark vok]. destruct b; apply IH; auto.
Qed.

Lemma safe3_lock_outer fuel t n lv (z : st) (Q : bool -> lview3 -> Prop) :
  pk (lv_facts lv) n ->
  (~ holds lv n -> Q true (with_held lv ((n, None) :: lv_held lv), z)) -> Q false (lv, z) ->
  safe3 t (lock_outer fuel n) (lv, z) Q.
Proof. intros. apply safe3_lock_loops; auto. Qed.

Lemma safe3_unlock' t n lv (z : st) (Q : unit -> lview3 -> Prop) :
  holds lv n -> lv_hole lv = None -> Q tt (with_held lv (release (lv_held lv) n), z) -> safe3 t (unlock n) (lv, z) Q.
Proof. intros H1 H2 H3. unfold unlock. apply safe3_unlock; auto. Qed.

Lemma safe3_unlock_pos t p c lv (z : st) (Q : unit -> lview3 -> Prop) :
  holds lv p -> holds lv c -> p <> c -> lv_hole lv = None ->
  Q tt (with_held lv (release (release (lv_held lv) c) p), z) -> safe3 t (unlock_pos p c) (lv, z) Q.
Proof.
  intros Hp Hc Hpc Hh HQ. unfold unlock_pos. apply Conc.safe_bind. apply safe3_unlock'; auto.
  apply safe3_unlock'; auto. destruct Hp as [o Ho]. exists o. cbn. apply release_in. auto.
Qed.

Lemma safe3_validate t p c lv (z : st) (Q : bool -> lview3 -> Prop) :
  holds lv p -> holds lv c ->
  (forall F' H', incl (lv_facts lv) F' -> incl (lv_held lv) H' -> Q false (mkLV F' H' (lv_own lv) (lv_hole lv), z)) ->
  (forall F' H' x, incl (lv_facts lv) F' -> incl (lv_held lv) H' -> In (p, Some (c, false)) H' -> In (c, Some (x, false)) H' ->
        Q true (mkLV F' H' (lv_own lv) (lv_hole lv), z)) ->
  safe3 t (validate p c) (lv, z) Q.
Proof.
  intros Hp Hc HF HT. unfold validate.
  apply safe3_ld_held; [exact Hp|]. intros v1 _. destruct (vmark v1).
  { cbn [Conc.safe]. apply HF; [apply incl_app_r'|apply incl_tl; apply incl_refl]. }
  apply safe3_ld_held; [destruct Hc as [o Ho]; exists o; right; exact Ho|]. intros v2 _. cbn [lv_facts lv_held lv_own lv_hole].
  destruct (vmark v2) eqn:E2.
  { cbn [Conc.safe]. apply HF; [apply incl_appr; apply incl_app_r'|do 2 apply incl_tl; apply incl_refl]. }
  apply safe3_ld_held; [destruct Hp as [o Ho]; exists o; right; right; exact Ho|]. intros v3 _. cbn [lv_facts lv_held lv_own lv_hole Conc.safe].
  destruct (Nat.eqb_spec (vptr v3) c) as [E3|E3]; cbn [andb].
  - destruct (vmark v3) eqn:E4; cbn [negb].
    + apply HF; [do 2 apply incl_appr; apply incl_app_r'|do 3 apply incl_tl; apply incl_refl].
    + apply (HT _ _ (vptr v2)); [do 2 apply incl_appr; apply incl_app_r'|do 3 apply incl_tl; apply incl_refl| |].
      * left. rewrite E3. reflexivity.
      * right. left. reflexivity.
  - apply HF; [do 2 apply incl_appr; apply incl_app_r'|do 3 apply incl_tl; apply incl_refl].
Qed.

Lemma safe3_lock_pos fuel t p c lv (z : st) (Q : bool -> lview3 -> Prop) :
  pk (lv_facts lv) p -> pk (lv_facts lv) c ->
  (p <> c -> Q true (with_held lv ((c, None) :: (p, None) :: lv_held lv), z)) ->
  (forall H', Q false (with_held lv H', z)) ->
  safe3 t (lock_pos fuel p c) (lv, z) Q.
Proof.
  intros Hp Hc HT HF. unfold lock_pos. apply Conc.safe_bind. apply safe3_lock_outer; [exact Hp| |].
  - intros _. apply safe3_lock_outer; [exact Hc| |].
    + intros Hfree. cbn [with_held lv_facts lv_held lv_own lv_hole]. apply HT.
      intros ->. apply Hfree. exists None. left. reflexivity.
    + cbn [Conc.safe]. apply (HF ((p, None) :: lv_held lv)).
  - cbn [Conc.safe]. destruct lv as [F H o h]. apply (HF H).
Qed.

(** ** the critical sections *)
Definition QNone {R} (Q : option R -> lview3 -> Prop) : Prop := forall l, Q None l.

Lemma safe3_section {R} t sf pp pc k (body : prog (option R)) (retry : prog (option R)) lv (z : st) (Q : option R -> lview3 -> Prop) :
  found_ok (lv_facts lv) k pp pc -> lv_hole lv = None -> QNone Q ->
  (forall F' H' x, incl (lv_facts lv) F' -> pp <> vptr pc ->
        In (pp, Some (vptr pc, false)) H' -> In (vptr pc, Some (x, false)) H' ->
        safe3 t body (mkLV F' H' (lv_own lv) None, z) Q) ->
  (forall F' H', incl (lv_facts lv) F' -> safe3 t retry (mkLV F' H' (lv_own lv) None, z) Q) ->
  safe3 t (lk <- lock_pos sf pp (vptr pc) ;;
          if negb lk then Ret None
          else ok <- validate pp (vptr pc) ;;
               if ok then body else (_ <- unlock_pos pp (vptr pc) ;; retry)) (lv, z) Q.
Proof.
  intros Hf Hh HQ Hbody Hretry. destruct (found_pk _ _ _ _ Hf) as [Hp Hc].
  apply Conc.safe_bind. apply safe3_lock_pos; auto.
  - intros Hpc. cbn [negb]. apply Conc.safe_bind. apply safe3_validate.
    + exists None. right. left. reflexivity.
    + exists None. left. reflexivity.
    + intros F' H' HF HH. cbn [with_held lv_facts lv_held lv_own lv_hole] in *.
      apply Conc.safe_bind. apply safe3_unlock_pos; cbn [lv_held lv_hole]; auto.
      * exists None. apply HH. right. left. reflexivity.
      * exists None. apply HH. left. reflexivity.
      * cbn [with_held lv_facts lv_held lv_own lv_hole]. rewrite Hh. apply Hretry. exact HF.
    + intros F' H' x HF HH H1 H2. cbn [with_held lv_facts lv_held lv_own lv_hole] in *. rewrite Hh. eapply Hbody; eauto.
  - intros H'. cbn [negb Conc.safe]. apply HQ.
Qed.

Definition lin_if (b : bool) (o : set_op) (r : res) : st := if b then @Linearized SetSpec o r else @Pending SetSpec o.

(** ** the operation loops *)
Lemma safe3_insert_loop fuel : forall sf ic withf t g0 g1 k n nx lv o (Q : out bool -> lview3 -> Prop),
  lv_own lv = Some (n, k, nx) -> lv_hole lv = None -> ins_op o k -> QNone Q ->
  (forall b lv', lv_hole lv' = None -> Q (Some b) (lv', lin_if b o (ins_res o))) ->
  safe3 t (insert_loop fuel sf ic withf t g0 g1 k n) (lv, @Pending SetSpec o) Q.
Proof.
  induction fuel as [|f IH]; intros sf ic withf t g0 g1 k n nx lv o Q Hown Hh Hop HQN HQ; cbn [insert_loop].
  - cbn [Conc.safe]. apply HQN.
  - apply Conc.safe_bind. unfold search_from_head. apply safe3_search; [left; reflexivity|left; reflexivity|..].
    + intros F' _. cbn [Conc.safe]. apply HQN.
    + intros F' pp pc HF Hf. cbn beta iota.
      apply (safe3_section t sf pp pc k); auto.
      * intros F2 H2 x HF2 Hpc Hp Hc. cbn [with_facts lv_facts lv_own] in *. rewrite Hown.
        destruct (is_key pc k) eqn:Ek.
        -- apply Conc.safe_bind. apply safe3_unlock_pos; [eexists; exact Hp|eexists; exact Hc|exact Hpc|reflexivity|].
           cbn [Conc.safe]. apply (HQ false). reflexivity.
        -- unfold link_node. apply Conc.safe_bind.
           eapply safe3_st_own; [reflexivity|]. cbn [lv_facts lv_held lv_own lv_hole].
           eapply safe3_st_link with (kk := k) (pc := vptr pc); cbn [lv_facts lv_held lv_own lv_hole]; auto.
           ++ eapply klt_incl; [exact HF2|]. apply Hf.
           ++ eapply kgt_incl; [exact HF2|]. eapply found_kgt; eauto.
           ++ cbn [Conc.safe].
              assert (Hu : forall (Q' : unit -> lview3 -> Prop) lvx z, lv_held lvx = set_obs H2 pp (n, false) -> lv_hole lvx = None ->
                           Q' tt (with_held lvx (release (release (lv_held lvx) (vptr pc)) pp), z) -> safe3 t (unlock_pos pp (vptr pc)) (lvx, z) Q').
              { intros Q' lvx z E1 E2 HQ'. apply safe3_unlock_pos; auto; unfold holds; rewrite E1; eapply holds_set_obs; eauto. }
              destruct withf.
              ** apply safe3_emit_other; [reflexivity|reflexivity|]. apply Conc.safe_bind. apply Hu; [reflexivity|reflexivity|].
                 apply Conc.safe_bind. apply safe3_cnt_inc. cbn [Conc.safe]. apply (HQ true). reflexivity.
              ** apply Conc.safe_bind. apply Hu; [reflexivity|reflexivity|].
                 apply Conc.safe_bind. apply safe3_cnt_inc. cbn [Conc.safe]. apply (HQ true). reflexivity.
      * intros F2 H2 HF2. cbn [with_facts lv_own]. eapply IH; eauto.
Qed.

Lemma safe3_update_loop fuel : forall sf ic allow t g0 g1 k n nx lv (Q : out (bool * bool) -> lview3 -> Prop),
  lv_own lv = Some (n, k, nx) -> lv_hole lv = None -> QNone Q ->
  (forall lv', lv_hole lv' = None -> Q (Some (true, true)) (lv', @Linearized SetSpec (SUpdate k allow) (RPair true true))) ->
  (forall a lv', lv_hole lv' = None -> Q (Some (a, false)) (lv', @Pending SetSpec (SUpdate k allow))) ->
  safe3 t (update_loop fuel sf ic allow t g0 g1 k n) (lv, @Pending SetSpec (SUpdate k allow)) Q.
Proof.
  induction fuel as [|f IH]; intros sf ic allow t g0 g1 k n nx lv Q Hown Hh HQN HQT HQF; cbn [update_loop].
  - cbn [Conc.safe]. apply HQN.
  - apply Conc.safe_bind. unfold search_from_head. apply safe3_search; [left; reflexivity|left; reflexivity|..].
    + intros F' _. cbn [Conc.safe]. apply HQN.
    + intros F' pp pc HF Hf. cbn beta iota.
      apply (safe3_section t sf pp pc k); auto.
      * intros F2 H2 x HF2 Hpc Hp Hc. cbn [with_facts lv_facts lv_own] in *. rewrite Hown.
        destruct (is_key pc k) eqn:Ek.
        -- apply safe3_emit_other; [reflexivity|reflexivity|].
           apply Conc.safe_bind. apply safe3_unlock_pos; [eexists; exact Hp|eexists; exact Hc|exact Hpc|reflexivity|].
           cbn [Conc.safe]. apply HQF. reflexivity.
        -- destruct allow; cbn [negb].
           ++ unfold link_node. apply Conc.safe_bind.
              eapply safe3_st_own; [reflexivity|]. cbn [lv_facts lv_held lv_own lv_hole].
              eapply safe3_st_link with (kk := k) (pc := vptr pc); cbn [lv_facts lv_held lv_own lv_hole]; auto.
              ** eapply klt_incl; [exact HF2|]. apply Hf.
              ** eapply kgt_incl; [exact HF2|]. eapply found_kgt; eauto.
              ** right. reflexivity.
              ** cbn [Conc.safe]. apply safe3_emit_other; [reflexivity|reflexivity|]. apply Conc.safe_bind.
                 apply safe3_unlock_pos; auto; try (unfold holds; cbn [lv_held]; eapply holds_set_obs; eauto).
                 apply Conc.safe_bind. apply safe3_cnt_inc. cbn [Conc.safe]. apply HQT. reflexivity.
           ++ apply Conc.safe_bind. apply safe3_unlock_pos; [eexists; exact Hp|eexists; exact Hc|exact Hpc|reflexivity|].
              cbn [Conc.safe]. apply HQF. reflexivity.
      * intros F2 H2 HF2. cbn [with_facts lv_own]. eapply IH; eauto.
Qed.

Lemma safe3_erase_loop fuel : forall sf ic code mine t g0 g1 k lv (Q : out bool -> lview3 -> Prop),
  lv_hole lv = None -> QNone Q ->
  (forall b lv', lv_hole lv' = None -> Q (Some b) (lv', lin_if b (SErase k) (RBool true))) ->
  safe3 t (erase_loop fuel sf ic code mine t g0 g1 k) (lv, @Pending SetSpec (SErase k)) Q.
Proof.
  induction fuel as [|f IH]; intros sf ic code mine t g0 g1 k lv Q Hh HQN HQ; cbn [erase_loop].
  - cbn [Conc.safe]. apply HQN.
  - apply Conc.safe_bind. unfold search_from_head. apply safe3_search; [left; reflexivity|left; reflexivity|..].
    + intros F' _. cbn [Conc.safe]. apply HQN.
    + intros F' pp pc HF Hf. cbn beta iota.
      apply (safe3_section t sf pp pc k); auto.
      * intros F2 H2 x HF2 Hpc Hp Hc. cbn [with_facts lv_facts lv_own] in *.
        destruct (is_key pc k && (negb (Z.eqb code 6) || Nat.eqb (vptr pc) mine)) eqn:Ek.
        -- apply andb_true_iff in Ek. destruct Ek as [Ek _].
           pose proof (found_key _ _ _ _ Hf Ek) as Hfk.
           assert (Ekk : vkey pc = k).
           { unfold is_key in Ek. apply andb_true_iff in Ek. destruct Ek as [_ Ek]. apply Z.eqb_eq in Ek. exact Ek. }
           unfold unlink_node. apply Conc.safe_bind.
           apply safe3_ld_held; [exists (Some (x, false)); exact Hc|]. intros v Hag. cbn [lv_facts lv_held lv_own lv_hole].
           destruct (Hag x false Hc) as [Ev1 Ev2].
           eapply safe3_st_mark with (p := pp) (nx := vptr v) (kc := k); cbn [lv_facts lv_held lv_own lv_hole].
           ++ right. exact Hp.
           ++ left. rewrite Ev2. reflexivity.
           ++ apply in_or_app. right. apply HF2. rewrite <- Ekk. exact Hfk.
           ++ reflexivity.
           ++ eapply safe3_st_bypass; cbn [lv_facts lv_held lv_own lv_hole]; [reflexivity|].
              cbn [Conc.safe].
              set (H3 := set_obs (set_obs ((vptr pc, Some (vptr v, vmark v)) :: H2) (vptr pc) (HEAD, true)) pp (vptr v, false)).
              assert (Hu : forall (Q' : unit -> lview3 -> Prop) lvx z, lv_held lvx = H3 -> lv_hole lvx = None ->
                           Q' tt (with_held lvx (release (release (lv_held lvx) (vptr pc)) pp), z) -> safe3 t (unlock_pos pp (vptr pc)) (lvx, z) Q').
              { intros Q' lvx z E1 E2 HQ'. apply safe3_unlock_pos; auto; unfold holds; rewrite E1; unfold H3.
                - apply set_obs_holds. apply set_obs_holds. exists (Some (vptr pc, false)). right. exact Hp.
                - apply set_obs_holds. apply set_obs_holds. eexists. left. reflexivity. }
              destruct (Z.eqb code 5).
              ** apply safe3_emit_other; [reflexivity|reflexivity|]. apply Conc.safe_bind. apply Hu; [reflexivity|reflexivity|].
                 apply Conc.safe_bind. apply safe3_cnt_dec. apply Conc.safe_bind. apply safe3_retire. cbn [Conc.safe]. apply (HQ true). reflexivity.
              ** apply Conc.safe_bind. apply Hu; [reflexivity|reflexivity|].
                 apply Conc.safe_bind. apply safe3_cnt_dec. apply Conc.safe_bind. apply safe3_retire. cbn [Conc.safe]. apply (HQ true). reflexivity.
        -- apply Conc.safe_bind. apply safe3_unlock_pos; [eexists; exact Hp|eexists; exact Hc|exact Hpc|reflexivity|].
           cbn [Conc.safe]. apply (HQ false). reflexivity.
Qed.

(** ** one client operation *)
Definition Qop (Q : out lstate -> lview3 -> Prop) : Prop :=
  QNone Q /\ forall ls' lv', lv_hole lv' = None -> Q (Some ls') (lv', @Idle SetSpec).

Lemma safe3_give_up t l (Q : out lstate -> lview3 -> Prop) : QNone Q -> safe3 t give_up l Q.
Proof. intros HQ. destruct l as [lv z]. unfold give_up. apply safe3_emit_other; [reflexivity|reflexivity|]. cbn [Conc.safe]. apply HQ. Qed.

Lemma safe3_finish t gs fr (k : list nat -> prog (out lstate)) l (Q : out lstate -> lview3 -> Prop) :
  (forall fr', safe3 t (k fr') l Q) -> safe3 t (fr2 <- free_guards t gs fr ;; k fr2) l Q.
Proof. intros H. apply Conc.safe_bind. apply safe3_free_guards. exact H. Qed.

Lemma spec_op_erase code k x : code = 4 \/ code = 5 \/ code = 6 \/ code = 7 -> spec_op code k x = SErase k.
Proof. intros [->|[->|[->| ->]]]; reflexivity. Qed.

Lemma spec_op_contains code k x :
  Z.eqb code 1 || Z.eqb code 2 = false -> Z.eqb code 3 = false -> Z.eqb code 4 || Z.eqb code 5 = false ->
  Z.eqb code 6 = false -> Z.eqb code 7 = false -> spec_op code k x = SContains k.
Proof.
  intros E12 E3 E45 E6 E7. unfold MichaelListInv.spec_op. rewrite E12, E3.
  apply orb_false_iff in E12. destruct E12 as [E1 E2]. apply orb_false_iff in E45. destruct E45 as [E4 E5].
  apply Z.eqb_neq in E1, E2, E3, E4, E5, E6, E7.
  destruct (Z.leb_spec 4 code); cbn [andb]; [|reflexivity]. destruct (Z.leb_spec code 7); [lia|reflexivity].
Qed.

Lemma is_read_contains k r : is_read (SContains k) r = true.
Proof. destruct r; reflexivity. Qed.

Lemma safe3_run_op fuel sf ic t o ls lv (Q : out lstate -> lview3 -> Prop) :
  lv_hole lv = None -> Qop Q -> safe3 t (run_op fuel sf ic t o ls) (lv, @Idle SetSpec) Q.
Proof.
  intros Hh [HQN HQ]. unfold run_op.
  set (code := nth 0 o 0). set (k := nth 1 o 0). set (x := nth 2 o 0).
  destruct ls as [fr own]. destruct (alloc2 fr) as [[g0 g1] fr1].
  destruct (Z.leb 1 code && Z.leb code 10); [|cbn [Conc.safe]; apply HQ; exact Hh].
  unfold ev_inv. fold code k x. apply safe3_emit_inv.
  (* returning a result that was fixed at the linearization point / a result of an operation that did not modify *)
  assert (HretL : forall (r : lstate) op res a1 b1 lv', lv_hole lv' = None -> res_of op a1 b1 = res -> is_read op res = false ->
                    safe3 t (Emit [ev_ret a1 b1] (Ret (Some r))) (lv', @Linearized SetSpec op res) Q).
  { intros r op res a1 b1 lv' E E1 E2. unfold ev_ret. apply (safe3_emit_ret_lin t op res a1 b1); auto. cbn [Conc.safe]. apply HQ. exact E. }
  assert (HretR : forall (r : lstate) op a1 b1 lv', lv_hole lv' = None -> is_read op (res_of op a1 b1) = true ->
                    safe3 t (Emit [ev_ret a1 b1] (Ret (Some r))) (lv', @Pending SetSpec op) Q).
  { intros r op a1 b1 lv' E E1. unfold ev_ret. apply (safe3_emit_ret_read t op a1 b1); auto. cbn [Conc.safe]. apply HQ. exact E. }
  destruct (Z.eqb code 1 || Z.eqb code 2) eqn:E12.
  { assert (Eo : spec_op code k x = SInsert k) by (unfold MichaelListInv.spec_op; rewrite E12; reflexivity). rewrite Eo.
    apply safe3_alloc. intros n. cbn [vptr]. apply Conc.safe_bind.
    eapply (safe3_insert_loop fuel sf ic _ t g0 g1 k n 0%nat _ (SInsert k)); [reflexivity|exact Hh|left; reflexivity| |].
    - intros l. apply safe3_give_up. exact HQN.
    - intros b lv' E. apply safe3_finish. intros fr2. destruct b; cbn [lin_if zb].
      + apply HretL; auto.
      + apply HretR; auto. }
  destruct (Z.eqb code 3) eqn:E3.
  { assert (Eo : spec_op code k x = SUpdate k (Z.odd x)) by (unfold MichaelListInv.spec_op; rewrite E12, E3; reflexivity). rewrite Eo.
    apply safe3_alloc. intros n. cbn [vptr]. apply Conc.safe_bind.
    eapply (safe3_update_loop fuel sf ic (Z.odd x) t g0 g1 k n 0%nat); [reflexivity|exact Hh| | |].
    - intros l. apply safe3_give_up. exact HQN.
    - intros lv' E. apply safe3_finish. intros fr2. apply HretL; auto.
    - intros a lv' E. apply safe3_finish. intros fr2. apply HretR; auto. }
  destruct (Z.eqb code 4 || Z.eqb code 5) eqn:E45.
  { assert (Eo : spec_op code k x = SErase k).
    { apply spec_op_erase. apply orb_true_iff in E45. destruct E45 as [E|E]; apply Z.eqb_eq in E; auto. }
    rewrite Eo. apply Conc.safe_bind. apply safe3_erase_loop; [exact Hh| |].
    - intros l. apply safe3_give_up. exact HQN.
    - intros b lv' E. apply safe3_finish. intros fr2. destruct b; cbn [lin_if zb].
      + apply HretL; auto.
      + apply HretR; auto. }
  destruct (Z.eqb code 6) eqn:E6.
  { assert (Eo : spec_op code k x = SErase k) by (apply spec_op_erase; apply Z.eqb_eq in E6; auto). rewrite Eo.
    cbv zeta.
    assert (Hbody : forall m lv0, lv_hole lv0 = None ->
       safe3 t (r <- erase_loop fuel sf ic 6 m t g0 g1 k ;;
               match r with
               | None => give_up
               | Some b => fr2 <- free_guards t [g0; g1] fr1 ;;
                   Emit [ev_ret (zb b) (zb (negb (Nat.eqb (own_find k own) 0)))] (Ret (Some (fr2, if b then own_del k own else own)))
               end) (lv0, @Pending SetSpec (SErase k)) Q).
    { intros m lv0 E0. apply Conc.safe_bind. apply safe3_erase_loop; [exact E0| |].
      - intros l. apply safe3_give_up. exact HQN.
      - intros b lv' E. apply safe3_finish. intros fr2. destruct b; cbn [lin_if zb].
        + apply HretL; auto.
        + apply HretR; auto. }
    destruct (Nat.eqb (own_find k own) 0).
    - apply safe3_alloc. intros n. cbn [vptr]. apply Hbody. exact Hh.
    - apply Hbody. exact Hh. }
  destruct (Z.eqb code 7) eqn:E7.
  { assert (Eo : spec_op code k x = SErase k) by (apply spec_op_erase; apply Z.eqb_eq in E7; auto). rewrite Eo.
    apply Conc.safe_bind. apply safe3_erase_loop; [exact Hh| |].
    - intros l. apply safe3_give_up. exact HQN.
    - intros b lv' E. destruct b; cbn [lin_if].
      + apply safe3_finish. intros fr2. apply Conc.safe_bind. apply safe3_use_guarded.
        apply safe3_finish. intros fr3. apply HretL; auto.
      + apply safe3_finish. intros fr2. apply HretR; auto. }
  (* get, contains, find with functor: never a modifying operation *)
  rewrite (spec_op_contains code k x E12 E3 E45 E6 E7).
  assert (Hret : forall (r : lstate) a1 b1 lv', lv_hole lv' = None ->
                   safe3 t (Emit [ev_ret a1 b1] (Ret (Some r))) (lv', @Pending SetSpec (SContains k)) Q).
  { intros r a1 b1 lv' E. apply HretR; [exact E|apply is_read_contains]. }
  apply Conc.safe_bind. unfold search_from_head. apply safe3_search; [left; reflexivity|left; reflexivity|..].
  - intros F' _. apply safe3_give_up; auto.
  - intros F' pp pc HF Hf. cbn beta iota.
    destruct (Nat.eqb_spec (vptr pc) TAIL) as [ET|ET].
    { apply safe3_finish. intros fr2. apply Hret. exact Hh. }
    assert (Hpk : pk F' (vptr pc)) by (apply (found_pk _ _ _ _ Hf)).
    destruct (Z.eqb code 10).
    + apply Conc.safe_bind. apply safe3_lock_outer; [exact Hpk| |].
      * intros _. cbn [negb].
        apply safe3_ld_held; [exists None; left; reflexivity|]. intros v _. cbn [with_held with_facts lv_facts lv_held lv_own lv_hole].
        assert (Hu : forall (kk : prog (out lstate)) F2 H2, (forall H3, safe3 t kk (mkLV F2 H3 (lv_own lv) None, @Pending SetSpec (SContains k)) Q) ->
                       safe3 t (_ <- unlock (vptr pc) ;; kk) (mkLV F2 ((vptr pc, Some (vptr v, vmark v)) :: H2) (lv_own lv) None, @Pending SetSpec (SContains k)) Q).
        { intros kk F2 H2 Hkk. apply Conc.safe_bind. apply safe3_unlock'; [eexists; left; reflexivity|reflexivity|]. apply Hkk. }
        rewrite Hh.
        destruct (negb (vmark v) && Z.eqb (vkey pc) k).
        -- apply safe3_emit_other; [reflexivity|reflexivity|]. apply Hu. intros H3. apply safe3_finish. intros fr2. apply Hret. reflexivity.
        -- apply Hu. intros H3. apply safe3_finish. intros fr2. apply Hret. reflexivity.
      * cbn [negb]. apply safe3_give_up; auto.
    + apply safe3_ld; [exact Hpk|]. intros v _. cbv zeta.
      destruct (Z.eqb code 8 && (negb (vmark v) && Z.eqb (vkey pc) k)).
      * apply safe3_finish. intros fr2. apply Conc.safe_bind. apply safe3_use_guarded.
        apply safe3_finish. intros fr3. apply Hret. exact Hh.
      * apply safe3_finish. intros fr2. apply Hret. exact Hh.
Qed.

Lemma safe3_run_ops fuel sf ic t os : forall ls lv,
  lv_hole lv = None -> safe3 t (run_ops fuel sf ic t os ls) (lv, @Idle SetSpec) (fun _ _ => True).
Proof.
  induction os as [|o os IH]; intros ls lv Hh; cbn [run_ops]; [exact I|].
  apply Conc.safe_bind. apply safe3_run_op; [exact Hh|]. split.
  - intros l. exact I.
  - intros ls' lv' E. apply IH. exact E.
Qed.

Lemma safe3_thread fuel sf ic t os lv :
  lv_hole lv = None -> safe3 t (thread_prog fuel sf ic t os) (lv, @Idle SetSpec) (@Conc.QTrue lview3).
Proof.
  intros Hh. unfold thread_prog. apply safe3_neutral with (v := v0); [apply neutral3_begin|].
  eapply Conc.safe_weaken; [|apply safe3_run_ops; exact Hh]. intros; exact I.
Qed.

(** ** the initial configuration *)
Definition aux30 : aux3 := mkAux3 aux0 [] (fun _ => @Idle SetSpec).

Lemma init_ok3 fuel sf ic ths : Conc.cfg_ok view3 Inv3 (init_cfg fuel sf ic ths).
Proof.
  exists aux30. split.
  - exists []. split; [exact IS_init|]. constructor; cbn [aux30 c_atr c_st].
    + exists [], (fun _ => @Idle SetSpec). split; [reflexivity|]. split; [reflexivity|].
      intros k0. split; [discriminate|]. intros (n & [] & _).
    + reflexivity.
  - intros t p Hp. cbn [init_cfg Conc.threads] in Hp.
    destruct (thread_progs_nth _ _ _ _ _ _ _ Hp) as [os ->]. cbn [Nat.add].
    unfold view3. cbn [aux30 c_base c_st]. apply safe3_thread. reflexivity.
Qed.

(** ** the history of the modifying operations is linearizable, for every schedule.
    [upd_hist] keeps insert / update / erase / unlink / extract operations that modified the list (and every pending
    invocation); an operation that returned without modifying the list (failed insert, update of an existing key,
    failed erase, contains / find / get) is deleted together with its invocation.  The witness is explicit:
    the linearization points are link_node's second store and unlink_node's marking store. *)
Theorem lazy_updates_linearizable_partial fuel sf ic ths c :
  Conc.reach (init_cfg fuel sf ic ths) c ->
  exists atr, lp_valid SetSpec atr /\ erase atr = upd_hist (Conc.trace c).
Proof.
  intros Hr. destruct (Conc.reach_Inv (init_ok3 fuel sf ic ths) Hr) as (a & L & _ & [(S & st0 & H1 & _) H2]).
  exists (c_atr a). split; [exists (S, st0); exact H1|exact H2].
Qed.

Corollary lazy_updates_linearizable_partial' fuel sf ic ths c :
  Conc.reach (init_cfg fuel sf ic ths) c -> linearizable SetSpec (upd_hist (Conc.trace c)).
Proof.
  intros Hr. destruct (lazy_updates_linearizable_partial _ _ _ _ _ Hr) as (atr & Hv & <-).
  apply lp_valid_linearizable. exact Hv.
Qed.
