(** * DhpConsDScan: smr::scan as a whole (hazard collection over thread_list_ and the extension blocks, stage 2, under
      the big-step evaluator [dexec] of LV.Proofs.DhpConsDestroy: one scan running without interference) frees every
      retired object of the scanned record that is in no hazard cell.

    [scan_run_frees_unguarded]: for EVERY memory [g] (reachable or not) in which record [r] has a well-formed retired
    array ([Rinv c g r chain w]: LV.Proofs.DhpSeq), if the run of [scan c r] from [g] does not run out of loop fuel,
    then every pointer below the cursor of the array ([content g chain w] = [seq_final c r g]) that no hazard cell
    holds ([slot_get g s <> p] for every cell [s]) is handed to the disposer by that run.
    This is the whole program of LV.Model.Dhp.scan, not only its stage 2 with an arbitrary hazard list
    ([dhp_scan_frees_unguarded_partial]); it is not the statement over every interleaving
    ([dhp_scan_frees_unguarded_statement], refuted as written in LV.Proofs.DhpConsDScanRefute). *)
From Coq Require Import ZArith NArith List String Bool Lia PeanoNat Permutation.
From LV Require Import Base.Conc Base.Events Model.DhpLang Model.Dhp Proofs.DhpBase Proofs.DhpSeq Proofs.DhpSeqThm Proofs.DhpHist
  Proofs.DhpLangProofs Proofs.DhpInvB Proofs.DhpProofsC02 Proofs.DhpProofsC03 Proofs.DhpConsDestroy Proofs.DhpConsDRecs.
Import ListNotations.

(** [RO p Q g]: run from [g], [p] leaves the memory as it is, ends with None only after "outoffuel", and its result
    satisfies [Q] *)
Definition RO {R} (p : P R) (Q : R -> Prop) (g : G) : Prop :=
  fst (fst (dexec p g)) = g /\ (snd (dexec p g) = None -> In oof (snd (fst (dexec p g)))) /\
  (forall x, snd (dexec p g) = Some x -> Q x).

Lemma RO_ret {R} (x : R) (Q : R -> Prop) g : Q x -> RO (ret x) Q g.
Proof. intros H. unfold RO. cbn. split; auto. split; [discriminate|]. intros y E. inversion E. now subst. Qed.
Lemma RO_fuel_out {R} (Q : R -> Prop) g : RO (@fuel_out R) Q g.
Proof. unfold RO. cbn. split; auto. split; [intros _; now left|discriminate]. Qed.
Lemma RO_xbind {X Y} (p : P X) (q : X -> P Y) (Q : X -> Prop) (Q' : Y -> Prop) g :
  RO p Q g -> (forall x, Q x -> RO (q x) Q' g) -> RO (xbind p q) Q' g.
Proof.
  intros (A1 & A2 & A3) Hq. unfold RO. rewrite dexec_xbind. destruct (dexec p g) as [[g1 es1] [x|]]; cbn [fst snd] in *.
  - subst g1. destruct (Hq x (A3 x eq_refl)) as (B1 & B2 & B3). destruct (dexec (q x) g) as [[g2 es2] y]. cbn [fst snd] in *.
    split; auto. split; auto. intros E. apply in_or_app. right. auto.
  - split; auto. split; auto. discriminate.
Qed.
Lemma RO_act {X} (f : A X) (Q : X -> Prop) g : fst (fst (f g)) = g -> Q (snd (fst (f g))) -> RO (act f) Q g.
Proof.
  intros H1 H2. unfold RO, act. cbn [dexec]. destruct (f g) as [[g1 x] es]. cbn in *. split; auto. split; [discriminate|].
  intros y E. inversion E. now subst.
Qed.
Lemma RO_loc {X} (f : G -> G * X) (Q : X -> Prop) g : fst (f g) = g -> Q (snd (f g)) -> RO (loc f) Q g.
Proof.
  intros H1 H2. unfold RO, loc. cbn [dexec]. destruct (f g) as [g1 x]. cbn in *. split; auto. split; [discriminate|].
  intros y E. inversion E. now subst.
Qed.

(** every collected value was read from a hazard cell *)
Definition Hz (g : G) (pl : list nat) : Prop := forall v, In v pl -> exists s, slot_get g s = v.

Lemma RO_copy_hazards mk g : forall n i pl, Hz g pl -> RO (copy_hazards mk i n pl) (Hz g) g.
Proof.
  induction n as [|n IH]; intros i pl Hpl; cbn [copy_hazards]; [now apply RO_ret|].
  eapply RO_xbind with (Q := fun v => v = slot_get g (mk i)); [apply RO_act; reflexivity|].
  intros v ->. apply IH. destruct (Nat.eqb _ 0); [exact Hpl|]. intros v [<-|Hv]; [eexists; reflexivity|now apply Hpl].
Qed.

Lemma RO_scan_blocks c g : forall fuel b pl, Hz g pl -> RO (scan_blocks c fuel b pl) (Hz g) g.
Proof.
  induction fuel as [|f IH]; intros [bb|] pl Hpl; cbn [scan_blocks]; try (now apply RO_ret); [apply RO_fuel_out|].
  eapply RO_xbind; [apply RO_copy_hazards; exact Hpl|]. intros pl1 H1.
  eapply RO_xbind with (Q := fun _ => True); [apply RO_loc; auto|]. intros nb _. now apply IH.
Qed.

Lemma RO_scan_recs c g : forall fuel node pl, Hz g pl -> RO (scan_recs c fuel node pl) (Hz g) g.
Proof.
  induction fuel as [|f IH]; intros [n|] pl Hpl; cbn [scan_recs]; try (now apply RO_ret); [apply RO_fuel_out|].
  eapply RO_xbind with (Q := fun _ => True); [apply RO_act; auto|]. intros tid _.
  eapply RO_xbind with (Q := Hz g).
  - destruct (Nat.eqb tid 0); [now apply RO_ret|].
    eapply RO_xbind; [apply RO_copy_hazards; exact Hpl|]. intros pl0 H0.
    eapply RO_xbind with (Q := fun _ => True); [apply RO_act; auto|]. intros e _. now apply RO_scan_blocks.
  - intros pl1 H1. eapply RO_xbind with (Q := fun _ => True); [apply RO_loc; auto|]. intros nx _. now apply IH.
Qed.

Section Scan.
  Variable c : cfg.
  Hypothesis H4 : 4 <= c_RB c.

  Lemma Rinv_sync g r chain w : Rinv c g r chain w -> Rinv c (upd_rec g r (fun x => rs_sync (S (r_sync x)) x)) r chain w.
  Proof.
    intros I. pose proof I as [Ir _ _ _ _ _ _].
    apply Rinv_frame with (g := g); auto.
    - unfold upd_rec. cbn. rewrite upd_nth_length. lia.
    - rewrite grec_upd_rec_same by exact Ir. destruct (grec g r); cbn; auto.
  Qed.

  Lemma slot_get_sync g r s : slot_get (upd_rec g r (fun x => rs_sync (S (r_sync x)) x)) s = slot_get g s.
  Proof.
    destruct s as [r' i|b i]; cbn [slot_get]; [|reflexivity].
    destruct (Nat.eq_dec r r') as [<-|N]; [|now rewrite grec_upd_rec_other].
    destruct (Nat.lt_ge_cases r (List.length (recs g))) as [L|L]; [rewrite grec_upd_rec_same by exact L; destruct (grec g r); reflexivity|].
    unfold grec, upd_rec. cbn. now rewrite upd_nth_oob.
  Qed.

  Theorem scan_run_frees_unguarded g r chain w : Rinv c g r chain w ->
    ~ In oof (snd (fst (dexec (Dhp.scan c r) g))) ->
    forall p, In p (content g chain w) -> (forall s, slot_get g s <> p) -> In p (dispv (snd (fst (dexec (Dhp.scan c r) g)))).
  Proof.
    intros I Hno. unfold Dhp.scan in *. rewrite dexec_xbind in *. cbn [act dexec] in *. unfold a_faa_sync at 1 in Hno. unfold a_faa_sync at 1.
    set (g1 := upd_rec g r (fun x => rs_sync (S (r_sync x)) x)) in *.
    rewrite dexec_xbind in *. cbn [emit dexec] in *. rewrite dexec_xbind in *. cbn [act dexec] in *. unfold a_ld_tlist in *.
    rewrite dexec_xbind in *.
    destruct (RO_scan_recs c g1 (c_spin c) (tlist g1) [] (fun v Hv => match Hv with end)) as (A1 & A2 & A3).
    destruct (dexec (scan_recs c (c_spin c) (tlist g1) []) g1) as [[g2 es2] [pl|]]; cbn [fst snd] in *;
      [|exfalso; apply Hno; rewrite !in_app_iff; pose proof (A2 eq_refl); cbn; tauto].
    subst g2. specialize (A3 pl eq_refl).
    rewrite dexec_xbind in *. cbn [loc dexec] in *.
    pose proof (stage2_spec c pl g1 r chain w ltac:(lia) (Rinv_sync g r chain w I)) as S2.
    destruct (stage2 c r pl g1) as [g3 [freed ext]]. destruct S2 as (w' & _ & _ & Efr & _).
    rewrite dexec_xbind in *. cbn [emit dexec fst snd] in *.
    assert (Ec : content g1 chain w = content g chain w) by (unfold content, flat; reflexivity).
    rewrite Ec in Efr.
    match goal with |- context [dexec ?q g3] => destruct (dexec q g3) as [[g4 es4] o4] end.
    assert (Hfr : forall p, In p freed -> In p (dispv ((acc KFaa (obj_rec r 2) true) ++ ([ev_scanb r] ++ []) ++ (acc KLd obj_tlist true) ++ es2 ++ [] ++ (map ev_dispose freed ++ []) ++ es4)) ).
    { intros p Hp. rewrite !dispv_app, dispv_dispose. rewrite !in_app_iff. tauto. }
    intros p Hp Hs. cbn [fst snd]. apply Hfr. rewrite Efr. apply filter_In. split; [exact Hp|].
    unfold freef. apply negb_true_iff. destruct (memb p pl) eqn:M; auto. exfalso. apply memb_In in M.
    destruct (A3 p M) as (s & Es). unfold g1 in Es. rewrite slot_get_sync in Es. exact (Hs s Es).
  Qed.
End Scan.

(** ** non-vacuity: thread 1 guards object 5, thread 0 retires 5 and 6; a scan of record 0 from the memory reached then
       frees 6 (in no hazard cell) and keeps 5 *)
Definition xc : cfg := mkCfg 4 2 4 false 200 1 false.
Definition xths : list (list op) := map decode_ops
  [[[1]; [15;0;1]; [9;5]; [9;6]]; [[1]; [3;0]; [5;0;5]; [8;0;1]]]%Z.
Definition xg : G := Conc.shared (fst (Conc.run 5000 0 [] (init_cfg 5000 xc xths))).

Lemma scan_run_nonvacuous :
  Rinv xc xg 0 [0] 2 /\ ~ In oof (snd (fst (dexec (Dhp.scan xc 0) xg))) /\ content xg [0] 2 = [5; 6] /\
  (forall s, slot_get xg s <> 6) /\ dispv (snd (fst (dexec (Dhp.scan xc 0) xg))) = [6].
Proof.
  split; [|split; [|split; [vm_compute; reflexivity|split; [|vm_compute; reflexivity]]]].
  - constructor.
    + apply Nat.ltb_lt. vm_compute. reflexivity.
    + cbn [is_chain]. split; [vm_compute; reflexivity|]. split; [apply Nat.ltb_lt; vm_compute; reflexivity|].
      split; vm_compute; reflexivity.
    + constructor; [intros K; destruct K|constructor].
    + intros K; discriminate K.
    + vm_compute. reflexivity.
    + apply Nat.leb_le. vm_compute. reflexivity.
    + exists 0, 2. split; [vm_compute; reflexivity|]. split; [apply Nat.ltb_lt; vm_compute; reflexivity|].
      split; [vm_compute; reflexivity|]. split; [vm_compute; reflexivity|]. left. apply Nat.ltb_lt. vm_compute. reflexivity.
  - pose (f := fun e : ev => match e with EvCli n [] => String.eqb n "outoffuel" | _ => false end).
    match goal with |- ~ In _ ?l => assert (E : forallb (fun e => negb (f e)) l = true) by (vm_compute; reflexivity) end.
    intros K. rewrite forallb_forall in E. specialize (E _ K). discriminate E.
  - assert (E1 : map r_slots (recs xg) = [[0;0;0;0]; [5;0;0;0]]) by (vm_compute; reflexivity).
    assert (E2 : gbs xg = []) by (vm_compute; reflexivity).
    intros [r i|b i]; cbn [slot_get]; unfold grec, ggb.
    + rewrite <- (map_nth r_slots (recs xg) dflt_rec r), E1.
      destruct r as [|[|[|r]]]; destruct i as [|[|[|[|[|i]]]]]; cbn; intros K; discriminate K.
    + rewrite E2. destruct b as [|b]; destruct i as [|i]; cbn; intros K; discriminate K.
Qed.
