(** * The global invariant of the HP model: auxiliary state, per-thread views, [Inv].

    Auxiliary state = one view per thread (which record it is attached to, which records it owns otherwise,
    the progress of its current scan, the "claims" it holds on retired arrays) + a global map [a_eff] giving,
    for a retired array whose owner is in the middle of an update, the EFFECTIVE content (what the array will
    hold once the owner's pending [current_] store is done / what it still logically holds while help_scan moves
    it).  The balance invariant counts effective contents, so every term is non-negative. *)
From Coq Require Import ZArith List String Bool Lia PeanoNat.
From LV Require Import Base.Conc Base.Events Model.Hp Proofs.HpTrace.
Import ListNotations.
Local Open Scope string_scope.
Local Open Scope list_scope.

(** ** views *)
Inductive claim :=
| ClPush (r : nat) (p : Z)                 (* a_eff r = actual ++ [p] : retire announced, push pending *)
| ClAct (r : nat) (act eff : list Z).      (* actual content known = act, effective content = eff *)
Definition crec (c : claim) : nat := match c with ClPush r _ => r | ClAct r _ _ => r end.

Record scanv := mkScan {
  sc_coll : list Z;                 (* non-null hazard values read so far *)
  sc_todo : option (list nat);      (* None: thread_list_ not loaded yet; Some l: records still to visit *)
  sc_cur : option (nat * nat)       (* record being visited and number of its slots already read *)
}.

Record lview := mkV {
  v_rec : option nat;       (* the record the thread is attached to *)
  v_held : list nat;        (* records owned otherwise: created but not yet pushed / claimed by help_scan *)
  v_clr : nat;              (* slots below this index of the attached record are known to be null *)
  v_scan : option scanv;
  v_cl : list claim;
  v_seen : list nat;        (* records known to be in thread_list_ *)
  v_op : option ev;         (* start event of the operation in progress (open_op of the trace) *)
  v_val : option (nat * nat * Z * option nat)
                            (* last slot store (r, j, x) of the thread, and the source from which x was re-loaded since *)
}.

Record Aux := mkAux { a_view : nat -> lview; a_eff : nat -> option (list Z) }.
Definition view (a : Aux) (t : nat) : lview := a_view a t.

Definition v0 : lview := mkV None [] 0 None [] [] None None.
Definition aux0 : Aux := mkAux (fun _ => v0) (fun _ => None).

Definition upd_view (a : Aux) (t : nat) (v : lview) : Aux :=
  mkAux (fun x => if Nat.eqb x t then v else a_view a x) (a_eff a).
Definition upd_eff (a : Aux) (r : nat) (o : option (list Z)) : Aux :=
  mkAux (a_view a) (fun x => if Nat.eqb x r then o else a_eff a x).

Lemma view_upd_same a t v : view (upd_view a t v) t = v.
Proof. unfold view, upd_view; cbn. now rewrite Nat.eqb_refl. Qed.
Lemma view_upd_other a t v t' : t' <> t -> view (upd_view a t v) t' = view a t'.
Proof. unfold view, upd_view; cbn. intros H. destruct (Nat.eqb_spec t' t); congruence. Qed.
Lemma frame_upd_view a t v : Conc.frame view t a (upd_view a t v).
Proof. intros t' H. now apply view_upd_other. Qed.
Lemma view_upd_eff a r o t : view (upd_eff a r o) t = view a t.
Proof. reflexivity. Qed.
Lemma frame_refl a t : Conc.frame view t a a.
Proof. intros ? ?; reflexivity. Qed.
Lemma frame_trans t a b c : Conc.frame view t a b -> Conc.frame view t b c -> Conc.frame view t a c.
Proof. intros H1 H2 t' Hne. rewrite (H2 t' Hne). apply H1; exact Hne. Qed.
Lemma frame_upd_eff a t r o : Conc.frame view t a (upd_eff a r o).
Proof. intros ? ?; reflexivity. Qed.

Definition owns (v : lview) (r : nat) : Prop := v_rec v = Some r \/ In r (v_held v).

(** ** record accessors *)
Lemma get_rec_lt g r : r < List.length (g_recs g) -> nth_error (g_recs g) r = Some (get_rec g r).
Proof.
  intros H. unfold get_rec. destruct (nth_error (g_recs g) r) eqn:E.
  - now rewrite (nth_error_nth _ _ _ E).
  - apply nth_error_None in E. lia.
Qed.
Lemma get_rec_ge g r : List.length (g_recs g) <= r -> get_rec g r = dead_rec.
Proof. intros H. unfold get_rec. now apply nth_overflow. Qed.

Lemma upd_nth_length {A} (l : list A) n f : List.length (upd_nth l n f) = List.length l.
Proof. revert n; induction l as [|x l IH]; intros [|n]; cbn; auto. Qed.
Lemma nth_upd_nth_same {A} (l : list A) n f d : n < List.length l -> nth n (upd_nth l n f) d = f (nth n l d).
Proof. revert n; induction l as [|x l IH]; intros [|n] H; cbn in *; try lia; auto. apply IH; lia. Qed.
Lemma nth_upd_nth_other {A} (l : list A) n m f d : n <> m -> nth m (upd_nth l n f) d = nth m l d.
Proof. revert n m; induction l as [|x l IH]; intros [|n] [|m] H; cbn; auto; try congruence. Qed.

Lemma get_upd_same g r f : r < List.length (g_recs g) -> get_rec (upd_rec g r f) r = f (get_rec g r).
Proof. intros H. unfold get_rec, upd_rec; cbn. now apply nth_upd_nth_same. Qed.
Lemma get_upd_other g r f r' : r' <> r -> get_rec (upd_rec g r f) r' = get_rec g r'.
Proof. intros H. unfold get_rec, upd_rec; cbn. apply nth_upd_nth_other. congruence. Qed.
Lemma upd_rec_length g r f : List.length (g_recs (upd_rec g r f)) = List.length (g_recs g).
Proof. unfold upd_rec; cbn. apply upd_nth_length. Qed.
Lemma upd_rec_list g r f : g_list (upd_rec g r f) = g_list g.
Proof. reflexivity. Qed.
Lemma upd_rec_ge g r f : List.length (g_recs g) <= r -> upd_rec g r f = g.
Proof.
  intros H. unfold upd_rec. destruct g as [gl recs srcs]; cbn in *. f_equal.
  revert r H. induction recs as [|x l IH]; intros [|r] H; cbn in *; auto; try lia. f_equal. apply IH. lia.
Qed.

(** ** effective contents and the pending multiset *)
Definition effc (g : G) (a : Aux) (r : nat) : list Z :=
  match a_eff a r with Some x => x | None => r_ret (get_rec g r) end.

Fixpoint pend_upto (p : Z) (g : G) (a : Aux) (n : nat) : Z :=
  match n with
  | O => 0
  | S k => pend_upto p g a k + countZ p (effc g a k)
  end%Z.
Definition pend (p : Z) (g : G) (a : Aux) : Z := pend_upto p g a (List.length (g_recs g)).

Lemma pend_upto_ext p g a g' a' n :
  (forall r, r < n -> effc g' a' r = effc g a r) -> pend_upto p g' a' n = pend_upto p g a n.
Proof.
  induction n as [|n IH]; intros H; cbn; [reflexivity|]. rewrite IH by (intros; apply H; lia).
  rewrite H by lia. reflexivity.
Qed.

Lemma pend_upto_change p g a g' a' n r0 :
  (forall r, r < n -> r <> r0 -> effc g' a' r = effc g a r) -> r0 < n ->
  pend_upto p g' a' n = (pend_upto p g a n - countZ p (effc g a r0) + countZ p (effc g' a' r0))%Z.
Proof.
  induction n as [|n IH]; intros H Hlt; [lia|]. cbn.
  destruct (Nat.eq_dec r0 n) as [->|Hne].
  - rewrite (pend_upto_ext p g a g' a') by (intros; apply H; lia). lia.
  - rewrite IH by (try lia; intros; apply H; lia). rewrite (H n) by lia. lia.
Qed.

Lemma pend_upto_nonneg p g a n : (0 <= pend_upto p g a n)%Z.
Proof. induction n as [|n IH]; cbn; [lia|]. pose proof (countZ_nonneg p (effc g a n)). lia. Qed.

Lemma pend_upto_ge p g a n r : r < n -> (countZ p (effc g a r) <= pend_upto p g a n)%Z.
Proof.
  induction n as [|n IH]; intros H; [lia|]. cbn.
  pose proof (pend_upto_nonneg p g a n). pose proof (countZ_nonneg p (effc g a n)).
  destruct (Nat.eq_dec r n) as [->|Hne]; [lia|]. specialize (IH ltac:(lia)). lia.
Qed.

(** ** the invariant *)
Definition claim_ok (g : G) (a : Aux) (c : claim) : Prop :=
  match c with
  | ClPush r p => a_eff a r = Some (r_ret (get_rec g r) ++ [p])
  | ClAct r act eff => r_ret (get_rec g r) = act /\ a_eff a r = Some eff
  end.

Definition covered (H : nat) (sv : scanv) (r j : nat) : Prop :=
  match sc_todo sv with
  | None => False
  | Some td => ~ In r td \/ (exists k, sc_cur sv = Some (r, k) /\ (j < k \/ H <= j))
  end.

Definition retire_once (tr : trace) : Prop := forall p, (cnt "retire" p tr <= 1)%Z.

Definition resp_names : list string := resp_names'.
Definition is_resp (e : ev) : bool := is_resp' e.
Definition resp_last (tr : trace) (t : nat) : Prop :=
  match last_ev tr t with None => True | Some e => is_resp e = true end.
Definition idle (v : lview) : Prop := v_held v = [] /\ v_cl v = [].

Definition ev_scan_end (r : nat) (kept : list Z) : ev := EvCli "g_scan_end" (zn r :: kept).

(** a value observed in some hazard slot at some step of the interval [s, e] *)
Definition seen_in (tr : trace) (s e : nat) (v : Z) : Prop :=
  exists r j i, s <= i <= e /\ slot_at (firstn i tr) r j = v.

Definition ev_retire (p : Z) : ev := EvCli "retire" [p].
(** some thread announced retire(p) at an index below [n] *)
Definition retired_before (tr : trace) (n : nat) (p : Z) : Prop :=
  exists i u, i < n /\ nth_error tr i = Some (u, ev_retire p).

(** preconditions under which the retired arrays cannot overflow: at most P records in thread_list_, capacity
    above H*P (documented, and enforced by calc_retired_size since /repo 756de95), no object retired twice *)
Definition ovf_cond (c : cfgT) (g : G) (tr : trace) : Prop :=
  List.length (g_list g) <= cP c /\ cH c * cP c < cR c /\ retire_once tr.
(** a claim of a scan / of help_scan's source: its effective content is not longer than the actual one *)
Definition shrinking_claim_on (r : nat) (cl : claim) : Prop :=
  exists act eff, cl = ClAct r act eff /\ List.length eff <= List.length act.
Definition collsz_ok (c : cfgT) (g : G) (sv : scanv) : Prop :=
  match sc_todo sv with
  | None => sc_coll sv = []
  | Some td => List.length (sc_coll sv) + cH c * List.length td <=
               cH c * List.length (g_list g) + match sc_cur sv with Some (_, k) => k | None => 0 end
  end.

Record Inv (c : cfgT) (g : G) (a : Aux) (tr : trace) : Prop := mkInv {
  i_slot : forall r j, slot_at tr r j = gslot g r j;
  i_zero_unowned : forall r j, r_owner (get_rec g r) = false -> gslot g r j = 0%Z;
  i_zero_unlisted : forall r j, ~ In r (g_list g) -> gslot g r j = 0%Z;
  i_zero_hi : forall r j, cH c <= j -> gslot g r j = 0%Z;
  i_list_lt : forall r, In r (g_list g) -> r < List.length (g_recs g);
  i_rec : forall t r, v_rec (view a t) = Some r -> r_owner (get_rec g r) = true /\ In r (g_list g);
  i_held : forall t r, In r (v_held (view a t)) ->
             r < List.length (g_recs g) /\ r_owner (get_rec g r) = true /\ forall j, gslot g r j = 0%Z;
  i_excl : forall t t' r, owns (view a t) r -> owns (view a t') r -> t = t';
  i_self : forall t, NoDup (v_held (view a t)) /\
                     forall r, v_rec (view a t) = Some r -> ~ In r (v_held (view a t));
  i_clr : forall t r j, v_rec (view a t) = Some r -> j < v_clr (view a t) -> gslot g r j = 0%Z;
  i_unl : forall r, r < List.length (g_recs g) -> In r (g_list g) \/ exists t, In r (v_held (view a t));
  i_seen : forall t r, In r (v_seen (view a t)) -> In r (g_list g);
  i_claim : forall t cl, In cl (v_cl (view a t)) -> owns (view a t) (crec cl) /\ claim_ok g a cl;
  i_claim_nd : forall t, NoDup (map crec (v_cl (view a t)));
  i_eff : forall r x, a_eff a r = Some x -> exists t cl, In cl (v_cl (view a t)) /\ crec cl = r;
  i_bal : forall p, cnt "retire" p tr = (cnt "dispose" p tr + cnt "overflow" p tr + pend p g a)%Z;
  i_cov : forall t sv, v_scan (view a t) = Some sv ->
            exists s, last_sb tr t = Some s /\
              (forall r j v, covered (cH c) sv r j -> v <> 0%Z -> held tr s r j v -> In v (sc_coll sv)) /\
              (forall v, In v (sc_coll sv) -> seen_in tr s (List.length tr) v);
  i_safe : forall d t p s, nth_error tr d = Some (t, ev_dispose p) -> last_sb (firstn d tr) t = Some s ->
             (cInplace c = true -> retire_once (firstn d tr)) -> p <> 0%Z ->
             forall r j, ~ held (firstn (S d) tr) s r j p;
  i_kept : forall e t r kept s, nth_error tr e = Some (t, ev_scan_end r kept) ->
             last_sb (firstn e tr) t = Some s -> forall p, In p kept -> seen_in tr s e p;
  i_idle : forall t, resp_last tr t -> idle (view a t);
  (* every cell of every retired array went through retire(); the cells a scanning thread works on were
     retired before its scan began; hence so was everything a scan disposes *)
  i_retd : forall r p, In p (effc g a r) -> retired_before tr (List.length tr) p;
  i_retd_scan : forall t sv r s, v_scan (view a t) = Some sv -> v_rec (view a t) = Some r ->
                  last_sb tr t = Some s -> forall p, In p (effc g a r) -> retired_before tr s p;
  i_pre : forall d t p, nth_error tr d = Some (t, ev_dispose p) ->
            exists s, last_sb (firstn d tr) t = Some s /\ retired_before tr s p;
  (* sizes: a scan has collected at most H values per record visited; under [ovf_cond] an array holds fewer than
     R cells except while its owner is between the push that filled it and the end of the scan that follows *)
  i_collsz : forall t sv, v_scan (view a t) = Some sv -> collsz_ok c g sv;
  i_size : ovf_cond c g tr -> forall r,
             List.length (r_ret (get_rec g r)) < cR c \/
             exists t cl, In cl (v_cl (view a t)) /\ shrinking_claim_on r cl;
  i_noovf : ovf_cond c g tr -> forall p, cnt "overflow" p tr = 0%Z;
  (* attachment, current operation, last slot store and client sources as the trace records them *)
  i_tr : TrOK tr;
  i_att : forall t, att_at tr t = v_rec (view a t);
  i_op : forall t e0, v_op (view a t) = Some e0 -> open_op tr t = Some e0;
  i_val : forall t r j x ok, v_val (view a t) = Some (r, j, x, ok) -> val_pat tr t r j x ok;
  i_src : forall k, src_at tr k = g_srcs g k
}.
