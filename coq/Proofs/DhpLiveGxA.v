(** * DhpLiveGxA: C02, second sentence for DHP, from the hazard cell to the client's Guard object.  Part X-A: the client
      operations [run_op], whole threads and the initial configuration for the invariant [InvG] of DhpLiveGcC (on top of
      the C02 invariant [InvA], rule [dsafe_pair] of DhpLiveGcRule), hence [dhp_TPropG]: in every reachable
      configuration, if the free lists behaved and the allocator discipline [cell_disc] holds of the trace, every event
      satisfies [PhiG] (the Guard-index -> cell table of every thread is what its "_own" events and completed ~Guard()
      say; every store to a hazard cell is justified; protect() answered after a store that hit the cell of its Guard). *)
From Coq Require Import ZArith NArith List String Bool Lia PeanoNat.
From LV Require Import Base.Conc Base.Events Model.DhpLang Model.Dhp Proofs.DhpBase Proofs.DhpHist
  Proofs.DhpLangProofs Proofs.DhpInvA Proofs.DhpMainB Proofs.DhpProofsC02 Proofs.DhpLiveA Proofs.DhpLiveB
  Proofs.DhpLiveGcRule Proofs.DhpLiveGcA Proofs.DhpLiveGcB Proofs.DhpLiveGcC Proofs.DhpLiveGcD.
Import ListNotations.
Local Open Scope string_scope.
Local Open Scope list_scope.

(** the client-side state [L] of a thread between two operations and its view agree (the announced operation [w_op]
    is irrelevant between operations: a refused operation leaves it behind, the next "op" overwrites it) *)
Definition RelG (L : Dhp.L) (l : VG) : Prop :=
  w_tl l = l_tls L /\ w_mp l = l_guards L /\ (l_tls L = None -> l_guards L = []).

Definition QopG : option Dhp.L -> VG -> Prop := fun o l' => match o with Some L' => RelG L' l' | None => True end.

Lemma drop_of_not4 z args m : z <> 4%Z -> drop_of (z :: args) m = m.
Proof.
  intros N. unfold drop_of. destruct z as [|p|p]; try reflexivity.
  destruct p as [p|p|]; try reflexivity. destruct p as [p|p|]; try reflexivity. destruct p; try reflexivity.
  now destruct N.
Qed.
Lemma drop_of_4 j m : drop_of [4%Z; zn j] m = gdrop m j.
Proof. cbn. unfold zn. now rewrite Nat2Z.id. Qed.
Lemma zn_not4 code : code <> 4 -> zn code <> 4%Z.
Proof. unfold zn. lia. Qed.
Lemma zn_not7 code args j k : code <> 7 -> zn code :: args <> [7%Z; zn j; zn k].
Proof. intros N E. inversion E. unfold zn in *. lia. Qed.

Lemma noneb_skip : noneb (EvCli "skip" []) = true. Proof. reflexivity. Qed.
Lemma noneb_err : noneb (EvCli "modelerror" []) = true. Proof. reflexivity. Qed.

Section Cli.
  Variable c : cfg.
  Notation rds := (rdsafe (InvA c) viewG (InvG c)).
  Notation I1A := (I1 (InvA c)).

  (** "op": the thread announces an operation *)
  Lemma rds_inv {Y} t code args (q : P Y) l Q :
    rds t q (mkVG (zl (code :: args)) (w_tl l) (w_mp l) (w_pv l) None false) Q ->
    rds t (inv code args ;;; q) l Q.
  Proof.
    intros H. unfold inv, xbind, emit. cbn [dbind]. apply rds_emit. intros g a tr Hi Hv _ _.
    assert (E1 : gstep a (t, EvCli "op" (zl (code :: args))) =
                 mkGS (Datatypes.S (glen a)) (fnu (gop a) t (zl (code :: args))) (gtl a) (gmp a) (gpv a) (fnu (gsl a) t None) (fnu (gac a) t false)).
    { reflexivity. }
    split.
    - apply (InvG_intro c g); [exact Hi|]. intros Hf Hd. destruct (InvG_open _ _ _ _ _ Hi Hf Hd) as (Ea & _ & _ & _ & V & _).
      split.
      + intros i e Hn. destruct i as [|[|i]]; cbn in Hn; try discriminate. inversion Hn; subst e.
        unfold PhiG. rewrite gcls_op. repeat split; intros; try congruence.
        match goal with H : GOp _ = GOp _ |- _ => injection H as <- end.
        apply Forall_forall. intros z Hz. change (In z (map zn (code :: args))) in Hz. apply in_map_iff in Hz.
        destruct Hz as (n & <- & _). unfold zn. lia.
      + cbn [Conc.tag map fold_left]. rewrite E1. intros u j k. cbn [gop gac gsl]. unfold fnu.
        destruct (Nat.eqb_spec u t) as [->|N]; [discriminate|apply V].
    - cbn [Conc.tag map fold_left]. rewrite E1. subst l. unfold viewG. cbn. rewrite !fnu_same. exact H.
  Qed.

  (** a refused operation *)
  Lemma rds_skip_ret t (L : Dhp.L) l : RelG L l -> rds t (skip ;;; ret L) l QopG.
  Proof.
    intros HR. unfold skip, xbind, emit, ret. cbn [dbind]. apply rds_emit_none; [repeat constructor|]. exact HR.
  Qed.

  (** "ret" of an operation other than protect *)
  Lemma rds_rsp_ret t v (L : Dhp.L) l code args : w_op l = zn code :: args -> code <> 7 ->
    RelG L (mkVG [] (w_tl l) (drop_of (w_op l) (w_mp l)) (w_pv l) (w_sl l) (w_ac l)) ->
    rds t (rsp v ;;; ret L) l QopG.
  Proof.
    intros Hop N7 HR. unfold rsp, xbind, emit, ret. cbn [dbind]. apply rds_emit. intros g a tr Hi Hv _ _.
    assert (E1 : gstep a (t, EvCli "ret" [zn v]) =
                 mkGS (Datatypes.S (glen a)) (fnu (gop a) t []) (gtl a) (fnu (gmp a) t (drop_of (gop a t) (gmp a t))) (gpv a) (gsl a) (gac a)).
    { reflexivity. }
    assert (Ho : gop a t = zn code :: args) by (change (gop a t) with (w_op (viewG a t)); rewrite Hv; exact Hop).
    split.
    - apply (InvG_intro c g); [exact Hi|]. intros Hf Hd. destruct (InvG_open _ _ _ _ _ Hi Hf Hd) as (Ea & _ & _ & _ & V & _).
      split.
      + intros i e Hn. destruct i as [|[|i]]; cbn in Hn; try discriminate. inversion Hn; subst e.
        cbn [firstn Conc.tag map]. rewrite app_nil_r, <- Ea.
        unfold PhiG. rewrite gcls_ret. repeat split; intros; try congruence.
        exfalso. rewrite Ho in H0. eapply zn_not7; eauto.
      + cbn [Conc.tag map fold_left]. rewrite E1. intros u j k. cbn [gop gac gsl]. unfold fnu.
        destruct (Nat.eqb_spec u t) as [->|Nu]; [discriminate|apply V].
    - cbn [Conc.tag map fold_left]. rewrite E1. cbn [rdsafe QopG]. subst l. unfold viewG in *. cbn in *. rewrite !fnu_same. exact HR.
  Qed.

  Lemma RelG_keep L l code args : RelG L l -> w_op l = zn code :: args -> code <> 4 ->
    forall pv sl ac, RelG L (mkVG [] (w_tl l) (drop_of (w_op l) (w_mp l)) pv sl ac).
  Proof.
    intros (A1 & A2 & A3) Hop N4 pv sl ac. unfold RelG. cbn. rewrite Hop, drop_of_not4 by (now apply zn_not4). auto.
  Qed.

  (** a library program in the middle of an operation *)
  Lemma rds_neu {X} t (p : P X) (q : X -> P Dhp.L) l : Neu c p -> (forall x, rds t (q x) l QopG) -> rds t (xbind p q) l QopG.
  Proof. intros Hp Hq. apply rds_neu_seq; auto. exact I. Qed.

  Lemma Rslot_RelG L l l' : Rslot l l' -> RelG L l -> RelG L l'.
  Proof. intros (A1&A2&A3&A4) (B1&B2&B3). unfold RelG. rewrite A2, A3. auto. Qed.

  (** Guard::protect: every store goes to the cell of the Guard; when the loop leaves, the last store hit that cell *)
  Lemma S_protect_loop t r s k j k0 : forall fuel pcur l, w_op l = [7%Z; zn j; zn k0] -> gfind (w_mp l) j = Some s ->
    rds t (protect_loop fuel r s k pcur) l
      (fun o l' => Rslot l l' /\ match o with Some _ => w_ac l' = true /\ (forall n s', w_sl l' = Some (n, s') -> s' = s) | None => True end).
  Proof.
    induction fuel as [|fuel IH]; intros pcur l Hop Hg; cbn [protect_loop].
    { unfold fuel_out. apply rds_emit_none; [repeat constructor|]. cbn [rdsafe]. split; [apply Rslot_refl|exact I]. }
    xact. apply (rds_st_slot_protect c t s pcur j k0); [exact Hop|exact Hg|]. intros l1 R1 Ac1 Sl1.
    xact. apply rds_act_none; [apply n_faa_sync|]. intros _.
    xact. apply rds_act_none; [apply n_ld_src|]. intros v.
    destruct (Nat.eqb v pcur).
    - cbn [rdsafe ret]. split; [exact R1|]. split; [exact Ac1|exact Sl1].
    - pose proof R1 as (A1&A2&A3&A4). eapply rdsafe_weaken; [|apply (IH v l1); congruence].
      intros o l2 (R2 & K2). split; [eapply Rslot_trans; eauto|exact K2].
  Qed.

  (** "_att": the record is not attached (its thread_id_ names this thread, so no other thread believes it is attached
      to it: [k_at] + [ja_att] before and after the event) *)
  Lemma rds_att {R} t r (k : @dprog G ev R) l Q : w_tl l = None ->
    rds t k (mkVG (w_op l) (Some r) (w_mp l) (w_pv l) (w_sl l) (w_ac l)) Q -> rds t (DEmit [ev_att r] k) l Q.
  Proof.
    intros Htl H. apply rds_emit. intros g a tr Hi Hv (a1 & Hb) (a1' & Ha).
    assert (E1 : gstep a (t, ev_att r) = mkGS (Datatypes.S (glen a)) (gop a) (fnu (gtl a) t (Some r)) (gmp a) (gpv a) (gsl a) (gac a)).
    { unfold gstep. cbn [fst snd]. now rewrite gcls_att. }
    split.
    - apply (InvG_intro c g); [exact Hi|]. intros Hf Hd. destruct (InvG_open _ _ _ _ _ Hi Hf Hd) as (Ea & Hf0 & _ & _ & V & HK).
      split.
      + intros i e Hn. destruct i as [|[|i]]; cbn in Hn; try discriminate. inversion Hn; subst e.
        cbn [firstn Conc.tag map]. rewrite app_nil_r, <- Ea.
        unfold PhiG. rewrite gcls_att. repeat split; intros; try congruence;
          match goal with H : GAtt _ = GAtt _ |- _ => injection H as <- end.
        * change (gtl a t) with (w_tl (viewG a t)). rewrite Hv. exact Htl.
        * intros Et'. destruct (k_at _ _ _ HK _ _ Et') as (k0 & A0).
          destruct (Hb Hf0) as (JB & _). destruct (Ha Hf) as (JA' & _).
          destruct (ja_att _ _ _ _ JB r t' k0 A0) as (_ & T1 & _).
          assert (A1 : att (hist (tr ++ Conc.tag t [ev_att r])) r = Some (t, hlen (hist tr))).
          { cbn [Conc.tag map]. rewrite hist_snoc, hstep_att. cbn [att]. unfold fupd. now rewrite Nat.eqb_refl. }
          destruct (ja_att _ _ _ _ JA' r t _ A1) as (_ & T2 & _).
          assert (t' = t) by congruence. subst t'.
          change (gtl a t) with (w_tl (viewG a t)) in Et'. rewrite Hv, Htl in Et'. discriminate.
      + cbn [Conc.tag map fold_left]. rewrite E1. intros u j k0. cbn [gop gac gsl]. apply V.
    - cbn [Conc.tag map fold_left]. rewrite E1. subst l. unfold viewG. cbn. rewrite !fnu_same. exact H.
  Qed.

  (** "_own": Guard j of the thread is given cell s *)
  Lemma rds_own {R} t s j (k : @dprog G ev R) l Q : w_op l = [3%Z; zn j] -> gfind (w_mp l) j = None ->
    rds t k (mkVG (w_op l) (w_tl l) ((j, s) :: w_mp l) (w_pv l) (w_sl l) (w_ac l)) Q -> rds t (DEmit [ev_own s] k) l Q.
  Proof.
    intros Hop Hg H. apply rds_emit. intros g a tr Hi Hv _ _.
    assert (Ho : gop a t = [3%Z; zn j]) by (change (gop a t) with (w_op (viewG a t)); rewrite Hv; exact Hop).
    assert (E1 : gstep a (t, ev_own s) = mkGS (Datatypes.S (glen a)) (gop a) (gtl a) (fnu (gmp a) t ((j, s) :: gmp a t)) (gpv a) (gsl a) (gac a)).
    { unfold gstep. cbn [fst snd]. rewrite gcls_own, Ho. cbn [own_of]. unfold zn. now rewrite Nat2Z.id. }
    split.
    - apply (InvG_intro c g); [exact Hi|]. intros Hf Hd. destruct (InvG_open _ _ _ _ _ Hi Hf Hd) as (Ea & _ & _ & _ & V & _).
      split.
      + intros i e Hn. destruct i as [|[|i]]; cbn in Hn; try discriminate. inversion Hn; subst e.
        cbn [firstn Conc.tag map]. rewrite app_nil_r, <- Ea.
        unfold PhiG. rewrite gcls_own. repeat split; intros; try congruence.
        exists j. split; [exact Ho|]. change (gmp a t) with (w_mp (viewG a t)). rewrite Hv. exact Hg.
      + cbn [Conc.tag map fold_left]. rewrite E1. intros u j0 k0. cbn [gop gac gsl]. apply V.
    - cbn [Conc.tag map fold_left]. rewrite E1. subst l. unfold viewG. cbn. rewrite !fnu_same. exact H.
  Qed.

  (** "ret" of protect: the last store hit the cell of the Guard *)
  Lemma rds_rsp_protect t v (L : Dhp.L) l j k s : w_op l = [7%Z; zn j; zn k] -> gfind (w_mp l) j = Some s ->
    w_ac l = true -> (forall n s', w_sl l = Some (n, s') -> s' = s) -> RelG L l ->
    rds t (rsp v ;;; ret L) l QopG.
  Proof.
    intros Hop Hg Hac Hsl HR. unfold rsp, xbind, emit, ret. cbn [dbind]. apply rds_emit. intros g a tr Hi Hv _ _.
    assert (E1 : gstep a (t, EvCli "ret" [zn v]) =
                 mkGS (Datatypes.S (glen a)) (fnu (gop a) t []) (gtl a) (fnu (gmp a) t (drop_of (gop a t) (gmp a t))) (gpv a) (gsl a) (gac a)).
    { reflexivity. }
    assert (Ho : gop a t = [7%Z; zn j; zn k]) by (change (gop a t) with (w_op (viewG a t)); rewrite Hv; exact Hop).
    split.
    - apply (InvG_intro c g); [exact Hi|]. intros Hf Hd. destruct (InvG_open _ _ _ _ _ Hi Hf Hd) as (Ea & _ & _ & _ & V & _).
      split.
      + intros i e Hn. destruct i as [|[|i]]; cbn in Hn; try discriminate. inversion Hn; subst e.
        cbn [firstn Conc.tag map]. rewrite app_nil_r, <- Ea.
        unfold PhiG. rewrite gcls_ret. repeat split; intros; try congruence.
        rewrite Ho in H0. injection H0 as Ej Ek. unfold zn in Ej. apply Nat2Z.inj in Ej. subst j0.
        assert (Hs : gsl a t <> None).
        { apply (V t j k Ho). change (gac a t) with (w_ac (viewG a t)). rewrite Hv. exact Hac. }
        destruct (gsl a t) as [[n s']|] eqn:Es; [|now destruct Hs].
        exists s, n. split; [change (gmp a t) with (w_mp (viewG a t)); rewrite Hv; exact Hg|].
        f_equal. f_equal. apply (Hsl n s'). rewrite <- Hv. exact Es.
      + cbn [Conc.tag map fold_left]. rewrite E1. intros u j0 k0. cbn [gop gac gsl]. unfold fnu.
        destruct (Nat.eqb_spec u t) as [->|Nu]; [discriminate|apply V].
    - cbn [Conc.tag map fold_left]. rewrite E1. cbn [rdsafe QopG]. subst l. unfold viewG in *. cbn in *. rewrite !fnu_same.
      rewrite Hop. destruct HR as (A1&A2&A3). unfold RelG. cbn. auto.
  Qed.

  Ltac relg := match goal with HR : RelG _ _ |- _ => destruct HR as (?R1 & ?R2 & ?R3) end; unfold RelG; cbn;
    rewrite ?drop_of_not4 by (unfold zn; lia); auto.

  Lemma spec_run_opG t L l o : RelG L l -> rds t (run_op c t L o) l QopG.
  Proof.
    intros HR. destruct o as [| |j|j|j p|j|j k|k p|p| |k v]; cbn [run_op]; apply rds_inv;
      set (l1 := mkVG _ (w_tl l) (w_mp l) (w_pv l) None false).
    - (* attach *)
      destruct (l_tls L) as [r|] eqn:Et; [apply rds_skip_ret; relg|].
      apply rds_neu; [apply N_alloc_thread_data|]. intros r. xemit.
      apply rds_att; [destruct HR as (A1&_); cbn; congruence|].
      apply (rds_rsp_ret t 0 _ _ 1 []); [reflexivity|lia|].
      destruct HR as (A1&A2&A3). unfold RelG. cbn. rewrite A2, (A3 Et). cbn. auto.
    - (* detach *)
      destruct (l_tls L) as [r|] eqn:Et; [|apply rds_skip_ret; relg; congruence].
      apply rds_xbind. eapply rdsafe_weaken; [|apply (S_free_thread_data c t r (Datatypes.S t) l1)];
        [|reflexivity|destruct HR as (A1&_); cbn; congruence].
      intros [x|] l2 K; [|exact I]. destruct K as (K1 & K2 & K3).
      apply (rds_rsp_ret t 0 _ _ 2 []); [exact K1|lia|]. unfold RelG. cbn. rewrite K1, K2, K3. auto.
    - (* Guard() *)
      destruct (l_tls L) as [r|] eqn:Et; [|apply rds_skip_ret; relg; congruence].
      destruct (gfind (l_guards L) j) eqn:Eg; [apply rds_skip_ret; relg|].
      apply rds_xbind. eapply rdsafe_weaken; [|apply (S_hp_galloc c t j r l1); reflexivity].
      intros [[s|]|] l2 (K1 & K2 & K3); [| |exact I].
      + xemit. apply (rds_own t s j); [rewrite K1; reflexivity|rewrite K3; cbn; destruct HR as (_&A2&_); congruence|].
        apply (rds_rsp_ret t 0 _ _ 3 [zn j]); [cbn; rewrite K1; reflexivity|lia|].
        destruct HR as (A1&A2&A3). unfold RelG. cbn. rewrite K1, K2, K3. cbn. rewrite ?drop_of_not4 by (unfold zn; lia).
        repeat split; try congruence; discriminate.
      + unfold xbind, emit, ret. cbn [dbind]. apply rds_emit_none; [repeat constructor|]. cbn [rdsafe QopG].
        destruct HR as (A1&A2&A3). unfold RelG. rewrite K2, K3. cbn. auto.
    - (* ~Guard() *)
      destruct (l_tls L) as [r|] eqn:Et; [|apply rds_skip_ret; relg; congruence].
      destruct (gfind (l_guards L) j) as [s|] eqn:Eg; [|apply rds_skip_ret; relg].
      xemit. apply rds_emit_none; [repeat constructor; apply none_rel|].
      apply rds_xbind. unfold hp_gfree. xact.
      apply rds_st_slot.
      + left. exists 4%Z, j, []. split; [reflexivity|]. split; [unfold guard_code; auto|]. cbn. destruct HR as (_&A2&_). congruence.
      + intros j' k'. cbn. discriminate.
      + intros l2 (K1&K2&K3&K4). unfold loc. apply rds_loc. intros x0. cbn [rdsafe].
        apply (rds_rsp_ret t 0 _ _ 4 [zn j]); [rewrite K1; reflexivity|lia|].
        destruct HR as (A1&A2&A3). unfold RelG. cbn. rewrite K1, K2, K3. cbn [l1 w_op w_tl w_mp].
        change (zl [4; j]) with [4%Z; zn j]. rewrite drop_of_4. repeat split; try congruence; discriminate.
    - (* assign *)
      destruct (l_tls L) as [r|] eqn:Et; [|apply rds_skip_ret; relg; congruence].
      destruct (gfind (l_guards L) j) as [s|] eqn:Eg; [|apply rds_skip_ret; relg].
      xact. apply rds_st_slot.
      + left. exists 5%Z, j, [zn p]. split; [reflexivity|]. split; [unfold guard_code; auto|]. cbn. destruct HR as (_&A2&_). congruence.
      + intros j' k'. cbn. discriminate.
      + intros l2 (K1&K2&K3&K4). xact. apply rds_act_none; [apply n_faa_sync|]. intros _.
        apply (rds_rsp_ret t 0 _ _ 5 [zn j; zn p]); [rewrite K1; reflexivity|lia|].
        destruct HR as (A1&A2&A3). unfold RelG. cbn. rewrite K1, K2, K3. cbn [l1 w_op w_tl w_mp].
        rewrite ?drop_of_not4 by (unfold zn; lia). auto.
    - (* clear *)
      destruct (l_tls L) as [r|] eqn:Et; [|apply rds_skip_ret; relg; congruence].
      destruct (gfind (l_guards L) j) as [s|] eqn:Eg; [|apply rds_skip_ret; relg].
      xact. apply rds_st_slot.
      + left. exists 6%Z, j, []. split; [reflexivity|]. split; [unfold guard_code; auto|]. cbn. destruct HR as (_&A2&_). congruence.
      + intros j' k'. cbn. discriminate.
      + intros l2 (K1&K2&K3&K4).
        apply (rds_rsp_ret t 0 _ _ 6 [zn j]); [rewrite K1; reflexivity|lia|].
        destruct HR as (A1&A2&A3). unfold RelG. cbn. rewrite K1, K2, K3. cbn [l1 w_op w_tl w_mp].
        rewrite ?drop_of_not4 by (unfold zn; lia). auto.
    - (* protect *)
      destruct (l_tls L) as [r|] eqn:Et; [|apply rds_skip_ret; relg; congruence].
      destruct (gfind (l_guards L) j) as [s|] eqn:Eg; [|apply rds_skip_ret; relg].
      xact. apply rds_act_none; [apply n_ld_src|]. intros p0.
      apply rds_xbind. eapply rdsafe_weaken; [|apply (S_protect_loop t r s k j k (c_spin c) p0 l1)];
        [|reflexivity|cbn; destruct HR as (_&A2&_); congruence].
      intros [v|] l2 ((K1&K2&K3&K4) & K5); [|exact I]. destruct K5 as (K5 & K6).
      apply (rds_rsp_protect t v L l2 j k s); [rewrite K1; reflexivity|rewrite K3; cbn; destruct HR as (_&A2&_); congruence|exact K5|exact K6|].
      destruct HR as (A1&A2&A3). unfold RelG. rewrite K2, K3. cbn. auto.
    - (* publish *)
      xact. apply rds_act_none; [apply n_st_src|]. intros _.
      apply (rds_rsp_ret t 0 _ _ 8 [zn k; zn p]); [reflexivity|lia|]. relg.
    - (* retire *)
      destruct (l_tls L) as [r|] eqn:Et; [|apply rds_skip_ret; relg; congruence].
      xloc. apply rds_loc. intros ok.
      apply rds_neu; [destruct ok; [apply Neu_ret|apply N_scan]|]. intros _.
      apply (rds_rsp_ret t 0 _ _ 9 [zn p]); [reflexivity|lia|]. relg.
    - (* scan *)
      destruct (l_tls L) as [r|] eqn:Et; [|apply rds_skip_ret; relg; congruence].
      apply rds_neu; [apply N_scan|]. intros _.
      apply (rds_rsp_ret t 0 _ _ 10 []); [reflexivity|lia|]. relg.
    - (* wait *)
      apply rds_neu; [apply N_wait_loop|]. intros _.
      apply (rds_rsp_ret t 0 _ _ 15 [zn k; zn v]); [reflexivity|lia|]. relg.
  Qed.

  Lemma spec_run_opsG t : forall os L l, RelG L l -> rds t (run_ops c t L os) l (fun _ _ => True).
  Proof.
    induction os as [|o os IH]; intros L l HR; cbn [run_ops]; [exact I|].
    apply rds_xbind. eapply rdsafe_weaken; [|apply (spec_run_opG t L l o HR)].
    intros [L'|] l1 K; [|exact I]. now apply IH.
  Qed.

  Definition vg0 : VG := mkVG [] None [] None None false.

  Lemma spec_threadG t os : rds t (thread_src c t os) vg0 (fun _ _ => True).
  Proof.
    unfold thread_src. apply rds_act_none; [apply n_begin|]. intros _.
    unfold to_unit. apply rdsafe_bind. eapply rdsafe_weaken; [|apply (spec_run_opsG t os (mkL None []) vg0)].
    - intros r l _. exact I.
    - unfold RelG. cbn. auto.
  Qed.
End Cli.

(** ** the two invariants together, for every reachable configuration *)
Definition InvAG (c : cfg) := Inv12 (InvA c) (InvG c).
Definition viewAG := view12 viewA viewG.

Lemma cfg_ok_initAG fuel c ths : Conc.cfg_ok viewAG (InvAG c) (init_cfg fuel c ths).
Proof.
  exists (aux0, gs0). split.
  - split; cbn [fst snd Conc.shared Conc.trace init_cfg].
    + intros _. split; [apply JA_init|]. intros tr1 t p tr2 E. destruct tr1; discriminate.
    + split; [reflexivity|]. intros _ _. split.
      * intros m u e Hn. destruct m; discriminate.
      * intros u j k Ho. discriminate.
  - intros t p Hp. unfold init_cfg in Hp. cbn [Conc.threads] in Hp. rewrite nth_error_map in Hp.
    destruct (nth_error (combine (seq 0 (List.length ths)) ths) t) as [[t' os]|] eqn:E; [|discriminate].
    cbn in Hp. inversion Hp; subst p. apply nth_error_combine_seq in E. cbn in E. subst t'.
    apply compile_safe.
    eapply dsafe_weaken; [|apply (dsafe_pair viewA (InvA c) viewG (InvG c) t (thread_src c t os) _ _ va0 (vg0) (spec_thread c t os) (spec_threadG c t os))].
    intros r l _. exact I.
Qed.

Theorem dhp_TPropG : forall fuel c ths conf, Conc.reach (init_cfg fuel c ths) conf ->
  flbad (hist (Conc.trace conf)) = false -> cell_disc c (Conc.trace conf) ->
  TPropG (Conc.trace conf) /\ VAL (gfold (Conc.trace conf)) /\ K c (gfold (Conc.trace conf)) (hist (Conc.trace conf)).
Proof.
  intros fuel c ths conf Hr Hf Hd. destruct (Conc.reach_Inv (cfg_ok_initAG fuel c ths) Hr) as ((a1 & a2) & _ & (E & H)).
  cbn [snd] in *. destruct (H Hf Hd) as (T & V). subst a2. split; [exact T|]. split; [exact V|]. now apply K_good.
Qed.
