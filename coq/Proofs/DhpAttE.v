(** * DhpAttE: thread_id_.store( me ) on the new record; pushing it on thread_list_. *)
From Coq Require Import ZArith NArith List String Bool Lia PeanoNat.
From LV Require Import Base.Conc Base.Events Model.DhpLang Model.Dhp Proofs.DhpBase Proofs.DhpHist
  Proofs.DhpLangProofs Proofs.DhpInvA Proofs.DhpStepsA Proofs.DhpQuietA Proofs.DhpSlotA Proofs.DhpScanA Proofs.DhpScanC
  Proofs.DhpPresA Proofs.DhpAllocA Proofs.DhpAllocB Proofs.DhpViewA Proofs.DhpDetB Proofs.DhpDetC Proofs.DhpAttA Proofs.DhpAttC
  Proofs.DhpAttD.
Import ListNotations.

Section AttE.
  Variable c : cfg.

  Lemma JA_unpub_tid g a h t l r nx n1 :
    JA c g a h -> views a t = l -> va_unpub l = Some (r, (false, nx)) -> hlen h <= n1 ->
    JA c (upd_rec g r (rs_tid (S t))) (upd_aux a t (with_unpub_hold l (Some (r, (true, nx))) (va_hold l)) (bown a))
         (mkH n1 (slotv h) (lastw h) (att h) (linked h) (scan h) (freeh h) (flbad h)).
  Proof.
    intros J Hv Hu Hn. pose proof J as [J1 J2 J3 J4 J5 J6 J7 J8 J9 J10 J11 J12 J15 J16 J17 J18 J13 J14].
    set (g' := upd_rec g r (rs_tid (S t))).
    destruct (views_unpub_hold a t l (Some (r, (true, nx))) (va_hold l) Hv) as (V & Vs & F).
    set (a' := upd_aux a t (with_unpub_hold l (Some (r, (true, nx))) (va_hold l)) (bown a)) in *.
    rewrite <- Hv in Hu. destruct (J5 t r _ Hu) as (Rlt & Ratt & Rnl & Rext & Rinfo & Runi).
    assert (Rtid : r_tid (grec g r) = 0) by (unfold unpub_info in Rinfo; cbn in Rinfo; destruct nx; tauto).
    destruct (recfield_facts c g r (rs_tid (S t)) Rlt (fun x => conj eq_refl eq_refl)) as (Eo & Es & Lr & Enx & Esl & Rc & Af & Gc).
    fold g' in Eo, Es, Lr, Enx, Esl, Rc, Af, Gc.
    assert (Et : tlist g' = tlist g) by reflexivity. assert (Lgb : gbs g' = gbs g) by reflexivity.
    assert (B : bown a' = bown a) by reflexivity.
    assert (Nr : forall r' t' k, att h r' = Some (t', k) -> r' <> r) by (intros r' t' k Ha ->; congruence).
    assert (Ex : forall r', r_ext (grec g' r') = r_ext (grec g r')).
    { intros r'. destruct (Nat.eq_dec r' r) as [->|N]; [rewrite Es; reflexivity|now rewrite Eo]. }
    constructor; cbn [hlen slotv lastw att linked scan freeh flbad]; rewrite ?B, ?Lr, ?Et, ?Lgb.
    - destruct J1 as (L & H1 & H2). exists L. split; auto. now apply Rc.
    - intros r' t' k Ha. destruct (J2 r' t' k Ha) as (X1&X2&X3&X4&X5&X6&X7&X8&X9). destruct (F t') as (E&_). rewrite E, (Eo r' (Nr _ _ _ Ha)).
      split; auto. split; auto. split; auto. split; auto. split; auto. split; [lia|]. split; [now apply Gc|]. split; auto.
      intros b kb K. destruct (X9 b kb K) as (W1&W2&W3). split; auto. lia.
    - intros t' r' Ht. destruct (F t') as (E&_). rewrite E in Ht. auto.
    - exact J4.
    - intros t' r' bt' Ht. destruct (Nat.eq_dec t' t) as [->|N].
      + rewrite Vs in Ht. cbn in Ht. inversion Ht; subst r' bt'. rewrite Es. cbn [r_tid r_next r_ext rs_tid].
        split; auto. split; auto. split; [intros L2 HL2; apply Rnl; now apply Rc|]. split; auto. split.
        * unfold unpub_info in *. cbn [fst snd r_tid r_next rs_tid] in *. destruct nx; [split; tauto|reflexivity].
        * intros t'' bt'' Ht''. destruct (Nat.eq_dec t'' t) as [->|N']; auto. rewrite (V t'' N') in Ht''. eauto.
      + rewrite (V t' N) in Ht. destruct (J5 t' r' bt' Ht) as (X1&X2&X3&X4&X5&X6).
        assert (r' <> r). { intros ->. apply N. eauto. }
        rewrite (Eo r' H). split; auto. split; auto. split; [intros L2 HL2; apply X3; now apply Rc|]. split; auto. split; auto.
        intros t'' bt'' Ht''. destruct (Nat.eq_dec t'' t) as [->|N'].
        * rewrite Vs in Ht''. cbn in Ht''. inversion Ht''. congruence.
        * rewrite (V t'' N') in Ht''. eauto.
    - intros t' r' Ht. assert (Hh : va_hold (views a t') = Some r') by (destruct (Nat.eq_dec t' t) as [->|N]; [rewrite Vs in Ht; cbn in Ht; rewrite <- Hv in Ht; exact Ht|now rewrite (V t' N) in Ht]).
      destruct (F t') as (_&_&_&_&_&E6&_). rewrite E6. destruct (J6 t' r' Hh) as (X1&X2&X3&X4&X5&X6).
      assert (r' <> r). { intros ->. congruence. } rewrite (Eo r' H). repeat split; auto.
    - intros t' r' Ht. destruct (F t') as (_&E2&_). rewrite E2 in Ht. destruct (J7 t' r' Ht) as (X1&X2&X3).
      assert (r' <> r). { intros ->. congruence. } rewrite (Eo r' H). split; auto. split; auto.
      destruct (Nat.eq_dec t' t) as [->|N]; [rewrite Vs; cbn; rewrite <- Hv; exact X3|now rewrite (V t' N)].
    - intros r' Hr Ha. rewrite Ex. destruct (J8 r' Hr Ha) as [X|(t' & X1 & X2)]; [now left|right]. exists t'.
      destruct (F t') as (_&_&_&_&_&E6&_). rewrite E6. split; auto. destruct (Nat.eq_dec t' t) as [->|N]; [rewrite Vs; cbn; rewrite <- Hv; exact X1|now rewrite (V t' N)].
    - intros t' b' Ht. destruct (F t') as (_&_&_&E4&_&E6&_). rewrite E4 in Ht. rewrite E6. exact (J9 t' b' Ht).
    - intros t' o lb' Ht. destruct (F t') as (_&_&_&_&_&E6&_). rewrite E6 in Ht. destruct (J10 t' o lb' Ht) as (X1&X2&X3). split; [now apply Gc|auto].
    - exact J11.
    - exact J12.
    - intros r' Hr. rewrite Esl. auto.
    - exact J16.
    - intros t' e f Ht. destruct (F t') as (E1&_&_&E4&E5&_). rewrite E5 in Ht. rewrite E1, E4.
      destruct (J17 t' e f Ht) as (r' & X1 & X2 & X3). exists r'. rewrite Ex. auto.
    - intros t' n Ht. destruct (F t') as (_&_&E3&_). rewrite E3 in Ht. apply Af. eauto.
    - intros s. rewrite <- J13. destruct s as [r' i|x i]; cbn [slot_get]; [now rewrite Esl|reflexivity].
    - intros t'. destruct (F t') as (_&_&_&_&_&_&E7). rewrite E7. specialize (J14 t').
      destruct (va_scan (views a t')) as [ss|]; auto. destruct J14 as (X1 & X2). split; auto.
      apply scan_ok_recfield; auto.
  Qed.

  (** thread_list_.compare_exchange( old, rec ) succeeded: the record is on the list *)
  Lemma JA_publish g a h t l r old n1 :
    JA c g a h -> views a t = l -> va_unpub l = Some (r, (true, Some old)) -> va_hold l = None -> va_limbo l = None ->
    va_help l = None -> tlist g = old -> hlen h <= n1 ->
    JA c (set_tlist g (Some r)) (upd_aux a t (with_unpub_hold l None (Some r)) (bown a))
         (mkH n1 (slotv h) (lastw h) (att h) (linked h) (scan h) (freeh h) (flbad h)).
  Proof.
    intros J Hv Hu Hh Hlm Hhp Hold Hn. pose proof J as [J1 J2 J3 J4 J5 J6 J7 J8 J9 J10 J11 J12 J15 J16 J17 J18 J13 J14].
    set (g' := set_tlist g (Some r)).
    destruct (views_unpub_hold a t l None (Some r) Hv) as (V & Vs & F).
    set (a' := upd_aux a t (with_unpub_hold l None (Some r)) (bown a)) in *.
    rewrite <- Hv in Hu, Hh, Hlm, Hhp. destruct (J5 t r _ Hu) as (Rlt & Ratt & Rnl & Rext & Rinfo & Runi).
    unfold unpub_info in Rinfo. cbn in Rinfo. destruct Rinfo as (Rtid & Rnx).
    destruct J1 as (L & HL & HLnd). pose proof (Rnl L HL) as RnL.
    assert (Eg : forall r', grec g' r' = grec g r') by reflexivity.
    assert (Lr : recs g' = recs g) by reflexivity. assert (Lgb : gbs g' = gbs g) by reflexivity.
    assert (Etl : tlist g' = Some r) by reflexivity.
    assert (Rc : forall o l0, rchain g o l0 <-> rchain g' o l0).
    { intros o' l'; revert o'; induction l' as [|x l' IH]; intros o'; cbn; [tauto|]. rewrite IH. tauto. }
    assert (HL' : rchain g' (Some r) (r :: L)).
    { cbn [rchain]. split; auto. split; [exact Rlt|]. change (grec g' r) with (grec g r). rewrite Rnx, <- Hold. now apply Rc. }
    assert (Af : forall o r', after g o r' -> after g' o r').
    { intros o r' (S & H1 & H2 & H3). exists S. split; [now apply Rc|]. split; auto. intros L2 HL2. rewrite Etl in HL2.
      rewrite (rchain_fun _ _ _ _ HL2 HL'). intros x Hx. right. now apply (H3 L HL). }
    assert (Afl : forall r', after g (tlist g) r' -> after g' (tlist g') r').
    { intros r' (S & H1 & H2 & H3). exists (r :: L). rewrite Etl. split; auto. split; [right; apply (H3 L HL); exact H2|].
      intros L2 HL2. rewrite (rchain_fun _ _ _ _ HL2 HL'). apply incl_refl. }
    assert (Gc : forall o S, gchain c g o S <-> gchain c g' o S).
    { intros o S. split; apply gchain_ext; try (apply Nat.le_refl); intros; split; reflexivity. }
    assert (B : bown a' = bown a) by reflexivity.
    constructor; cbn [hlen slotv lastw att linked scan freeh flbad]; rewrite ?B, ?Lr, ?Lgb.
    - exists (r :: L). rewrite Etl. split; auto. constructor; auto.
    - intros r' t' k Ha. destruct (J2 r' t' k Ha) as (X1&X2&X3&X4&X5&X6&X7&X8&X9). destruct (F t') as (E&_). rewrite E.
      split; auto. split; auto. split; auto. split; auto. split; [now apply Afl|]. split; [lia|]. split; [now apply Gc|]. split; auto.
      intros b kb K. destruct (X9 b kb K) as (W1&W2&W3). split; auto. lia.
    - intros t' r' Ht. destruct (F t') as (E&_). rewrite E in Ht. auto.
    - exact J4.
    - intros t' r' bt' Ht. destruct (Nat.eq_dec t' t) as [->|N]; [rewrite Vs in Ht; cbn in Ht; discriminate|].
      rewrite (V t' N) in Ht. destruct (J5 t' r' bt' Ht) as (X1&X2&X3&X4&X5&X6).
      assert (r' <> r). { intros ->. apply N. eauto. }
      split; auto. split; auto. split; [|split; auto; split; auto].
      + intros L2 HL2. rewrite Etl in HL2. rewrite (rchain_fun _ _ _ _ HL2 HL'). intros [E|K]; [congruence|]. eapply X3; eauto.
      + intros t'' bt'' Ht''. destruct (Nat.eq_dec t'' t) as [->|N']; [rewrite Vs in Ht''; cbn in Ht''; discriminate|].
        rewrite (V t'' N') in Ht''. eauto.
    - intros t' r' Ht. destruct (Nat.eq_dec t' t) as [->|N].
      + rewrite Vs in Ht |- *. cbn in Ht |- *. inversion Ht; subst r'.
        split; auto. split; auto. split; auto. split; [exists (r :: L); rewrite Etl; split; auto; split; [now left|intros L2 HL2; rewrite (rchain_fun _ _ _ _ HL2 HL'); apply incl_refl]|].
        split; [exact (J15 r Rlt)|]. intros _. exact Rext.
      + rewrite (V t' N) in Ht |- *. destruct (J6 t' r' Ht) as (X1&X2&X3&X4&X5&X6). repeat split; auto.
    - intros t' r' Ht. destruct (F t') as (_&E2&_). rewrite E2 in Ht. destruct (J7 t' r' Ht) as (X1&X2&X3). split; auto. split; auto.
      destruct (Nat.eq_dec t' t) as [->|N]; [congruence|now rewrite (V t' N)].
    - intros r' Hr Ha. destruct (J8 r' Hr Ha) as [X|(t' & X1 & X2)]; [now left|right]. exists t'.
      destruct (F t') as (_&_&_&_&_&E6&_). rewrite E6. split; auto.
      destruct (Nat.eq_dec t' t) as [->|N]; [congruence|now rewrite (V t' N)].
    - intros t' b' Ht. destruct (F t') as (_&_&_&E4&_&E6&_). rewrite E4 in Ht. rewrite E6. exact (J9 t' b' Ht).
    - intros t' o lb' Ht. destruct (F t') as (_&_&_&_&_&E6&_). rewrite E6 in Ht. destruct (J10 t' o lb' Ht) as (X1&X2&X3). split; [now apply Gc|auto].
    - exact J11.
    - exact J12.
    - exact J15.
    - exact J16.
    - intros t' e f Ht. destruct (F t') as (E1&_&_&E4&E5&_). rewrite E5 in Ht. rewrite E1, E4. exact (J17 t' e f Ht).
    - intros t' n Ht. destruct (F t') as (_&_&E3&_). rewrite E3 in Ht. apply Afl. eauto.
    - exact J13.
    - intros t'. destruct (F t') as (_&_&_&_&_&_&E7). rewrite E7. specialize (J14 t').
      destruct (va_scan (views a t')) as [ss|]; auto. destruct J14 as (X1 & X2). split; auto.
      apply (scan_ok_frame c g g' h _ ss); cbn [hlen slotv lastw att linked]; [exact Hn|intros s; left; auto|exact Af|right; exact Afl|reflexivity| |exact X2].
      intros s k Hl Hk. split; auto. split; auto. intros n0 o S0 b i E Hin Hg Hi. split; auto. now apply Gc.
  Qed.
End AttE.
