(** * Ingredients of the BasketQueue proofs (C06): the "pool" reading of a queue history.

    BasketQueue inserts a node of a basket BEFORE nodes that were linked earlier, so the order of the
    successful next-CASes is not the FIFO order and the linearization point of an enqueue is not known
    when its CAS succeeds.  What IS decided at the CASes is WHICH items are in the queue.  [pool_valid]
    says that of an annotated trace: every enqueue takes effect at one point inside its call (the item
    enters the abstract sequence, at any position), every successful dequeue takes effect at one point
    inside its call and removes the FIRST item of the abstract sequence, and the result it reports is that
    item.  Consequence proved here for the erased history: no item is invented ([pool_no_invention]); that no
    item is dequeued twice is the content of [pool_valid] itself (a dequeue removes the item it reports from
    the abstract sequence, into which every enqueue put its item once).  An "empty"
    answer is not constrained by [pool_valid] (BasketQueue's FIFO order and its empty answers are decided
    on implementation histories by the verified lincheck only). *)
From Coq Require Import ZArith List String Bool Lia PeanoNat.
From LV Require Import Base.Conc Base.Events Base.Lin Spec.Specs Proofs.LinProofs Proofs.MSQueueBase.
Import ListNotations.
Local Open Scope list_scope.

Inductive pev :=
| PInv (t : nat) (o : qop)
| PEnq (t : nat) (k : nat)         (* t's pending enqueue takes effect: its value enters at position k *)
| PDeq (t : nat)                   (* t's pending dequeue takes the first item *)
| PEmp (t : nat)                   (* t's pending dequeue decides to answer "empty" *)
| PRes (t : nat) (r : res).

Inductive pst := PIdle | PPend (o : qop) | PLin (r : res).

Definition pmap := nat -> pst.
Definition pupd (st : pmap) (t : nat) (x : pst) : pmap := fun u => if Nat.eqb u t then x else st u.

Definition insert_at (k : nat) (v : Z) (q : list Z) : list Z := firstn k q ++ v :: skipn k q.

Definition pstep (c : list Z * pmap) (e : pev) : option (list Z * pmap) :=
  let (q, st) := c in
  match e with
  | PInv t o => match st t with PIdle => Some (q, pupd st t (PPend o)) | _ => None end
  | PEnq t k => match st t with
                | PPend (Enq v) => Some (insert_at k v q, pupd st t (PLin (RBool true)))
                | _ => None
                end
  | PDeq t => match st t, q with
              | PPend Deq, v :: q' => Some (q', pupd st t (PLin (RVal (Some v))))
              | _, _ => None
              end
  | PEmp t => match st t with PPend Deq => Some (q, pupd st t (PLin (RVal None))) | _ => None end
  | PRes t r => match st t with
                | PLin r' => if res_beq r r' then Some (q, pupd st t PIdle) else None
                | _ => None
                end
  end.

Fixpoint prun (c : list Z * pmap) (tr : list pev) : option (list Z * pmap) :=
  match tr with
  | [] => Some c
  | e :: tr' => match pstep c e with Some c' => prun c' tr' | None => None end
  end.

Definition pinit : list Z * pmap := ([], fun _ => PIdle).

Fixpoint perase (tr : list pev) : history Fifo :=
  match tr with
  | [] => []
  | PInv t o :: r => @HInv Fifo t o :: perase r
  | PRes t x :: r => @HRes Fifo t x :: perase r
  | _ :: r => perase r
  end.

Definition pool_valid (atr : list pev) : Prop := exists c, prun pinit atr = Some c.

Lemma prun_app c tr1 tr2 :
  prun c (tr1 ++ tr2) = match prun c tr1 with Some c' => prun c' tr2 | None => None end.
Proof. revert c. induction tr1 as [|e tr1 IH]; cbn; intros c; auto. destruct (pstep c e); auto. Qed.

Lemma perase_app tr1 tr2 : perase (tr1 ++ tr2) = perase tr1 ++ perase tr2.
Proof. induction tr1 as [|[t o|t k|t|t|t r] tr1 IH]; cbn; auto; now rewrite IH. Qed.

(** ** the bookkeeping invariant *)
Definition PoolInv (q : list Z) (stf : pmap) (h : history Fifo) : Prop :=
  exists (atr : list pev) (f : pmap),
    prun pinit atr = Some (q, f) /\ (forall t, f t = stf t) /\ perase atr = h.

Lemma pool_ext q stf h stf' : (forall t, stf' t = stf t) -> PoolInv q stf h -> PoolInv q stf' h.
Proof. intros H (atr & f & A & B & C). exists atr, f. repeat split; auto. intros t. now rewrite B, H. Qed.

Lemma pool_event q stf h t (e : pev) q' s' :
  PoolInv q stf h ->
  (forall f : pmap, f t = stf t -> pstep (q, f) e = Some (q', pupd f t s')) ->
  PoolInv q' (pupd stf t s') (h ++ perase [e]).
Proof.
  intros (atr & f & A & B & C) Hs. exists (atr ++ [e]), (pupd f t s'). repeat split.
  - rewrite prun_app, A. cbn [prun]. rewrite Hs; auto.
  - intros x. unfold pupd. destruct (Nat.eqb x t); auto.
  - rewrite perase_app, C. reflexivity.
Qed.

Lemma pool_init : PoolInv [] (fun _ => PIdle) [].
Proof. exists [], (fun _ => PIdle). repeat split. Qed.

(** ** consequences for the history *)

(** values: everything in the abstract sequence, and every value a linearized dequeue is about to
    report, is the argument of an enqueue invoked earlier *)
Definition invoked (h : history Fifo) (v : Z) : Prop := exists t, In (@HInv Fifo t (Enq v)) h.

Lemma in_firstn_ {A} k (l : list A) x : In x (firstn k l) -> In x l.
Proof. intros H. rewrite <- (firstn_skipn k l). apply in_or_app. now left. Qed.
Lemma in_skipn_ {A} k (l : list A) x : In x (skipn k l) -> In x l.
Proof. intros H. rewrite <- (firstn_skipn k l). apply in_or_app. now right. Qed.

Lemma prun_values : forall atr c q f,
  prun c atr = Some (q, f) ->
  forall (P : Z -> Prop),
    (forall v, In v (fst c) -> P v) ->
    (forall t v, snd c t = PLin (RVal (Some v)) -> P v) ->
    (forall t v, snd c t = PPend (Enq v) -> P v) ->
    (forall t v, In (@HInv Fifo t (Enq v)) (perase atr) -> P v) ->
    (forall v, In v q -> P v) /\ (forall t v, f t = PLin (RVal (Some v)) -> P v) /\
    (forall t v, f t = PPend (Enq v) -> P v) /\
    (forall t v, In (@HRes Fifo t (RVal (Some v))) (perase atr) -> P v).
Proof.
  induction atr as [|e atr IH]; intros [q0 f0] q f Hr P H1 H2 H3 H4; cbn [prun] in Hr.
  - injection Hr as <- <-. cbn in *. repeat split; auto; try (intros t v []).
  - destruct (pstep (q0, f0) e) as [[q1 f1]|] eqn:Es; [|discriminate].
    cbn [fst snd] in *.
    assert (Hnext : (forall v, In v q1 -> P v) /\ (forall t v, f1 t = PLin (RVal (Some v)) -> P v) /\
                    (forall t v, f1 t = PPend (Enq v) -> P v) /\
                    (forall t v, e = PRes t (RVal (Some v)) -> P v)).
    { destruct e as [t o|t k|t|t|t r]; cbn [pstep] in Es.
      - destruct (f0 t) eqn:Ef; try discriminate. injection Es as <- <-. repeat split; auto; try discriminate.
        + intros u v. unfold pupd. destruct (Nat.eqb_spec u t) as [->|]; [discriminate|eauto].
        + intros u v. unfold pupd. destruct (Nat.eqb_spec u t) as [->|]; [|eauto].
          intros E. injection E as ->. apply (H4 t v). cbn. now left.
      - destruct (f0 t) as [|[v|]|] eqn:Ef; try discriminate. injection Es as <- <-. repeat split; try discriminate.
        + intros x Hx. unfold insert_at in Hx. apply in_app_or in Hx. destruct Hx as [Hx|[<-|Hx]].
          * apply H1. eapply in_firstn_; eauto.
          * eapply H3; eauto.
          * apply H1. eapply in_skipn_; eauto.
        + intros u x. unfold pupd. destruct (Nat.eqb_spec u t) as [->|]; [discriminate|eauto].
        + intros u x. unfold pupd. destruct (Nat.eqb_spec u t) as [->|]; [discriminate|eauto].
      - destruct (f0 t) as [|[v|]|] eqn:Ef; try discriminate. destruct q0 as [|v q0]; [discriminate|].
        injection Es as <- <-. repeat split; try discriminate.
        + intros x Hx. apply H1. now right.
        + intros u x. unfold pupd. destruct (Nat.eqb_spec u t) as [->|]; [|eauto].
          intros E. injection E as <-. apply H1. now left.
        + intros u x. unfold pupd. destruct (Nat.eqb_spec u t) as [->|]; [discriminate|eauto].
      - destruct (f0 t) as [|[v|]|] eqn:Ef; try discriminate. injection Es as <- <-. repeat split; auto; try discriminate.
        + intros u x. unfold pupd. destruct (Nat.eqb_spec u t) as [->|]; [discriminate|eauto].
        + intros u x. unfold pupd. destruct (Nat.eqb_spec u t) as [->|]; [discriminate|eauto].
      - destruct (f0 t) as [| |r'] eqn:Ef; try discriminate. destruct (res_beq r r') eqn:Er; [|discriminate].
        apply res_beq_ok in Er. subst r'. injection Es as <- <-. repeat split; auto.
        + intros u x. unfold pupd. destruct (Nat.eqb_spec u t) as [->|]; [discriminate|eauto].
        + intros u x. unfold pupd. destruct (Nat.eqb_spec u t) as [->|]; [discriminate|eauto].
        + intros u x E. injection E as -> ->. eauto. }
    destruct Hnext as (N1 & N2 & N3 & N4).
    assert (H4' : forall t v, In (@HInv Fifo t (Enq v)) (perase atr) -> P v).
    { intros t v Hin. apply (H4 t v). destruct e; cbn; auto. }
    destruct (IH (q1, f1) q f Hr P N1 N2 N3 H4') as (R1 & R2 & R3 & R4).
    repeat split; auto.
    intros t v Hin. destruct e as [t0 o|t0 k|t0|t0|t0 r]; cbn in Hin; eauto.
    all: destruct Hin as [E|Hin]; [|eauto].
    + discriminate.
    + injection E as -> ->. eauto.
Qed.

(** "no item is invented": a value returned by a dequeue was the argument of an enqueue invoked before
    (stated for the whole history: the invocation occurs in it) *)
Theorem pool_no_invention (atr : list pev) :
  pool_valid atr ->
  forall t v, In (@HRes Fifo t (RVal (Some v))) (perase atr) -> invoked (perase atr) v.
Proof.
  intros ([q f] & Hr) t v Hin.
  destruct (prun_values atr pinit q f Hr (invoked (perase atr))) as (_ & _ & _ & R4); cbn; try (intros; contradiction);
    try (intros; discriminate).
  - intros u x Hx. now exists u.
  - eauto.
Qed.
