(** * Ingredients of the BasketQueue proofs (C06): the "justified pool" reading of a queue history.

    BasketQueue inserts a node of a basket BEFORE nodes that were linked earlier, so the order of the
    successful next-CASes is not the FIFO order and the linearization point of an enqueue is not known
    when its CAS succeeds.  What IS decided at the CASes is WHICH items are in the queue and in which order
    they sit.  A trace annotated with these decisions is [pool_valid] when ([pstep]):
      - every enqueue takes effect at one point inside its call: the item enters the abstract sequence at
        position k; if that is not the end, every item behind it entered AFTER this enqueue was invoked
        (stamps: an item remembers how many operations had been invoked when it entered; an operation
        remembers its own invocation number) - so an enqueue that returned before another one was invoked
        is in front of it for ever;
      - every successful dequeue takes effect at one point inside its call, removes the FIRST item of the
        sequence and reports that item;
      - a dequeue may answer "empty" only after an instant inside its call at which the sequence was
        empty ([PObs], recorded when the thread saw next == null of a deleted node).
    These are the three sentences of the property; [pool_no_invention] is a first consequence.  The step from a
    pool-valid trace to [linearizable Fifo] is list reasoning only (LV.Proofs.BasketLin). *)
From Coq Require Import ZArith List String Bool Lia PeanoNat.
From LV Require Import Base.Conc Base.Events Base.Lin Spec.Specs Proofs.LinProofs Proofs.MSQueueBase.
Import ListNotations.
Local Open Scope list_scope.

Inductive pev :=
| PInv (t : nat) (o : qop)
| PEnq (t : nat) (k : nat)         (* t's pending enqueue takes effect: its value enters at position k *)
| PDeq (t : nat)                   (* t's pending dequeue takes the first item *)
| PObs (t : nat)                   (* t, a pending dequeue, sees the sequence empty *)
| PEmp (t : nat)                   (* t's pending dequeue decides to answer "empty" *)
| PRes (t : nat) (r : res).

(** [PPend o id ob]: operation number [id] (1 = the first invoked) is pending; [ob]: it has seen the sequence empty *)
Inductive pst := PIdle | PPend (o : qop) (id : nat) (ob : bool) | PLin (r : res).

Definition pmap := nat -> pst.
Definition pupd (st : pmap) (t : nat) (x : pst) : pmap := fun u => if Nat.eqb u t then x else st u.

(** an item: its value and the number of operations invoked before it entered *)
Definition item := (Z * nat)%type.
Definition insert_at {A} (k : nat) (v : A) (q : list A) : list A := firstn k q ++ v :: skipn k q.

Record pstate := mkPS { ps_q : list item; ps_st : pmap; ps_n : nat }.

Definition pstep (c : pstate) (e : pev) : option pstate :=
  let q := ps_q c in let st := ps_st c in let n := ps_n c in
  match e with
  | PInv t o => match st t with PIdle => Some (mkPS q (pupd st t (PPend o (S n) false)) (S n)) | _ => None end
  | PEnq t k => match st t with
                | PPend (Enq v) id _ =>
                    if forallb (fun x : item => Nat.leb id (snd x)) (skipn k q)
                    then Some (mkPS (insert_at k (v, n) q) (pupd st t (PLin (RBool true))) n)
                    else None
                | _ => None
                end
  | PDeq t => match st t, q with
              | PPend Deq _ _, x :: q' => Some (mkPS q' (pupd st t (PLin (RVal (Some (fst x))))) n)
              | _, _ => None
              end
  | PObs t => match st t, q with
              | PPend Deq id _, [] => Some (mkPS q (pupd st t (PPend Deq id true)) n)
              | _, _ => None
              end
  | PEmp t => match st t with PPend Deq _ true => Some (mkPS q (pupd st t (PLin (RVal None))) n) | _ => None end
  | PRes t r => match st t with
                | PLin r' => if res_beq r r' then Some (mkPS q (pupd st t PIdle) n) else None
                | _ => None
                end
  end.

Fixpoint prun (c : pstate) (tr : list pev) : option pstate :=
  match tr with
  | [] => Some c
  | e :: tr' => match pstep c e with Some c' => prun c' tr' | None => None end
  end.

Definition pinit : pstate := mkPS [] (fun _ => PIdle) 0.

Fixpoint perase (tr : list pev) : history Fifo :=
  match tr with
  | [] => []
  | PInv t o :: r => @HInv Fifo t o :: perase r
  | PRes t x :: r => @HRes Fifo t x :: perase r
  | _ :: r => perase r
  end.

Definition pool_valid (atr : list pev) : Prop := exists c, prun pinit atr = Some c.

Lemma prun_app c tr1 tr2 :
  prun c (tr1 ++ tr2) = match prun c tr1 with Some c' => prun c' tr2 | None => None end.
Proof. revert c. induction tr1 as [|e tr1 IH]; cbn; intros c; auto. destruct (pstep c e); auto. Qed.

Lemma perase_app tr1 tr2 : perase (tr1 ++ tr2) = perase tr1 ++ perase tr2.
Proof. induction tr1 as [|[t o|t k|t|t|t|t r] tr1 IH]; cbn; auto; now rewrite IH. Qed.

(** ** the bookkeeping invariant *)
Definition PoolInv (q : list item) (stf : pmap) (n : nat) (h : history Fifo) : Prop :=
  exists (atr : list pev) (f : pmap),
    prun pinit atr = Some (mkPS q f n) /\ (forall t, f t = stf t) /\ perase atr = h.

Lemma pool_ext q stf n h stf' : (forall t, stf' t = stf t) -> PoolInv q stf n h -> PoolInv q stf' n h.
Proof. intros H (atr & f & A & B & C). exists atr, f. repeat split; auto. intros t. now rewrite B, H. Qed.

Lemma pool_event q stf n h t (e : pev) q' s' n' :
  PoolInv q stf n h ->
  (forall f : pmap, f t = stf t -> pstep (mkPS q f n) e = Some (mkPS q' (pupd f t s') n')) ->
  PoolInv q' (pupd stf t s') n' (h ++ perase [e]).
Proof.
  intros (atr & f & A & B & C) Hs. exists (atr ++ [e]), (pupd f t s'). repeat split.
  - rewrite prun_app, A. cbn [prun]. rewrite Hs; auto.
  - intros x. unfold pupd. destruct (Nat.eqb x t); auto.
  - rewrite perase_app, C. reflexivity.
Qed.

Lemma pool_init : PoolInv [] (fun _ => PIdle) 0 [].
Proof. exists [], (fun _ => PIdle). repeat split. Qed.

(** ** consequences for the history *)
Definition invoked (h : history Fifo) (v : Z) : Prop := exists t, In (@HInv Fifo t (Enq v)) h.

Lemma in_firstn_ {A} k (l : list A) x : In x (firstn k l) -> In x l.
Proof. intros H. rewrite <- (firstn_skipn k l). apply in_or_app. now left. Qed.
Lemma in_skipn_ {A} k (l : list A) x : In x (skipn k l) -> In x l.
Proof. intros H. rewrite <- (firstn_skipn k l). apply in_or_app. now right. Qed.

(** values: everything in the abstract sequence, and every value a linearized dequeue is about to
    report, is the argument of an enqueue invoked earlier *)
Lemma prun_values : forall atr c c',
  prun c atr = Some c' ->
  forall (P : Z -> Prop),
    (forall x, In x (ps_q c) -> P (fst x)) ->
    (forall t v, ps_st c t = PLin (RVal (Some v)) -> P v) ->
    (forall t v id ob, ps_st c t = PPend (Enq v) id ob -> P v) ->
    (forall t v, In (@HInv Fifo t (Enq v)) (perase atr) -> P v) ->
    (forall x, In x (ps_q c') -> P (fst x)) /\ (forall t v, ps_st c' t = PLin (RVal (Some v)) -> P v) /\
    (forall t v id ob, ps_st c' t = PPend (Enq v) id ob -> P v) /\
    (forall t v, In (@HRes Fifo t (RVal (Some v))) (perase atr) -> P v).
Proof.
  induction atr as [|e atr IH]; intros c c' Hr P H1 H2 H3 H4; cbn [prun] in Hr.
  - injection Hr as <-. repeat split; auto; try (intros t v []).
  - destruct (pstep c e) as [c1|] eqn:Es; [|discriminate].
    assert (Hnext : (forall x, In x (ps_q c1) -> P (fst x)) /\ (forall t v, ps_st c1 t = PLin (RVal (Some v)) -> P v) /\
                    (forall t v id ob, ps_st c1 t = PPend (Enq v) id ob -> P v) /\
                    (forall t v, e = PRes t (RVal (Some v)) -> P v)).
    { destruct c as [q0 f0 n0]. cbn [ps_q ps_st ps_n] in *.
      destruct e as [t o|t k|t|t|t|t r]; cbn [pstep ps_q ps_st ps_n] in Es.
      - destruct (f0 t) eqn:Ef; try discriminate. injection Es as <-. cbn. repeat split; auto; try discriminate.
        + intros u v. unfold pupd. destruct (Nat.eqb_spec u t) as [->|]; [discriminate|eauto].
        + intros u v id ob. unfold pupd. destruct (Nat.eqb_spec u t) as [->|]; [|eauto].
          intros E. injection E as -> _ _. apply (H4 t v). cbn. now left.
      - destruct (f0 t) as [|[v|] id ob|] eqn:Ef; try discriminate.
        destruct (forallb _ _); [|discriminate]. injection Es as <-. cbn. repeat split; try discriminate.
        + intros x Hx. unfold insert_at in Hx. apply in_app_or in Hx. destruct Hx as [Hx|[<-|Hx]].
          * apply H1. eapply in_firstn_; eauto.
          * cbn. eapply H3; eauto.
          * apply H1. eapply in_skipn_; eauto.
        + intros u x. unfold pupd. destruct (Nat.eqb_spec u t) as [->|]; [discriminate|eauto].
        + intros u x id' ob'. unfold pupd. destruct (Nat.eqb_spec u t) as [->|]; [discriminate|eauto].
      - destruct (f0 t) as [|[v|] id ob|] eqn:Ef; try discriminate. destruct q0 as [|x0 q0]; [discriminate|].
        injection Es as <-. cbn. repeat split; try discriminate.
        + intros x Hx. apply H1. now right.
        + intros u x. unfold pupd. destruct (Nat.eqb_spec u t) as [->|]; [|eauto].
          intros E. injection E as <-. apply H1. now left.
        + intros u x id' ob'. unfold pupd. destruct (Nat.eqb_spec u t) as [->|]; [discriminate|eauto].
      - destruct (f0 t) as [|[v|] id ob|] eqn:Ef; try discriminate. destruct q0; [|discriminate].
        injection Es as <-. cbn. repeat split; auto; try discriminate.
        + intros u x. unfold pupd. destruct (Nat.eqb_spec u t) as [->|]; [discriminate|eauto].
        + intros u x id' ob'. unfold pupd. destruct (Nat.eqb_spec u t) as [->|]; [discriminate|eauto].
      - destruct (f0 t) as [|[v|] id [|]|] eqn:Ef; try discriminate. injection Es as <-. cbn. repeat split; auto; try discriminate.
        + intros u x. unfold pupd. destruct (Nat.eqb_spec u t) as [->|]; [discriminate|eauto].
        + intros u x id' ob'. unfold pupd. destruct (Nat.eqb_spec u t) as [->|]; [discriminate|eauto].
      - destruct (f0 t) as [| |r'] eqn:Ef; try discriminate. destruct (res_beq r r') eqn:Er; [|discriminate].
        apply res_beq_ok in Er. subst r'. injection Es as <-. cbn. repeat split; auto.
        + intros u x. unfold pupd. destruct (Nat.eqb_spec u t) as [->|]; [discriminate|eauto].
        + intros u x id' ob'. unfold pupd. destruct (Nat.eqb_spec u t) as [->|]; [discriminate|eauto].
        + intros u x E. injection E as -> ->. eauto. }
    destruct Hnext as (N1 & N2 & N3 & N4).
    assert (H4' : forall t v, In (@HInv Fifo t (Enq v)) (perase atr) -> P v).
    { intros t v Hin. apply (H4 t v). destruct e; cbn; auto. }
    destruct (IH c1 c' Hr P N1 N2 N3 H4') as (R1 & R2 & R3 & R4).
    repeat split; auto.
    intros t v Hin. destruct e as [t0 o|t0 k|t0|t0|t0|t0 r]; cbn in Hin; eauto.
    all: destruct Hin as [E|Hin]; [|eauto].
    + discriminate.
    + injection E as -> ->. eauto.
Qed.

(** "no item is invented": a value returned by a dequeue was the argument of an enqueue invoked before
    (stated for the whole history: the invocation occurs in it) *)
Theorem pool_no_invention (atr : list pev) :
  pool_valid atr ->
  forall t v, In (@HRes Fifo t (RVal (Some v))) (perase atr) -> invoked (perase atr) v.
Proof.
  intros (c' & Hr) t v Hin.
  destruct (prun_values atr pinit c' Hr (invoked (perase atr))) as (_ & _ & _ & R4); cbn; try (intros; contradiction);
    try (intros; discriminate).
  - intros u x Hx. now exists u.
  - eauto.
Qed.
