(** * MichaelHashSet-over-LazyList model (LV.Model.MichaelSetLazy = product of LazyList models): for every schedule every
      bucket satisfies C13's full-linearizability invariant of the lazy list ([Inv7], reads included, with helping) on
      the trace it has seen (with the true timing of its operations inside the product execution), hence the history of
      every bucket is linearizable.  Lifted from C13's per-operation lemma [safe7_run_op]
      (Proofs/LazyListFullProofs.v) by the generic product rule (Proofs/ProductProofs.v). *)
From Coq Require Import ZArith List Bool Arith PeanoNat Lia String.
From LV Require Import Base.Conc Base.Events Base.Lin Spec.Specs Proofs.LinProofs.
From LV Require Import Model.LazyList Model.Product Model.MichaelSetLazy Proofs.ProductProofs.
From LV Require Model.MichaelSet.
From LV Require Import Proofs.LazyListBase Proofs.LazyListInv Proofs.LazyListSteps Proofs.LazyListActs
                       Proofs.LazyListDefs Proofs.LazyListProofs Proofs.LazyListLin Proofs.LazyListLinActs
                       Proofs.LazyListLinProofs Proofs.LazyListFullInv Proofs.LazyListFullActs Proofs.LazyListFullProofs.
Import ListNotations.

Section MSLP.
  Variables (nb : nat) (hs : list Z).
  Hypothesis Hnb : 0 < nb.

  Notation safeP := (@Conc.safe (nat -> LazyList.G) LazyList.V (nat * ev) (AuxP aux7) (list lview7) (viewP view7 nb) (InvP Inv7 nb)).

  Lemma bucket_ltL k : bucket nb hs k < nb.
  Proof.
    unfold bucket, MichaelSet.bucket.
    destruct (Nat.ltb_spec (Z.to_nat (Z.land (MichaelSet.hash hs k) (Z.of_nat nb - 1))) nb); [assumption|exact Hnb].
  Qed.

  (** a thread between two operations, as a bucket sees it: no operation open, no node watched, no unlink half done *)
  Definition idle7 (l : lview7) : Prop := exists lv code, l = (lv, @Idle SetSpec, None, code) /\ lv_hole lv = None.

  (** every bucket's view of the thread is idle *)
  Definition idleLv (Lv : list lview7) : Prop :=
    List.length Lv = nb /\ forall b, b < nb -> exists l, nth_error Lv b = Some l /\ idle7 l.

  Definition QopP : option (lsmap) -> list lview7 -> Prop := fun r Lv' => match r with Some _ => idleLv Lv' | None => True end.

  Lemma safeP_run_opL fuel sf ic t o lsm Lv : idleLv Lv -> safeP t (run_opP nb hs fuel sf ic t o lsm) Lv QopP.
  Proof.
    intros [Hlen Hidle]. unfold run_opP. set (b := bucket nb hs (nth 1 o 0%Z)).
    assert (Hb : b < nb) by apply bucket_ltL.
    destruct (Hidle b Hb) as (l & Hn & lv & cd & -> & Hh).
    apply Conc.safe_bind.
    eapply Conc.safe_weaken; [|eapply (lift_safe view7 Inv7 t Hb) with (Q := fun r l' => match r with None => True | Some _ => idle7 l' end); [|exact Hn|exact Hlen]].
    - intros r Lv' (K1 & (l' & K2 & K3) & K4). destruct r as [ls'|]; cbn; [|exact I].
      split; [exact K1|]. intros b0 Hb0. destruct (Nat.eq_dec b0 b) as [->|Hne].
      + exists l'. split; [exact K2|exact K3].
      + rewrite (K4 b0 Hne). apply Hidle; exact Hb0.
    - apply safe7_run_op; [exact Hh|]. split.
      + intros l0. exact I.
      + intros ls' lv' code' E. exists lv', code'. split; [reflexivity|exact E].
  Qed.

  Lemma safeP_run_opsL fuel sf ic t : forall os lsm Lv, idleLv Lv -> safeP t (run_opsP nb hs fuel sf ic t os lsm) Lv (fun _ _ => True).
  Proof.
    induction os as [|o r IH]; intros lsm Lv H; cbn [run_opsP]; [exact I|].
    apply Conc.safe_bind. eapply Conc.safe_weaken; [|apply safeP_run_opL; exact H].
    intros [lsm'|] Lv' H'; cbn in H'; [apply IH; exact H'|exact I].
  Qed.

  Lemma safeP_threadL fuel sf ic t os Lv : idleLv Lv -> safeP t (thread_progP nb hs fuel sf ic t os) Lv (@Conc.QTrue (list lview7)).
  Proof.
    intros [Hlen Hidle]. unfold thread_progP.
    destruct (Hidle 0 Hnb) as (l & Hn & Hi).
    apply Conc.safe_bind.
    eapply Conc.safe_weaken; [|eapply (lift_safe view7 Inv7 t Hnb) with (Q := fun _ l' => l' = l); [|exact Hn|exact Hlen]].
    - intros r Lv' (K1 & (l' & K2 & ->) & K4).
      eapply Conc.safe_weaken; [|apply safeP_run_opsL]. { intros; exact I. }
      split; [exact K1|]. intros b0 Hb0. destruct (Nat.eq_dec b0 0) as [->|Hne].
      + exists l. split; [exact K2|exact Hi].
      + rewrite (K4 b0 Hne). apply Hidle; exact Hb0.
    - apply safe7_neutral with (v := v0); [apply neutral3_begin|]. reflexivity.
  Qed.

  Lemma nth_thread_progsPL7 fuel sf ic : forall ths t0 t p,
    nth_error (thread_progsP nb hs fuel sf ic t0 ths) t = Some p -> exists os, p = thread_progP nb hs fuel sf ic (t0 + t) os.
  Proof.
    induction ths as [|os r IH]; intros t0 t p H; cbn [thread_progsP] in H.
    - destruct t; discriminate.
    - destruct t as [|t]; cbn in H.
      + inversion H; subst. exists os. rewrite Nat.add_0_r. reflexivity.
      + destruct (IH (S t0) t p H) as (os' & ->). exists os'. f_equal. lia.
  Qed.

  Lemma Inv7_init : Inv7 LazyList.init aux70 [].
  Proof.
    exists []. split; [exact IS_init|]. constructor; cbn [aux70 h_atr h_vs h_cand h_code h_watch].
    - exists [], (fun _ => @Idle SetSpec). split; [reflexivity|]. split.
      + intros k0. split; [discriminate|]. intros (n & [] & _).
      + intros t. unfold srel. cbn [aux70 h_cand h_vs]. reflexivity.
    - exists []. split; [reflexivity|]. intros t Hn. exfalso. apply Hn. reflexivity.
    - split; [constructor|]. intros t Hn. exfalso. apply Hn. reflexivity.
  Qed.

  Lemma init_okPL fuel sf ic ths : Conc.cfg_ok (viewP view7 nb) (InvP Inv7 nb) (init_cfgP nb hs fuel sf ic ths).
  Proof.
    exists (fun _ => aux70). split.
    - intros b Hb. cbn. exact Inv7_init.
    - intros t p Hp. cbn [init_cfgP Conc.threads] in Hp. destruct (nth_thread_progsPL7 _ _ _ _ _ _ _ Hp) as (os & ->).
      apply safeP_threadL. split; [apply viewP_length|]. intros b Hb.
      exists (view7 aux70 (0 + t)). split; [rewrite viewP_nth by exact Hb; reflexivity|].
      unfold view7. cbn [aux70 h_base h_vs h_cand h_code]. eexists _, _. split; [reflexivity|reflexivity].
  Qed.

  (** ** every bucket of the MichaelHashSet-over-LazyList model is linearizable, every schedule *)
  Theorem michaelset_lazy_bucket_linearizable_lp fuel sf ic ths c :
    Conc.reach (init_cfgP nb hs fuel sf ic ths) c ->
    forall b, b < nb -> exists atr, lp_valid SetSpec atr /\ erase atr = full_hist (projb b (Conc.trace c)).
  Proof.
    intros Hr b Hb. destruct (Conc.reach_Inv (init_okPL fuel sf ic ths) Hr) as (A & HI).
    destruct (HI b Hb) as (L & _ & [(S & st0 & H1 & _) (pend & H2 & _) _]).
    exists (h_atr (A b)). split; [exists (S, st0); exact H1|]. unfold MichaelListProofs.full_hist. symmetry. exact (f_equal fst H2).
  Qed.

  Theorem michaelset_lazy_bucket_linearizable fuel sf ic ths c :
    Conc.reach (init_cfgP nb hs fuel sf ic ths) c ->
    forall b, b < nb -> linearizable SetSpec (full_hist (projb b (Conc.trace c))).
  Proof.
    intros Hr b Hb. destruct (michaelset_lazy_bucket_linearizable_lp fuel sf ic ths c Hr b Hb) as (atr & Hv & <-).
    apply lp_valid_linearizable. exact Hv.
  Qed.
End MSLP.
