(** * C28_Digits — bit slices of a number and mixed-radix digit sequences (pure arithmetic, no C++ here).
    [slice v p c] = bits [p, p+c) of v;  [digits v p ws] = the successive slices of widths [ws] starting at bit p. *)
Require Import ZArith Lia List Bool.
Import ListNotations.
Local Open Scope Z_scope.

Definition slice (v p c : Z) : Z := (v / 2 ^ p) mod 2 ^ c.

Lemma pow2_pos' n : 0 <= n -> 0 < 2 ^ n.
Proof. intros. apply Z.pow_pos_nonneg; lia. Qed.

Lemma slice_range v p c : 0 <= c -> 0 <= slice v p c < 2 ^ c.
Proof. intros. unfold slice. apply Z.mod_pos_bound. now apply pow2_pos'. Qed.

Lemma slice_testbit v p c i : 0 <= p -> 0 <= c -> 0 <= i ->
  Z.testbit (slice v p c) i = if i <? c then Z.testbit v (p + i) else false.
Proof.
  intros Hp Hc Hi. unfold slice. destruct (i <? c) eqn:E.
  - apply Z.ltb_lt in E. rewrite Z.mod_pow2_bits_low by lia.
    rewrite <- Z.shiftr_div_pow2 by lia. rewrite Z.shiftr_spec by lia. f_equal. lia.
  - apply Z.ltb_ge in E. apply Z.mod_pow2_bits_high. lia.
Qed.

Lemma slice_nonneg v p c : 0 <= c -> 0 <= slice v p c.
Proof. intros. apply slice_range. lia. Qed.

Lemma slice_zero_width v p : slice v p 0 = 0.
Proof. unfold slice. now rewrite Z.pow_0_r, Z.mod_1_r. Qed.

(** consecutive slices concatenate *)
Lemma slice_app v p a b : 0 <= p -> 0 <= a -> 0 <= b ->
  slice v p (a + b) = slice v p a + 2 ^ a * slice v (p + a) b.
Proof.
  intros Hp Ha Hb. unfold slice.
  rewrite Z.pow_add_r by lia.
  rewrite Z.rem_mul_r by (apply Z.pow_nonzero || apply pow2_pos'; lia).
  f_equal. f_equal. rewrite Z.pow_add_r by lia.
  rewrite Z.div_div by (try apply pow2_pos'; try (apply Z.pow_nonzero; lia); lia). reflexivity.
Qed.

Lemma slice_mod W v p c : 0 <= p -> 0 <= c -> p + c <= W -> slice (v mod 2 ^ W) p c = slice v p c.
Proof.
  intros Hp Hc HW. apply Z.bits_inj'. intros i Hi.
  rewrite !slice_testbit by lia. destruct (i <? c) eqn:E; [|reflexivity].
  apply Z.ltb_lt in E. apply Z.mod_pow2_bits_low. lia.
Qed.

Lemma slice_full v W : 0 <= v < 2 ^ W -> slice v 0 W = v.
Proof. intros. unfold slice. rewrite Z.pow_0_r, Z.div_1_r. apply Z.mod_small. lia. Qed.

Lemma slice_small v p c W : 0 <= v < 2 ^ W -> 0 <= p -> 0 <= c -> W <= p -> slice v p c = 0.
Proof.
  intros Hv Hp Hc HW. unfold slice. rewrite Z.div_small; [apply Z.mod_0_l; apply Z.pow_nonzero; lia|].
  split; [lia|]. apply Z.lt_le_trans with (2 ^ W); [lia|]. apply Z.pow_le_mono_r; lia.
Qed.

(** slices of a slice *)
Lemma slice_slice v p c q d : 0 <= p -> 0 <= q -> 0 <= d -> q + d <= c ->
  slice (slice v p c) q d = slice v (p + q) d.
Proof.
  intros Hp Hq Hd Hc. apply Z.bits_inj'. intros i Hi.
  rewrite !slice_testbit by lia. destruct (i <? d) eqn:E; [|reflexivity].
  apply Z.ltb_lt in E. replace (q + i <? c) with true by (symmetry; apply Z.ltb_lt; lia).
  f_equal. lia.
Qed.

(** x + y * 2^d when x < 2^d is a bitwise or *)
Lemma lor_shiftl_add x y d : 0 <= d -> 0 <= x < 2 ^ d -> 0 <= y -> Z.lor x (Z.shiftl y d) = x + 2 ^ d * y.
Proof.
  intros Hd Hx Hy. rewrite Z.shiftl_mul_pow2 by lia.
  rewrite <- Z.lxor_lor.
  - rewrite <- Z.add_nocarry_lxor; [lia|].
    apply Z.bits_inj'. intros i Hi. rewrite Z.land_spec, Z.bits_0.
    destruct (Z_lt_dec i d).
    + rewrite Z.mul_pow2_bits_low by lia. apply andb_false_r.
    + assert (Z.testbit x i = false) as ->; [|reflexivity].
      destruct (Z.eq_dec x 0) as [->|]; [apply Z.bits_0|].
      apply Z.bits_above_log2; [lia|]. apply Z.lt_le_trans with d; [|lia]. apply Z.log2_lt_pow2; lia.
  - apply Z.bits_inj'. intros i Hi. rewrite Z.land_spec, Z.bits_0.
    destruct (Z_lt_dec i d).
    + rewrite Z.mul_pow2_bits_low by lia. apply andb_false_r.
    + assert (Z.testbit x i = false) as ->; [|reflexivity].
      destruct (Z.eq_dec x 0) as [->|]; [apply Z.bits_0|].
      apply Z.bits_above_log2; [lia|]. apply Z.lt_le_trans with d; [|lia]. apply Z.log2_lt_pow2; lia.
Qed.

(** ** digit sequences *)

Definition sumz (ws : list Z) : Z := fold_right Z.add 0 ws.

Fixpoint digits (v p : Z) (ws : list Z) : list Z :=
  match ws with
  | [] => []
  | w :: r => slice v p w :: digits v (p + w) r
  end.

Fixpoint undigits (ds ws : list Z) : Z :=
  match ds, ws with
  | d :: ds', w :: ws' => d + 2 ^ w * undigits ds' ws'
  | _, _ => 0
  end.

Lemma digits_length v p ws : length (digits v p ws) = length ws.
Proof. revert p; induction ws; simpl; intros; [reflexivity | now rewrite IHws]. Qed.

Lemma sumz_nonneg ws : Forall (fun w => 0 <= w) ws -> 0 <= sumz ws.
Proof. induction 1; simpl; lia. Qed.

Lemma sumz_app a b : sumz (a ++ b) = sumz a + sumz b.
Proof. induction a; simpl; lia. Qed.

Lemma sumz_repeat w n : sumz (repeat w n) = Z.of_nat n * w.
Proof. induction n; [reflexivity|]. cbn [repeat sumz fold_right]. fold (sumz (repeat w n)). lia. Qed.

(** cut_sequence_reconstructs: the digits determine the slice they were cut from *)
Lemma digits_reconstruct v p ws : 0 <= p -> Forall (fun w => 0 <= w) ws ->
  undigits (digits v p ws) ws = slice v p (sumz ws).
Proof.
  intros Hp Hws. revert p Hp. induction Hws as [|w ws Hw Hws IH]; intros p Hp; simpl.
  - now rewrite slice_zero_width.
  - rewrite IH by lia. fold (sumz ws). rewrite slice_app; auto using sumz_nonneg.
Qed.

Lemma digits_reconstruct_all v ws : Forall (fun w => 0 <= w) ws -> 0 <= v < 2 ^ sumz ws ->
  undigits (digits v 0 ws) ws = v.
Proof. intros. rewrite digits_reconstruct by (auto; lia). now apply slice_full. Qed.

Lemma digits_inj v1 v2 ws : Forall (fun w => 0 <= w) ws ->
  0 <= v1 < 2 ^ sumz ws -> 0 <= v2 < 2 ^ sumz ws -> digits v1 0 ws = digits v2 0 ws -> v1 = v2.
Proof.
  intros Hws H1 H2 E. rewrite <- (digits_reconstruct_all v1 ws), <- (digits_reconstruct_all v2 ws) by auto.
  now rewrite E.
Qed.

Lemma digits_nth v p ws k w : nth_error ws k = Some w ->
  nth_error (digits v p ws) k = Some (slice v (p + sumz (firstn k ws)) w).
Proof.
  revert p k. induction ws as [|a ws IH]; intros p k Hk; destruct k; simpl in *; try discriminate.
  - injection Hk as ->. f_equal. f_equal. lia.
  - rewrite (IH _ _ Hk). f_equal. f_equal. fold (sumz (firstn k ws)). lia.
Qed.

Lemma digits_in_range v p ws k w d : Forall (fun w => 0 <= w) ws ->
  nth_error ws k = Some w -> nth_error (digits v p ws) k = Some d -> 0 <= d < 2 ^ w.
Proof.
  intros Hws Hw Hd. rewrite (digits_nth _ _ _ _ _ Hw) in Hd. injection Hd as <-.
  apply slice_range. rewrite Forall_forall in Hws. apply Hws. eapply nth_error_In; eauto.
Qed.

(** ** first difference of two lists of equal length *)

Lemma first_diff (l1 l2 : list Z) : length l1 = length l2 -> l1 <> l2 ->
  exists k, (k < length l1)%nat /\ firstn k l1 = firstn k l2 /\ nth_error l1 k <> nth_error l2 k.
Proof.
  revert l2. induction l1 as [|a l1 IH]; intros [|b l2] Hlen Hne; simpl in Hlen; try discriminate.
  - contradiction.
  - destruct (Z.eq_dec a b) as [->|Hab].
    + destruct (IH l2) as (k & Hk & Hf & Hn); [lia | congruence |].
      exists (Datatypes.S k). simpl. repeat split; [lia | now rewrite Hf | exact Hn].
    + exists 0%nat. simpl. repeat split; [lia | congruence].
Qed.

Lemma firstn_eq_all {A} (l1 l2 : list A) : length l1 = length l2 ->
  firstn (length l1) l1 = firstn (length l1) l2 -> l1 = l2.
Proof. intros Hl. rewrite firstn_all. rewrite Hl, firstn_all. auto. Qed.
