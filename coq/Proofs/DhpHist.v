(** * DhpHist: what a trace of LV.Model.Dhp says about guards, attachment, scans and the allocators.

    The model emits, besides the events shared with the C++ log, ghost events (names starting with '_') at the
    step in which the corresponding thing happens.  [hist tr] folds a trace into the summary the property
    statements are written in:
      - [slotv h s], [lastw h s]: current content of hazard cell [s] and the index of the last store to it;
      - [att h r = Some (t, k)]: record [r] is attached to thread [t] since event index [k] ("_att" ... "_det");
      - [linked h r]: the extension blocks linked into [r]'s guard list since it was attached, newest first,
        each with the index of the "_link" event;
      - [scan h t = Some k]: thread [t] is inside smr::scan since index [k] ("_scanb" ... "_scane");
      - [freeh h f]: blocks given to allocator [f] and not taken out since; [flbad h]: an "_alloc" event
        named a block that was not in [freeh] (the embedded free list handed out a block it did not hold —
        excluded by property C21). *)
From Coq Require Import ZArith NArith List String Bool Lia PeanoNat.
From LV Require Import Base.Conc Base.Events Model.DhpLang Model.Dhp Proofs.DhpBase.
Import ListNotations.
Local Open Scope string_scope.
Local Open Scope list_scope.

Inductive hev :=
| HSlot (s : gref) (v : nat) | HAtt (r : nat) | HDet (r : nat) | HLink (r b : nat)
| HAlloc (f : fl) (b : nat) | HNew (f : fl) (b : nat) | HFree (f : fl) (b : nat)
| HScanb (r : nat) | HScane (r : nat) | HDispose (p : nat) | HOther.

Definition zfl (z : Z) : fl := if Z.eqb z 0 then FHp else FRt.
Definition zgref (k a i : Z) : gref := if Z.eqb k 0 then GI (Z.to_nat a) (Z.to_nat i) else GE (Z.to_nat a) (Z.to_nat i).

Definition classify (e : ev) : hev :=
  match e with
  | EvAcc _ _ _ => HOther
  | EvCli name args =>
      if String.eqb name "_slot" then match args with [k; a; i; v] => HSlot (zgref k a i) (Z.to_nat v) | _ => HOther end
      else if String.eqb name "_att" then match args with [r] => HAtt (Z.to_nat r) | _ => HOther end
      else if String.eqb name "_det" then match args with [r] => HDet (Z.to_nat r) | _ => HOther end
      else if String.eqb name "_link" then match args with [r; b] => HLink (Z.to_nat r) (Z.to_nat b) | _ => HOther end
      else if String.eqb name "_alloc" then match args with [f; b] => HAlloc (zfl f) (Z.to_nat b) | _ => HOther end
      else if String.eqb name "_new" then match args with [f; b] => HNew (zfl f) (Z.to_nat b) | _ => HOther end
      else if String.eqb name "_free" then match args with [f; b] => HFree (zfl f) (Z.to_nat b) | _ => HOther end
      else if String.eqb name "_scanb" then match args with [r] => HScanb (Z.to_nat r) | _ => HOther end
      else if String.eqb name "_scane" then match args with [r] => HScane (Z.to_nat r) | _ => HOther end
      else if String.eqb name "dispose" then match args with [p] => HDispose (Z.to_nat p) | _ => HOther end
      else HOther
  end.

Lemma classify_slot s v : classify (ev_slot s v) = HSlot s v.
Proof. destruct s; cbn; unfold zgref, zn; cbn; now rewrite !Nat2Z.id. Qed.
Lemma classify_att r : classify (ev_att r) = HAtt r.
Proof. cbn. unfold zn. now rewrite Nat2Z.id. Qed.
Lemma classify_det r : classify (ev_det r) = HDet r.
Proof. cbn. unfold zn. now rewrite Nat2Z.id. Qed.
Lemma classify_link r b : classify (ev_link r b) = HLink r b.
Proof. cbn. unfold zn. now rewrite !Nat2Z.id. Qed.
Lemma classify_alloc f b : classify (ev_alloc f b) = HAlloc f b.
Proof. destruct f; cbn; unfold zn; now rewrite Nat2Z.id. Qed.
Lemma classify_new f b : classify (ev_new f b) = HNew f b.
Proof. destruct f; cbn; unfold zn; now rewrite Nat2Z.id. Qed.
Lemma classify_free f b : classify (ev_free f b) = HFree f b.
Proof. destruct f; cbn; unfold zn; now rewrite Nat2Z.id. Qed.
Lemma classify_scanb r : classify (ev_scanb r) = HScanb r.
Proof. cbn. unfold zn. now rewrite Nat2Z.id. Qed.
Lemma classify_scane r : classify (ev_scane r) = HScane r.
Proof. cbn. unfold zn. now rewrite Nat2Z.id. Qed.
Lemma classify_dispose p : classify (ev_dispose p) = HDispose p.
Proof. cbn. unfold zn. now rewrite Nat2Z.id. Qed.
Lemma classify_acc k o ok : classify (EvAcc k o ok) = HOther.
Proof. reflexivity. Qed.

Definition fl_eqb (x y : fl) : bool := match x, y with FHp, FHp | FRt, FRt => true | _, _ => false end.

Record H := mkH {
  hlen : nat;
  slotv : gref -> nat;
  lastw : gref -> option nat;
  att : nat -> option (nat * nat);
  linked : nat -> list (nat * nat);
  scan : nat -> option nat;
  freeh : fl -> list nat;
  flbad : bool }.

Definition h0 : H := mkH 0 (fun _ => 0) (fun _ => None) (fun _ => None) (fun _ => []) (fun _ => None) (fun _ => []) false.

Definition fupd {A B} (eqb : A -> A -> bool) (f : A -> B) (x : A) (v : B) : A -> B :=
  fun y => if eqb y x then v else f y.

Fixpoint remove1 (b : nat) (l : list nat) : list nat :=
  match l with
  | [] => []
  | x :: r => if Nat.eqb x b then r else x :: remove1 b r
  end.

Definition hstep (h : H) (te : nat * ev) : H :=
  let t := fst te in
  let n := hlen h in
  let h' :=
    match classify (snd te) with
    | HSlot s v => mkH n (fupd gref_eqb (slotv h) s v) (fupd gref_eqb (lastw h) s (Some n)) (att h) (linked h) (scan h) (freeh h) (flbad h)
    | HAtt r => mkH n (slotv h) (lastw h) (fupd Nat.eqb (att h) r (Some (t, n))) (fupd Nat.eqb (linked h) r []) (scan h) (freeh h) (flbad h)
    | HDet r => mkH n (slotv h) (lastw h) (fupd Nat.eqb (att h) r None) (fupd Nat.eqb (linked h) r []) (scan h) (freeh h) (flbad h)
    | HLink r b => mkH n (slotv h) (lastw h) (att h) (fupd Nat.eqb (linked h) r ((b, n) :: linked h r)) (scan h) (freeh h) (flbad h)
    | HAlloc f b =>
        if existsb (Nat.eqb b) (freeh h f)
        then mkH n (slotv h) (lastw h) (att h) (linked h) (scan h) (fupd fl_eqb (freeh h) f (remove1 b (freeh h f))) (flbad h)
        else mkH n (slotv h) (lastw h) (att h) (linked h) (scan h) (freeh h) true
    | HFree f b => mkH n (slotv h) (lastw h) (att h) (linked h) (scan h) (fupd fl_eqb (freeh h) f (b :: freeh h f)) (flbad h)
    | HScanb r => mkH n (slotv h) (lastw h) (att h) (linked h) (fupd Nat.eqb (scan h) t (Some n)) (freeh h) (flbad h)
    | HScane r => mkH n (slotv h) (lastw h) (att h) (linked h) (fupd Nat.eqb (scan h) t None) (freeh h) (flbad h)
    | HNew _ _ | HDispose _ | HOther => h
    end in
  mkH (S n) (slotv h') (lastw h') (att h') (linked h') (scan h') (freeh h') (flbad h').

Definition hist (tr : list (nat * ev)) : H := fold_left hstep tr h0.

Lemma hist_app tr tr' : hist (tr ++ tr') = fold_left hstep tr' (hist tr).
Proof. unfold hist. apply fold_left_app. Qed.

Lemma hist_snoc tr e : hist (tr ++ [e]) = hstep (hist tr) e.
Proof. now rewrite hist_app. Qed.

Lemma hlen_hstep h e : hlen (hstep h e) = S (hlen h).
Proof. reflexivity. Qed.

Lemma hlen_hist tr : hlen (hist tr) = List.length tr.
Proof.
  induction tr as [|e tr IH] using rev_ind; [reflexivity|].
  rewrite hist_snoc, hlen_hstep, IH, app_length. cbn. lia.
Qed.

Lemma flbad_mono_step h e : flbad h = true -> flbad (hstep h e) = true.
Proof.
  intros Hb. unfold hstep. destruct (classify (snd e)); cbn; auto.
  destruct (existsb (Nat.eqb b) (freeh h f)); cbn; auto.
Qed.

Lemma flbad_mono tr tr' : flbad (hist tr) = true -> flbad (hist (tr ++ tr')) = true.
Proof.
  rewrite hist_app. generalize (hist tr). induction tr' as [|e l IH]; intros h Hb; cbn; auto.
  apply IH. now apply flbad_mono_step.
Qed.

(** ** the vocabulary of the C02 statement *)
(** hazard cell [s] belongs, since event index [k], to a thread record that is attached: a cell of the
    initial array of an attached record, or of an extension block linked into its guard list *)
Definition live (c : cfg) (h : H) (s : gref) (k : nat) : Prop :=
  match s with
  | GI r i => exists t, att h r = Some (t, k) /\ i < eff_H c
  | GE b i => exists r t k0, att h r = Some (t, k0) /\ In (b, k) (linked h r) /\ i < c_GB c
  end.

(** cell [s] has held [p] without interruption since before index [s0], and belonged to an attached record
    all that time *)
Definition guards_since (c : cfg) (h : H) (s : gref) (p : nat) (s0 : nat) : Prop :=
  slotv h s = p /\ (exists w, lastw h s = Some w /\ w < s0) /\ exists k, live c h s k /\ k < s0.

(** the C02 property of a trace: whenever thread [t] hands [p] to the disposer inside a scan that began at
    index [s0], no hazard cell guards [p] since before [s0] *)
Definition no_dispose_while_guarded (c : cfg) (tr : list (nat * ev)) : Prop :=
  forall tr1 t p tr2, tr = tr1 ++ (t, ev_dispose p) :: tr2 -> p <> 0 ->
    forall s0, scan (hist tr1) t = Some s0 ->
    forall s, ~ guards_since c (hist tr1) s p s0.

(** ** one step of the summary, per kind of event *)
Lemma hstep_other h t e : classify e = HOther ->
  hstep h (t, e) = mkH (S (hlen h)) (slotv h) (lastw h) (att h) (linked h) (scan h) (freeh h) (flbad h).
Proof. intros E. unfold hstep. cbn [snd fst]. rewrite E. reflexivity. Qed.
Lemma hstep_acc h t k o ok :
  hstep h (t, EvAcc k o ok) = mkH (S (hlen h)) (slotv h) (lastw h) (att h) (linked h) (scan h) (freeh h) (flbad h).
Proof. apply hstep_other. reflexivity. Qed.
Lemma hstep_slot h t s v :
  hstep h (t, ev_slot s v) = mkH (S (hlen h)) (fupd gref_eqb (slotv h) s v) (fupd gref_eqb (lastw h) s (Some (hlen h)))
                                 (att h) (linked h) (scan h) (freeh h) (flbad h).
Proof. unfold hstep. cbn [snd fst]. rewrite classify_slot. reflexivity. Qed.
Lemma hstep_att h t r :
  hstep h (t, ev_att r) = mkH (S (hlen h)) (slotv h) (lastw h) (fupd Nat.eqb (att h) r (Some (t, hlen h)))
                                (fupd Nat.eqb (linked h) r []) (scan h) (freeh h) (flbad h).
Proof. unfold hstep. cbn [snd fst]. rewrite classify_att. reflexivity. Qed.
Lemma hstep_det h t r :
  hstep h (t, ev_det r) = mkH (S (hlen h)) (slotv h) (lastw h) (fupd Nat.eqb (att h) r None)
                                (fupd Nat.eqb (linked h) r []) (scan h) (freeh h) (flbad h).
Proof. unfold hstep. cbn [snd fst]. rewrite classify_det. reflexivity. Qed.
Lemma hstep_link h t r b :
  hstep h (t, ev_link r b) = mkH (S (hlen h)) (slotv h) (lastw h) (att h)
                                 (fupd Nat.eqb (linked h) r ((b, hlen h) :: linked h r)) (scan h) (freeh h) (flbad h).
Proof. unfold hstep. cbn [snd fst]. rewrite classify_link. reflexivity. Qed.
Lemma hstep_scanb h t r :
  hstep h (t, ev_scanb r) = mkH (S (hlen h)) (slotv h) (lastw h) (att h) (linked h)
                                  (fupd Nat.eqb (scan h) t (Some (hlen h))) (freeh h) (flbad h).
Proof. unfold hstep. cbn [snd fst]. rewrite classify_scanb. reflexivity. Qed.
Lemma hstep_scane h t r :
  hstep h (t, ev_scane r) = mkH (S (hlen h)) (slotv h) (lastw h) (att h) (linked h)
                                  (fupd Nat.eqb (scan h) t None) (freeh h) (flbad h).
Proof. unfold hstep. cbn [snd fst]. rewrite classify_scane. reflexivity. Qed.
Lemma hstep_dispose h t p :
  hstep h (t, ev_dispose p) = mkH (S (hlen h)) (slotv h) (lastw h) (att h) (linked h) (scan h) (freeh h) (flbad h).
Proof. unfold hstep. cbn [snd fst]. rewrite classify_dispose. reflexivity. Qed.
Lemma hstep_new h t f b :
  hstep h (t, ev_new f b) = mkH (S (hlen h)) (slotv h) (lastw h) (att h) (linked h) (scan h) (freeh h) (flbad h).
Proof. unfold hstep. cbn [snd fst]. rewrite classify_new. reflexivity. Qed.
Lemma hstep_free h t f b :
  hstep h (t, ev_free f b) = mkH (S (hlen h)) (slotv h) (lastw h) (att h) (linked h) (scan h)
                                  (fupd fl_eqb (freeh h) f (b :: freeh h f)) (flbad h).
Proof. unfold hstep. cbn [snd fst]. rewrite classify_free. reflexivity. Qed.
Lemma hstep_alloc h t f b :
  hstep h (t, ev_alloc f b) =
  if existsb (Nat.eqb b) (freeh h f)
  then mkH (S (hlen h)) (slotv h) (lastw h) (att h) (linked h) (scan h) (fupd fl_eqb (freeh h) f (remove1 b (freeh h f))) (flbad h)
  else mkH (S (hlen h)) (slotv h) (lastw h) (att h) (linked h) (scan h) (freeh h) true.
Proof. unfold hstep. cbn [snd fst]. rewrite classify_alloc. destruct (existsb _ _); reflexivity. Qed.

Lemma gref_eqb_eq x y : gref_eqb x y = true <-> x = y.
Proof.
  destruct x, y; cbn; split; intros H; try discriminate; try (inversion H; subst; now rewrite !Nat.eqb_refl).
  - apply andb_true_iff in H. destruct H as (A & B). apply Nat.eqb_eq in A, B. now subst.
  - apply andb_true_iff in H. destruct H as (A & B). apply Nat.eqb_eq in A, B. now subst.
Qed.
Lemma gref_eqb_refl x : gref_eqb x x = true. Proof. now apply gref_eqb_eq. Qed.

Lemma fupd_same {A B} (eqb : A -> A -> bool) (f : A -> B) x v : eqb x x = true -> fupd eqb f x v x = v.
Proof. unfold fupd. now intros ->. Qed.
Lemma fupd_other {A B} (eqb : A -> A -> bool) (f : A -> B) x v y : eqb y x = false -> fupd eqb f x v y = f y.
Proof. unfold fupd. now intros ->. Qed.
