(** * RcuPtr (C04): a release() inside the lock never completes - the trace form, for every schedule.

    A thread-local phase monitor (the invariant does not look at the shared state): after a "release" event the thread
    is in its batch_retire: it emits only accesses and "retire" events until the first "dispose" (the grace period is
    over) or "outoffuel" (a wait loop of the model ran out of fuel; nothing follows).  Together with
    [ptr_dispose_outside_all] (a "dispose" is emitted outside every section): after a "release" event emitted INSIDE a
    read-side section the thread never emits anything but accesses, "retire" events and the final "outoffuel" - no
    response of the release, no later operation, no unlock ([ptr_release_inside_stuck]), for every schedule, every spin
    fuel, every client program, strict or not. *)
From Coq Require Import ZArith List String Bool Lia PeanoNat.
From LV Require Import Base.Conc Base.Events Model.RcuGp Model.RcuPtr Proofs.RcuGpInv Proofs.RcuGpSafe Proofs.RcuPtrInv
  Proofs.RcuPtrSafe Proofs.RcuPtrXDispThm.
Import ListNotations.
Local Open Scope string_scope.
Local Open Scope list_scope.
Local Open Scope Z_scope.

Definition ev_at (tr : trace) (j t : nat) (e : ev) : Prop := nth_error tr j = Some (t, e).

Definition qev (e : ev) : bool := match e with EvAcc _ _ _ => true | EvCli n _ => String.eqb n "retire" end.
Definition is_rel : ev -> bool := is_cli "release".
Definition is_oof : ev -> bool := is_cli "outoffuel".

Inductive ph := PNone | PBatch (r : nat) | PDead.
Definition SAux := nat -> ph.
Definition sview (a : SAux) (t : nat) : ph := a t.
Definition updS (a : SAux) (t : nat) (l : ph) : SAux := fun x => if Nat.eqb x t then l else a x.

(** the batch of the "release" event at r has ended (first "dispose") or died ("outoffuel") at j *)
Definition closed (tr : trace) (t r : nat) : Prop :=
  exists j e', (r < j)%nat /\ ev_at tr j t e' /\ ((exists p, e' = EvCli "dispose" [p]) \/ e' = EvCli "outoffuel" []) /\
    forall i e'', (r < i < j)%nat -> ev_at tr i t e'' -> qev e'' = true.

Record SInv (g : PG) (a : SAux) (tr : trace) : Prop := {
  B1 : forall t r, a t = PBatch r ->
         (exists e, ev_at tr r t e /\ is_rel e = true) /\ forall j e, (r < j)%nat -> ev_at tr j t e -> qev e = true;
  B3 : forall r t e, ev_at tr r t e -> is_rel e = true -> a t = PBatch r \/ closed tr t r;
  B4 : forall j0 t e, ev_at tr j0 t e -> is_oof e = true -> a t = PDead /\ forall j e', (j0 < j)%nat -> ~ ev_at tr j t e'
}.

Notation ssafe := (@Conc.safe PG V ev SAux ph sview SInv).

Lemma ev_at_lt tr j t e : ev_at tr j t e -> (j < List.length tr)%nat.
Proof. unfold ev_at. intros H. apply nth_error_Some. congruence. Qed.

Lemma ev_at_app_l tr x j t e : ev_at tr j t e -> ev_at (tr ++ x) j t e.
Proof. unfold ev_at. intros H. rewrite nth_error_app1; [exact H|]. apply nth_error_Some. congruence. Qed.

Lemma ev_at_app_inv tr t es j t0 e :
  ev_at (tr ++ Conc.tag t es) j t0 e ->
  ev_at tr j t0 e \/ (t0 = t /\ (List.length tr <= j)%nat /\ nth_error es (j - List.length tr) = Some e).
Proof.
  unfold ev_at. intros H. destruct (Nat.lt_ge_cases j (List.length tr)) as [L|L].
  - left. rewrite nth_error_app1 in H by exact L. exact H.
  - right. rewrite nth_error_app2 in H by exact L. unfold Conc.tag in H. rewrite nth_error_map in H.
    destruct (nth_error es (j - List.length tr)) as [e'|]; [|discriminate]. cbn in H. inversion H; subst. auto.
Qed.

Lemma closed_app tr x t r : closed tr t r -> closed (tr ++ x) t r.
Proof.
  intros (j & e' & Hj & Hat & Hk & Hq). exists j, e'. split; [exact Hj|]. split; [apply ev_at_app_l; exact Hat|]. split; [exact Hk|].
  intros i e'' Hi Hat'. apply (Hq i e'' Hi). unfold ev_at in *. pose proof (ev_at_lt _ _ _ _ Hat) as L.
  rewrite nth_error_app1 in Hat' by lia. exact Hat'.
Qed.

Lemma qev_not_rel e : qev e = true -> is_rel e = false.
Proof.
  destruct e as [|n args]; [reflexivity|]. unfold qev, is_rel, is_cli. intros H. apply String.eqb_eq in H. subst n. reflexivity.
Qed.
Lemma qev_not_oof e : qev e = true -> is_oof e = false.
Proof.
  destruct e as [|n args]; [reflexivity|]. unfold qev, is_oof, is_cli. intros H. apply String.eqb_eq in H. subst n. reflexivity.
Qed.
Lemma qev_not_runlock e : qev e = true -> is_runlock0 e = false.
Proof.
  destruct e as [|n args]; [reflexivity|]. unfold qev, is_runlock0, cli_is. intros H. apply String.eqb_eq in H. subst n.
  destruct args; reflexivity.
Qed.

Definition nrel (es : list ev) : Prop := forall e, In e es -> is_rel e = false /\ is_oof e = false.
Definition allq (es : list ev) : Prop := forall e, In e es -> qev e = true.

Lemma updS_same a t l : updS a t l t = l.
Proof. unfold updS. now rewrite Nat.eqb_refl. Qed.
Lemma updS_other a t l t' : t' <> t -> updS a t l t' = a t'.
Proof. unfold updS. intros H. destruct (Nat.eqb_spec t' t); congruence. Qed.

(** *** the steps *)
Lemma step_none g g' a tr t es : SInv g a tr -> a t = PNone -> nrel es -> SInv g' a (tr ++ Conc.tag t es).
Proof.
  intros [A1 A3 A4] Ht N. constructor.
  - intros t0 r H0. destruct (A1 t0 r H0) as ((e & He & Hr) & Hq). split; [exists e; split; [apply ev_at_app_l; exact He|exact Hr]|].
    intros j e' Hj Hat. apply ev_at_app_inv in Hat. destruct Hat as [Hat|(-> & _)]; [eapply Hq; eauto|congruence].
  - intros r t0 e Hat Hr. apply ev_at_app_inv in Hat. destruct Hat as [Hat|(-> & _ & Hn)].
    + destruct (A3 r t0 e Hat Hr) as [X|X]; [left; exact X|right; apply closed_app; exact X].
    + apply nth_error_In in Hn. destruct (N e Hn) as (X & _). congruence.
  - intros j0 t0 e Hat Ho. apply ev_at_app_inv in Hat. destruct Hat as [Hat|(-> & _ & Hn)].
    + destruct (A4 j0 t0 e Hat Ho) as (X & Y). split; [exact X|]. intros j e' Hj Hat'. apply ev_at_app_inv in Hat'.
      destruct Hat' as [Hat'|(-> & _)]; [eapply Y; eauto|congruence].
    + apply nth_error_In in Hn. destruct (N e Hn) as (_ & X). congruence.
Qed.

Lemma step_batch g g' a tr t r es : SInv g a tr -> a t = PBatch r -> allq es -> SInv g' a (tr ++ Conc.tag t es).
Proof.
  intros [A1 A3 A4] Ht N. constructor.
  - intros t0 r0 H0. destruct (A1 t0 r0 H0) as ((e & He & Hr) & Hq). split; [exists e; split; [apply ev_at_app_l; exact He|exact Hr]|].
    intros j e' Hj Hat. apply ev_at_app_inv in Hat. destruct Hat as [Hat|(-> & _ & Hn)]; [eapply Hq; eauto|].
    apply N. eapply nth_error_In; eauto.
  - intros r0 t0 e Hat Hr. apply ev_at_app_inv in Hat. destruct Hat as [Hat|(-> & _ & Hn)].
    + destruct (A3 r0 t0 e Hat Hr) as [X|X]; [left; exact X|right; apply closed_app; exact X].
    + apply nth_error_In in Hn. apply N in Hn. apply qev_not_rel in Hn. congruence.
  - intros j0 t0 e Hat Ho. apply ev_at_app_inv in Hat. destruct Hat as [Hat|(-> & _ & Hn)].
    + destruct (A4 j0 t0 e Hat Ho) as (X & Y). split; [exact X|]. intros j e' Hj Hat'. apply ev_at_app_inv in Hat'.
      destruct Hat' as [Hat'|(-> & _)]; [eapply Y; eauto|congruence].
    + apply nth_error_In in Hn. apply N in Hn. apply qev_not_oof in Hn. congruence.
Qed.

Lemma ev_at_last tr t e : ev_at (tr ++ Conc.tag t [e]) (List.length tr) t e.
Proof. unfold ev_at. rewrite nth_error_app2 by lia. rewrite Nat.sub_diag. reflexivity. Qed.

Lemma ev_at_one tr t e j t0 e0 :
  ev_at (tr ++ Conc.tag t [e]) j t0 e0 -> ev_at tr j t0 e0 \/ (t0 = t /\ j = List.length tr /\ e0 = e).
Proof.
  intros H. apply ev_at_app_inv in H. destruct H as [H|(-> & L & Hn)]; [left; exact H|right].
  destruct (j - List.length tr)%nat as [|k] eqn:E; [|cbn in Hn; destruct k; discriminate]. cbn in Hn. inversion Hn. repeat split; auto. lia.
Qed.

Lemma step_release g a tr t ps :
  SInv g a tr -> a t = PNone -> SInv g (updS a t (PBatch (List.length tr))) (tr ++ Conc.tag t (cli "release" ps)).
Proof.
  intros [A1 A3 A4] Ht. unfold cli. constructor.
  - intros t0 r. unfold updS. destruct (Nat.eqb_spec t0 t) as [->|Hne].
    + intros E. inversion E; subst r. split; [eexists; split; [apply ev_at_last|reflexivity]|].
      intros j e Hj Hat. apply ev_at_lt in Hat. rewrite app_length in Hat. cbn in Hat. lia.
    + intros H0. destruct (A1 t0 r H0) as ((e & He & Hr) & Hq). split; [exists e; split; [apply ev_at_app_l; exact He|exact Hr]|].
      intros j e' Hj Hat. apply ev_at_one in Hat. destruct Hat as [Hat|(-> & _)]; [eapply Hq; eauto|congruence].
  - intros r t0 e Hat Hr. apply ev_at_one in Hat. destruct Hat as [Hat|(-> & -> & ->)].
    + destruct (A3 r t0 e Hat Hr) as [X|X]; [|right; apply closed_app; exact X].
      left. unfold updS. destruct (Nat.eqb_spec t0 t) as [->|]; [congruence|exact X].
    + left. apply updS_same.
  - intros j0 t0 e Hat Ho. apply ev_at_one in Hat. destruct Hat as [Hat|(-> & -> & ->)]; [|discriminate Ho].
    destruct (A4 j0 t0 e Hat Ho) as (X & Y). assert (Hne : t0 <> t) by congruence. rewrite updS_other by exact Hne.
    split; [exact X|]. intros j e' Hj Hat'. apply ev_at_one in Hat'. destruct Hat' as [Hat'|(-> & _)]; [eapply Y; eauto|congruence].
Qed.

(** the batch ends ("dispose") or the thread gives up ("outoffuel") *)
Lemma step_end g a tr t e0 l' :
  SInv g a tr -> a t = PNone \/ (exists r, a t = PBatch r) ->
  ((exists p, e0 = EvCli "dispose" [p]) /\ l' = PNone) \/ (e0 = EvCli "outoffuel" [] /\ l' = PDead) ->
  SInv g (updS a t l') (tr ++ Conc.tag t [e0]).
Proof.
  intros [A1 A3 A4] Ht He0.
  assert (Hnr : is_rel e0 = false) by (destruct He0 as [((p & ->) & _)|(-> & _)]; reflexivity).
  assert (Hnd : a t <> PDead) by (destruct Ht as [X|(r & X)]; congruence).
  constructor.
  - intros t0 r. unfold updS. destruct (Nat.eqb_spec t0 t) as [->|Hne].
    + intros E. destruct He0 as [(_ & ->)|(_ & ->)]; discriminate.
    + intros H0. destruct (A1 t0 r H0) as ((e & He & Hr) & Hq). split; [exists e; split; [apply ev_at_app_l; exact He|exact Hr]|].
      intros j e' Hj Hat. apply ev_at_one in Hat. destruct Hat as [Hat|(-> & _)]; [eapply Hq; eauto|congruence].
  - intros r t0 e Hat Hr. apply ev_at_one in Hat. destruct Hat as [Hat|(-> & -> & ->)]; [|congruence].
    destruct (A3 r t0 e Hat Hr) as [X|X]; [|right; apply closed_app; exact X].
    destruct (Nat.eq_dec t0 t) as [->|Hne]; [|left; rewrite updS_other by exact Hne; exact X].
    right. exists (List.length tr), e0. split; [eapply ev_at_lt; eauto|]. split; [apply ev_at_last|]. split.
    + destruct He0 as [(Hp & _)|(-> & _)]; [left; exact Hp|right; reflexivity].
    + intros i e'' Hi Hat'. destruct (A1 t r X) as (_ & Hq). apply (Hq i e''); [lia|].
      apply ev_at_one in Hat'. destruct Hat' as [Hat'|(_ & -> & _)]; [exact Hat'|lia].
  - intros j0 t0 e Hat Ho. apply ev_at_one in Hat. destruct Hat as [Hat|(-> & -> & ->)].
    + destruct (A4 j0 t0 e Hat Ho) as (X & Y). assert (Hne : t0 <> t) by congruence. rewrite updS_other by exact Hne.
      split; [exact X|]. intros j e' Hj Hat'. apply ev_at_one in Hat'. destruct Hat' as [Hat'|(-> & _)]; [eapply Y; eauto|congruence].
    + destruct He0 as [((p & ->) & _)|(_ & ->)]; [discriminate Ho|]. split; [apply updS_same|].
      intros j e' Hj Hat'. apply ev_at_lt in Hat'. rewrite app_length in Hat'. cbn in Hat'. lia.
Qed.

(** *** rules *)
Lemma ssafe_bind {A B} t (p : pprog A) (q : A -> pprog B) Q l :
  ssafe t p l (fun r l' => ssafe t (q r) l' Q) -> ssafe t (pbind p q) l Q.
Proof. apply Conc.safe_bind. Qed.

Lemma ssafe_weaken {R} t (p : pprog R) (Q Q' : R -> ph -> Prop) l :
  (forall r l', Q r l' -> Q' r l') -> ssafe t p l Q -> ssafe t p l Q'.
Proof. intros H. apply Conc.safe_weaken. exact H. Qed.

Lemma sframe_upd a t l : Conc.frame sview t a (updS a t l).
Proof. intros t' Ht. unfold sview. apply updS_other. exact Ht. Qed.

Fixpoint evs {GG R} (C : list ev -> Prop) (p : Conc.prog GG V ev R) : Prop :=
  match p with
  | Ret _ => True
  | Emit es k => C es /\ evs C k
  | Act f k => (forall g, C (snd (f g))) /\ forall v, evs C (k v)
  end.

Lemma evs_bind {GG A B} C (p : Conc.prog GG V ev A) (q : A -> Conc.prog GG V ev B) :
  evs C p -> (forall r, evs C (q r)) -> evs C (Conc.bind p q).
Proof.
  induction p as [r|es k IH|f k IH]; intros H Hq; cbn [Conc.bind evs] in *.
  - apply Hq.
  - destruct H as (H1 & H2). split; [exact H1|]. apply IH; assumption.
  - destruct H as (H1 & H2). split; [exact H1|]. intros v. apply IH; auto.
Qed.

Lemma evs_lift {R} C (p : prog R) : evs C p -> evs C (lift p).
Proof.
  induction p as [r|es k IH|f k IH]; intros H; cbn [lift evs] in *; auto.
  - destruct H as (H1 & H2). split; [exact H1|]. apply IH; exact H2.
  - destruct H as (H1 & H2). split; [intros g; unfold lift_act; cbn [snd]; apply H1|]. intros v. apply IH. apply H2.
Qed.

Lemma evs_bquiet {R} (C : list ev -> Prop) (p : prog R) : (forall kd o ok, C [EvAcc kd o ok]) -> bquiet p -> evs C p.
Proof.
  intros HC. induction p as [r|es k IH|f k IH]; intros H; cbn [bquiet evs] in *; auto; [contradiction|].
  destruct H as (H1 & H2). split.
  - intros g. destruct (H1 g) as (kd & o & ok & ->). apply HC.
  - intros v. apply IH. apply H2.
Qed.

Lemma ssafe_none {R} t (p : pprog R) : evs nrel p -> ssafe t p PNone (fun _ l' => l' = PNone).
Proof.
  induction p as [r|es k IH|f k IH]; intros H; cbn [evs Conc.safe] in *.
  - reflexivity.
  - destruct H as (H1 & H2). intros g a tr HI Hv. exists a. split; [apply step_none with (g := g); assumption|].
    split; [intros ? ?; reflexivity|]. rewrite Hv. apply IH; exact H2.
  - destruct H as (H1 & H2). intros g a tr HI Hv. exists a. split; [apply step_none with (g := g); [assumption|assumption|apply H1]|].
    split; [intros ? ?; reflexivity|]. rewrite Hv. apply IH; apply H2.
Qed.

Lemma ssafe_batch {R} t r (p : pprog R) : evs allq p -> ssafe t p (PBatch r) (fun _ l' => l' = PBatch r).
Proof.
  induction p as [x|es k IH|f k IH]; intros H; cbn [evs Conc.safe] in *.
  - reflexivity.
  - destruct H as (H1 & H2). intros g a tr HI Hv. exists a. split; [apply step_batch with (g := g) (r := r); assumption|].
    split; [intros ? ?; reflexivity|]. rewrite Hv. apply IH; exact H2.
  - destruct H as (H1 & H2). intros g a tr HI Hv. exists a. split; [apply step_batch with (g := g) (r := r); [assumption|assumption|apply H1]|].
    split; [intros ? ?; reflexivity|]. rewrite Hv. apply IH; apply H2.
Qed.

Lemma ssafe_none_then {A B} t (p : pprog A) (q : A -> pprog B) Q :
  evs nrel p -> (forall r, ssafe t (q r) PNone Q) -> ssafe t (pbind p q) PNone Q.
Proof.
  intros Hp Hq. apply ssafe_bind. eapply ssafe_weaken; [|apply ssafe_none; exact Hp]. intros r l' ->. apply Hq.
Qed.

Lemma ssafe_emit_none {R} t n args (k : pprog R) Q :
  String.eqb n "release" = false -> String.eqb n "outoffuel" = false -> ssafe t k PNone Q -> ssafe t (Emit (cli n args) k) PNone Q.
Proof.
  intros H1 H2 Hk. change (Emit (cli n args) k) with (pbind (Emit (cli n args) (Ret tt)) (fun _ => k)).
  apply ssafe_none_then; [|intros _; exact Hk]. cbn [evs]. split; [|exact I]. intros e [<-|[]]. split; assumption.
Qed.

Lemma ssafe_oof t l : l = PNone \/ (exists r, l = PBatch r) -> ssafe t (Emit (cli "outoffuel" []) (Ret tt)) l (@Conc.QTrue ph).
Proof.
  intros Hl. cbn [Conc.safe]. intros g a tr HI Hv. exists (updS a t PDead). split.
  - apply step_end; [exact HI|unfold sview in Hv; rewrite Hv; exact Hl|right; split; reflexivity].
  - split; [apply sframe_upd|exact I].
Qed.

(** *** classification of the programs *)
Lemma nrel_acc kd o ok : nrel [EvAcc kd o ok].
Proof. intros e [<-|[]]. split; reflexivity. Qed.
Lemma allq_acc kd o ok : allq [EvAcc kd o ok].
Proof. intros e [<-|[]]. reflexivity. Qed.

Ltac nr2 := let e := fresh "e" in intros e [<-|[<-|[]]]; split; reflexivity.
Ltac nr1 := let e := fresh "e" in intros e [<-|[]]; split; reflexivity.

Lemma nrel_search fuel : forall ch, evs nrel (search fuel ch).
Proof.
  induction fuel as [|f IH]; intros ch; cbn [search evs]; [exact I|].
  split; [intros g; apply nrel_acc|]. intros v. destruct (vz v =? 0); [exact I|]. cbn [evs].
  split; [intros g; apply nrel_acc|]. intros m. destruct (vz m =? 0); [exact I|]. cbn [evs]. split.
  - intros g. unfold a_unlink. destruct (pg_head g =? vz v); cbn [snd]; [|apply nrel_acc]. destruct (vz m =? 1); nr2.
  - intros ok. destruct ((vz ok =? 1) && (vz m =? 1)); apply IH.
Qed.

Lemma nrel_unlink_node fuel cur mask ch : evs nrel (unlink_node fuel cur mask ch).
Proof.
  unfold unlink_node. cbn [evs]. split.
  - intros g. unfold a_mark. destruct (pg_mark g cur =? 0); cbn [snd]; [|apply nrel_acc]. destruct (mask =? 3); nr2.
  - intros ok. destruct (vz ok =? 0); [exact I|]. cbn [evs]. split.
    + intros g. unfold a_unlink. destruct (pg_head g =? cur); cbn [snd]; [|apply nrel_acc]. destruct (mask =? 1); nr2.
    + intros ok2. destruct (vz ok2 =? 1); [exact I|]. apply evs_bind; [apply nrel_search|]. intros [[x ch']|]; exact I.
Qed.

Lemma nrel_remove_try fuel mask ch : evs nrel (remove_try fuel mask ch).
Proof.
  unfold remove_try. apply evs_bind; [apply nrel_search|]. intros [[cur ch1]|]; [|exact I].
  destruct (cur =? 0); [exact I|]. apply evs_bind; [apply nrel_unlink_node|]. intros [[[|] ch2]|]; exact I.
Qed.

Lemma nrel_rlock m d : evs nrel (p_rlock m d).
Proof.
  unfold p_rlock, do_rlock. apply evs_lift. apply evs_bind; [apply evs_bquiet; [apply nrel_acc|apply bquiet_access_lock]|].
  intros w. cbn [evs]. split; [nr1|exact I].
Qed.

Lemma nrel_runlock m d : evs nrel (p_runlock m d).
Proof.
  unfold p_runlock, do_runlock. apply evs_lift. cbn [evs]. split; [nr1|].
  apply evs_bind; [apply evs_bquiet; [apply nrel_acc|apply bquiet_access_unlock]|]. intros w. cbn [evs]. split; [nr1|exact I].
Qed.

Lemma nrel_erase_loop fuel m n : forall ch, evs nrel (erase_loop n fuel m ch).
Proof.
  induction n as [|n IH]; intros ch; cbn [erase_loop]; [exact I|].
  apply evs_bind; [apply nrel_rlock|]. intros _. apply evs_bind; [apply nrel_remove_try|].
  intros [ch1|p ch1|ch1|]; [| | |exact I]; (apply evs_bind; [apply nrel_runlock|]); intros _; [exact I|exact I|apply IH].
Qed.

Lemma nrel_extract_loop fuel n : forall ch, evs nrel (extract_loop n fuel ch).
Proof.
  induction n as [|n IH]; intros ch; cbn [extract_loop]; [exact I|].
  apply evs_bind; [apply nrel_remove_try|]. intros [ch1|p ch1|ch1|]; cbn [evs]; auto.
Qed.

Lemma nrel_insert_loop fuel n : forall ch, evs nrel (insert_loop n fuel ch).
Proof.
  induction n as [|n IH]; intros ch; cbn [insert_loop]; [exact I|].
  apply evs_bind; [apply nrel_search|]. intros [[cur ch1]|]; [|exact I].
  destruct (cur =? 0); [|exact I]. cbn [evs]. split.
  - intros g. unfold a_link. destruct (pg_head g =? 0); cbn [snd]; [nr2|apply nrel_acc].
  - intros v. destruct (vz v =? 0); [apply IH|exact I].
Qed.

Lemma nrel_leave_all m d : evs nrel (p_leave_all m d).
Proof. induction d as [|d IH]; cbn [p_leave_all]; [exact I|]. apply evs_bind; [apply nrel_runlock|intros _; exact IH]. Qed.

Lemma allq_retires {R} ps (k : pprog R) : evs allq k -> evs allq (emit_all "retire" ps k).
Proof.
  intros Hk. induction ps as [|p r IH]; cbn [emit_all evs]; [exact Hk|]. split; [|exact IH]. intros e [<-|[]]. reflexivity.
Qed.

(** *** release() *)
Lemma ssafe_disposes t ps : forall (Q : bool -> ph -> Prop), Q true PNone -> ssafe t (emit_all "dispose" ps (Ret true)) PNone Q.
Proof.
  intros Q HQ. induction ps as [|p r IH]; cbn [emit_all]; [exact HQ|]. apply ssafe_emit_none; [reflexivity|reflexivity|exact IH].
Qed.

Lemma ssafe_do_release t fuel ps (Q : bool -> ph -> Prop) :
  Q true PNone -> (forall r, Q false (PBatch r)) -> ssafe t (do_release fuel ps) PNone Q.
Proof.
  intros HT HF. unfold do_release. destruct ps as [|p ps]; [exact HT|].
  cbn [Conc.safe]. intros g a tr HI Hv. exists (updS a t (PBatch (List.length tr))). split.
  - apply step_release; [exact HI|exact Hv].
  - split; [apply sframe_upd|]. unfold sview. rewrite updS_same. generalize (List.length tr). intros r.
    unfold do_batch. rewrite RcuPtrXDisp.emit_all_bind. apply ssafe_bind.
    eapply ssafe_weaken; [|apply ssafe_batch; apply allq_retires; apply evs_lift; apply evs_bquiet; [apply allq_acc|apply bquiet_synchronize]].
    intros [|] l' ->; [|apply HF]. cbn [emit_all Conc.safe]. clear g a tr HI Hv.
    intros g a tr HI Hv. exists (updS a t PNone). split.
    + apply step_end; [exact HI|right; eexists; exact Hv|left; split; [eexists; reflexivity|reflexivity]].
    + split; [apply sframe_upd|]. unfold sview. rewrite updS_same. apply ssafe_disposes. exact HT.
Qed.

(** ** the client *)
Definition QS : option pst -> ph -> Prop :=
  fun r l' => match r with Some _ => l' = PNone | None => l' = PNone \/ exists r0, l' = PBatch r0 end.

Lemma ssafe_release_ret t fuel ch (s' : pst) :
  ssafe t (pbind (do_release fuel ch) (fun ok => if ok then Ret (Some s') else Ret None)) PNone QS.
Proof. apply ssafe_bind. apply ssafe_do_release; cbn; [reflexivity|]. intros r. right. eauto. Qed.

Lemma nrel_payload {R} p n (k : pprog R) :
  String.eqb n "release" = false -> String.eqb n "outoffuel" = false -> evs nrel k ->
  evs nrel (Act (a_pl_ld p) (fun _ => Emit (cli n [p]) k)).
Proof.
  intros H1 H2 Hk. cbn [evs]. split; [intros g; apply nrel_acc|]. intros _. split; [|exact Hk]. intros e [<-|[]]. split; assumption.
Qed.

Section SOps.
  Variables (strict : bool) (fuel : nat) (t : nat).

  Lemma srun_pop_safe s o : ssafe t (run_pop strict fuel t s o) PNone QS.
  Proof.
    destruct s as [rec d rpp rpc xp].
    destruct o; cbn [run_pop s_rec s_depth s_rpp s_rpc s_xp]; unfold outside; cbn [s_rec s_depth s_rpp s_rpc s_xp].
    - (* attach *) destruct rec as [m|]; [exact eq_refl|].
      apply ssafe_none_then; [apply evs_lift; apply evs_bquiet; [apply nrel_acc|apply bquiet_attach]|].
      intros [m|]; [|left; exact eq_refl]. apply ssafe_emit_none; exact eq_refl.
    - (* detach *) destruct rec as [m|]; [|exact eq_refl]. destruct d as [|d]; [|exact eq_refl].
      apply ssafe_none_then; [apply evs_lift; apply evs_bquiet; [apply nrel_acc|apply bquiet_detach]|].
      intros _. apply ssafe_emit_none; exact eq_refl.
    - (* rlock *) destruct rec as [m|]; [|exact eq_refl]. destruct (depth_ok d); [|exact eq_refl].
      apply ssafe_none_then; [apply nrel_rlock|]. intros _. exact eq_refl.
    - (* runlock *) destruct rec as [m|]; [|exact eq_refl]. destruct d as [|d]; [exact eq_refl|].
      apply ssafe_none_then; [apply nrel_runlock|]. intros _. exact eq_refl.
    - (* insert *) destruct rec as [m|]; [|exact eq_refl]. destruct (Nat.eqb d 0); [|exact eq_refl].
      unfold op_insert. apply ssafe_none_then; [apply nrel_rlock|]. intros _.
      apply ssafe_none_then; [apply nrel_insert_loop|]. intros [[p ch]|]; [|left; exact eq_refl].
      apply ssafe_none_then; [apply nrel_runlock|]. intros _. apply ssafe_emit_none; [exact eq_refl|exact eq_refl|].
      apply ssafe_release_ret.
    - (* find *) destruct rec as [m|]; [|exact eq_refl]. destruct (Nat.eqb d 0); [|exact eq_refl].
      unfold op_find. apply ssafe_none_then; [apply nrel_rlock|]. intros _.
      apply ssafe_none_then; [apply nrel_search|]. intros [[p ch]|]; [|left; exact eq_refl].
      apply ssafe_none_then.
      { destruct (p =? 0); [exact I|]. apply nrel_payload; [exact eq_refl|exact eq_refl|exact I]. }
      intros _. apply ssafe_none_then; [apply nrel_runlock|]. intros _. apply ssafe_release_ret.
    - (* get *) destruct (Nat.eqb d 0); [exact eq_refl|]. unfold op_get.
      apply ssafe_none_then; [apply nrel_search|]. intros [[p ch]|]; [|left; exact eq_refl].
      apply ssafe_emit_none; exact eq_refl.
    - (* deref *) destruct (Nat.eqb d 0 || (rpp =? 0)); [exact eq_refl|]. unfold op_deref. cbn [s_rpp].
      eapply ssafe_weaken; [|apply ssafe_none; apply nrel_payload; [exact eq_refl|exact eq_refl|exact I]]. intros r l' ->.
      destruct r; [exact eq_refl|left; exact eq_refl].
    - (* rp_release *) destruct (Nat.eqb d 0 || negb strict); [|exact eq_refl]. unfold op_rp_release. apply ssafe_release_ret.
    - (* erase *) destruct rec as [m|]; [|exact eq_refl]. destruct (Nat.eqb d 0); [|exact eq_refl].
      unfold op_erase. apply ssafe_none_then; [apply nrel_erase_loop|]. intros [[p ch]|]; [|left; exact eq_refl].
      apply ssafe_emit_none; [exact eq_refl|exact eq_refl|]. apply ssafe_release_ret.
    - (* extract *) destruct rec as [m|]; [|exact eq_refl].
      destruct (Nat.eqb d 0 && (xp =? 0)); [|exact eq_refl].
      unfold op_extract. apply ssafe_none_then; [apply nrel_rlock|]. intros _.
      apply ssafe_none_then; [apply nrel_extract_loop|]. intros [[p ch]|]; [|left; exact eq_refl].
      apply ssafe_none_then; [apply nrel_runlock|]. intros _. apply ssafe_emit_none; [exact eq_refl|exact eq_refl|].
      apply ssafe_release_ret.
    - (* xderef *) destruct (xp =? 0); [exact eq_refl|]. unfold op_xderef. cbn [s_xp].
      eapply ssafe_weaken; [|apply ssafe_none; apply nrel_payload; [exact eq_refl|exact eq_refl|exact I]]. intros r l' ->.
      destruct r; [exact eq_refl|left; exact eq_refl].
    - (* xp_release *) destruct (xp =? 0); [exact eq_refl|].
      destruct (Nat.eqb d 0 || negb strict); [|exact eq_refl]. unfold op_xp_release. apply ssafe_release_ret.
  Qed.

  Lemma sp_finish_safe s : ssafe t (p_finish fuel s) PNone (@Conc.QTrue ph).
  Proof.
    destruct s as [rec d rpp rpc xp]. unfold p_finish. cbn [s_rec s_depth s_rpp s_rpc s_xp].
    apply ssafe_none_then; [destruct rec; [apply nrel_leave_all|exact I]|]. intros _.
    assert (X : ssafe t (match rec with
                           | Some m => pbind (lift (detach m)) (fun _ => Emit (cli "detach" []) (Ret tt))
                           | None => Ret tt end) PNone (@Conc.QTrue ph)).
    { destruct rec as [m|]; [|exact I].
      apply ssafe_none_then; [apply evs_lift; apply evs_bquiet; [apply nrel_acc|apply bquiet_detach]|].
      intros _. apply ssafe_emit_none; [exact eq_refl|exact eq_refl|exact I]. }
    apply ssafe_bind. apply ssafe_do_release.
    - apply ssafe_bind. destruct (xp =? 0); [cbn; exact X|]. apply ssafe_do_release; [exact X|].
      intros r. apply ssafe_oof. right. eauto.
    - intros r. apply ssafe_oof. right. eauto.
  Qed.

  Lemma srun_pops_safe os : forall s, ssafe t (run_pops strict fuel t s os) PNone (@Conc.QTrue ph).
  Proof.
    induction os as [|o r IH]; intros s; cbn [run_pops].
    - apply sp_finish_safe.
    - apply ssafe_bind. eapply ssafe_weaken; [|apply srun_pop_safe].
      intros [s'|] l' HQ; cbn in HQ.
      + subst l'. apply IH.
      + apply ssafe_oof. exact HQ.
  Qed.
End SOps.

Lemma spthread_safe strict fuel t os : ssafe t (pthread strict fuel t os) PNone (@Conc.QTrue ph).
Proof.
  unfold pthread. cbn [Conc.safe]. intros g a tr HI Hv. exists a. split.
  - apply step_none with (g := g); [exact HI|exact Hv|apply nrel_acc].
  - split; [intros ? ?; reflexivity|]. rewrite Hv. apply srun_pops_safe.
Qed.

Lemma spinit_ok strict fuel ths : Conc.cfg_ok sview SInv (pinit_cfg strict fuel ths).
Proof.
  exists (fun _ => PNone). split.
  - cbn [pinit_cfg Conc.shared Conc.trace]. constructor.
    + intros t r H. discriminate.
    + intros r t e H. destruct r; discriminate.
    + intros j0 t e H. destruct j0; discriminate.
  - intros t p Hp. cbn [pinit_cfg Conc.threads] in Hp. rewrite nth_error_map in Hp.
    destruct (nth_error (number O ths) t) as [x|] eqn:E; [|discriminate]. inversion Hp; subst p.
    apply nth_error_number in E. cbn in E. rewrite E. unfold sview. apply spthread_safe.
Qed.

(** ** the theorem *)
Theorem ptr_release_inside_stuck strict fuel ths c :
  Conc.reach (pinit_cfg strict fuel ths) c ->
  forall w s r e, ev_at (Conc.trace c) r w e -> is_rel e = true -> open_at (Conc.trace c) w s r ->
    forall j e', (r < j)%nat -> ev_at (Conc.trace c) j w e' -> qev e' = true \/ e' = EvCli "outoffuel" [].
Proof.
  intros Hr w s r e Hat Hrel (O1' & O2 & O3) j e' Hj Hat'.
  destruct (Conc.reach_Inv (spinit_ok strict fuel ths) Hr) as (a & [A1 A3 A4]). set (tr := Conc.trace c) in *.
  destruct (A3 r w e Hat Hrel) as [X|(j1 & e1 & Hj1 & Hat1 & Hk & Hq)].
  - left. destruct (A1 w r X) as (_ & Hq). eapply Hq; eauto.
  - destruct Hk as [(p & ->) | ->].
    + (* the batch was disposed: impossible, the section is still open there *)
      exfalso.
      assert (Hd : at_ tr j1 w (is_dispose p)).
      { exists (EvCli "dispose" [p]). split; [exact Hat1|]. unfold is_dispose, cli_is. cbn. apply Z.eqb_refl. }
      apply (ptr_dispose_outside_all _ _ _ _ Hr j1 w p Hd s). split; [exact O1'|]. split; [lia|].
      intros b Hb (eb & Heb & Pb). destruct (Nat.lt_trichotomy b r) as [L|[E|G]].
      * apply (O3 b); [lia|]. exists eb. auto.
      * subst b. unfold ev_at in Hat. fold tr in Heb. rewrite Heb in Hat. inversion Hat; subst eb.
        destruct e as [|n args]; [discriminate|]. unfold is_rel, is_cli in Hrel. apply String.eqb_eq in Hrel. subst n.
        unfold is_runlock0, cli_is in Pb. destruct args; discriminate.
      * assert (Q : qev eb = true) by (apply (Hq b eb); [lia|exact Heb]). apply qev_not_runlock in Q. congruence.
    + destruct (Nat.lt_trichotomy j j1) as [L|[E|G]].
      * left. apply (Hq j e'); [lia|exact Hat'].
      * subst j. right. unfold ev_at in *. rewrite Hat1 in Hat'. inversion Hat'. reflexivity.
      * exfalso. destruct (A4 j1 w _ Hat1 eq_refl) as (_ & Y). apply (Y j e' G Hat').
Qed.

(** the same with the events written out *)
Theorem ptr_release_inside_never_completes strict fuel ths c :
  Conc.reach (pinit_cfg strict fuel ths) c ->
  forall w s r ps, nth_error (Conc.trace c) r = Some (w, EvCli "release" ps) -> open_at (Conc.trace c) w s r ->
    forall j e, (r < j)%nat -> nth_error (Conc.trace c) j = Some (w, e) ->
      (exists k o ok, e = EvAcc k o ok) \/ (exists args, e = EvCli "retire" args) \/ e = EvCli "outoffuel" [].
Proof.
  intros Hr w s r ps Hat Ho j e Hj Hat'.
  destruct (ptr_release_inside_stuck _ _ _ _ Hr w s r _ Hat eq_refl Ho j e Hj Hat') as [Q | ->]; [|right; right; reflexivity].
  destruct e as [k o ok|n args]; [left; eauto|]. right. left. unfold qev in Q. apply String.eqb_eq in Q. subst n. eauto.
Qed.
