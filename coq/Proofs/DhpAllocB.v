(** * DhpAllocB: a fresh guard block, linking a private block into the extension list of the own record. *)
From Coq Require Import ZArith NArith List String Bool Lia PeanoNat.
From LV Require Import Base.Conc Base.Events Model.DhpLang Model.Dhp Proofs.DhpBase Proofs.DhpHist
  Proofs.DhpLangProofs Proofs.DhpInvA Proofs.DhpStepsA Proofs.DhpQuietA Proofs.DhpSlotA Proofs.DhpScanA Proofs.DhpScanC
  Proofs.DhpPresA Proofs.DhpAllocA.
Import ListNotations.

Definition with_e (l : VA) (o : option (option nat * bool)) : VA :=
  mkVA (va_tls l) (va_unpub l) (va_hold l) (va_help l) (va_node l) (va_blk l) o (va_limbo l) (va_scan l).

Section AllocB.
  Variable c : cfg.

  Lemma after_same_recs g g' o r : recs g' = recs g -> tlist g' = tlist g -> after g o r -> after g' o r.
  Proof.
    intros E1 E2 (S & H1 & H2 & H3).
    assert (K : forall o l, rchain g o l <-> rchain g' o l).
    { intros o' l; revert o'; induction l as [|x l IH]; intros o'; cbn; [tauto|]. unfold grec. rewrite E1. rewrite IH. tauto. }
    exists S. split; [now apply K|]. split; auto. intros L HL. apply H3. rewrite <- E2. now apply K.
  Qed.

  (** a new guard block: gbs grows by one, the new block is private to t *)
  Lemma JA_newblk g a h t l :
    JA c g a h -> views a t = l -> va_blk l = None -> va_e l = None ->
    let nb := List.length (gbs g) in
    JA c (fst (new_gblock c g)) (upd_aux a t (with_blk l (Some nb)) (fun x => if Nat.eqb x nb then BPriv t else bown a x)) h.
  Proof.
    intros J Hv Hb He nb. destruct J as [J1 J2 J3 J4 J5 J6 J7 J8 J9 J10 J11 J12 J15 J16 J17 J18 J13 J14].
    set (g' := fst (new_gblock c g)).
    set (a' := upd_aux a t (with_blk l (Some nb)) (fun x => if Nat.eqb x nb then BPriv t else bown a x)).
    assert (Er : recs g' = recs g) by reflexivity. assert (Et : tlist g' = tlist g) by reflexivity.
    assert (Eg : forall r, grec g' r = grec g r) by reflexivity.
    assert (Lg : List.length (gbs g') = S nb) by (unfold g', new_gblock; cbn; rewrite app_length; cbn; lia).
    assert (Egb : forall b, b < nb -> ggb g' b = ggb g b) by (intros b Hb'; unfold g', new_gblock; cbn [fst]; now apply ggb_app).
    assert (Enew : ggb g' nb = mkGb 0 None None (repeat 0 (c_GB c)) (repeat None (c_GB c))).
    { unfold g', new_gblock, ggb. cbn. rewrite app_nth2 by lia. now rewrite Nat.sub_diag. }
    assert (Hnone : bown a nb = BNone) by (apply J12; lia).
    assert (Bo : forall x, x <> nb -> bown a' x = bown a x) by (intros x N; cbn; destruct (Nat.eqb_spec x nb); congruence).
    assert (Bs : bown a' nb = BPriv t) by (cbn; now rewrite Nat.eqb_refl).
    assert (Blt : forall x, bown a x <> BNone -> x < nb).
    { intros x Hx. destruct (Nat.lt_ge_cases x nb); auto. exfalso. apply Hx. apply J12. exact H. }
    assert (V : forall t', va_tls (views a' t') = va_tls (views a t') /\ va_unpub (views a' t') = va_unpub (views a t') /\
                           va_hold (views a' t') = va_hold (views a t') /\ va_help (views a' t') = va_help (views a t') /\
                           va_node (views a' t') = va_node (views a t') /\ va_e (views a' t') = va_e (views a t') /\
                           va_limbo (views a' t') = va_limbo (views a t') /\ va_scan (views a' t') = va_scan (views a t')).
    { intros t'. unfold a'. vcase t' t; [subst l; cbn; repeat split; reflexivity|repeat split; reflexivity]. }
    assert (Gc : forall o S, (forall b, In b S -> b < nb) -> gchain c g o S -> gchain c g' o S).
    { intros o S HS. apply gchain_ext; [lia|]. intros b Hb'. rewrite (Egb b (HS b Hb')). auto. }
    assert (Gc2 : forall o S, gchain c g o S -> forall b, In b S -> b < nb).
    { intros o S; revert o; induction S as [|x S IH]; intros o H b Hb'; [contradiction|]. cbn in H.
      destruct H as (_ & H1 & _ & H2). destruct Hb' as [->|Hb']; eauto. }
    assert (Af : forall o r, after g o r -> after g' o r) by (intros; eapply after_same_recs; eauto).
    assert (Rc : forall o l, rchain g o l <-> rchain g' o l).
    { intros o' l'; revert o'; induction l' as [|x l' IH]; intros o'; cbn; [tauto|]. rewrite ?Eg. rewrite IH. tauto. }
    constructor; rewrite ?Er, ?Et; auto.
    - destruct J1 as (L & H1 & H2). exists L. split; auto. now apply Rc.
    - intros r t' k Ha. destruct (J2 r t' k Ha) as (X1&X2&X3&X4&X5&X6&X7&X8&X9). destruct (V t') as (E&_). rewrite E, ?Eg.
      split; auto. split; auto. split; auto. split; auto. split; [auto|]. split; auto.
      split; [apply Gc; eauto|]. split; auto.
      intros b kb Hb'. destruct (X9 b kb Hb') as (Y1&Y2&Y3). repeat split; auto. rewrite Bo; auto. intros ->. congruence.
    - intros t' r Ht. destruct (V t') as (E&_). rewrite E in Ht. auto.
    - intros t' r bt Ht. destruct (V t') as (_&E&_). rewrite E in Ht. destruct (J5 t' r bt Ht) as (X1&X2&X3&X4&X5&X6). rewrite ?Eg.
      repeat split; auto.
      + intros L HL. apply X3. now apply Rc.
      + intros t'' bt' Ht''. destruct (V t'') as (_&E'&_). rewrite E' in Ht''. eauto.
    - intros t' r Ht. destruct (V t') as (_&_&E&_&_&_&E7&_). rewrite E in Ht. rewrite E7, ?Eg.
      destruct (J6 t' r Ht) as (X1&X2&X3&X4&X5&X6). repeat split; auto.
    - intros t' r Ht. destruct (V t') as (_&_&E3&E4&_). rewrite E4 in Ht. rewrite E3, ?Eg. auto.
    - intros r Hr Ha. rewrite ?Eg. destruct (J8 r Hr Ha) as [X|(t' & X1 & X2)]; [now left|right]. exists t'.
      destruct (V t') as (_&_&E3&_&_&_&E7&_). rewrite E3, E7. auto.
    - intros t' b' Ht. destruct (V t') as (_&_&_&_&_&_&E7&_). rewrite E7. destruct (Nat.eq_dec t' t) as [->|N].
      + unfold a' in Ht. rewrite upd_aux_same in Ht. cbn in Ht. inversion Ht; subst b'.
        split; [exact Bs|]. split; [lia|]. split; [rewrite Enew; cbn; apply repeat_length|].
        intros o lb Hl K. destruct (J10 t o lb Hl) as (_&_&Y). rewrite (Y nb K) in Hnone. discriminate.
      + unfold a' in Ht. rewrite upd_aux_other in Ht by exact N.
        destruct (J9 t' b' Ht) as (X1&X2&X3&X4). assert (b' < nb) by (apply Blt; congruence).
        split; [rewrite Bo; auto; lia|]. split; [lia|]. split; [rewrite ?Egb; auto|auto].
    - intros t' o lb Ht. destruct (V t') as (_&_&_&_&_&_&E7&_). rewrite E7 in Ht. destruct (J10 t' o lb Ht) as (X1&X2&X3).
      split; [apply Gc; eauto|]. split; auto. intros b' Hb'. rewrite Bo; auto. intros ->. rewrite (X3 nb Hb') in Hnone. discriminate.
    - destruct J11 as (F1 & F2). split; auto. intros b'. rewrite F1. destruct (Nat.eq_dec b' nb) as [->|N].
      + rewrite Bs, Hnone. split; discriminate.
      + now rewrite Bo.
    - intros b' Hb'. rewrite Bo by lia. apply J12. lia.
    - intros b' Hb'. destruct (Nat.eq_dec b' nb) as [->|N]; [rewrite Enew; cbn; apply repeat_length|rewrite ?Egb by lia; apply J16; lia].
    - intros t' e f Ht. destruct (Nat.eq_dec t' t) as [->|N].
      + unfold a' in Ht. rewrite upd_aux_same in Ht. cbn in Ht. congruence.
      + unfold a' in *. rewrite upd_aux_other in * by exact N. destruct (J17 t' e f Ht) as (r & X & Y & Z). exists r. split; auto. split; auto.
        intros Hf. destruct (Z Hf) as (b & Z1 & Z2). exists b. split; auto. destruct (J9 t' b Z1) as (W1&W2&_).
        rewrite Egb; auto.
    - intros t' n Ht. destruct (V t') as (_&_&_&_&E5&_). rewrite E5 in Ht. eauto.
    - intros s. rewrite <- J13. destruct s as [r i|b i]; [reflexivity|].
      change (nth i (gb_slots (ggb g' b)) 0 = nth i (gb_slots (ggb g b)) 0).
      destruct (Nat.lt_ge_cases b nb) as [Hlt|Hge]; [now rewrite Egb|].
      assert (Z0 : forall n i0, nth i0 (repeat 0 n) 0 = 0) by (induction n; intros [|i0]; cbn; auto).
      destruct (Nat.eq_dec b nb) as [->|N].
      + rewrite Enew. cbn [gb_slots]. rewrite Z0. unfold ggb. rewrite (nth_overflow (gbs g)) by apply Nat.le_refl. cbn. now destruct i.
      + unfold ggb. rewrite (nth_overflow (gbs g')) by (rewrite Lg; lia). rewrite (nth_overflow (gbs g)) by (unfold nb in *; lia). reflexivity.
    - intros t'. destruct (V t') as (_&_&_&_&_&_&_&E8). rewrite E8. specialize (J14 t').
      destruct (va_scan (views a t')) as [ss|]; auto. destruct J14 as (X1 & X2). split; auto.
      apply (scan_ok_frame c g g' h h ss); [lia|intros s; left; auto|exact Af|left; exact Et|intros n0 _; reflexivity| |exact X2].
      intros s k Hl Hk. split; auto. split; auto. intros n0 o S b i Es Hin Hg Hi. split; auto.
      apply Gc; eauto.
  Qed.
End AllocB.
