(** * SkipListNestThm: nested levels at EVERY reachable state, for every schedule of programs of insert and contains.

    - [skip_levels_nested_ic]: [LevOK] (every level < c_nMaxHeight a null-terminated list, every node of level l+1 on level l)
      and no marked cell, at every reachable state;
    - [skip_levels_property_ic]: hence the whole property of C18 (ordered sub-lists, strictly sorted levels, the live level-0
      keys are the abstract set of a valid linearization of the client history) at every reachable state with no out-of-fuel event;
    - [skip_levels_membership_ic]: the membership form of Properties_C15.skip_levels_are_sublists_statement.

    Programs containing erase / extract_min / extract_max are covered by the separate development
    Proofs/SkipListNestE.v .. SkipListNestE9.v ([skip_levels_nested], all five operations), which supersedes this one; this
    file is kept as the simple instance (no marks, lists only grow, knowledge "on level l" is monotone). *)
From Coq Require Import ZArith List String Bool Lia PeanoNat.
From LV Require Import Base.Conc Base.Events Base.Lin Spec.Specs Model.SkipList Proofs.SkipListProofs Proofs.SkipListLin Proofs.SkipListFullExt2
                       Proofs.SkipListSub Proofs.SkipListSubThm Proofs.SkipListNest Proofs.SkipListNestProg.
Import ListNotations.

Lemma link_all_nm ns : forall p l, snd (nxt (link_all ns g_empty) p l) = false.
Proof.
  induction ns as [|[k h] r IH]; intros p l; cbn [link_all nxt]; [reflexivity|].
  destruct (Nat.eqb p (pre_node k)); [destruct (Nat.ltb l h); reflexivity|apply IH].
Qed.

Lemma init_nm nodes : NM (init nodes).
Proof. intros p l. unfold init. cbn [nxt]. destruct (Nat.eqb p head); [reflexivity|apply link_all_nm]. Qed.

Definition nviews0 (u : nat) : nview := mkNV [] (if Nat.eqb u 63 then 8 else 0) None.
Definition naux0 (nodes : list (nat * nat)) : naux := mkNA (fun l => pre_level l nodes) nviews0.

Lemma init_INV nodes : nodes_ok nodes -> INV (init nodes) (naux0 nodes).
Proof.
  intros Hn. constructor; cbn [aLs avw naux0].
  - intros l _. apply (init_walk nodes l Hn nodes []); [reflexivity|]. unfold init. cbn [nxt]. now rewrite Nat.eqb_refl.
  - intros l q _. apply pre_level_nested.
  - apply init_nm.
  - intros l q Hin. destruct (pre_level_in _ _ _ Hin) as (k & h & H1 & -> & H3). destruct (nodes_ok_in _ _ _ Hn H1) as [Hk _].
    split; [apply mk_node_isnode|]. unfold pre_node. rewrite SkipListNest.node_id_owner, SkipListNest.node_id_ser by lia. cbn. lia.
  - intros u. split; [intros p l []|exact Logic.I].
Qed.

Lemma nth_error_combine2 {A B} : forall (l1 : list A) (l2 : list B) n a b,
  nth_error (combine l1 l2) n = Some (a, b) -> nth_error l1 n = Some a /\ nth_error l2 n = Some b.
Proof.
  induction l1 as [|x l1 IH]; intros l2 n a b H; [destruct n; discriminate|].
  destruct l2 as [|y l2]; [destruct n; discriminate|]. destruct n as [|n]; cbn in *; [inversion H; auto|now apply IH].
Qed.

Lemma nth_error_seq00 n t t' : nth_error (seq 0 n) t = Some t' -> t' = t /\ t < n.
Proof.
  intros H. assert (Hl : t < n) by (rewrite <- (seq_length n 0); apply nth_error_Some; congruence).
  split; [|exact Hl]. apply (nth_error_nth _ _ 0) in H. rewrite seq_nth in H by exact Hl. lia.
Qed.

Lemma init_cfg_okN fuel nodes ths :
  nodes_ok nodes -> Forall (Forall ic_op) ths -> List.length ths <= 63 ->
  @Conc.cfg_ok G V ev naux nview nvw NInv (init_cfg fuel nodes ths).
Proof.
  intros Hn Ho Hlen. exists (naux0 nodes). split; [now apply init_INV|].
  intros t p Hp. unfold init_cfg in Hp. cbn [Conc.threads] in Hp. rewrite nth_error_map in Hp.
  destruct (nth_error (combine (seq 0 (List.length ths)) ths) t) as [[t' os]|] eqn:E; [|discriminate].
  injection Hp as <-. cbn [fst snd]. apply nth_error_combine2 in E. destruct E as [E1 E2].
  apply nth_error_seq00 in E1. destruct E1 as [-> Hlt].
  apply P_thread; [lia| |].
  - apply nth_error_In in E2. rewrite Forall_forall in Ho. now apply Ho.
  - unfold nvw. cbn [avw naux0 nviews0 vser]. destruct (Nat.eqb_spec t 63); [lia|reflexivity].
Qed.

(** ** the theorem *)
Theorem skip_levels_nested_ic fuel nodes ths c :
  nodes_ok nodes -> Forall (Forall ic_op) ths -> List.length ths <= 63 ->
  Conc.reach (init_cfg fuel nodes ths) c -> LevOK (Conc.shared c) /\ NM (Conc.shared c).
Proof.
  intros Hn Ho Hlen Hr. destruct (Conc.reach_Inv (init_cfg_okN fuel nodes ths Hn Ho Hlen) Hr) as (a & Hi).
  split; [|apply Hi]. exists (aLs a). split; apply Hi.
Qed.

Lemma ic_ops_ok ths : Forall (Forall ic_op) ths -> Forall (Forall op_ok) ths.
Proof. intros H. eapply Forall_impl; [|exact H]. intros os Hos. eapply Forall_impl; [|exact Hos]. apply ic_op_ok. Qed.

Theorem skip_levels_property_ic fuel nodes ths c :
  nodes_ok nodes -> Forall (Forall ic_op) ths -> List.length ths <= 63 ->
  Conc.reach (init_cfg fuel nodes ths) c -> ~ exhausted (Conc.trace c) -> ext_quiet (Conc.trace c) ->
  levels_property nodes c.
Proof.
  intros Hn Ho Hlen Hr Hne Hq.
  apply (skip_nested_gives_property fuel nodes ths c Hn (ic_ops_ok _ Ho) Hlen Hr Hne Hq).
  exact (proj1 (skip_levels_nested_ic fuel nodes ths c Hn Ho Hlen Hr)).
Qed.

Theorem skip_levels_membership_ic fuel nodes ths c l m q :
  nodes_ok nodes -> Forall (Forall ic_op) ths -> List.length ths <= 63 ->
  Conc.reach (init_cfg fuel nodes ths) c -> S l < MAXH ->
  In q (chain (Conc.shared c) (S l) head m) -> exists m', In q (chain (Conc.shared c) l head m').
Proof.
  intros Hn Ho Hlen Hr Hl Hin.
  exact (levok_membership _ l m q (proj1 (skip_levels_nested_ic fuel nodes ths c Hn Ho Hlen Hr)) Hl Hin).
Qed.
