(** * DhpLiveGsE: the programs of LV.Proofs.DhpProgB2 (smr::alloc_thread_data) and LV.Proofs.DhpProgB3 (retired_allocator::free,
      retired_array::fini, the moving loops of help_scan) under the paired invariant [InvS] of DhpLiveGsC.  Same text as the
      originals, with the [JS] obligation added at every node that changes the ghost state. *)
From Coq Require Import ZArith NArith List String Bool Lia PeanoNat.
From LV Require Import Base.Conc Base.Events Model.DhpLang Model.Dhp Proofs.DhpBase Proofs.DhpSeq Proofs.DhpSeqThm Proofs.DhpHist
  Proofs.DhpLangProofs Proofs.DhpAllocA Proofs.DhpInvB Proofs.DhpQuietB Proofs.DhpQuietB2 Proofs.DhpRulesB Proofs.DhpStepsB1 Proofs.DhpStepsB2
  Proofs.DhpStepsB3 Proofs.DhpStepsB4 Proofs.DhpStepsB5 Proofs.DhpStepsB6 Proofs.DhpStepsB7 Proofs.DhpStepsB8 Proofs.DhpStepsB10
  Proofs.DhpProgB1 Proofs.DhpProgB2 Proofs.DhpProgB3 Proofs.DhpLiveGsC Proofs.DhpLiveGsD.
Import ListNotations.

Ltac js_nodisp ::= first [apply qevB_not_dispose; first [apply qev_acc | solve [repeat constructor; auto with qdbB]] | apply single_not_dispose; intros; discriminate].
(** a successful CAS / a store on thread_id_ that makes t the owner of one more record *)
Ltac js_own k r := let Hto := fresh "Hto" in let J := fresh "J" in let HS := fresh "HS" in
  intros Hto J HS; apply JS_ext; [js_nodisp|]; apply JS_own_add; auto; apply (TO_acc_tid _ _ k r true Hto); discriminate.
(** events only *)
Ltac js_same := let J := fresh "J" in let HS := fresh "HS" in intros _ J HS; apply JS_ext; [js_nodisp|exact HS].

Section ProgS2.
  Variable c : cfg.
  Notation RB := (c_RB c).
  Hypothesis HRB : 4 <= RB.
  Hypothesis Hold : c_old c = false.

  Lemma reuse_recs_specS t (Q : option (option nat) -> VB -> Prop) : forall fuel node l,
    idle l -> (forall h, node = Some h -> vb_node l = Some h) ->
    (forall h l', ext l l' -> In h (vb_own l') -> Q (Some (Some h)) l') -> (forall l', ext l l' -> Q (Some None) l') -> (forall l', Q None l') ->
    dsafeS c t (reuse_recs fuel (S t) node) l Q.
  Proof.
    induction fuel as [|fuel IH]; intros node l Hi Hn HS HNo HN; destruct node as [h|]; cbn [reuse_recs].
    - apply dsafeS_fuel_out. apply HN.
    - apply dsafeS_ret. apply HNo. split; auto.
    - specialize (Hn h eq_refl).
      apply dsafeS_xact. intros g a tr Hv. unfold viewB in Hv. unfold a_cas_tid. destruct (Nat.eqb_spec (r_tid (grec g h)) 0) as [E|E]; cbn [fst snd].
      + exists (setv a t (set_own (bvs a t) (h :: vb_own (bvs a t)))). split; [eapply frame_bvs; reflexivity|]. split.
        * intros _ _ J. apply JB_quiet_ev; [apply qev_acc|]. apply S_cas_ok; auto. rewrite Hv. exact Hn.
        * split; [js_own KCas h|].
          unfold viewB. cbn [bvs setv]. rewrite fn_same, Hv. apply dsafeS_xact_q; [apply qB_st_free|]. intros _. apply dsafeS_ret.
          apply HS; [|cbn; now left]. split; [exact Hi|]. intros r Hr. cbn. now right.
      + exists a. split; [apply frame_refl|]. split.
        * intros _ _ J. apply JB_quiet_ev; [apply qev_acc|exact J].
        * split; [js_same|].
          unfold viewB. rewrite Hv. apply dsafeS_xloc. clear E g a tr Hv. intros g a tr Hv. unfold viewB in Hv.
          exists (setv a t (set_node (bvs a t) (r_next (grec g h)))). split; [eapply frame_bvs; reflexivity|]. split.
          -- intros J. apply S_node; auto. intros n En. eapply JB_tl_next; eauto. destruct J as [[_ O2 _ _ _] _ _ _]. apply (O2 t). rewrite Hv. exact Hn.
          -- split; [js_loc t|]. unfold viewB. cbn [bvs setv fst snd]. rewrite fn_same, Hv. apply IH; auto.
    - apply dsafeS_ret. apply HNo. split; auto.
  Qed.

  Lemma push_rec_specS t r (Q : option unit -> VB -> Prop) : forall fuel old l nx,
    vb_new l = Some (r, nx) -> Q (Some tt) (set_new l None) -> (forall l', Q None l') ->
    dsafeS c t (push_rec fuel r old) l Q.
  Proof.
    induction fuel as [|fuel IH]; intros old l nx Hn HQ HN; cbn [push_rec].
    - apply dsafeS_fuel_out. apply HN.
    - apply dsafeS_xloc. intros g a tr Hv. unfold viewB in Hv. exists (setv a t (set_new (bvs a t) (Some (r, old)))).
      split; [eapply frame_bvs; reflexivity|]. split; [intros J; eapply S_setnext; eauto; rewrite Hv; exact Hn|].
      split; [js_loc t|].
      unfold viewB. cbn [bvs setv]. rewrite fn_same, Hv. clear g a tr Hv.
      apply dsafeS_xact. intros g a tr Hv. unfold viewB in Hv. unfold a_cas_tlist. destruct (oeqb (tlist g) old) eqn:E; cbn [fst snd].
      + apply oeqb_eq in E. exists (aux_pushed a t r). split; [eapply frame_bvs; reflexivity|]. split.
        * intros _ _ J. apply JB_quiet_ev; [apply qev_acc|]. apply S_castl_ok; auto. rewrite Hv, E. reflexivity.
        * split; [js_ev t|]. unfold viewB. cbn [bvs aux_pushed]. rewrite fn_same, Hv. apply dsafeS_ret. exact HQ.
      + exists a. split; [apply frame_refl|]. split.
        * intros _ _ J. apply JB_quiet_ev; [apply qev_acc|exact J].
        * split; [js_same|]. unfold viewB. rewrite Hv. eapply IH; eauto. reflexivity.
  Qed.

  Lemma alloc_thread_data_specS t l (Q : option nat -> VB -> Prop) :
    idle l -> (forall r l', ext l l' -> In r (vb_own l') -> Q (Some r) l') -> (forall l', Q None l') ->
    dsafeS c t (alloc_thread_data c (S t)) l Q.
  Proof.
    intros Hi HQ HN. unfold alloc_thread_data.
    assert (Hfin : forall r l', ext l l' -> In r (vb_own l') ->
              dsafeS c t (xbind (loc (hp_init c r)) (fun _ => xbind (rt_init c r) (fun _ => ret r))) l' Q).
    { intros r l' (Hi' & Hx) Hr. pose proof Hi' as (I1 & I2 & I3 & I4 & I5 & I6 & I7 & I8 & I9).
      apply dsafeS_xloc_q; [intros; apply piB_hp_init|]. intros _. apply dsafeS_xbind. apply rt_init_specS; auto; try congruence.
      cbn beta iota. apply dsafeS_ret. apply HQ; auto. split; auto. }
    apply dsafeS_xact. intros g a tr Hv. unfold viewB in Hv. exists (setv a t (set_node (bvs a t) (tlist g))). split; [eapply frame_bvs; reflexivity|]. split.
    { intros _ _ J. apply S_node; [|apply JB_quiet_ev; [apply qev_acc|exact J]]. intros h E. eapply JB_tl_head; eauto. }
    split; [js_ev t|].
    unfold viewB. cbn [bvs setv fst snd a_ld_tlist]. rewrite fn_same, Hv. generalize (tlist g) as node. clear g a tr Hv. intros node. apply dsafeS_xbind.
    assert (Hi1 : idle (set_node l node)) by (apply idle_set_node; exact Hi).
    apply reuse_recs_specS; [exact Hi1|intros h E; exact E| | |exact HN].
    - intros h l' (X1 & X2) Hh. cbn beta iota. apply dsafeS_xbind. apply dsafeS_ret. cbn beta iota. apply Hfin; auto. split; auto.
    - intros l' (X1 & X2). cbn beta iota. apply dsafeS_xbind. pose proof X1 as (I1 & I2 & I3 & I4 & I5 & I6 & I7 & I8 & I9).
      apply dsafeS_xloc. intros g a tr Hv. unfold viewB in Hv. exists (aux_newrec a t (List.length (recs g))). split; [eapply frame_bvs; reflexivity|]. split.
      { intros J. apply S_newrec. exact J. }
      split; [js_loc t|].
      unfold viewB. cbn [bvs aux_newrec fst snd new_rec]. rewrite fn_same, Hv. set (r := List.length (recs g)). clearbody r. clear g a tr Hv.
      apply dsafeS_xact_q; [apply qB_st_ext|]. intros _.
      apply dsafeS_xact. intros g a tr Hv. unfold viewB in Hv. exists (setv a t (set_own (bvs a t) (r :: vb_own (bvs a t)))). split; [eapply frame_bvs; reflexivity|]. split.
      { intros _ _ J. apply JB_quiet_ev; [apply qev_acc|]. eapply S_sttid_new; eauto. rewrite Hv. reflexivity. }
      split; [js_own KSt r|].
      unfold viewB. cbn [bvs setv fst snd a_st_tid]. rewrite fn_same, Hv. clear g a tr Hv.
      apply dsafeS_xact_q; [apply qB_ld_tlist|]. intros old. apply dsafeS_xbind.
      eapply push_rec_specS; [reflexivity| |apply HN]. cbn beta iota. apply dsafeS_ret. cbn beta iota. apply Hfin; [|cbn; now left].
      split; [unfold idle in *; cbn; tauto|]. intros r' Hr'. cbn. right. auto.
  Qed.
End ProgS2.

Section ProgS3.
  Variable c : cfg.
  Notation RB := (c_RB c).
  Hypothesis HRB : 4 <= RB.
  Hypothesis Hold : c_old c = false.

  Lemma rt_free_specS t l b fl (Q : option unit -> VB -> Prop) :
    vb_blk l = Some (b, fl) -> Q (Some tt) (set_blk l None) -> (forall l', Q None l') -> dsafeS c t (rt_free c b) l Q.
  Proof.
    intros Hb HQ HN. unfold rt_free.
    apply dsafeS_xloc. intros g a tr Hv. unfold viewB in Hv. exists (setv a t (set_blk (bvs a t) (Some (b, true)))).
    split; [eapply frame_bvs; reflexivity|]. split; [intros J; eapply S_clrnext; eauto; rewrite Hv; exact Hb|].
    split; [js_loc t|].
    unfold viewB. cbn [bvs setv]. rewrite fn_same, Hv. clear g a tr Hv.
    apply dsafeS_xemit. intros g a tr Hv. unfold viewB in Hv. exists (aux_unblk a t b). split; [eapply frame_bvs; reflexivity|]. split.
    { intros _ _ J. eapply S_free; eauto. rewrite Hv. reflexivity. }
    split; [js_ev t|].
    unfold viewB. cbn [bvs aux_unblk]. rewrite fn_same, Hv. apply quietPB_dsafeS; [apply qB_fl_put|]. intros [[]|]; [exact HQ|apply HN].
  Qed.

  Lemma free_rblocks_specS t (Q : option unit -> VB -> Prop) : forall fuel p l lb,
    vb_limbo l = Some (p, lb) -> vb_blk l = None -> (forall x, Q (Some tt) (set_limbo l x)) -> (forall l', Q None l') ->
    dsafeS c t (free_rblocks c fuel p) l Q.
  Proof.
    induction fuel as [|fuel IH]; intros p l lb Hl Hb HQ HN; destruct p as [b|]; cbn [free_rblocks].
    - apply dsafeS_fuel_out. apply HN.
    - assert (E : l = set_limbo l (vb_limbo l)) by (destruct l; reflexivity). rewrite E. apply HQ.
    - apply dsafeS_xloc. intros g a tr Hv. unfold viewB in Hv.
      exists (setv a t (set_blk (set_limbo (bvs a t) (Some (rb_next (grb g b), List.tl lb))) (Some (b, false)))).
      split; [eapply frame_bvs; reflexivity|]. split; [intros J; apply S_rdnext; auto; rewrite Hv; auto|].
      split; [js_loc t|].
      unfold viewB. cbn [bvs setv fst snd]. rewrite fn_same, Hv. generalize (rb_next (grb g b)) as nx. clear g a tr Hv. intros nx.
      apply dsafeS_xbind. eapply rt_free_specS; [reflexivity| |apply HN]. cbn beta iota.
      eapply IH; [reflexivity|reflexivity| |apply HN]. intros x.
      assert (E : set_limbo (set_blk (set_blk (set_limbo l (Some (nx, List.tl lb))) (Some (b, false))) None) x = set_limbo l x)
        by (destruct l; cbn in *; subst; reflexivity).
      rewrite E. apply HQ.
    - assert (E : l = set_limbo l (vb_limbo l)) by (destruct l; reflexivity). rewrite E. apply HQ.
  Qed.

  Lemma rt_fini_specS t l r (Q : option unit -> VB -> Prop) :
    In r (vb_own l) -> vb_limbo l = None -> vb_blk l = None -> vb_dead l = None -> vb_cur l = None -> vb_full l = None ->
    (forall r0 ob, vb_move l = Some (r0, ob) -> r0 = r) ->
    Q (Some tt) (set_move l None) -> (forall l', Q None l') -> dsafeS c t (rt_fini c r) l Q.
  Proof.
    intros Hr Hl Hb Hd Hc Hf Hm HQ HN. unfold rt_fini.
    apply dsafeS_xloc. intros g a tr Hv. unfold viewB in Hv. exists (aux_fini a t r (r_head (grec g r))).
    split; [eapply frame_bvs; reflexivity|]. split; [intros J; apply S_fini_start; auto; rewrite Hv; auto|].
    split; [js_loc t|].
    unfold viewB. cbn [bvs aux_fini fst snd]. rewrite fn_same, Hv. generalize (rch a r) as lb. generalize (r_head (grec g r)) as hd. clear g a tr Hv. intros hd lb.
    apply dsafeS_xbind. eapply free_rblocks_specS; [reflexivity|cbn; exact Hb| |apply HN]. intros x. cbn beta iota.
    apply dsafeS_loc_J. intros g a tr Hv. unfold viewB in Hv. exists (aux_fini_end a t r).
    split; [eapply frame_bvs; reflexivity|]. split; [intros J; apply S_fini_end; auto; rewrite Hv; reflexivity|].
    split; [js_loc t|].
    unfold viewB. cbn [bvs aux_fini_end fst snd]. rewrite fn_same, Hv.
    match goal with |- dsafe _ _ _ _ ?v _ => assert (E : v = set_move l None) by (destruct l; cbn in *; subst; reflexivity) end.
    rewrite E. exact HQ.
  Qed.

  (** ** help_scan: moving the cells of one block *)
  Lemma move_cells_specS t me src ob b (Q : option unit -> VB -> Prop) : src <> me -> forall n i l,
    vb_cur l = Some (b, i, n) -> vb_move l = Some (src, ob) -> mv_ok me l ->
    (forall i', Q (Some tt) (set_cur l (Some (b, i', 0)))) -> (forall l', Q None l') ->
    dsafeS c t (move_cells c me b i n) l Q.
  Proof.
    intros Hne. induction n as [|n IH]; intros i l Hc Hm Hok HQ HN; cbn [move_cells].
    - assert (E : l = set_cur l (Some (b, i, 0))) by (destruct l; cbn in *; subst; reflexivity). rewrite E. apply HQ.
    - destruct Hok as [M1 M2 M3 M4 M5 M6].
      apply dsafeS_xloc. intros g a tr Hv. unfold viewB in Hv.
      set (p := nth i (rb_cells (grb g b)) 0). set (a1 := aux_take a t src b i n p).
      exists (aux_push a1 t me p (snd (rt_push c me p g))). split.
      { intros t' Ht. unfold viewB. cbn. now rewrite !fn_other by exact Ht. }
      split.
      { intros J. assert (J1 : JB c g a1 tr) by (apply (G_take c g a tr t src ob b i n); [rewrite Hv; exact Hm|rewrite Hv; exact Hc|rewrite Hv; exact M2|rewrite Hv; exact M3|exact J]).
        apply S_push; auto; unfold a1; cbn [bvs aux_take]; rewrite fn_same, Hv; cbn; auto; try congruence. }
      split.
      { intros J HS. assert (J1 : JB c g a1 tr) by (apply (G_take c g a tr t src ob b i n); [rewrite Hv; exact Hm|rewrite Hv; exact Hc|rewrite Hv; exact M2|rewrite Hv; exact M3|exact J]).
        assert (S1 : JS a1 tr) by (apply (JS_take c HRB g a tr t src ob b i n); [rewrite Hv; exact Hm|rewrite Hv; exact Hc|exact J|exact HS]).
        apply (JS_push c g a1 tr t me p); auto; unfold a1; cbn [bvs aux_take]; rewrite fn_same, Hv; cbn; auto. }
      unfold viewB, a1. cbn [bvs aux_push aux_arr aux_take fst snd]. rewrite !fn_same, Hv. generalize (snd (rt_push c me p g)) as ok. clear a1. clearbody p. clear g a tr Hv. intros ok.
      apply dsafeS_xbind.
      assert (Hnext : forall l', l' = set_full (set_cur l (Some (b, S i, n))) None -> dsafeS c t (move_cells c me b (S i) n) l' Q).
      { intros l' ->. apply IH; auto; [constructor; cbn; auto|]. intros i'.
        assert (E : set_cur (set_full (set_cur l (Some (b, S i, n))) None) (Some (b, i', 0)) = set_cur l (Some (b, i', 0)))
          by (destruct l; cbn in *; subst; reflexivity).
        rewrite E. apply HQ. }
      destruct ok.
      + apply dsafeS_ret. cbn beta iota. apply Hnext. destruct l; cbn in *; subst; reflexivity.
      + apply scan_specS; auto; cbn [vb_own vb_dead vb_move vb_full vb_freed vb_blk set_full set_pend set_cur]; auto; try congruence.
        all: try solve [intros ob' E; rewrite Hm in E; inversion E; congruence].
        cbn beta iota. apply Hnext. destruct l; cbn in *; subst; reflexivity.
  Qed.

  Lemma move_blocks_specS t me src (Q : option unit -> VB -> Prop) : src <> me -> forall fuel block l,
    vb_move l = Some (src, block) -> vb_cur l = None -> mv_ok me l ->
    (forall ob', Q (Some tt) (set_move l (Some (src, ob')))) -> (forall l', Q None l') ->
    dsafeS c t (move_blocks c fuel me src block) l Q.
  Proof.
    intros Hne. induction fuel as [|fuel IH]; intros block l Hm Hc Hok HQ HN; destruct block as [b|]; cbn [move_blocks].
    - apply dsafeS_fuel_out. apply HN.
    - assert (E : l = set_move l (Some (src, None))) by (destruct l; cbn in *; subst; reflexivity). rewrite E. apply HQ.
    - pose proof Hok as [M1 M2 M3 M4 M5 M6].
      apply dsafeS_xloc. intros g a tr Hv. unfold viewB in Hv.
      exists (setv a t (set_cur (bvs a t) (Some (b, 0, if oeqb (Some b) (r_cb (grec g src)) then r_cc (grec g src) else RB)))).
      split; [eapply frame_bvs; reflexivity|]. split; [intros J; apply (S_mb1 c g a tr t src b _ eq_refl); auto; rewrite Hv; auto|].
      split; [js_loc t|].
      unfold viewB. cbn [bvs setv fst snd]. rewrite fn_same, Hv.
      generalize (if oeqb (Some b) (r_cb (grec g src)) then r_cc (grec g src) else RB) as lc. clear g a tr Hv. intros lc.
      apply dsafeS_xbind. eapply move_cells_specS with (ob := Some b); [exact Hne|reflexivity|cbn; exact Hm|constructor; cbn; auto| |intros; apply HN].
      intros i'. cbn beta iota.
      apply dsafeS_xloc. intros g a tr Hv. unfold viewB in Hv.
      exists (setv a t (set_move (set_cur (bvs a t) None) (Some (src, if oeqb (Some b) (r_cb (grec g src)) then None else rb_next (grb g b))))).
      split; [eapply frame_bvs; reflexivity|]. split.
      { intros J. apply (S_mb2 c g a tr t src (Some b) b i' _ eq_refl); auto; rewrite Hv; auto. }
      split; [js_loc t|].
      unfold viewB. cbn [bvs setv fst snd]. rewrite fn_same, Hv.
      generalize (if oeqb (Some b) (r_cb (grec g src)) then None else rb_next (grb g b)) as nx. clear g a tr Hv. intros nx.
      apply IH; auto; [constructor; cbn; auto|]. intros ob'.
      match goal with |- Q _ ?v => assert (E : v = set_move l (Some (src, ob'))) by (destruct l; cbn in *; subst; reflexivity) end.
      rewrite E. apply HQ.
    - assert (E : l = set_move l (Some (src, None))) by (destruct l; cbn in *; subst; reflexivity). rewrite E. apply HQ.
  Qed.
End ProgS3.
