(** * LazyListDefs: what "no key is present twice" means on the LazyList model (statement only, see Properties_C13). *)
From Coq Require Import ZArith List Bool PeanoNat.
From LV Require Import Model.LazyList.
Import ListNotations.
Local Open Scope Z_scope.

(** the unmarked nodes met when following m_pNext from the node after m_Head, up to m_Tail or the first marked node
    (a node between the two stores of unlink_node is marked and still pointed to by its predecessor) *)
Fixpoint lazy_walk (g : G) (fuel : nat) (n : nat) : list nat :=
  match fuel with
  | O => []
  | S f => if Nat.eqb n TAIL then [] else if nmark (heap g n) then [] else n :: lazy_walk g f (nnext (heap g n))
  end.
Definition lazy_keys (g : G) : list Z :=
  map (fun n => nkey (heap g n)) (lazy_walk g (S (nalloc g)) (nnext (heap g HEAD))).

Fixpoint increasing (l : list Z) : Prop :=
  match l with
  | [] => True
  | x :: r => match r with [] => True | y :: _ => x < y end /\ increasing r
  end.
Fixpoint increasingb (l : list Z) : bool :=
  match l with
  | [] => true
  | x :: r => match r with [] => true | y :: _ => Z.ltb x y end && increasingb r
  end.
