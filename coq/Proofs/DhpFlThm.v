(** * DhpFlThm: the two cds::intrusive::FreeList instances embedded in the DHP model never hand out a block they do
      not hold, on EVERY reachable trace: [dhp_flbad_false].  The hypothesis [flbad (hist (Conc.trace conf)) = false] of
      the DHP theorems (C02, C03) is thereby discharged.

    Side conditions (none about the free lists, none about the client program): the faithful configuration of the
    current code ([c_old = false], [c_oldtail = false]; block capacity [c_RB >= 4], 256 in /repo) -- under the pre-fix
    variants the retired-block discipline is not proved --, and fewer than 2^31 - 3 threads (C21's bound: the 31-bit
    reference count of a free-list node cannot overflow).  The legitimacy of every "_free" of a retired block is read
    off the pointer-free part JO /\ JK /\ JR of the C03 invariant (LV.Proofs.DhpFlBInv and the copies DhpFlB... of the
    C03 proof files), which holds whether or not the client retires an object twice. *)
From Coq Require Import ZArith NArith List String Bool Lia PeanoNat.
From LV Require Import Base.Conc Base.Events Model.FreeList Model.DhpLang Model.Dhp Proofs.DhpBase Proofs.DhpHist
  Proofs.DhpLangProofs Proofs.FreeListBase Proofs.FreeListInv Proofs.FreeListOpen Proofs.FreeListOpenRules Proofs.FreeListOpenDhp Proofs.FreeListOpenDhpRules
  Proofs.FreeListOpenDhpThm Proofs.FreeListOpenDhpBridge Proofs.DhpCertBase Proofs.DhpCert Proofs.DhpCertProgs Proofs.DhpCertDInv Proofs.DhpCertDInvSp
  Proofs.DhpInvA Proofs.DhpInvB Proofs.DhpMainB Proofs.DhpMainC Proofs.DhpProofsC02 Proofs.DhpProofsC03 Proofs.DhpProofsC03b
  Proofs.DhpFlBInv Proofs.DhpFlBMainC Proofs.DhpFlX Proofs.DhpFlXSp Proofs.DhpFlNok Proofs.DhpFlKnot.
Import ListNotations.

(** ** initial auxiliary states *)
Definition da0 (NR : nat) : Aux :=
  mkA (fun _ => Nil) [] (fun t => if Nat.ltb t NR then Busy else Idle) (fun _ => []) (fun _ => None).
Definition d0 (NR : nat) : DAux := mkD (da0 NR) (fun _ => None).
Definition x0 : AuxX := mkAuxX (fun _ => xv0) (fun _ => false).

Lemma has_ref_da0 NR t n : has_ref (ph (da0 NR) t) n = false.
Proof. unfold da0. cbn [ph]. destruct (Nat.ltb t NR); reflexivity. Qed.

Lemma projf_init_refs c f n : refs (projf f (init c)) n = 0%Z.
Proof. destruct n as [|k]; [reflexivity|]. destruct f; cbn; unfold ggb, grb; cbn; destruct k; reflexivity. Qed.

Lemma InvS_init NR c f : InvS (S NR) (fun _ => false) (projf f (init c)) (da0 NR).
Proof.
  assert (Hc : forall n, cnt (S NR) (da0 NR) n = 0) by (intros n; apply count_all_false; intros t _; apply has_ref_da0).
  constructor.
  - intros n. cbn. tauto.
  - intros n. rewrite projf_init_refs, Hc. reflexivity.
  - intros n. unfold st_ok. cbn [st da0]. apply Hc.
  - destruct f; reflexivity.
  - constructor.
  - intros n. cbn. split; [intros []|discriminate].
  - intros t. unfold da0. cbn [ph st hl]. destruct (Nat.ltb t NR); exact I.
  - intros t n [].
  - intros t. constructor.
  - intros t Ht. unfold da0. cbn [ph hl]. split; [|reflexivity]. destruct (Nat.ltb_spec t NR); [lia|reflexivity].
Qed.

Lemma DInv_init NR c f : DInv NR f (init c) (d0 NR) [].
Proof.
  split; [intros t nb b E; discriminate|]. intros _. split; [|split; [reflexivity|split; [intros n E; discriminate|split; intros; discriminate]]].
  split.
  - exists (fun _ => false). split; [reflexivity|apply InvS_init].
  - split; [intros n; reflexivity|]. split; [intros n; reflexivity|]. split; [intros n E; discriminate|]. split; [intros t _; reflexivity|].
    unfold d0, da0. cbn [da ph]. now rewrite Nat.ltb_irrefl.
Qed.

Lemma shp_init c f b : ~ shp f (init c) b.
Proof.
  destruct f; cbn; intros [(r & H)|(b' & H)]; unfold grec, ggb, grb in H; cbn in H.
  - destruct r; discriminate. - destruct b'; discriminate. - destruct r; discriminate. - destruct b'; discriminate.
Qed.

Lemma JB3_init c : DhpFlBInv.JB c (init c) auxb0 [].
Proof.
  destruct (JB_init c) as [O K R _]. constructor; auto. apply JW_triv.
Qed.

Lemma InvX_init c f : InvX f (init c) x0 [].
Proof.
  intros _. split.
  - constructor; cbn; try (intros; discriminate).
    + intros t b [].
    + intros b H. exfalso. eapply shp_init; eauto.
  - intros tr1 t e tr2 E. destruct tr1; discriminate.
Qed.

Section Thm.
  Variable c : cfg.
  Hypothesis H4 : 4 <= c_RB c.
  Hypothesis Hold : c_old c = false.
  Hypothesis Htail : c_oldtail c = false.
  Variable NR : nat.
  Hypothesis HN2 : (Z.of_nat (S NR) + 2 < FLAG)%Z.

  Notation view6 := (view6).
  Notation Inv6 := (Inv6 c NR).
  Notation Good := (Good).
  Notation InvK := (Inv1 Aux6 Inv6 Good).

  Definition a6 : Aux6 := (aux0, (auxb0, (d0 NR, (d0 NR, (x0, x0))))).
  Definition l6 : L6 := (va0, (vb0, ((Busy, None), ((Busy, None), (xv0, xv0))))).

  Lemma view6_init t : t < NR -> view6 a6 t = l6.
  Proof.
    intros Ht. unfold view6, DhpFlKnot.view6, vprod, a6, l6. cbn [fst snd]. unfold dview, d0, da0. cbn [da dfresh ph].
    destruct (Nat.ltb_spec t NR); [reflexivity|lia].
  Qed.

  Lemma thread6 t os : dsafe view6 Inv6 t (thread_src c t os) l6 (fun _ _ => True).
  Proof.
    assert (Hok : Forall (DhpFlBMainC.okop c) os) by (apply Forall_forall; intros o _; right; exact Htail).
    eapply dsafe_weaken; [|apply dsafe_prod; [apply (DhpMainB.spec_thread c t os)|
      apply dsafe_prod; [apply (DhpFlBMainC.spec_thread c H4 Hold t os Hok)|
      apply dsafe_prod; [apply (dsafeF_thread NR HN2 FHp c t os)|
      apply dsafe_prod; [apply (dsafeF_thread NR HN2 FRt c t os)|
      apply dsafe_prod; [apply (dsafeX_thread FHp c t os)|apply (dsafeX_thread FRt c t os)]]]]]].
    intros; exact I.
  Qed.

  Lemma threadK t os : dsafe view6 InvK t (thread_src c t os) l6 (fun _ _ => True).
  Proof. apply knot_dsafe; [apply (Good_step c NR)|apply nk_thread|apply thread6]. Qed.

  Lemma cfg_ok6 fuel ths : List.length ths = NR -> Conc.cfg_ok view6 InvK (init_cfg fuel c ths).
  Proof.
    intros Hlen. exists a6. split.
    - cbn [Conc.shared Conc.trace init_cfg]. split.
      + split; [|split; [|split; [|split; [|split]]]]; cbn [fst snd a6].
        * intros _. split; [apply JA_init|]. intros tr1 t p tr2 E. destruct tr1; discriminate.
        * intros _ _. apply JB3_init.
        * apply DInv_init. * apply DInv_init. * apply InvX_init. * apply InvX_init.
      + repeat split; reflexivity.
    - intros t p Hp. unfold init_cfg in Hp. cbn [Conc.threads] in Hp. rewrite nth_error_map in Hp.
      destruct (nth_error (combine (seq 0 (List.length ths)) ths) t) as [[t' os]|] eqn:E; [|discriminate].
      cbn in Hp. inversion Hp; subst p.
      assert (Ht : t < NR).
      { rewrite <- Hlen. assert (Hs : nth_error (combine (seq 0 (List.length ths)) ths) t <> None) by congruence.
        apply nth_error_Some in Hs. rewrite combine_length, seq_length in Hs. lia. }
      apply nth_error_combine_seq in E. cbn in E. subst t'.
      rewrite (view6_init t Ht). apply compile_safe. apply threadK.
  Qed.
End Thm.

(** * THE THEOREM: on every reachable trace of every DHP program the embedded free lists behaved *)
Theorem dhp_flbad_false : forall fuel c ths conf,
  4 <= c_RB c -> c_old c = false -> c_oldtail c = false ->
  (Z.of_nat (List.length ths) + 3 < 2147483648)%Z ->
  Conc.reach (init_cfg fuel c ths) conf ->
  flbad (hist (Conc.trace conf)) = false.
Proof.
  intros fuel c ths conf H4 Ho Ht Hn Hr.
  assert (HN2 : (Z.of_nat (S (List.length ths)) + 2 < FLAG)%Z) by (unfold FLAG; lia).
  destruct (Conc.reach_Inv (cfg_ok6 c H4 Ho Ht (List.length ths) HN2 fuel ths eq_refl) Hr) as (a & _ & HG).
  destruct HG as (F & _). exact F.
Qed.

(** the monitors' view of the same fact: neither client side nor free-list side ever went wrong *)
Theorem dhp_monitors_good : forall fuel c ths conf,
  4 <= c_RB c -> c_old c = false -> c_oldtail c = false ->
  (Z.of_nat (List.length ths) + 3 < 2147483648)%Z ->
  Conc.reach (init_cfg fuel c ths) conf ->
  GoodC (Conc.trace conf).
Proof.
  intros fuel c ths conf H4 Ho Ht Hn Hr.
  assert (HN2 : (Z.of_nat (S (List.length ths)) + 2 < FLAG)%Z) by (unfold FLAG; lia).
  destruct (Conc.reach_Inv (cfg_ok6 c H4 Ho Ht (List.length ths) HN2 fuel ths eq_refl) Hr) as (a & _ & HG).
  exact HG.
Qed.

(** ** the DHP theorems without the free-list hypothesis *)
Theorem dhp_no_dispose_while_guarded_unconditional : forall fuel c ths conf,
  4 <= c_RB c -> c_old c = false -> c_oldtail c = false ->
  (Z.of_nat (List.length ths) + 3 < 2147483648)%Z ->
  Conc.reach (init_cfg fuel c ths) conf ->
  no_dispose_while_guarded c (Conc.trace conf).
Proof.
  intros fuel c ths conf H4 Ho Ht Hn Hr. apply (dhp_no_dispose_while_guarded_partial fuel c ths conf Hr).
  apply (dhp_flbad_false fuel c ths conf H4 Ho Ht Hn Hr).
Qed.

Theorem dhp_dispose_at_most_once_unconditional : forall fuel c ths conf,
  4 <= c_RB c -> c_old c = false -> c_oldtail c = false ->
  (Z.of_nat (List.length ths) + 3 < 2147483648)%Z ->
  Conc.reach (init_cfg fuel c ths) conf ->
  NoDup (flat_map (fun e => DhpProofsC03.retired_ev (snd e)) (Conc.trace conf)) ->
  NoDup (disposed_of (Conc.trace conf)).
Proof.
  intros fuel c ths conf H4 Ho Ht Hn Hr Hnd. apply (dhp_dispose_at_most_once fuel c ths conf H4 Ho Ht Hr); [|exact Hnd].
  apply (dhp_flbad_false fuel c ths conf H4 Ho Ht Hn Hr).
Qed.

Theorem dhp_disposed_were_retired_unconditional : forall fuel c ths conf,
  4 <= c_RB c -> c_old c = false -> c_oldtail c = false ->
  (Z.of_nat (List.length ths) + 3 < 2147483648)%Z ->
  Conc.reach (init_cfg fuel c ths) conf ->
  NoDup (flat_map (fun e => DhpProofsC03.retired_ev (snd e)) (Conc.trace conf)) ->
  incl (disposed_of (Conc.trace conf)) (flat_map (fun e => DhpProofsC03.retired_ev (snd e)) (Conc.trace conf)).
Proof.
  intros fuel c ths conf H4 Ho Ht Hn Hr Hnd. apply (dhp_disposed_were_retired fuel c ths conf H4 Ho Ht Hr); [|exact Hnd].
  apply (dhp_flbad_false fuel c ths conf H4 Ho Ht Hn Hr).
Qed.
