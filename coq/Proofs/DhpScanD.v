(** * DhpScanD: specification of stage 1 (copy_hazards, scan_blocks, scan_recs) and of smr::scan:
      every run of scan from a view without a running scan returns to the same view. *)
From Coq Require Import ZArith NArith List String Bool Lia PeanoNat.
From LV Require Import Base.Conc Base.Events Model.DhpLang Model.Dhp Proofs.DhpBase Proofs.DhpHist
  Proofs.DhpLangProofs Proofs.DhpInvA Proofs.DhpStepsA Proofs.DhpQuietA Proofs.DhpSlotA Proofs.DhpScanA Proofs.DhpScanB
  Proofs.DhpScanC.
Import ListNotations.

(** what stage 2 frees is not in the hazard list *)
Lemma retire_data_freed c r pl b : forall n i g racc cnt,
  (forall p, In p racc -> ~ In p pl) -> forall p, In p (snd (fst (retire_data c r pl b i n g racc cnt))) -> ~ In p pl.
Proof.
  induction n as [|n IH]; intros i g racc cnt H p Hp; cbn [retire_data] in Hp; [cbn in Hp; auto|].
  destruct (memb (nth i (rb_cells (grb g b)) 0) pl) eqn:E.
  - eapply IH; eauto.
  - eapply IH; [|exact Hp]. intros q [<-|Hq]; auto. intros K. apply memb_In in K. congruence.
Qed.

Lemma stage2_blocks_freed c r pl lastb lastc : forall fuel block g racc f rc,
  (forall p, In p racc -> ~ In p pl) ->
  forall p, In p (snd (fst (fst (stage2_blocks c fuel r pl block lastb lastc g racc f rc)))) -> ~ In p pl.
Proof.
  induction fuel as [|fuel IH]; intros block g racc f rc H p Hp; destruct block as [b|]; cbn [stage2_blocks] in Hp; try (cbn in Hp; auto; fail).
  pose proof (retire_data_freed c r pl b (if oeqb (Some b) lastb then lastc else c_RB c) 0 g racc 0 H) as K.
  destruct (retire_data c r pl b 0 _ g racc 0) as [[g1 racc1] c1]. cbn [fst snd] in K.
  destruct (oeqb (Some b) lastb); cbn [fst snd] in Hp; [auto|]. eapply IH; eauto.
Qed.

Lemma stage2_freed c r pl g : forall p, In p (fst (snd (stage2 c r pl g))) -> ~ In p pl.
Proof.
  intros p Hp. unfold stage2 in Hp.
  pose proof (stage2_blocks_freed c r pl (r_cb (grec g r)) (r_cc (grec g r)) (S (List.length (rbs g))) (r_head (grec g r))
                (upd_rec g r (rs_cur (r_head (grec g r)) 0)) [] 0 0 (fun _ H => match H with end)) as K.
  destruct (stage2_blocks _ _ _ _ _ _ _ _ _ _ _) as [[[g1 racc] f] rc]. cbn [fst snd] in *.
  apply K. now apply in_rev.
Qed.

Section ScanD.
  Variable c : cfg.
  Notation dsafeA := (@dsafe G ev AuxA VA viewA (InvA c)).

  Lemma dsafe_loc_quiet' {X R} t (f : G -> G * X) (k : X -> @dprog G ev R) l Q :
    (forall g, quietG g (fst (f g))) -> (forall g, dsafeA t (k (snd (f g))) l Q) -> dsafeA t (DLoc f k) l Q.
  Proof.
    intros Hf Hk. cbn [dsafe]. intros g a tr Hi Hv. exists a.
    split; [|split; [apply frame_refl|rewrite Hv; apply Hk]].
    pose proof (InvA_quiet c g (fst (f g)) a tr t [] Hi (Hf g) (Forall_nil _)) as K. cbn in K. now rewrite app_nil_r in K.
  Qed.

  Definition Qscan (l : VA) (s0 : nat) (posP : pos -> Prop) : option (list nat) -> VA -> Prop :=
    fun o l' => match o with
                | None => True
                | Some pl' => exists ss', l' = with_scan l (Some ss') /\ ss_s0 ss' = s0 /\ ss_pl ss' = pl' /\ posP (ss_pos ss')
                end.

  Lemma Qscan_rebase l x s0 posP o l' : Qscan (with_scan l x) s0 posP o l' -> Qscan l s0 posP o l'.
  Proof. destruct o; cbn; auto. Qed.

  Lemma dsafe_fuel_out {X} t l (Q : option X -> VA -> Prop) : Q None l -> dsafeA t fuel_out l Q.
  Proof. intros H. unfold fuel_out. apply dsafe_emit_quiet; [repeat constructor|exact H]. Qed.

  (** copy_hazards over the initial array of n0 *)
  Lemma spec_copy_init t n0 : forall n i l ss, va_scan l = Some ss -> ss_pos ss = PInit n0 i ->
    dsafeA t (copy_hazards (GI n0) i n (ss_pl ss)) l (Qscan l (ss_s0 ss) (fun p => p = PInit n0 (i + n))).
  Proof.
    induction n as [|n IH]; intros i l ss Hs Hp; cbn [copy_hazards].
    - cbn. exists ss. rewrite <- Hs, with_scan_same, Nat.add_0_r. auto.
    - unfold xbind, act. cbn [dbind].
      apply (dsafe_load_adv c t (a_ld_slot (GI n0 i)) _ l ss (fun g => ss_load ss (GI n0 i) (slot_get g (GI n0 i)) (PInit n0 (S i)))); auto.
      + intros g. cbn. split; auto. repeat constructor.
      + intros g a h Hv J S. eapply adv_init; eauto.
      + intros g. cbn [a_ld_slot fst snd].
        eapply dsafe_weaken; [|apply (IH (S i) (with_scan l (Some (ss_load ss (GI n0 i) (slot_get g (GI n0 i)) (PInit n0 (S i))))) _ eq_refl eq_refl)].
        intros o l' K. apply Qscan_rebase in K. cbn [ss_load ss_s0] in K. destruct o; cbn in *; auto.
        destruct K as (ss' & K1 & K2 & K3 & K4). exists ss'. repeat split; auto. rewrite K4. f_equal. lia.
  Qed.

  (** copy_hazards over extension block bb *)
  Lemma spec_copy_chain t n0 bb : forall n i l ss, va_scan l = Some ss -> ss_pos ss = PChain n0 (Some bb) i ->
    dsafeA t (copy_hazards (GE bb) i n (ss_pl ss)) l (Qscan l (ss_s0 ss) (fun p => p = PChain n0 (Some bb) (i + n))).
  Proof.
    induction n as [|n IH]; intros i l ss Hs Hp; cbn [copy_hazards].
    - cbn. exists ss. rewrite <- Hs, with_scan_same, Nat.add_0_r. auto.
    - unfold xbind, act. cbn [dbind].
      apply (dsafe_load_adv c t (a_ld_slot (GE bb i)) _ l ss (fun g => ss_load ss (GE bb i) (slot_get g (GE bb i)) (PChain n0 (Some bb) (S i)))); auto.
      + intros g. cbn. split; auto. repeat constructor.
      + intros g a h Hv J S. eapply adv_chain; eauto.
      + intros g. cbn [a_ld_slot fst snd].
        eapply dsafe_weaken; [|apply (IH (S i) (with_scan l (Some (ss_load ss (GE bb i) (slot_get g (GE bb i)) (PChain n0 (Some bb) (S i))))) _ eq_refl eq_refl)].
        intros o l' K. apply Qscan_rebase in K. cbn [ss_load ss_s0] in K. destruct o; cbn in *; auto.
        destruct K as (ss' & K1 & K2 & K3 & K4). exists ss'. repeat split; auto. rewrite K4. f_equal. lia.
  Qed.

  (** the extension list of n0 *)
  Lemma spec_scan_blocks t n0 : forall fuel b l ss, va_scan l = Some ss -> ss_pos ss = PChain n0 b 0 ->
    dsafeA t (scan_blocks c fuel b (ss_pl ss)) l (Qscan l (ss_s0 ss) (fun p => exists j, p = PChain n0 None j)).
  Proof.
    induction fuel as [|fuel IH]; intros b l ss Hs Hp; destruct b as [bb|]; cbn [scan_blocks];
      try (cbn; exists ss; rewrite <- Hs, with_scan_same; repeat split; eauto; fail).
    - apply dsafe_fuel_out. exact I.
    - apply dsafe_xbind. eapply dsafe_weaken; [|apply (spec_copy_chain t n0 bb (c_GB c) 0 l ss Hs Hp)].
      intros [pl1|] l1 K; cbn in K; [|exact I]. destruct K as (ss1 & -> & K2 & K3 & K4). cbn [Nat.add] in K4.
      unfold xbind, loc. cbn [dbind].
      apply (dsafe_locread_adv c t _ _ (with_scan l (Some ss1)) ss1 (fun g => ss_pos_set ss1 (PChain n0 (gb_nextb (ggb g bb)) 0))); auto.
      + intros g a h Hv J S. eapply adv_nextb; eauto.
      + intros g. cbn [fst snd].
        eapply dsafe_weaken; [|rewrite <- K3; apply (IH (gb_nextb (ggb g bb)) (with_scan (with_scan l (Some ss1)) (Some (ss_pos_set ss1 (PChain n0 (gb_nextb (ggb g bb)) 0)))) _ eq_refl eq_refl)].
        intros o l' K. apply Qscan_rebase, Qscan_rebase in K. cbn [ss_pos_set ss_s0] in K. now rewrite K2 in K.
  Qed.
End ScanD.
