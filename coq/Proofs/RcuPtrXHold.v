(** * RcuPtr (C04, exempt_ptr): a thread-local resource discipline of the container client of LV.Model.RcuPtr.

    Every node that a thread hands over with a "release" event was taken into that thread's custody by one of its own
    "hold" events, each "hold" event pays for at most one handing-over, and a node that the thread still carries (in a
    position chain, in a raw_ptr chain, in its exempt_ptr) is still paid for.  In numbers, for every thread t and node q:

        #{ "release" events of t that name q }  +  #{ occurrences of q in t's chains / exempt_ptr }  <=  #{ "hold q" events of t }

    and at every "xtouch p" event (dereference of the exempt_ptr outside any section) the pointer is carried, so
    strictly fewer "release"-events-naming-p than "hold p" events of t precede it ([xt_ok]).  The invariant does not
    look at the shared state at all: it holds for EVERY schedule, every fuel, every client program, strict or not.
    Together with the custody theorems of LV.Proofs.RcuPtrThm ("hold p" is unique; "retire p" only by the holder after
    its "release p") this gives exempt_ptr dereference validity, see LV.Proofs.RcuPtrXThm. *)
From Coq Require Import ZArith List String Bool Lia PeanoNat.
From LV Require Import Base.Conc Base.Events Model.RcuGp Model.RcuPtr Proofs.RcuGpInv Proofs.RcuPtrInv Proofs.RcuPtrSafe.
Import ListNotations.
Local Open Scope string_scope.
Local Open Scope list_scope.
Local Open Scope Z_scope.

Definition is_xtouch (p : Z) : ev -> bool := cli_is "xtouch" p.

(** ** counting events *)
Definition cnt (P : ev -> bool) (t : nat) (tr : trace) : nat :=
  List.length (filter (fun x => Nat.eqb (fst x) t && P (snd x)) tr).
Definition cntE (P : ev -> bool) (es : list ev) : nat := List.length (filter P es).

Lemma cnt_app P t tr tr' : cnt P t (tr ++ tr') = (cnt P t tr + cnt P t tr')%nat.
Proof. unfold cnt. rewrite filter_app, app_length. reflexivity. Qed.

Lemma cnt_tag P t t' es : cnt P t (Conc.tag t' es) = if Nat.eqb t' t then cntE P es else O.
Proof.
  unfold cnt, cntE, Conc.tag. induction es as [|e r IH]; cbn [map filter fst snd List.length].
  - destruct (Nat.eqb t' t); reflexivity.
  - destruct (Nat.eqb t' t) eqn:E; cbn [andb].
    + destruct (P e); cbn [List.length]; rewrite IH; reflexivity.
    + exact IH.
Qed.

Lemma cntE_pos P es e : In e es -> P e = true -> (0 < cntE P es)%nat.
Proof.
  intros Hin HP. unfold cntE. assert (X : In e (filter P es)) by (apply filter_In; auto).
  destruct (filter P es); [contradiction|cbn; lia].
Qed.

(** ** the ghost state: what the thread carries *)
Record ML := mkML { m_c : list Z; m_r : list Z; m_x : Z }.
Definition xl (x : Z) : list Z := if x =? 0 then [] else [x].
Definition held (l : ML) : list Z := m_c l ++ m_r l ++ xl (m_x l).
Notation occ := (count_occ Z.eq_dec).

Definition MAux := nat -> ML.
Definition mview (a : MAux) (t : nat) : ML := a t.

Definition held_ok (a : MAux) (tr : trace) : Prop :=
  forall t q, (cnt (is_release q) t tr + occ (held (a t)) q <= cnt (is_hold q) t tr)%nat.
Definition xt_ok (tr : trace) : Prop :=
  forall x t p, at_ tr x t (is_xtouch p) ->
    (cnt (is_release p) t (firstn x tr) < cnt (is_hold p) t (firstn x tr))%nat.
Definition MInv (g : PG) (a : MAux) (tr : trace) : Prop := held_ok a tr /\ xt_ok tr.

Notation msafe := (@Conc.safe PG V ev MAux ML mview MInv).
Definition updM (a : MAux) (t : nat) (l : ML) : MAux := fun x => if Nat.eqb x t then l else a x.

Lemma firstn_app_le {A} (l l' : list A) n : (n <= List.length l)%nat -> firstn n (l ++ l') = firstn n l.
Proof.
  intros H. rewrite firstn_app. replace (n - List.length l)%nat with O by lia. cbn. apply app_nil_r.
Qed.

(** one step of thread [t]: no "xtouch", the books balance *)
Lemma MInv_step g g' a tr t es l' :
  MInv g a tr ->
  (forall q, cntE (is_xtouch q) es = O) ->
  (forall q, (cntE (is_release q) es + occ (held l') q <= cntE (is_hold q) es + occ (held (a t)) q)%nat) ->
  MInv g' (updM a t l') (tr ++ Conc.tag t es).
Proof.
  intros (H1 & H2) Hx Hb. split.
  - intros t0 q. rewrite !cnt_app, !cnt_tag. unfold updM. specialize (H1 t0 q).
    destruct (Nat.eqb_spec t0 t) as [->|Hne].
    + rewrite Nat.eqb_refl. specialize (Hb q). lia.
    + destruct (Nat.eqb_spec t t0) as [E|_]; [congruence|]. lia.
  - intros x t0 p Hat. apply at_tag_inv in Hat. destruct Hat as [Hat|(_ & j & e & Hn & _ & HP)].
    + pose proof (at_lt _ _ _ _ Hat) as L. rewrite firstn_app_le by lia. apply H2; exact Hat.
    + exfalso. apply nth_error_In in Hn. pose proof (cntE_pos _ _ _ Hn HP) as X. rewrite Hx in X. lia.
Qed.

Lemma updM_id a t : forall x, updM a t (a t) x = a x.
Proof. intros x. unfold updM. destruct (Nat.eqb_spec x t) as [->|]; reflexivity. Qed.

Lemma MInv_ext g a a' tr : (forall x, a' x = a x) -> MInv g a tr -> MInv g a' tr.
Proof. intros E (H1 & H2). split; [|exact H2]. intros t q. rewrite E. apply H1. Qed.

(** an event list without "xtouch" and "release" *)
Definition mq (es : list ev) : Prop := forall q, cntE (is_xtouch q) es = O /\ cntE (is_release q) es = O.

Lemma MInv_quiet g g' a tr t es : MInv g a tr -> mq es -> MInv g' a (tr ++ Conc.tag t es).
Proof.
  intros HI Hq. apply MInv_ext with (a := updM a t (a t)); [intros x; symmetry; apply updM_id|].
  apply MInv_step with (g := g); [exact HI|intros q; apply Hq|]. intros q. destruct (Hq q) as (_ & ->). lia.
Qed.

Lemma msafe_bind {A B} t (p : pprog A) (q : A -> pprog B) Q l :
  msafe t p l (fun r l' => msafe t (q r) l' Q) -> msafe t (pbind p q) l Q.
Proof. apply Conc.safe_bind. Qed.

Lemma msafe_weaken {R} t (p : pprog R) (Q Q' : R -> ML -> Prop) l :
  (forall r l', Q r l' -> Q' r l') -> msafe t p l Q -> msafe t p l Q'.
Proof. intros H. apply Conc.safe_weaken. exact H. Qed.

Lemma mframe_upd a t l : Conc.frame mview t a (updM a t l).
Proof. intros t' Ht. unfold mview, updM. destruct (Nat.eqb_spec t' t); congruence. Qed.

Lemma mview_upd a t l : mview (updM a t l) t = l.
Proof. unfold mview, updM. now rewrite Nat.eqb_refl. Qed.

Lemma msafe_act {R} t (f : pact) (k : V -> pprog R) l Q :
  (forall g, exists l', (forall q, cntE (is_xtouch q) (snd (f g)) = O) /\
     (forall q, (cntE (is_release q) (snd (f g)) + occ (held l') q <= cntE (is_hold q) (snd (f g)) + occ (held l) q)%nat) /\
     msafe t (k (snd (fst (f g)))) l' Q) ->
  msafe t (Act f k) l Q.
Proof.
  intros H. cbn [Conc.safe]. intros g a tr HI Hv. destruct (H g) as (l' & H1 & H2 & H3). exists (updM a t l'). split.
  - apply MInv_step with (g := g); [exact HI|exact H1|]. unfold mview in Hv. rewrite Hv. exact H2.
  - split; [apply mframe_upd|]. rewrite mview_upd. exact H3.
Qed.

Lemma msafe_emit {R} t es (k : pprog R) l l' Q :
  (forall q, cntE (is_xtouch q) es = O) ->
  (forall q, (cntE (is_release q) es + occ (held l') q <= cntE (is_hold q) es + occ (held l) q)%nat) ->
  msafe t k l' Q -> msafe t (Emit es k) l Q.
Proof.
  intros H1 H2 H3. cbn [Conc.safe]. intros g a tr HI Hv. exists (updM a t l'). split.
  - apply MInv_step with (g := g); [exact HI|exact H1|]. unfold mview in Hv. rewrite Hv. exact H2.
  - split; [apply mframe_upd|]. rewrite mview_upd. exact H3.
Qed.

Lemma msafe_act_q {R} t (f : pact) (k : V -> pprog R) l Q :
  (forall g, mq (snd (f g))) -> (forall v, msafe t (k v) l Q) -> msafe t (Act f k) l Q.
Proof.
  intros Hq Hk. apply msafe_act. intros g. exists l. split; [intros q; apply Hq|]. split; [|apply Hk].
  intros q. destruct (Hq g q) as (_ & ->). lia.
Qed.

Lemma msafe_emit_q {R} t es (k : pprog R) l Q : mq es -> msafe t k l Q -> msafe t (Emit es k) l Q.
Proof.
  intros Hq Hk. apply msafe_emit with (l' := l); [intros q; apply Hq| |exact Hk].
  intros q. destruct (Hq q) as (_ & ->). lia.
Qed.

(** ** programs all of whose steps are quiet *)
Fixpoint mqp {GG R} (p : Conc.prog GG V ev R) : Prop :=
  match p with
  | Ret _ => True
  | Emit es k => mq es /\ mqp k
  | Act f k => (forall g, mq (snd (f g))) /\ forall v, mqp (k v)
  end.

Lemma mqp_bind {GG A B} (p : Conc.prog GG V ev A) (q : A -> Conc.prog GG V ev B) :
  mqp p -> (forall r, mqp (q r)) -> mqp (Conc.bind p q).
Proof.
  induction p as [r|es k IH|f k IH]; intros H Hq; cbn [Conc.bind mqp] in *.
  - apply Hq.
  - destruct H as (H1 & H2). split; [exact H1|]. apply IH; assumption.
  - destruct H as (H1 & H2). split; [exact H1|]. intros v. apply IH; auto.
Qed.

Lemma mqp_lift {R} (p : prog R) : mqp p -> mqp (lift p).
Proof.
  induction p as [r|es k IH|f k IH]; intros H; cbn [lift mqp] in *; auto.
  - destruct H as (H1 & H2). split; [exact H1|]. apply IH; exact H2.
  - destruct H as (H1 & H2). split; [intros g; unfold lift_act; cbn [snd]; apply H1|]. intros v. apply IH. apply H2.
Qed.

Lemma mq_acc kd o ok : mq [EvAcc kd o ok].
Proof. intros q. split; reflexivity. Qed.

Lemma mqp_bquiet {R} (p : prog R) : bquiet p -> mqp p.
Proof.
  induction p as [r|es k IH|f k IH]; intros H; cbn [bquiet mqp] in *; auto; [contradiction|].
  destruct H as (H1 & H2). split.
  - intros g. destruct (H1 g) as (kd & o & ok & ->). apply mq_acc.
  - intros v. apply IH. apply H2.
Qed.

Lemma msafe_mqp {R} t (p : pprog R) : forall l, mqp p -> msafe t p l (fun _ l' => l' = l).
Proof.
  induction p as [r|es k IH|f k IH]; intros l H; cbn [mqp] in *.
  - reflexivity.
  - destruct H as (H1 & H2). apply msafe_emit_q; [exact H1|]. apply IH; exact H2.
  - destruct H as (H1 & H2). apply msafe_act_q; [exact H1|]. intros v. apply IH. apply H2.
Qed.

Lemma msafe_q_then {A B} t (p : pprog A) (q : A -> pprog B) l Q :
  mqp p -> (forall r, msafe t (q r) l Q) -> msafe t (pbind p q) l Q.
Proof.
  intros Hp Hq. apply msafe_bind. eapply msafe_weaken; [|apply msafe_mqp; exact Hp]. intros r l' ->. apply Hq.
Qed.

Ltac mqs := let q := fresh "q" in intros q; split; reflexivity.

Lemma mqp_rlock m d : mqp (p_rlock m d).
Proof.
  unfold p_rlock, do_rlock. apply mqp_lift. apply mqp_bind; [apply mqp_bquiet; apply bquiet_access_lock|].
  intros w. cbn [mqp]. split; [mqs|exact I].
Qed.

Lemma mqp_runlock m d : mqp (p_runlock m d).
Proof.
  unfold p_runlock, do_runlock. apply mqp_lift. cbn [mqp]. split; [mqs|].
  apply mqp_bind; [apply mqp_bquiet; apply bquiet_access_unlock|].
  intros w. cbn [mqp]. split; [mqs|exact I].
Qed.

Lemma mqp_emit_all {R} n ps (k : pprog R) :
  String.eqb n "xtouch" = false -> String.eqb n "release" = false -> mqp k -> mqp (emit_all n ps k).
Proof.
  intros H1 H2 Hk. induction ps as [|p r IH]; cbn [emit_all mqp]; [exact Hk|]. split; [|exact IH].
  intros q. unfold cli, cntE, is_xtouch, is_release, cli_is. cbn [filter]. rewrite H1, H2. cbn. split; reflexivity.
Qed.

Lemma mqp_do_batch fuel ps : mqp (do_batch fuel ps).
Proof.
  unfold do_batch. destruct ps as [|p ps]; [exact I|]. apply mqp_emit_all; try reflexivity.
  apply mqp_bind; [apply mqp_lift; apply mqp_bquiet; apply bquiet_synchronize|].
  intros [|]; [|exact I]. apply mqp_emit_all; try reflexivity; exact I.
Qed.

Lemma mqp_leave_all m d : mqp (p_leave_all m d).
Proof. induction d as [|d IH]; cbn [p_leave_all]; [exact I|]. apply mqp_bind; [apply mqp_runlock|intros _; exact IH]. Qed.

(** ** occurrences *)
Lemma occ_xl c q : (occ (xl c) q <= if Z.eqb c q then 1 else 0)%nat.
Proof.
  unfold xl. destruct (c =? 0); [cbn; destruct (c =? q); lia|]. cbn. destruct (Z.eq_dec c q) as [->|Hne].
  - rewrite Z.eqb_refl. lia.
  - lia.
Qed.

Lemma occ_cons c l q : occ (c :: l) q = ((if Z.eqb c q then 1 else 0) + occ l q)%nat.
Proof.
  cbn. destruct (Z.eq_dec c q) as [->|Hne]; [rewrite Z.eqb_refl; reflexivity|].
  destruct (Z.eqb_spec c q); [congruence|reflexivity].
Qed.

Lemma occ_existsb q ps : ((if existsb (Z.eqb q) ps then 1 else 0) <= occ ps q)%nat.
Proof.
  destruct (existsb (Z.eqb q) ps) eqn:E; [|lia]. apply existsb_exists in E. destruct E as (x & Hin & Hx).
  apply Z.eqb_eq in Hx. subst x. apply (count_occ_In Z.eq_dec) in Hin. lia.
Qed.

Lemma held_mk c r x q : occ (held (mkML c r x)) q = (occ c q + occ r q + occ (xl x) q)%nat.
Proof. unfold held. cbn [m_c m_r m_x]. rewrite !count_occ_app. lia. Qed.

Lemma cnt_hold_ev q kd o ok (c : Z) : cntE (is_hold q) [EvAcc kd o ok; EvCli "hold" [c]] = if c =? q then 1%nat else O.
Proof. unfold cntE, is_hold, cli_is. cbn. destruct (c =? q); reflexivity. Qed.

(** ** the container *)
Lemma msafe_search t fuel : forall ch r x (Q : option (Z * list Z) -> ML -> Prop),
  (forall found ch', Q (Some (found, ch')) (mkML ch' r x)) -> (forall l', Q None l') ->
  msafe t (search fuel ch) (mkML ch r x) Q.
Proof.
  induction fuel as [|f IH]; intros ch r x Q HS HN; cbn [search]; [apply HN|].
  apply msafe_act_q; [intros g; apply mq_acc|]. intros v. destruct (vz v =? 0); [apply HS|].
  apply msafe_act_q; [intros g; apply mq_acc|]. intros m. destruct (vz m =? 0); [apply HS|].
  apply msafe_act. intros g. unfold a_unlink. destruct (pg_head g =? vz v); cbn [fst snd vz].
  - destruct (vz m =? 1) eqn:Em.
    + exists (mkML (vz v :: ch) r x). split; [intros q; reflexivity|]. split.
      * intros q. rewrite cnt_hold_ev, !held_mk, occ_cons. cbn. lia.
      * cbn [Z.eqb Pos.eqb andb]. apply IH; assumption.
    + exists (mkML ch r x). split; [intros q; reflexivity|]. split; [intros q; cbn; lia|].
      cbn [Z.eqb Pos.eqb andb]. apply IH; assumption.
  - exists (mkML ch r x). split; [intros q; reflexivity|]. split; [intros q; cbn; lia|].
    cbn [Z.eqb andb]. apply IH; assumption.
Qed.

Lemma msafe_unlink_node t fuel cur mask ch r x (Q : option (bool * list Z) -> ML -> Prop) :
  (forall ch', Q (Some (false, ch')) (mkML ch' r x)) ->
  (forall ch', Q (Some (true, ch')) (mkML ch' r (if mask =? 3 then cur else x))) ->
  (forall l', Q None l') ->
  msafe t (unlink_node fuel cur mask ch) (mkML ch r x) Q.
Proof.
  intros HF HT HN. unfold unlink_node. apply msafe_act. intros g. unfold a_mark.
  destruct (pg_mark g cur =? 0); cbn [fst snd vz].
  2:{ exists (mkML ch r x). split; [intros q; reflexivity|]. split; [intros q; cbn; lia|]. cbn [Z.eqb]. apply HF. }
  set (x' := if mask =? 3 then cur else x).
  assert (K : msafe t
    (if 1 =? 0 then Ret (Some (false, ch))
     else Act (a_unlink cur mask) (fun ok2 =>
            if vz ok2 =? 1 then Ret (Some (true, if mask =? 1 then cur :: ch else ch))
            else pbind (search fuel ch) (fun r0 => match r0 with
                                                   | None => Ret None
                                                   | Some (_, ch') => Ret (Some (true, ch'))
                                                   end))) (mkML ch r x') Q).
  { cbn [Z.eqb]. apply msafe_act. intros g1. unfold a_unlink. destruct (pg_head g1 =? cur); cbn [fst snd vz].
    - destruct (mask =? 1) eqn:E1.
      + exists (mkML (cur :: ch) r x'). split; [intros q; reflexivity|]. split.
        * intros q. rewrite cnt_hold_ev, !held_mk, occ_cons. cbn. lia.
        * cbn [Z.eqb Pos.eqb]. apply HT.
      + exists (mkML ch r x'). split; [intros q; reflexivity|]. split; [intros q; cbn; lia|]. cbn [Z.eqb Pos.eqb]. apply HT.
    - exists (mkML ch r x'). split; [intros q; reflexivity|]. split; [intros q; cbn; lia|]. cbn [Z.eqb].
      apply msafe_bind. apply msafe_search; [|intros l'; cbn; apply HN]. intros found ch'. cbn. apply HT. }
  unfold x' in *. destruct (mask =? 3) eqn:E3.
  - exists (mkML ch r cur). split; [intros q; reflexivity|]. split; [|exact K].
    intros q. rewrite cnt_hold_ev, !held_mk. pose proof (occ_xl cur q). cbn. lia.
  - exists (mkML ch r x). split; [intros q; reflexivity|]. split; [intros q; cbn; lia|exact K].
Qed.

Lemma msafe_remove_try t fuel mask ch r x (Q : rres -> ML -> Prop) :
  (forall ch', Q (RNotFound ch') (mkML ch' r x)) -> (forall ch', Q (RRetry ch') (mkML ch' r x)) ->
  (forall p ch', Q (RDone p ch') (mkML ch' r (if mask =? 3 then p else x))) -> (forall l', Q RFuel l') ->
  msafe t (remove_try fuel mask ch) (mkML ch r x) Q.
Proof.
  intros HNF HR HD HN. unfold remove_try. apply msafe_bind. apply msafe_search; [|intros l'; cbn; apply HN].
  intros cur ch1. destruct (cur =? 0); [cbn; apply HNF|].
  apply msafe_bind. apply msafe_unlink_node; [| |intros l'; cbn; apply HN].
  - intros ch'. cbn. apply HR.
  - intros ch'. cbn. apply HD.
Qed.

Lemma msafe_erase_loop t fuel m n : forall ch r x (Q : option (Z * list Z) -> ML -> Prop),
  (forall p ch', Q (Some (p, ch')) (mkML ch' r x)) -> (forall l', Q None l') ->
  msafe t (erase_loop n fuel m ch) (mkML ch r x) Q.
Proof.
  induction n as [|n IH]; intros ch r x Q HS HN; cbn [erase_loop]; [apply HN|].
  apply msafe_q_then; [apply mqp_rlock|]. intros _.
  apply msafe_bind. apply msafe_remove_try; [| | |intros l'; cbn; apply HN].
  - intros ch'. apply msafe_q_then; [apply mqp_runlock|]. intros _. cbn. apply HS.
  - intros ch'. apply msafe_q_then; [apply mqp_runlock|]. intros _. apply IH; assumption.
  - intros p ch'. cbn [Z.eqb Pos.eqb]. apply msafe_q_then; [apply mqp_runlock|]. intros _. cbn. apply HS.
Qed.

Lemma msafe_extract_loop t fuel n : forall ch r (Q : option (Z * list Z) -> ML -> Prop),
  (forall p ch', Q (Some (p, ch')) (mkML ch' r p)) -> (forall l', Q None l') ->
  msafe t (extract_loop n fuel ch) (mkML ch r 0) Q.
Proof.
  induction n as [|n IH]; intros ch r Q HS HN; cbn [extract_loop]; [apply HN|].
  apply msafe_bind. apply msafe_remove_try; [| | |intros l'; cbn; apply HN].
  - intros ch'. cbn. apply HS.
  - intros ch'. apply IH; assumption.
  - intros p ch'. cbn. apply HS.
Qed.

Lemma msafe_insert_loop t fuel n : forall ch r x (Q : option (Z * list Z) -> ML -> Prop),
  (forall p ch', Q (Some (p, ch')) (mkML ch' r x)) -> (forall l', Q None l') ->
  msafe t (insert_loop n fuel ch) (mkML ch r x) Q.
Proof.
  induction n as [|n IH]; intros ch r x Q HS HN; cbn [insert_loop]; [apply HN|].
  apply msafe_bind. apply msafe_search; [|intros l'; cbn; apply HN].
  intros cur ch1. destruct (cur =? 0); [|cbn; apply HS].
  apply msafe_act_q.
  - intros g. unfold a_link. destruct (pg_head g =? 0); cbn [snd]; [mqs|apply mq_acc].
  - intros v. destruct (vz v =? 0); [apply IH; assumption|cbn; apply HS].
Qed.

(** release(): the released nodes leave the books *)
Lemma msafe_do_release t fuel ps l l' (Q : bool -> ML -> Prop) :
  (forall q, (occ (held l') q + occ ps q <= occ (held l) q)%nat) -> (ps = [] -> l' = l) ->
  Q true l' -> (forall l'', Q false l'') ->
  msafe t (do_release fuel ps) l Q.
Proof.
  intros Ho He HT HF. unfold do_release. destruct ps as [|p ps]; [cbn; rewrite <- (He eq_refl); exact HT|].
  apply msafe_emit with (l' := l').
  - intros q. reflexivity.
  - intros q. specialize (Ho q). pose proof (occ_existsb q (p :: ps)) as X.
    unfold cli, cntE, is_release, is_hold, cli_is. cbn [filter String.eqb Ascii.eqb Bool.eqb andb List.length].
    destruct (existsb (Z.eqb q) (p :: ps)); cbn [List.length] in *; lia.
  - eapply msafe_weaken; [|apply msafe_mqp; apply mqp_do_batch]. intros [|] l'' ->; [exact HT|apply HF].
Qed.

(** ** the client *)
Definition MRelS (s : pst) (l : ML) : Prop := l = mkML [] (s_rpc s) (s_xp s).
Definition QOpM : option pst -> ML -> Prop := fun r l' => match r with Some s' => MRelS s' l' | None => True end.

Lemma msafe_release_ret t fuel ch r x s' :
  s_rpc s' = r -> s_xp s' = x ->
  msafe t (pbind (do_release fuel ch) (fun ok => if ok then Ret (Some s') else Ret None)) (mkML ch r x) QOpM.
Proof.
  intros E1 E2. apply msafe_bind. apply msafe_do_release with (l' := mkML [] r x).
  - intros q. rewrite !held_mk. cbn. lia.
  - intros ->. reflexivity.
  - cbn. unfold MRelS. rewrite E1, E2. reflexivity.
  - intros l''. exact I.
Qed.

Lemma msafe_payload_q {R} t p n (k : pprog R) l Q :
  mq (cli n [p]) -> msafe t k l Q -> msafe t (Act (a_pl_ld p) (fun _ => Emit (cli n [p]) k)) l Q.
Proof. intros Hq Hk. apply msafe_act_q; [intros g; apply mq_acc|]. intros _. apply msafe_emit_q; assumption. Qed.

Section MOps.
  Variables (strict : bool) (fuel : nat) (t : nat).

  Lemma mrun_pop_safe s o l : MRelS s l -> msafe t (run_pop strict fuel t s o) l QOpM.
  Proof.
    intros ->. destruct s as [rec d rpp rpc xp]. cbn [s_rec s_depth s_rpp s_rpc s_xp].
    destruct o; cbn [run_pop s_rec s_depth s_rpp s_rpc s_xp]; unfold outside; cbn [s_rec s_depth s_rpp s_rpc s_xp].
    - (* attach *) destruct rec as [m|]; [reflexivity|].
      apply msafe_q_then; [apply mqp_lift; apply mqp_bquiet; apply bquiet_attach|].
      intros [m|]; [|exact I]. apply msafe_emit_q; [mqs|]. reflexivity.
    - (* detach *) destruct rec as [m|]; [|reflexivity]. destruct d as [|d]; [|reflexivity].
      apply msafe_q_then; [apply mqp_lift; apply mqp_bquiet; apply bquiet_detach|].
      intros _. apply msafe_emit_q; [mqs|]. reflexivity.
    - (* rlock *) destruct rec as [m|]; [|reflexivity]. destruct (depth_ok d); [|reflexivity].
      apply msafe_q_then; [apply mqp_rlock|]. intros _. reflexivity.
    - (* runlock *) destruct rec as [m|]; [|reflexivity]. destruct d as [|d]; [reflexivity|].
      apply msafe_q_then; [apply mqp_runlock|]. intros _. reflexivity.
    - (* insert *) destruct rec as [m|]; [|reflexivity]. destruct (Nat.eqb d 0); [|reflexivity].
      unfold op_insert. apply msafe_q_then; [apply mqp_rlock|]. intros _.
      apply msafe_bind. apply msafe_insert_loop; [|intros l'; exact I]. intros p ch.
      apply msafe_q_then; [apply mqp_runlock|]. intros _. apply msafe_emit_q; [mqs|].
      apply msafe_release_ret; reflexivity.
    - (* find *) destruct rec as [m|]; [|reflexivity]. destruct (Nat.eqb d 0); [|reflexivity].
      unfold op_find. apply msafe_q_then; [apply mqp_rlock|]. intros _.
      apply msafe_bind. apply msafe_search; [|intros l'; exact I]. intros p ch.
      apply msafe_q_then.
      { destruct (p =? 0); [exact I|]. cbn [mqp]. split; [intros g; apply mq_acc|]. intros _. split; [mqs|exact I]. }
      intros _. apply msafe_q_then; [apply mqp_runlock|]. intros _. apply msafe_release_ret; reflexivity.
    - (* get *) destruct (Nat.eqb d 0); [reflexivity|]. unfold op_get. cbn [s_rec s_depth s_rpc s_xp].
      apply msafe_bind. apply msafe_search; [|intros l'; exact I]. intros p ch.
      apply msafe_emit with (l' := mkML [] (ch ++ rpc) xp).
      + intros q. reflexivity.
      + intros q. rewrite !held_mk, count_occ_app. cbn. lia.
      + reflexivity.
    - (* deref *) destruct (Nat.eqb d 0 || (rpp =? 0)); [reflexivity|]. unfold op_deref. cbn [s_rpp].
      apply msafe_payload_q; [mqs|]. reflexivity.
    - (* rp_release *) destruct (Nat.eqb d 0 || negb strict); [|reflexivity]. unfold op_rp_release. cbn [s_rpc s_rec s_depth s_xp].
      apply msafe_bind. apply msafe_do_release with (l' := mkML [] [] xp).
      + intros q. rewrite !held_mk. cbn. lia.
      + intros ->. reflexivity.
      + reflexivity.
      + intros l''. exact I.
    - (* erase *) destruct rec as [m|]; [|reflexivity]. destruct (Nat.eqb d 0); [|reflexivity].
      unfold op_erase. apply msafe_bind. apply msafe_erase_loop; [|intros l'; exact I]. intros p ch.
      apply msafe_emit_q; [mqs|]. apply msafe_release_ret; reflexivity.
    - (* extract *) destruct rec as [m|]; [|reflexivity].
      destruct (Nat.eqb d 0); cbn [andb]; [|reflexivity]. destruct (Z.eqb_spec xp 0) as [->|Hx]; [|reflexivity].
      unfold op_extract. cbn [s_rec s_depth s_rpc s_xp s_rpp].
      apply msafe_q_then; [apply mqp_rlock|]. intros _.
      apply msafe_bind. apply msafe_extract_loop; [|intros l'; exact I]. intros p ch.
      apply msafe_q_then; [apply mqp_runlock|]. intros _. apply msafe_emit_q; [mqs|].
      apply msafe_release_ret; reflexivity.
    - (* xderef *) destruct (Z.eqb_spec xp 0) as [->|Hx]; [reflexivity|]. unfold op_xderef. cbn [s_xp].
      apply msafe_act_q; [intros g; apply mq_acc|]. intros _.
      cbn [Conc.safe]. intros g a tr HI Hv. exists a. split; [|split; [intros ? ?; reflexivity|rewrite Hv; reflexivity]].
      destruct HI as (H1 & H2). split.
      + intros t0 q. rewrite !cnt_app, !cnt_tag. specialize (H1 t0 q). destruct (Nat.eqb t t0); [|lia].
        assert (E1 : cntE (is_release q) (cli "xtouch" [xp]) = O) by reflexivity.
        assert (E2 : cntE (is_hold q) (cli "xtouch" [xp]) = O) by reflexivity. rewrite E1, E2. lia.
      + intros x t0 p Hat. apply at_tag_inv in Hat. destruct Hat as [Hat|(-> & j & e & Hn & -> & HP)].
        * pose proof (at_lt _ _ _ _ Hat) as L. rewrite firstn_app_le by lia. apply H2; exact Hat.
        * destruct j as [|j]; [|cbn in Hn; destruct j; discriminate]. cbn in Hn. inversion Hn; subst e.
          unfold is_xtouch, cli_is in HP. cbn in HP. apply Z.eqb_eq in HP. subst p.
          rewrite Nat.add_0_r, firstn_app_le, firstn_all by lia.
          specialize (H1 t xp). unfold mview in Hv. rewrite Hv, held_mk in H1. unfold xl in H1.
          destruct (Z.eqb_spec xp 0); [congruence|]. cbn in H1. destruct (Z.eq_dec xp xp); [|congruence]. lia.
    - (* xp_release *) destruct (Z.eqb_spec xp 0) as [->|Hx]; [reflexivity|].
      destruct (Nat.eqb d 0 || negb strict); [|reflexivity]. unfold op_xp_release. cbn [s_rpc s_rec s_depth s_xp s_rpp].
      apply msafe_bind. apply msafe_do_release with (l' := mkML [] rpc 0).
      + intros q. rewrite !held_mk. unfold xl. destruct (Z.eqb_spec xp 0); [congruence|]. cbn. lia.
      + discriminate.
      + reflexivity.
      + intros l''. exact I.
  Qed.

  Lemma mp_finish_safe s l : MRelS s l -> msafe t (p_finish fuel s) l (@Conc.QTrue ML).
  Proof.
    intros ->. destruct s as [rec d rpp rpc xp]. unfold p_finish. cbn [s_rec s_depth s_rpp s_rpc s_xp].
    apply msafe_q_then; [destruct rec; [apply mqp_leave_all|exact I]|]. intros _.
    assert (X : forall l3, msafe t (match rec with
                           | Some m => pbind (lift (detach m)) (fun _ => Emit (cli "detach" []) (Ret tt))
                           | None => Ret tt end) l3 (@Conc.QTrue ML)).
    { intros l3. destruct rec as [m|]; [|exact I]. apply msafe_q_then; [apply mqp_lift; apply mqp_bquiet; apply bquiet_detach|].
      intros _. apply msafe_emit_q; [mqs|exact I]. }
    apply msafe_bind. apply msafe_do_release with (l' := mkML [] [] xp).
    - intros q. rewrite !held_mk. cbn. lia.
    - intros ->. reflexivity.
    - apply msafe_bind. destruct (Z.eqb_spec xp 0) as [E|E]; [cbn; apply X|].
      apply msafe_do_release with (l' := mkML [] [] 0).
      + intros q. rewrite !held_mk. unfold xl. destruct (Z.eqb_spec xp 0); [congruence|]. cbn. lia.
      + discriminate.
      + apply X.
      + intros l''. apply msafe_emit_q; [mqs|exact I].
    - intros l''. apply msafe_emit_q; [mqs|exact I].
  Qed.

  Lemma mrun_pops_safe os : forall s l, MRelS s l -> msafe t (run_pops strict fuel t s os) l (@Conc.QTrue ML).
  Proof.
    induction os as [|o r IH]; intros s l HR; cbn [run_pops].
    - apply mp_finish_safe; exact HR.
    - apply msafe_bind. eapply msafe_weaken; [|apply mrun_pop_safe; exact HR].
      intros [s'|] l' HQ; cbn in HQ.
      + apply IH; exact HQ.
      + apply msafe_emit_q; [mqs|exact I].
  Qed.
End MOps.

Definition ml0 : ML := mkML [] [] 0.

Lemma mpthread_safe strict fuel t os : msafe t (pthread strict fuel t os) ml0 (@Conc.QTrue ML).
Proof.
  unfold pthread. apply msafe_act_q; [intros g; apply mq_acc|]. intros _. apply mrun_pops_safe. reflexivity.
Qed.

Lemma mpinit_ok strict fuel ths : Conc.cfg_ok mview MInv (pinit_cfg strict fuel ths).
Proof.
  exists (fun _ => ml0). split.
  - cbn [pinit_cfg Conc.shared Conc.trace]. split.
    + intros t q. cbn. lia.
    + intros x t p (e & H & _). destruct x; discriminate.
  - intros t p Hp. cbn [pinit_cfg Conc.threads] in Hp. rewrite nth_error_map in Hp.
    destruct (nth_error (number O ths) t) as [x|] eqn:E; [|discriminate]. inversion Hp; subst p.
    apply RcuGpSafe.nth_error_number in E. cbn in E. rewrite E. unfold mview. apply mpthread_safe.
Qed.

(** for every schedule, every fuel, strict or not: when a thread dereferences its exempt_ptr ("xtouch p") it has emitted
    strictly more "hold p" events than "release" events naming p *)
Theorem ptr_xtouch_paid_all strict fuel ths c :
  Conc.reach (pinit_cfg strict fuel ths) c -> xt_ok (Conc.trace c).
Proof. intros Hr. destruct (Conc.reach_Inv (mpinit_ok strict fuel ths) Hr) as (a & _ & H). exact H. Qed.
