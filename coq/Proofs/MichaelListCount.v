(** * MichaelListCount: the item counter of the MichaelList model ( atomicity::item_counter, variant 3 ).

    m_ItemCounter is incremented after the linearization point of an insert (after link_node succeeded) and
    decremented after that of an erase.  Invariant [InvC] = [Inv2] + "the counter equals the number of items that the
    COMPLETED operations of the history have put into the set ([HG]: +1 for an insert / inserting update that returned
    true, -1 for an erase / unlink / extract that returned true) plus the counter accesses of the operations in
    progress" ([e_cnt t]: what thread [t] has added to the counter since its invocation; ghost, part of its view).
    Like [J] in MichaelListFromActs the new part is maintained generically: a rule of the [Inv2] development, used with
    the trivial continuation, is a one-step specification that [safeC_act] / the emit rules lift to [InvC].

    Pure part ([lp_size]): in a valid LP-annotated trace the size of the abstract set is [HG] of its history plus the
    gains of the operations that are linearized and have not responded yet. *)
From Coq Require Import ZArith List String Bool Lia PeanoNat.
From LV Require Import Base.Conc Base.Events Base.Lin Spec.Specs Proofs.LinProofs.
From LV Require Import Model.MichaelList Proofs.MichaelListBase Proofs.MichaelListInv Proofs.MichaelListSteps
                       Proofs.MichaelListLin Proofs.MichaelListActs Proofs.MichaelListProofs Proofs.MichaelListFullInv
                       Proofs.MichaelListFullActs.
Import ListNotations.
Local Open Scope Z_scope.

(** ** sums over a duplicate-free list of thread ids *)
Fixpoint sumf (l : list nat) (f : nat -> Z) : Z :=
  match l with [] => 0 | x :: r => f x + sumf r f end.
Definition updz (f : nat -> Z) (t : nat) (x : Z) : nat -> Z := fun u => if Nat.eqb u t then x else f u.

Lemma sumf_ext l f f' : (forall x, In x l -> f' x = f x) -> sumf l f' = sumf l f.
Proof.
  induction l as [|y l IH]; intros H; cbn [sumf]; [reflexivity|].
  rewrite (H y (or_introl eq_refl)), IH; [reflexivity|]. intros x Hx. apply H. right; exact Hx.
Qed.
Lemma sumf_upd_notin l f t x : ~ In t l -> sumf l (updz f t x) = sumf l f.
Proof.
  intros H. apply sumf_ext. intros y Hy. unfold updz. destruct (Nat.eqb_spec y t); [subst; contradiction|reflexivity].
Qed.
Lemma sumf_upd_in l f t x : NoDup l -> In t l -> sumf l (updz f t x) = sumf l f - f t + x.
Proof.
  induction l as [|y l IH]; intros Hnd Hin; [destruct Hin|]. inversion Hnd; subst. cbn [sumf].
  destruct Hin as [->|Hin].
  - rewrite sumf_upd_notin by assumption. unfold updz. rewrite Nat.eqb_refl. lia.
  - rewrite IH by assumption. unfold updz at 1. destruct (Nat.eqb_spec y t); [subst; contradiction|]. lia.
Qed.
Lemma sumf_zero l f : (forall x, In x l -> f x = 0) -> sumf l f = 0.
Proof. induction l as [|y l IH]; intros H; cbn [sumf]; [reflexivity|]. rewrite H, IH; auto. intros; apply H; right; auto. left; auto. Qed.

(** ** the gain of a completed operation, of a history *)
Definition gain (o : set_op) (r : res) : Z :=
  match o, r with
  | SInsert _, RBool true => 1
  | SUpdate _ _, RPair _ true => 1
  | SErase _, RBool true => -1
  | _, _ => 0
  end.
Definition gain_st (s : status SetSpec) : Z := match s with Linearized o r => gain o r | _ => 0 end.

Definition hg_step (acc : hist * Z) (e : hev SetSpec) : hist * Z :=
  let (h, z) := acc in
  (h ++ [e], match e with
             | HRes t r => z + match last_inv_op t h None with Some o => gain o r | None => 0 end
             | HInv _ _ => z
             end).
Definition HG (h : hist) : Z := snd (fold_left hg_step h ([], 0)).

Lemma hg_fst : forall h h0 z, fst (fold_left hg_step h (h0, z)) = h0 ++ h.
Proof.
  induction h as [|e h IH]; intros h0 z; cbn [fold_left]; [now rewrite app_nil_r|].
  unfold hg_step at 2. rewrite IH, <- app_assoc. reflexivity.
Qed.

Lemma HG_snoc h e :
  HG (h ++ [e]) = match e with
                  | HRes t r => HG h + match last_inv_op t h None with Some o => gain o r | None => 0 end
                  | HInv _ _ => HG h
                  end.
Proof.
  unfold HG. rewrite fold_left_app. cbn [fold_left].
  remember (fold_left hg_step h ([], 0)) as p eqn:Ep.
  assert (Hf : fst p = h) by (subst p; apply (hg_fst h [] 0)).
  destruct p as [h' z]. cbn [fst] in Hf. subst h'. unfold hg_step. cbn [snd].
  destruct e; reflexivity.
Qed.

Definition hev_tid (e : hev SetSpec) : nat := match e with HInv u _ => u | HRes u _ => u end.

Lemma last_inv_op_skip t u o X Y acc : u <> t ->
  last_inv_op t (X ++ @HInv SetSpec u o :: Y) acc = last_inv_op t (X ++ Y) acc.
Proof.
  intros Hne. rewrite !last_inv_op_app. cbn [last_inv_op]. destruct (Nat.eqb_spec u t); [contradiction|reflexivity].
Qed.

(** deleting an invocation that nothing after it refers to *)
Lemma HG_remove_inv X t o : forall Y, (forall e, In e Y -> hev_tid e <> t) ->
  HG (X ++ @HInv SetSpec t o :: Y) = HG (X ++ Y).
Proof.
  induction Y as [|e Y IH] using rev_ind; intros HY.
  - rewrite app_nil_r. change (X ++ [@HInv SetSpec t o]) with (X ++ [@HInv SetSpec t o]). rewrite HG_snoc. reflexivity.
  - assert (HY' : forall x, In x Y -> hev_tid x <> t) by (intros x Hx; apply HY; apply in_or_app; left; exact Hx).
    assert (He : hev_tid e <> t) by (apply HY; apply in_or_app; right; left; reflexivity).
    replace (X ++ @HInv SetSpec t o :: Y ++ [e]) with ((X ++ @HInv SetSpec t o :: Y) ++ [e]) by (rewrite <- app_assoc; reflexivity).
    replace (X ++ Y ++ [e]) with ((X ++ Y) ++ [e]) by (rewrite <- app_assoc; reflexivity).
    rewrite !HG_snoc, (IH HY'). destruct e as [u o'|u r]; [reflexivity|]. cbn [hev_tid] in He.
    rewrite (last_inv_op_skip u t o X Y None) by congruence. reflexivity.
Qed.

(** ** the size of the abstract set *)
Lemma gain_step S o : Z.of_nat (List.length (fst (set_step S o))) = Z.of_nat (List.length S) + gain o (snd (set_step S o)) \/
                      (exists k, o = SErase k /\ zmem k S = true) \/ o = SExtractMin \/ o = SExtractMax.
Proof.
  destruct o as [k|k|k|k al| |]; cbn [set_step]; auto.
  - destruct (zmem k S); cbn [fst snd gain List.length]; left; lia.
  - destruct (zmem k S) eqn:E; [right; left; eauto|left; cbn; lia].
  - left. cbn. lia.
  - destruct (zmem k S); [left; cbn; lia|]. destruct al; left; cbn [fst snd gain List.length]; lia.
Qed.

(** the abstract set of the list never holds a key twice *)
Fixpoint znodup (l : list Z) : Prop := match l with [] => True | x :: r => zmem x r = false /\ znodup r end.

Lemma zmem_zdel_other k k' S : zmem k (zdel k' S) = true -> zmem k S = true.
Proof. intros H. apply zmem_zdel in H. tauto. Qed.

Lemma znodup_zdel k S : znodup S -> znodup (zdel k S).
Proof.
  induction S as [|x S IH]; intros H; cbn [zdel filter]; [exact I|]. destruct H as [H1 H2]. fold (zdel k S).
  destruct (negb (Z.eqb k x)); [|apply IH; exact H2]. cbn [znodup]. split; [|apply IH; exact H2].
  destruct (zmem x (zdel k S)) eqn:E; auto. apply zmem_zdel_other in E. congruence.
Qed.

Lemma zdel_length k S : znodup S -> zmem k S = true -> Z.of_nat (List.length (zdel k S)) = Z.of_nat (List.length S) - 1.
Proof.
  induction S as [|x S IH]; intros Hnd Hm; [discriminate|]. destruct Hnd as [H1 H2].
  cbn [zdel filter]. fold (zdel k S). cbn [zmem existsb] in Hm. fold (zmem k S) in Hm.
  destruct (Z.eqb_spec k x) as [->|Hne]; cbn [negb].
  - (* x is deleted; it does not occur in S *)
    assert (E : zdel x S = S).
    { clear -H1. induction S as [|y S IH]; [reflexivity|]. cbn [zmem existsb] in H1. apply orb_false_iff in H1. destruct H1 as [Hy Hs].
      cbn [zdel filter]. rewrite Hy. cbn [negb]. f_equal. apply IH. exact Hs. }
    rewrite E. cbn [List.length]. lia.
  - cbn [orb] in Hm. cbn [List.length]. rewrite !Nat2Z.inj_succ. rewrite IH; auto. lia.
Qed.

Lemma set_step_nodup S o : (match o with SExtractMin | SExtractMax => False | _ => True end) ->
  znodup S -> znodup (fst (set_step S o)) /\
              Z.of_nat (List.length (fst (set_step S o))) = Z.of_nat (List.length S) + gain o (snd (set_step S o)).
Proof.
  intros Ho Hnd. destruct o as [k|k|k|k al| |]; cbn [set_step]; try contradiction.
  - destruct (zmem k S) eqn:E; cbn [fst snd gain]; [split; [exact Hnd|lia]|]. split; [split; assumption|cbn [List.length]; lia].
  - destruct (zmem k S) eqn:E; cbn [fst snd gain]; [|split; [exact Hnd|lia]].
    split; [apply znodup_zdel; exact Hnd|]. rewrite zdel_length by assumption. lia.
  - cbn. split; [exact Hnd|lia].
  - destruct (zmem k S) eqn:E; cbn [fst snd gain]; [split; [exact Hnd|lia]|].
    destruct al; cbn [fst snd gain]; [split; [split; assumption|cbn [List.length]; lia]|split; [exact Hnd|lia]].
Qed.

Definition no_extract (atr : list (aev SetSpec)) : Prop :=
  forall t o, In (@AInv SetSpec t o) atr -> match o with SExtractMin | SExtractMax => False | _ => True end.

Definition st_ok (st : nat -> status SetSpec) : Prop :=
  forall t, match st t with
            | Pending o | Linearized o _ => match o with SExtractMin | SExtractMax => False | _ => True end
            | Idle => True
            end.

Lemma lp_size : forall (atr : list (aev SetSpec)) S st,
  lp_run lp_init atr = Some (S, st) -> no_extract atr ->
  st_ok st /\ znodup S /\
  forall l, NoDup l -> (forall t, st t <> @Idle SetSpec -> In t l) ->
            Z.of_nat (List.length S) = HG (erase atr) + sumf l (fun t => gain_st (st t)).
Proof.
  induction atr as [|e atr IH] using rev_ind; intros S st Hr Hne.
  - cbn in Hr. inversion Hr; subst. split; [intros t; exact I|]. split; [exact I|].
    intros l _ _. cbn. rewrite sumf_zero; [reflexivity|]. intros; reflexivity.
  - rewrite lp_run_app in Hr. destruct (lp_run lp_init atr) as [[S0 st0]|] eqn:E0; [|discriminate].
    assert (Hne0 : no_extract atr) by (intros t o Hin; apply (Hne t o); apply in_or_app; left; exact Hin).
    destruct (IH S0 st0 eq_refl Hne0) as (Hok0 & Hnd0 & Hsz0). cbn [lp_run] in Hr.
    destruct (lp_step (S0, st0) e) as [c1|] eqn:E1; [|discriminate]. inversion Hr; subst c1; clear Hr.
    rewrite erase_app.
    destruct e as [u o|u|u r]; cbn [lp_step] in E1; cbn [erase].
    + (* invocation *)
      destruct (st0 u) eqn:Eu; try discriminate. inversion E1; subst S st; clear E1.
      split; [|split; [exact Hnd0|]].
      * intros t. unfold upd. destruct (Nat.eqb_spec t u) as [->|]; [|apply Hok0].
        apply (Hne u o). apply in_or_app. right. left. reflexivity.
      * intros l Hl Hin. rewrite HG_snoc. rewrite (Hsz0 l Hl).
        -- f_equal. apply sumf_ext. intros x _. unfold upd. destruct (Nat.eqb_spec x u) as [->|]; [rewrite Eu; reflexivity|reflexivity].
        -- intros t Ht. apply Hin. unfold upd. destruct (Nat.eqb_spec t u) as [->|]; [discriminate|exact Ht].
    + (* linearization point *)
      destruct (st0 u) as [|o0|] eqn:Eu; try discriminate. inversion E1; subst S st; clear E1.
      pose proof (Hok0 u) as Hou. rewrite Eu in Hou.
      destruct (set_step_nodup S0 o0 Hou Hnd0) as [Hnd1 Hlen].
      split; [|split; [exact Hnd1|]].
      * intros t. unfold upd. destruct (Nat.eqb_spec t u) as [->|]; [exact Hou|apply Hok0].
      * intros l Hl Hin. rewrite app_nil_r. cbn [sstep SetSpec] in *.
        assert (Hul : In u l) by (apply Hin; unfold upd; rewrite Nat.eqb_refl; discriminate).
        change (fun t => gain_st (upd st0 u (Linearized o0 (snd (set_step S0 o0))) t))
          with (fun t => gain_st (upd st0 u (@Linearized SetSpec o0 (snd (set_step S0 o0))) t)).
        rewrite (sumf_ext l (updz (fun t => gain_st (st0 t)) u (gain o0 (snd (set_step S0 o0)))) _).
        2: { intros x _. unfold upd, updz. destruct (Nat.eqb x u); reflexivity. }
        rewrite sumf_upd_in by assumption. rewrite Eu. cbn [gain_st].
        rewrite Hlen, (Hsz0 l Hl); [lia|].
        intros t Ht. apply Hin. unfold upd. destruct (Nat.eqb_spec t u) as [->|]; [discriminate|exact Ht].
    + (* response *)
      destruct (st0 u) as [| |o0 r0] eqn:Eu; try discriminate. destruct (res_eqb SetSpec r r0) eqn:Er; try discriminate.
      inversion E1; subst S st; clear E1.
      assert (Err : r = r0).
      { clear -Er. destruct r, r0; cbn in Er; try discriminate; try reflexivity.
        - apply Bool.eqb_prop in Er. congruence.
        - destruct v, v0; cbn in Er; try discriminate; try reflexivity. apply Z.eqb_eq in Er. congruence.
        - apply andb_true_iff in Er. destruct Er as [E1 E2]. apply Bool.eqb_prop in E1. apply Bool.eqb_prop in E2. congruence. }
      subst r0.
      split; [|split; [exact Hnd0|]].
      * intros t. unfold upd. destruct (Nat.eqb_spec t u) as [->|]; [exact I|apply Hok0].
      * intros l Hl Hin. rewrite HG_snoc.
        destruct (MichaelListLin.lp_open_split _ _ _ u o0 E0) as (A & B & EA & HB & _); [rewrite Eu; reflexivity|].
        destruct (erase_split_last u o0 A B HB) as [K1 _]. rewrite <- EA in K1. rewrite K1.
        (* a list that also contains u *)
        destruct (in_dec Nat.eq_dec u l) as [Hul|Hul].
        -- rewrite (sumf_ext l (updz (fun t => gain_st (st0 t)) u 0) _).
           2: { intros x _. unfold upd, updz. destruct (Nat.eqb x u); reflexivity. }
           rewrite sumf_upd_in by assumption. rewrite Eu. cbn [gain_st].
           rewrite (Hsz0 l Hl); [lia|].
           intros t Ht. destruct (Nat.eq_dec t u) as [->|Hn]; [exact Hul|]. apply Hin. unfold upd. destruct (Nat.eqb_spec t u); [contradiction|exact Ht].
        -- rewrite (sumf_ext l (fun t => gain_st (st0 t)) _).
           2: { intros x Hx. unfold upd. destruct (Nat.eqb_spec x u) as [->|]; [contradiction|reflexivity]. }
           assert (Hl' : NoDup (u :: l)) by (constructor; assumption).
           rewrite (Hsz0 (u :: l) Hl').
           ++ cbn [sumf]. rewrite Eu. cbn [gain_st]. lia.
           ++ intros t Ht. destruct (Nat.eq_dec t u) as [->|Hn]; [left; reflexivity|right]. apply Hin. unfold upd. destruct (Nat.eqb_spec t u); [contradiction|exact Ht].
Qed.

(** ** the wrapper: ghost counter contributions *)
Record aux5 := mkAux5 { e_base : aux2; e_cnt : nat -> Z; e_ids : list nat }.
Definition lview5 := (lview2 * Z)%type.
Definition view5 (a : aux5) (t : nat) : lview5 := (view2 (e_base a) t, e_cnt a t).

Definition KC (a : aux5) (g : G) (tr : list (nat * ev)) : Prop :=
  NoDup (e_ids a) /\ (forall t, ~ In t (e_ids a) -> e_cnt a t = 0) /\
  count g = HG (full_hist tr) + sumf (e_ids a) (e_cnt a) /\
  (forall t, lv_st (fst (view2 (e_base a) t)) = @Idle SetSpec -> e_cnt a t = 0).

Definition InvC (g : G) (a : aux5) (tr : list (nat * ev)) : Prop := Inv2 g (e_base a) tr /\ KC a g tr.

Notation safe2 := (@Conc.safe G V ev aux2 lview2 view2 Inv2).
Notation safeC := (@Conc.safe G V ev aux5 lview5 view5 InvC).

Definition mk5 (a : aux5) (t : nat) (a2' : aux2) (c' : Z) : aux5 :=
  mkAux5 a2' (updz (e_cnt a) t c') (if in_dec Nat.eq_dec t (e_ids a) then e_ids a else t :: e_ids a).

Lemma InvC_step g g' a t l c a2' tr es c' :
  InvC g a tr -> view5 a t = (l, c) ->
  Inv2 g' a2' (tr ++ Conc.tag t es) -> Conc.frame view2 t (e_base a) a2' ->
  count g' - HG (full_hist (tr ++ Conc.tag t es)) = count g - HG (full_hist tr) + (c' - c) ->
  (lv_st (fst (view2 a2' t)) = @Idle SetSpec -> c' = 0) ->
  InvC g' (mk5 a t a2' c') (tr ++ Conc.tag t es) /\ Conc.frame view5 t a (mk5 a t a2' c') /\
  view5 (mk5 a t a2' c') t = (view2 a2' t, c').
Proof.
  intros [HI (Hnd & Hout & Hcnt & Hidle)] Hv HI' Hfr Hc Hi.
  assert (Ec : e_cnt a t = c) by (unfold view5 in Hv; inversion Hv; reflexivity).
  split; [|split].
  - split; [exact HI'|]. unfold KC, mk5; cbn [e_base e_cnt e_ids].
    destruct (in_dec Nat.eq_dec t (e_ids a)) as [Hin|Hin].
    + split; [exact Hnd|]. split.
      * intros u Hu. unfold updz. destruct (Nat.eqb_spec u t) as [->|]; [contradiction|apply Hout; exact Hu].
      * split; [rewrite sumf_upd_in by assumption; lia|].
        intros u Hu. unfold updz. destruct (Nat.eqb_spec u t) as [->|Hne]; [apply Hi; exact Hu|].
        apply Hidle. rewrite <- (Hfr u Hne). exact Hu.
    + split; [constructor; assumption|]. split.
      * intros u Hu. unfold updz. destruct (Nat.eqb_spec u t) as [->|]; [exfalso; apply Hu; left; reflexivity|].
        apply Hout. intros Hx. apply Hu. right. exact Hx.
      * split.
        -- cbn [sumf]. rewrite sumf_upd_notin by assumption. unfold updz. rewrite Nat.eqb_refl.
           rewrite (Hout t Hin) in Ec. lia.
        -- intros u Hu. unfold updz. destruct (Nat.eqb_spec u t) as [->|Hne]; [apply Hi; exact Hu|].
           apply Hidle. rewrite <- (Hfr u Hne). exact Hu.
  - intros u Hu. unfold view5, mk5; cbn [e_base e_cnt]. rewrite (Hfr u Hu). unfold updz. destruct (Nat.eqb_spec u t); [contradiction|reflexivity].
  - unfold view5, mk5; cbn [e_base e_cnt]. unfold updz. rewrite Nat.eqb_refl. reflexivity.
Qed.

Definition is_acc (e : ev) : Prop := match e with EvAcc _ _ _ => True | _ => False end.

Lemma full_hist_acc tr t es : Forall is_acc es -> full_hist (tr ++ Conc.tag t es) = full_hist tr.
Proof.
  intros H. unfold full_hist. rewrite fold_left_app. f_equal.
  generalize (fold_left fstep tr (([], []) : fstate)). induction H as [|e es He _ IH]; intros s; cbn [Conc.tag map fold_left]; [reflexivity|].
  rewrite <- (IH s) at 2. f_equal. destruct s as [out pend]. destruct e; [reflexivity|contradiction].
Qed.

Lemma safeC_act {R} t (f : act) (k : V -> prog R) l c dc (P : V -> lview2 -> Prop) Q :
  safe2 t (Act f (fun v => Ret v)) l P ->
  (forall g, count (fst (fst (f g))) = count g + dc /\ Forall is_acc (snd (f g))) ->
  (forall v l', P v l' -> lv_st (fst l') = @Idle SetSpec -> lv_st (fst l) = @Idle SetSpec /\ dc = 0) ->
  (forall v l', P v l' -> safeC t (k v) (l', c + dc) Q) ->
  safeC t (Act f k) (l, c) Q.
Proof.
  intros Hstep Hf Hi Hk. cbn [Conc.safe] in *. intros g a tr HI Hv.
  assert (Hv2 : view2 (e_base a) t = l) by (unfold view5 in Hv; inversion Hv; reflexivity).
  destruct HI as [HI2 HK]. destruct (Hstep g (e_base a) tr HI2 Hv2) as (a2' & HI' & Hfr & HP).
  destruct (Hf g) as [Hcnt Hacc].
  destruct (InvC_step g _ a t l c a2' tr _ (c + dc) (conj HI2 HK) Hv HI' Hfr) as (K1 & K2 & K3).
  - rewrite (full_hist_acc _ _ _ Hacc). lia.
  - intros Hidle. destruct (Hi _ _ HP Hidle) as [Hl ->].
    destruct HK as (_ & _ & _ & Hz). specialize (Hz t). rewrite Hv2 in Hz. specialize (Hz Hl).
    unfold view5 in Hv. inversion Hv. lia.
  - exists (mk5 a t a2' (c + dc)). split; [exact K1|]. split; [exact K2|]. rewrite K3. apply Hk. exact HP.
Qed.

(** ** the rules *)
Lemma obs_st_idle o ob s : obs_st o ob s = @Idle SetSpec -> s = @Idle SetSpec.
Proof. destruct ob as [b|]; cbn [obs_st]; auto. unfold lin_read. destruct (obs_res o b); [discriminate|auto]. Qed.
Lemma lin_read_idle o b s : lin_read o b s = @Idle SetSpec -> s = @Idle SetSpec.
Proof. unfold lin_read. destruct (obs_res o b); [discriminate|auto]. Qed.

Ltac solveI := intros; cbn [fst snd lv_st] in *;
  repeat match goal with
         | H : _ /\ _ |- _ => destruct H
         | H : _ \/ _ |- _ => destruct H
         | H : exists _, _ |- _ => destruct H
         end; subst; cbn [fst snd lv_st] in *;
  try (split; [|reflexivity]); try discriminate; try congruence;
  try (eapply obs_st_idle; eassumption); auto.

Lemma cas_cnt l ep np nm g : count (fst (fst (a_cas l ep np nm g))) = count g + 0 /\ Forall is_acc (snd (a_cas l ep np nm g)).
Proof.
  unfold a_cas, rd. destruct (Nat.eqb (nnext (heap g l)) ep && negb (nmark (heap g l))); cbn [fst snd wr count];
    (split; [lia|repeat constructor]).
Qed.

Lemma safeC_nop {R} t kd ob (k : V -> prog R) l c Q :
  safeC t (k v0) (l, c) Q -> safeC t (Act (a_nop kd ob) k) (l, c) Q.
Proof.
  intros Hk. destruct l as [lv cd]. eapply safeC_act with (dc := 0) (P := fun v l' => v = v0 /\ l' = (lv, cd)).
  - apply safe2_neutral with (v := v0); [apply neutral_nop|]. cbn [Conc.safe]. auto.
  - intros g. unfold a_nop. cbn [fst snd]. split; [lia|repeat constructor].
  - solveI.
  - intros v l' [-> ->]. rewrite Z.add_0_r. exact Hk.
Qed.

Lemma safeC_begin {R} t (k : V -> prog R) l c Q :
  safeC t (k v0) (l, c) Q -> safeC t (Act a_begin k) (l, c) Q.
Proof.
  intros Hk. destruct l as [lv cd]. eapply safeC_act with (dc := 0) (P := fun v l' => v = v0 /\ l' = (lv, cd)).
  - apply safe2_neutral with (v := v0); [apply neutral_begin|]. cbn [Conc.safe]. auto.
  - intros g. unfold a_begin. cbn [fst snd]. split; [lia|repeat constructor].
  - solveI.
  - intros v l' [-> ->]. rewrite Z.add_0_r. exact Hk.
Qed.

(** the counter access: the thread is inside an operation *)
Lemma safeC_cnt {R} t kd d (k : V -> prog R) lv cd c Q :
  lv_st lv <> @Idle SetSpec ->
  safeC t (k v0) (lv, cd, c + d) Q -> safeC t (Act (a_cnt kd d) k) (lv, cd, c) Q.
Proof.
  intros Hst Hk. eapply safeC_act with (dc := d) (P := fun v l' => v = v0 /\ l' = (lv, cd)).
  - apply safe2_neutral with (v := v0); [apply neutral_cnt|]. cbn [Conc.safe]. auto.
  - intros g. unfold a_cnt. cbn [fst snd count]. split; [lia|repeat constructor].
  - intros v l' [-> ->] Hi. cbn [fst] in Hi. contradiction.
  - intros v l' [-> ->]. exact Hk.
Qed.

Lemma safeC_ld {R} t l ck kp o (k : V -> prog R) lv cd c Q :
  cell_key (lv_facts lv) l ck -> known_ptr (lv_facts lv) kp -> open_read (lv_st lv) o ->
  (forall v, (l = 0%nat -> vmark v = false) ->
             safeC t (k v) (mkLV (newfacts l v ++ lv_facts lv) (lv_own lv)
                                 (obs_st o (obs_rule ck kp (op_key o) v) (lv_st lv)), cd, c) Q) ->
  safeC t (Act (a_ld l) k) (lv, cd, c) Q.
Proof.
  intros Hck Hkp Hop Hk.
  eapply safeC_act with (dc := 0)
    (P := fun v l' => (l = 0%nat -> vmark v = false) /\
                      l' = (mkLV (newfacts l v ++ lv_facts lv) (lv_own lv) (obs_st o (obs_rule ck kp (op_key o) v) (lv_st lv)), cd)).
  - eapply safe2_ld; [exact Hck|exact Hkp|exact Hop|]. intros v Hv. cbn [Conc.safe]. auto.
  - intros g. unfold a_ld, rd. cbn [fst snd]. split; [lia|repeat constructor].
  - solveI.
  - intros v l' [H0 ->]. rewrite Z.add_0_r. apply Hk. exact H0.
Qed.

Lemma safeC_cas_unlink {R} t m cc nx (k : V -> prog R) lv cd c Q :
  ppub (lv_facts lv) m -> In (FFrozen cc nx) (lv_facts lv) ->
  safeC t (k (vok true)) (lv, cd, c) Q -> safeC t (k (vok false)) (lv, cd, c) Q ->
  safeC t (Act (a_cas m cc nx false) k) (lv, cd, c) Q.
Proof.
  intros Hm Hfz Hk1 Hk0.
  eapply safeC_act with (dc := 0) (P := fun v l' => (v = vok true \/ v = vok false) /\ l' = (lv, cd)).
  - apply safe2_cas_unlink; auto; cbn [Conc.safe]; auto.
  - intros g. apply cas_cnt.
  - solveI.
  - intros v l' [[-> | ->] ->]; rewrite Z.add_0_r; assumption.
Qed.

Lemma safeC_cas_help {R} t m cc nx o (k : V -> prog R) lv cd c Q :
  ppub (lv_facts lv) m -> klt (lv_facts lv) m (op_key o) -> In (FFrozen cc nx) (lv_facts lv) -> open_read (lv_st lv) o ->
  safeC t (k (vok true)) (mkLV (lv_facts lv) (lv_own lv) (if Nat.eqb nx 0 then lin_read o false (lv_st lv) else lv_st lv), cd, c) Q ->
  safeC t (k (vok false)) (lv, cd, c) Q ->
  safeC t (Act (a_cas m cc nx false) k) (lv, cd, c) Q.
Proof.
  intros Hm Hkl Hfz Hop Hk1 Hk0.
  eapply safeC_act with (dc := 0)
    (P := fun v l' => (v = vok true /\ l' = (mkLV (lv_facts lv) (lv_own lv) (if Nat.eqb nx 0 then lin_read o false (lv_st lv) else lv_st lv), cd))
                      \/ (v = vok false /\ l' = (lv, cd))).
  - eapply safe2_cas_help with (o := o); auto; cbn [Conc.safe]; auto.
  - intros g. apply cas_cnt.
  - intros v l' [[-> ->]|[-> ->]] Hi; cbn [fst lv_st] in *; (split; [|reflexivity]); auto.
    destruct (Nat.eqb nx 0); [eapply lin_read_idle; eassumption|exact Hi].
  - intros v l' [[-> ->]|[-> ->]]; rewrite Z.add_0_r; assumption.
Qed.

Lemma safeC_cas_mark {R} t cc kc nx (k : V -> prog R) lv cd c Q :
  In (FPub cc kc) (lv_facts lv) -> open_read (lv_st lv) (SErase kc) ->
  safeC t (k (vok true)) (mkLV (FFrozen cc nx :: lv_facts lv) (lv_own lv) (@Linearized SetSpec (SErase kc) (RBool true)), cd, c) Q ->
  safeC t (k (vok false)) (lv, cd, c) Q ->
  safeC t (Act (a_cas cc nx nx true) k) (lv, cd, c) Q.
Proof.
  intros Hc Hst Hk1 Hk0.
  eapply safeC_act with (dc := 0)
    (P := fun v l' => (v = vok true /\ l' = (mkLV (FFrozen cc nx :: lv_facts lv) (lv_own lv) (@Linearized SetSpec (SErase kc) (RBool true)), cd))
                      \/ (v = vok false /\ l' = (lv, cd))).
  - eapply safe2_cas_mark; [exact Hc|exact Hst|..]; cbn [Conc.safe]; auto.
  - intros g. apply cas_cnt.
  - solveI.
  - intros v l' [[-> ->]|[-> ->]]; rewrite Z.add_0_r; assumption.
Qed.

Lemma safeC_cas_link {R} t m pc n kk o (k : V -> prog R) lv cd c Q :
  ppub (lv_facts lv) m -> klt (lv_facts lv) m kk ->
  (pc = 0%nat \/ exists kc, In (FPub pc kc) (lv_facts lv) /\ kk < kc) ->
  lv_own lv = Some (n, kk, pc) -> open_read (lv_st lv) o -> ins_op o kk ->
  safeC t (k (vok true)) (mkLV (FPub n kk :: lv_facts lv) None (@Linearized SetSpec o (ins_res o)), cd, c) Q ->
  safeC t (k (vok false)) (lv, cd, c) Q ->
  safeC t (Act (a_cas m pc n false) k) (lv, cd, c) Q.
Proof.
  intros Hm Hkm Hkc Hown Hst Hop Hk1 Hk0.
  eapply safeC_act with (dc := 0)
    (P := fun v l' => (v = vok true /\ l' = (mkLV (FPub n kk :: lv_facts lv) None (@Linearized SetSpec o (ins_res o)), cd))
                      \/ (v = vok false /\ l' = (lv, cd))).
  - eapply safe2_cas_link with (kk := kk) (o := o); eauto; cbn [Conc.safe]; auto.
  - intros g. apply cas_cnt.
  - solveI.
  - intros v l' [[-> ->]|[-> ->]]; rewrite Z.add_0_r; assumption.
Qed.

Lemma safeC_alloc_st {R} t kk p (k : V -> prog R) lv cd c Q :
  (forall n, safeC t (k (mkV n false kk)) (mkLV (lv_facts lv) (Some (n, kk, p)) (lv_st lv), cd, c) Q) ->
  safeC t (Act (a_alloc_st kk p) k) (lv, cd, c) Q.
Proof.
  intros Hk.
  eapply safeC_act with (dc := 0)
    (P := fun v l' => exists n, v = mkV n false kk /\ l' = (mkLV (lv_facts lv) (Some (n, kk, p)) (lv_st lv), cd)).
  - apply safe2_alloc_st. intros n. cbn [Conc.safe]. eauto.
  - intros g. unfold a_alloc_st. cbn [fst snd count]. split; [lia|repeat constructor].
  - solveI.
  - intros v l' (n & -> & ->). rewrite Z.add_0_r. apply Hk.
Qed.

Lemma safeC_st_next {R} t n kk nx p (k : V -> prog R) lv cd c Q :
  lv_own lv = Some (n, kk, nx) ->
  (forall v, vptr v = n -> safeC t (k v) (mkLV (lv_facts lv) (Some (n, kk, p)) (lv_st lv), cd, c) Q) ->
  safeC t (Act (a_st_next n p) k) (lv, cd, c) Q.
Proof.
  intros Hown Hk.
  eapply safeC_act with (dc := 0)
    (P := fun v l' => vptr v = n /\ l' = (mkLV (lv_facts lv) (Some (n, kk, p)) (lv_st lv), cd)).
  - eapply safe2_st_next; [exact Hown|]. intros v Hv. cbn [Conc.safe]. auto.
  - intros g. unfold a_st_next, LNext. cbn [fst snd wr count]. split; [lia|repeat constructor].
  - solveI.
  - intros v l' [Hv ->]. rewrite Z.add_0_r. apply Hk. exact Hv.
Qed.

(** ** client events *)
Lemma safeC_emit_core {R} t es (k : prog R) l c c' (P : unit -> lview2 -> Prop) Q :
  safe2 t (Emit es (Ret tt)) l P ->
  (forall g a tr, Inv2 g a tr -> view2 a t = l -> HG (full_hist (tr ++ Conc.tag t es)) = HG (full_hist tr) + (c - c')) ->
  (forall l', P tt l' -> lv_st (fst l') = @Idle SetSpec -> (lv_st (fst l) = @Idle SetSpec /\ c' = c) \/ c' = 0) ->
  (forall l', P tt l' -> safeC t k (l', c') Q) ->
  safeC t (Emit es k) (l, c) Q.
Proof.
  intros Hstep Hh Hi Hk. cbn [Conc.safe] in *. intros g a tr HI Hv.
  assert (Hv2 : view2 (e_base a) t = l) by (unfold view5 in Hv; inversion Hv; reflexivity).
  destruct HI as [HI2 HK]. destruct (Hstep g (e_base a) tr HI2 Hv2) as (a2' & HI' & Hfr & HP).
  destruct (InvC_step g g a t l c a2' tr es c' (conj HI2 HK) Hv HI' Hfr) as (K1 & K2 & K3).
  - rewrite (Hh g (e_base a) tr HI2 Hv2). lia.
  - intros Hidle. destruct (Hi _ HP Hidle) as [[Hl E]|E]; [subst c'|exact E].
    destruct HK as (_ & _ & _ & Hz). specialize (Hz t). rewrite Hv2 in Hz. specialize (Hz Hl).
    unfold view5 in Hv. inversion Hv. lia.
  - exists (mk5 a t a2' c'). split; [exact K1|]. split; [exact K2|]. rewrite K3. apply Hk. exact HP.
Qed.

Lemma full_hist_cli_other tr t name args :
  String.eqb name "inv" = false -> String.eqb name "ret" = false ->
  full_hist (tr ++ Conc.tag t [EvCli name args]) = full_hist tr.
Proof.
  intros N1 N2. unfold full_hist. rewrite fold_left_app. cbn [Conc.tag map fold_left].
  destruct (fold_left fstep tr (([], []) : fstate)) as [out pend]. cbn [fstep]. rewrite N1, N2. reflexivity.
Qed.

Lemma safeC_emit_other {R} t name args (k : prog R) lv cd c Q :
  String.eqb name "inv" = false -> String.eqb name "ret" = false ->
  safeC t k (lv, cd, c) Q -> safeC t (Emit [EvCli name args] k) (lv, cd, c) Q.
Proof.
  intros N1 N2 Hk. eapply safeC_emit_core with (c' := c) (P := fun _ l' => l' = (lv, cd)).
  - apply safe2_emit_other; auto. cbn [Conc.safe]. reflexivity.
  - intros g a tr _ _. rewrite full_hist_cli_other by assumption. lia.
  - intros l' -> Hi. left. auto.
  - intros l' ->. exact Hk.
Qed.

Lemma safeC_emit_inv {R} t cc kk x v (k : prog R) lv cd c Q :
  lv_st lv = @Idle SetSpec ->
  safeC t k (mkLV (lv_facts lv) (lv_own lv) (@Pending SetSpec (spec_op cc kk x)), cc, c) Q ->
  safeC t (Emit [EvCli "inv" [cc; kk; x; v]] k) (lv, cd, c) Q.
Proof.
  intros Hi Hk. eapply safeC_emit_core with (c' := c)
    (P := fun _ l' => l' = (mkLV (lv_facts lv) (lv_own lv) (@Pending SetSpec (spec_op cc kk x)), cc)).
  - apply safe2_emit_inv; auto. cbn [Conc.safe]. reflexivity.
  - intros g a tr _ _. unfold full_hist. rewrite fold_left_app. cbn [Conc.tag map fold_left].
    destruct (fold_left fstep tr (([], []) : fstate)) as [out pend].
    cbn [fstep String.eqb Ascii.eqb Bool.eqb fst]. rewrite HG_snoc. lia.
  - intros l' -> Hx. cbn in Hx. discriminate.
  - intros l' ->. exact Hk.
Qed.

(** what the history function does with the response of thread [t] *)
Lemma full_hist_ret g a tr t lv cd o a1 b1 :
  Inv2 g a tr -> view2 a t = (lv, cd) -> open_op (lv_st lv) = Some o ->
  exists out A B, full_hist tr = out /\ out = erase A ++ @HInv SetSpec t o :: erase B /\
    (forall e, In e (erase B) -> hev_tid e <> t) /\
    last_inv_op t out None = Some o /\
    full_hist (tr ++ Conc.tag t [EvCli "ret" [a1; b1]]) =
      (if Z.eqb cd 6 && Z.eqb a1 0 then erase A ++ erase B else out ++ [@HRes SetSpec t (res_of o a1 b1)]).
Proof.
  intros (L & HS & [(S & st & H1 & H2 & H3) (pend & H4 & H5)]) Hv Ho.
  destruct (view2_split _ _ _ _ Hv) as [Hv1 Hv2].
  assert (Hst : open_op (st t) = Some o) by (rewrite H2, Hv1; exact Ho).
  destruct (MichaelListLin.lp_open_split _ _ _ t o H1 Hst) as (A & B & EA & HB & _).
  destruct (erase_split_last t o A B HB) as [K1 K2]. rewrite <- EA in K1, K2.
  exists (erase (a_atr (b_base a))), A, B.
  split; [unfold full_hist; rewrite H4; reflexivity|].
  split; [rewrite EA, erase_app; reflexivity|].
  split.
  { intros e He. pose proof (erase_no_hinv t B HB e He) as K.
    destruct e as [u o'|u r']; cbn [hev_tid is_hinv] in *.
    - apply Nat.eqb_neq. exact K.
    - (* a response of t in B would be an ARes of t *)
      intros ->. clear -HB He. induction B as [|[u o'|u|u r0] B IH]; cbn [erase] in He.
      + destruct He.
      + destruct He as [E|He]; [discriminate|]. apply IH; auto. intros x Hx. apply HB. right; exact Hx.
      + apply IH; auto. intros x Hx. apply HB. right; exact Hx.
      + destruct He as [E|He].
        * inversion E; subst. apply (HB _ (or_introl eq_refl)). reflexivity.
        * apply IH; auto. intros x Hx. apply HB. right; exact Hx. }
  split; [exact K1|].
  unfold full_hist. rewrite fold_left_app, H4. cbn [Conc.tag map fold_left fstep String.eqb Ascii.eqb Bool.eqb].
  rewrite K1.
  assert (Hne : lv_st (view (b_base a) t) <> @Idle SetSpec) by (rewrite Hv1; destruct (lv_st lv); [discriminate| |]; discriminate).
  rewrite (H5 t Hne), Hv2.
  destruct (Z.eqb cd 6 && Z.eqb a1 0); cbn [fst]; [|reflexivity].
  rewrite K2, erase_app. reflexivity.
Qed.

Lemma safeC_emit_ret {R} t o r a1 b1 (k : prog R) lv cd c Q :
  lv_st lv = @Linearized SetSpec o r -> res_of o a1 b1 = r -> Z.eqb cd 6 && Z.eqb a1 0 = false ->
  c = gain o r ->
  safeC t k (mkLV (lv_facts lv) (lv_own lv) (@Idle SetSpec), cd, 0) Q ->
  safeC t (Emit [EvCli "ret" [a1; b1]] k) (lv, cd, c) Q.
Proof.
  intros Hs Hr Hc Hg Hk. eapply safeC_emit_core with (c' := 0)
    (P := fun _ l' => l' = (mkLV (lv_facts lv) (lv_own lv) (@Idle SetSpec), cd)).
  - eapply safe2_emit_ret; eauto. cbn [Conc.safe]. reflexivity.
  - intros g a tr HI Hv.
    destruct (full_hist_ret g a tr t lv cd o a1 b1 HI Hv) as (out & A & B & E1 & E2 & E3 & E4 & E5); [rewrite Hs; reflexivity|].
    rewrite E5, Hc, E1, HG_snoc, E4, Hr. lia.
  - intros l' -> _. right. reflexivity.
  - intros l' ->. exact Hk.
Qed.

Lemma safeC_emit_ret_drop {R} t o a1 b1 (k : prog R) lv cd Q :
  open_read (lv_st lv) o -> Z.eqb cd 6 && Z.eqb a1 0 = true ->
  safeC t k (mkLV (lv_facts lv) (lv_own lv) (@Idle SetSpec), cd, 0) Q ->
  safeC t (Emit [EvCli "ret" [a1; b1]] k) (lv, cd, 0) Q.
Proof.
  intros Hs Hc Hk. eapply safeC_emit_core with (c' := 0)
    (P := fun _ l' => l' = (mkLV (lv_facts lv) (lv_own lv) (@Idle SetSpec), cd)).
  - eapply safe2_emit_ret_drop; eauto. cbn [Conc.safe]. reflexivity.
  - intros g a tr HI Hv.
    destruct (full_hist_ret g a tr t lv cd o a1 b1 HI Hv) as (out & A & B & E1 & E2 & E3 & E4 & E5).
    { destruct Hs as [->|(r & -> & _)]; reflexivity. }
    rewrite E5, Hc, E1, E2, HG_remove_inv by exact E3. lia.
  - intros l' -> _. right. reflexivity.
  - intros l' ->. exact Hk.
Qed.
