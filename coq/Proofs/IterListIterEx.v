(** * Tools for concrete executions of LV.Model.IterListIter (non-vacuity examples of Properties_C19_IterList.v):
      an executable [exec] that records the configurations, a boolean path test, and the facts that tie a thread whose next
      operation is [20; k] to the program [iter_started] - without ever computing with thread programs. *)
From Coq Require Import ZArith List String Bool Lia PeanoNat.
From LV Require Import Base.Conc Base.Events Model.IterList Model.IterListIter Proofs.IterListIterDefs
                       Proofs.IterListIterSafe Proofs.IterListIterLink.
Import ListNotations.

Set Implicit Arguments.

Notation config := (Conc.config G V ev).

(** run the thread choices of [sched] (a choice that cannot step is skipped); returns all configurations and the last one *)
Fixpoint exec (sched : list nat) (c : config) (acc : list config) : list config * config :=
  match sched with
  | [] => (acc, c)
  | u :: r => match Conc.step_cfg c u with
              | Some c' => exec r c' (acc ++ [c'])
              | None => exec r c acc
              end
  end.

Lemma exec_steps sched : forall c0 c acc, steps c0 acc c -> steps c0 (fst (exec sched c acc)) (snd (exec sched c acc)).
Proof.
  induction sched as [|u r IH]; intros c0 c acc H; cbn [exec]; [exact H|].
  destruct (Conc.step_cfg c u) as [c'|] eqn:E; apply IH; [econstructor; eauto|exact H].
Qed.

Lemma step_other (c c' : config) u t : Conc.step_cfg c u = Some c' -> u <> t ->
  nth_error (Conc.threads c') t = nth_error (Conc.threads c) t.
Proof.
  unfold Conc.step_cfg. destruct (nth_error (Conc.threads c) u) as [p|]; [|discriminate].
  destruct (Conc.step_thread (Conc.shared c) p) as [[[g' p'] es]|]; [|discriminate].
  intros H Hu. inversion H. cbn. apply Conc.nth_error_set_nth_neq. exact Hu.
Qed.

(** a thread that is never chosen keeps its program *)
Lemma exec_other t sched : forall c acc, ~ In t sched ->
  nth_error (Conc.threads (snd (exec sched c acc))) t = nth_error (Conc.threads c) t.
Proof.
  induction sched as [|u r IH]; intros c acc Hn; cbn [exec]; [reflexivity|].
  assert (Hu : u <> t) by (intros ->; apply Hn; left; reflexivity).
  assert (Hr : ~ In t r) by (intros K; apply Hn; right; exact K).
  destruct (Conc.step_cfg c u) as [c'|] eqn:E; rewrite IH by exact Hr; [eapply step_other; eauto|reflexivity].
Qed.

(** the first step of a thread whose first operation is an iteration: it emits "inv 20 k" and stands at [iter_started] *)
Lemma begin_step (c : config) t fuel sf ic k rest os :
  nth_error (Conc.threads c) t = Some (thread_progI fuel sf ic t ((20%Z :: k :: rest) :: os)) ->
  exists c1, Conc.step_cfg c t = Some c1 /\
             nth_error (Conc.threads c1) t = Some (iter_started fuel sf ic t k init_ls os) /\
             Conc.shared c1 = Conc.shared c.
Proof.
  intros H. unfold Conc.step_cfg. rewrite H. cbn.
  eexists. split; [reflexivity|]. cbn. split; [|reflexivity].
  erewrite Conc.nth_error_set_nth_eq by exact H. reflexivity.
Qed.

Lemma nth_thread_progsI_at fuel sf ic ths : forall k u os,
  nth_error ths u = Some os -> nth_error (thread_progsI fuel sf ic k ths) u = Some (thread_progI fuel sf ic (k + u) os).
Proof.
  induction ths as [|o ths IH]; intros k u os H; [destruct u; discriminate|].
  destruct u as [|u]; cbn in *.
  - inversion H. rewrite Nat.add_0_r. reflexivity.
  - rewrite (IH (S k) u os H). f_equal. f_equal. lia.
Qed.

(** boolean path test *)
Fixpoint pathb (nx : nat -> nat) (fuel : nat) (a b : nat) : bool :=
  Nat.eqb a b || match fuel with O => false | S f => pathb nx f (nx a) b end.

Lemma pathb_sound nx fuel : forall a b, pathb nx fuel a b = true -> path nx a b.
Proof.
  induction fuel as [|f IH]; intros a b H; cbn in H; apply orb_true_iff in H; destruct H as [H|H].
  - apply Nat.eqb_eq in H. subst. constructor.
  - discriminate.
  - apply Nat.eqb_eq in H. subst. constructor.
  - apply path_step. apply IH. exact H.
Qed.

Definition presentb (n x : nat) (c : config) : bool :=
  pathb (nnext (Conc.shared c)) 16 HEAD n && Nat.eqb (fst (ndata (Conc.shared c) n)) x.

Lemma presentb_all n x cs : forallb (presentb n x) cs = true ->
  forall c', In c' cs -> path (nnext (Conc.shared c')) HEAD n /\ fst (ndata (Conc.shared c') n) = x.
Proof.
  intros H c' Hc. rewrite forallb_forall in H. specialize (H c' Hc). unfold presentb in H.
  apply andb_prop in H. destruct H as [H1 H2]. split; [eapply pathb_sound; eauto|apply Nat.eqb_eq; exact H2].
Qed.

(** [iter_started] is what remains of a thread's program once the invocation event of an iteration [20; k] has been emitted:
    whenever the operation before it returns, the thread's program in the configuration is exactly this *)
Lemma iter_started_settle fuel sf ic t k rest os ls :
  Conc.settle (run_opsI fuel sf ic t ((20%Z :: k :: rest) :: os) ls) =
  ([ev_inv (20%Z :: k :: rest)], iter_started fuel sf ic t k ls os).
Proof. reflexivity. Qed.
