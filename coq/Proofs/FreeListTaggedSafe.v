(** * TaggedFreeList: steps, the proof rule [Conc.safe] for every program, initial configuration and the
      theorems for every schedule (under the hypothesis that the tag does not wrap). *)
From Coq Require Import ZArith List String Bool Lia PeanoNat.
From LV Require Import Base.Conc Base.Events Model.FreeList Model.FreeListTagged Proofs.FreeListBase Proofs.FreeListTaggedInv.
Import ListNotations.
Local Open Scope Z_scope.
Local Open Scope string_scope.

(** number of successful CASes on the head in a trace *)
Definition is_head_cas (e : ev) : bool :=
  match e with EvAcc KCas [z] true => Z.eqb z 0 | _ => false end.
Fixpoint ncas (tr : list (nat * ev)) : Z :=
  match tr with [] => 0 | (_, e) :: r => (if is_head_cas e then 1 else 0) + ncas r end.
Lemma ncas_app tr tr' : ncas (tr ++ tr') = ncas tr + ncas tr'.
Proof. induction tr as [|[t e] r IH]; cbn [ncas app]; lia. Qed.
Lemma ncas_nonneg tr : 0 <= ncas tr.
Proof. induction tr as [|[t e] r IH]; cbn [ncas]; [lia|]. destruct (is_head_cas e); lia. Qed.

Definition TWO64 : Z := 18446744073709551616.

Section TSafe.
  Variable N : nat.
  Variable valid0 : nat -> bool.
  Hypothesis Hv0 : valid0 O = false.
  Variable own0 : omap.
  Variable k0 : nat.      (* initial tag = number of nodes put by the set-up *)
  Variable NR : nat.      (* threads 0..NR-1 are client threads; NR..N-1 are idle place holders (cache slots of
                             CachedFreeList) whose held list is not client ownership *)
  Hypothesis HNR : (NR <= N)%nat.

  Notation InvTS := (InvTS N valid0).

  Definition tview (a : TAux) (t : nat) : list nat * tphase := (thl a t, tph a t).

  (** the tag has not wrapped (and will not with one more successful CAS) *)
  Definition nowrap (tr : list (nat * ev)) : Prop := Z.of_nat k0 + ncas tr < TWO64.

  Definition InvTT (g : TG) (a : TAux) (tr : list (nat * ev)) : Prop :=
    ttag g = Z.of_nat k0 + ncas tr /\
    mon_run own0 tr = Some (town a) /\
    (forall n t, town a n = Some t <-> (t < NR)%nat /\ In n (thl a t)) /\
    (forall t, opens t tr = if tis_idle (tph a t) then 0 else 1).

  Definition TInv (g : TG) (a : TAux) (tr : list (nat * ev)) : Prop :=
    nowrap tr -> InvTS g a /\ InvTT g a tr.

  Notation safe := (@Conc.safe TG TV ev TAux (list nat * tphase) tview TInv).

  Lemma nowrap_prefix tr tr' : nowrap (tr ++ tr') -> nowrap tr.
  Proof. unfold nowrap. rewrite ncas_app. pose proof (ncas_nonneg tr'). lia. Qed.

  Lemma tframe_step a n s l t p H o : Conc.frame tview t a (tstep_aux a n s l t p H o).
  Proof. intros t' Hne. unfold tview. cbn. now rewrite !upd_other. Qed.
  Lemma tview_step a n s l t p H o : tview (tstep_aux a n s l t p H o) t = (H, p).
  Proof. unfold tview. cbn. now rewrite !upd_same. Qed.
  Lemma tframe_refl a t : Conc.frame tview t a a.
  Proof. intros ? ?; reflexivity. Qed.

  Lemma thl_step_same a n s l t p o t' : thl (tstep_aux a n s l t p (thl a t) o) t' = thl a t'.
  Proof. cbn. unfold upd. destruct (Nat.eqb_spec t' t); congruence. Qed.

  Lemma active_lt g a t : InvTS g a -> tph a t <> TIdle -> (t < N)%nat.
  Proof.
    intros Hi Hp. destruct (Nat.lt_ge_cases t N) as [H|H]; [exact H|]. destruct (TS_out Hi t H) as [E _]. congruence.
  Qed.

  (** trace part, for an access event: [d] = 1 for a successful head CAS, else 0 *)
  Lemma InvTT_acc g g' a n s l t p tr e :
    InvTT g a tr -> tis_idle p = tis_idle (tph a t) ->
    (exists kd o ok, e = EvAcc kd o ok) ->
    ttag g' = ttag g + (if is_head_cas e then 1 else 0) ->
    InvTT g' (tstep_aux a n s l t p (thl a t) (town a)) (tr ++ Conc.tag t [e]).
  Proof.
    intros (T0 & T1 & T2 & T3) Hi (kd & o & ok & ->) Ht. split; [|split; [|split]].
    - rewrite ncas_app. cbn [Conc.tag map ncas]. rewrite Ht, T0. lia.
    - rewrite mon_run_app, T1. reflexivity.
    - intros m t'. rewrite thl_step_same. apply T2.
    - intros t'. rewrite opens_app, T3. cbn [tph tstep_aux Conc.tag map opens ev_open]. unfold upd.
      destruct (Nat.eqb_spec t' t) as [E|Hne].
      + subst t'. rewrite Hi. destruct (Nat.eqb t t); lia.
      + destruct (Nat.eqb t t'); lia.
  Qed.

  (** a step that leaves the shared state, the node states and the lists alone: only the phase of [t]
      changes, keeping its claim (if any) on node [n0] *)
  Lemma tstep_local g a t n0 p' :
    InvTS g a -> (t < N)%nat ->
    (tclaim (tph a t) = None \/ tclaim (tph a t) = Some n0) ->
    (tclaim p' = None \/ tclaim p' = Some n0) ->
    (tclaim (tph a t) = Some n0 -> tclaim p' = Some n0) ->
    tphase_ok (tst a) g (thl a t) t p' ->
    InvTS g (tstep_aux a n0 (tst a n0) (tlst a) t p' (thl a t) (town a)).
  Proof.
    intros Hi Ht Hp Hp' Hcl Hok.
    apply (TInv_step N valid0 Hv0) with (g := g);
      [exact Hi|exact Ht|exact Hp|exact Hp'|left; reflexivity|reflexivity|left; reflexivity|left; split; reflexivity|tauto|tauto
       | |apply (TS_chain Hi)|apply (TS_lnd Hi)|apply (TS_lin Hi)| |apply (TS_held Hi)|apply (TS_hnd Hi)].
    - pose proof (TS_st Hi n0) as Ho. unfold tst_ok in *. cbn [tst tstep_aux]. rewrite upd_same.
      destruct (tst a n0) as [|t1|] eqn:Es; auto. cbn [thl tph tstep_aux]. unfold upd.
      destruct (Nat.eqb_spec t1 t) as [->|Hne]; [|exact Ho]. destruct Ho as [Ho|Ho]; [left; exact Ho|right; auto].
    - assert (E : forall m, upd (tst a) n0 (tst a n0) m = tst a m).
      { intros m. unfold upd. destruct (Nat.eqb_spec m n0); congruence. }
      cbn [tst tstep_aux]. destruct p'; cbn in *; rewrite ?E; exact Hok.
  Qed.

  (** rule for an access that changes no shared state: the new phase may depend on what was read *)
  Lemma rule_tlocal t (f : tact) H p (p' : TG -> tphase) n0 R (k : TV -> tprog R) Q :
    (forall g, fst (fst (f g)) = g /\ exists kd o ok, snd (f g) = [EvAcc kd o ok] /\ is_head_cas (EvAcc kd o ok) = false) ->
    (tclaim p = None \/ tclaim p = Some n0) ->
    (forall g, tclaim (p' g) = None \/ tclaim (p' g) = Some n0) ->
    (forall g, tclaim p = Some n0 -> tclaim (p' g) = Some n0) ->
    (forall g, tis_idle (p' g) = tis_idle p) -> p <> TIdle ->
    (forall g a, InvTS g a -> thl a t = H -> tph a t = p -> tphase_ok (tst a) g H t (p' g)) ->
    (forall g, safe t (k (snd (fst (f g)))) (H, p' g) Q) -> safe t (Act f k) (H, p) Q.
  Proof.
    intros Hf Hc Hc' Hcl Hid Hni Hok Hk. cbn [Conc.safe]. intros g a tr HI Hv. unfold tview in Hv. injection Hv as Hh Hp.
    destruct (Hf g) as (E1 & kd & o & ok & E2 & E3). rewrite E1, E2.
    exists (tstep_aux a n0 (tst a n0) (tlst a) t (p' g) (thl a t) (town a)). split; [|split].
    - intros Hnw. destruct (HI (nowrap_prefix _ _ Hnw)) as [HS HT].
      assert (Ht : (t < N)%nat) by (eapply active_lt; eauto; congruence). split.
      + apply tstep_local; auto; rewrite ?Hp; auto. rewrite Hh. apply Hok; auto.
      + eapply InvTT_acc; eauto; [rewrite Hp; apply Hid|rewrite E3; lia].
    - apply tframe_step.
    - rewrite tview_step, Hh. apply Hk.
  Qed.

  Ltac local_f := intros g; split; [reflexivity|]; do 3 eexists; split; reflexivity.

  Lemma rule_tbegin t l R (k : TV -> tprog R) Q :
    (forall v, safe t (k v) l Q) -> safe t (Act ta_begin k) l Q.
  Proof.
    intros Hk. cbn [Conc.safe]. intros g a tr HI Hv. exists a. split; [|split; [apply tframe_refl|rewrite Hv; apply Hk]].
    intros Hnw. destruct (HI (nowrap_prefix _ _ Hnw)) as [HS (T0 & T1 & T2 & T3)]. split; [exact HS|].
    cbn [ta_begin fst snd]. split; [|split; [|split]].
    - rewrite ncas_app. cbn. lia.
    - rewrite mon_run_app, T1. reflexivity.
    - exact T2.
    - intros t'. rewrite opens_app, T3. cbn. destruct (Nat.eqb t t'); lia.
  Qed.

  Lemma rule_tld_head_put t H n R (k : TV -> tprog R) Q :
    (forall hp ht, safe t (k (hp, ht)) (H, TPHead n hp ht) Q) ->
    safe t (Act ta_ld_head k) (H, TPPut n) Q.
  Proof.
    intros Hk. apply rule_tlocal with (p' := fun g => TPHead n (thead g) (ttag g)) (n0 := n);
      [local_f|cbn; auto|intros; cbn; auto|intros; cbn; auto|intros; reflexivity|discriminate| |].
    - intros g a HS Hh Hp. pose proof (TS_ph HS t) as Ho. rewrite Hp, Hh in Ho. exact Ho.
    - intros g. apply Hk.
  Qed.

  Lemma rule_tld_head_get t H R (k : TV -> tprog R) Q :
    (forall hp ht, safe t (k (hp, ht)) (H, TGHead hp ht) Q) ->
    safe t (Act ta_ld_head k) (H, TBusy) Q.
  Proof.
    intros Hk. apply rule_tlocal with (p' := fun g => TGHead (thead g) (ttag g)) (n0 := O);
      [local_f|cbn; auto|intros; cbn; auto|intros; cbn in *; discriminate|intros; reflexivity|discriminate| |].
    - intros g a HS Hh Hp. split; [lia|reflexivity].
    - intros g. apply Hk.
  Qed.

  Lemma rule_tld_next t H hp ht R (k : TV -> tprog R) Q :
    (forall nx, safe t (k (nx, 0)) (H, TGNext hp ht nx) Q) ->
    safe t (Act (ta_ld_next hp) k) (H, TGHead hp ht) Q.
  Proof.
    intros Hk. apply rule_tlocal with (p' := fun g => TGNext hp ht (tnext g hp)) (n0 := O);
      [local_f|cbn; auto|intros; cbn; auto|intros; cbn in *; discriminate|intros; reflexivity|discriminate| |].
    - intros g a HS Hh Hp. pose proof (TS_ph HS t) as Ho. rewrite Hp in Ho. cbn in Ho. destruct Ho as [Ho1 Ho2].
      split; [exact Ho1|]. intros E. split; [apply Ho2; exact E|reflexivity].
    - intros g. apply Hk.
  Qed.

  (** put(): next.store *)
  Lemma tstep_st_next g a t n hp ht :
    InvTS g a -> tph a t = TPHead n hp ht ->
    InvTS (tset_next g n hp) (tstep_aux a n (tst a n) (tlst a) t (TPNxt n hp ht) (thl a t) (town a)).
  Proof.
    intros Hi Hp.
    assert (Ht : (t < N)%nat) by (eapply active_lt; eauto; congruence).
    pose proof (TS_ph Hi t) as Hx. rewrite Hp in Hx. cbn in Hx. destruct Hx as [Hst Hnin].
    assert (Hnl : ~ In n (tlst a)). { intros Hin. apply (TS_lin Hi) in Hin. congruence. }
    assert (Hnx : forall m, m <> n -> tnext (tset_next g n hp) m = tnext g m).
    { intros m Hm. cbn. destruct (Nat.eqb_spec m n); congruence. }
    apply (TInv_step N valid0 Hv0) with (g := g);
      [exact Hi|exact Ht|rewrite Hp; right; reflexivity|right; reflexivity|left; reflexivity|exact Hnx|right; exact Hst
       |left; split; reflexivity|tauto|tauto| | |apply (TS_lnd Hi)|apply (TS_lin Hi)| |apply (TS_held Hi)|apply (TS_hnd Hi)].
    - unfold tst_ok. cbn [tst tstep_aux tph]. rewrite upd_same, Hst, upd_same. right; reflexivity.
    - cbn [thead tset_next]. apply chain_ext with (nx := tnext g); [|apply (TS_chain Hi)].
      intros m Hm. apply Hnx. intros ->. contradiction.
    - cbn [tphase_ok tst tstep_aux]. rewrite upd_same. split; [exact Hst|split; [exact Hnin|]].
      cbn. now rewrite Nat.eqb_refl.
  Qed.

  Lemma rule_tst_next t H n hp ht R (k : TV -> tprog R) Q :
    (forall v, safe t (k v) (H, TPNxt n hp ht) Q) ->
    safe t (Act (ta_st_next n hp) k) (H, TPHead n hp ht) Q.
  Proof.
    intros Hk. cbn [Conc.safe]. intros g a tr HI Hv. unfold tview in Hv. injection Hv as Hh Hp.
    cbn [ta_st_next fst snd].
    exists (tstep_aux a n (tst a n) (tlst a) t (TPNxt n hp ht) (thl a t) (town a)). split; [|split].
    - intros Hnw. destruct (HI (nowrap_prefix _ _ Hnw)) as [HS HT]. split.
      + apply tstep_st_next; auto.
      + eapply InvTT_acc; eauto; [rewrite Hp; reflexivity|cbn; lia].
    - apply tframe_step.
    - rewrite tview_step, Hh. apply Hk.
  Qed.

  Lemma u64_succ x : 0 <= x -> x + 1 < TWO64 -> u64 (x + 1) = x + 1.
  Proof. intros. unfold u64. apply Z.mod_small. unfold TWO64 in *. lia. Qed.

  (** put(): the head CAS succeeds *)
  Lemma tstep_cas_put_ok g a t n hp ht :
    InvTS g a -> tph a t = TPNxt n hp ht -> thead g = hp -> ttag g = ht -> 0 <= ht -> ht + 1 < TWO64 ->
    InvTS (tset_head g n (u64 (ht + 1))) (tstep_aux a n TOn (n :: tlst a) t TBusy (thl a t) (town a)).
  Proof.
    intros Hi Hp Hh Htg H0 Hw.
    assert (Ht : (t < N)%nat) by (eapply active_lt; eauto; congruence).
    pose proof (TS_ph Hi t) as Hx. rewrite Hp in Hx. cbn in Hx. destruct Hx as (Hst & Hnin & Hnx).
    assert (Hnl : ~ In n (tlst a)). { intros Hin. apply (TS_lin Hi) in Hin. congruence. }
    assert (Hnz : n <> O). { intros ->. rewrite (tst_zero N valid0 Hv0 g a Hi) in Hst. discriminate. }
    apply (TInv_step N valid0 Hv0) with (g := g);
      [exact Hi|exact Ht|rewrite Hp; right; reflexivity|left; reflexivity| |reflexivity|left; reflexivity
       | |tauto| | | | | |exact I| |apply (TS_hnd Hi)].
    - right. rewrite Hst. cbn. repeat split; auto; discriminate.
    - right. cbn [ttag tset_head]. rewrite u64_succ by lia. lia.
    - intros m Hm. cbn. split; [intros [E|E]; [congruence|exact E]|tauto].
    - unfold tst_ok. cbn [tst tstep_aux]. rewrite upd_same. exact I.
    - cbn [tnext thead tset_head chain]. repeat split; auto. rewrite Hnx, <- Hh. apply (TS_chain Hi).
    - constructor; [exact Hnl|apply (TS_lnd Hi)].
    - split; [reflexivity|]. intros _. left; reflexivity.
    - intros Hin. contradiction.
  Qed.

  Lemma same_head_true hp ht : same_head (hp, ht) hp ht = true.
  Proof. unfold same_head. cbn. now rewrite Nat.eqb_refl, Z.eqb_refl. Qed.

  Lemma rule_tcas_put t H n hp ht R (k : TV -> tprog R) Q :
    safe t (k (hp, ht)) (H, TBusy) Q ->
    (forall c ct, same_head (c, ct) hp ht = false -> safe t (k (c, ct)) (H, TPHead n c ct) Q) ->
    safe t (Act (ta_cas_head hp ht n (u64 (ht + 1))) k) (H, TPNxt n hp ht) Q.
  Proof.
    intros Ks Kf. cbn [Conc.safe]. intros g a tr HI Hv. unfold tview in Hv. injection Hv as Hh Hp.
    unfold ta_cas_head. destruct ((thead g =? hp)%nat && (ttag g =? ht)%Z)%bool eqn:E; cbn [fst snd].
    - apply andb_prop in E. destruct E as [E1 E2]. apply Nat.eqb_eq in E1. apply Z.eqb_eq in E2.
      exists (tstep_aux a n TOn (n :: tlst a) t TBusy (thl a t) (town a)). split; [|split].
      + intros Hnw. destruct (HI (nowrap_prefix _ _ Hnw)) as [HS HT]. pose proof HT as (T0 & _).
        unfold nowrap in Hnw. rewrite ncas_app in Hnw. cbn in Hnw. pose proof (ncas_nonneg tr). split.
        * apply tstep_cas_put_ok with (hp := hp); auto; lia.
        * eapply InvTT_acc; eauto; [rewrite Hp; reflexivity|]. cbn [ttag tset_head is_head_cas obj_head Z.eqb].
          rewrite u64_succ by lia. lia.
      + apply tframe_step.
      + rewrite tview_step, Hh, E1, E2. exact Ks.
    - exists (tstep_aux a n (tst a n) (tlst a) t (TPHead n (thead g) (ttag g)) (thl a t) (town a)). split; [|split].
      + intros Hnw. destruct (HI (nowrap_prefix _ _ Hnw)) as [HS HT].
        assert (Ht : (t < N)%nat) by (eapply active_lt; eauto; congruence). split.
        * apply tstep_local; auto; rewrite ?Hp; cbn; auto.
          pose proof (TS_ph HS t) as Ho. rewrite Hp in Ho. cbn in Ho. tauto.
        * eapply InvTT_acc; eauto; [rewrite Hp; reflexivity|cbn; lia].
      + apply tframe_step.
      + rewrite tview_step, Hh. apply Kf. unfold same_head. cbn. exact E.
  Qed.

  (** get(): the head CAS succeeds *)
  Lemma tstep_cas_get_ok g a t hp ht nx :
    InvTS g a -> tph a t = TGNext hp ht nx -> thead g = hp -> ttag g = ht -> hp <> O -> 0 <= ht -> ht + 1 < TWO64 ->
    InvTS (tset_head g nx (u64 (ht + 1))) (tstep_aux a hp (THeld t) (tl (tlst a)) t (TPRet hp) (thl a t) (town a)).
  Proof.
    intros Hi Hp Hh Htg Hnz H0 Hw.
    assert (Ht : (t < N)%nat) by (eapply active_lt; eauto; congruence).
    pose proof (TS_ph Hi t) as Hx. rewrite Hp in Hx. cbn in Hx. destruct Hx as (_ & Hx). destruct (Hx Htg) as [_ Hnx].
    pose proof (TS_chain Hi) as Hch. pose proof (TS_lnd Hi) as Hnd. pose proof (TS_lin Hi hp) as Hlin.
    destruct (tlst a) as [|h' r] eqn:El; cbn in Hch; [congruence|].
    destruct Hch as (E & _ & Hch). rewrite Hh in E. subst h'.
    assert (Hon : tst a hp = TOn) by (apply Hlin; left; reflexivity).
    apply NoDup_cons_iff in Hnd. destruct Hnd as [Hnin Hnd']. cbn [tl].
    apply (TInv_step N valid0 Hv0) with (g := g);
      [exact Hi|exact Ht|rewrite Hp; left; reflexivity|right; reflexivity| |reflexivity|left; reflexivity
       | |tauto| | | |exact Hnd'| | | |apply (TS_hnd Hi)].
    - right. rewrite Hon. cbn. repeat split; auto; discriminate.
    - right. cbn [ttag tset_head]. rewrite u64_succ by lia. lia.
    - intros m Hm. rewrite El. cbn. split; [tauto|]. intros [E|E]; [congruence|exact E].
    - unfold tst_ok. cbn [tst tstep_aux tph]. rewrite !upd_same. right; reflexivity.
    - cbn [tnext thead tset_head]. rewrite <- Hnx. exact Hch.
    - split; [contradiction|discriminate].
    - cbn [tphase_ok tst tstep_aux]. rewrite upd_same. split; [reflexivity|].
      intros Hin. apply (TS_held Hi) in Hin. congruence.
    - intros Hin. apply (TS_held Hi) in Hin. congruence.
  Qed.

  Lemma rule_tcas_get t H hp ht nx R (k : TV -> tprog R) Q :
    hp <> O ->
    safe t (k (hp, ht)) (H, TPRet hp) Q ->
    (forall c ct, same_head (c, ct) hp ht = false -> safe t (k (c, ct)) (H, TGHead c ct) Q) ->
    safe t (Act (ta_cas_head hp ht nx (u64 (ht + 1))) k) (H, TGNext hp ht nx) Q.
  Proof.
    intros Hnz Ks Kf. cbn [Conc.safe]. intros g a tr HI Hv. unfold tview in Hv. injection Hv as Hh Hp.
    unfold ta_cas_head. destruct ((thead g =? hp)%nat && (ttag g =? ht)%Z)%bool eqn:E; cbn [fst snd].
    - apply andb_prop in E. destruct E as [E1 E2]. apply Nat.eqb_eq in E1. apply Z.eqb_eq in E2.
      exists (tstep_aux a hp (THeld t) (tl (tlst a)) t (TPRet hp) (thl a t) (town a)). split; [|split].
      + intros Hnw. destruct (HI (nowrap_prefix _ _ Hnw)) as [HS HT]. pose proof HT as (T0 & _).
        unfold nowrap in Hnw. rewrite ncas_app in Hnw. cbn in Hnw. pose proof (ncas_nonneg tr). split.
        * apply tstep_cas_get_ok; auto; lia.
        * eapply InvTT_acc; eauto; [rewrite Hp; reflexivity|]. cbn [ttag tset_head is_head_cas obj_head Z.eqb].
          rewrite u64_succ by lia. lia.
      + apply tframe_step.
      + rewrite tview_step, Hh, E1, E2. exact Ks.
    - exists (tstep_aux a O (tst a O) (tlst a) t (TGHead (thead g) (ttag g)) (thl a t) (town a)). split; [|split].
      + intros Hnw. destruct (HI (nowrap_prefix _ _ Hnw)) as [HS HT].
        assert (Ht : (t < N)%nat) by (eapply active_lt; eauto; congruence). split.
        * apply tstep_local; auto; rewrite ?Hp; cbn; auto; try discriminate. split; [lia|reflexivity].
        * eapply InvTT_acc; eauto; [rewrite Hp; reflexivity|cbn; lia].
      + apply tframe_step.
      + rewrite tview_step, Hh. apply Kf. unfold same_head. cbn. exact E.
  Qed.

  (** ** client events *)
  Lemma InvTT_emit g a a' tr t e :
    InvTT g a tr -> is_head_cas e = false -> mon_ev (town a) t e = Some (town a') ->
    (forall n t', town a' n = Some t' <-> (t' < NR)%nat /\ In n (thl a' t')) ->
    (forall t', (if tis_idle (tph a t') then 0 else 1) + (if Nat.eqb t t' then ev_open e else 0)
                = if tis_idle (tph a' t') then 0 else 1) ->
    InvTT g a' (tr ++ Conc.tag t [e]).
  Proof.
    intros (T0 & T1 & T2 & T3) Hc Hm Ho Hop. split; [|split; [|split]].
    - rewrite ncas_app. cbn. rewrite Hc. lia.
    - rewrite mon_run_app, T1. cbn. exact Hm.
    - exact Ho.
    - intros t'. rewrite opens_app, T3, <- Hop. cbn. lia.
  Qed.

  Lemma rule_temit_plain t H p p' name args R (k : tprog R) Q :
    (t < N)%nat -> tclaim p = None -> (p' = TIdle \/ p' = TBusy) ->
    (forall o, mon_ev o t (EvCli name args) = Some o) ->
    (if tis_idle p then 0 else 1) + ev_open (EvCli name args) = (if tis_idle p' then 0 else 1) ->
    safe t k (H, p') Q -> safe t (Emit [EvCli name args] k) (H, p) Q.
  Proof.
    intros Ht Hn Hn' Hm Hop Ks. cbn [Conc.safe]. intros g a tr HI Hv. unfold tview in Hv. injection Hv as Hh Hp.
    exists (tstep_aux a O (tst a O) (tlst a) t p' (thl a t) (town a)). split; [|split].
    - intros Hnw. destruct (HI (nowrap_prefix _ _ Hnw)) as [HS HT]. split.
      + assert (Hcl : tclaim p' = None) by (destruct Hn' as [-> | ->]; reflexivity).
        apply tstep_local; auto; rewrite ?Hp; auto; [rewrite Hn; discriminate|destruct Hn' as [-> | ->]; exact I].
      + eapply InvTT_emit; eauto.
        * destruct HT as (_ & _ & T2 & _). intros n t'. rewrite thl_step_same. apply T2.
        * intros t'. cbn [tph tstep_aux]. unfold upd. destruct (Nat.eqb_spec t' t) as [E|Hne].
          -- subst t'. rewrite Nat.eqb_refl, Hp. exact Hop.
          -- destruct (Nat.eqb_spec t t'); [congruence|lia].
    - apply tframe_step.
    - rewrite tview_step, Hh. exact Ks.
  Qed.

  Lemma rule_temit_oof t l : safe t (Emit [EvCli "outoffuel" []] (Ret tt)) l (@Conc.QTrue _).
  Proof.
    cbn [Conc.safe]. intros g a tr HI Hv. exists a. split; [|split; [apply tframe_refl|exact I]].
    intros Hnw. destruct (HI (nowrap_prefix _ _ Hnw)) as [HS HT]. split; [exact HS|].
    eapply InvTT_emit; eauto.
    - apply HT.
    - intros t'. cbn. destruct (Nat.eqb t t'); lia.
  Qed.

  Lemma rule_temit_ret_get t H n R (k : tprog R) Q :
    (t < NR)%nat ->
    safe t k ((H ++ [n])%list, TIdle) Q -> safe t (Emit [EvCli "ret_get" (zn n)] k) (H, TPRet n) Q.
  Proof.
    intros HtR Ks. cbn [Conc.safe]. intros g a tr HI Hv. unfold tview in Hv. injection Hv as Hh Hp.
    exists (tstep_aux a n (THeld t) (tlst a) t TIdle (thl a t ++ [n])%list (upd (town a) n (Some t))). split; [|split].
    - intros Hnw. destruct (HI (nowrap_prefix _ _ Hnw)) as [HS HT].
      assert (Ht : (t < N)%nat) by (eapply active_lt; eauto; congruence).
      pose proof (TS_ph HS t) as Hx. rewrite Hp in Hx. cbn in Hx. destruct Hx as [Hst Hnin].
      pose proof HT as (T0 & T1 & T2 & T3).
      assert (Hown : town a n = None).
      { destruct (town a n) as [t'|] eqn:E; [|reflexivity]. apply T2 in E. destruct E as [_ E]. pose proof (TS_held HS t' n E) as E'.
        rewrite Hst in E'. injection E' as <-. contradiction. }
      split.
      + apply (TInv_step N valid0 Hv0) with (g := g);
          [exact HS|exact Ht|rewrite Hp; right; reflexivity|left; reflexivity|left; symmetry; exact Hst|reflexivity|left; reflexivity
           |left; split; reflexivity| |tauto| |apply (TS_chain HS)|apply (TS_lnd HS)| |exact I|reflexivity| ].
        * intros m Hm. rewrite in_app_iff. cbn. split; [intros [E|[E|[]]]; [exact E|congruence]|tauto].
        * unfold tst_ok. cbn [tst tstep_aux thl]. rewrite !upd_same. left. apply in_or_app. right; left; reflexivity.
        * rewrite <- Hst. apply (TS_lin HS).
        * apply NoDup_snoc; [apply (TS_hnd HS)|exact Hnin].
      + eapply InvTT_emit; [exact HT|reflexivity| | |].
        * unfold zn. cbn. assert ((Z.of_nat n <? 0)%Z = false) as -> by (apply Z.ltb_ge; lia). rewrite Nat2Z.id, Hown. reflexivity.
        * intros m t'. cbn [town thl tstep_aux]. unfold upd.
          destruct (Nat.eqb_spec m n) as [->|Hm]; destruct (Nat.eqb_spec t' t) as [->|Ht'].
          -- split; [intros _; split; [exact HtR|apply in_or_app; right; left; reflexivity]|reflexivity].
          -- split; [congruence|]. intros [_ Hin]. apply (TS_held HS) in Hin. congruence.
          -- rewrite T2, in_app_iff. cbn. split; [tauto|]. intros [Hl [E|[E|[]]]]; [tauto|congruence].
          -- apply T2.
        * intros t'. cbn [tph tstep_aux]. unfold upd. destruct (Nat.eqb_spec t' t) as [E|Hne].
          -- subst t'. rewrite Nat.eqb_refl, Hp. reflexivity.
          -- destruct (Nat.eqb_spec t t'); [congruence|lia].
    - apply tframe_step.
    - rewrite tview_step, Hh. exact Ks.
  Qed.

  Lemma rule_temit_inv_put t H i n R (k : tprog R) Q :
    (t < N)%nat -> (t < NR)%nat -> nth_error H i = Some n ->
    safe t k (remove_nth i H, TPPut n) Q -> safe t (Emit [EvCli "inv_put" (zn n)] k) (H, TIdle) Q.
  Proof.
    intros Ht HtR Hi Ks. cbn [Conc.safe]. intros g a tr HI Hv. unfold tview in Hv. injection Hv as Hh Hp.
    rewrite <- Hh in Hi.
    exists (tstep_aux a n (THeld t) (tlst a) t (TPPut n) (remove_nth i (thl a t)) (upd (town a) n None)). split; [|split].
    - intros Hnw. destruct (HI (nowrap_prefix _ _ Hnw)) as [HS HT].
      assert (Hin : In n (thl a t)) by (eapply nth_error_In; eauto).
      pose proof (TS_held HS t n Hin) as Hst.
      destruct (remove_nth_spec (thl a t) i n Hi (TS_hnd HS t)) as (R1 & R2 & R3).
      pose proof HT as (T0 & T1 & T2 & T3).
      assert (Hown : town a n = Some t) by (apply T2; split; [exact HtR|exact Hin]).
      split.
      + apply (TInv_step N valid0 Hv0) with (g := g);
          [exact HS|exact Ht|rewrite Hp; left; reflexivity|right; reflexivity|left; symmetry; exact Hst|reflexivity|left; reflexivity
           |left; split; reflexivity|exact R3|tauto| |apply (TS_chain HS)|apply (TS_lnd HS)| | |reflexivity|exact R1].
        * unfold tst_ok. cbn [tst tstep_aux tph]. rewrite !upd_same. right; reflexivity.
        * rewrite <- Hst. apply (TS_lin HS).
        * cbn [tphase_ok tst tstep_aux]. rewrite upd_same. split; [reflexivity|exact R2].
      + eapply InvTT_emit; [exact HT|reflexivity| | |].
        * unfold zn. cbn. rewrite Nat2Z.id, Hown, Nat.eqb_refl. reflexivity.
        * intros m t'. cbn [town thl tstep_aux]. unfold upd.
          destruct (Nat.eqb_spec m n) as [->|Hm]; destruct (Nat.eqb_spec t' t) as [->|Ht'].
          -- split; [discriminate|]. intros [_ Hc]. contradiction.
          -- split; [discriminate|]. intros [_ Hin']. apply (TS_held HS) in Hin'. congruence.
          -- rewrite T2. rewrite (R3 m Hm). tauto.
          -- apply T2.
        * intros t'. cbn [tph tstep_aux]. unfold upd. destruct (Nat.eqb_spec t' t) as [E|Hne].
          -- subst t'. rewrite Nat.eqb_refl, Hp. reflexivity.
          -- destruct (Nat.eqb_spec t t'); [congruence|lia].
    - apply tframe_step.
    - rewrite tview_step, Hh. exact Ks.
  Qed.

  (** ** the programs *)
  Definition TQdone (H : list nat) : bool -> list nat * tphase -> Prop :=
    fun ok l => ok = true -> l = (H, TBusy).

  Lemma safe_tput_loop fuel : forall t H n hp ht, safe t (tput_loop fuel n hp ht) (H, TPHead n hp ht) (TQdone H).
  Proof.
    induction fuel as [|f IH]; intros t H n hp ht; cbn [tput_loop].
    - cbn. unfold TQdone. discriminate.
    - apply rule_tst_next. intros _. apply rule_tcas_put.
      + rewrite same_head_true. cbn. unfold TQdone. reflexivity.
      + intros c ct E. rewrite E. cbn [fst snd]. apply IH.
  Qed.

  Lemma safe_tput fuel t H n : safe t (tput fuel n) (H, TPPut n) (TQdone H).
  Proof. unfold tput. apply rule_tld_head_put. intros hp ht. cbn [fst snd]. apply safe_tput_loop. Qed.

  Definition TQget (H : list nat) : option nat -> list nat * tphase -> Prop :=
    fun r l => match r with
               | None => True
               | Some O => exists ht, l = (H, TGHead O ht)
               | Some n => l = (H, TPRet n)
               end.

  Lemma safe_tget_loop fuel : forall t H hp ht, safe t (tget_loop fuel hp ht) (H, TGHead hp ht) (TQget H).
  Proof.
    induction fuel as [|f IH]; intros t H hp ht; cbn [tget_loop].
    - cbn. exact I.
    - destruct (Nat.eqb_spec hp 0) as [E|Hnz]; [subst hp; cbn; eexists; reflexivity|].
      apply rule_tld_next. intros nx. cbv zeta. cbn [fst]. apply rule_tcas_get; [exact Hnz| |].
      + rewrite same_head_true. cbn. destruct hp; [contradiction|reflexivity].
      + intros c ct E. rewrite E. cbn [fst snd]. apply IH.
  Qed.

  Lemma safe_tget fuel t H : safe t (tget fuel) (H, TBusy) (TQget H).
  Proof. unfold tget. apply rule_tld_head_get. intros hp ht. cbn [fst snd]. apply safe_tget_loop. Qed.

  (** get() started from any phase without a claim (the second backing get() of CachedFreeList::get) *)
  Lemma rule_tld_head_get' t H p R (k : TV -> tprog R) Q :
    tclaim p = None -> p <> TIdle ->
    (forall hp ht, safe t (k (hp, ht)) (H, TGHead hp ht) Q) ->
    safe t (Act ta_ld_head k) (H, p) Q.
  Proof.
    intros Hc Hni Hk. apply rule_tlocal with (p' := fun g => TGHead (thead g) (ttag g)) (n0 := O);
      [local_f|left; exact Hc|intros; cbn; auto|intros g E; congruence|intros; destruct p; cbn; congruence|exact Hni| |].
    - intros g a HS Hh Hp. split; [lia|reflexivity].
    - intros g. apply Hk.
  Qed.

  Lemma safe_tget' fuel t H p : tclaim p = None -> p <> TIdle -> safe t (tget fuel) (H, p) (TQget H).
  Proof. intros Hc Hni. unfold tget. apply rule_tld_head_get'; auto. intros hp ht. cbn [fst snd]. apply safe_tget_loop. Qed.

  Lemma safe_trun_ops fuel t : (t < NR)%nat -> forall os H, safe t (trun_ops fuel os H) (H, TIdle) (@Conc.QTrue _).
  Proof.
    intros HtR. assert (Ht : (t < N)%nat) by lia. induction os as [|o r IH]; intros H; cbn [trun_ops]; [exact I|].
    destruct o as [|i].
    - apply rule_temit_plain with (p' := TBusy); auto. apply Conc.safe_bind.
      eapply Conc.safe_weaken; [|apply safe_tget].
      intros res l Hl. destruct res as [[|n]|]; cbn in Hl.
      + destruct Hl as [ht ->]. apply rule_temit_plain with (p' := TIdle); auto.
      + subst l. apply rule_temit_ret_get; [exact HtR|]. apply IH.
      + apply rule_temit_oof.
    - destruct (nth_error H i) as [n|] eqn:Hi.
      + eapply rule_temit_inv_put; [exact Ht|exact HtR|exact Hi|]. apply Conc.safe_bind.
        eapply Conc.safe_weaken; [|apply safe_tput].
        intros ok l Hl. destruct ok.
        * rewrite (Hl eq_refl). apply rule_temit_plain with (p' := TIdle); auto.
        * apply rule_temit_oof.
      + apply rule_temit_plain with (p' := TIdle); auto.
  Qed.

  Lemma safe_tthread fuel t os H : (t < NR)%nat -> safe t (tthread_prog fuel os H) (H, TIdle) (@Conc.QTrue _).
  Proof. intros Ht. unfold tthread_prog. apply rule_tbegin. intros _. apply safe_trun_ops. exact Ht. Qed.
End TSafe.
