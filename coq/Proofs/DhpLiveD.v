(** * DhpLiveD: C02, second sentence for DHP.  Part D: the client operations (protect and publish are the two that
      the summary looks into), whole threads, the initial configuration; what [InvL] gives for every reachable
      configuration. *)
From Coq Require Import ZArith NArith List String Bool Lia PeanoNat.
From LV Require Import Base.Conc Base.Events Model.DhpLang Model.Dhp Proofs.DhpBase Proofs.DhpHist
  Proofs.DhpLangProofs Proofs.DhpProofsC02 Proofs.DhpLiveA Proofs.DhpLiveB Proofs.DhpLiveC.
Import ListNotations.
Local Open Scope string_scope.
Local Open Scope list_scope.

Notation dsafeL := (@dsafe G ev S VL viewL InvL).
Definition QT {R} : R -> VL -> Prop := fun _ _ => True.

(** indices recorded in the summary lie inside the trace *)
Lemma lsl_lt tr t n s x : lsl (sfold tr) t = Some (n, s, x) -> n < List.length tr.
Proof.
  induction tr as [|[u e] tr IH] using rev_ind; [discriminate|]. rewrite sfold_snoc, app_length. cbn [List.length].
  unfold sstep. cbn [fst snd]. pose proof (slen_sfold tr) as Hl.
  destruct (lcls e); cbn [lsl]; try (intros H; specialize (IH H); lia).
  - unfold fnu. destruct (Nat.eqb t u); [discriminate|]. intros H; specialize (IH H); lia.
  - unfold fnu. destruct (Nat.eqb t u); [intros H; inversion H; lia|]. intros H; specialize (IH H); lia.
  - destruct (pend (sfold tr) u) as [[k' q]|]; [destruct (Nat.eqb k k')|]; cbn [lsl]; intros H; specialize (IH H); lia.
Qed.

Lemma not_protect_op code args : code <> 7 -> forall j k, zl (code :: args) <> [7%Z; j; k].
Proof. intros H j k E. cbn in E. inversion E. unfold zn in *. lia. Qed.

Section Ops.
  Variable c : cfg.

  Lemma InvL_plain g a tr t e : InvL g a tr -> plainb e = true -> sv (sstep a (t, e)) = sv a ->
    InvL g (fold_left sstep (Conc.tag t [e]) a) (tr ++ Conc.tag t [e]).
  Proof.
    intros (E & Hs & Ht) He Hsv. split; [rewrite sfold_app; now subst a|]. split.
    - cbn. unfold SrcOK. rewrite Hsv. exact Hs.
    - apply TProp_plain; [exact Ht|]. constructor; [exact He|constructor].
  Qed.

  Lemma dsafeL_inv {Y} t code args (q : P Y) l Q :
    (forall l', v_op l' = zl (code :: args) -> v_pend l' = pend_of (zl (code :: args)) -> dsafeL t q l' Q) ->
    dsafeL t (inv code args ;;; q) l Q.
  Proof.
    intros H. unfold inv, xbind, emit. cbn [dbind]. apply dsafeL_emit. intros g a tr Hi Hv.
    split; [apply InvL_plain; auto|]. apply H; cbn; unfold sstep; cbn; now rewrite fnu_same.
  Qed.

  Lemma dsafeL_rsp_ret t v (L' : Dhp.L) l : (forall j k, v_op l <> [7%Z; j; k]) -> dsafeL t (rsp v ;;; ret L') l QT.
  Proof.
    intros Hop. unfold rsp, xbind, emit, ret. cbn [dbind]. apply dsafeL_emit. intros g a tr (E & Hs & Ht) Hv.
    split; [|exact I]. split; [rewrite sfold_app; now subst a|]. split; [exact Hs|].
    apply TProp_app; [exact Ht|]. intros i u e Hn. apply nth_tag in Hn. destruct Hn as (-> & Hn).
    destruct i as [|[|i]]; cbn in Hn; try discriminate. inversion Hn; subst e. cbn [firstn]. rewrite app_nil_r, <- E.
    split; [|intros D; discriminate]. intros z _ j k Hj. exfalso. apply (Hop j k). rewrite <- Hv. exact Hj.
  Qed.

  Lemma dsafeL_skip_ret t (L' : Dhp.L) l : dsafeL t (skip ;;; ret L') l QT.
  Proof.
    unfold skip, xbind, emit, ret. cbn [dbind]. apply dsafeL_emit. intros g a tr Hi Hv.
    split; [|exact I]. eapply InvL_lib; eauto.
  Qed.

  Lemma dsafeL_lib_seq {X Y} t (p : P X) (q : X -> P Y) l :
    LibG Rw p -> (forall x l', v_op l' = v_op l -> dsafeL t (q x) l' QT) -> dsafeL t (xbind p q) l QT.
  Proof.
    intros Hp Hq. unfold xbind. apply dsafe_bind. eapply dsafe_weaken; [|apply Hp].
    intros [x|] l' K; cbn beta iota; [apply Hq; exact K|exact I].
  Qed.

  (** Guard::protect: when the loop leaves with a non-null pointer [v], the thread's last load of the source read
      [v], and its last store to the hazard cell (if it hit a cell) stored [v] and came before that load *)
  Lemma spec_protect_loop t r s k j : forall fuel pcur l, v_op l = [7%Z; zn j; zn k] ->
    dsafeL t (protect_loop fuel r s k pcur) l
      (fun o l' => v_op l' = v_op l /\
                   match o with
                   | Some v => v <> 0 -> exists w, v_ld l' = Some (w, k, v) /\
                                 forall g0 s' x, v_sl l' = Some (g0, s', x) -> x = v /\ g0 < w
                   | None => True
                   end).
  Proof.
    induction fuel as [|fuel IH]; intros pcur l Hop; cbn [protect_loop].
    { unfold fuel_out. apply dsafeL_emit. intros g a tr Hi Hv.
      assert (Hq : Forall (fun e => libevb e = true) [EvCli "outoffuel" []]) by (repeat constructor).
      split; [eapply InvL_lib; eauto|]. cbn [dsafe]. split; [|exact I]. rewrite <- Hv. apply (Rs_fold t _ a Hq). }
    unfold xbind at 1. unfold act at 1. cbn [dbind].
    apply dsafeL_act. intros g a tr Hi Hv.
    split; [eapply InvL_lib; eauto; apply l_st_slot|].
    set (a1 := fold_left sstep (Conc.tag t (snd (a_st_slot s pcur g))) a).
    assert (V1 : v_op (viewL a1 t) = v_op l /\ (v_sl (viewL a1 t) = None \/ exists n, v_sl (viewL a1 t) = Some (n, s, pcur))).
    { split.
      - rewrite <- Hv. apply (Rs_fold t _ a (proj2 (l_st_slot s pcur g))).
      - unfold a1, a_st_slot. cbn [snd fst]. unfold acc. cbn [app]. destruct (slot_valid g s); cbn [Conc.tag map fold_left].
        + right. unfold sstep at 1. cbn [snd fst]. rewrite lcls_slot. cbn. rewrite fnu_same. eauto.
        + left. unfold sstep at 1. cbn [snd fst]. rewrite lcls_acc_slot. cbn. now rewrite fnu_same. }
    generalize dependent (viewL a1 t). intros l1 (V1 & V2). clear a1. cbn [a_st_slot fst snd].
    unfold xbind at 1. unfold act at 1. cbn [dbind].
    apply dsafeL_act. intros g1 a1 tr1 Hi1 Hv1.
    split; [eapply InvL_lib; eauto; apply l_faa_sync|].
    assert (Hin : Forall (fun e => inertb e = true) (snd (a_faa_sync r g1))) by (repeat constructor).
    assert (V3 : viewL (fold_left sstep (Conc.tag t (snd (a_faa_sync r g1))) a1) t = l1).
    { destruct (inert_fold t _ Hin a1) as (B1&B2&B3&B4&B5&B6). rewrite <- Hv1. unfold viewL. now rewrite B1, B2, B3, B4, B5. }
    rewrite V3. cbn [a_faa_sync fst snd].
    unfold xbind at 1. unfold act at 1. cbn [dbind].
    apply dsafeL_act. intros g2 a2 tr2 Hi2 Hv2.
    split; [eapply InvL_lib; eauto; apply l_ld_src|].
    cbn [a_ld_src fst snd]. set (v := nth k (srcs g2) 0).
    set (a3 := fold_left sstep (Conc.tag t (acc KLd (obj_src k) true)) a2).
    assert (V4 : v_op (viewL a3 t) = v_op l /\ v_sl (viewL a3 t) = v_sl l1 /\ v_ld (viewL a3 t) = Some (slen a2, k, sv a2 k)).
    { unfold a3. cbn. unfold sstep. cbn [fst snd lcls obj_src]. unfold zn. rewrite Nat2Z.id. cbn. rewrite fnu_same.
      change (lop a2 t) with (v_op (viewL a2 t)). change (lsl a2 t) with (v_sl (viewL a2 t)). rewrite Hv2. auto. }
    destruct (Nat.eqb_spec v pcur) as [Ev|Nv].
    - cbn [dsafe ret]. split; [apply V4|]. intros Hv0. exists (slen a2). split.
      + destruct V4 as (_&_&->). destruct Hi2 as (E2 & Hs2 & _). f_equal. f_equal. symmetry. apply Hs2.
        destruct (Nat.lt_ge_cases k (List.length (srcs g2))) as [L|L]; [exact L|]. exfalso. apply Hv0. unfold v. now apply nth_overflow.
      + intros g0 s' x Hsl. destruct V4 as (_&V4&_). rewrite V4 in Hsl. destruct V2 as [V2|(n & V2)]; rewrite V2 in Hsl; [discriminate|].
        inversion Hsl; subst g0 s' x. split; [congruence|].
        destruct Hi2 as (E2 & _). rewrite E2, slen_sfold. apply (lsl_lt tr2 t n s pcur). rewrite <- E2.
        change (lsl a2 t) with (v_sl (viewL a2 t)). now rewrite Hv2.
    - eapply dsafe_weaken; [|apply (IH v (viewL a3 t))]; [|destruct V4 as (V4&_); congruence].
      intros o l' (K1 & K2). split; [destruct V4 as (V4&_); congruence|exact K2].
  Qed.

  Ltac notp := intros j' k'; match goal with H : v_op _ = _ |- _ => rewrite H end; apply not_protect_op; lia.

  Lemma spec_run_op t L l o : dsafeL t (run_op c t L o) l QT.
  Proof.
    destruct o as [| |j|j|j p|j|j k|k p|p| |k v]; cbn [run_op].
    - (* attach *)
      apply dsafeL_inv. intros l1 Hop _. destruct (l_tls L) as [r|]; [apply dsafeL_skip_ret|].
      apply dsafeL_lib_seq; [apply (L_alloc_thread_data Rw Rw_refl Rw_trans Rw_lib)|]. intros r l2 E2.
      apply dsafeL_lib_seq; [apply (LibG_emit Rw Rw_lib); repeat constructor|]. intros _ l3 E3.
      apply dsafeL_rsp_ret. intros j' k'. rewrite E3, E2, Hop. apply not_protect_op. lia.
    - (* detach *)
      apply dsafeL_inv. intros l1 Hop _. destruct (l_tls L) as [r|]; [|apply dsafeL_skip_ret].
      apply dsafeL_lib_seq; [apply L_free_thread_data; repeat constructor|]. intros _ l2 E2.
      apply dsafeL_rsp_ret. intros j' k'. rewrite E2, Hop. apply not_protect_op. lia.
    - (* Guard() *)
      apply dsafeL_inv. intros l1 Hop _. destruct (l_tls L) as [r|]; [|apply dsafeL_skip_ret].
      destruct (gfind (l_guards L) j); [apply dsafeL_skip_ret|].
      apply dsafeL_lib_seq; [apply (L_hp_galloc Rw Rw_refl Rw_trans Rw_lib)|]. intros [s|] l2 E2.
      + apply dsafeL_lib_seq; [apply (LibG_emit Rw Rw_lib); repeat constructor; apply libev_own|]. intros _ l3 E3.
        apply dsafeL_rsp_ret. intros j' k'. rewrite E3, E2, Hop. apply not_protect_op. lia.
      + unfold xbind, emit, ret. cbn [dbind]. apply dsafeL_emit. intros g a tr Hi Hv.
        split; [|exact I]. eapply InvL_lib; eauto.
    - (* ~Guard() *)
      apply dsafeL_inv. intros l1 Hop _. destruct (l_tls L) as [r|]; [|apply dsafeL_skip_ret].
      destruct (gfind (l_guards L) j) as [s|]; [|apply dsafeL_skip_ret].
      apply dsafeL_lib_seq; [apply (LibG_emit Rw Rw_lib); repeat constructor; apply libev_rel|]. intros _ l2 E2.
      apply dsafeL_lib_seq; [apply (L_hp_gfree Rw Rw_refl Rw_trans Rw_lib)|]. intros _ l3 E3.
      apply dsafeL_rsp_ret. intros j' k'. rewrite E3, E2, Hop. apply not_protect_op. lia.
    - (* assign *)
      apply dsafeL_inv. intros l1 Hop _. destruct (l_tls L) as [r|]; [|apply dsafeL_skip_ret].
      destruct (gfind (l_guards L) j) as [s|]; [|apply dsafeL_skip_ret].
      apply dsafeL_lib_seq; [apply (LibG_act Rw Rw_lib); apply l_st_slot|]. intros _ l2 E2.
      apply dsafeL_lib_seq; [apply (LibG_act Rw Rw_lib); apply l_faa_sync|]. intros _ l3 E3.
      apply dsafeL_rsp_ret. intros j' k'. rewrite E3, E2, Hop. apply not_protect_op. lia.
    - (* clear *)
      apply dsafeL_inv. intros l1 Hop _. destruct (l_tls L) as [r|]; [|apply dsafeL_skip_ret].
      destruct (gfind (l_guards L) j) as [s|]; [|apply dsafeL_skip_ret].
      apply dsafeL_lib_seq; [apply (LibG_act Rw Rw_lib); apply l_st_slot|]. intros _ l2 E2.
      apply dsafeL_rsp_ret. intros j' k'. rewrite E2, Hop. apply not_protect_op. lia.
    - (* protect *)
      apply dsafeL_inv. intros l1 Hop _. destruct (l_tls L) as [r|]; [|apply dsafeL_skip_ret].
      destruct (gfind (l_guards L) j) as [s|]; [|apply dsafeL_skip_ret].
      apply dsafeL_lib_seq; [apply (LibG_act Rw Rw_lib); apply l_ld_src|]. intros p0 l2 E2.
      unfold xbind at 1. apply dsafe_bind. cbn in Hop.
      eapply dsafe_weaken; [|apply (spec_protect_loop t r s k j (c_spin c) p0 l2); rewrite E2; exact Hop].
      intros [v|] l3 (K1 & K2); cbn beta iota; [|exact I].
      unfold rsp, xbind, emit, ret. cbn [dbind]. apply dsafeL_emit. intros g a tr (E & Hs & Ht) Hv.
      split; [|exact I]. split; [rewrite sfold_app; now subst a|]. split; [exact Hs|].
      apply TProp_app; [exact Ht|]. intros i u e Hn. apply nth_tag in Hn. destruct Hn as (-> & Hn).
      destruct i as [|[|i]]; cbn in Hn; try discriminate. inversion Hn; subst e. cbn [firstn]. rewrite app_nil_r, <- E.
      split; [|intros D; discriminate]. intros z Ez j' k' Hj Hz. cbn in Ez. inversion Ez; subst z.
      change (lop a t) with (v_op (viewL a t)) in Hj. rewrite Hv, K1, E2, Hop in Hj. inversion Hj; subst j' k'.
      unfold zn in *. rewrite !Nat2Z.id in *. destruct (K2 Hz) as (w & W1 & W2). exists w.
      change (lld a t) with (v_ld (viewL a t)). change (lsl a t) with (v_sl (viewL a t)). rewrite Hv. split; [exact W1|exact W2].
    - (* publish *)
      apply dsafeL_inv. intros l1 Hop Hpe.
      unfold xbind at 1. unfold act at 1. cbn [dbind].
      apply dsafeL_act. intros g a tr (E & Hs & Ht) Hv.
      assert (Hp : pend a t = Some (k, p)).
      { change (pend a t) with (v_pend (viewL a t)). rewrite Hv, Hpe. cbn. unfold zn. now rewrite !Nat2Z.id. }
      assert (Hst : sstep a (t, EvAcc KSt (obj_src k) true) =
                    mkS (Datatypes.S (slen a)) (lop a) (fnu (pend a) t None) (lsl a) (lld a) (lsc a) (fnu (sv a) k p)).
      { unfold sstep. cbn [fst snd lcls obj_src]. unfold zn. rewrite Nat2Z.id. rewrite Hp, Nat.eqb_refl. reflexivity. }
      cbn [a_st_src fst snd acc Conc.tag map fold_left]. rewrite Hst. split.
      + split; [rewrite sfold_app; cbn [Conc.tag map fold_left]; rewrite <- E; now rewrite Hst|]. split.
        * unfold SrcOK. cbn [srcs set_srcs sv]. intros k0 Hk0. rewrite upd_nth_length in Hk0. unfold fnu.
          destruct (Nat.eqb_spec k0 k) as [->|N].
          -- now rewrite nth_upd_nth_same.
          -- rewrite nth_upd_nth_other by congruence. now apply Hs.
        * apply (TProp_plain tr t [EvAcc KSt (obj_src k) true]); [exact Ht|]. repeat constructor.
      + apply dsafeL_rsp_ret. intros j' k'. cbn. change (lop a t) with (v_op (viewL a t)). rewrite Hv, Hop. apply not_protect_op. lia.
    - (* retire *)
      apply dsafeL_inv. intros l1 Hop _. destruct (l_tls L) as [r|]; [|apply dsafeL_skip_ret].
      apply dsafeL_lib_seq; [apply (LibG_loc Rw Rw_refl); intros g; apply srcs_rt_push|]. intros ok l2 E2.
      apply dsafeL_lib_seq; [destruct ok; [apply (LibG_ret Rw Rw_refl)|apply L_scan]|]. intros _ l3 E3.
      apply dsafeL_rsp_ret. intros j' k'. rewrite E3, E2, Hop. apply not_protect_op. lia.
    - (* scan *)
      apply dsafeL_inv. intros l1 Hop _. destruct (l_tls L) as [r|]; [|apply dsafeL_skip_ret].
      apply dsafeL_lib_seq; [apply L_scan|]. intros _ l2 E2.
      apply dsafeL_rsp_ret. intros j' k'. rewrite E2, Hop. apply not_protect_op. lia.
    - (* wait *)
      apply dsafeL_inv. intros l1 Hop _.
      assert (Hw : forall fuel, LibG Rw (wait_loop fuel k v)).
      { induction fuel as [|fuel IH]; cbn [wait_loop]; [apply (LibG_fuel_out Rw Rw_lib)|].
        apply (LibG_xbind Rw Rw_refl Rw_trans); [apply (LibG_act Rw Rw_lib); apply l_ld_src|]. intros x.
        destruct (Nat.eqb x v); [apply (LibG_ret Rw Rw_refl)|apply IH]. }
      apply dsafeL_lib_seq; [apply Hw|]. intros _ l2 E2.
      apply dsafeL_rsp_ret. intros j' k'. rewrite E2, Hop. apply not_protect_op. lia.
  Qed.

  Lemma spec_run_ops t : forall os L l, dsafeL t (run_ops c t L os) l QT.
  Proof.
    induction os as [|o os IH]; intros L l; cbn [run_ops]; [exact I|].
    unfold xbind. apply dsafe_bind. eapply dsafe_weaken; [|apply (spec_run_op t L l o)].
    intros [L'|] l1 _; [apply IH|exact I].
  Qed.

  Lemma spec_thread t os l : dsafeL t (thread_src c t os) l (fun _ _ => True).
  Proof.
    unfold thread_src. apply dsafeL_act. intros g a tr Hi Hv. split; [eapply InvL_lib; eauto; apply l_begin|].
    cbn [a_begin fst snd]. unfold to_unit. apply dsafe_bind. eapply dsafe_weaken; [|apply spec_run_ops].
    intros r l' _. exact I.
  Qed.
End Ops.

Lemma cfg_ok_initL fuel c ths : Conc.cfg_ok viewL InvL (init_cfg fuel c ths).
Proof.
  exists s0. split.
  - cbn. split; [reflexivity|]. split; [|intros v t e Hn; destruct v; discriminate].
    intros k Hk. cbn. apply nth_repeat.
  - intros t p Hp. unfold init_cfg in Hp. cbn [Conc.threads] in Hp. rewrite nth_error_map in Hp.
    destruct (nth_error (combine (seq 0 (List.length ths)) ths) t) as [[t' os]|] eqn:E; [|discriminate].
    cbn in Hp. inversion Hp; subst p. apply nth_error_combine_seq in E. cbn in E. subst t'.
    apply compile_safe. apply spec_thread.
Qed.

(** ** what holds in every reachable configuration *)
Theorem dhp_liveL : forall fuel c ths conf, Conc.reach (init_cfg fuel c ths) conf ->
  SrcOK (Conc.shared conf) (sfold (Conc.trace conf)) /\ TProp PhiA (Conc.trace conf).
Proof.
  intros fuel c ths conf Hr. destruct (Conc.reach_Inv (cfg_ok_initL fuel c ths) Hr) as (a & E & Hs & Ht).
  subst a. auto.
Qed.
