(** * DhpFlKnot: tying the knot between the DHP invariants and the open-world free-list invariants.

    Six invariants hold together on every reachable configuration, each conditional on a trace predicate:
      [InvA c]       (flbad = false                      -> JA:  guard blocks have one owner, ...)
      [InvB c]       (flbad = false                      -> JO, JK, JR: retired blocks have one owner, ...;
                      the pointer-free part of the C03 invariant, LV.Proofs.DhpFlBInv, valid for every client)
      [DInv NR f]    (client of free list f behaved      -> free list f never handed out a block it did not hold)
      [InvX f]       (free list f never misbehaved       -> only announced, initialised blocks are freed / known)
    [Good tr] is the conjunction of all the trace predicates.  It is established node by node: the event list of
    one program node contains no allocator event, or is one event (LV.Proofs.DhpFlNok); an "_alloc" cannot make the
    client misbehave, so the free-list invariants give [m_abad = false] and the bridge gives [flbad = false];
    a "_free" / "_new" cannot make a free list misbehave, so JA / JB (block not currently free) and JX (block
    exists, initialised; new block did not exist) give [m_cbad = false]. *)
From Coq Require Import ZArith NArith List String Bool Lia PeanoNat.
From LV Require Import Base.Conc Base.Events Model.FreeList Model.DhpLang Model.Dhp Proofs.DhpBase Proofs.DhpHist
  Proofs.DhpLangProofs Proofs.FreeListBase Proofs.FreeListInv Proofs.FreeListOpen Proofs.FreeListOpenRules Proofs.FreeListOpenDhp Proofs.FreeListOpenDhpRules
  Proofs.FreeListOpenDhpThm Proofs.FreeListOpenDhpBridge Proofs.DhpCertBase Proofs.DhpInvA Proofs.DhpInvB Proofs.DhpFlBInv
  Proofs.DhpFlX Proofs.DhpFlXSp Proofs.DhpFlNok.
Import ListNotations.

(** ** the generic step: a trace predicate that every node re-establishes from the invariant after the node *)
Section Knot.
  Variables (Aux L : Type).
  Variable view : Aux -> nat -> L.
  Variable Inv0 : Dhp.G -> Aux -> list (nat * ev) -> Prop.
  Variable Good : list (nat * ev) -> Prop.
  Hypothesis Hk : forall t tr es g a, node_es es -> Good tr -> Inv0 g a (tr ++ Conc.tag t es) -> Good (tr ++ Conc.tag t es).

  Definition Inv1 (g : Dhp.G) (a : Aux) (tr : list (nat * ev)) : Prop := Inv0 g a tr /\ Good tr.

  Theorem knot_dsafe {R} t (p : @dprog Dhp.G ev R) : nok p -> forall l (Q : R -> L -> Prop),
    dsafe view Inv0 t p l Q -> dsafe view Inv1 t p l Q.
  Proof.
    induction p as [r|es k IH|X fn k IH|X fn k IH]; intros Hn l Q H; cbn [dsafe nok] in *.
    - exact H.
    - destruct Hn as [Hn1 Hn2]. intros g a tr [HI HG] Hv. destruct (H g a tr HI Hv) as (a' & H1 & H2 & H3).
      exists a'. split; [split; [exact H1|eapply Hk; eauto]|]. split; [exact H2|]. apply IH; auto.
    - intros g a tr [HI HG] Hv. destruct (H g a tr HI Hv) as (a' & H1 & H2 & H3).
      exists a'. split; [split; [exact H1|exact HG]|]. split; [exact H2|]. apply IH; auto.
    - destruct Hn as [Hn1 Hn2]. intros g a tr [HI HG] Hv. destruct (H g a tr HI Hv) as (a' & H1 & H2 & H3).
      exists a'. split; [split; [exact H1|eapply Hk; eauto]|]. split; [exact H2|]. apply IH; auto.
  Qed.
End Knot.

(** ** trace-level facts *)
Lemma flbad_fold tr : forall h, flbad h = true -> flbad (fold_left hstep tr h) = true.
Proof. induction tr as [|e r IH]; intros h H; cbn; auto. apply IH. now apply flbad_mono_step. Qed.

Lemma flbad_noafn t es : noafn es -> forall h, flbad (fold_left hstep (Conc.tag t es) h) = flbad h.
Proof.
  induction es as [|e es IH]; intros Hn h; cbn; [reflexivity|].
  rewrite IH by (intros x Hx; apply Hn; now right).
  assert (He : afn e = false) by (apply Hn; now left). unfold afn in He.
  unfold hstep. cbn [snd fst]. destruct (classify e); try discriminate; reflexivity.
Qed.

Lemma noafn_qI f es : noafn es -> qI f es.
Proof.
  intros H e He. specialize (H e He). destruct e as [k o ok|name args]; [apply (qI_acc f k o ok); now left|].
  left. unfold clsf. unfold afn in H. destruct (classify (EvCli name args)); try reflexivity; discriminate.
Qed.

Lemma relf_fold f tr : forall h m, relf f h m ->
  flbad (fold_left hstep tr h) = false -> m_cbad (fold_left (mstep (clsf f)) tr m) = false -> m_abad (fold_left (mstep (clsf f)) tr m) = false ->
  relf f (fold_left hstep tr h) (fold_left (mstep (clsf f)) tr m).
Proof.
  induction tr as [|te r IH]; intros h m R F C A; cbn [fold_left] in *; [exact R|].
  assert (F0 : flbad h = false).
  { destruct (flbad h) eqn:E; [|reflexivity]. rewrite (flbad_fold r _ (flbad_mono_step h te E)) in F. discriminate. }
  assert (C1 : m_cbad (mstep (clsf f) m te) = false).
  { destruct (m_cbad (mstep (clsf f) m te)) eqn:E; [|reflexivity]. rewrite (cbad_fold (clsf f) r _ E) in C. discriminate. }
  assert (A1 : m_abad (mstep (clsf f) m te) = false).
  { destruct (m_abad (mstep (clsf f) m te)) eqn:E; [|reflexivity]. rewrite (abad_fold (clsf f) r _ E) in A. discriminate. }
  apply IH; auto. apply (rel_step f h m te F0 R C1 A1).
Qed.

Lemma relf_run f tr : flbad (hist tr) = false -> m_cbad (mrun (clsf f) mzero tr) = false -> m_abad (mrun (clsf f) mzero tr) = false ->
  relf f (hist tr) (mrun (clsf f) mzero tr).
Proof. intros F C A. unfold hist, mrun in *. apply relf_fold; auto. split; [constructor|intros b; reflexivity]. Qed.

(** ** the six invariants together *)
Section Six.
  Variable c : cfg.
  Variable NR : nat.
  Hypothesis HN2 : (Z.of_nat (S NR) + 2 < FLAG)%Z.

  Notation mrunH := (mrun (clsf FHp) mzero).
  Notation mrunR := (mrun (clsf FRt) mzero).

  Definition Aux6 : Type := AuxA * (AuxB * (DAux * (DAux * (AuxX * AuxX)))).
  Definition L6 : Type := VA * (VB * (VF * (VF * (XV * XV)))).
  Definition view6 : Aux6 -> nat -> L6 :=
    vprod _ _ _ _ viewA (vprod _ _ _ _ viewB (vprod _ _ _ _ dview (vprod _ _ _ _ dview (vprod _ _ _ _ viewX viewX)))).
  Definition Inv6 : Dhp.G -> Aux6 -> list (nat * ev) -> Prop :=
    Iprod _ _ (InvA c) (Iprod _ _ (InvB c) (Iprod _ _ (DInv NR FHp) (Iprod _ _ (DInv NR FRt) (Iprod _ _ (InvX FHp) (InvX FRt))))).

  Definition GoodC (tr : list (nat * ev)) : Prop :=
    flbad (hist tr) = false /\ m_cbad (mrunH tr) = false /\ m_cbad (mrunR tr) = false /\
    m_abad (mrunH tr) = false /\ m_abad (mrunR tr) = false.
  Definition Good (tr : list (nat * ev)) : Prop := GoodC tr.

  Lemma fl_eqb_true f0 f : fl_eqb f0 f = true -> f0 = f.
  Proof. destruct f0, f; cbn; congruence. Qed.
  Lemma fl_eqb_false f0 f : fl_eqb f0 f = false -> f0 <> f.
  Proof. destruct f0, f; cbn; congruence. Qed.

  (** one allocator event *)
  Lemma mrun_snoc1 f tr t e : mrun (clsf f) mzero (tr ++ Conc.tag t [e]) = mstep_ev (mrun (clsf f) mzero tr) (clsf f e).
  Proof. rewrite mrun_app. reflexivity. Qed.

  Lemma freeh_snoc_free tr t e f0 b : classify e = HFree f0 b -> freeh (hist (tr ++ Conc.tag t [e])) f0 = b :: freeh (hist tr) f0.
  Proof. intros E. cbn [Conc.tag map]. rewrite hist_snoc. unfold hstep. cbn [snd fst]. rewrite E. cbn [freeh]. unfold fupd. now rewrite fl_eqb_refl. Qed.
  Lemma flbad_snoc_nonalloc tr t e : (forall f0 b, classify e <> HAlloc f0 b) -> flbad (hist (tr ++ Conc.tag t [e])) = flbad (hist tr).
  Proof.
    intros E. cbn [Conc.tag map]. rewrite hist_snoc. unfold hstep. cbn [snd fst]. destruct (classify e) eqn:Ec; try reflexivity.
    exfalso. eapply E; reflexivity.
  Qed.

  Theorem Good_step : forall t tr es g a, node_es es -> Good tr -> Inv6 g a (tr ++ Conc.tag t es) -> Good (tr ++ Conc.tag t es).
  Proof.
    intros t tr es g a Hnode HG HI.
    destruct a as (aA & aB & dH & dR & xH & xR).
    destruct HI as (IA & IB & DH & DR & XH & XR). cbn [fst snd] in *.
    destruct HG as (F & CH & CR & AH & AR). unfold Good.
    destruct Hnode as [Hno|(e & ->)].
    { (* no allocator event: nothing changes *)
      destruct (qI_fold FHp t es (noafn_qI FHp es Hno) (mrunH tr)) as (_ & _ & _ & EA1 & EC1).
      destruct (qI_fold FRt t es (noafn_qI FRt es Hno) (mrunR tr)) as (_ & _ & _ & EA2 & EC2).
      unfold GoodC. rewrite !mrun_app, hist_app, flbad_noafn by exact Hno. rewrite EA1, EC1, EA2, EC2. repeat split; assumption. }
    destruct e as [k o ok|name args].
    { (* an access *)
      assert (Hno : noafn [EvAcc k o ok]) by (apply noafn_acc).
      destruct (qI_fold FHp t _ (noafn_qI FHp _ Hno) (mrunH tr)) as (_ & _ & _ & EA1 & EC1).
      destruct (qI_fold FRt t _ (noafn_qI FRt _ Hno) (mrunR tr)) as (_ & _ & _ & EA2 & EC2).
      unfold GoodC. rewrite !mrun_app, hist_app, flbad_noafn by exact Hno. rewrite EA1, EC1, EA2, EC2. repeat split; assumption. }
    set (e := EvCli name args) in *. set (tr' := tr ++ Conc.tag t [e]) in *.
    assert (Ecls : forall f, clsf f e = match classify e with
                                        | HAlloc f' b => if fl_eqb f' f then FAlloc (S b) else FNone
                                        | HNew f' b => if fl_eqb f' f then FNew (S b) else FNone
                                        | HFree f' b => if fl_eqb f' f then FFree (S b) else FNone
                                        | _ => FNone end) by (intros f; reflexivity).
    destruct (classify e) as [s v|r|r|r b|f0 b|f0 b|f0 b|r|r|p|] eqn:Ecl.
    1-4,8-11: (assert (Hno : noafn [e]) by (apply noafn_cons; [unfold afn; rewrite Ecl; reflexivity|apply noafn_nil]);
      destruct (qI_fold FHp t _ (noafn_qI FHp _ Hno) (mrunH tr)) as (_ & _ & _ & EA1 & EC1);
      destruct (qI_fold FRt t _ (noafn_qI FRt _ Hno) (mrunR tr)) as (_ & _ & _ & EA2 & EC2);
      unfold GoodC, tr'; rewrite !mrun_app, hist_app, flbad_noafn by exact Hno; rewrite EA1, EC1, EA2, EC2; repeat split; assumption).
    - (* "_alloc f0 b": the clients stay good, so neither free list misbehaved, so the history is good *)
      assert (CH' : m_cbad (mrunH tr') = false).
      { unfold tr'. rewrite mrun_snoc1, Ecls. destruct (fl_eqb f0 FHp); cbn [mstep_ev]; [|exact CH]. destruct (m_fr _ _); exact CH. }
      assert (CR' : m_cbad (mrunR tr') = false).
      { unfold tr'. rewrite mrun_snoc1, Ecls. destruct (fl_eqb f0 FRt); cbn [mstep_ev]; [|exact CR]. destruct (m_fr _ _); exact CR. }
      pose proof (DInv_no_bad_alloc NR FHp g dH tr' DH CH') as AH'. pose proof (DInv_no_bad_alloc NR FRt g dR tr' DR CR') as AR'.
      split; [apply flbad_from_monitors; assumption|]. repeat split; assumption.
    - (* "_new f0 b" *)
      assert (F' : flbad (hist tr') = false) by (unfold tr'; rewrite flbad_snoc_nonalloc; [exact F|intros f1 b1; rewrite Ecl; discriminate]).
      assert (AH' : m_abad (mrunH tr') = false).
      { unfold tr'. rewrite mrun_snoc1, Ecls. destruct (fl_eqb f0 FHp); cbn [mstep_ev]; [|exact AH]. destruct (_ || _)%bool; exact AH. }
      assert (AR' : m_abad (mrunR tr') = false).
      { unfold tr'. rewrite mrun_snoc1, Ecls. destruct (fl_eqb f0 FRt); cbn [mstep_ev]; [|exact AR]. destruct (_ || _)%bool; exact AR. }
      assert (K : forall f (X : InvX f g (match f with FHp => xH | FRt => xR end) tr'),
                 m_abad (mrun (clsf f) mzero tr') = false -> m_cbad (mrun (clsf f) mzero tr) = false -> m_cbad (mrun (clsf f) mzero tr') = false).
      { intros f X A' C0. unfold tr'. rewrite mrun_snoc1, Ecls. destruct (fl_eqb f0 f) eqn:Ef; cbn [mstep_ev]; [|exact C0].
        destruct (X A') as [_ T]. destruct (T tr t e [] eq_refl) as [_ T2].
        assert (Ex : m_ex (mrun (clsf f) mzero tr) (S b) = false) by (apply T2; rewrite Ecls, Ef; reflexivity).
        cbn [Nat.eqb orb]. rewrite Ex. exact C0. }
      split; [exact F'|]. split; [apply (K FHp XH AH' CH)|]. split; [apply (K FRt XR AR' CR)|]. split; assumption.
    - (* "_free f0 b" *)
      assert (F' : flbad (hist tr') = false) by (unfold tr'; rewrite flbad_snoc_nonalloc; [exact F|intros f1 b1; rewrite Ecl; discriminate]).
      assert (AH' : m_abad (mrunH tr') = false).
      { unfold tr'. rewrite mrun_snoc1, Ecls. destruct (fl_eqb f0 FHp); cbn [mstep_ev]; [|exact AH]. destruct (_ && _)%bool; exact AH. }
      assert (AR' : m_abad (mrunR tr') = false).
      { unfold tr'. rewrite mrun_snoc1, Ecls. destruct (fl_eqb f0 FRt); cbn [mstep_ev]; [|exact AR]. destruct (_ && _)%bool; exact AR. }
      assert (Hfreeh : NoDup (freeh (hist tr') f0)).
      { destruct f0.
        - destruct (IA F') as [J _]. exact (proj2 (ja_free _ _ _ _ J)).
        - pose proof (IB F' (NoDup_retired _)) as J. exact (proj2 (jk_free _ _ _ _ (jb_k _ _ _ _ J))). }
      unfold tr' in Hfreeh. rewrite (freeh_snoc_free tr t e f0 b Ecl) in Hfreeh. apply NoDup_cons_iff in Hfreeh. destruct Hfreeh as [Hnin _].
      assert (K : forall f (X : InvX f g (match f with FHp => xH | FRt => xR end) tr'),
                 m_abad (mrun (clsf f) mzero tr') = false -> m_abad (mrun (clsf f) mzero tr) = false ->
                 m_cbad (mrun (clsf f) mzero tr) = false -> m_cbad (mrun (clsf f) mzero tr') = false).
      { intros f X A' A0 C0. unfold tr'. rewrite mrun_snoc1, Ecls. destruct (fl_eqb f0 f) eqn:Ef; cbn [mstep_ev]; [|exact C0].
        apply fl_eqb_true in Ef. subst f0.
        destruct (X A') as [_ T]. destruct (T tr t e [] eq_refl) as [T1 _].
        destruct (T1 b) as [Ex Epd]; [rewrite Ecls, fl_eqb_refl; reflexivity|].
        destruct (relf_run f tr F C0 A0) as [_ Rel].
        assert (Efr : m_fr (mrun (clsf f) mzero tr) (S b) = false).
        { rewrite <- Rel. destruct (existsb (Nat.eqb b) (freeh (hist tr) f)) eqn:E; [|reflexivity].
          exfalso. apply Hnin. apply existsb_exists in E. destruct E as (y & Hy & Ey). apply Nat.eqb_eq in Ey. now subst y. }
        rewrite Ex, Efr, Epd. cbn. exact C0. }
      split; [exact F'|]. split; [apply (K FHp XH AH' AH CH)|]. split; [apply (K FRt XR AR' AR CR)|]. split; assumption.
  Qed.
End Six.
