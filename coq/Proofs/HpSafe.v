(** * Every program of the HP model preserves [Inv] ([Conc.safe]), for every thread, at every step. *)
From Coq Require Import ZArith List String Bool Lia PeanoNat.
From LV Require Import Base.Conc Base.Events Model.Hp Proofs.HpTrace Proofs.HpInv Proofs.HpSteps Proofs.HpLocal.
Import ListNotations.
Local Open Scope string_scope.
Local Open Scope list_scope.

Section Safe.
  Variable c : cfgT.
  Notation safe := (@Conc.safe G V ev Aux lview view (Inv c)).

  Ltac act := cbn [Conc.safe]; intros g a tr HI Hv.

  Lemma with_cl_cl v x y : with_cl (with_cl v x) y = with_cl v y.
  Proof. reflexivity. Qed.
  Lemma with_clr_id v : v_clr v = 0 -> with_clr v 0 = v.
  Proof. destruct v; cbn; intros ->; reflexivity. Qed.
  Lemma with_cl_id v : with_cl v (v_cl v) = v.
  Proof. destruct v; reflexivity. Qed.

  (** ** generic steps *)
  (** an access that changes nothing the invariant sees, the view stays *)
  Lemma safe_acc {A} t (f : action) (K : V -> prog A) v Q k o b (val : G -> V) :
    (forall g, f g = (g, val g, [EvAcc k o b])) -> k <> KBegin ->
    (forall g, safe t (K (val g)) v Q) -> safe t (Act f K) v Q.
  Proof.
    intros Hf Hk HK. act. rewrite Hf. cbn [fst snd]. exists a. split; [now apply inv_acc|].
    split; [apply frame_refl|]. rewrite Hv. apply HK.
  Qed.

  Lemma with_x_id v : with_x v (v_op v) (v_val v) = v.
  Proof. destruct v; reflexivity. Qed.

  Lemma single_snoc {X} (x : X) es' e : [x] = es' ++ [e] -> e = x.
  Proof. destruct es' as [|y es'']; cbn; intros H; inversion H; auto. destruct es''; discriminate. Qed.

  (** one client event that neither starts nor ends an operation (attach, scan, outoffuel ...): the view stays *)
  Lemma safe_emit1 {A} t n args (K : prog A) v Q :
    neutral (EvCli n args) = true -> inert (EvCli n args) = true ->
    safe t K v Q -> safe t (Emit [EvCli n args] K) v Q.
  Proof.
    intros Hn Hi HK. act. exists a. split; [|split; [apply frame_refl|now rewrite Hv]].
    apply inv_neutral; [exact HI|intros e [<-|[]]; exact Hn| |intros e [<-|[]]; now apply inert_xplain|right; intros e [<-|[]]; exact Hi].
    intros es' e He Hresp. apply single_snoc in He. subst e. exfalso.
    unfold inert in Hi. apply andb_true_iff in Hi. destruct Hi as (_ & Hi). unfold is_resp in Hresp. rewrite Hresp in Hi. discriminate.
  Qed.

  (** the event that starts an operation on the guards / a publish / a detach *)
  Lemma safe_emit_open {A} t n args (K : prog A) v Q :
    neutral (EvCli n args) = true -> xplain (EvCli n args) = true -> is_opstart (EvCli n args) = true ->
    is_resp (EvCli n args) = false ->
    safe t K (with_x v (Some (EvCli n args)) (v_val v)) Q -> safe t (Emit [EvCli n args] K) v Q.
  Proof.
    intros Hn Hx Ho Hr HK. act. exists (upd_view a t (with_x (view a t) (Some (EvCli n args)) (v_val (view a t)))).
    split; [now apply inv_emit_open|]. split; [apply frame_upd_view|]. rewrite view_upd_same, Hv. exact HK.
  Qed.

  (** one response event: the view must be idle; no operation is open afterwards *)
  Lemma safe_emit_resp {A} t n args (K : prog A) v Q :
    neutral (EvCli n args) = true -> xplain (EvCli n args) = true -> idle v ->
    safe t K (with_x v None (v_val v)) Q -> safe t (Emit [EvCli n args] K) v Q.
  Proof.
    intros Hn Hx Hi HK. act. exists (upd_view a t (with_x (view a t) None (v_val (view a t)))).
    split; [|split; [apply frame_upd_view|rewrite view_upd_same, Hv; exact HK]].
    apply inv_emit_close; [exact HI|intros e [<-|[]]; exact Hn|intros e [<-|[]]; exact Hx|]. intros; rewrite Hv; exact Hi.
  Qed.

  (** ** guards *)
  Lemma safe_st_slot {A} t r j p e0 (K : V -> prog A) v Q :
    v_rec v = Some r -> j < cH c -> v_clr v = 0 -> v_op v = Some e0 -> rel_b j e0 = true ->
    safe t (K VU) (slot_view v 0 r j p) Q -> safe t (Act (a_st_slot r j p) K) v Q.
  Proof.
    intros Hr Hj Hk Ho Hrel HK. act. cbn [a_st_slot fst snd].
    exists (upd_view a t (slot_view (view a t) 0 r j p)). split; [|split; [apply frame_upd_view|]].
    - apply (inv_st_slot c g a tr t r j p 0 HI) with (e0 := e0); [now rewrite Hv|exact Hj|intros i Hi; lia|now rewrite Hv|exact Hrel].
    - rewrite view_upd_same, Hv. exact HK.
  Qed.

  Lemma safe_faa_sync {A} t r (K : V -> prog A) v Q : safe t (K VU) v Q -> safe t (Act (a_faa_sync r) K) v Q.
  Proof. intros HK. eapply (safe_acc t _ K v Q KFaa (obj_sync r) true (fun _ => VU)); auto; discriminate. Qed.

  Lemma safe_ld_src {A} t k (K : V -> prog A) v Q : (forall z, safe t (K (VZ z)) v Q) -> safe t (Act (a_ld_src k) K) v Q.
  Proof.
    intros HK. act. cbn [a_ld_src fst snd]. exists (upd_view a t (with_x (view a t) (v_op (view a t)) (v_val (view a t)))).
    split; [apply (inv_ld_src c g a tr t k); [exact HI|now left]|]. split; [apply frame_upd_view|].
    rewrite view_upd_same, with_x_id, Hv. apply HK.
  Qed.

  Lemma safe_ld_slot {A} t r j (K : V -> prog A) v Q : (forall z, safe t (K (VZ z)) v Q) -> safe t (Act (a_ld_slot r j) K) v Q.
  Proof. intros HK. eapply (safe_acc t _ K v Q KLd (obj_slot r j) true (fun g => VZ (gslot g r j))); auto; discriminate. Qed.

  Lemma slot_view_twice v k r j p k' r' j' p' : slot_view (slot_view v k r j p) k' r' j' p' = slot_view v k' r' j' p'.
  Proof. reflexivity. Qed.

  (** views that differ in the record of the last slot store only *)
  Definition val_any (v : lview) (Q : lview -> Prop) : Prop := forall val, Q (with_x v (v_op v) val).

  Lemma safe_assign t r j p e0 v (Q : unit -> lview -> Prop) :
    v_rec v = Some r -> j < cH c -> v_clr v = 0 -> v_op v = Some e0 -> rel_b j e0 = true ->
    Q tt (slot_view v 0 r j p) -> safe t (assign r j p) v Q.
  Proof. intros. unfold assign. eapply safe_st_slot; eauto. apply safe_faa_sync. assumption. Qed.

  Lemma safe_clear t r j e0 v (Q : unit -> lview -> Prop) :
    v_rec v = Some r -> j < cH c -> v_clr v = 0 -> v_op v = Some e0 -> rel_b j e0 = true ->
    Q tt (slot_view v 0 r j 0%Z) -> safe t (clear r j) v Q.
  Proof. intros. unfold clear. eapply safe_st_slot; eauto. Qed.

  Definition valid_view (v : lview) (r j : nat) (p : Z) (k : nat) : lview :=
    mkV (v_rec v) (v_held v) 0 (v_scan v) (v_cl v) (v_seen v) (v_op v) (Some (r, j, p, Some k)).

  Lemma safe_protect_loop t r j k e0 v (Q : option Z -> lview -> Prop) :
    v_rec v = Some r -> j < cH c -> v_clr v = 0 -> v_op v = Some e0 -> rel_b j e0 = true ->
    (forall p, Q (Some p) (valid_view v r j p k)) -> (forall val, Q None (with_x (with_clr v 0) (v_op v) val)) ->
    forall fuel pcur val, safe t (protect_loop fuel r j k pcur) (with_x (with_clr v 0) (v_op v) val) Q.
  Proof.
    intros Hr Hj Hk Ho Hrel HQ1 HQ2. induction fuel as [|fuel IH]; intros pcur val; cbn [protect_loop]; [apply HQ2|].
    eapply safe_st_slot; eauto. apply safe_faa_sync.
    act. cbn [a_ld_src fst snd vZ].
    set (z := g_srcs g k).
    exists (upd_view a t (with_x (view a t) (v_op (view a t))
              (if Z.eqb z pcur then Some (r, j, z, Some k) else v_val (view a t)))).
    split.
    { apply (inv_ld_src c g a tr t k); [exact HI|]. destruct (Z.eqb_spec z pcur) as [E|E]; [|now left].
      right. exists r, j, None. rewrite Hv. cbn. fold z. rewrite E. auto. }
    split; [apply frame_upd_view|]. rewrite view_upd_same, Hv.
    destruct (Z.eqb_spec z pcur) as [E|E].
    - cbn [Conc.safe]. rewrite E. apply HQ1.
    - apply (IH z (Some (r, j, pcur, None))).
  Qed.

  Lemma with_x_clr_id v : v_clr v = 0 -> with_x (with_clr v 0) (v_op v) (v_val v) = v.
  Proof. destruct v; cbn; intros ->; reflexivity. Qed.

  Lemma safe_protect t r j k e0 v (Q : option Z -> lview -> Prop) :
    v_rec v = Some r -> j < cH c -> v_clr v = 0 -> v_op v = Some e0 -> rel_b j e0 = true ->
    (forall p, Q (Some p) (valid_view v r j p k)) -> (forall val, Q None (with_x (with_clr v 0) (v_op v) val)) ->
    safe t (protect c r j k) v Q.
  Proof.
    intros Hr Hj Hk Ho Hrel HQ1 HQ2. unfold protect. apply safe_ld_src. intros z. cbn [vZ].
    rewrite <- (with_x_clr_id v Hk). eapply safe_protect_loop; eauto.
  Qed.

  Lemma safe_copy t r j i e0 v (Q : Z -> lview -> Prop) :
    v_rec v = Some r -> j < cH c -> v_clr v = 0 -> v_op v = Some e0 -> rel_b j e0 = true ->
    (forall z, Q z (slot_view v 0 r j z)) -> safe t (copy r j i) v Q.
  Proof.
    intros. unfold copy. apply safe_ld_slot. intros z. cbn [vZ]. apply Conc.safe_bind.
    eapply safe_assign; eauto. cbn. auto.
  Qed.

  (** ** retired_array::push after the retire was announced *)
  Definition push_post (v : lview) (r : nat) (rest : list claim) (Q : option bool -> lview -> Prop) : Prop :=
    (forall o, o <> Some false -> Q o (with_cl v rest)) /\
    (forall e, e <> [] -> Q (Some false) (with_cl v (ClAct r e e :: rest))).

  Lemma snoc_not_nil {X} (l : list X) x : l ++ [x] <> [].
  Proof. destruct l; discriminate. Qed.

  Lemma safe_push_tail t r l p v0 rest (Q : option bool -> lview -> Prop) :
    v_cl v0 = ClAct r l (l ++ [p]) :: rest -> push_post v0 r rest Q ->
    safe t (if Nat.leb (cR c) (List.length l) then Emit [EvCli "overflow" [p]] (Ret None)
            else Act (a_st_cur r (l ++ [p])) (fun _ => Ret (Some (Nat.ltb (S (List.length l)) (cR c))))) v0 Q.
  Proof.
    intros Hcl (HQ1 & HQ2). destruct (Nat.leb_spec (cR c) (List.length l)) as [Hfull|Hroom].
    - cbn [Conc.safe]. intros g1 a1 tr1 HI1 Hv1.
      exists (set_claims a1 t rest (set_eff (a_eff a1) r None)).
      split; [eapply inv_emit_overflow; [exact HI1|rewrite Hv1; exact Hcl|exact Hfull]|]. split; [apply frame_set_claims|].
      rewrite view_set_claims_same, Hv1. apply HQ1. discriminate.
    - cbn [Conc.safe]. intros g1 a1 tr1 HI1 Hv1. cbn [a_st_cur fst snd].
      destruct (Nat.ltb_spec (S (List.length l)) (cR c)) as [Hlt|Hge].
      + exists (set_claims a1 t rest (set_eff (a_eff a1) r None)).
        split; [eapply inv_st_cur; [exact HI1|rewrite Hv1; exact Hcl|discriminate|]|].
        { intros _. rewrite app_length. cbn. lia. }
        split; [apply frame_set_claims|]. rewrite view_set_claims_same, Hv1. apply HQ1. discriminate.
      + exists (set_claims a1 t (ClAct r (l ++ [p]) (l ++ [p]) :: rest) (set_eff (a_eff a1) r (Some (l ++ [p])))).
        split; [eapply inv_st_cur_keep; [exact HI1|rewrite Hv1; exact Hcl|discriminate]|].
        split; [apply frame_set_claims|]. rewrite view_set_claims_same, Hv1. apply HQ2. apply snoc_not_nil.
  Qed.

  Lemma safe_push1 t r p v rest (Q : option bool -> lview -> Prop) :
    v_cl v = ClPush r p :: rest -> push_post v r rest Q -> safe t (push c r p) v Q.
  Proof.
    intros Hcl HQ. unfold push. act. cbn [a_ld_cur fst snd vL].
    set (l := r_ret (get_rec g r)).
    exists (set_claims a t (ClAct r l (l ++ [p]) :: rest) (set_eff (a_eff a) r (Some (l ++ [p])))).
    split; [apply inv_ld_cur_push; [exact HI|now rewrite Hv]|]. split; [apply frame_set_claims|].
    rewrite view_set_claims_same, Hv.
    apply (safe_push_tail t r l p _ rest); [reflexivity|]. exact HQ.
  Qed.

  (** ... and while help_scan moves the cell x of record h *)
  Lemma safe_push2 t r h srcl x tl v rest (Q : option bool -> lview -> Prop) :
    v_rec v = Some r -> v_scan v = None -> v_cl v = ClAct h srcl (x :: tl) :: rest -> (forall cl, In cl rest -> crec cl <> r) -> h <> r ->
    push_post v r (ClAct h srcl tl :: rest) Q -> safe t (push c r x) v Q.
  Proof.
    intros Hr Hns Hcl Hrest Hhr HQ. unfold push. act. cbn [a_ld_cur fst snd vL].
    set (l := r_ret (get_rec g r)).
    exists (set_claims a t (ClAct r l (l ++ [x]) :: ClAct h srcl tl :: rest)
              (set_eff (set_eff (a_eff a) h (Some tl)) r (Some (l ++ [x])))).
    split; [apply inv_ld_cur_move; [exact HI|now rewrite Hv|now rewrite Hv|now rewrite Hv|exact Hrest|exact Hhr]|].
    split; [apply frame_set_claims|].
    rewrite view_set_claims_same, Hv.
    apply (safe_push_tail t r l x _ (ClAct h srcl tl :: rest)); [reflexivity|]. exact HQ.
  Qed.

  (** ** stage 1 of both scans *)
  Lemma scan_view_twice v sv1 s1 sv2 s2 : scan_view (scan_view v sv1 s1) sv2 s2 = scan_view v sv2 s2.
  Proof. reflexivity. Qed.

  Lemma safe_slots_loop t r' l' v seen (Q : list Z -> lview -> Prop) :
    (forall acc', Q acc' (scan_view v (mkScan acc' (Some l') None) seen)) ->
    forall n k acc, k + n = cH c ->
      safe t (slots_loop r' (seq k n) acc) (scan_view v (pos_sv (cH c) acc r' l' k) seen) Q.
  Proof.
    intros HQ. induction n as [|n IH]; intros k acc Hk; cbn [seq slots_loop].
    - unfold pos_sv. replace (Nat.ltb k (cH c)) with false by (symmetry; apply Nat.ltb_ge; lia). apply HQ.
    - assert (Hlt : k < cH c) by lia.
      unfold pos_sv at 1. replace (Nat.ltb k (cH c)) with true by (symmetry; apply Nat.ltb_lt; lia).
      act. cbn [a_ld_slot fst snd vZ].
      set (v0 := gslot g r' k). set (coll' := if Z.eqb v0 0 then acc else acc ++ [v0]).
      exists (upd_view a t (scan_view (view a t) (pos_sv (cH c) coll' r' l' (S k)) seen)).
      split; [apply step_ld_slot_scan; [exact HI|exact Hlt|now rewrite Hv|now rewrite Hv]|].
      split; [apply frame_upd_view|].
      rewrite view_upd_same, Hv, scan_view_twice. apply IH. lia.
  Qed.

  Lemma safe_recs_loop t v seen (Q : list Z -> lview -> Prop) :
    (forall acc', Q acc' (scan_view v (mkScan acc' (Some []) None) seen)) ->
    forall l acc, safe t (recs_loop c l acc) (scan_view v (mkScan acc (Some l) None) seen) Q.
  Proof.
    intros HQ. induction l as [|r' l' IH]; intros acc; cbn [recs_loop]; [apply HQ|].
    act. cbn [a_ld_owner fst snd vB].
    set (sv' := if r_owner (get_rec g r') then pos_sv (cH c) acc r' l' 0 else mkScan acc (Some l') None).
    exists (upd_view a t (scan_view (view a t) sv' seen)).
    split; [apply step_ld_owner_scan; [exact HI|now rewrite Hv|now rewrite Hv]|].
    split; [apply frame_upd_view|].
    rewrite view_upd_same, Hv, scan_view_twice. unfold sv'. destruct (r_owner (get_rec g r')).
    - apply Conc.safe_bind. apply (safe_slots_loop t r' l' v seen); [|lia]. intros acc'. apply IH.
    - apply IH.
  Qed.

  Lemma safe_stage1 {A} t v (K : list Z -> prog A) Q :
    v_scan v = Some (mkScan [] None None) ->
    (forall plist seen, incl (v_seen v) seen -> safe t (K plist) (scan_view v (mkScan plist (Some []) None) seen) Q) ->
    safe t (Act a_ld_head (fun x => bind (recs_loop c (vR x) []) K)) v Q.
  Proof.
    intros Hsv HK. act. cbn [a_ld_head fst snd vR].
    exists (upd_view a t (scan_view (view a t) (mkScan [] (Some (g_list g)) None) (g_list g))).
    split; [apply step_ld_head_scan; [exact HI|now rewrite Hv]|]. split; [apply frame_upd_view|].
    rewrite view_upd_same, Hv. apply Conc.safe_bind.
    apply (safe_recs_loop t v (g_list g)). intros acc'. apply HK.
    intros x Hx. apply (i_seen _ _ _ _ HI t x). now rewrite Hv.
  Qed.

  (** ** stage 2: disposer calls + the store of current_, the thread holding the claim [ClAct r l l] *)
  Lemma retire_once_NoDup g a tr t r l e :
    Inv c g a tr -> view a t = with_cl (view a t) (v_cl (view a t)) -> In (ClAct r l e) (v_cl (view a t)) ->
    retire_once tr -> (forall p, (countZ p e <= 1)%Z).
  Proof.
    intros HI _ Hin Hro p.
    destruct (i_claim _ _ _ _ HI t _ Hin) as (Hown & _ & Heff). cbn in Hown, Heff.
    assert (Hlt := owns_lt _ _ _ _ _ _ HI Hown).
    pose proof (pend_upto_ge p g a _ _ Hlt) as Hge. unfold effc in Hge. rewrite Heff in Hge.
    pose proof (i_bal _ _ _ _ HI p) as Hb. unfold pend in Hb.
    pose proof (cnt_nonneg "dispose" p tr). pose proof (cnt_nonneg "overflow" p tr). specialize (Hro p). lia.
  Qed.

  Lemma retire_once_prefix tr es : retire_once (tr ++ es) -> retire_once tr.
  Proof. intros H p. specialize (H p). pose proof (cnt_le_app "retire" p tr es). lia. Qed.

  Lemma safe_stage2_tail t r l v rest sv freed kept (Q : list Z -> lview -> Prop) :
    v_rec v = Some r -> v_cl v = ClAct r l l :: rest -> v_scan v = Some sv -> sc_todo sv = Some [] -> sc_cur sv = None ->
    (forall p, countZ p l = (countZ p freed + countZ p kept)%Z) ->
    List.length kept <= List.length l -> incl kept (sc_coll sv) ->
    (forall g a tr, Inv c g a tr -> view a t = v ->
       forall p, In p freed -> (cInplace c = true -> retire_once tr) -> ~ In p (sc_coll sv)) ->
    Q kept (with_cl v rest) ->
    safe t (Emit (map ev_dispose freed) (Act (a_st_cur r kept) (fun _ => Ret kept))) v Q.
  Proof.
    intros Hrec Hcl Hsv Htodo Hcur Hsplit Hlen Hincl Hfr HQ. act.
    exists (set_claims a t (ClAct r l kept :: rest) (set_eff (a_eff a) r (Some kept))).
    split; [|split; [apply frame_set_claims|]].
    - apply inv_emit_dispose; [exact HI|now rewrite Hv|exact Hsplit|exact Hlen| |].
      + eapply safe_cl_dispose; [exact HI|rewrite Hv; exact Hsv|exact Htodo|]. apply (Hfr g a tr HI Hv).
      + eapply (pre_cl_dispose c g a tr t sv r l l rest); [exact HI|now rewrite Hv|now rewrite Hv|now rewrite Hv|].
        intros p Hp. apply countZ_pos_In. apply countZ_pos_In in Hp. rewrite (Hsplit p).
        pose proof (countZ_nonneg p kept). lia.
    - rewrite view_set_claims_same, Hv. cbn [Conc.safe]. intros g1 a1 tr1 HI1 Hv1. cbn [a_st_cur fst snd].
      exists (set_claims a1 t rest (set_eff (a_eff a1) r None)).
      split; [eapply inv_st_cur; [exact HI1|rewrite Hv1; reflexivity|discriminate|]|].
      { intros (Hl & Hhp & Hro). cbn in Hl.
        assert (Hsv1 : v_scan (view a1 t) = Some sv) by (rewrite Hv1; exact Hsv).
        pose proof (i_collsz _ _ _ _ HI1 t sv Hsv1) as Hcz. unfold collsz_ok in Hcz. rewrite Htodo, Hcur in Hcz. cbn in Hcz.
        assert (Hnd : NoDup kept).
        { apply count_le1_NoDup. eapply (retire_once_NoDup g1 a1 tr1 t r l kept); [exact HI1|now rewrite with_cl_id| |].
          - rewrite Hv1. cbn. now left.
          - eapply retire_once_prefix. exact Hro. }
        pose proof (NoDup_incl_length Hnd Hincl) as Hle.
        assert (cH c * List.length (g_list g1) <= cH c * cP c) by (apply Nat.mul_le_mono_l; exact Hl). lia. }
      split; [apply frame_set_claims|].
      rewrite view_set_claims_same, Hv1, with_cl_cl. exact HQ.
  Qed.

  Definition no_claim_on (v : lview) (r : nat) : Prop := forall cl, In cl (v_cl v) -> crec cl <> r.

  (** classic stage 2, no claim held yet *)
  Lemma safe_classic2_fresh t r v plist (Q : list Z -> lview -> Prop) :
    v_rec v = Some r -> no_claim_on v r -> v_scan v = Some (mkScan plist (Some []) None) ->
    (forall kept, incl kept plist -> Q kept v) ->
    safe t (Act (a_ld_cur r) (fun v2 =>
              let l := vL v2 in
              Emit (map ev_dispose (classic_freed plist l))
                (Act (a_st_cur r (classic_kept plist l)) (fun _ => Ret (classic_kept plist l))))) v Q.
  Proof.
    intros Hrec Hno Hsv HQ. act. cbn [a_ld_cur fst snd vL].
    set (l := r_ret (get_rec g r)).
    exists (set_claims a t (ClAct r l l :: v_cl (view a t)) (set_eff (a_eff a) r (Some l))).
    split; [apply inv_ld_cur_fresh; [exact HI|rewrite Hv; left; exact Hrec|now rewrite Hv]|]. split; [apply frame_set_claims|].
    rewrite view_set_claims_same, Hv.
    eapply (safe_stage2_tail t r l _ (v_cl v)); [exact Hrec|reflexivity|exact Hsv|reflexivity|reflexivity| | | | |].
    - intros p. apply classic_split.
    - apply filter_length_le.
    - intros p. apply classic_kept_incl.
    - intros g1 a1 tr1 _ _ p Hp _. cbn. now apply classic_freed_notin in Hp.
    - rewrite with_cl_cl, with_cl_id. apply HQ. intros p. apply classic_kept_incl.
  Qed.

  (** classic stage 2 entered from inplace_scan (odd pointers): the claim is already held *)
  Lemma safe_classic2_held t r l v rest plist (Q : list Z -> lview -> Prop) :
    v_rec v = Some r -> v_cl v = ClAct r l l :: rest -> v_scan v = Some (mkScan plist (Some []) None) ->
    (forall kept, incl kept plist -> Q kept (with_cl v rest)) ->
    safe t (Act (a_ld_cur r) (fun v2 =>
              let l := vL v2 in
              Emit (map ev_dispose (classic_freed plist l))
                (Act (a_st_cur r (classic_kept plist l)) (fun _ => Ret (classic_kept plist l))))) v Q.
  Proof.
    intros Hrec Hcl Hsv HQ. act. cbn [a_ld_cur fst snd vL].
    assert (Hin : In (ClAct r l l) (v_cl (view a t))) by (rewrite Hv, Hcl; now left).
    destruct (i_claim _ _ _ _ HI t _ Hin) as (_ & Hact & _). cbn in Hact. rewrite Hact.
    exists a. split; [apply inv_acc; [exact HI|discriminate]|]. split; [apply frame_refl|]. rewrite Hv.
    eapply (safe_stage2_tail t r l v rest); [exact Hrec|exact Hcl|exact Hsv|reflexivity|reflexivity| | | | |].
    - intros p. apply classic_split.
    - apply filter_length_le.
    - intros p. apply classic_kept_incl.
    - intros g1 a1 tr1 _ _ p Hp _. cbn. now apply classic_freed_notin in Hp.
    - apply HQ. intros p. apply classic_kept_incl.
  Qed.

  (** ** the two scans *)
  Lemma owns_scan_view v sv seen r : owns (scan_view v sv seen) r <-> owns v r.
  Proof. unfold owns; cbn. tauto. Qed.
  Lemma owns_with_cl v cl r : owns (with_cl v cl) r <-> owns v r.
  Proof. unfold owns; cbn. tauto. Qed.

  Definition scan_post (v : lview) (Q : list Z -> lview -> Prop) : Prop :=
    forall kept sv' seen, incl (v_seen v) seen -> incl kept (sc_coll sv') -> Q kept (scan_view v sv' seen).

  Lemma safe_classic_scan_fresh t r v (Q : list Z -> lview -> Prop) :
    v_rec v = Some r -> no_claim_on v r -> v_scan v = Some (mkScan [] None None) -> scan_post v Q ->
    safe t (classic_scan c r) v Q.
  Proof.
    intros Hown Hno Hsv HQ. unfold classic_scan. apply safe_stage1; [exact Hsv|].
    intros plist seen Hincl. apply safe_classic2_fresh.
    - exact Hown.
    - exact Hno.
    - reflexivity.
    - intros kept Hk. rewrite <- (scan_view_twice v (mkScan plist (Some []) None) seen (mkScan plist (Some []) None) seen).
      rewrite scan_view_twice. apply HQ; assumption.
  Qed.

  Lemma safe_classic_scan_held t r l v rest (Q : list Z -> lview -> Prop) :
    v_rec v = Some r -> v_cl v = ClAct r l l :: rest -> v_scan v = Some (mkScan [] None None) ->
    (forall kept sv' seen, incl (v_seen v) seen -> incl kept (sc_coll sv') -> Q kept (with_cl (scan_view v sv' seen) rest)) ->
    safe t (classic_scan c r) v Q.
  Proof.
    intros Hrec Hcl Hsv HQ. unfold classic_scan. apply safe_stage1; [exact Hsv|].
    intros plist seen Hincl. eapply safe_classic2_held; [exact Hrec|exact Hcl|reflexivity|].
    intros kept Hk. apply HQ; assumption.
  Qed.

  Lemma scan_view_self v sv : v_scan v = Some sv -> scan_view v sv (v_seen v) = v.
  Proof. destruct v; cbn; intros ->; reflexivity. Qed.

  Lemma safe_inplace_scan t r v (Q : list Z -> lview -> Prop) :
    cInplace c = true -> v_rec v = Some r -> no_claim_on v r -> v_scan v = Some (mkScan [] None None) -> scan_post v Q ->
    safe t (inplace_scan c r) v Q.
  Proof.
    intros Hip Hrec Hno Hsv HQ. assert (Hown : owns v r) by (left; exact Hrec). unfold inplace_scan. act. cbn [a_ld_cur fst snd vL].
    destruct (r_ret (get_rec g r)) as [|x0 l0] eqn:El.
    - exists a. split; [apply inv_acc; [exact HI|discriminate]|]. split; [apply frame_refl|]. rewrite Hv.
      cbn [Conc.safe]. rewrite <- (scan_view_self v _ Hsv). apply HQ; [apply incl_refl|intros x []].
    - set (l := x0 :: l0) in *.
      pose proof (inv_ld_cur_fresh c g a tr t r HI) as Hstep. cbn zeta in Hstep. rewrite El in Hstep.
      exists (set_claims a t (ClAct r l l :: v_cl (view a t)) (set_eff (a_eff a) r (Some l))).
      split; [apply Hstep; rewrite Hv; assumption|]. split; [apply frame_set_claims|].
      rewrite view_set_claims_same, Hv.
      destruct (existsb Z.odd l).
      + eapply safe_classic_scan_held; [exact Hrec|reflexivity|exact Hsv|].
        intros kept sv' seen Hi Hk. cbn in Hi. change (Q kept (scan_view v sv' seen)). apply HQ; assumption.
      + apply safe_stage1; [exact Hsv|]. intros hs seen Hincl.
        eapply (safe_stage2_tail t r l _ (v_cl v)); [exact Hrec|reflexivity|reflexivity|reflexivity|reflexivity| | | | |].
        * intros p. apply inplace_split.
        * apply inplace_kept_length.
        * intros p. apply inplace_kept_incl.
        * intros g1 a1 tr1 HI1 Hv1 p Hp Hro. cbn [sc_coll].
          apply (inplace_freed_notin hs l p); [|exact Hp].
          apply count_le1_NoDup. eapply (retire_once_NoDup g1 a1 tr1 t r l l); [exact HI1| | |exact (Hro Hip)].
          -- now rewrite with_cl_id.
          -- rewrite Hv1. cbn. now left.
        * change (Q (inplace_kept (apply_marks hs (unmarked (sortZ l)))) (scan_view v (mkScan hs (Some []) None) seen)).
          apply HQ; [exact Hincl|]. intros p. apply inplace_kept_incl.
  Qed.

  Lemma scan_done_view v sv seen :
    v_scan v = None -> with_scan (scan_view (with_scan v (Some (mkScan [] None None))) sv seen) None = with_seen v seen.
  Proof. destruct v; cbn; intros ->; reflexivity. Qed.

  Lemma safe_scan t r v (Q : unit -> lview -> Prop) :
    v_rec v = Some r -> v_scan v = None -> no_claim_on v r ->
    (forall seen', incl (v_seen v) seen' -> Q tt (with_seen v seen')) ->
    safe t (scan c r) v Q.
  Proof.
    intros Hr Hns Hno HQ. unfold scan. act. cbn [a_faa_scan fst snd].
    exists (upd_view a t (with_scan (view a t) (Some (mkScan [] None None)))).
    split; [apply (inv_scan_begin c g a tr t r HI); now rewrite Hv|]. split; [apply frame_upd_view|].
    rewrite view_upd_same, Hv. apply Conc.safe_bind.
    set (v1 := with_scan v (Some (mkScan [] None None))).
    assert (Hpost : scan_post v1 (fun kept l' => safe t (Emit [EvCli "g_scan_end" (zn r :: kept)] (Ret tt)) l' Q)).
    { intros kept sv' seen Hincl Hk. cbn [Conc.safe]. intros g1 a1 tr1 HI1 Hv1.
      exists (upd_view a1 t (with_scan (view a1 t) None)).
      split; [apply (inv_scan_end c g1 a1 tr1 t r kept sv' HI1); [now rewrite Hv1|exact Hk]|].
      split; [apply frame_upd_view|]. rewrite view_upd_same, Hv1. unfold v1. rewrite scan_done_view by exact Hns.
      apply HQ. exact Hincl. }
    destruct (cInplace c) eqn:Ei.
    - apply safe_inplace_scan; auto.
    - apply safe_classic_scan_fresh; auto.
  Qed.

  (** the scans entered with the claim of the push that filled the array *)
  Lemma safe_inplace_scan_held t r x0 l0 v rest (Q : list Z -> lview -> Prop) :
    cInplace c = true -> v_rec v = Some r -> v_cl v = ClAct r (x0 :: l0) (x0 :: l0) :: rest ->
    v_scan v = Some (mkScan [] None None) ->
    (forall kept sv' seen, incl (v_seen v) seen -> incl kept (sc_coll sv') -> Q kept (with_cl (scan_view v sv' seen) rest)) ->
    safe t (inplace_scan c r) v Q.
  Proof.
    intros Hip Hrec Hcl Hsv HQ. unfold inplace_scan. act. cbn [a_ld_cur fst snd vL].
    set (l := x0 :: l0) in *.
    assert (Hin : In (ClAct r l l) (v_cl (view a t))) by (rewrite Hv, Hcl; now left).
    destruct (i_claim _ _ _ _ HI t _ Hin) as (_ & Hact & _). cbn in Hact. rewrite Hact.
    exists a. split; [apply inv_acc; [exact HI|discriminate]|]. split; [apply frame_refl|]. rewrite Hv.
    unfold l at 1. cbn iota. fold l.
    destruct (existsb Z.odd l).
    - eapply safe_classic_scan_held; [exact Hrec|exact Hcl|exact Hsv|exact HQ].
    - apply safe_stage1; [exact Hsv|]. intros hs seen Hincl.
      eapply (safe_stage2_tail t r l _ rest); [exact Hrec|exact Hcl|reflexivity|reflexivity|reflexivity| | | | |].
      + intros p. apply inplace_split.
      + apply inplace_kept_length.
      + intros p. apply inplace_kept_incl.
      + intros g1 a1 tr1 HI1 Hv1 p Hp Hro. cbn [sc_coll].
        apply (inplace_freed_notin hs l p); [|exact Hp].
        apply count_le1_NoDup. eapply (retire_once_NoDup g1 a1 tr1 t r l l); [exact HI1| | |exact (Hro Hip)].
        * now rewrite with_cl_id.
        * rewrite Hv1. cbn. rewrite Hcl. now left.
      + apply HQ; [exact Hincl|]. intros p. apply inplace_kept_incl.
  Qed.

  Lemma scan_done_view_held v sv seen rest :
    v_scan v = None ->
    with_scan (with_cl (scan_view (with_scan v (Some (mkScan [] None None))) sv seen) rest) None = with_seen (with_cl v rest) seen.
  Proof. destruct v; cbn; intros ->; reflexivity. Qed.

  Lemma safe_scan_held t r e v rest (Q : unit -> lview -> Prop) :
    v_rec v = Some r -> v_scan v = None -> e <> [] -> v_cl v = ClAct r e e :: rest ->
    (forall seen', incl (v_seen v) seen' -> Q tt (with_seen (with_cl v rest) seen')) ->
    safe t (scan c r) v Q.
  Proof.
    intros Hr Hns Hne Hcl HQ. unfold scan. act. cbn [a_faa_scan fst snd].
    exists (upd_view a t (with_scan (view a t) (Some (mkScan [] None None)))).
    split; [apply (inv_scan_begin c g a tr t r HI); now rewrite Hv|]. split; [apply frame_upd_view|].
    rewrite view_upd_same, Hv. apply Conc.safe_bind.
    set (v1 := with_scan v (Some (mkScan [] None None))).
    assert (Hpost : forall kept sv' seen, incl (v_seen v1) seen -> incl kept (sc_coll sv') ->
              safe t (Emit [EvCli "g_scan_end" (zn r :: kept)] (Ret tt)) (with_cl (scan_view v1 sv' seen) rest) Q).
    { intros kept sv' seen Hincl Hk. cbn [Conc.safe]. intros g1 a1 tr1 HI1 Hv1.
      exists (upd_view a1 t (with_scan (view a1 t) None)).
      split; [apply (inv_scan_end c g1 a1 tr1 t r kept sv' HI1); [now rewrite Hv1|exact Hk]|].
      split; [apply frame_upd_view|]. rewrite view_upd_same, Hv1. unfold v1. rewrite scan_done_view_held by exact Hns.
      apply HQ. exact Hincl. }
    destruct (cInplace c) eqn:Ei.
    - destruct e as [|x0 l0]; [contradiction|]. eapply safe_inplace_scan_held; eauto.
    - eapply safe_classic_scan_held; eauto.
  Qed.

  (** ** retire *)
  Lemma with_seen_self v : with_seen v (v_seen v) = v.
  Proof. destruct v; reflexivity. Qed.

  Lemma safe_retire t r p v rest (Q : unit -> lview -> Prop) :
    v_rec v = Some r -> v_scan v = None -> v_cl v = ClPush r p :: rest -> (forall cl, In cl rest -> crec cl <> r) ->
    (forall seen', incl (v_seen v) seen' -> Q tt (with_seen (with_cl v rest) seen')) ->
    safe t (retire c r p) v Q.
  Proof.
    intros Hr Hns Hcl Hrest HQ. unfold retire. apply Conc.safe_bind. eapply safe_push1; [exact Hcl|]. split.
    - intros o Ho. assert (HR : Q tt (with_cl v rest)).
      { rewrite <- (with_seen_self (with_cl v rest)). apply HQ. apply incl_refl. }
      destruct o as [[|]|]; [exact HR|congruence|exact HR].
    - intros e He. eapply (safe_scan_held t r e _ rest); [exact Hr|exact Hns|exact He|reflexivity|].
      intros seen' Hi. apply HQ. exact Hi.
  Qed.

  (** ** help_scan *)
  Lemma safe_move_loop t r h srcl rest (Q : unit -> lview -> Prop) :
    h <> r -> (forall cl, In cl rest -> crec cl <> r) ->
    forall src v,
      v_rec v = Some r -> v_scan v = None -> v_cl v = ClAct h srcl src :: rest ->
      (forall seen', incl (v_seen v) seen' -> Q tt (with_seen (with_cl v (ClAct h srcl [] :: rest)) seen')) ->
      safe t (move_loop c r src) v Q.
  Proof.
    intros Hhr Hrest. induction src as [|x tl IH]; intros v Hr Hns Hcl HQ; cbn [move_loop].
    - cbn [Conc.safe]. specialize (HQ (v_seen v) (incl_refl _)).
      replace (with_seen (with_cl v (ClAct h srcl [] :: rest)) (v_seen v)) with v in HQ; [exact HQ|].
      destruct v; cbn in *; subst; reflexivity.
    - apply Conc.safe_bind. eapply safe_push2; [exact Hr|exact Hns|exact Hcl|exact Hrest|exact Hhr|].
      set (v1 := with_cl v (ClAct h srcl tl :: rest)).
      assert (Hloop : forall seen1, incl (v_seen v) seen1 -> safe t (move_loop c r tl) (with_seen v1 seen1) Q).
      { intros seen1 Hi1. apply IH; [exact Hr|exact Hns|reflexivity|].
        intros seen' Hi'. change (Q tt (with_seen (with_cl v (ClAct h srcl [] :: rest)) seen')).
        apply HQ. eapply incl_tran; eauto. }
      split.
      + intros o Ho. assert (HR : safe t (move_loop c r tl) v1 Q).
        { rewrite <- (with_seen_self v1). apply Hloop. apply incl_refl. }
        destruct o as [[|]|]; [exact HR|congruence|exact HR].
      + intros e He. apply Conc.safe_bind.
        eapply (safe_scan_held t r e _ (ClAct h srcl tl :: rest)); [exact Hr|exact Hns|exact He|reflexivity|].
        intros seen1 Hi1. apply Hloop. exact Hi1.
  Qed.

  Definition xval := option (nat * nat * Z * option nat).
  Definition base (o : option nat) (k : nat) (seen : list nat) (op : option ev) (val : xval) : lview :=
    mkV o [] k None [] seen op val.

  Definition fresh_view (r : nat) (seen : list nat) (op : option ev) (val : xval) : lview := mkV None [r] 0 None [] seen op val.

  Ltac simplv := unfold att_view, det_view, slot_view, with_held, with_seen, with_cl, with_x, with_rec, with_clr, fresh_view, base;
    cbn [v_held v_rec v_clr v_scan v_cl v_seen v_op v_val].

  Lemma remove_single h : remove Nat.eq_dec h [h] = [].
  Proof. cbn. destruct (Nat.eq_dec h h); [reflexivity|congruence]. Qed.

  Lemma safe_help_loop t r k op val (Q : unit -> lview -> Prop) :
    forall l seen, incl l seen ->
      (forall seen', incl seen seen' -> Q tt (base (Some r) k seen' op val)) ->
      safe t (help_loop c r l) (base (Some r) k seen op val) Q.
  Proof.
    induction l as [|h l' IH]; intros seen Hincl HQ; cbn [help_loop].
    - apply HQ. apply incl_refl.
    - assert (Hl' : incl l' seen) by (intros x Hx; apply Hincl; now right).
      assert (Hh : In h seen) by (apply Hincl; now left).
      destruct (Nat.eqb_spec h r) as [->|Hhr]; [now apply IH|].
      eapply (safe_acc t _ _ _ Q KLd (obj_free h) true (fun g => VB (r_free (get_rec g h)))); [reflexivity|discriminate|].
      intros g0. cbn [vB]. destruct (r_free (get_rec g0 h)); [now apply IH|].
      eapply (safe_acc t _ _ _ Q KLd (obj_owner h) true (fun g => VB (r_owner (get_rec g h)))); [reflexivity|discriminate|].
      intros g1. cbn [vB]. destruct (r_owner (get_rec g1 h)); [now apply IH|].
      act. unfold a_cas_owner. destruct (r_owner (get_rec g h)) eqn:Eo; cbn [fst snd vB negb].
      { exists a. split; [apply inv_acc; [exact HI|discriminate]|]. split; [apply frame_refl|]. rewrite Hv. now apply IH. }
      assert (Hing : In h (g_list g)) by (apply (i_seen _ _ _ _ HI t h); now rewrite Hv).
      exists (upd_view a t (with_held (view a t) (h :: v_held (view a t)))).
      split.
      { apply inv_acquire_held; [apply inv_acc; [exact HI|discriminate]|apply not_resp_after_acc; discriminate|exact Hing|exact Eo]. }
      split; [apply frame_upd_view|]. rewrite view_upd_same, Hv. simplv.
      clear g a tr HI Hv Eo Hing g0 g1.
      act. cbn [a_ld_cur fst snd vL]. set (srcl := r_ret (get_rec g h)).
      exists (set_claims a t (ClAct h srcl srcl :: v_cl (view a t)) (set_eff (a_eff a) h (Some srcl))).
      split.
      { apply inv_ld_cur_fresh; [exact HI|rewrite Hv; right; now left|rewrite Hv; intros cl []]. }
      split; [apply frame_set_claims|]. rewrite view_set_claims_same, Hv. simplv.
      clearbody srcl. clear g a tr HI Hv.
      apply Conc.safe_bind.
      eapply (safe_move_loop t r h srcl []); [exact Hhr|intros cl []|reflexivity|reflexivity|reflexivity|].
      intros seen1 Hi1. simplv.
      act. cbn [a_xchg_cur fst snd].
      exists (set_claims a t [] (set_eff (a_eff a) h None)).
      split; [eapply inv_st_cur; [exact HI|rewrite Hv; reflexivity|discriminate|]|].
      { intros (_ & Hhp & _). cbn. lia. }
      split; [apply frame_set_claims|].
      rewrite view_set_claims_same, Hv. simplv. clear g a tr HI Hv.
      act. cbn [a_st_free fst snd]. exists a.
      split; [apply inv_st_free; apply inv_acc; [exact HI|discriminate]|]. split; [apply frame_refl|]. rewrite Hv. clear g a tr HI Hv.
      act. cbn [a_st_owner fst snd].
      assert (Hing : In h (g_list g)) by (apply (i_seen _ _ _ _ HI t h); rewrite Hv; cbn; now apply Hi1).
      exists (upd_view a t (with_held (view a t) (remove Nat.eq_dec h (v_held (view a t))))).
      split.
      { apply inv_release_held; [apply inv_acc; [exact HI|discriminate]|rewrite Hv; now left|exact Hing|rewrite Hv; intros cl []]. }
      split; [apply frame_upd_view|]. rewrite view_upd_same, Hv. simplv.
      rewrite remove_single. clear g a tr HI Hv Hing.
      apply Conc.safe_bind. apply safe_scan; [reflexivity|reflexivity|intros cl []|].
      intros seen2 Hi2. simplv.
      apply IH.
      + eapply incl_tran; [exact Hl'|]. eapply incl_tran; eauto.
      + intros seen' Hi'. apply HQ. eapply incl_tran; [exact Hi1|]. eapply incl_tran; eauto.
  Qed.

  Lemma safe_help_scan t r k seen op val (Q : unit -> lview -> Prop) :
    (forall seen', Q tt (base (Some r) k seen' op val)) -> safe t (help_scan c r) (base (Some r) k seen op val) Q.
  Proof.
    intros HQ. unfold help_scan. act. cbn [a_ld_head fst snd vR].
    exists (upd_view a t (with_seen (view a t) (g_list g))).
    split; [apply inv_set_seen; apply inv_acc; [exact HI|discriminate]|]. split; [apply frame_upd_view|].
    rewrite view_upd_same, Hv. simplv.
    apply (safe_help_loop t r k op val Q (g_list g) (g_list g)); [apply incl_refl|]. intros seen' _. apply HQ.
  Qed.

  (** ** free_thread_data *)
  Definition ev_detach : ev := EvCli "detach" [].

  Lemma safe_clear_loop t r seen (Q : unit -> lview -> Prop) :
    (forall val', Q tt (base (Some r) (cH c) seen (Some ev_detach) val')) ->
    forall n k val, k + n = cH c -> safe t (clear_loop r (seq k n)) (base (Some r) k seen (Some ev_detach) val) Q.
  Proof.
    intros HQ. induction n as [|n IH]; intros k val Hk; cbn [seq clear_loop].
    - replace k with (cH c) by lia. apply HQ.
    - act. cbn [a_st_slot fst snd].
      exists (upd_view a t (slot_view (view a t) (S k) r k 0%Z)). split; [|split; [apply frame_upd_view|]].
      + apply (inv_st_slot c g a tr t r k 0%Z (S k) HI) with (e0 := ev_detach); [now rewrite Hv|lia| |now rewrite Hv|reflexivity].
        intros i Hi. rewrite Hv. cbn. destruct (Nat.eq_dec i k); [right; auto|left; lia].
      + rewrite view_upd_same, Hv. simplv. apply IH. lia.
  Qed.

  Lemma safe_free_thread_data t r seen val (Q : unit -> lview -> Prop) :
    (forall seen', Q tt (base None 0 seen' (Some ev_detach) None)) ->
    safe t (free_thread_data c r true) (base (Some r) 0 seen (Some ev_detach) val) Q.
  Proof.
    intros HQ. unfold free_thread_data. apply Conc.safe_bind.
    apply (safe_clear_loop t r seen); [|lia]. intros val1.
    apply Conc.safe_bind. apply safe_scan; [reflexivity|reflexivity|intros cl []|].
    intros seen1 _. simplv.
    apply Conc.safe_bind. apply (safe_help_scan t r (cH c) seen1). intros seen2.
    (* g_det *)
    act. exists (upd_view a t (det_view (view a t) r)).
    split; [apply inv_emit_det; [exact HI|now rewrite Hv|rewrite Hv; cbn; lia|now rewrite Hv]|]. split; [apply frame_upd_view|].
    rewrite view_upd_same, Hv. simplv. clear g a tr HI Hv.
    (* owner_rec_.store( nullptr ) *)
    act. cbn [a_st_owner fst snd].
    assert (Hing : In r (g_list g)) by (apply (i_seen _ _ _ _ HI t r); rewrite Hv; cbn; now left).
    exists (upd_view a t (with_held (view a t) (remove Nat.eq_dec r (v_held (view a t))))).
    split.
    { apply inv_release_held; [apply inv_acc; [exact HI|discriminate]|rewrite Hv; now left|exact Hing|rewrite Hv; intros cl []]. }
    split; [apply frame_upd_view|]. rewrite view_upd_same, Hv. simplv.
    rewrite remove_single. apply HQ.
  Qed.

  (** ** alloc_thread_data *)
  Lemma safe_reuse_loop t op val (Q : option nat -> lview -> Prop) :
    forall l seen, incl l seen ->
      (forall r, Q (Some r) (base (Some r) 0 seen op None)) -> Q None (base None 0 seen op val) ->
      safe t (reuse_loop l) (base None 0 seen op val) Q.
  Proof.
    induction l as [|r l' IH]; intros seen Hincl HQ1 HQ2; cbn [reuse_loop]; [exact HQ2|].
    assert (Hl' : incl l' seen) by (intros x Hx; apply Hincl; now right).
    assert (Hr : In r seen) by (apply Hincl; now left).
    act. unfold a_cas_owner. destruct (r_owner (get_rec g r)) eqn:Eo; cbn [fst snd vB].
    - exists a. split; [apply inv_acc; [exact HI|discriminate]|]. split; [apply frame_refl|]. rewrite Hv. now apply IH.
    - assert (Hing : In r (g_list g)) by (apply (i_seen _ _ _ _ HI t r); now rewrite Hv).
      exists (upd_view a t (with_held (view a t) (r :: v_held (view a t)))). split.
      { apply inv_acquire_held; [apply inv_acc; [exact HI|discriminate]|apply not_resp_after_acc; discriminate|exact Hing|exact Eo]. }
      split; [apply frame_upd_view|]. rewrite view_upd_same, Hv. simplv.
      clear g a tr HI Hv Eo Hing.
      (* g_att *)
      act. exists (upd_view a t (att_view (view a t) r)).
      split; [apply inv_emit_att; [exact HI|now rewrite Hv|now rewrite Hv|rewrite Hv; now left|]|].
      { apply (i_seen _ _ _ _ HI t r). now rewrite Hv. }
      split; [apply frame_upd_view|]. rewrite view_upd_same, Hv. simplv.
      rewrite remove_single. clear g a tr HI Hv.
      act. cbn [a_st_free fst snd]. exists a.
      split; [apply inv_st_free; apply inv_acc; [exact HI|discriminate]|]. split; [apply frame_refl|]. rewrite Hv. apply HQ1.
  Qed.


  Lemma safe_push_loop t r seen op val (Q : bool -> lview -> Prop) :
    (forall seen', Q true (base (Some r) 0 seen' op None)) -> Q false (fresh_view r seen op val) ->
    forall fuel exp, safe t (push_loop fuel r exp) (fresh_view r seen op val) Q.
  Proof.
    intros HQ1 HQ2. induction fuel as [|fuel IH]; intros exp; cbn [push_loop]; [exact HQ2|].
    act. unfold a_cas_head. destruct (same_head exp (g_list g)); cbn [fst snd vB vR].
    - exists (upd_view a t (with_seen (view a t) (r :: g_list g))). split.
      { apply (inv_set_seen c (push_rec g r) a _ t). apply inv_push_held with (t := t); [apply inv_acc; [exact HI|discriminate]|rewrite Hv; now left]. }
      split; [apply frame_upd_view|]. rewrite view_upd_same, Hv. simplv.
      clear HI Hv. set (seen1 := r :: g_list g). assert (Hr1 : In r seen1) by now left. clearbody seen1. clear g a tr.
      act. exists (upd_view a t (att_view (view a t) r)).
      split; [apply inv_emit_att; [exact HI|now rewrite Hv|now rewrite Hv|rewrite Hv; now left|]|].
      { apply (i_seen _ _ _ _ HI t r). now rewrite Hv. }
      split; [apply frame_upd_view|]. rewrite view_upd_same, Hv. simplv.
      rewrite remove_single. apply HQ1.
    - exists a. split; [apply inv_acc; [exact HI|discriminate]|]. split; [apply frame_refl|]. rewrite Hv. apply IH.
  Qed.

  Lemma safe_alloc t seen op val (Q : option nat -> lview -> Prop) :
    (forall r seen', Q (Some r) (base (Some r) 0 seen' op None)) ->
    (forall r seen', Q None (fresh_view r seen' op val)) ->
    safe t (alloc_thread_data c) (base None 0 seen op val) Q.
  Proof.
    intros HQ1 HQ2. unfold alloc_thread_data. act. cbn [a_ld_head fst snd vR].
    exists (upd_view a t (with_seen (view a t) (g_list g))).
    split; [apply inv_set_seen; apply inv_acc; [exact HI|discriminate]|]. split; [apply frame_upd_view|].
    rewrite view_upd_same, Hv. simplv.
    set (seen1 := g_list g). clearbody seen1. clear g a tr HI Hv.
    apply Conc.safe_bind. apply (safe_reuse_loop t op val _ seen1 seen1); [apply incl_refl| |].
    - intros r. cbn [Conc.safe]. apply HQ1.
    - act. cbn [a_new_rec fst snd vN]. set (r := List.length (g_recs g)).
      exists (upd_view a t (with_held (view a t) (r :: v_held (view a t)))). split.
      { apply (inv_new_rec c g a _ t); [apply inv_acc; [exact HI|discriminate]|apply not_resp_after_acc; discriminate]. }
      split; [apply frame_upd_view|]. rewrite view_upd_same, Hv. simplv.
      clearbody r. clear g a tr HI Hv.
      act. cbn [a_ld_head fst snd vR].
      exists (upd_view a t (with_seen (view a t) (g_list g))).
      split; [apply inv_set_seen; apply inv_acc; [exact HI|discriminate]|]. split; [apply frame_upd_view|].
      rewrite view_upd_same, Hv. simplv.
      apply Conc.safe_bind. apply (safe_push_loop t r (g_list g) op val); cbn [Conc.safe]; [intros; apply HQ1|apply HQ2].
  Qed.

  (** ** client operations *)
  Definition op_post (x : option local) (l' : lview) : Prop :=
    match x with Some lo' => exists seen' val', l' = base (l_rec lo') 0 seen' None val' | None => True end.

  Lemma idle_base o k seen op val : idle (base o k seen op val).
  Proof. split; reflexivity. Qed.

  Lemma op_valid_slot o : op_valid c o = true ->
    match o with OProtect j _ | OAssign j _ | OClear j | OTouch j | OCopy j _ => j < cH c | _ => True end.
  Proof.
    destruct o; cbn; intros H; auto; try (apply andb_true_iff in H; destruct H as (H & _)); now apply Nat.ltb_lt.
  Qed.

  Lemma rel_b_same n j rest :
    existsb (String.eqb n) ["protect"; "assign"; "clear"; "copy"] = true -> rel_b j (EvCli n (zn j :: rest)) = true.
  Proof. intros H. unfold rel_b. rewrite H, Z.eqb_refl. reflexivity. Qed.

  Lemma safe_emit_protected {A} t r j p k (K : prog A) v Q :
    v_val v = Some (r, j, p, Some k) -> idle v ->
    safe t K (with_x v None (v_val v)) Q -> safe t (Emit [EvCli "protected" [zn j; p]] K) v Q.
  Proof.
    intros Hval Hi HK. act. exists (upd_view a t (with_x (view a t) None (v_val (view a t)))).
    split; [eapply inv_emit_protected; [exact HI|rewrite Hv; exact Hval|now rewrite Hv]|].
    split; [apply frame_upd_view|]. rewrite view_upd_same, Hv. exact HK.
  Qed.

  Ltac resp := apply safe_emit_resp; [reflexivity|reflexivity|apply idle_base|].
  Ltac emit1 := apply safe_emit1; [reflexivity|reflexivity|].
  Ltac opn := apply safe_emit_open; [reflexivity|reflexivity|reflexivity|reflexivity|].
  Ltac done := cbn; eexists _, _; reflexivity.

  Lemma safe_run_op t lo o seen val : safe t (run_op c lo o) (base (l_rec lo) 0 seen None val) op_post.
  Proof.
    assert (Hskip : safe t (Emit [cli "skip" []] (Ret (Some lo))) (base (l_rec lo) 0 seen None val) op_post).
    { resp. done. }
    destruct o; cbn [run_op].
    - (* attach *) emit1. destruct (l_rec lo) as [r|] eqn:Er.
      + resp. cbn. rewrite Er. eexists _, _; reflexivity.
      + apply Conc.safe_bind. apply safe_alloc.
        * intros r seen'. resp. done.
        * intros r seen'. emit1. exact I.
    - (* detach *) destruct (l_rec lo) as [r|] eqn:Er; [|exact Hskip]. cbn [op_valid negb].
      opn. apply Conc.safe_bind. apply safe_free_thread_data. intros seen'. resp. done.
    - (* protect *) destruct (l_rec lo) as [r|] eqn:Er; [|exact Hskip].
      destruct (op_valid c (OProtect j k)) eqn:Ev; cbn [negb]; [|exact Hskip].
      pose proof (op_valid_slot _ Ev) as Hj. cbn in Hj.
      opn. apply Conc.safe_bind.
      eapply safe_protect; [reflexivity|exact Hj|reflexivity|reflexivity|apply rel_b_same; reflexivity| |].
      + intros p. eapply safe_emit_protected; [reflexivity|split; reflexivity|]. cbn. rewrite Er. eexists _, _; reflexivity.
      + intros val'. emit1. exact I.
    - (* assign *) destruct (l_rec lo) as [r|] eqn:Er; [|exact Hskip].
      destruct (op_valid c (OAssign j o)) eqn:Ev; cbn [negb]; [|exact Hskip].
      pose proof (op_valid_slot _ Ev) as Hj. cbn in Hj.
      opn. apply Conc.safe_bind.
      destruct (Z.eqb o 0); [eapply safe_clear|eapply safe_assign]; try reflexivity; try exact Hj; try (apply rel_b_same; reflexivity);
        (resp; cbn; rewrite Er; eexists _, _; reflexivity).
    - (* clear *) destruct (l_rec lo) as [r|] eqn:Er; [|exact Hskip].
      destruct (op_valid c (OClear j)) eqn:Ev; cbn [negb]; [|exact Hskip].
      pose proof (op_valid_slot _ Ev) as Hj. cbn in Hj.
      opn. apply Conc.safe_bind. eapply safe_clear; try reflexivity; try exact Hj; try (apply rel_b_same; reflexivity).
      resp. cbn. rewrite Er. eexists _, _; reflexivity.
    - (* publish *) destruct (l_rec lo) as [r|] eqn:Er; [|exact Hskip].
      destruct (op_valid c (OPublish k o)) eqn:Ev; cbn [negb]; [|exact Hskip].
      opn. act. cbn [a_xchg_src fst snd vZ].
      exists (upd_view a t (with_x (view a t) None (v_val (view a t)))).
      split; [apply (inv_xchg_src c g a tr t k o HI); rewrite Hv; [reflexivity|split; reflexivity]|].
      split; [apply frame_upd_view|]. rewrite view_upd_same, Hv. simplv.
      set (old := g_srcs g k). clearbody old. clear g a tr HI Hv.
      destruct (Z.eqb old 0); [cbn; rewrite Er; eexists _, _; reflexivity|].
      act. exists (set_claims a t (ClPush r old :: v_cl (view a t)) (set_eff (a_eff a) r (Some (r_ret (get_rec g r) ++ [old])))).
      split; [apply inv_emit_retire; [exact HI|now rewrite Hv|now rewrite Hv|rewrite Hv; intros cl []]|]. split; [apply frame_set_claims|].
      rewrite view_set_claims_same, Hv. simplv.
      apply Conc.safe_bind. eapply safe_retire; [reflexivity|reflexivity|reflexivity|intros cl []|].
      intros seen' _. simplv. resp. cbn. rewrite Er. eexists _, _; reflexivity.
    - (* retire *) destruct (l_rec lo) as [r|] eqn:Er; [|exact Hskip]. cbn [op_valid negb].
      destruct ((o <=? 0)%Z || (ARENA <=? o)%Z)%bool; [exact Hskip|].
      act. exists (set_claims a t (ClPush r o :: v_cl (view a t)) (set_eff (a_eff a) r (Some (r_ret (get_rec g r) ++ [o])))).
      split; [apply inv_emit_retire; [exact HI|now rewrite Hv|now rewrite Hv|rewrite Hv; intros cl []]|]. split; [apply frame_set_claims|].
      rewrite view_set_claims_same, Hv. simplv.
      apply Conc.safe_bind. eapply safe_retire; [reflexivity|reflexivity|reflexivity|intros cl []|].
      intros seen' _. simplv. resp. cbn. rewrite Er. eexists _, _; reflexivity.
    - (* scan *) destruct (l_rec lo) as [r|] eqn:Er; [|exact Hskip]. cbn [op_valid negb].
      emit1. apply Conc.safe_bind. apply safe_scan; [reflexivity|reflexivity|intros cl []|].
      intros seen' _. simplv. resp. cbn. rewrite Er. eexists _, _; reflexivity.
    - (* touch *) destruct (l_rec lo) as [r|] eqn:Er; [|exact Hskip].
      destruct (op_valid c (OTouch j)) eqn:Ev; cbn [negb]; [|exact Hskip].
      resp. cbn. rewrite Er. eexists _, _; reflexivity.
    - (* copy *) destruct (l_rec lo) as [r|] eqn:Er; [|exact Hskip].
      destruct (op_valid c (OCopy j i)) eqn:Ev; cbn [negb]; [|exact Hskip].
      pose proof (op_valid_slot _ Ev) as Hj. cbn in Hj.
      opn. apply Conc.safe_bind. eapply safe_copy; try reflexivity; try exact Hj; try (apply rel_b_same; reflexivity).
      intros z. resp. cbn. rewrite Er. eexists _, _; reflexivity.
  Qed.

  Lemma safe_run_ops t os : forall lo seen val, safe t (run_ops c lo os) (base (l_rec lo) 0 seen None val) (@Conc.QTrue lview).
  Proof.
    induction os as [|o rest IH]; intros lo seen val; cbn [run_ops]; [exact I|].
    apply Conc.safe_bind. eapply Conc.safe_weaken; [|apply safe_run_op].
    intros [lo'|] l' Hp; cbn in Hp; [|exact I]. destruct Hp as (seen' & val' & ->). apply IH.
  Qed.

  Lemma safe_thread t os : safe t (thread_prog c os) v0 (@Conc.QTrue lview).
  Proof.
    unfold thread_prog. act. cbn [a_begin fst snd].
    exists (upd_view a t (with_x (view a t) None (v_val (view a t)))). split; [|split; [apply frame_upd_view|]].
    - apply inv_emit_close; [exact HI|intros e [<-|[]]; reflexivity|intros e [<-|[]]; reflexivity|].
      intros es' e He _. rewrite Hv. split; reflexivity.
    - rewrite view_upd_same, Hv. apply (safe_run_ops t os local0 [] None).
  Qed.
End Safe.
