(** * cds::sync::lock_array: per-cell mutual exclusion, instance of LocksProofs.locks_mutex with
      cell = hint mod size (the events "enter c" / "leave c" carry the cell returned by lock()/try_lock(),
      which the model computes as [LocksArray.sel size hint]). *)
From Coq Require Import ZArith List String Bool Lia PeanoNat.
From LV Require Import Base.Conc Base.Events Model.SpinLock Model.Locks Model.LocksArray Proofs.LocksProofs.
Import ListNotations.
Local Open Scope Z_scope.

Theorem lock_array_mutex size fuel ths c :
  Conc.reach (LocksArray.init_cfg size fuel ths) c ->
  forall cell, 0 <= occ cell (Conc.trace c) <= 1 /\
               (occ cell (Conc.trace c) = 1 -> get_spin (Conc.shared c) cell = true).
Proof. apply locks_mutex. Qed.

(** the cell is a valid index *)
Lemma lock_array_cell_in_range size h : (0 < size)%nat -> (LocksArray.sel size h < size)%nat.
Proof. intros H. unfold LocksArray.sel. apply Nat.mod_upper_bound. lia. Qed.
