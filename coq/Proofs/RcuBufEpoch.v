(** * general_buffered: the epoch invariant.  Every entry (object, epoch) in the buffer or in a thread's hands carries,
      as ghost data, the position [k] of its "retire" event; a thread that has executed the fetch_add of synchronize
      carries the ghost position [i] of that step and the epoch [n] it returned.  The epoch lemma: an entry whose
      epoch is <= n was retired before position i, i.e. before the grace period of that synchronize began. *)
From Coq Require Import ZArith List String Bool Lia PeanoNat.
From LV Require Import Base.Conc Base.Events Model.RcuGp Model.RcuBuf Proofs.RcuGpInv.
Import ListNotations.
Local Open Scope string_scope.
Local Open Scope list_scope.
Local Open Scope Z_scope.

(** ** hands with a payload *)
Definition hent := (Z * option Z * nat)%type.        (* object, epoch once loaded, position of the retire event *)
Definition ehands := list (nat * hent).

Definition gmine (t : nat) (h : ehands) : list hent := map snd (filter (fun x => Nat.eqb (fst x) t) h).

(** remove the first entry of thread [t] *)
Fixpoint grmf (t : nat) (h : ehands) : ehands :=
  match h with
  | [] => []
  | (t', x) :: r => if Nat.eqb t' t then r else (t', x) :: grmf t r
  end.

(** set the epoch of the entries of thread [t] that have none yet *)
Definition set_ep (e : Z) (x : hent) : hent := match x with (p, None, k) => (p, Some e, k) | _ => x end.
Definition gset (t : nat) (e : Z) (h : ehands) : ehands :=
  map (fun x => if Nat.eqb (fst x) t then (fst x, set_ep e (snd x)) else x) h.

Lemma gmine_cons_same t x h : gmine t ((t, x) :: h) = x :: gmine t h.
Proof. unfold gmine. cbn. rewrite Nat.eqb_refl. reflexivity. Qed.
Lemma gmine_cons_other t t' x h : t' <> t -> gmine t' ((t, x) :: h) = gmine t' h.
Proof. unfold gmine. cbn. intros H. destruct (Nat.eqb_spec t t'); [congruence|reflexivity]. Qed.
Lemma gmine_app t h h' : gmine t (h ++ h') = gmine t h ++ gmine t h'.
Proof. unfold gmine. rewrite filter_app, map_app. reflexivity. Qed.

Lemma gmine_grmf_other t t' h : t' <> t -> gmine t' (grmf t h) = gmine t' h.
Proof.
  intros Hne. induction h as [|[t0 x] r IH]; [reflexivity|]. cbn [grmf].
  destruct (Nat.eqb_spec t0 t) as [->|N].
  - rewrite gmine_cons_other by exact Hne. reflexivity.
  - unfold gmine in *. cbn. destruct (Nat.eqb t0 t'); cbn; rewrite IH; reflexivity.
Qed.

Lemma gmine_grmf_head t h x hs : gmine t h = x :: hs -> gmine t (grmf t h) = hs.
Proof.
  induction h as [|[t0 y] r IH]; [discriminate|]. cbn [grmf].
  destruct (Nat.eqb_spec t0 t) as [->|N].
  - rewrite gmine_cons_same. intros E. inversion E. reflexivity.
  - rewrite gmine_cons_other by congruence. intros E. rewrite gmine_cons_other by congruence. apply IH; exact E.
Qed.

Lemma gmine_in t h x : In x (gmine t h) <-> In (t, x) h.
Proof.
  unfold gmine. rewrite in_map_iff. split.
  - intros ([t0 y] & E & Hin). apply filter_In in Hin. destruct Hin as (Hin & Ht). cbn in *. apply Nat.eqb_eq in Ht. subst. exact Hin.
  - intros Hin. exists (t, x). split; [reflexivity|]. apply filter_In. split; [exact Hin|]. cbn. apply Nat.eqb_refl.
Qed.

Lemma grmf_incl t h y : In y (grmf t h) -> In y h.
Proof.
  induction h as [|[t0 x] r IH]; [intros []|]. cbn [grmf]. destruct (Nat.eqb t0 t).
  - intros H; right; exact H.
  - intros [H|H]; [left; exact H|right; apply IH; exact H].
Qed.

Lemma gmine_gset_same t e h : gmine t (gset t e h) = map (set_ep e) (gmine t h).
Proof.
  induction h as [|[t0 x] r IH]; [reflexivity|]. unfold gset in *. cbn [map fst snd].
  destruct (Nat.eqb_spec t0 t) as [->|N].
  - rewrite !gmine_cons_same. cbn [map]. rewrite IH. reflexivity.
  - rewrite !gmine_cons_other by congruence. exact IH.
Qed.

Lemma gmine_gset_other t t' e h : t' <> t -> gmine t' (gset t e h) = gmine t' h.
Proof.
  intros Hne. induction h as [|[t0 x] r IH]; [reflexivity|]. unfold gset in *. cbn [map fst snd].
  destruct (Nat.eqb_spec t0 t) as [->|N].
  - rewrite !gmine_cons_other by exact Hne. exact IH.
  - destruct (Nat.eq_dec t0 t') as [->|N'].
    + rewrite !gmine_cons_same. rewrite IH. reflexivity.
    + rewrite !gmine_cons_other by congruence. exact IH.
Qed.

Lemma gset_in t e h y : In y (gset t e h) -> exists x, In x h /\ fst y = fst x /\ (snd y = snd x \/ (fst x = t /\ snd y = set_ep e (snd x))).
Proof.
  unfold gset. rewrite in_map_iff. intros (x & E & Hin). exists x. split; [exact Hin|]. destruct (Nat.eqb_spec (fst x) t); subst y; cbn; auto.
Qed.

(** ** auxiliary state *)
Inductive esync := ENone | EIn (i : nat) (n : Z).
Record AuxE := mkE {
  e_buf : list (Z * Z * nat);     (* the buffer with the retire position of every entry *)
  e_h : ehands;
  e_s : nat -> esync
}.
Definition LE := (list hent * esync)%type.
Definition viewE (a : AuxE) (t : nat) : LE := (gmine t (e_h a), e_s a t).

Definition pe (x : Z * Z * nat) : Z * Z := (fst (fst x), snd (fst x)).

Definition entry_ok (g : G) (a : AuxE) (tr : trace) (p : Z) (oe : option Z) (k : nat) : Prop :=
  (exists w, at_ tr k w (is_retire p)) /\
  match oe with
  | Some e => e <= g_epoch g /\ forall w i n, e_s a w = EIn i n -> e <= n -> (k < i)%nat
  | None => True
  end.

Record InvE (g : G) (a : AuxE) (tr : trace) : Prop := {
  E0 : map pe (e_buf a) = g_buf g;
  EB : forall p e k, In (p, e, k) (e_buf a) -> entry_ok g a tr p (Some e) k;
  EH : forall t p oe k, In (t, (p, oe, k)) (e_h a) -> entry_ok g a tr p oe k;
  E2 : forall w i n, e_s a w = EIn i n -> n < g_epoch g /\ (i <= List.length tr)%nat
}.

Lemma entry_ok_mono g g' a a' tr x p oe k :
  g_epoch g <= g_epoch g' -> (forall w, e_s a' w = e_s a w) ->
  entry_ok g a tr p oe k -> entry_ok g' a' (tr ++ x) p oe k.
Proof.
  intros Hg Hs ((w & Hat) & H). split; [exists w; apply at_app_l; exact Hat|].
  destruct oe as [e|]; [|exact I]. destruct H as (H1 & H2). split; [lia|]. intros w0 i n. rewrite Hs. apply H2.
Qed.

(** *** steps *)
Definition plainE (e : ev) : Prop := True.

(** any step that leaves buffer and epoch alone and changes no ghost state *)
Lemma InvE_keep g g' a tr x :
  g_buf g' = g_buf g -> g_epoch g' = g_epoch g -> InvE g a tr -> InvE g' a (tr ++ x).
Proof.
  intros Eb Ee [H0 HB HH H2]. constructor.
  - rewrite Eb. exact H0.
  - intros p e k Hin. eapply entry_ok_mono with (g := g) (a := a); [rewrite Ee; lia|intros; reflexivity|apply HB; exact Hin].
  - intros t p oe k Hin. eapply entry_ok_mono with (g := g) (a := a); [rewrite Ee; lia|intros; reflexivity|eapply HH; eauto].
  - intros w i n Hw. destruct (H2 w i n Hw) as (A & B). rewrite Ee, app_length. split; [exact A|lia].
Qed.

(** "retire p": a new entry without epoch in the caller's hands *)
Lemma InvE_retire g a tr t p :
  InvE g a tr ->
  InvE g (mkE (e_buf a) (e_h a ++ [(t, (p, None, List.length tr))]) (e_s a)) (tr ++ [(t, EvCli "retire" [p])]).
Proof.
  intros [H0 HB HH H2]. constructor; cbn [e_buf e_h e_s].
  - exact H0.
  - intros q e k Hin. eapply entry_ok_mono with (g := g) (a := a); [lia|intros; reflexivity|apply HB; exact Hin].
  - intros t0 q oe k Hin. apply in_app_or in Hin. destruct Hin as [Hin|[E|[]]].
    + eapply entry_ok_mono with (g := g) (a := a); [lia|intros; reflexivity|eapply HH; eauto].
    + inversion E; subst. split; [|exact I]. eexists. apply at_snoc_last. unfold is_retire, cli_is. cbn. apply Z.eqb_refl.
  - intros w i n Hw. destruct (H2 w i n Hw) as (A & B). rewrite app_length. split; [exact A|lia].
Qed.

(** the epoch load of retire_ptr / batch_retire: my fresh entries get the current epoch *)
Lemma InvE_load g a tr t x :
  InvE g a tr -> InvE g (mkE (e_buf a) (gset t (g_epoch g) (e_h a)) (e_s a)) (tr ++ x).
Proof.
  intros [H0 HB HH H2]. constructor; cbn [e_buf e_h e_s].
  - exact H0.
  - intros q e k Hin. eapply entry_ok_mono with (g := g) (a := a); [lia|intros; reflexivity|apply HB; exact Hin].
  - intros t0 q oe k Hin. destruct (gset_in _ _ _ _ Hin) as ([t1 [[q1 oe1] k1]] & Hin1 & Ef & Es). cbn in Ef, Es. subst t1.
    destruct Es as [Es|(Et & Es)].
    + inversion Es; subst. eapply entry_ok_mono with (g := g) (a := a); [lia|intros; reflexivity|eapply HH; eauto].
    + destruct oe1 as [e1|]; cbn in Es; inversion Es; subst.
      * eapply entry_ok_mono with (g := g) (a := a); [lia|intros; reflexivity|eapply HH; eauto].
      * destruct (HH _ _ _ _ Hin1) as ((w & Hat) & _). split; [exists w; apply at_app_l; exact Hat|].
        split; [lia|]. intros w0 i n Hw Hle. destruct (H2 w0 i n Hw) as (A & _). lia.
  - intros w i n Hw. destruct (H2 w i n Hw) as (A & B). rewrite app_length. split; [exact A|lia].
Qed.

(** successful push of my first entry *)
Lemma InvE_push g a tr t p e k hs x :
  gmine t (e_h a) = (p, Some e, k) :: hs -> InvE g a tr ->
  InvE (set_buf g (g_buf g ++ [(p, e)])) (mkE (e_buf a ++ [(p, e, k)]) (grmf t (e_h a)) (e_s a)) (tr ++ x).
Proof.
  intros Hm [H0 HB HH H2].
  assert (Hin : In (t, (p, Some e, k)) (e_h a)) by (apply gmine_in; rewrite Hm; left; reflexivity).
  constructor; cbn [e_buf e_h e_s set_buf g_buf g_epoch].
  - rewrite map_app, H0. reflexivity.
  - intros q e0 k0 Hq. apply in_app_or in Hq. destruct Hq as [Hq|[E|[]]].
    + eapply entry_ok_mono with (g := g) (a := a); [cbn; lia|intros; reflexivity|apply HB; exact Hq].
    + inversion E; subst. eapply entry_ok_mono with (g := g) (a := a); [cbn; lia|intros; reflexivity|eapply HH; eauto].
  - intros t0 q oe k0 Hq. apply grmf_incl in Hq. eapply entry_ok_mono with (g := g) (a := a); [cbn; lia|intros; reflexivity|eapply HH; eauto].
  - intros w i n Hw. destruct (H2 w i n Hw) as (A & B). rewrite app_length. split; [exact A|lia].
Qed.

(** pop: the oldest buffer entry goes into my hands *)
Lemma InvE_pop g a tr t p e r x :
  g_buf g = (p, e) :: r -> InvE g a tr ->
  exists k rest, e_buf a = (p, e, k) :: rest /\
    InvE (set_buf g r) (mkE rest ((t, (p, Some e, k)) :: e_h a) (e_s a)) (tr ++ x).
Proof.
  intros Hb [H0 HB HH H2]. rewrite Hb in H0. destruct (e_buf a) as [|[[p0 e0] k] rest] eqn:Eb; [discriminate|].
  cbn in H0. inversion H0; subst p0 e0. exists k, rest. split; [reflexivity|].
  constructor; cbn [e_buf e_h e_s set_buf g_buf g_epoch].
  - reflexivity.
  - intros q e1 k1 Hq. eapply entry_ok_mono with (g := g) (a := a); [cbn; lia|intros; reflexivity|apply HB; right; exact Hq].
  - intros t0 q oe k1 [E|Hq].
    + inversion E; subst. eapply entry_ok_mono with (g := g) (a := a); [cbn; lia|intros; reflexivity|apply HB; left; reflexivity].
    + eapply entry_ok_mono with (g := g) (a := a); [cbn; lia|intros; reflexivity|eapply HH; eauto].
  - intros w i n Hw. destruct (H2 w i n Hw) as (A & B). rewrite app_length. split; [exact A|lia].
Qed.

(** "dispose": my first entry leaves the accounting *)
Lemma InvE_drop g a tr t x :
  InvE g a tr -> InvE g (mkE (e_buf a) (grmf t (e_h a)) (e_s a)) (tr ++ x).
Proof.
  intros [H0 HB HH H2]. constructor; cbn [e_buf e_h e_s].
  - exact H0.
  - intros q e k Hin. eapply entry_ok_mono with (g := g) (a := a); [lia|intros; reflexivity|apply HB; exact Hin].
  - intros t0 q oe k Hq. apply grmf_incl in Hq. eapply entry_ok_mono with (g := g) (a := a); [lia|intros; reflexivity|eapply HH; eauto].
  - intros w i n Hw. destruct (H2 w i n Hw) as (A & B). rewrite app_length. split; [exact A|lia].
Qed.

(** the fetch_add of synchronize at position [length tr] *)
Lemma InvE_faa g a tr t e0 :
  InvE g a tr ->
  InvE (set_epoch g (g_epoch g + 1))
       (mkE (e_buf a) (e_h a) (fun w => if Nat.eqb w t then EIn (List.length tr) (g_epoch g) else e_s a w)) (tr ++ [e0]).
Proof.
  intros [H0 HB HH H2].
  assert (K : forall p oe k, entry_ok g a tr p oe k ->
              entry_ok (set_epoch g (g_epoch g + 1))
                (mkE (e_buf a) (e_h a) (fun w => if Nat.eqb w t then EIn (List.length tr) (g_epoch g) else e_s a w)) (tr ++ [e0]) p oe k).
  { intros p oe k ((w & Hat) & H). split; [exists w; apply at_app_l; exact Hat|].
    destruct oe as [e|]; [|exact I]. destruct H as (H1 & H3). cbn [g_epoch set_epoch e_s]. split; [lia|].
    intros w0 i n. destruct (Nat.eqb w0 t).
    - intros E _; inversion E; subst. eapply at_lt; eauto.
    - apply H3. }
  constructor; cbn [e_buf e_h e_s set_epoch g_buf g_epoch].
  - exact H0.
  - intros p e k Hin. apply K. apply HB; exact Hin.
  - intros t0 p oe k Hin. apply K. eapply HH; eauto.
  - intros w i n. destruct (Nat.eqb w t).
    + intros E; inversion E; subst. rewrite app_length. cbn. split; lia.
    + intros Hw. destruct (H2 w i n Hw) as (A & B). rewrite app_length. split; lia.
Qed.

(** the epoch lemma as used at a disposal: an entry of my hands with epoch <= n was retired before position i *)
Lemma epoch_lemma g a tr t p e k i n :
  InvE g a tr -> In (t, (p, Some e, k)) (e_h a) -> e_s a t = EIn i n -> e <= n ->
  (k < i)%nat /\ exists w, at_ tr k w (is_retire p).
Proof.
  intros HI Hin Hs Hle. destruct (EH _ _ _ HI _ _ _ _ Hin) as (Hat & _ & H). split; [eapply H; eauto|exact Hat].
Qed.

Lemma hand_retired g a tr t p oe k :
  InvE g a tr -> In (t, (p, oe, k)) (e_h a) -> (k < List.length tr)%nat /\ exists w, at_ tr k w (is_retire p).
Proof.
  intros HI Hin. destruct (EH _ _ _ HI _ _ _ _ Hin) as ((w & Hat) & _). split; [eapply at_lt; eauto|exists w; exact Hat].
Qed.

(** frames *)
Lemma frameE_snoc a t x : Conc.frame viewE t a (mkE (e_buf a) (e_h a ++ [(t, x)]) (e_s a)).
Proof.
  intros t' H. unfold viewE. cbn [e_h e_s]. rewrite gmine_app, gmine_cons_other by exact H. cbn. rewrite app_nil_r. reflexivity.
Qed.
Lemma frameE_cons a b t x : Conc.frame viewE t a (mkE b ((t, x) :: e_h a) (e_s a)).
Proof. intros t' H. unfold viewE. cbn [e_h e_s]. rewrite gmine_cons_other by exact H. reflexivity. Qed.
Lemma frameE_rmf a b t : Conc.frame viewE t a (mkE b (grmf t (e_h a)) (e_s a)).
Proof. intros t' H. unfold viewE. cbn [e_h e_s]. rewrite gmine_grmf_other by exact H. reflexivity. Qed.
Lemma frameE_set a t e : Conc.frame viewE t a (mkE (e_buf a) (gset t e (e_h a)) (e_s a)).
Proof. intros t' H. unfold viewE. cbn [e_h e_s]. rewrite gmine_gset_other by exact H. reflexivity. Qed.
Lemma frameE_sync a t s : Conc.frame viewE t a (mkE (e_buf a) (e_h a) (fun w => if Nat.eqb w t then s else e_s a w)).
Proof. intros t' H. unfold viewE. cbn [e_h e_s]. destruct (Nat.eqb_spec t' t); [contradiction|reflexivity]. Qed.
