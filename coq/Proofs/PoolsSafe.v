(** * C24: the pool operations preserve the Vyukov core invariant extended with the ownership discipline
      [PoolExt], for every schedule; theorems [pool_unique_holder], [pool_deallocated_available_again]. *)
From Coq Require Import ZArith List Bool Lia PeanoNat.
From Coq Require String.
Import String.StringSyntax.
From LV Require Import Base.Conc Base.Events Base.CInt Base.Lin Spec.Specs Model.Vyukov Model.Pools
                       Proofs.VyukovSpec Proofs.VyukovArith Proofs.VyukovCore Proofs.PoolsProofs.
Import ListNotations.
Local Open Scope string_scope.
Local Open Scope Z_scope.

Section PoolSafe.
  Variable k : nat.
  Hypothesis Hk : (1 <= k)%nat.
  Variable c : pcfg.
  Hypothesis Hcap : pcap c = 2 ^ Z.of_nat k.
  Variable fuel : nat.

  Notation capn := (2 ^ k)%nat.
  Notation St := (status (VQ capn)).
  Notation X := (nat -> list Z * nat).
  Notation LX := (list Z * nat)%type.
  Notation N := (pthreads c).
  Notation Ext := (PoolExt k c).
  Notation q := (pq c).

  Lemma Hq : qcap q = 2 ^ Z.of_nat k.
  Proof. exact Hcap. Qed.

  Definition pe0 : Z := posE (pool_init c).

  Lemma He0 : 0 <= pe0.
  Proof.
    unfold pe0, pool_init. pose proof (cap_ge2 k Hk). destruct (pkind c =? 1); cbn; lia.
  Qed.

  Notation RealInv24 := (RealInv k None pe0 X Ext).
  Notation Inv24 := (Inv k None pe0 X Ext).
  Notation view24 := (view X LX xview24).
  Notation safe := (@Conc.safe G V ev (Aux X) (phase * LX) view24 Inv24).
  Notation Eacc := (PoolExt_acc k c).
  Notation Eext := (PoolExt_ext k c).
  Notation Elin := (PoolExt_lin k c).

  Definition core_enq := safe_enqueue k Hk q Hq None pe0 He0 X LX xview24 xlin24 Ext Eacc Eext Elin xview24_lin.
  Definition core_deq := safe_dequeue k Hk q Hq None pe0 He0 X LX xview24 xlin24 Ext Eacc Eext Elin xview24_lin.

  Lemma view_inv24 (a : Aux X) t p lx : view24 a t = (p, lx) -> ph X a t = p /\ ext X a t = lx.
  Proof. unfold view, xview24. intros H. inversion H. auto. Qed.

  Ltac use_step S :=
    let I1 := fresh "I1" in let I2 := fresh "I2" in let I3 := fresh "I3" in let Hok := fresh "Hok" in
    match type of S with
    | ?A -> _ =>
        assert (Hok : A);
        [clear S
        |specialize (S Hok); destruct S as (I1 & I2 & I3); eexists;
         split; [exact I1|split; [exact I2|rewrite I3; clear I1 I2 I3 Hok]]]
    end.

  (** a client event (or a ghost step): the thread moves between phases that carry no obligations and may
      update its own client state *)
  Lemma emit24 g (a : Aux X) tr t p p' lx lx' es :
    Inv24 g a tr -> view24 a t = (p, lx) ->
    nclaims (Conc.tag t es) = 0 -> unclaimed p -> unclaimed p' ->
    (forall g', phase_ok k g' p') -> (consumer p' -> True) -> (is_front p' -> False) ->
    (RealInv24 g a tr -> bound k pe0 tr ->
       Ext (absq X a) (fun u => stat_of k (updp (ph X a) t p' u)) (updx (ext X a) t lx') (tr ++ Conc.tag t es)) ->
    Inv24 g (mkAux X (absq X a) (updp (ph X a) t p') (updx (ext X a) t lx')) (tr ++ Conc.tag t es) /\
    Conc.frame view24 t a (mkAux X (absq X a) (updp (ph X a) t p') (updx (ext X a) t lx')) /\
    view24 (mkAux X (absq X a) (updp (ph X a) t p') (updx (ext X a) t lx')) t = (p', lx').
  Proof.
    intros Hi Hv Hn Hu Hu' Hok _ Hfr HE. destruct (view_inv24 _ _ _ _ Hv) as [Hp Hx].
    split; [|split].
    - intros Hb. pose proof (bound_app k Hk pe0 _ _ Hb) as Hb0. specialize (Hi Hb0).
      apply (ri_client k Hk); auto.
      + rewrite Hp; auto.
      + intros _ tc H; discriminate.
      + intros F. destruct (Hfr F).
    - intros u Hu0. unfold view, xview24; cbn. now rewrite updp_other, updx_other.
    - unfold view, xview24; cbn. now rewrite updp_same, updx_same.
  Qed.

  (** only the trace grows, by client events that concern no invariant (out of fuel) *)
  Lemma ri_trace_only g (a : Aux X) tr t es :
    RealInv24 g a tr -> nclaims (Conc.tag t es) = 0 ->
    Ext (absq X a) (fun u => stat_of k (ph X a u)) (ext X a) (tr ++ Conc.tag t es) ->
    RealInv24 g a (tr ++ Conc.tag t es).
  Proof.
    intros [Rpos Rcl Rlen Rcont Rused Rfree Rseqb Rph RuE RuD Rsc Rfr Rext] Hn HE.
    constructor; auto. rewrite nclaims_app, Hn. lia.
  Qed.

  Lemma stat_updp_ext (a : Aux X) t p' x' tr' qs :
    Ext qs (Lin.upd (fun u => stat_of k (ph X a u)) t (stat_of k p')) x' tr' ->
    Ext qs (fun u => stat_of k (updp (ph X a) t p' u)) x' tr'.
  Proof. apply Eext. intros u. apply stat_updp. Qed.

  (** the status of a thread that is not idle: its busy flag is set *)
  Lemma busy_of_status qs (S : nat -> St) x tr t : Ext qs S x tr -> S t <> @Idle (VQ capn) -> busy tr t = true.
  Proof. intros E H. destruct (busy tr t) eqn:B; auto. exfalso. apply H. apply (pe_busy _ _ _ _ _ _ E t B). Qed.

  (** stop events *)
  Lemma safe_stop24 t p lx name held :
    (name = "outoffuel" \/ (name = "ub" /\ p = PUB)) ->
    safe t (stop name held) (p, lx) (fun r _ => fst r = true -> False).
  Proof.
    intros Hname. unfold stop. cbn [Conc.safe]. intros g a tr Hi Hv.
    destruct (view_inv24 _ _ _ _ Hv) as [Hp Hx].
    exists a. split; [|split; [intros ? ?; reflexivity|cbn; intros H; discriminate]].
    intros Hb. pose proof (bound_app k Hk pe0 _ _ Hb) as Hb0. pose proof (Hi Hb0) as R.
    destruct Hname as [->|[-> ->]].
    - apply ri_trace_only; auto.
      pose proof (ri_ext k None pe0 X Ext g a tr R) as E.
      apply (PoolExt_move k Hk c _ _ _ _ _ _ _ E); auto.
      + intros u. apply (pe_ok _ _ _ _ _ _ E).
      + intros u. rewrite heldby_tag. destruct (Nat.eqb_spec u t) as [->|]; auto. apply held_neutral; auto.
      + rewrite avail_app. reflexivity.
      + intros u. rewrite busy_tag. destruct (Nat.eqb_spec u t) as [->|].
        * rewrite busy_keep by auto. apply (pe_busy _ _ _ _ _ _ E).
        * apply (pe_busy _ _ _ _ _ _ E).
    - exfalso. pose proof (ri_ph k None pe0 X Ext g a tr R t) as P. rewrite Hp in P. exact P.
  Qed.

  (** ** while ( !push ) *)
  Definition Qpush (p : Z) (lx : LX) : outcome unit -> phase * LX -> Prop :=
    fun r l => match r with Done _ => l = (EnqDone p, lx) | OutOfFuel => True | UB => l = (PUB, lx) end.

  Lemma safe_push_loop lfuel : forall t p lx,
    safe t (push_loop c fuel lfuel p) (PEnq p, lx) (Qpush p lx).
  Proof.
    induction lfuel as [|f IH]; intros t p lx; cbn [push_loop]; [exact I|].
    apply Conc.safe_bind. eapply Conc.safe_weaken; [|apply core_enq].
    intros [[|]| |] l Hl; cbn [Qenq] in Hl; cbn [Conc.safe Qpush]; auto.
    subst l. intros g a tr Hi Hv. destruct (view_inv24 _ _ _ _ Hv) as [Hp Hx].
    assert (S := fun Hok => emit24 g a tr t (EnqFail p) (PEnq p) lx lx [] Hi Hv eq_refl I I (fun _ => I) (fun _ => I)
                              (fun F => match F with end) Hok).
    use_step S.
    { intros R Hb. pose proof (ri_ext k None pe0 X Ext g a tr R) as E. cbn [Conc.tag map]. rewrite app_nil_r.
      apply (PoolExt_move k Hk c _ _ _ _ _ _ _ E).
      - intros u. unfold updp. destruct (Nat.eqb_spec u t) as [->|]; [rewrite Hp|]; reflexivity.
      - intros u. unfold updp. destruct (Nat.eqb_spec u t) as [->|]; [exact I|apply (pe_ok _ _ _ _ _ _ E)].
      - intros u. unfold updx. destruct (Nat.eqb_spec u t) as [->|]; [now rewrite Hx|reflexivity].
      - intros u. unfold updx. destruct (Nat.eqb_spec u t) as [->|]; [rewrite Hx|]; lia.
      - reflexivity.
      - reflexivity.
      - intros u Hb'. unfold updp. destruct (Nat.eqb_spec u t) as [->|]; [|apply (pe_busy _ _ _ _ _ _ E); auto].
        exfalso. rewrite (busy_of_status _ _ _ _ t E) in Hb'; [discriminate|]. cbn. rewrite Hp. discriminate. }
    apply IH.
  Qed.

  (** ** bounded pool: while ( size() ) { pop } *)
  Definition Qretry (lx : LX) : outcome (option Z) -> phase * LX -> Prop :=
    fun r l => match r with Done x => l = (DeqRet false x, lx) | OutOfFuel => True | UB => l = (PUB, lx) end.

  Lemma safe_bounded_retry lfuel : forall t lx,
    safe t (bounded_retry c fuel lfuel) (DeqRet false None, lx) (Qretry lx).
  Proof.
    induction lfuel as [|f IH]; intros t lx; cbn [bounded_retry Conc.safe]; [exact I|].
    intros g a tr Hi Hv. cbn [a_ld_cnt fst snd vz].
    assert (S := fun Hok => step_same k Hk None pe0 X LX xview24 Ext Eacc Eext g a tr t (DeqRet false None) (DeqRet false None) lx
                              KLd obj_cnt true (cnt g) (cnt g) Hi Hv eq_refl I I eq_refl (fun x => x) (fun x => x) Hok).
    use_step S.
    { intros R Hb. exact I. }
    destruct (cnt g =? 0); [cbn; reflexivity|].
    clear Hi Hv. cbn [Conc.safe]. intros g2 a2 tr2 Hi2 Hv2. destruct (view_inv24 _ _ _ _ Hv2) as [Hp Hx].
    assert (S := fun Hok => emit24 g2 a2 tr2 t (DeqRet false None) (PDeq false) lx lx [] Hi2 Hv2 eq_refl I I (fun _ => I) (fun _ => I)
                              (fun F => match F with end) Hok).
    use_step S.
    { intros R Hb. pose proof (ri_ext k None pe0 X Ext g2 a2 tr2 R) as E. cbn [Conc.tag map]. rewrite app_nil_r.
      apply (PoolExt_move k Hk c _ _ _ _ _ _ _ E).
      - intros u. unfold updp. destruct (Nat.eqb_spec u t) as [->|]; [rewrite Hp|]; reflexivity.
      - intros u. unfold updp. destruct (Nat.eqb_spec u t) as [->|]; [exact I|apply (pe_ok _ _ _ _ _ _ E)].
      - intros u. unfold updx. destruct (Nat.eqb_spec u t) as [->|]; [now rewrite Hx|reflexivity].
      - intros u. unfold updx. destruct (Nat.eqb_spec u t) as [->|]; [rewrite Hx|]; lia.
      - reflexivity.
      - reflexivity.
      - intros u Hb'. unfold updp. destruct (Nat.eqb_spec u t) as [->|]; [|apply (pe_busy _ _ _ _ _ _ E); auto].
        exfalso. rewrite (busy_of_status _ _ _ _ t E) in Hb'; [discriminate|]. cbn. rewrite Hp. discriminate. }
    apply Conc.safe_bind. eapply Conc.safe_weaken; [|apply core_deq].
    intros [[x|]| |] l Hl; cbn [Qdeq] in Hl; cbn [Conc.safe Qretry]; auto.
    subst l. apply IH.
  Qed.

  (** ** allocate *)
  Definition Qpop (idx : nat) : pres -> phase * LX -> Prop :=
    fun r l => fst r = true -> exists j', (j' <= Datatypes.S idx)%nat /\ l = (PIdle, (snd r, j')).

  Lemma weaken_stop t p lx name held idx :
    (name = "outoffuel" \/ (name = "ub" /\ p = PUB)) ->
    safe t (stop name held) (p, lx) (Qpop idx).
  Proof.
    intros H. eapply Conc.safe_weaken; [|apply safe_stop24; exact H].
    intros r l Hf Ht. destruct (Hf Ht).
  Qed.

  (** response of allocate with a pooled object in the hand *)
  Lemma safe_ret_alloc_pool t p held j idx :
    (j <= idx)%nat ->
    safe t (Emit [EvCli "ret_alloc" [p]] (Ret (true, held ++ [p]))) (DeqRet false (Some p), (held, j)) (Qpop idx).
  Proof.
    intros Hj. cbn [Conc.safe]. intros g a tr Hi Hv. destruct (view_inv24 _ _ _ _ Hv) as [Hp Hx].
    assert (S := fun Hok => emit24 g a tr t (DeqRet false (Some p)) PIdle (held, j) (held ++ [p], Datatypes.S idx)
                              [EvCli "ret_alloc" [p]] Hi Hv eq_refl I I (fun _ => I) (fun _ => I)
                              (fun F => match F with end) Hok).
    use_step S.
    { intros R Hb. pose proof (ri_ext k None pe0 X Ext g a tr R) as E. apply stat_updp_ext.
      apply (pe_ret_alloc_pool k Hk c Hcap _ _ _ _ t p held j (Datatypes.S idx) E);
        [cbn; rewrite Hp; reflexivity|exact Hx|lia]. }
    cbn. intros _. exists (Datatypes.S idx). split; auto.
  Qed.

  Lemma safe_allocate t idx held j :
    (j <= idx)%nat -> (t < N)%nat ->
    safe t (allocate c fuel t idx held) (PIdle, (held, j)) (Qpop idx).
  Proof.
    intros Hj Ht. unfold allocate. cbn [Conc.safe]. intros g a tr Hi Hv. destruct (view_inv24 _ _ _ _ Hv) as [Hp Hx].
    assert (S := fun Hok => emit24 g a tr t PIdle (PDeq false) (held, j) (held, j) [EvCli "inv_alloc" []] Hi Hv eq_refl I I
                              (fun _ => I) (fun _ => I) (fun F => match F with end) Hok).
    use_step S.
    { intros R Hb. pose proof (ri_ext k None pe0 X Ext g a tr R) as E.
      apply (PoolExt_move k Hk c _ _ _ _ _ _ _ E).
      - intros u. unfold updp. destruct (Nat.eqb_spec u t) as [->|]; [rewrite Hp|]; reflexivity.
      - intros u. unfold updp. destruct (Nat.eqb_spec u t) as [->|]; [exact I|apply (pe_ok _ _ _ _ _ _ E)].
      - intros u. unfold updx. destruct (Nat.eqb_spec u t) as [->|]; [now rewrite Hx|reflexivity].
      - intros u. unfold updx. destruct (Nat.eqb_spec u t) as [->|]; [rewrite Hx|]; lia.
      - intros u. rewrite heldby_tag. destruct (Nat.eqb_spec u t) as [->|]; auto. apply held_neutral; auto.
      - rewrite avail_app. reflexivity.
      - intros u. rewrite busy_tag. destruct (Nat.eqb_spec u t) as [->|].
        + rewrite (busy_set t _ _ true); [discriminate|]. exists "inv_alloc", [], []. split; auto.
        + intros Hb'. unfold updp. destruct (Nat.eqb_spec u t); [contradiction|]. apply (pe_busy _ _ _ _ _ _ E); auto. }
    clear Hi Hv Hp Hx g a tr.
    apply Conc.safe_bind. eapply Conc.safe_weaken; [|apply core_deq].
    intros [[p|]| |] l Hl; cbn [Qdeq] in Hl.
    - subst l. apply safe_ret_alloc_pool; auto.
    - subst l. destruct (pkind c =? 2).
      + apply Conc.safe_bind. eapply Conc.safe_weaken; [|apply safe_bounded_retry].
        intros [[p|]| |] l Hl; cbn [Qretry] in Hl.
        * subst l. apply safe_ret_alloc_pool; auto.
        * subst l. cbn [Conc.safe]. intros g a tr Hi Hv. destruct (view_inv24 _ _ _ _ Hv) as [Hp Hx].
          assert (S := fun Hok => emit24 g a tr t (DeqRet false None) PIdle (held, j) (held, Datatypes.S idx)
                                    [EvCli "ret_alloc" [0]] Hi Hv eq_refl I I (fun _ => I) (fun _ => I)
                                    (fun F => match F with end) Hok).
          use_step S.
          { intros R Hb. pose proof (ri_ext k None pe0 X Ext g a tr R) as E.
            assert (H0 : ~ In 0 (avail (avail0 k c) tr)).
            { intros H. apply (pe_avail _ _ _ _ _ _ E) in H.
              assert (1 <= 0); [|lia]. apply (tokens_pos k Hk c Hcap _ _ _ _ 0 E).
              destruct H as [H|[u H]]; auto. right. exists u. unfold own. apply in_or_app. auto. }
            apply (PoolExt_move k Hk c _ _ _ _ _ _ _ E).
            - intros u. unfold updp. destruct (Nat.eqb_spec u t) as [->|]; [rewrite Hp|]; reflexivity.
            - intros u. unfold updp. destruct (Nat.eqb_spec u t) as [->|]; [exact I|apply (pe_ok _ _ _ _ _ _ E)].
            - intros u. unfold updx. destruct (Nat.eqb_spec u t) as [->|]; [now rewrite Hx|reflexivity].
            - intros u. unfold updx. destruct (Nat.eqb_spec u t) as [->|]; [rewrite Hx; cbn|]; lia.
            - intros u. rewrite heldby_tag. destruct (Nat.eqb_spec u t) as [->|]; auto. rewrite held_ret_alloc. reflexivity.
            - rewrite avail_app. cbn [fold_left Conc.tag map].
              change (avail_step (avail (avail0 k c) tr) (t, EvCli "ret_alloc" [0])) with (rem1 0 (avail (avail0 k c) tr)).
              apply rem1_notin; auto.
            - intros u Hb'. unfold updp. destruct (Nat.eqb_spec u t) as [->|Nu]; [reflexivity|].
              rewrite busy_tag in Hb'. destruct (Nat.eqb_spec u t); [contradiction|]. apply (pe_busy _ _ _ _ _ _ E); auto. }
          cbn. intros _. exists (Datatypes.S idx). split; auto.
        * destruct l as [p0 lx0]. apply weaken_stop; auto.
        * subst l. apply weaken_stop; auto.
      + cbn [Conc.safe]. intros g a tr Hi Hv. destruct (view_inv24 _ _ _ _ Hv) as [Hp Hx].
        assert (S := fun Hok => emit24 g a tr t (DeqRet false None) PIdle (held, j) (held ++ [hid c t idx], Datatypes.S idx)
                                  [EvCli "ret_alloc" [hid c t idx]] Hi Hv eq_refl I I (fun _ => I) (fun _ => I)
                                  (fun F => match F with end) Hok).
        use_step S.
        { intros R Hb. pose proof (ri_ext k None pe0 X Ext g a tr R) as E. apply stat_updp_ext.
          apply (pe_ret_alloc_heap k Hk c Hcap _ _ _ _ t held j idx E);
            [cbn; rewrite Hp; reflexivity|exact Hx|exact Hj|exact Ht]. }
        cbn. intros _. exists (Datatypes.S idx). split; auto.
    - destruct l as [p0 lx0]. apply weaken_stop; auto.
    - subst l. apply weaken_stop; auto.
  Qed.


  (** ** deallocate *)
  Lemma safe_ret_dealloc t p held' j idx :
    (j <= idx)%nat ->
    safe t (Emit [EvCli "ret_dealloc" []] (Ret (true, held'))) (EnqDone p, (held', j)) (Qpop idx).
  Proof.
    intros Hj. cbn [Conc.safe]. intros g a tr Hi Hv. destruct (view_inv24 _ _ _ _ Hv) as [Hp Hx].
    assert (S := fun Hok => emit24 g a tr t (EnqDone p) PIdle (held', j) (held', Datatypes.S idx)
                              [EvCli "ret_dealloc" []] Hi Hv eq_refl I I (fun _ => I) (fun _ => I)
                              (fun F => match F with end) Hok).
    use_step S.
    { intros R Hb. pose proof (ri_ext k None pe0 X Ext g a tr R) as E.
      apply (PoolExt_move k Hk c _ _ _ _ _ _ _ E).
      - intros u. unfold updp. destruct (Nat.eqb_spec u t) as [->|]; [rewrite Hp|]; reflexivity.
      - intros u. unfold updp. destruct (Nat.eqb_spec u t) as [->|]; [exact I|apply (pe_ok _ _ _ _ _ _ E)].
      - intros u. unfold updx. destruct (Nat.eqb_spec u t) as [->|]; [now rewrite Hx|reflexivity].
      - intros u. unfold updx. destruct (Nat.eqb_spec u t) as [->|]; [rewrite Hx; cbn|]; lia.
      - intros u. rewrite heldby_tag. destruct (Nat.eqb_spec u t) as [->|]; auto. apply held_neutral; auto.
      - rewrite avail_app. reflexivity.
      - intros u Hb'. unfold updp. destruct (Nat.eqb_spec u t) as [->|Nu]; [reflexivity|].
        rewrite busy_tag in Hb'. destruct (Nat.eqb_spec u t); [contradiction|]. apply (pe_busy _ _ _ _ _ _ E); auto. }
    cbn. intros _. exists (Datatypes.S idx). split; auto.
  Qed.

  Lemma safe_inv_dealloc t p n held j (K : prog pres) (Q : pres -> phase * LX -> Prop) :
    nth_error held n = Some p ->
    safe t K (PEnq p, (remove_nth n held, j)) Q ->
    safe t (Emit [EvCli "inv_dealloc" [p]] K) (PIdle, (held, j)) Q.
  Proof.
    intros Hn HK. cbn [Conc.safe]. intros g a tr Hi Hv. destruct (view_inv24 _ _ _ _ Hv) as [Hp Hx].
    assert (S := fun Hok => emit24 g a tr t PIdle (PEnq p) (held, j) (remove_nth n held, j)
                              [EvCli "inv_dealloc" [p]] Hi Hv eq_refl I I (fun _ => I) (fun _ => I)
                              (fun F => match F with end) Hok).
    use_step S.
    { intros R Hb. pose proof (ri_ext k None pe0 X Ext g a tr R) as E. apply stat_updp_ext.
      assert (Hnd : NoDup held).
      { pose proof (pe_own _ _ _ _ _ _ E t) as H. unfold own in H. cbn in H. rewrite Hp, Hx in H. exact H. }
      rewrite (remove_nth_rem1 held n p Hnd Hn).
      apply (pe_inv_dealloc k Hk c _ _ _ _ t p held j E); [cbn; rewrite Hp; reflexivity|exact Hx|].
      eapply nth_error_In; eauto. }
    exact HK.
  Qed.

  Lemma safe_deallocate t idx held j p n :
    nth_error held n = Some p -> (j <= idx)%nat ->
    safe t (deallocate c fuel p (remove_nth n held)) (PIdle, (held, j)) (Qpop idx).
  Proof.
    intros Hn Hj. unfold deallocate. destruct (pkind c =? 1).
    - (* lazy pool: one push, else back to the heap *)
      apply (safe_inv_dealloc t p n held j _ _ Hn).
      apply Conc.safe_bind. eapply Conc.safe_weaken; [|apply core_enq].
      intros [[|]| |] l Hl; cbn [Qenq] in Hl.
      + subst l. apply safe_ret_dealloc; auto.
      + subst l. cbn [Conc.safe]. intros g a tr Hi Hv. destruct (view_inv24 _ _ _ _ Hv) as [Hp Hx].
        assert (S := fun Hok => emit24 g a tr t (EnqFail p) PIdle (remove_nth n held, j) (remove_nth n held, Datatypes.S idx)
                                  [EvCli "free" [p]; EvCli "ret_dealloc" []] Hi Hv eq_refl I I (fun _ => I) (fun _ => I)
                                  (fun F => match F with end) Hok).
        use_step S.
        { intros R Hb. pose proof (ri_ext k None pe0 X Ext g a tr R) as E. apply stat_updp_ext.
          apply (pe_free_hand k Hk c _ _ _ _ t p (remove_nth n held) j (Datatypes.S idx) E);
            [cbn; rewrite Hp; reflexivity|exact Hx|lia]. }
        cbn. intros _. exists (Datatypes.S idx). split; auto.
      + destruct l as [p0 lx0]. apply weaken_stop; auto.
      + subst l. apply weaken_stop; auto.
    - destruct ((pkind c =? 0) && negb (from_pool c p)).
      + (* vyukov_queue_pool, object from the heap: back to the heap *)
        cbn [Conc.safe]. intros g a tr Hi Hv. destruct (view_inv24 _ _ _ _ Hv) as [Hp Hx].
        assert (S := fun Hok => emit24 g a tr t PIdle PIdle (held, j) (remove_nth n held, Datatypes.S idx)
                                  [EvCli "inv_dealloc" [p]; EvCli "free" [p]; EvCli "ret_dealloc" []] Hi Hv eq_refl I I
                                  (fun _ => I) (fun _ => I) (fun F => match F with end) Hok).
        use_step S.
        { intros R Hb. pose proof (ri_ext k None pe0 X Ext g a tr R) as E.
          assert (Hnd : NoDup held).
          { pose proof (pe_own _ _ _ _ _ _ E t) as H. unfold own in H. cbn in H. rewrite Hp, Hx in H. exact H. }
          rewrite (remove_nth_rem1 held n p Hnd Hn).
          eapply Eext; [|apply (pe_dealloc_heap k Hk c _ _ _ _ t p held j (Datatypes.S idx) E);
                          [cbn; rewrite Hp; reflexivity|exact Hx|eapply nth_error_In; eauto|lia]].
          intros u. cbn. unfold updp. destruct (Nat.eqb_spec u t) as [->|]; [rewrite Hp|]; reflexivity. }
        cbn. intros _. exists (Datatypes.S idx). split; auto.
      + (* push until it succeeds *)
        apply (safe_inv_dealloc t p n held j _ _ Hn).
        apply Conc.safe_bind. eapply Conc.safe_weaken; [|apply safe_push_loop].
        intros [[]| |] l Hl; cbn [Qpush] in Hl.
        * subst l. apply safe_ret_dealloc; auto.
        * destruct l as [p0 lx0]. apply weaken_stop; auto.
        * subst l. apply weaken_stop; auto.
  Qed.

  Lemma safe_run_pop t idx held j o :
    (j <= idx)%nat -> (t < N)%nat ->
    safe t (run_pop c fuel t idx held o) (PIdle, (held, j)) (Qpop idx).
  Proof.
    intros Hj Ht. destruct o as [|i]; cbn [run_pop].
    - apply safe_allocate; auto.
    - destruct held as [|h0 hr] eqn:Eh.
      + cbn. intros _. exists j. split; auto.
      + rewrite <- Eh. destruct (nth_error held (i mod length held)) as [p|] eqn:En.
        * apply safe_deallocate; auto.
        * cbn. intros _. exists j. split; auto.
  Qed.

  Lemma safe_run_pops os : forall t idx held j,
    (j <= idx)%nat -> (t < N)%nat ->
    safe t (run_pops c fuel t idx held os) (PIdle, (held, j)) (@Conc.QTrue (phase * LX)).
  Proof.
    induction os as [|o r IH]; intros t idx held j Hj Ht; cbn [run_pops]; [exact I|].
    apply Conc.safe_bind. eapply Conc.safe_weaken; [|apply safe_run_pop; auto].
    intros [[|] held'] l Hl; cbn [fst snd].
    - destruct (Hl eq_refl) as (j' & Hj' & ->). apply IH; auto.
    - exact I.
  Qed.

  Lemma safe_pool_thread t os :
    (t < N)%nat ->
    safe t (pool_thread c fuel t os) (PIdle, ([], 0%nat)) (@Conc.QTrue (phase * LX)).
  Proof.
    intros Ht. unfold pool_thread. cbn [Conc.safe]. intros g a tr Hi Hv. cbn [a_begin fst snd].
    destruct (view_inv24 _ _ _ _ Hv) as [Hp Hx].
    exists a. split; [|split; [intros ? ?; reflexivity|rewrite Hv; apply safe_run_pops; auto]].
    intros Hb. pose proof (bound_app k Hk pe0 _ _ Hb) as Hb0. pose proof (Hi Hb0) as R.
    apply ri_trace_only; auto.
    pose proof (ri_ext k None pe0 X Ext g a tr R) as E.
    apply (PoolExt_move k Hk c _ _ _ _ _ _ _ E); auto.
    - intros u. apply (pe_ok _ _ _ _ _ _ E).
    - intros u. rewrite heldby_tag. destruct (Nat.eqb_spec u t) as [->|]; auto.
      cbn. unfold heldby_step. cbn. now rewrite Nat.eqb_refl.
    - rewrite avail_app. reflexivity.
    - intros u. rewrite busy_tag. destruct (Nat.eqb_spec u t) as [->|].
      + cbn. unfold busy_step. cbn. rewrite Nat.eqb_refl. apply (pe_busy _ _ _ _ _ _ E).
      + apply (pe_busy _ _ _ _ _ _ E).
  Qed.

End PoolSafe.
