(** * Control words of the general-purpose RCU: [mkw b n] = phase bit b (bit 31) and nesting count n (bits 0..30).
      The bit operations of the C++ ([&], [^], wrap-around +1 / -1 on uint32_t) on such words. *)
From Coq Require Import ZArith List Bool Lia.
From LV Require Import Model.RcuGp.
Local Open Scope Z_scope.

Definition mkw (b : bool) (n : Z) : Z := (if b then two31 else 0) + n.

Lemma two31_pow : two31 = 2 ^ 31. Proof. reflexivity. Qed.
Lemma mask_ones : c_nNestMask = Z.ones 31. Proof. reflexivity. Qed.
Lemma not_mask_eq : not_nest_mask = two31. Proof. reflexivity. Qed.

Lemma mkw_range b n : 0 <= n < two31 -> 0 <= mkw b n < two32.
Proof. unfold mkw, two31, two32. destruct b; lia. Qed.

Lemma testbit31_small n : 0 <= n < two31 -> Z.testbit n 31 = false.
Proof.
  intros H. destruct (Z.eq_dec n 0) as [->|Hn]; [reflexivity|].
  apply Z.bits_above_log2; [lia|]. apply Z.log2_lt_pow2; [lia|]. rewrite <- two31_pow. lia.
Qed.

Lemma land_small_two31 n : 0 <= n < two31 -> Z.land n two31 = 0.
Proof.
  intros H. apply Z.bits_inj'. intros i Hi. rewrite Z.land_spec, Z.bits_0, two31_pow, Z.pow2_bits_eqb by lia.
  destruct (Z.eqb_spec 31 i) as [<-|]; [rewrite testbit31_small by exact H; reflexivity|apply andb_false_r].
Qed.

Lemma add_two31_lxor n : 0 <= n < two31 -> two31 + n = Z.lxor n two31.
Proof.
  intros H. rewrite Z.add_comm. apply Z.add_nocarry_lxor. apply land_small_two31; exact H.
Qed.

Lemma nest_mkw b n : 0 <= n < two31 -> nest (mkw b n) = n.
Proof.
  intros H. unfold nest. rewrite mask_ones, Z.land_ones by lia. unfold mkw. destruct b.
  - rewrite two31_pow in *. rewrite Z.add_comm, <- (Z.mul_1_l (2 ^ 31)), Z.mod_add by lia. apply Z.mod_small; lia.
  - rewrite Z.add_0_l. apply Z.mod_small. rewrite <- two31_pow. lia.
Qed.

Lemma lxor_mkw_bit b n : 0 <= n < two31 -> Z.lxor (mkw b n) c_nControlBit = mkw (negb b) n.
Proof.
  intros H. unfold c_nControlBit, mkw. destruct b; cbn [negb].
  - rewrite add_two31_lxor by exact H. rewrite Z.lxor_assoc, Z.lxor_nilpotent, Z.lxor_0_r. lia.
  - rewrite Z.add_0_l. rewrite <- add_two31_lxor by exact H. reflexivity.
Qed.

Lemma testbit31_mkw b n : 0 <= n < two31 -> Z.testbit (mkw b n) 31 = b.
Proof.
  intros H. unfold mkw. destruct b.
  - rewrite add_two31_lxor by exact H. rewrite Z.lxor_spec, testbit31_small by exact H.
    rewrite two31_pow, Z.pow2_bits_eqb by lia. reflexivity.
  - rewrite Z.add_0_l. apply testbit31_small; exact H.
Qed.

Lemma land_two31 x : Z.land x two31 = if Z.testbit x 31 then two31 else 0.
Proof.
  apply Z.bits_inj'. intros i Hi. rewrite Z.land_spec, two31_pow, Z.pow2_bits_eqb by lia.
  destruct (Z.eqb_spec 31 i) as [<-|Hne].
  - destruct (Z.testbit x 31); [rewrite Z.pow2_bits_eqb by lia; reflexivity|rewrite Z.bits_0; reflexivity].
  - rewrite andb_false_r. destruct (Z.testbit x 31); [rewrite Z.pow2_bits_eqb by lia; destruct (Z.eqb_spec 31 i); congruence|rewrite Z.bits_0; reflexivity].
Qed.

Lemma phase_differs_mkw b n b' n' :
  0 <= n < two31 -> 0 <= n' < two31 -> phase_differs (mkw b n) (mkw b' n') = xorb b b'.
Proof.
  intros H H'. unfold phase_differs. rewrite not_mask_eq, land_two31, Z.lxor_spec, !testbit31_mkw by assumption.
  destruct b, b'; reflexivity.
Qed.

Lemma u32_mkw_succ b n : 0 <= n -> n + 1 < two31 -> u32 (mkw b n + 1) = mkw b (n + 1).
Proof.
  intros H1 H2. unfold u32. rewrite Z.mod_small; [unfold mkw; lia|].
  unfold mkw, two31, two32 in *. destruct b; lia.
Qed.

Lemma u32_mkw_pred b n : 1 <= n < two31 -> u32 (mkw b n - 1) = mkw b (n - 1).
Proof.
  intros H. unfold u32. rewrite Z.mod_small; [unfold mkw; lia|].
  unfold mkw, two31, two32 in *. destruct b; lia.
Qed.

Lemma mkw_inj b n b' n' : 0 <= n < two31 -> 0 <= n' < two31 -> mkw b n = mkw b' n' -> b = b' /\ n = n'.
Proof. unfold mkw, two31. intros H H' E. destruct b, b'; split; try reflexivity; lia. Qed.

(** every uint32 value is a word *)
Lemma word_decompose v : 0 <= v < two32 -> exists b n, 0 <= n < two31 /\ v = mkw b n.
Proof.
  intros H. destruct (Z_lt_le_dec v two31).
  - exists false, v. unfold mkw. split; lia.
  - exists true, (v - two31). unfold mkw, two31, two32 in *. split; lia.
Qed.
