(** * ApiSpecLaws: laws of the sequential API specifications [LV.Spec.ApiSpec] (property C20).

    Every law holds for ALL configurations, states and operation sequences (induction over the sequence /
    case analysis of the step function); nothing here is a computation over samples.  Plain stdlib + lia. *)

Require Import List Arith Bool ZArith Lia Permutation.
Require Import LV.Base.Lin LV.Spec.Specs LV.Spec.ApiSpec.
Import ListNotations.
Local Open Scope Z_scope.

(** ** The association list of Specs: mfind / mdel / mhas *)

Lemma mhas_true : forall k s, mhas k s = true <-> exists v, mfind k s = Some v.
Proof. intros k s; unfold mhas; destruct (mfind k s); split; intros H; eauto; try discriminate; destruct H; discriminate. Qed.

Lemma mhas_false : forall k s, mhas k s = false <-> mfind k s = None.
Proof. intros k s; unfold mhas; destruct (mfind k s); split; intros H; auto; discriminate. Qed.

Lemma mfind_mdel_eq : forall k s, mfind k (mdel k s) = None.
Proof.
  intros k s; induction s as [|[k' v] s IH]; simpl; auto.
  destruct (Z.eqb k k') eqn:E; simpl; auto. now rewrite E.
Qed.

Lemma mfind_mdel_neq : forall k k' s, k' <> k -> mfind k' (mdel k s) = mfind k' s.
Proof.
  intros k k' s Hne; induction s as [|[k1 v] s IH]; simpl; auto.
  destruct (Z.eqb k k1) eqn:E; simpl.
  - apply Z.eqb_eq in E; subst k1. destruct (Z.eqb k' k) eqn:E'; auto. apply Z.eqb_eq in E'; congruence.
  - now rewrite IH.
Qed.

Lemma mfind_keys : forall k s, mfind k s <> None <-> In k (keys s).
Proof.
  intros k s; induction s as [|[k' v] s IH]; simpl.
  - split; [congruence | tauto].
  - destruct (Z.eqb k k') eqn:E.
    + apply Z.eqb_eq in E; subst. split; [auto | congruence].
    + apply Z.eqb_neq in E. rewrite IH. split; [tauto | intros [H|H]; [congruence | auto]].
Qed.

Lemma mfind_none_keys : forall k s, mfind k s = None <-> ~ In k (keys s).
Proof.
  intros k s; rewrite <- mfind_keys. destruct (mfind k s); split; intros H; try congruence;
    try (exfalso; apply H; congruence); try (intros H'; congruence).
Qed.

Lemma mfind_In : forall k s v, mfind k s = Some v -> In (k, v) s.
Proof.
  intros k s v; induction s as [|[k' v'] s IH]; simpl; [discriminate|].
  destruct (Z.eqb k k') eqn:E; intros H.
  - apply Z.eqb_eq in E; inversion H; subst; auto.
  - auto.
Qed.

Lemma keys_mdel : forall k s, keys (mdel k s) = filter (fun x => negb (Z.eqb k x)) (keys s).
Proof.
  intros k s; induction s as [|[k' v] s IH]; simpl; auto.
  destruct (Z.eqb k k'); simpl; now rewrite IH.
Qed.

Lemma NoDup_filter : forall (A : Type) (f : A -> bool) l, NoDup l -> NoDup (filter f l).
Proof.
  intros A f l H; induction H as [|x l Hx H IH]; simpl; [constructor|].
  destruct (f x); auto. constructor; auto. rewrite filter_In; tauto.
Qed.

Lemma NoDup_mdel : forall k s, NoDup (keys s) -> NoDup (keys (mdel k s)).
Proof. intros; rewrite keys_mdel; now apply NoDup_filter. Qed.

Lemma not_in_keys_mdel : forall k s, ~ In k (keys (mdel k s)).
Proof. intros k s; rewrite <- mfind_keys, mfind_mdel_eq; tauto. Qed.

Lemma mdel_absent : forall k s, mfind k s = None -> mdel k s = s.
Proof.
  intros k s; induction s as [|[k' v] s IH]; simpl; auto.
  destruct (Z.eqb k k') eqn:E; [discriminate|]. intros H; simpl; now rewrite IH.
Qed.

Lemma length_mdel : forall k s, NoDup (keys s) -> mfind k s <> None -> S (length (mdel k s)) = length s.
Proof.
  intros k s; induction s as [|[k' v] s IH]; simpl; [congruence|].
  intros Hnd Hf; inversion Hnd as [|? ? Hnin Hnd']; subst.
  destruct (Z.eqb k k') eqn:E; simpl.
  - apply Z.eqb_eq in E; subst k'. f_equal. rewrite mdel_absent; auto. now apply mfind_none_keys.
  - f_equal. apply IH; auto.
Qed.

(** ** zmin / zmax *)

Lemma zmin_spec : forall l x, (zmin x l = x \/ In (zmin x l) l) /\ zmin x l <= x /\ (forall y, In y l -> zmin x l <= y).
Proof.
  unfold zmin; induction l as [|a l IH]; intros x; simpl.
  - split; [auto|]. split; [lia | tauto].
  - destruct (IH (Z.min x a)) as (H1 & H2 & H3). split; [|split].
    + destruct H1 as [H1|H1]; [|auto]. rewrite H1. destruct (Z.min_spec x a) as [[_ ->]|[_ ->]]; auto.
    + lia.
    + intros y [->|Hy]; [lia | auto].
Qed.

Lemma zmax_spec : forall l x, (zmax x l = x \/ In (zmax x l) l) /\ x <= zmax x l /\ (forall y, In y l -> y <= zmax x l).
Proof.
  unfold zmax; induction l as [|a l IH]; intros x; simpl.
  - split; [auto|]. split; [lia | tauto].
  - destruct (IH (Z.max x a)) as (H1 & H2 & H3). split; [|split].
    + destruct H1 as [H1|H1]; [|auto]. rewrite H1. destruct (Z.max_spec x a) as [[_ ->]|[_ ->]]; auto.
    + lia.
    + intros y [->|Hy]; [lia | auto].
Qed.

Lemma kmin_some : forall s k v, kmin s = Some (k, v) ->
  mfind k s = Some v /\ forall k', In k' (keys s) -> k <= k'.
Proof.
  intros [|[k0 v0] l] k v; simpl; [discriminate|].
  destruct (zmin_spec (keys l) k0) as (H1 & H2 & H3).
  set (m := zmin k0 (keys l)) in *.
  destruct (Z.eqb m k0) eqn:E.
  - intros H; inversion H; subst. apply Z.eqb_eq in E. rewrite <- E at 1. rewrite Z.eqb_refl. split; auto.
    intros k' [<-|Hk]; [lia | auto].
  - destruct (mfind m l) eqn:F; [|discriminate]. intros H; inversion H; subst. rewrite E. split; auto.
    intros k' [<-|Hk]; [lia | auto].
Qed.

Lemma kmin_none : forall s, kmin s = None <-> s = [].
Proof.
  intros [|[k0 v0] l]; simpl; [tauto|]. split; [|discriminate].
  destruct (zmin_spec (keys l) k0) as (H1 & _ & _).
  set (m := zmin k0 (keys l)) in *.
  destruct (Z.eqb m k0) eqn:E; [discriminate|].
  destruct H1 as [H1|H1]; [rewrite H1, Z.eqb_refl in E; discriminate|].
  apply mfind_keys in H1. destruct (mfind m l); [discriminate | congruence].
Qed.

Lemma kmax_some : forall s k v, kmax s = Some (k, v) ->
  mfind k s = Some v /\ forall k', In k' (keys s) -> k' <= k.
Proof.
  intros [|[k0 v0] l] k v; simpl; [discriminate|].
  destruct (zmax_spec (keys l) k0) as (H1 & H2 & H3).
  set (m := zmax k0 (keys l)) in *.
  destruct (Z.eqb m k0) eqn:E.
  - intros H; inversion H; subst. apply Z.eqb_eq in E. rewrite <- E at 1. rewrite Z.eqb_refl. split; auto.
    intros k' [<-|Hk]; [lia | auto].
  - destruct (mfind m l) eqn:F; [|discriminate]. intros H; inversion H; subst. rewrite E. split; auto.
    intros k' [<-|Hk]; [lia | auto].
Qed.

Lemma kmax_none : forall s, kmax s = None <-> s = [].
Proof.
  intros [|[k0 v0] l]; simpl; [tauto|]. split; [|discriminate].
  destruct (zmax_spec (keys l) k0) as (H1 & _ & _).
  set (m := zmax k0 (keys l)) in *.
  destruct (Z.eqb m k0) eqn:E; [discriminate|].
  destruct H1 as [H1|H1]; [rewrite H1, Z.eqb_refl in E; discriminate|].
  apply mfind_keys in H1. destruct (mfind m l); [discriminate | congruence].
Qed.

(** ** Keyed containers *)

Definition wf (s : list item) : Prop := NoDup (keys s).

Lemma wf_cons : forall k v s, wf s -> mfind k s = None -> wf ((k, v) :: s).
Proof. intros k v s H F; unfold wf; simpl; constructor; auto. now apply mfind_none_keys. Qed.

Lemma wf_cons_mdel : forall k v s, wf s -> wf ((k, v) :: mdel k s).
Proof. intros k v s H; unfold wf; simpl; constructor; [apply not_in_keys_mdel | now apply NoDup_mdel]. Qed.

Ltac kcase :=
  repeat match goal with
  | |- context [mhas ?k ?s] => let E := fresh "E" in destruct (mhas k s) eqn:E
  | |- context [match mfind ?k ?s with _ => _ end] => let E := fresh "E" in destruct (mfind k s) eqn:E
  | |- context [match kmin ?s with _ => _ end] => let E := fresh "E" in destruct (kmin s) as [[? ?]|] eqn:E
  | |- context [match kmax ?s with _ => _ end] => let E := fresh "E" in destruct (kmax s) as [[? ?]|] eqn:E
  | |- context [if ?b then _ else _] => is_var b; destruct b
  end.

(** no key is present twice, whatever the sequence *)
Lemma kstep_wf : forall c s o, wf s -> wf (fst (kstep c s o)).
Proof.
  intros c s o H; destruct o; simpl; kcase; simpl; auto;
    try (apply wf_cons; auto; now apply mhas_false);
    try (apply wf_cons_mdel; auto);
    try (apply NoDup_mdel; auto);
    try constructor.
Qed.

Lemma krun_wf : forall c ops s, wf s -> wf (fst (krun c s ops)).
Proof.
  intros c ops; induction ops as [|o ops IH]; intros s H; simpl; auto.
  destruct (kstep c s o) as [s1 r] eqn:E. specialize (IH s1).
  destruct (krun c s1 ops) as [s2 rs]; simpl in *. apply IH.
  change s1 with (fst (s1, r)); rewrite <- E; now apply kstep_wf.
Qed.

Theorem kstate_nodup : forall c ops, NoDup (keys (kstate c ops)).
Proof. intros; apply krun_wf; constructor. Qed.

Lemma krun_app : forall c ops1 ops2 s,
  krun c s (ops1 ++ ops2) =
  let (s1, r1) := krun c s ops1 in let (s2, r2) := krun c s1 ops2 in (s2, r1 ++ r2).
Proof.
  intros c ops1; induction ops1 as [|o ops1 IH]; intros ops2 s; simpl.
  - destruct (krun c s ops2); auto.
  - destruct (kstep c s o) as [s1 r]. rewrite IH.
    destruct (krun c s1 ops1) as [s2 r2]. destruct (krun c s2 ops2); auto.
Qed.

(** *** update *)

Definition upd_op (functor : bool) (k v : Z) (allow : bool) : kop :=
  if functor then KUpdate k v allow else KUpsert k v allow.

Theorem update_result_law : forall c s functor k v allow,
  let s' := fst (kstep c s (upd_op functor k v allow)) in
  let r := ko_res (snd (kstep c s (upd_op functor k v allow))) in
  (r = KPair true true \/ r = KPair true false \/ r = KPair false false) /\
  (r = KPair true true <-> mhas k s = false /\ allow = true) /\
  (r = KPair true false <-> mhas k s = true) /\
  (r = KPair false false <-> mhas k s = false /\ allow = false) /\
  (r = KPair true true -> mfind k s' = Some v) /\                 (* it inserted: the key is now bound to v *)
  (r = KPair true false -> mfind k s' = Some v) /\                (* it updated the existing item           *)
  (r = KPair false false -> s' = s) /\                            (* nothing changed                         *)
  (forall k', k' <> k -> mfind k' s' = mfind k' s).               (* no other key is touched                 *)
Proof.
  intros c s functor k v allow; unfold upd_op, mhas.
  destruct functor; simpl; destruct (mfind k s) eqn:E; simpl;
    try (destruct allow; simpl); rewrite ?Z.eqb_refl;
    (repeat split; auto; try discriminate; try tauto; try (intros [? ?]; discriminate); try (intros ?; discriminate));
    try (intros k' Hne; destruct (Z.eqb k' k) eqn:E'; [apply Z.eqb_eq in E'; congruence|]; auto using mfind_mdel_neq);
    intuition discriminate.
Qed.

(** the update functor is called iff the operation succeeded; its new-item flag is the "inserted" result;
    for an existing key it sees the stored value *)
Theorem update_functor_law : forall c s k v allow,
  let out := snd (kstep c s (KUpdate k v allow)) in
  (ko_res out = KPair true true -> ko_calls out = [CUpd true k v v]) /\
  (ko_res out = KPair true false -> exists old, mfind k s = Some old /\ ko_calls out = [CUpd false k old v]) /\
  (ko_res out = KPair false false -> ko_calls out = []) /\
  (forall functor, ko_calls (snd (kstep c s (upd_op functor k v allow))) = [] \/ functor = true).
Proof.
  intros c s k v allow; simpl.
  repeat split.
  - destruct (mfind k s); [discriminate|]. destruct allow; simpl; [auto | discriminate].
  - destruct (mfind k s) as [old|]; [eauto|]. destruct allow; discriminate.
  - destruct (mfind k s); [discriminate|]. destruct allow; simpl; [discriminate | auto].
  - intros [|]; [auto|]. left. unfold upd_op; simpl. destruct (mfind k s); simpl; auto. destruct allow; auto.
Qed.

(** *** insert *)

Theorem insert_functor_called_iff_inserted : forall c s k v,
  let out := snd (kstep c s (KInsertF k v)) in
  let s' := fst (kstep c s (KInsertF k v)) in
  (ko_calls out = [CIns k v] <-> ko_res out = KBool true) /\
  (ko_calls out = [] <-> ko_res out = KBool false) /\
  (ko_res out = KBool true <-> mhas k s = false) /\
  (ko_res out = KBool true -> mfind k s' = Some v) /\
  (ko_res out = KBool false -> s' = s) /\
  ko_calls (snd (kstep c s (KInsert k v))) = [] /\
  ko_res (snd (kstep c s (KInsert k v))) = ko_res out /\ fst (kstep c s (KInsert k v)) = s'.
Proof.
  intros c s k v; simpl. destruct (mhas k s); simpl; rewrite ?Z.eqb_refl;
    repeat split; auto; try discriminate; intros; discriminate.
Qed.

(** *** erase *)

Theorem erase_functor_called_iff_erased : forall c s k,
  let out := snd (kstep c s (KEraseF k)) in
  let s' := fst (kstep c s (KEraseF k)) in
  (ko_res out = KBool true <-> mhas k s = true) /\
  (ko_res out = KBool true -> exists v, mfind k s = Some v /\ ko_calls out = [CErase k v]) /\
  (ko_res out = KBool false -> ko_calls out = [] /\ s' = s) /\
  (ko_res out = KBool true \/ ko_res out = KBool false) /\
  mfind k s' = None /\
  (forall k', k' <> k -> mfind k' s' = mfind k' s) /\
  ko_res (snd (kstep c s (KErase k))) = ko_res out /\ fst (kstep c s (KErase k)) = s' /\
  ko_calls (snd (kstep c s (KErase k))) = [].
Proof.
  intros c s k; simpl; unfold mhas. destruct (mfind k s) as [v|] eqn:E; simpl.
  - repeat split; auto; try discriminate; eauto using mfind_mdel_eq, mfind_mdel_neq.
  - repeat split; auto; try discriminate; intros; try discriminate.
Qed.

(** *** find / contains / get *)

Theorem find_functor_called_iff_found : forall c s k,
  let out := snd (kstep c s (KFindF k)) in
  fst (kstep c s (KFindF k)) = s /\
  (ko_res out = KBool true <-> mhas k s = true) /\
  (ko_res out = KBool true -> exists v, mfind k s = Some v /\ ko_calls out = [CFind k v]) /\
  (ko_res out = KBool false -> ko_calls out = []) /\
  ko_res (snd (kstep c s (KContains k))) = ko_res out /\
  ko_res (snd (kstep c s (KGet k))) = KItem (match mfind k s with Some v => Some (k, v) | None => None end).
Proof.
  intros c s k; simpl; unfold mhas. destruct (mfind k s) as [v|] eqn:E; simpl;
    repeat split; auto; try discriminate; eauto; intros; discriminate.
Qed.

(** *** size, empty, clear *)

Theorem size_is_cardinality : forall c ops l,
  kc_counted c = true ->
  NoDup l -> (forall k, In k l <-> mfind k (kstate c ops) <> None) ->
  ko_res (snd (kstep c (kstate c ops) KSize)) = KNat (length l).
Proof.
  intros c ops l Hc Hl Hin; simpl; rewrite Hc. f_equal.
  assert (Hp : Permutation l (keys (kstate c ops))).
  { apply NoDup_Permutation; auto using kstate_nodup. intros k; rewrite Hin; apply mfind_keys. }
  rewrite (Permutation_length Hp). unfold keys; now rewrite map_length.
Qed.

Theorem size_uncounted : forall c s, kc_counted c = false -> ko_res (snd (kstep c s KSize)) = KNat 0.
Proof. intros c s H; simpl; now rewrite H. Qed.

Theorem empty_iff_size_zero : forall c s,
  (kc_counted c = true ->
     (ko_res (snd (kstep c s KEmpty)) = KBool true <-> ko_res (snd (kstep c s KSize)) = KNat 0)) /\
  (kc_counted c = true \/ kc_empty_by_size c = false ->
     (ko_res (snd (kstep c s KEmpty)) = KBool true <-> forall k, mfind k s = None)) /\
  (kc_counted c = false -> kc_empty_by_size c = true -> ko_res (snd (kstep c s KEmpty)) = KBool true).
Proof.
  intros c s; simpl. split; [|split].
  - intros ->; rewrite andb_false_r. destruct s; simpl; split; auto; discriminate.
  - intros H. assert (E : kc_empty_by_size c && negb (kc_counted c) = false) by (destruct H as [-> | ->]; [apply andb_false_r | auto]).
    rewrite E. destruct s as [|[k v] s]; simpl; split; auto; try discriminate.
    intros H'; specialize (H' k); simpl in H'; rewrite Z.eqb_refl in H'; discriminate.
  - intros -> ->; auto.
Qed.

Theorem clear_empties : forall c s,
  let s' := fst (kstep c s KClear) in
  s' = [] /\
  (forall k, ko_res (snd (kstep c s' (KContains k))) = KBool false) /\
  ko_res (snd (kstep c s' KSize)) = KNat 0 /\
  ko_res (snd (kstep c s' KEmpty)) = KBool true /\
  ko_res (snd (kstep c s' KIter)) = KList [] /\
  ko_res (snd (kstep c s' KExtractMin)) = KItem None /\
  (forall k, ko_res (snd (kstep c s' (KExtract k))) = KItem None).
Proof.
  intros c s; simpl. repeat split; auto.
  - destruct (kc_counted c); auto.
  - destruct (kc_empty_by_size c && negb (kc_counted c)); auto.
Qed.

(** *** extract_min / extract_max *)

Theorem extract_min_is_least : forall c s,
  let out := snd (kstep c s KExtractMin) in
  let s' := fst (kstep c s KExtractMin) in
  (ko_res out = KItem None <-> s = []) /\
  (forall k v, ko_res out = KItem (Some (k, v)) ->
     mfind k s = Some v /\ (forall k', mfind k' s <> None -> k <= k') /\
     mfind k s' = None /\ (forall k', k' <> k -> mfind k' s' = mfind k' s)).
Proof.
  intros c s; simpl. destruct (kmin s) as [[k0 v0]|] eqn:E; simpl.
  - split.
    + split; [discriminate|]. intros ->; discriminate.
    + intros k v H; inversion H; subst. destruct (kmin_some _ _ _ E) as [F L].
      repeat split; auto using mfind_mdel_eq, mfind_mdel_neq. intros k' Hk; apply L; now apply mfind_keys.
  - split; [split; auto; intros _; now apply kmin_none | intros; discriminate].
Qed.

Theorem extract_max_is_greatest : forall c s,
  let out := snd (kstep c s KExtractMax) in
  let s' := fst (kstep c s KExtractMax) in
  (ko_res out = KItem None <-> s = []) /\
  (forall k v, ko_res out = KItem (Some (k, v)) ->
     mfind k s = Some v /\ (forall k', mfind k' s <> None -> k' <= k) /\
     mfind k s' = None /\ (forall k', k' <> k -> mfind k' s' = mfind k' s)).
Proof.
  intros c s; simpl. destruct (kmax s) as [[k0 v0]|] eqn:E; simpl.
  - split.
    + split; [discriminate|]. intros ->; discriminate.
    + intros k v H; inversion H; subst. destruct (kmax_some _ _ _ E) as [F L].
      repeat split; auto using mfind_mdel_eq, mfind_mdel_neq. intros k' Hk; apply L; now apply mfind_keys.
  - split; [split; auto; intros _; now apply kmax_none | intros; discriminate].
Qed.

(** the order of repeated extract_min: strictly increasing keys *)
Theorem extract_min_order : forall c s k1 v1 k2 v2, wf s ->
  ko_res (snd (kstep c s KExtractMin)) = KItem (Some (k1, v1)) ->
  ko_res (snd (kstep c (fst (kstep c s KExtractMin)) KExtractMin)) = KItem (Some (k2, v2)) ->
  k1 < k2.
Proof.
  intros c s k1 v1 k2 v2 Hwf H1 H2.
  destruct (extract_min_is_least c s) as [_ A]. destruct (A _ _ H1) as (F1 & L1 & G1 & O1).
  destruct (extract_min_is_least c (fst (kstep c s KExtractMin))) as [_ B]. destruct (B _ _ H2) as (F2 & _).
  assert (k1 <> k2) by (intros ->; congruence).
  assert (k1 <= k2) by (apply L1; rewrite <- O1 by auto; congruence). lia.
Qed.

(** *** Refinement to the mathematical map.

    [absf s] is the finite map denoted by a state; [math_post m o m'] says that [m'] is the result of the
    obvious mathematical operation of [o] on [m] (pointwise, so no functional extensionality is needed). *)

Definition absf (s : list item) : Z -> option Z := fun k => mfind k s.

Definition math_post (m : Z -> option Z) (o : kop) (m' : Z -> option Z) : Prop :=
  match o with
  | KInsert k v | KInsertF k v =>
      forall x, m' x = if Z.eqb x k then (match m k with Some w => Some w | None => Some v end) else m x
  | KUpdate k v a | KUpsert k v a =>
      forall x, m' x = if Z.eqb x k then (match m k with Some _ => Some v | None => if a then Some v else None end) else m x
  | KErase k | KEraseF k | KUnlink k | KExtract k =>
      forall x, m' x = if Z.eqb x k then None else m x
  | KClear => forall x, m' x = None
  | KExtractMin =>
      ((forall x, m x = None) /\ forall x, m' x = None) \/
      exists k, m k <> None /\ (forall x, m x <> None -> k <= x) /\ forall x, m' x = if Z.eqb x k then None else m x
  | KExtractMax =>
      ((forall x, m x = None) /\ forall x, m' x = None) \/
      exists k, m k <> None /\ (forall x, m x <> None -> x <= k) /\ forall x, m' x = if Z.eqb x k then None else m x
  | KUnlinkForeign _ | KContains _ | KFindF _ | KGet _ | KSize | KEmpty | KIter => forall x, m' x = m x
  end.

Lemma absf_del : forall k s x, absf (mdel k s) x = if Z.eqb x k then None else absf s x.
Proof.
  intros k s x; unfold absf. destruct (Z.eqb x k) eqn:E.
  - apply Z.eqb_eq in E; subst; apply mfind_mdel_eq.
  - apply Z.eqb_neq in E; now apply mfind_mdel_neq.
Qed.

Lemma absf_del_m : forall k s x, mfind x (mdel k s) = if Z.eqb x k then None else mfind x s.
Proof. intros; apply absf_del. Qed.

(* pointwise solver *)
Ltac pt_solve k s E :=
  let x := fresh "x" in let Ex := fresh "Ex" in
  intros x; unfold absf; simpl; rewrite ?absf_del_m, ?E;
  destruct (Z.eqb x k) eqn:Ex; auto; apply Z.eqb_eq in Ex; subst; rewrite ?E; auto.

Theorem kstep_refines_math : forall c s o, math_post (absf s) o (absf (fst (kstep c s o))).
Proof.
  intros c s o; destruct o; simpl; unfold mhas; try (intros x; reflexivity).
  - destruct (mfind k s) eqn:E; simpl; pt_solve k s E.
  - destruct (mfind k s) eqn:E; simpl; pt_solve k s E.
  - destruct (mfind k s) eqn:E; simpl; [|destruct allow; simpl]; pt_solve k s E.
  - destruct (mfind k s) eqn:E; simpl; [|destruct allow; simpl]; pt_solve k s E.
  - destruct (mfind k s) eqn:E; simpl; pt_solve k s E.
  - destruct (mfind k s) eqn:E; simpl; pt_solve k s E.
  - destruct (mfind k s) eqn:E; simpl; pt_solve k s E.
  - destruct (mfind k s) eqn:E; simpl; pt_solve k s E.
  - (* KFindF *) destruct (mfind k s); simpl; intros x; reflexivity.
  - (* KExtractMin *) destruct (kmin s) as [[k v]|] eqn:E; simpl.
    + right. destruct (kmin_some _ _ _ E) as [F L]. exists k. split; [unfold absf; congruence|]. split.
      * intros x Hx; apply L; now apply mfind_keys.
      * intros x; apply absf_del.
    + left. apply kmin_none in E; subst; split; intros x; reflexivity.
  - (* KExtractMax *) destruct (kmax s) as [[k v]|] eqn:E; simpl.
    + right. destruct (kmax_some _ _ _ E) as [F L]. exists k. split; [unfold absf; congruence|]. split.
      * intros x Hx; apply L; now apply mfind_keys.
      * intros x; apply absf_del.
    + left. apply kmax_none in E; subst; split; intros x; reflexivity.
Qed.

(** contents after a whole sequence = fold of the mathematical operations: there is a chain of maps, one per
    operation, starting from the empty map, each related to the next by [math_post], ending in the state's map *)
Fixpoint math_chain (m : Z -> option Z) (ops : list kop) (m' : Z -> option Z) : Prop :=
  match ops with
  | [] => forall x, m' x = m x
  | o :: ops' => exists m1, math_post m o m1 /\ math_chain m1 ops' m'
  end.

Lemma krun_refines_math : forall c ops s, math_chain (absf s) ops (absf (fst (krun c s ops))).
Proof.
  intros c ops; induction ops as [|o ops IH]; intros s; simpl.
  - intros x; reflexivity.
  - destruct (kstep c s o) as [s1 r] eqn:E. specialize (IH s1). destruct (krun c s1 ops) as [s2 rs]; simpl in *.
    exists (absf s1). split; auto. change s1 with (fst (s1, r)); rewrite <- E; apply kstep_refines_math.
Qed.

Theorem contents_refine_math : forall c ops,
  math_chain (fun _ => None) ops (absf (kstate c ops)) /\ NoDup (keys (kstate c ops)).
Proof. intros c ops; split; [apply (krun_refines_math c ops []) | apply kstate_nodup]. Qed.

(** the state transitions of the set / map operations are exactly those of [Specs.MapSpec] *)
Theorem kstep_agrees_with_MapSpec : forall c s k v a,
  fst (kstep c s (KInsert k v)) = fst (map_step s (MInsert k v)) /\
  ko_res (snd (kstep c s (KInsert k v))) = (match snd (map_step s (MInsert k v)) with RBool b => KBool b | _ => KUnit end) /\
  fst (kstep c s (KUpsert k v a)) = fst (map_step s (MUpdate k v a)) /\
  ko_res (snd (kstep c s (KUpsert k v a))) = (match snd (map_step s (MUpdate k v a)) with RPair x y => KPair x y | _ => KUnit end) /\
  fst (kstep c s (KErase k)) = fst (map_step s (MErase k)) /\
  ko_res (snd (kstep c s (KErase k))) = (match snd (map_step s (MErase k)) with RBool b => KBool b | _ => KUnit end) /\
  ko_res (snd (kstep c s (KContains k))) = (match snd (map_step s (MContains k)) with RBool b => KBool b | _ => KUnit end).
Proof.
  intros c s k v a; simpl; unfold mhas. destruct (mfind k s); simpl; repeat split; auto; destruct a; auto.
Qed.

(** iteration lists every item exactly once, in key order *)
Lemma kins_perm : forall i l, Permutation (kins i l) (i :: l).
Proof.
  intros i l; induction l as [|j l IH]; simpl; auto.
  destruct (fst i <=? fst j); auto. rewrite IH. apply perm_swap.
Qed.

Lemma ksort_perm : forall l, Permutation (ksort l) l.
Proof. induction l as [|i l IH]; simpl; auto. rewrite kins_perm; auto. Qed.

Inductive ksorted : list item -> Prop :=
| ks_nil : ksorted []
| ks_one : forall i, ksorted [i]
| ks_cons : forall i j l, fst i <= fst j -> ksorted (j :: l) -> ksorted (i :: j :: l).

Lemma kins_sorted : forall i l, ksorted l -> ksorted (kins i l).
Proof.
  intros i l H; induction H as [|j|j j' l Hle H IH]; simpl.
  - constructor.
  - destruct (fst i <=? fst j) eqn:E; [apply Z.leb_le in E | apply Z.leb_gt in E]; constructor; try lia; constructor.
  - destruct (fst i <=? fst j) eqn:E; [apply Z.leb_le in E | apply Z.leb_gt in E].
    + constructor; auto. now constructor.
    + simpl in IH. destruct (fst i <=? fst j') eqn:E'; [apply Z.leb_le in E' | apply Z.leb_gt in E'].
      * constructor; [lia|]. constructor; auto.
      * constructor; auto.
Qed.

Lemma ksort_sorted : forall l, ksorted (ksort l).
Proof. induction l; simpl; [constructor | now apply kins_sorted]. Qed.

Theorem iter_lists_contents : forall c s,
  fst (kstep c s KIter) = s /\
  exists l, ko_res (snd (kstep c s KIter)) = KList l /\ Permutation l s /\ ksorted l.
Proof. intros c s; simpl; split; auto. exists (ksort s); auto using ksort_perm, ksort_sorted. Qed.

(** *** Disposer accounting *)

Definition sum_disp (outs : list kout) : nat := fold_right (fun r n => (ko_disp r + n)%nat) 0%nat outs.
Definition sum_held (outs : list kout) : nat := fold_right (fun r n => (ko_held r + n)%nat) 0%nat outs.

Fixpoint sum_linked (c : kcfg) (ops : list kop) (outs : list kout) : nat :=
  match ops, outs with
  | o :: ops', r :: outs' => (linked c o r + sum_linked c ops' outs')%nat
  | _, _ => 0%nat
  end.

Fixpoint sum_handed (ops : list kop) (outs : list kout) : nat :=
  match ops, outs with
  | o :: ops', r :: outs' => (handed o r + sum_handed ops' outs')%nat
  | _, _ => 0%nat
  end.

Definition returned (c : kcfg) (o : kop) (r : kout) : nat :=
  match kc_disp c with DManual => handed o r | _ => 0%nat end.

Lemma kstep_account : forall c s o, wf s ->
  kc_disp c <> DNone -> (kc_disp c = DManual -> kc_replace c = false) ->
  let s' := fst (kstep c s o) in let r := snd (kstep c s o) in
  (linked c o r + length s = length s' + ko_disp r + returned c o r)%nat.
Proof.
  intros c s o Hwf Hd Hm. unfold returned.
  assert (L : forall k, mfind k s <> None -> S (length (mdel k s)) = length s) by (intros; now apply length_mdel).
  assert (K : kc_disp c = DGc \/ (kc_disp c = DManual /\ kc_replace c = false)).
  { destruct (kc_disp c) eqn:D; [congruence | auto | right; auto]. }
  destruct o; simpl; unfold mhas, d_gc, d_clear.
  all: try (destruct (mfind k s) eqn:E; [assert (E' := L k ltac:(congruence))|]; simpl).
  all: try (match goal with |- context [kmin _] => idtac end;
            destruct (kmin s) as [[k0 v0]|] eqn:E;
            [destruct (kmin_some _ _ _ E) as [F _]; assert (E' := L k0 ltac:(congruence))|]; simpl).
  all: try (match goal with |- context [kmax _] => idtac end;
            destruct (kmax s) as [[k0 v0]|] eqn:E;
            [destruct (kmax_some _ _ _ E) as [F _]; assert (E' := L k0 ltac:(congruence))|]; simpl).
  all: try (destruct allow; simpl).
  all: destruct K as [D | [D R]]; rewrite D; try rewrite R; simpl; try destruct (kc_replace c); simpl; unfold item in *; lia.
Qed.

Lemma krun_account : forall c ops s, wf s ->
  kc_disp c <> DNone -> (kc_disp c = DManual -> kc_replace c = false) ->
  let s' := fst (krun c s ops) in let outs := snd (krun c s ops) in
  (sum_linked c ops outs + length s =
   length s' + sum_disp outs + match kc_disp c with DManual => sum_handed ops outs | _ => 0 end)%nat.
Proof.
  intros c ops; induction ops as [|o ops IH]; intros s Hwf Hd Hm; simpl.
  - destruct (kc_disp c); lia.
  - assert (A := kstep_account c s o Hwf Hd Hm). assert (W := kstep_wf c s o Hwf).
    destruct (kstep c s o) as [s1 r] eqn:E; simpl in *.
    specialize (IH s1 W Hd Hm). destruct (krun c s1 ops) as [s2 rs]; simpl in *.
    unfold returned in A. destruct (kc_disp c); simpl in *; lia.
Qed.

(** Intrusive container over a garbage collector: by the time the container is destroyed, the disposer has
    been called exactly once per object that was ever linked: (objects linked) = (disposer calls of the
    operations) + (disposer calls of the destructor).  While an extracted item is held nothing is disposed. *)
Theorem disposer_count_law : forall c ops,
  (kc_disp c = DGc ->
     let (outs, fin) := krun_case c ops in sum_linked c ops outs = (sum_disp outs + fin)%nat) /\
  (kc_disp c = DManual -> kc_replace c = false ->
     let (outs, fin) := krun_case c ops in
     fin = 0%nat /\ (sum_linked c ops outs = length (kstate c ops) + sum_disp outs + sum_handed ops outs)%nat) /\
  (kc_disp c = DNone -> let (outs, fin) := krun_case c ops in sum_disp outs = 0%nat /\ fin = 0%nat) /\
  sum_held (fst (krun_case c ops)) = 0%nat.
Proof.
  intros c ops. unfold krun_case, kstate, kfinal.
  assert (W : wf []) by constructor.
  split; [|split; [|split]].
  - intros D. assert (A := krun_account c ops [] W ltac:(congruence) ltac:(congruence)).
    destruct (krun c [] ops) as [s outs]; simpl in *. rewrite D in *. lia.
  - intros D R. assert (A := krun_account c ops [] W ltac:(congruence) ltac:(auto)).
    destruct (krun c [] ops) as [s outs]; simpl in *. rewrite D in *. split; [auto | lia].
  - intros D. rewrite D. destruct (krun c [] ops) as [s outs] eqn:E; simpl. split; auto.
    assert (G : forall ops s, sum_disp (snd (krun c s ops)) = 0%nat).
    { induction ops0 as [|o ops0 IH]; intros s0; simpl; auto.
      assert (Z0 : ko_disp (snd (kstep c s0 o)) = 0%nat).
      { destruct o; simpl; unfold mhas, d_gc, d_clear; rewrite ?D;
          repeat match goal with |- context [match ?x with _ => _ end] => destruct x end; auto. }
      destruct (kstep c s0 o) as [s1 r]; simpl in *. specialize (IH s1). destruct (krun c s1 ops0); simpl in *. lia. }
    specialize (G ops []). rewrite E in G; auto.
  - assert (G : forall ops s, sum_held (snd (krun c s ops)) = 0%nat).
    { induction ops0 as [|o ops0 IH]; intros s0; simpl; auto.
      assert (Z0 : ko_held (snd (kstep c s0 o)) = 0%nat).
      { destruct o; simpl; unfold mhas;
          repeat match goal with |- context [match ?x with _ => _ end] => destruct x end; auto. }
      destruct (kstep c s0 o) as [s1 r]; simpl in *. specialize (IH s1). destruct (krun c s1 ops0); simpl in *. lia. }
    specialize (G ops []). destruct (krun c [] ops); auto.
Qed.

(** per operation: which operations dispose, and how many *)
Theorem disposer_per_op : forall c s,
  kc_disp c = DGc -> wf s ->
  (forall k, ko_disp (snd (kstep c s (KErase k))) = (if mhas k s then 1 else 0)%nat) /\
  (forall k, ko_disp (snd (kstep c s (KEraseF k))) = (if mhas k s then 1 else 0)%nat) /\
  (forall k, ko_disp (snd (kstep c s (KUnlink k))) = (if mhas k s then 1 else 0)%nat) /\
  (forall k, ko_disp (snd (kstep c s (KUnlinkForeign k))) = 0%nat) /\
  (forall k, ko_disp (snd (kstep c s (KExtract k))) = (if mhas k s then 1 else 0)%nat /\ ko_held (snd (kstep c s (KExtract k))) = 0%nat) /\
  (forall k v a, ko_disp (snd (kstep c s (KUpdate k v a))) = (if mhas k s && kc_replace c then 1 else 0)%nat) /\
  (forall k v, ko_disp (snd (kstep c s (KInsert k v))) = 0%nat) /\
  ko_disp (snd (kstep c s KClear)) = length s.
Proof.
  intros c s D Hwf; simpl; unfold mhas, d_gc, d_clear; rewrite D.
  repeat split; intros; destruct (mfind k s); simpl; auto; try destruct (kc_replace c); auto; destruct a; auto.
Qed.

(** ** Queues, stacks, deques, priority queues *)

Theorem q_size_empty_clear : forall c s,
  (qc_counted c = true -> qo_res (snd (qstep c s ASize)) = QNat (length (q_items s))) /\
  (qc_counted c = false -> qo_res (snd (qstep c s ASize)) = QNat 0) /\
  (qc_counted c = true \/ qc_empty_by_size c = false ->
     (qo_res (snd (qstep c s AEmpty)) = QR (RBool true) <-> q_items s = [])) /\
  (qc_counted c = true ->
     (qo_res (snd (qstep c s AEmpty)) = QR (RBool true) <-> qo_res (snd (qstep c s ASize)) = QNat 0)) /\
  q_items (fst (qstep c s AClear)) = [] /\
  q_items (fst (qstep c s ASize)) = q_items s /\ q_items (fst (qstep c s AEmpty)) = q_items s.
Proof.
  intros c s; simpl. repeat split.
  - intros ->; auto.
  - intros ->; auto.
  - assert (E : qc_empty_by_size c && negb (qc_counted c) = false) by (destruct H as [-> | ->]; [apply andb_false_r | auto]).
    rewrite E. destruct (q_items s); auto; discriminate.
  - assert (E : qc_empty_by_size c && negb (qc_counted c) = false) by (destruct H as [-> | ->]; [apply andb_false_r | auto]).
    rewrite E. intros ->; auto.
  - rewrite H, andb_false_r. destruct (q_items s); auto; discriminate.
  - rewrite H, andb_false_r. destruct (q_items s); simpl; auto; discriminate.
  - destruct (qc_disp c); simpl; auto. destruct (q_items s) eqn:E; simpl; auto.
Qed.

(** what enters and what leaves, in order *)
Definition pushed_of (o : aop) (r : qout) : list Z :=
  match o, qo_res r with
  | APush x, QR (RBool true) => [x]
  | APushFront x, QR (RBool true) => [x]
  | _, _ => []
  end.

Definition left_of (s : qst) (o : aop) (r : qout) : list Z :=
  match o, qo_res r with
  | APop, QR (RVal (Some x)) => [x]
  | APopBack, QR (RVal (Some x)) => [x]
  | AClear, _ => q_items s
  | _, _ => []
  end.

Fixpoint qpushed (c : qcfg) (s : qst) (ops : list aop) : list Z :=
  match ops with
  | [] => []
  | o :: ops' => let (s1, r) := qstep c s o in pushed_of o r ++ qpushed c s1 ops'
  end.

Fixpoint qleft (c : qcfg) (s : qst) (ops : list aop) : list Z :=
  match ops with
  | [] => []
  | o :: ops' => let (s1, r) := qstep c s o in left_of s o r ++ qleft c s1 ops'
  end.

Lemma fifo_step_order : forall c s o, qc_kind c = QFifo ->
  q_items s ++ pushed_of o (snd (qstep c s o)) = left_of s o (snd (qstep c s o)) ++ q_items (fst (qstep c s o)).
Proof.
  intros c [l p n] o K; destruct o; simpl; unfold core_push, core_pop, has_room; rewrite ?K; simpl.
  - destruct (qc_cap c) as [cap|]; simpl.
    + destruct (length l <? cap)%nat; simpl; auto using app_nil_r.
    + reflexivity.
  - destruct l as [|x l]; simpl; auto. destruct (qc_disp c); simpl; now rewrite app_nil_r.
  - now rewrite app_nil_r.
  - now rewrite app_nil_r.
  - now rewrite app_nil_r.
  - now rewrite app_nil_r.
  - destruct (qc_disp c); simpl; rewrite ?app_nil_r; auto. destruct l; simpl; rewrite ?app_nil_r; auto.
Qed.

(** FIFO: the items that left the queue (by pop, or all at once by clear), followed by what is still inside, are
    exactly the successfully pushed items in push order - for every operation sequence, bounded or not *)
Theorem fifo_pop_order : forall c ops s, qc_kind c = QFifo ->
  q_items s ++ qpushed c s ops = qleft c s ops ++ q_items (fst (qrun c s ops)).
Proof.
  intros c ops; induction ops as [|o ops IH]; intros s K; simpl.
  - now rewrite app_nil_r.
  - assert (A := fifo_step_order c s o K).
    destruct (qstep c s o) as [s1 r]; simpl in *. specialize (IH s1 K).
    destruct (qrun c s1 ops) as [s2 rs]; simpl in *.
    rewrite app_assoc, A, <- app_assoc, IH, app_assoc. reflexivity.
Qed.

(** LIFO: a push followed by any balanced sequence (every pop matched by an earlier push of that sequence) and a
    pop: the pop returns the pushed value and the stack is what it was *)
Inductive balanced : list aop -> Prop :=
| bal_nil : balanced []
| bal_obs : forall o b, (o = ASize \/ o = AEmpty) -> balanced b -> balanced (o :: b)
| bal_pair : forall x b1 b2, balanced b1 -> balanced b2 -> balanced (APush x :: b1 ++ APop :: b2).

Lemma qrun_app : forall c ops1 ops2 s,
  fst (qrun c s (ops1 ++ ops2)) = fst (qrun c (fst (qrun c s ops1)) ops2).
Proof.
  intros c ops1; induction ops1 as [|o ops1 IH]; intros ops2 s; simpl; auto.
  destruct (qstep c s o) as [s1 r]. specialize (IH ops2 s1).
  destruct (qrun c s1 (ops1 ++ ops2)); destruct (qrun c s1 ops1); simpl in *; auto.
Qed.

Lemma stack_push_pop : forall c s x, qc_kind c = QStack -> qc_cap c = None ->
  q_items (fst (qstep c s (APush x))) = x :: q_items s /\
  qo_res (snd (qstep c s (APush x))) = QR (RBool true).
Proof. intros c [l p n] x K C; simpl; unfold core_push, has_room; rewrite K, C; simpl; auto. Qed.

Lemma stack_pop_top : forall c s x l, qc_kind c = QStack -> q_items s = x :: l ->
  q_items (fst (qstep c s APop)) = l /\ qo_res (snd (qstep c s APop)) = QR (RVal (Some x)).
Proof. intros c [l0 p n] x l K E; simpl in *; subst; unfold core_pop; rewrite K; simpl. destruct (qc_disp c); auto. Qed.

Lemma qrun_cons : forall c o ops s, fst (qrun c s (o :: ops)) = fst (qrun c (fst (qstep c s o)) ops).
Proof. intros; simpl. destruct (qstep c s o) as [s1 r]; simpl. destruct (qrun c s1 ops); auto. Qed.

Lemma balanced_restores : forall c b, balanced b -> qc_kind c = QStack -> qc_cap c = None ->
  forall s, q_items (fst (qrun c s b)) = q_items s.
Proof.
  intros c b H K C; induction H as [|o b Ho H IH|x b1 b2 H1 IH1 H2 IH2]; intros s; auto.
  - rewrite qrun_cons, IH. destruct Ho as [-> | ->]; destruct s; reflexivity.
  - rewrite qrun_cons, qrun_app, qrun_cons, IH2.
    destruct (stack_push_pop c s x K C) as [P _].
    set (s1 := fst (qstep c s (APush x))) in *.
    specialize (IH1 s1). rewrite P in IH1.
    destruct (stack_pop_top c _ x (q_items s) K IH1) as [Q _]. exact Q.
Qed.

Theorem stack_pop_order : forall c s x mid, qc_kind c = QStack -> qc_cap c = None -> balanced mid ->
  let s1 := fst (qrun c s (APush x :: mid)) in
  qo_res (snd (qstep c s1 APop)) = QR (RVal (Some x)) /\ q_items (fst (qstep c s1 APop)) = q_items s.
Proof.
  intros c s x mid K C B s1. unfold s1; clear s1. rewrite qrun_cons.
  destruct (stack_push_pop c s x K C) as [P _].
  assert (R := balanced_restores c mid B K C (fst (qstep c s (APush x)))). rewrite P in R.
  destruct (stack_pop_top c _ x (q_items s) K R); auto.
Qed.

(** pop on the empty container *)
Theorem pop_empty : forall c s, q_items s = [] ->
  qo_res (snd (qstep c s APop)) = QR (RVal None) /\ q_items (fst (qstep c s APop)) = [].
Proof. intros c [l p n] E; simpl in *; subst; unfold core_pop; destruct (qc_kind c); simpl; auto. Qed.

(** priority queue: pop returns a greatest element and removes exactly one occurrence of it *)
Lemma remove_one_perm : forall m l, In m l -> Permutation l (m :: remove_one m l).
Proof.
  intros m l; induction l as [|y l IH]; simpl; [tauto|].
  destruct (Z.eqb m y) eqn:E.
  - apply Z.eqb_eq in E; subst; auto.
  - intros [->|H]; [rewrite Z.eqb_refl in E; discriminate|]. rewrite perm_swap. constructor; auto.
Qed.

Theorem pq_pop_is_max : forall c s, qc_kind c = QPrio ->
  let l := q_items s in let l' := q_items (fst (qstep c s APop)) in
  (l = [] -> qo_res (snd (qstep c s APop)) = QR (RVal None)) /\
  (l <> [] -> exists m, qo_res (snd (qstep c s APop)) = QR (RVal (Some m)) /\
                        In m l /\ (forall x, In x l -> x <= m) /\ Permutation l (m :: l')).
Proof.
  intros c [l p n] K; simpl; unfold core_pop; rewrite K; simpl. split.
  - intros ->; auto.
  - destruct l as [|x l]; [congruence|]. intros _. simpl.
    destruct (zmax_spec l x) as (H1 & H2 & H3). set (m := zmax x l) in *.
    assert (Hin : In m (x :: l)) by (destruct H1 as [-> | H1]; simpl; auto).
    exists m. assert (P := remove_one_perm m (x :: l) Hin). simpl in P.
    destruct (qc_disp c); simpl; (split; [auto|]; split; [auto|]; split; [|exact P]);
      intros y [<-|Hy]; auto.
Qed.

(** bounded containers: a push fails exactly when [cap] items are stored, and the bound is never exceeded *)
Theorem bounded_push : forall c s x cap, qc_cap c = Some cap -> (length (q_items s) <= cap)%nat ->
  (qo_res (snd (qstep c s (APush x))) = QR (RBool false) <-> length (q_items s) = cap) /\
  (qo_res (snd (qstep c s (APush x))) = QR (RBool true) <-> (length (q_items s) < cap)%nat) /\
  (qo_res (snd (qstep c s (APush x))) = QR (RBool false) -> q_items (fst (qstep c s (APush x))) = q_items s) /\
  (qo_res (snd (qstep c s (APush x))) = QR (RBool true) ->
     length (q_items (fst (qstep c s (APush x)))) = S (length (q_items s))).
Proof.
  intros c [l p n] x cap C L; simpl in *; unfold core_push, has_room; rewrite C.
  destruct (qc_kind c); simpl; destruct (length l <? cap)%nat eqn:E;
    [apply Nat.ltb_lt in E | apply Nat.ltb_ge in E | apply Nat.ltb_lt in E | apply Nat.ltb_ge in E
    | apply Nat.ltb_lt in E | apply Nat.ltb_ge in E | apply Nat.ltb_lt in E | apply Nat.ltb_ge in E];
    simpl; rewrite ?app_length; simpl;
    (repeat split; intros; auto; try discriminate; try lia).
Qed.

Lemma remove_one_length_le : forall m l, (length (remove_one m l) <= length l)%nat.
Proof. intros m l; induction l as [|z l IH]; simpl; auto. destruct (Z.eqb m z); simpl; lia. Qed.

Lemma qstep_bounded : forall c cap s o, qc_cap c = Some cap ->
  (length (q_items s) <= cap)%nat -> (length (q_items (fst (qstep c s o))) <= cap)%nat.
Proof.
  intros c cap [l p n] o C L; simpl in L; destruct o; simpl; unfold core_push, core_pop, has_room; rewrite ?C.
  - destruct (qc_kind c); simpl; destruct (length l <? cap)%nat eqn:E; simpl; rewrite ?app_length; simpl; auto;
      apply Nat.ltb_lt in E; lia.
  - destruct (qc_kind c); simpl.
    + destruct l as [|y l]; simpl in *; auto. destruct (qc_disp c); simpl; lia.
    + destruct l as [|y l]; simpl in *; auto. destruct (qc_disp c); simpl; lia.
    + destruct l as [|y l]; simpl in *; auto. destruct (qc_disp c); simpl; lia.
    + destruct l as [|y l]; simpl in *; auto.
      assert (A := remove_one_length_le (zmax y l) (y :: l)). simpl in A.
      destruct (Z.eqb (zmax y l) y); destruct (qc_disp c); simpl in *; lia.
  - destruct (qc_kind c); simpl; auto. destruct (length l <? cap)%nat eqn:E; simpl; auto. apply Nat.ltb_lt in E; lia.
  - destruct (qc_kind c); simpl; auto. destruct (rev l) as [|z r] eqn:E; simpl; [lia|].
    assert (length l = S (length r)) by (rewrite <- (rev_involutive l), E; simpl; rewrite app_length, rev_length; simpl; lia).
    rewrite rev_length; lia.
  - auto.
  - auto.
  - destruct (qc_disp c); simpl; try lia. destruct l; simpl in *; lia.
Qed.

Theorem bounded_never_exceeds : forall c cap ops s, qc_cap c = Some cap ->
  (length (q_items s) <= cap)%nat -> (length (q_items (fst (qrun c s ops))) <= cap)%nat.
Proof.
  intros c cap ops; induction ops as [|o ops IH]; intros s C L; auto.
  rewrite qrun_cons. apply IH; auto. now apply qstep_bounded.
Qed.

(** deque: both ends *)
Theorem deque_ends : forall c s x, qc_kind c = QDeque -> qc_cap c = None ->
  (* push_front then pop_front, push_back then pop_back return the pushed value and restore the contents *)
  (let s1 := fst (qstep c s (APushFront x)) in
     qo_res (snd (qstep c s1 APop)) = QR (RVal (Some x)) /\ q_items (fst (qstep c s1 APop)) = q_items s) /\
  (let s1 := fst (qstep c s (APush x)) in
     qo_res (snd (qstep c s1 APopBack)) = QR (RVal (Some x)) /\ q_items (fst (qstep c s1 APopBack)) = q_items s) /\
  (* push_back / pop_front is the FIFO step, push_front / pop_front the stack step *)
  q_items (fst (qstep c s (APush x))) = fst (fifo_step (q_items s) (Enq x)) /\
  q_items (fst (qstep c s APop)) = fst (fifo_step (q_items s) Deq) /\
  q_items (fst (qstep c s (APushFront x))) = fst (stack_step (q_items s) (Push x)) /\
  (* pop_back is pop_front of the mirrored deque *)
  q_items (fst (qstep c s APopBack)) = rev (fst (fifo_step (rev (q_items s)) Deq)).
Proof.
  intros c [l p n] x K C; simpl; unfold core_push, core_pop, has_room; rewrite K, C; simpl.
  repeat split; auto.
  - destruct (qc_disp c); auto.
  - destruct (qc_disp c); auto.
  - rewrite rev_app_distr; simpl; auto.
  - rewrite rev_app_distr; simpl. now rewrite rev_involutive.
  - destruct l; simpl; auto. destruct (qc_disp c); auto.
  - destruct (rev l); simpl; auto.
Qed.

(** *** Disposer accounting of the intrusive queues and stacks *)

Definition sum_qdisp (outs : list qout) : nat := fold_right (fun r n => (qo_disp r + n)%nat) 0%nat outs.

Definition handed_q (o : aop) (r : qout) : nat :=
  match o, qo_res r with
  | APop, QR (RVal (Some _)) => 1%nat
  | APopBack, QR (RVal (Some _)) => 1%nat
  | _, _ => 0%nat
  end.

Fixpoint qhanded (c : qcfg) (s : qst) (ops : list aop) : nat :=
  match ops with
  | [] => 0%nat
  | o :: ops' => let (s1, r) := qstep c s o in (handed_q o r + qhanded c s1 ops')%nat
  end.

Lemma core_push_len : forall c l x,
  (snd (core_push c l x) = RBool true /\ length (fst (core_push c l x)) = S (length l)) \/
  (snd (core_push c l x) = RBool false /\ fst (core_push c l x) = l).
Proof.
  intros c l x; unfold core_push, has_room.
  destruct (qc_kind c), (qc_cap c) as [cap|]; simpl; try destruct (length l <? cap)%nat; simpl;
    rewrite ?app_length; simpl; auto; left; split; auto; lia.
Qed.

Lemma core_pop_len : forall c l,
  (exists x, snd (core_pop c l) = RVal (Some x) /\ S (length (fst (core_pop c l))) = length l) \/
  (snd (core_pop c l) = RVal None /\ fst (core_pop c l) = [] /\ l = []).
Proof.
  intros c l; unfold core_pop. destruct (qc_kind c); simpl; destruct l as [|y l]; simpl; eauto.
  left. exists (zmax y l). split; auto.
  destruct (zmax_spec l y) as (H1 & _ & _).
  assert (Hin : In (zmax y l) (y :: l)) by (destruct H1 as [-> | H1]; simpl; auto).
  assert (P := Permutation_length (remove_one_perm _ _ Hin)). simpl in P. lia.
Qed.

(** one step: conservation of items, push counter, and the disposer calls by policy *)
Lemma qstep_account : forall c s o,
  let s1 := fst (qstep c s o) in let r := snd (qstep c s o) in
  (length (q_items s) + length (pushed_of o r) = length (left_of s o r) + length (q_items s1))%nat /\
  q_npush s1 = (q_npush s + length (pushed_of o r))%nat /\
  (qc_disp c = QDLag -> qc_kind c <> QDeque ->
     (qo_disp r + b2n (q_pending s1) = b2n (q_pending s) + length (left_of s o r))%nat) /\
  (qc_disp c = QDClear \/ qc_disp c = QDManual ->
     (qo_disp r + handed_q o r = length (left_of s o r))%nat /\ q_pending s1 = q_pending s) /\
  (qc_disp c = QDNone \/ qc_disp c = QDTotal -> qo_disp r = 0%nat).
Proof.
  intros c [l p n] o; destruct o; simpl.
  - (* push *) destruct (core_push_len c l x) as [[R L]|[R L]]; destruct (core_push c l x) as [l' r]; simpl in *; subst;
      repeat split; intros; simpl; try lia.
  - (* pop *) destruct (core_pop_len c l) as [(x & R & L)|(R & L & E)]; destruct (core_pop c l) as [l' r]; simpl in *; subst; simpl.
    + destruct (qc_disp c) eqn:D; simpl; repeat split; intros; try congruence; simpl; try lia;
        try (destruct H; congruence); destruct p; simpl; lia.
    + repeat split; intros; simpl; auto; lia.
  - (* push_front *) destruct (qc_kind c); simpl; try (repeat split; intros; simpl; lia).
    unfold has_room. destruct (qc_cap c) as [cap|]; simpl; try destruct (length l <? cap)%nat; simpl;
      repeat split; intros; simpl; lia.
  - (* pop_back *) destruct (qc_kind c); simpl; try (repeat split; intros; simpl; lia).
    destruct (rev l) as [|z r] eqn:E; simpl.
    + assert (l = []) by (rewrite <- (rev_involutive l), E; auto). subst. repeat split; intros; simpl; lia.
    + assert (length l = S (length r)) by (rewrite <- (rev_involutive l), E; simpl; rewrite app_length, rev_length; simpl; lia).
      rewrite rev_length. repeat split; intros; simpl; try lia. congruence.
  - repeat split; intros; simpl; lia.
  - repeat split; intros; simpl; lia.
  - (* clear *) destruct (qc_disp c) eqn:D; simpl; repeat split; intros; try congruence; simpl; try lia;
      try (destruct H; congruence); destruct l; simpl; destruct p; simpl; lia.
Qed.

Lemma qrun_account : forall c ops s,
  let sf := fst (qrun c s ops) in let outs := snd (qrun c s ops) in
  (length (q_items s) + length (qpushed c s ops) = length (qleft c s ops) + length (q_items sf))%nat /\
  q_npush sf = (q_npush s + length (qpushed c s ops))%nat /\
  (qc_disp c = QDLag -> qc_kind c <> QDeque ->
     (sum_qdisp outs + b2n (q_pending sf) = b2n (q_pending s) + length (qleft c s ops))%nat) /\
  (qc_disp c = QDClear \/ qc_disp c = QDManual -> (sum_qdisp outs + qhanded c s ops = length (qleft c s ops))%nat) /\
  (qc_disp c = QDNone \/ qc_disp c = QDTotal -> sum_qdisp outs = 0%nat).
Proof.
  intros c ops; induction ops as [|o ops IH]; intros s; simpl.
  - repeat split; intros; lia.
  - destruct (qstep_account c s o) as (A & B & C & D & E).
    destruct (qstep c s o) as [s1 r]; simpl in *.
    destruct (IH s1) as (A' & B' & C' & D' & E'). destruct (qrun c s1 ops) as [s2 rs]; simpl in *.
    rewrite !app_length. repeat split; try intros H.
    + lia.
    + lia.
    + intros H0. specialize (C H H0); specialize (C' H H0); lia.
    + destruct (D H) as [D1 D2]; specialize (D' H); lia.
    + specialize (E H); specialize (E' H); lia.
Qed.

(** Intrusive queues and stacks: what becomes of every item that was pushed, by policy. *)
Theorem queue_disposer_law : forall c ops,
  let sf := fst (qrun c qinit ops) in
  let outs := fst (qrun_case c ops) in let fin := snd (qrun_case c ops) in
  let npush := length (qpushed c qinit ops) in
  (* MSQueue family: by the time the queue is destroyed every pushed item has been disposed exactly once *)
  (qc_disp c = QDLag -> qc_kind c <> QDeque -> (sum_qdisp outs + fin = npush)%nat) /\
  (* pop hands the item back; clear() and the destructor dispose the rest *)
  (qc_disp c = QDClear -> (sum_qdisp outs + fin + qhanded c qinit ops = npush)%nat) /\
  (qc_disp c = QDManual -> fin = 0%nat /\ (sum_qdisp outs + length (q_items sf) + qhanded c qinit ops = npush)%nat) /\
  (qc_disp c = QDTotal -> sum_qdisp outs = 0%nat /\ fin = npush) /\
  (qc_disp c = QDNone -> sum_qdisp outs = 0%nat /\ fin = 0%nat).
Proof.
  intros c ops; unfold qrun_case, qfinal.
  destruct (qrun_account c ops qinit) as (A & B & C & D & E).
  destruct (qrun c qinit ops) as [sf outs]; simpl in *.
  split; [|split; [|split; [|split]]]; intros H; rewrite ?H; simpl.
  - intros H0. specialize (C H H0). lia.
  - specialize (D (or_introl H)). lia.
  - specialize (D (or_intror H)). split; [auto | lia].
  - split; [apply E; auto | lia].
  - split; [apply E; auto | auto].
Qed.

(** ** SegmentedQueue *)

Definition seg_items (segs : list seg) : list Z := concat (map snd segs).

Lemma seg_count_items : forall segs, seg_count segs = length (seg_items segs).
Proof.
  unfold seg_count, seg_items; induction segs as [|[u l] segs IH]; simpl; auto. rewrite app_length; lia.
Qed.

Lemma seg_push_items : forall q segs x, seg_items (seg_push q segs x) = seg_items segs ++ [x].
Proof.
  intros q segs x; unfold seg_items; induction segs as [|[u l] segs IH]; simpl; auto.
  destruct segs as [|sg segs]; simpl in *.
  - destruct (u <? q)%nat; simpl; rewrite ?app_nil_r; auto.
  - rewrite IH, app_assoc; auto.
Qed.

Lemma seg_head_items : forall q segs, seg_items (seg_head q segs) = seg_items segs.
Proof.
  intros q segs; unfold seg_items; induction segs as [|[u l] segs IH]; simpl; auto.
  destruct l; auto. destruct (u <? q)%nat; simpl; auto.
Qed.

(** push appends at the end; an accepted pop removes one occurrence of an item that is present, and "empty" is
    accepted only when the head segment holds nothing; the item count follows *)
Theorem segq_laws : forall q segs,
  (forall x, snd (segq_step q segs (SPush x)) = SOk /\
             seg_items (fst (segq_step q segs (SPush x))) = seg_items segs ++ [x]) /\
  (forall x, snd (segq_step q segs (SPop (Some x))) = SOk ->
             In x (seg_items segs) /\
             Permutation (seg_items segs) (x :: seg_items (fst (segq_step q segs (SPop (Some x)))))) /\
  (snd (segq_step q segs (SPop None)) = SOk ->
     match seg_head q segs with [] => True | (u, l) :: _ => l = [] end) /\
  snd (segq_step q segs SSize) = SNat (length (seg_items segs)) /\
  (snd (segq_step q segs SEmpty) = SBool true <-> seg_items segs = []) /\
  seg_items (fst (segq_step q segs SClear)) = [].
Proof.
  intros q segs; repeat split.
  - simpl; apply seg_push_items.
  - simpl in H. rewrite <- (seg_head_items q segs). destruct (seg_head q segs) as [|[u l] rest]; [discriminate|].
    destruct (zmem x l) eqn:E; [|discriminate]. unfold seg_items; simpl. apply in_or_app; left.
    unfold zmem in E. apply existsb_exists in E. destruct E as (y & Hy & Ey). apply Z.eqb_eq in Ey; subst; auto.
  - simpl in *. rewrite <- (seg_head_items q segs). destruct (seg_head q segs) as [|[u l] rest]; [discriminate|].
    destruct (zmem x l) eqn:E; [|discriminate]. simpl. unfold seg_items; simpl.
    unfold zmem in E. apply existsb_exists in E. destruct E as (y & Hy & Ey). apply Z.eqb_eq in Ey; subst y.
    rewrite (remove_one_perm x l Hy) at 1. reflexivity.
  - simpl. destruct (seg_head q segs) as [|[u l] rest]; auto. destruct l; auto; discriminate.
  - simpl. now rewrite seg_count_items.
  - simpl. rewrite seg_count_items. destruct (seg_items segs); simpl; [auto | discriminate].
  - simpl. rewrite seg_count_items. intros ->; auto.
  - simpl. rewrite seg_head_items. unfold seg_items. induction segs as [|[u l] segs IH]; simpl; auto.
Qed.
