(** placeholder, being written *)
Require Import List Arith Bool ZArith Lia.
Require Import LV.Base.Lin LV.Spec.Specs LV.Spec.ApiSpec.
Lemma api_placeholder : kstate (mkcfg true false false DNone) nil = nil.
Proof. reflexivity. Qed.
