(** Refutation of [skip_full_history_linearizable_statement] (Properties/Properties_C15.v) AS STATED:

      forall fuel nodes ths c, nodes_ok nodes -> Forall (Forall op_ok) ths ->
        Conc.reach (SkipList.init_cfg fuel nodes ths) c -> linearizable SetSpec (client_history nodes (Conc.trace c)).

    The statement quantifies over EVERY reachable configuration, hence over every PREFIX of a run, and
    [client_history] renders an extract_min whose "res" event is not yet in the trace as the strict
    [HInv t SExtractMin] (first_res = None -> enc_op 13 _ 0 0) — also when the thread has already marked (logically
    deleted) its victim.  The weaker presentation "extract_min -> k is erase k" is only applied once the response
    is in the trace.  Witness (a run of the model, computed):

      key 1 pre-filled;  thread 0: extract_min;  thread 1: insert 0 ; contains 1 ; contains 1
      - thread 0 runs until find_min_position has located node 1 and try_remove_at is about to do its level-0 mark CAS
      - thread 1 runs insert 0 -> true and contains 1 -> true (both complete), and invokes the second contains 1
      - thread 0 executes the mark CAS of node 1 (one step; its "res" event is far away)
      - thread 1 completes the second contains 1 -> false;  stop.

    The client history of that prefix is
      t90: insert 1 -> true | t0: extract_min (pending) | t1: insert 0 -> true | t1: contains 1 -> true |
      t1: contains 1 -> false
    and is not linearizable w.r.t. SetSpec: only the pending strict extract_min could remove 1, but it is invoked
    before and can only take effect after insert 0 -> true ... contains 1 -> true, when the minimum is 0.

    The SAME run continued until thread 0's response is accepted (the extract is then presented as erase 1 -> true):
    only prefixes with a pending extract that has already taken effect are affected.  Nothing here is a defect of the
    container; it is a defect of the statement (of how a pending extract is presented). *)
From Coq Require Import ZArith List Bool Arith String.
From LV Require Import Base.Lin Base.Conc Base.Events Spec.Specs Proofs.LinProofs Model.SkipList Proofs.SkipListProofs.
Import ListNotations.
Local Open Scope Z_scope.

(** ** the witness *)
Definition w_cfg : list Z := [2; 0; 0; 0; 0].                                   (* key 1 pre-filled, height 1 *)
Definition w_ths : list (list (list Z)) := [[[13]]; [[1; 0; 0]; [10; 1]; [10; 1]]].
Definition w_sched : list nat :=
  repeat 0%nat 23 ++ repeat 1%nat 66 ++ [0%nat] ++ repeat 1%nat 103.
Definition w_fuel : nat := 193.                                                 (* = length w_sched: the run stops there *)

Definition w_nodes : list (nat * nat) := prefill_nodes w_cfg.
Definition w_ops : list (list SkipList.op) := map decode_ops w_ths.
Definition w_conf := fst (Conc.run w_fuel 0 w_sched (SkipList.init_cfg 60 w_nodes w_ops)).
Definition w_hist : history SetSpec := client_history w_nodes (Conc.trace w_conf).

Local Notation HI := (@HInv SetSpec).
Local Notation HR := (@HRes SetSpec).

(** the offending history, computed from the run *)
Definition w_hist_explicit : history SetSpec :=
  [HI 90%nat (SInsert 1); HR 90%nat (RBool true);
   HI 0%nat SExtractMin;                                   (* pending: no response in the trace *)
   HI 1%nat (SInsert 0); HR 1%nat (RBool true);
   HI 1%nat (SContains 1); HR 1%nat (RBool true);
   HI 1%nat (SContains 1); HR 1%nat (RBool false)].

Lemma w_hist_computed : w_hist = w_hist_explicit.
Proof. vm_compute. reflexivity. Qed.

(** the run is the one described: it was cut by the step budget; thread 0's mark CAS of node 1 (pointer 1019, level-0
    cell [1; 1019; 0]) succeeded and is the only CAS of thread 0; thread 0 has no "res" event *)
Example w_run_shape :
  let r := SkipList.run_case w_cfg w_ths w_sched w_fuel in
  snd r = false /\
  filter (fun e => match e with (0%nat, EvAcc KCas _ _) => true | _ => false end) (fst r)
    = [(0%nat, EvAcc KCas [1; 1019; 0] true)] /\
  existsb (fun e => match e with (0%nat, EvCli name _) => String.eqb name "res"%string | _ => false end) (fst r) = false.
Proof. vm_compute. repeat split; reflexivity. Qed.

Lemma w_hist_wf : wf_history w_hist.
Proof. rewrite w_hist_computed. apply wf_historyb_spec. vm_compute. reflexivity. Qed.

Lemma w_hist_rejected : lincheck SetSpec w_hist = false.
Proof. rewrite w_hist_computed. vm_compute. reflexivity. Qed.

Lemma w_hist_not_linearizable : ~ linearizable SetSpec w_hist.
Proof.
  intros Hlin.
  assert (H : lincheck SetSpec w_hist = true) by (apply lincheck_iff; split; [exact w_hist_wf|exact Hlin]).
  rewrite w_hist_rejected in H. discriminate H.
Qed.

Lemma w_ops_ok : Forall (Forall op_ok) w_ops.
Proof.
  unfold w_ops. apply Forall_forall. intros os Hin. apply in_map_iff in Hin.
  destruct Hin as (x & <- & _). apply decode_ops_ok.
Qed.

Lemma w_conf_reach : Conc.reach (SkipList.init_cfg 60 w_nodes w_ops) w_conf.
Proof. unfold w_conf. apply Conc.run_reach. Qed.

(** ** the statement of Properties_C15 is false *)
Theorem skip_full_history_statement_refuted :
  exists (fuel : nat) nodes ths c,
    nodes_ok nodes /\ Forall (Forall op_ok) ths /\
    Conc.reach (SkipList.init_cfg fuel nodes ths) c /\
    ~ linearizable SetSpec (client_history nodes (Conc.trace c)).
Proof.
  exists 60%nat, w_nodes, w_ops, w_conf.
  split; [apply prefill_nodes_ok|]. split; [exact w_ops_ok|]. split; [exact w_conf_reach|].
  exact w_hist_not_linearizable.
Qed.
Print Assumptions skip_full_history_statement_refuted.

Corollary skip_full_history_statement_false :
  ~ (forall (fuel : nat) nodes ths c,
       nodes_ok nodes -> Forall (Forall op_ok) ths -> Conc.reach (SkipList.init_cfg fuel nodes ths) c ->
       linearizable SetSpec (client_history nodes (Conc.trace c))).
Proof.
  intros H. destruct skip_full_history_statement_refuted as (fuel & nodes & ths & c & Hn & Ho & Hr & Hl).
  apply Hl. exact (H fuel nodes ths c Hn Ho Hr).
Qed.
Print Assumptions skip_full_history_statement_false.

(** ** only pending-extract prefixes are affected: the SAME run (same cfg, programs and schedule; after the schedule
    list is exhausted the scheduler continues round-robin) continued to completion — thread 0 emits its response
    "extracted key 1", so its operation is presented as erase 1 -> true — is accepted by the verified checker *)
Definition w_hist_completed_explicit : history SetSpec :=
  [HI 90%nat (SInsert 1); HR 90%nat (RBool true);
   HI 0%nat (SErase 1);
   HI 1%nat (SInsert 0); HR 1%nat (RBool true);
   HI 1%nat (SContains 1); HR 1%nat (RBool true);
   HI 1%nat (SContains 1); HR 1%nat (RBool false);
   HR 0%nat (RBool true)].

Example w_same_run_completed_is_accepted :
  let r := SkipList.run_case w_cfg w_ths w_sched 1000 in
  snd r = true /\
  firstn (List.length (fst (SkipList.run_case w_cfg w_ths w_sched w_fuel))) (fst r)
    = fst (SkipList.run_case w_cfg w_ths w_sched w_fuel) /\
  client_history (prefill_nodes w_cfg) (fst r) = w_hist_completed_explicit /\
  lincheck SetSpec (client_history (prefill_nodes w_cfg) (fst r)) = true.
Proof. vm_compute. repeat split; reflexivity. Qed.
