(** * DhpHelpA: smr::help_scan as executed by detach_thread. *)
From Coq Require Import ZArith NArith List String Bool Lia PeanoNat.
From LV Require Import Base.Conc Base.Events Model.DhpLang Model.Dhp Proofs.DhpBase Proofs.DhpHist
  Proofs.DhpLangProofs Proofs.DhpInvA Proofs.DhpStepsA Proofs.DhpQuietA Proofs.DhpSlotA Proofs.DhpScanA Proofs.DhpScanC
  Proofs.DhpScanD Proofs.DhpScanE Proofs.DhpPresA Proofs.DhpAllocA Proofs.DhpAllocB Proofs.DhpViewA Proofs.DhpRulesA
  Proofs.DhpExtendA Proofs.DhpExtendB Proofs.DhpDetB Proofs.DhpDetC Proofs.DhpAttA Proofs.DhpAttB Proofs.DhpAttC.
Import ListNotations.

Section HelpA.
  Variable c : cfg.
  Notation dsafeA := (@dsafe G ev AuxA VA viewA (InvA c)).

  (** a plain read that updates the bookkeeping fields of the view *)
  Lemma dsafe_locread_en {X R} t (f : G -> G * X) (k : X -> @dprog G ev R) l (e : G -> option (option nat * bool)) (n : G -> option nat) Q :
    (forall g, fst (f g) = g) ->
    (forall g a h, viewA a t = l -> JA c g a h ->
       (forall e0 fl, e g = Some (e0, fl) -> exists r, va_tls l = Some r /\ r_ext (grec g r) = e0 /\
                                              (fl = true -> exists b, va_blk l = Some b /\ gb_nextb (ggb g b) = e0)) /\
       (forall n0, n g = Some n0 -> after g (tlist g) n0)) ->
    (forall g, dsafeA t (k (snd (f g))) (with_en l (e g) (n g)) Q) -> dsafeA t (DLoc f k) l Q.
  Proof.
    intros Hf Hc Hk. apply dsafe_loc_J. intros g a tr Hv.
    exists (upd_aux a t (with_en l (e g) (n g)) (bown a)). split; [apply frame_upd_aux|]. split.
    - intros _ J. rewrite Hf. destruct (Hc g a _ Hv J) as (C1 & C2). apply JA_view_en; auto.
    - unfold viewA. rewrite upd_aux_same. apply Hk.
  Qed.

  Lemma keep_e g a h t l : viewA a t = l -> JA c g a h ->
    forall e0 fl, va_e l = Some (e0, fl) -> exists r, va_tls l = Some r /\ r_ext (grec g r) = e0 /\
                                              (fl = true -> exists b, va_blk l = Some b /\ gb_nextb (ggb g b) = e0).
  Proof. intros Hv J e0 fl E. unfold viewA in Hv. subst l. eapply ja_e; eauto. Qed.
  Lemma keep_node g a h t l n0 : viewA a t = l -> JA c g a h -> va_node l = Some n0 -> after g (tlist g) n0.
  Proof. intros Hv J E. unfold viewA in Hv. subst l. eapply ja_node; eauto. Qed.

  Definition Qsame (l : VA) {X} : option X -> VA -> Prop := fun o l' => match o with Some _ => l' = l | None => True end.

  Lemma spec_move_cells t me b : forall n i l, va_scan l = None -> dsafeA t (move_cells c me b i n) l (Qsame l).
  Proof.
    induction n as [|n IH]; intros i l Hs; cbn [move_cells]; [cbn; reflexivity|].
    unfold xbind at 1. unfold loc at 1. cbn [dbind].
    apply dsafe_loc_quiet'; [intros g; apply quietG_rt_push|]. intros g.
    apply dsafe_xbind.
    assert (Hx : dsafeA t (if snd (rt_push c me (nth i (rb_cells (grb g b)) 0) g) then ret tt else Dhp.scan c me) l (Qsame l)).
    { destruct (snd (rt_push c me _ g)); [cbn; reflexivity|now apply spec_scan]. }
    eapply dsafe_weaken; [|exact Hx]. intros [x|] l1 K; [|exact I]. cbn in K. subst l1. now apply IH.
  Qed.

  Lemma spec_move_blocks t me src : forall fuel block l, va_scan l = None -> dsafeA t (move_blocks c fuel me src block) l (Qsame l).
  Proof.
    induction fuel as [|fuel IH]; intros [b|] l Hs; cbn [move_blocks]; try (cbn; reflexivity).
    - apply dsafe_fuel_out. exact I.
    - unfold xbind at 1. unfold loc at 1. cbn [dbind].
      apply dsafe_loc_quiet'; [intros g; apply quietG_refl|]. intros g. cbn [snd].
      apply dsafe_xbind. eapply dsafe_weaken; [|apply (spec_move_cells t me b _ 0 l Hs)].
      intros [x|] l1 K; [|exact I]. cbn in K. subst l1.
      unfold xbind at 1. unfold loc at 1. cbn [dbind].
      apply dsafe_loc_quiet'; [intros g1; apply quietG_refl|]. intros g1. now apply IH.
  Qed.

  (** the walk of help_scan over the thread list *)
  Lemma spec_help_recs t me : forall fuel node l, va_scan l = None -> va_help l = None -> va_unpub l = None ->
    va_hold l = Some me -> va_node l = node ->
    dsafeA t (help_recs c fuel me (S t) node) l
      (fun o l' => match o with Some _ => exists nd, l' = with_en l (va_e l) nd | None => True end).
  Proof.
    induction fuel as [|fuel IH]; intros [h|] l Hs Hhp Hu Hh Hn; cbn [help_recs];
      try (cbn; exists (va_node l); symmetry; apply with_en_id).
    - apply dsafe_fuel_out. exact I.
    - (* the common tail: read next_ and go on *)
      assert (Hcont : forall l1, va_scan l1 = None -> va_help l1 = None -> va_unpub l1 = None -> va_hold l1 = Some me ->
                        va_node l1 = Some h -> va_e l1 = va_e l -> (forall nd, with_en l1 (va_e l1) nd = with_en l (va_e l) nd) ->
                        dsafeA t (nx <- loc (fun g => (g, r_next (grec g h))) ;; help_recs c fuel me (S t) nx) l1
                          (fun o l' => match o with Some _ => exists nd, l' = with_en l (va_e l) nd | None => True end)).
      { intros l1 A1 A2 A3 A4 A5 A6 A7. unfold xbind at 1. unfold loc at 1. cbn [dbind].
        apply (dsafe_locread_en t _ _ l1 (fun _ => va_e l1) (fun g => r_next (grec g h))).
        - intros g. reflexivity.
        - intros g a h0 Hv J. split.
          + intros e0 fl E. eapply keep_e; eauto.
          + intros n0 E. eapply after_next_inlist; eauto. eapply keep_node; eauto.
        - intros g. cbn [fst snd].
          eapply dsafe_weaken; [|apply (IH (r_next (grec g h)) (with_en l1 (va_e l1) (r_next (grec g h)))); auto].
          intros [x|] l2 K; [|exact I]. destruct K as (nd & ->). exists nd. cbn. rewrite <- (A7 nd). reflexivity. }
      assert (Hl : dsafeA t (nx <- loc (fun g => (g, r_next (grec g h))) ;; help_recs c fuel me (S t) nx) l
                     (fun o l' => match o with Some _ => exists nd, l' = with_en l (va_e l) nd | None => True end)).
      { apply Hcont; auto. }
      destruct (Nat.eqb h me) eqn:Eme; [exact Hl|]. apply Nat.eqb_neq in Eme.
      unfold xbind at 1. unfold act at 1. cbn [dbind].
      apply dsafe_act_quiet; [apply q_ld_free|]. intros fr. destruct fr; [exact Hl|].
      unfold xbind at 1. unfold act at 1. cbn [dbind].
      apply dsafe_act_quiet; [apply q_ld_tid|]. intros owner. destruct (negb (Nat.eqb owner 0)); [exact Hl|].
      unfold xbind at 1. unfold act at 1. cbn [dbind].
      apply dsafe_act_J; [intros g; unfold a_cas_tid; destruct (Nat.eqb _ 0); apply nodisp_acc|].
      intros g a tr Hv. unfold a_cas_tid. destruct (Nat.eqb (r_tid (grec g h)) 0) eqn:Etid; cbn [fst snd].
      + (* acquired *)
        apply Nat.eqb_eq in Etid.
        exists (upd_aux a t (with_help (with_hold_node l (va_hold l) (Some h)) (Some h)) (bown a)).
        split; [apply frame_upd_aux|]. split.
        * intros _ J. cbn [Conc.tag map acc]. rewrite hist_snoc, hstep_acc.
          assert (Haf : after g (tlist g) h) by (eapply keep_node; eauto).
          assert (Hlt : h < List.length (recs g)).
          { destruct Haf as (S & H1 & H2 & _). eapply rchain_lt; eauto. }
          apply (JA_cas_tid c g a (hist tr) t l h (S (hlen (hist tr))) false (Some h) J Hv Hlt Etid Haf); auto.
          { split; auto. rewrite Hh. congruence. }
          { intros n0 E. inversion E; subst n0. exact Haf. }
        * unfold viewA. rewrite upd_aux_same. set (l1 := with_help (with_hold_node l (va_hold l) (Some h)) (Some h)).
          apply dsafe_neut_seq; [apply quietP_neutP, quietP_act, q_faa_sync|exact I|intros _].
          unfold xbind at 1. unfold loc at 1. cbn [dbind]. apply dsafe_loc_quiet'; [intros g1; apply quietG_refl|]. intros g1. cbn [snd].
          apply dsafe_xbind. eapply dsafe_weaken; [|apply (spec_move_blocks t me h (c_spin c) (r_head (grec g1 h)) l1 Hs)].
          intros [x|] l2 K; [|exact I]. cbn in K. subst l2.
          apply dsafe_neut_seq; [apply quietP_neutP, q_rt_fini|exact I|intros _].
          apply dsafe_neut_seq; [apply quietP_neutP, quietP_act, q_st_free|exact I|intros _].
          unfold xbind at 1. unfold act at 1. cbn [dbind].
          apply dsafe_act_J; [intros g2; apply nodisp_acc|]. intros g2 a2 tr2 Hv2.
          exists (upd_aux a2 t (with_help l1 None) (bown a2)). split; [apply frame_upd_aux|]. split.
          -- intros _ J. cbn [a_st_tid fst snd Conc.tag map acc]. rewrite hist_snoc, hstep_acc.
             eapply (JA_help_rel c g2 a2 (hist tr2) t l1 h); eauto.
          -- unfold viewA. rewrite upd_aux_same. cbn [a_st_tid fst snd].
             apply Hcont; auto. intros nd. unfold l1. clear -Hhp. destruct l; cbn in *; subst; reflexivity.
      + (* the CAS failed *)
        exists a. split; [apply frame_refl|]. split.
        * intros _ J. cbn [Conc.tag map acc]. rewrite hist_snoc, hstep_acc.
          eapply JA_quiet; [apply piA_refl| | | | |exact J]; [unfold hA; cbn; repeat split; auto|reflexivity|reflexivity|apply (ja_slot _ _ _ _ J)].
        * rewrite Hv. cbn [negb]. exact Hl.
  Qed.

  Lemma spec_help_scan t me l : va_scan l = None -> va_help l = None -> va_unpub l = None -> va_hold l = Some me ->
    dsafeA t (help_scan c me (S t)) l (fun o l' => match o with Some _ => exists nd, l' = with_en l (va_e l) nd | None => True end).
  Proof.
    intros Hs Hhp Hu Hh. unfold help_scan.
    unfold xbind at 1. unfold act at 1. cbn [dbind].
    apply (dsafe_load_en c t a_ld_tlist _ l (fun _ => va_e l) (fun g => tlist g)).
    - intros g. cbn. split; auto. repeat constructor.
    - intros g a h Hv J. split.
      + intros e0 fl E. eapply keep_e; eauto.
      + intros n0 E. apply after_head; auto. destruct (ja_list _ _ _ _ J) as (L & HL & _). eauto.
    - intros g. cbn [a_ld_tlist fst snd].
      apply dsafe_xbind. eapply dsafe_weaken; [|apply (spec_help_recs t me (c_spin c) (tlist g) (with_en l (va_e l) (tlist g))); auto].
      intros [x|] l1 K; [|exact I]. destruct K as (nd & ->). cbn [with_en va_e].
      (* the final scan runs with whatever node is left in the view; restore it afterwards *)
      eapply dsafe_weaken; [|apply (spec_scan c t me (with_en l (va_e l) nd)); exact Hs].
      intros [y|] l2 K; [|exact I]. cbn in K. subst l2. exists nd. reflexivity.
  Qed.
End HelpA.
