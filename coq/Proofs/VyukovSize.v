(** * C07 companion: VyukovMPMCCycleQueue empty() and size()  (cds/container/vyukov_mpmc_cycle_queue.h)

    empty():  pos = m_posDequeue.load(); for(;;){ seq = cell(pos)->sequence.load(); dif = seq - (pos+1);
                if (dif == 0) return false;
                else if (dif < 0) { if ( pos - m_posEnqueue.load() == 0 ) return true; }
                bkoff(); pos = m_posDequeue.load(); }
    size():   m_ItemCounter.value();  enqueue_with does ++m_ItemCounter AFTER cell->sequence.store(pos+1),
              dequeue_with does --m_ItemCounter AFTER cell->sequence.store(pos+mask+1); the counter is an
              atomic size_t (wraps modulo 2^64).

    Contents
    1. State lemmas over [RealInv] (the invariant of LV.Proofs.VyukovCore, which holds in every reachable
       configuration: LV.Proofs.VyukovLin.reach_real), for any extension: what the deciding load of empty()
       implies about the state in which it is executed, for a (possibly stale) local position pos <= posDeq.
         [empty_true_state]   the m_posEnqueue load that returns pos: posDeq = posEnq, the abstract queue is [].
         [empty_false_state]  the sequence load that returns pos+1: either pos = posDeq, posDeq < posEnq and
                              the abstract queue is not empty (the head cell is published and unclaimed), or
                              pos < posDeq and some thread is a dequeuer that claimed position pos (its CAS on
                              m_posDequeue succeeded, it has linearized a successful dequeue) and has not yet
                              released the cell.
    2. Computed witnesses (reachable configurations of the model, [Conc.run] under an explicit schedule):
         [empty_false_at_return_refuted]  empty() returns false in a configuration where posDeq = posEnq (the
                              abstract queue is empty), the only enqueue has already returned: "false" is not
                              justified by the state at the deciding load; it is justified only by an earlier
                              instant of the call (just before the dequeuer's CAS).  So empty() has no
                              linearization point among its own steps for the answer false.
         [size_below_zero_refuted]        size() returns 2^64-1 (capacity 2, one enqueue, one dequeue).
         [size_above_capacity_refuted]    size() returns 3 on a queue of capacity 2.
    3. The statements that remain open, as [Definition …_statement : Prop]. *)
From Coq Require Import ZArith List String Bool Lia PeanoNat.
From LV Require Import Base.Conc Base.Events Base.CInt Base.Lin Spec.Specs Model.Vyukov
                       Proofs.VyukovSpec Proofs.VyukovArith Proofs.VyukovCore.
Import ListNotations.
Local Open Scope Z_scope.

(** ** 1. state lemmas *)
Section State.
  Variable k : nat.
  Hypothesis Hk : (1 <= k)%nat.
  Variable sc : option nat.
  Variable e0 : Z.
  Variables X : Type.
  Variable Ext : list Z -> (nat -> status (VQ (2 ^ k))) -> X -> list (nat * ev) -> Prop.

  Notation cap := (2 ^ Z.of_nat k).
  Notation RI := (RealInv k sc e0 X Ext).

  (** empty() answers true: its last access is the load of m_posEnqueue, which returned its local pos *)
  Lemma empty_true_state g (a : Aux X) tr pos :
    RI g a tr -> 0 <= pos <= posD g -> posE g = pos ->
    posD g = posE g /\ absq X a = [].
  Proof.
    intros R Hp HE. destruct (ri_pos k sc e0 X Ext g a tr R) as (A & B & C).
    assert (E : posD g = posE g) by lia. split; [exact E|].
    pose proof (ri_len k sc e0 X Ext g a tr R) as Hl.
    destruct (absq X a) as [|x r] eqn:Eq; [reflexivity|exfalso; cbn [Datatypes.length] in Hl; lia].
  Qed.

  (** empty() answers false: its last access is the load of cell(pos)->sequence, which returned pos+1 *)
  Lemma empty_false_state g (a : Aux X) tr pos :
    RI g a tr -> 0 <= pos <= posD g -> seqs g (cell k pos) = pos + 1 ->
    (pos = posD g /\ posD g < posE g /\ absq X a <> []) \/
    (pos < posD g /\ posD g <= pos + cap /\ exists w pk v, ph X a w = DeqClaimed pk pos v).
  Proof.
    intros R Hp Hs. destruct (ri_pos k sc e0 X Ext g a tr R) as (A & B & C).
    pose proof (cap_ge2 k Hk) as C2.
    destruct (Z.eq_dec pos (posD g)) as [E|N].
    - left. split; [exact E|]. subst pos.
      assert (L : posD g < posE g).
      { destruct (Z_lt_ge_dec (posD g) (posE g)) as [L|L]; [exact L|exfalso].
        destruct (ri_free k sc e0 X Ext g a tr R (posD g) ltac:(lia)) as [H|[H _]]; lia. }
      split; [exact L|].
      pose proof (ri_len k sc e0 X Ext g a tr R) as Hl.
      intros Q. rewrite Q in Hl. cbn [Datatypes.length] in Hl. lia.
    - right. assert (L : pos < posD g) by lia. split; [exact L|].
      set (p' := posD g + (pos - posD g) mod cap).
      assert (Hm : 0 <= (pos - posD g) mod cap < cap) by (apply Z.mod_pos_bound; lia).
      assert (Hc : cell k p' = cell k pos).
      { unfold cell, p'. rewrite Zplus_mod_idemp_r. f_equal. lia. }
      assert (Hne1 : p' <> pos + 1).
      { intros Q. assert (F : cell k (pos + 1) <> cell k pos) by (apply (cell_neq k Hk); lia).
        apply F. rewrite <- Q. exact Hc. }
      destruct (Z_lt_ge_dec p' (posE g)) as [U|U].
      + exfalso. destruct (ri_used k sc e0 X Ext g a tr R p' ltac:(unfold p'; lia)) as [H|[H _]];
          rewrite Hc, Hs in H; unfold p' in *; lia.
      + destruct (ri_free k sc e0 X Ext g a tr R p' ltac:(unfold p'; lia)) as [H|[H (w & pk & v & Hw)]];
          rewrite Hc, Hs in H; [exfalso; unfold p' in *; lia|].
        assert (Ep : p' - cap = pos) by lia. rewrite Ep in Hw.
        split; [unfold p' in *; lia|]. exists w, pk, v. exact Hw.
  Qed.
End State.

(** ** 2. computed witnesses *)
Definition rep (n : nat) (t : nat) : list nat := repeat t n.

Definition ends_with (tr : list (nat * ev)) (e : nat * ev) : Prop := exists tr0, tr = tr0 ++ [e].

(** capacity 2, no item counter; thread 0: empty(); thread 1: enqueue(5); thread 2: dequeue().
    schedule: T0 begin, load posDeq (=0) | T1 complete enqueue | T2 begin, D1, D2, D3 (claims position 0, has not
    stored the cell's sequence yet) | T0 loads cell(0).sequence = 1 = pos+1 and returns false. *)
Definition wit_empty_cfg : Conc.config G V ev :=
  fst (Conc.run 12 0 (rep 2 0 ++ rep 5 1 ++ rep 4 2 ++ rep 1 0)%nat
         (init_cfg (mkQ 2 false) 4 [[OEmpty]; [OEnq 5]; [ODeq]])).

Lemma empty_false_at_return_refuted :
  exists ths sched c,
    c = fst (Conc.run 12 0 sched (init_cfg (mkQ 2 false) 4 ths)) /\
    Conc.reach (init_cfg (mkQ 2 false) 4 ths) c /\
    ends_with (Conc.trace c) (0%nat, EvCli "ret_empty" [0]) /\
    posD (Conc.shared c) = posE (Conc.shared c) /\
    In (1%nat, EvCli "ret_enq" [1]) (Conc.trace c) /\
    ~ In (2%nat, EvCli "ret_deq" [1; 5]) (Conc.trace c).
Proof.
  exists [[OEmpty]; [OEnq 5]; [ODeq]], (rep 2 0 ++ rep 5 1 ++ rep 4 2 ++ rep 1 0)%nat, wit_empty_cfg.
  split; [reflexivity|]. split; [apply Conc.run_reach|].
  split; [match goal with |- ends_with ?t _ => exists (removelast t) end; vm_compute; reflexivity|].
  split; [vm_compute; reflexivity|].
  split; [vm_compute; tauto|].
  vm_compute. intros H. repeat (destruct H as [H|H]; [discriminate H|]). exact H.
Qed.

(** capacity 2, item counter on; thread 0: enqueue(7) stalled between E6 (publish) and E7 (++counter);
    thread 1: a complete dequeue (--counter: 0 -> 2^64-1); thread 2: size() *)
Definition wit_size_lo_cfg : Conc.config G V ev :=
  fst (Conc.run 13 0 (rep 5 0 ++ rep 6 1 ++ rep 2 2)%nat
         (init_cfg (mkQ 2 true) 4 [[OEnq 7]; [ODeq]; [OSize]])).

Lemma size_below_zero_refuted :
  exists ths sched c,
    c = fst (Conc.run 13 0 sched (init_cfg (mkQ 2 true) 4 ths)) /\
    Conc.reach (init_cfg (mkQ 2 true) 4 ths) c /\
    ends_with (Conc.trace c) (2%nat, EvCli "ret_size" [2 ^ 64 - 1]) /\
    posE (Conc.shared c) - posD (Conc.shared c) = 0.
Proof.
  exists [[OEnq 7]; [ODeq]; [OSize]], (rep 5 0 ++ rep 6 1 ++ rep 2 2)%nat, wit_size_lo_cfg.
  split; [reflexivity|]. split; [apply Conc.run_reach|].
  split; [match goal with |- ends_with ?t _ => exists (removelast t) end; vm_compute; reflexivity|vm_compute; reflexivity].
Qed.

(** capacity 2, item counter on; thread 0: enqueue(1), enqueue(2) (counter 2); thread 1: dequeue stalled between
    D6 (release of the cell) and D7 (--counter); thread 0: enqueue(3) into the released cell (counter 3);
    thread 2: size() = 3 > capacity, while the queue holds 2 items *)
Definition wit_size_hi_cfg : Conc.config G V ev :=
  fst (Conc.run 23 0 (rep 11 0 ++ rep 5 1 ++ rep 5 0 ++ rep 2 2)%nat
         (init_cfg (mkQ 2 true) 4 [[OEnq 1; OEnq 2; OEnq 3]; [ODeq]; [OSize]])).

Lemma size_above_capacity_refuted :
  exists ths sched c,
    c = fst (Conc.run 23 0 sched (init_cfg (mkQ 2 true) 4 ths)) /\
    Conc.reach (init_cfg (mkQ 2 true) 4 ths) c /\
    ends_with (Conc.trace c) (2%nat, EvCli "ret_size" [3]) /\
    qcap (mkQ 2 true) = 2 /\
    posE (Conc.shared c) - posD (Conc.shared c) = 2.
Proof.
  exists [[OEnq 1; OEnq 2; OEnq 3]; [ODeq]; [OSize]], (rep 11 0 ++ rep 5 1 ++ rep 5 0 ++ rep 2 2)%nat, wit_size_hi_cfg.
  split; [reflexivity|]. split; [apply Conc.run_reach|].
  split; [match goal with |- ends_with ?t _ => exists (removelast t) end; vm_compute; reflexivity|]. split; vm_compute; reflexivity.
Qed.

(** ** reach-level form of the state lemmas, for the C07 instance (LV.Proofs.VyukovLin): in EVERY reachable
       configuration (any schedule, any programs) there is a valid LP-annotated trace [atr] of the history with
       abstract queue [qs] (the one of the C07 linearizability theorems), and a phase map [P], such that whichever
       thread executes the deciding load of empty() in that configuration with a local position pos <= posDeq
       (the model keeps 0 <= pos <= posDeq for the local of empty(): [phase_ok] of [EmPos]):
       - "true"  (m_posEnqueue = pos)            ==> qs = [] and posDeq = posEnq;
       - "false" (cell(pos).sequence = pos + 1)  ==> qs <> [] with pos = posDeq < posEnq, or pos < posDeq and a
                                                     thread w sits between the CAS (linearization point) and
                                                     the release store of a successful dequeue of position pos *)
From LV Require Import Proofs.VyukovLin Proofs.VyukovTheorems.

Theorem empty_decision_reach (k : nat) (q : qcfg) (fuel : nat) (ths : list (list op)) (sc : option nat)
        (mp : bool) c :
  (1 <= k)%nat -> qcap q = 2 ^ Z.of_nat k -> programs_allowed sc mp ths ->
  Conc.reach (init_cfg q fuel ths) c -> claims_bound k (Conc.trace c) ->
  let g := Conc.shared c in
  exists (atr : list (aev (VQ (2 ^ k)))) (qs : list Z) (P : nat -> phase),
    lp_valid (VQ (2 ^ k)) atr /\ erase atr = hist (2 ^ k) (Conc.trace c) /\
    (exists S, @lp_run (VQ (2 ^ k)) lp_init atr = Some (qs, S)) /\
    Z.of_nat (Datatypes.length qs) = posE g - posD g /\
    (forall pos, 0 <= pos <= posD g -> posE g = pos -> posD g = posE g /\ qs = []) /\
    (forall pos, 0 <= pos <= posD g -> seqs g (cell k pos) = pos + 1 ->
       (pos = posD g /\ posD g < posE g /\ qs <> []) \/
       (pos < posD g /\ posD g <= pos + 2 ^ Z.of_nat k /\ exists w pk v, P w = DeqClaimed pk pos v)).
Proof.
  intros Hk Hq Hal Hr Hb g.
  destruct (reach_real k Hk q Hq sc mp fuel ths c Hal Hr (claims_bound_core k _ Hb)) as (a & R).
  destruct (ri_ext _ _ _ _ _ _ _ _ R) as ((S & E1 & E1') & E2 & E3 & E4).
  exists (ext _ a), (absq _ a), (ph _ a). repeat split.
  - exists (absq _ a, S). exact E1.
  - exact E2.
  - exists S. exact E1.
  - exact (ri_len _ _ _ _ _ _ _ _ R).
  - eapply empty_true_state; eauto.
  - eapply empty_true_state; eauto.
  - intros pos Hp Hs. eapply empty_false_state; eauto.
Qed.

(** ** 3. the during-the-call form, and what remains open

    [empty_observer_statement] below is the during-the-call form phrased with configurations: for every completed
    empty() call there is a reachable configuration c1 on the way, inside the call, whose abstract queue is empty
    iff the answer is true.  It is PROVED in LV.Proofs.VyukovSizeObs ([empty_observer], [alen_reach]) in the
    equivalent trace form: the instant is a prefix [tra] of the trace after which the calling thread produced no
    client event before its ret_empty, and the abstract queue length at [tra] is
    [alen tra] = #successful CAS on m_posEnqueue - #successful CAS on m_posDequeue in [tra]
    (= posEnq - posDeq = length of the abstract queue of the linearization, in every reachable configuration).
      b = 1: the instant is the deciding m_posEnqueue load ([empty_true_state]);
      b = 0, pos = posDeq at the deciding sequence load: that instant ([empty_false_state], left);
      b = 0, pos < posDeq: m_posDequeue was pos when this iteration of empty() loaded it, so a dequeuer's
             successful CAS pos -> pos+1 lies inside the call; the instant just before it has posDeq < posEnq.
    Hence the history extended with empty() results is linearizable to the bounded FIFO with an [empty]
    observer (a read-only operation may be inserted at its instant), but the answer "false" needs a
    linearization point in another thread's step (helping).  Not formalised: the configuration form below (the
    proof rule [Conc.safe] speaks about traces, not about the configurations on the way) and the insertion of
    the observer into the LP-annotated trace of LV.Base.Lin. *)
Definition in_call0 (t : nat) (trb : list (nat * ev)) : Prop :=
  forall e, In (t, e) trb -> match e with EvCli n _ => n = "val"%string | _ => True end.

Definition empty_observer_statement : Prop :=
  forall (k : nat) (q : qcfg) (fuel : nat) (ths : list (list op)) (sc : option nat) (mp : bool) c t b tr1 tr2,
    (1 <= k)%nat -> qcap q = 2 ^ Z.of_nat k -> programs_allowed sc mp ths ->
    Conc.reach (init_cfg q fuel ths) c -> claims_bound k (Conc.trace c) ->
    Conc.trace c = tr1 ++ (t, EvCli "ret_empty" [b]) :: tr2 ->
    exists c1 tra trb,
      Conc.reach (init_cfg q fuel ths) c1 /\ Conc.reach c1 c /\
      Conc.trace c1 = tra /\ tr1 ++ [(t, EvCli "ret_empty" [b])] = tra ++ trb /\ in_call0 t (removelast trb) /\
      (b = 1 -> posD (Conc.shared c1) = posE (Conc.shared c1)) /\
      (b = 0 -> posD (Conc.shared c1) < posE (Conc.shared c1)).

(** size(): with [M] = number of threads, in every reachable configuration
      posEnq - posDeq - M <= signed(m_ItemCounter) <= posEnq - posDeq + M,
    and m_ItemCounter = posEnq - posDeq when no enqueue is between E3 and E7 and no dequeue between D3 and D7.
    Not proved: [enq_finish]/[deq_finish] of VyukovCore carry no ghost for the counter step ([ri_cnt] keeps the
    auxiliary state unchanged).  The two-sided slack is tight in both directions by the witnesses above. *)
Definition size_slack_statement : Prop :=
  forall (k : nat) (q : qcfg) (fuel : nat) (ths : list (list op)) (sc : option nat) (mp : bool) c,
    (1 <= k)%nat -> qcap q = 2 ^ Z.of_nat k -> qcount q = true -> programs_allowed sc mp ths ->
    Conc.reach (init_cfg q fuel ths) c -> claims_bound k (Conc.trace c) ->
    let g := Conc.shared c in
    let n := Z.of_nat (Datatypes.length ths) in
    posE g - posD g - n <= cast i64 (cnt g) <= posE g - posD g + n.
