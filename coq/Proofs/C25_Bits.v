(** * C25_Bits — bit-level vocabulary and tactics used by the C25 proofs.

    - [rev w x]: the reference bit reversal of the low [w] bits of [x], characterised by [rev_spec]
      ([testbit (rev w x) i = testbit x (w-1-i)] for [0 <= i < w]), [rev_range] and [rev_unique].
    - [popcount w x], [eq_by_bits], range lemmas for the bitwise operations.
    - [bits_cases]: proves a bit-equation for every index of a concrete width by enumerating the indices
      and evaluating the mask constants.                                                             *)

Require Import ZArith Lia Bool List.
Require Import LV.Base.CInt.
Import ListNotations.
Local Open Scope Z_scope.

(** ** Ranges from bits *)

Lemma testbit_high a n i : 0 <= a < 2 ^ n -> 0 <= n <= i -> Z.testbit a i = false.
Proof.
  intros Ha Hi. destruct (Z.eq_dec a 0) as [->|Hz]; [apply Z.bits_0|].
  apply Z.bits_above_log2; [lia|].
  assert (Z.log2 a < n) by (apply Z.log2_lt_pow2; lia). lia.
Qed.

Lemma bits_range a n : 0 <= n -> 0 <= a -> (forall i, n <= i -> Z.testbit a i = false) -> a < 2 ^ n.
Proof.
  intros Hn Ha H. destruct (Z.eq_dec a 0) as [->|Hz]; [apply pow2_pos; lia|].
  apply Z.log2_lt_pow2; [lia|].
  destruct (Z_lt_le_dec (Z.log2 a) n) as [|Hge]; [assumption|].
  specialize (H _ Hge). rewrite Z.bit_log2 in H by lia. discriminate.
Qed.

Lemma eq_by_bits w a b :
  0 <= w -> 0 <= a < 2 ^ w -> 0 <= b < 2 ^ w ->
  (forall i, 0 <= i < w -> Z.testbit a i = Z.testbit b i) -> a = b.
Proof.
  intros Hw Ha Hb H. apply Z.bits_inj'. intros i Hi.
  destruct (Z_lt_le_dec i w).
  - apply H; lia.
  - rewrite (testbit_high a w i), (testbit_high b w i); auto; lia.
Qed.

Lemma land_range a b w : 0 <= w -> 0 <= a -> 0 <= b < 2 ^ w -> 0 <= Z.land a b < 2 ^ w.
Proof.
  intros Hw Ha Hb. assert (0 <= Z.land a b) by (apply Z.land_nonneg; lia). split; [assumption|].
  apply bits_range; auto. intros i Hi. rewrite Z.land_spec, (testbit_high b w i), andb_false_r; auto; lia.
Qed.

Lemma land_range_l a b w : 0 <= w -> 0 <= a < 2 ^ w -> 0 <= b -> 0 <= Z.land a b < 2 ^ w.
Proof. intros. rewrite Z.land_comm. apply land_range; auto. Qed.

Lemma lor_range a b w : 0 <= w -> 0 <= a < 2 ^ w -> 0 <= b < 2 ^ w -> 0 <= Z.lor a b < 2 ^ w.
Proof.
  intros Hw Ha Hb. assert (0 <= Z.lor a b) by (apply Z.lor_nonneg; lia). split; [assumption|].
  apply bits_range; auto. intros i Hi.
  rewrite Z.lor_spec, (testbit_high a w i), (testbit_high b w i); auto; lia.
Qed.

Lemma lxor_range a b w : 0 <= w -> 0 <= a < 2 ^ w -> 0 <= b < 2 ^ w -> 0 <= Z.lxor a b < 2 ^ w.
Proof.
  intros Hw Ha Hb. assert (0 <= Z.lxor a b) by (apply Z.lxor_nonneg; lia). split; [assumption|].
  apply bits_range; auto. intros i Hi.
  rewrite Z.lxor_spec, (testbit_high a w i), (testbit_high b w i); auto; lia.
Qed.

Lemma shiftr_range a n w : 0 <= n -> 0 <= a < 2 ^ w -> 0 <= Z.shiftr a n < 2 ^ w.
Proof.
  intros Hn Ha. rewrite Z.shiftr_div_pow2 by lia.
  assert (0 < 2 ^ n) by (apply pow2_pos; lia).
  split; [apply Z.div_pos; lia|].
  apply Z.le_lt_trans with a; [|lia]. apply Z.div_le_upper_bound; [lia|]. assert (1 <= 2 ^ n) by lia. nia.
Qed.

Lemma mod_range a w : 0 <= w -> 0 <= a mod 2 ^ w < 2 ^ w.
Proof. intros. apply Z.mod_pos_bound, pow2_pos; lia. Qed.

Lemma shiftl_nonneg' a n : 0 <= a -> 0 <= Z.shiftl a n.
Proof. intros. now apply Z.shiftl_nonneg. Qed.

(** ** The reference bit reversal *)

Fixpoint rev_nat (n : nat) (x : Z) : Z :=
  match n with
  | O => 0
  | S n' => Z.lor (Z.shiftl (Z.b2z (Z.testbit x 0)) (Z.of_nat n')) (rev_nat n' (Z.shiftr x 1))
  end.

Definition rev (w x : Z) : Z := rev_nat (Z.to_nat w) x.

Lemma rev_nat_nonneg n x : 0 <= rev_nat n x.
Proof.
  revert x. induction n; intros; cbn [rev_nat]; [lia|].
  apply Z.lor_nonneg. split; [|apply IHn]. apply Z.shiftl_nonneg. destruct (Z.testbit x 0); cbn [Z.b2z]; lia.
Qed.

Lemma b2z_testbit b i : 0 <= i -> Z.testbit (Z.b2z b) i = b && (i =? 0).
Proof.
  intros Hi. destruct (Z.eqb_spec i 0) as [->|Hn].
  - rewrite Z.b2z_bit0. now rewrite andb_true_r.
  - rewrite andb_false_r. destruct b; simpl; [|apply Z.bits_0].
    apply (testbit_high 1 1 i); lia.
Qed.

Lemma rev_nat_bits n x i :
  0 <= i -> Z.testbit (rev_nat n x) i = if i <? Z.of_nat n then Z.testbit x (Z.of_nat n - 1 - i) else false.
Proof.
  revert x i. induction n; intros x i Hi.
  - cbn [rev_nat Z.of_nat]. rewrite Z.bits_0. destruct (Z.ltb_spec i 0); [lia|reflexivity].
  - cbn [rev_nat]. rewrite Z.lor_spec, Z.shiftl_spec by lia. rewrite IHn by lia.
    destruct (Z.ltb_spec i (Z.of_nat n)); destruct (Z.ltb_spec i (Z.of_nat (S n))); try lia.
    + rewrite Z.shiftr_spec by lia. rewrite (Z.testbit_neg_r _ (i - Z.of_nat n)) by lia. rewrite orb_false_l. f_equal. lia.
    + assert (i = Z.of_nat n) as -> by lia. rewrite Z.sub_diag, Z.b2z_bit0, orb_false_r. f_equal. lia.
    + rewrite b2z_testbit by lia. replace (i - Z.of_nat n =? 0) with false by (symmetry; apply Z.eqb_neq; lia).
      now rewrite andb_false_r.
Qed.

Lemma rev_spec w x i : 0 <= i < w -> Z.testbit (rev w x) i = Z.testbit x (w - 1 - i).
Proof.
  intros H. unfold rev. rewrite rev_nat_bits by lia. rewrite Z2Nat.id by lia.
  replace (i <? w) with true by (symmetry; apply Z.ltb_lt; lia). reflexivity.
Qed.

Lemma rev_range w x : 0 <= w -> 0 <= rev w x < 2 ^ w.
Proof.
  intros Hw. unfold rev. split; [apply rev_nat_nonneg|].
  apply bits_range; [lia|apply rev_nat_nonneg|]. intros i Hi.
  rewrite rev_nat_bits by lia. rewrite Z2Nat.id by lia.
  replace (i <? w) with false by (symmetry; apply Z.ltb_ge; lia). reflexivity.
Qed.

Lemma rev_bits_high w x i : 0 <= w <= i -> Z.testbit (rev w x) i = false.
Proof. intros H. apply (testbit_high _ w); [apply rev_range|]; lia. Qed.

Lemma rev_unique w x y :
  0 <= w -> 0 <= y < 2 ^ w -> (forall i, 0 <= i < w -> Z.testbit y i = Z.testbit x (w - 1 - i)) -> y = rev w x.
Proof.
  intros Hw Hy H. apply (eq_by_bits w); auto using rev_range.
  intros i Hi. rewrite rev_spec by lia. auto.
Qed.

Lemma rev_involutive w x : 0 <= w -> 0 <= x < 2 ^ w -> rev w (rev w x) = x.
Proof.
  intros Hw Hx. symmetry. apply rev_unique; auto.
  intros i Hi. rewrite rev_spec by lia. f_equal. lia.
Qed.

Lemma rev_mod w x : 0 <= w -> rev w (x mod 2 ^ w) = rev w x.
Proof.
  intros Hw. apply rev_unique; auto using rev_range.
  intros i Hi. rewrite rev_spec by lia. rewrite Z.mod_pow2_bits_low by lia. reflexivity.
Qed.

(** ** Population count *)

Fixpoint popcount_nat (n : nat) (x : Z) : Z :=
  match n with
  | O => 0
  | S n' => Z.b2z (Z.testbit x 0) + popcount_nat n' (Z.shiftr x 1)
  end.

Definition popcount (w x : Z) : Z := popcount_nat (Z.to_nat w) x.

Lemma popcount_nat_range n x : 0 <= popcount_nat n x <= Z.of_nat n.
Proof.
  revert x. induction n; intros x; [simpl; lia|].
  cbn [popcount_nat]. specialize (IHn (Z.shiftr x 1)). destruct (Z.testbit x 0); simpl Z.b2z; lia.
Qed.

(** ** Enumerating the indices of a concrete width *)

Lemma Zrange_cases (P : Z -> Prop) (n : nat) :
  (forall k, (k < n)%nat -> P (Z.of_nat k)) -> forall i, 0 <= i < Z.of_nat n -> P i.
Proof. intros H i Hi. rewrite <- (Z2Nat.id i) by lia. apply H. lia. Qed.

(** Normalisation of closed indices and of test bits of closed constants. *)
Ltac is_Zlit k :=
  lazymatch k with
  | Z0 => idtac
  | Zpos ?p => let p' := eval vm_compute in p in constr_eq p p'
  | Zneg ?p => let p' := eval vm_compute in p in constr_eq p p'
  end.

Ltac norm_testbits :=
  repeat match goal with
  | |- context [Z.testbit ?a ?k] =>
      tryif is_Zlit k then fail else
      (let v := eval vm_compute in k in
       progress change (Z.testbit a k) with (Z.testbit a v))
  end;
  repeat match goal with
  | |- context [Z.testbit ?a (Zneg ?p)] => change (Z.testbit a (Zneg p)) with false
  end;
  repeat match goal with
  | |- context [Z.testbit ?a ?k] =>
      is_Zlit a; is_Zlit k;
      let v := eval vm_compute in (Z.testbit a k) in
      change (Z.testbit a k) with v
  end.

Ltac bits_rewrite :=
  repeat first
    [ rewrite Z.lor_spec | rewrite Z.land_spec | rewrite Z.lxor_spec
    | rewrite Z.shiftr_spec by lia
    | rewrite Z.shiftl_spec by lia
    | rewrite Z.mod_pow2_bits_low by lia
    | rewrite rev_spec by lia
    | rewrite rev_bits_high by lia ].

Ltac bool_simpl :=
  repeat first
    [ rewrite andb_true_r | rewrite andb_false_r | rewrite orb_false_r | rewrite orb_false_l
    | rewrite andb_true_l | rewrite andb_false_l | rewrite orb_true_r | rewrite orb_true_l
    | rewrite xorb_false_r | rewrite xorb_false_l ].

(** Solve [forall i, 0 <= i < W -> Q i] for a literal W by enumeration; [tac] closes each case. *)
Lemma range_step (P : Z -> Prop) lo hi :
  P lo -> (forall i, lo + 1 <= i < hi -> P i) -> forall i, lo <= i < hi -> P i.
Proof. intros H0 H i Hi. destruct (Z.eq_dec i lo) as [->|]; [assumption|apply H; lia]. Qed.

Lemma range_nil (P : Z -> Prop) lo hi : hi <= lo -> forall i, lo <= i < hi -> P i.
Proof. intros; lia. Qed.

(** Goal [forall i, lo <= i < hi -> Q i] with literal bounds: one subgoal per index, closed by [tac]. *)
Ltac enum_Z tac :=
  lazymatch goal with
  | |- forall i, ?lo <= i < ?hi -> _ =>
      first [ apply range_nil; lia
            | apply range_step;
              [ tac
              | let v := eval vm_compute in (lo + 1) in change (lo + 1) with v; enum_Z tac ] ]
  end.

Ltac enum_index n tac := enum_Z tac.

Ltac bit_case :=
  cbn [Z.of_nat Pos.of_succ_nat Pos.succ];
  repeat (progress (bits_rewrite; norm_testbits; bool_simpl));
  try reflexivity.

(** ** Block swaps: a SWAR stage exchanges adjacent 2^j-bit blocks *)

Definition bswap_spec (w j x y : Z) : Prop :=
  0 <= y < 2 ^ w /\ forall i, 0 <= i < w -> Z.testbit y i = Z.testbit x (Z.lxor i (2 ^ j)).

(** Exhaustive checks over a finite domain. *)
Definition zrange (n : nat) : list Z := map Z.of_nat (seq 0 n).

Lemma zrange_in n x : 0 <= x < Z.of_nat n -> In x (zrange n).
Proof.
  intros H. unfold zrange. apply in_map_iff. exists (Z.to_nat x). split; [lia|].
  apply in_seq. lia.
Qed.

Lemma forallb_zrange (f : Z -> bool) n :
  forallb f (zrange n) = true -> forall x, 0 <= x < Z.of_nat n -> f x = true.
Proof. intros H x Hx. rewrite forallb_forall in H. apply H, zrange_in, Hx. Qed.

(** ** Running the error monad of generated code *)

Lemma cast_u8 x : cast u8 x = x mod 2 ^ 8.   Proof. reflexivity. Qed.
Lemma cast_u16 x : cast u16 x = x mod 2 ^ 16. Proof. reflexivity. Qed.
Lemma cast_u32 x : cast u32 x = x mod 2 ^ 32. Proof. reflexivity. Qed.
Lemma cast_u64 x : cast u64 x = x mod 2 ^ 64. Proof. reflexivity. Qed.

Lemma in_range_i32 x : -2147483648 <= x <= 2147483647 -> in_range i32 x.
Proof. intros H. unfold in_range. change (imin i32) with (-2147483648). change (imax i32) with 2147483647. exact H. Qed.
Lemma in_range_i64 x : -9223372036854775808 <= x <= 9223372036854775807 -> in_range i64 x.
Proof. intros H. unfold in_range. change (imin i64) with (-9223372036854775808). change (imax i64) with 9223372036854775807. exact H. Qed.
Lemma sadd_i32 a b : -2147483648 <= a + b <= 2147483647 -> sadd i32 a b = Some (a + b).
Proof. intros. apply checked_some, in_range_i32. assumption. Qed.
Lemma ssub_i32 a b : -2147483648 <= a - b <= 2147483647 -> ssub i32 a b = Some (a - b).
Proof. intros. apply checked_some, in_range_i32. assumption. Qed.
Lemma ssub_i64 a b : -9223372036854775808 <= a - b <= 9223372036854775807 -> ssub i64 a b = Some (a - b).
Proof. intros. apply checked_some, in_range_i64. assumption. Qed.

(** One step: the head of the goal is a bind of a shift with a legal literal count, or of a value. *)
Ltac monad_step :=
  lazymatch goal with
  | |- obind (c_shr ?t ?a ?n) _ = _ => rewrite (c_shr_ok t a n) by reflexivity; cbn [obind]
  | |- obind (c_shl ?t ?a ?n) _ = _ => rewrite (c_shl_u_ok t a n) by reflexivity; cbn [obind]
  | |- obind (Some _) _ = _ => cbn [obind]
  | |- (let _ := _ in _) = _ => cbv zeta
  end.
Ltac monad_run := repeat monad_step.

(** [rev] and [popcount] are used through their specifications ([vm_compute] still evaluates them). *)
Global Opaque rev popcount.
