(** * WeakRingBuffer<T> is an exact SPSC FIFO ACROSS THE WRAP of its uint64_t counters, provided the capacity
      divides 2^64 (a power of two <= 2^63): for every schedule, every client program, every start offset.

    The invariant of LV.Proofs.RingProofs with GHOST UNBOUNDED counters.  The ring starts after [s] elements went
    through it (LV.Model.RingWrap.init_cfg_at).  Ghost values, all unbounded integers counted from the start
    of the run:
        B  = |pushed_of tr|   (held in the producer's view),   F  = |popped_of tr|   (consumer's view),
        PF = the value of F the producer last saw,              CB = the value of B the consumer last saw,
    tied to the concrete uint64_t state by
        back_ = u64 (s + B),  front_ = u64 (s + F),  pfront_ = u64 (s + PF),  cback_ = u64 (s + CB).
    The window  0 <= PF <= F <= CB <= B <= PF + cap  is exactly that of RingProofs; it makes every difference
    the code computes modulo 2^64 equal to the ghost difference ([space_w], [avail_w]).  The element with
    ghost position i lives in cell (s + i) mod cap, and  idx (u64 x) = x mod cap  because cap divides 2^64
    ([idx_u64]): the index map is continuous across the wrap.

    The history predicate [Phi], [pushed_of], [popped_of], [qsize] are those of RingProofs (they are
    offset-free). *)
From Coq Require Import ZArith List String Bool Lia PeanoNat Znumtheory.
From LV Require Import Base.Conc Base.Events Model.Ring Model.RingWrap Proofs.RingBase Proofs.RingProofs.
Import ListNotations.
Local Open Scope Z_scope.

Lemma init_cfg_at_0 exp2 cap pos cos : init_cfg_at exp2 cap 0 pos cos = Ring.init_cfg exp2 cap pos cos.
Proof. reflexivity. Qed.

(** ** capacity predicate: [cap_ok], at most 2^63, and a divisor of 2^64 *)
Definition cap_wrap_ok (exp2 : bool) (cap : Z) : bool :=
  cap_ok exp2 cap && Z.leb cap (2 ^ 63) && Z.eqb (two64 mod cap) 0.

(** ** arithmetic modulo 2^64 *)
Lemma u64_range x : 0 <= u64 x < two64.
Proof. unfold u64. apply Z.mod_pos_bound. apply two64_pos. Qed.

Lemma u64_add_l x n : u64 (u64 x + n) = u64 (x + n).
Proof. unfold u64. apply Zplus_mod_idemp_l. Qed.

Lemma u64_diff a b : u64 (u64 a - u64 b) = u64 (a - b).
Proof. unfold u64. rewrite Zminus_mod_idemp_r, Zminus_mod_idemp_l. reflexivity. Qed.

Lemma u64_space a c b : u64 (u64 a + c - u64 b) = u64 (a + c - b).
Proof.
  unfold u64. rewrite Zminus_mod_idemp_r.
  replace (a mod two64 + c - b) with (a mod two64 + (c - b)) by lia.
  rewrite Zplus_mod_idemp_l. f_equal. lia.
Qed.

(** the modular difference of two counters inside a window is exact *)
Lemma avail_w s cb f : 0 <= cb - f < two64 -> u64 (u64 (s + cb) - u64 (s + f)) = cb - f.
Proof. intros H. rewrite u64_diff. replace (s + cb - (s + f)) with (cb - f) by lia. apply u64_small. exact H. Qed.

Lemma space_w s pf c b : 0 <= pf + c - b < two64 -> u64 (u64 (s + pf) + c - u64 (s + b)) = pf + c - b.
Proof.
  intros H. rewrite u64_space. replace (s + pf + c - (s + b)) with (pf + c - b) by lia. apply u64_small. exact H.
Qed.

Inductive wphase := WIdle | WWrote (vals : list Z) | WHold (vals : list Z).
(** thread-local ghost knowledge: [w_loc] = ghost pfront_ / cback_, [w_mine] = ghost value of the counter this
    thread owns (back_ / front_), both unbounded and counted from the start of the run *)
Record wview := mkW { w_loc : Z; w_mine : Z; w_ph : wphase }.
Record WAux := mkWA { wp : wview; wc : wview }.
Definition wvw (a : WAux) (t : nat) : wview :=
  match t with O => wp a | S O => wc a | _ => mkW 0 0 WIdle end.

Section RingW.
  Variables (exp2 : bool) (cap s : Z).
  Hypothesis Hw : cap_wrap_ok exp2 cap = true.

  Lemma Hcap : cap_ok exp2 cap = true.
  Proof. pose proof Hw as H0. unfold cap_wrap_ok in H0. apply andb_prop in H0. destruct H0 as [H _]. apply andb_prop in H. tauto. Qed.

  Lemma cap_pos : 1 <= cap.
  Proof.
    pose proof Hcap as H. unfold cap_ok in H. apply andb_prop in H. destruct H as [H _]. apply Z.leb_le in H. exact H.
  Qed.

  Lemma cap_small : cap < two64.
  Proof.
    pose proof Hw as H0. unfold cap_wrap_ok in H0. apply andb_prop in H0. destruct H0 as [H _]. apply andb_prop in H.
    destruct H as [_ H]. apply Z.leb_le in H. unfold two64. lia.
  Qed.

  Lemma cap_div : (cap | two64).
  Proof.
    pose proof Hw as H0. unfold cap_wrap_ok in H0. apply andb_prop in H0. destruct H0 as [_ H]. apply Z.eqb_eq in H.
    apply Z.mod_divide; [pose proof cap_pos; lia|exact H].
  Qed.

  (** buffer_.mod is continuous across the wrap *)
  Lemma idx_u64 x : idx exp2 cap (u64 x) = x mod cap.
  Proof.
    rewrite idx_mod; [|exact Hcap|apply u64_range].
    unfold u64. symmetry. apply Zmod_div_mod; [pose proof cap_pos; lia|apply two64_pos|apply cap_div].
  Qed.

  Lemma cell_inj x y : Z.abs (x - y) < cap -> x <> y -> x mod cap <> y mod cap.
  Proof. intros Hd Hne He. apply Hne. eapply mod_inj_window; eauto. pose proof cap_pos. lia. Qed.

  Record Inv (g : G) (a : WAux) (tr : list (nat * ev)) : Prop := mkInv {
    i_gb : g_back g = u64 (s + w_mine (wp a));
    i_gf : g_front g = u64 (s + w_mine (wc a));
    i_chain : 0 <= w_loc (wp a) /\ w_loc (wp a) <= w_mine (wc a) /\ w_mine (wc a) <= w_loc (wc a) /\
              w_loc (wc a) <= w_mine (wp a) /\ w_mine (wp a) <= w_loc (wp a) + cap;
    i_lenP : zlen (pushed_of tr) = w_mine (wp a);
    i_lenQ : zlen (popped_of tr) = w_mine (wc a);
    i_pre : forall i, 0 <= i < w_mine (wc a) -> znth (popped_of tr) i = znth (pushed_of tr) i;
    i_cells : forall i, w_mine (wc a) <= i < w_mine (wp a) ->
                znth (pushed_of tr) i = Some (g_cells g ((s + i) mod cap));
    i_pw : forall vals, w_ph (wp a) = WWrote vals ->
             w_mine (wp a) + zlen vals <= w_loc (wp a) + cap /\
             forall j, 0 <= j < zlen vals ->
               znth vals j = Some (g_cells g ((s + (w_mine (wp a) + j)) mod cap));
    i_ch : forall vals, w_ph (wc a) = WHold vals ->
             w_mine (wc a) + zlen vals <= w_loc (wc a) /\
             forall j, 0 <= j < zlen vals -> znth vals j = znth (pushed_of tr) (w_mine (wc a) + j);
    i_hist : hist_ok (Phi cap) tr
  }.

  Notation safe := (@Conc.safe G V ev WAux wview wvw Inv).

  (** ** memory lemmas: [x] is the ghost (unbounded) position of the first cell *)
  Lemma write_cells_spec vals : forall g x,
    zlen vals <= cap ->
    let g' := write_cells exp2 cap g (u64 x) vals in
    g_front g' = g_front g /\ g_back g' = g_back g /\
    (forall j, 0 <= j < zlen vals -> znth vals j = Some (g_cells g' ((x + j) mod cap))) /\
    (forall c, (forall j, 0 <= j < zlen vals -> c <> (x + j) mod cap) -> g_cells g' c = g_cells g c).
  Proof.
    induction vals as [|v r IH]; intros g x Hn; cbn [write_cells].
    - cbn. repeat split; auto. intros j Hj. unfold zlen in Hj. cbn in Hj. lia.
    - assert (Hl : zlen (v :: r) = 1 + zlen r) by (unfold zlen; cbn [List.length]; lia).
      pose proof (zlen_nonneg r) as Hr.
      rewrite Hl in *. rewrite u64_add_l, idx_u64.
      destruct (IH (set_cell g (x mod cap) v) (x + 1) ltac:(lia)) as (F & B & W & U).
      cbn zeta. split; [rewrite F; reflexivity|]. split; [rewrite B; reflexivity|]. split.
      + intros j Hj. destruct (Z.eq_dec j 0) as [->|Hj0].
        * rewrite znth_cons_0. rewrite Z.add_0_r. rewrite U.
          -- cbn. rewrite Z.eqb_refl. reflexivity.
          -- intros j' Hj'. apply cell_inj; lia.
        * rewrite znth_cons_S by lia. rewrite W by lia. do 3 f_equal. lia.
      + intros c Hc. rewrite U.
        * cbn. destruct (Z.eqb_spec c (x mod cap)) as [E|E]; [|reflexivity].
          exfalso. apply (Hc 0 ltac:(lia)). rewrite Z.add_0_r. exact E.
        * intros j Hj. replace (x + 1 + j) with (x + (1 + j)) by lia. apply Hc. lia.
  Qed.

  Lemma read_cells_spec g n : forall x,
    zlen (read_cells exp2 cap g (u64 x) n) = Z.of_nat n /\
    forall j, 0 <= j < Z.of_nat n ->
      znth (read_cells exp2 cap g (u64 x) n) j = Some (g_cells g ((x + j) mod cap)).
  Proof.
    induction n as [|n IH]; intros x; cbn [read_cells].
    - split; [reflexivity|]. intros j Hj. lia.
    - rewrite u64_add_l, idx_u64. destruct (IH (x + 1)) as (L & R). split.
      + unfold zlen in *. cbn [List.length]. lia.
      + intros j Hj. destruct (Z.eq_dec j 0) as [->|Hj0].
        * rewrite znth_cons_0, Z.add_0_r. reflexivity.
        * rewrite znth_cons_S by lia. rewrite R by lia. do 3 f_equal. lia.
  Qed.

  (** ** invariant preservation, one lemma per kind of step *)
  Lemma Inv_neutral g a tr t e :
    Inv g a tr -> cli_args "push_ok" e = [] -> cli_args "pop_ok" e = [] -> Phi cap tr t e ->
    Inv g a (tr ++ [(t, e)]).
  Proof.
    intros I E1 E2 HP. destruct I.
    constructor; unfold pushed_of, popped_of in *; rewrite ?collect_snoc, ?E1, ?E2, ?app_nil_r; auto.
    apply hist_ok_snoc; assumption.
  Qed.

  Lemma Inv_acc g a tr t k o ok : Inv g a tr -> Inv g a (tr ++ [(t, EvAcc k o ok)]).
  Proof. intros I. apply Inv_neutral; auto. exact Logic.I. Qed.

  (** producer: copy loop *)
  Lemma Inv_prod_write g a tr pf b pf' vals :
    Inv g a tr -> wp a = mkW pf b WIdle ->
    pf <= pf' -> pf' <= w_mine (wc a) -> b + zlen vals <= pf' + cap ->
    Inv (write_cells exp2 cap g (u64 (s + b)) vals) (mkWA (mkW pf' b (WWrote vals)) (wc a)) tr.
  Proof.
    intros I Hpv H1 H2 H3. destruct I. rewrite Hpv in *. cbn [w_loc w_mine w_ph] in *.
    pose proof (zlen_nonneg vals) as Hv.
    destruct (write_cells_spec vals g (s + b) ltac:(lia)) as (F & B & W & U).
    assert (Hold : forall i, w_mine (wc a) <= i < b ->
              g_cells (write_cells exp2 cap g (u64 (s + b)) vals) ((s + i) mod cap) = g_cells g ((s + i) mod cap)).
    { intros i Hi. apply U. intros j Hj. apply cell_inj; lia. }
    constructor; cbn [wp wc w_loc w_mine w_ph]; rewrite ?F, ?B; auto; try lia.
    - intros i Hi. rewrite Hold by lia. auto.
    - intros vals' E. inversion E; subst vals'. split; [lia|].
      intros j Hj. rewrite W by lia. do 3 f_equal. lia.
  Qed.

  (** producer: pfront_ = front_.load() without anything else *)
  Lemma Inv_prod_reload g a tr pf b :
    Inv g a tr -> wp a = mkW pf b WIdle ->
    Inv g (mkWA (mkW (w_mine (wc a)) b WIdle) (wc a)) tr.
  Proof.
    intros I Hpv. destruct I. rewrite Hpv in *. cbn [w_loc w_mine w_ph] in *.
    constructor; cbn [wp wc w_loc w_mine w_ph]; auto; try lia.
    intros vals E. discriminate.
  Qed.

  (** producer: back_.store( back + n ) together with its "push_ok" event *)
  Lemma Inv_prod_store g a tr pf b vals :
    Inv g a tr -> wp a = mkW pf b (WWrote vals) ->
    Inv (set_back g (u64 (s + (b + zlen vals)))) (mkWA (mkW pf (b + zlen vals) WIdle) (wc a))
        (tr ++ [(0%nat, EvCli "push_ok" vals)]).
  Proof.
    intros I Hpv. destruct I. rewrite Hpv in *. cbn [w_loc w_mine w_ph] in *.
    destruct (i_pw0 vals eq_refl) as (W1 & W3).
    pose proof (zlen_nonneg vals) as Hv.
    constructor; cbn [wp wc w_loc w_mine w_ph set_back g_front g_back g_cells];
      unfold pushed_of, popped_of in *; rewrite ?collect_snoc; cbn [cli_args String.eqb Ascii.eqb Bool.eqb];
      rewrite ?app_nil_r; auto; try lia.
    - rewrite zlen_app. lia.
    - intros i Hi. rewrite znth_app1 by lia. auto.
    - intros i Hi. destruct (Z.lt_ge_cases i b) as [Hlt|Hge].
      + rewrite znth_app1 by lia. apply i_cells0. lia.
      + rewrite znth_app2 by lia. rewrite i_lenP0. rewrite W3 by lia. do 3 f_equal. lia.
    - intros vals' E. discriminate.
    - intros vals' E. destruct (i_ch0 vals' E) as (C1 & C2). split; [exact C1|].
      intros j Hj. rewrite znth_app1 by lia. auto.
    - apply hist_ok_snoc; [assumption|]. cbn. repeat split; intros; discriminate.
  Qed.

  (** consumer: cback_ = back_.load() *)
  Lemma Inv_cons_reload g a tr cb f ph :
    Inv g a tr -> wc a = mkW cb f ph ->
    Inv g (mkWA (wp a) (mkW (w_mine (wp a)) f ph)) tr.
  Proof.
    intros I Hcv. destruct I. rewrite Hcv in *. cbn [w_loc w_mine w_ph] in *.
    constructor; cbn [wp wc w_loc w_mine w_ph]; auto; try lia.
    intros vals E. destruct (i_ch0 vals E) as (C1 & C2). split; [lia|exact C2].
  Qed.

  (** consumer: the read loop *)
  Lemma Inv_cons_hold g a tr cb f n :
    Inv g a tr -> wc a = mkW cb f WIdle -> f + Z.of_nat n <= cb ->
    Inv g (mkWA (wp a) (mkW cb f (WHold (read_cells exp2 cap g (u64 (s + f)) n)))) tr.
  Proof.
    intros I Hcv Hn. destruct I. rewrite Hcv in *. cbn [w_loc w_mine w_ph] in *.
    destruct (read_cells_spec g n (s + f)) as (L & Rd).
    constructor; cbn [wp wc w_loc w_mine w_ph]; auto; try lia.
    intros vals E. inversion E; subst vals. rewrite L. split; [lia|].
    intros j Hj. rewrite Rd by lia. symmetry. rewrite i_cells0 by lia. do 3 f_equal. lia.
  Qed.

  (** consumer: front_.store( front + n ) together with its "pop_ok" event *)
  Lemma Inv_cons_store g a tr cb f vals :
    Inv g a tr -> wc a = mkW cb f (WHold vals) ->
    Inv (set_front g (u64 (s + (f + zlen vals)))) (mkWA (wp a) (mkW cb (f + zlen vals) WIdle))
        (tr ++ [(1%nat, EvCli "pop_ok" vals)]).
  Proof.
    intros I Hcv. destruct I. rewrite Hcv in *. cbn [w_loc w_mine w_ph] in *.
    destruct (i_ch0 vals eq_refl) as (C1 & C2).
    pose proof (zlen_nonneg vals) as Hv.
    constructor; cbn [wp wc w_loc w_mine w_ph set_front g_front g_back g_cells];
      unfold pushed_of, popped_of in *; rewrite ?collect_snoc; cbn [cli_args String.eqb Ascii.eqb Bool.eqb];
      rewrite ?app_nil_r; auto; try lia.
    - rewrite zlen_app. lia.
    - intros i Hi. destruct (Z.lt_ge_cases i f) as [Hlt|Hge].
      + rewrite znth_app1 by lia. apply i_pre0. lia.
      + rewrite znth_app2 by lia. rewrite i_lenQ0. rewrite C2 by lia. f_equal. lia.
    - intros i Hi. apply i_cells0. lia.
    - intros vals' E. discriminate.
    - apply hist_ok_snoc; [assumption|]. cbn. repeat split; intros; discriminate.
  Qed.

  (** ** the operations are safe *)
  Lemma frame_p a l : Conc.frame wvw 0 a (mkWA l (wc a)).
  Proof. intros t' Ht. destruct t' as [|[|t']]; [congruence| |]; reflexivity. Qed.
  Lemma frame_c a l : Conc.frame wvw 1 a (mkWA (wp a) l).
  Proof. intros t' Ht. destruct t' as [|[|t']]; [|congruence|]; reflexivity. Qed.
  Lemma frame_refl t a : Conc.frame wvw t a a.
  Proof. intros t' Ht. reflexivity. Qed.

  (** the two tests of the code, on counters that may have wrapped, decide the ghost inequalities *)
  Lemma space_lt_false pf back n :
    0 <= pf + cap - back < two64 -> space_lt cap (u64 (s + pf)) (u64 (s + back)) n = false -> back + n <= pf + cap.
  Proof. unfold space_lt. intros H E. rewrite space_w in E by exact H. apply Z.ltb_ge in E. lia. Qed.
  Lemma space_lt_true pf back n :
    0 <= pf + cap - back < two64 -> space_lt cap (u64 (s + pf)) (u64 (s + back)) n = true -> pf + cap - back < n.
  Proof. unfold space_lt. intros H E. rewrite space_w in E by exact H. apply Z.ltb_lt in E. lia. Qed.
  Lemma avail_lt_false cb f n :
    0 <= cb - f < two64 -> avail_lt (u64 (s + cb)) (u64 (s + f)) n = false -> f + n <= cb.
  Proof. unfold avail_lt. intros H E. rewrite avail_w in E by exact H. apply Z.ltb_ge in E. lia. Qed.
  Lemma avail_lt_true cb f n :
    0 <= cb - f < two64 -> avail_lt (u64 (s + cb)) (u64 (s + f)) n = true -> cb - f < n.
  Proof. unfold avail_lt. intros H E. rewrite avail_w in E by exact H. apply Z.ltb_lt in E. lia. Qed.

  (** postcondition of a producer operation: the returned pfront_ is the u64 image of the ghost one *)
  Definition Qp : Z -> wview -> Prop :=
    fun pf l => exists PF b, pf = u64 (s + PF) /\ l = mkW PF b WIdle.

  (** the final store of a push *)
  Lemma safe_st_back pf b vals (Q : Z -> wview -> Prop) r :
    Q r (mkW pf (b + zlen vals) WIdle) ->
    safe 0 (Act (a_st_back (u64 (u64 (s + b) + zlen vals)) vals) (fun _ => Ret r)) (mkW pf b (WWrote vals)) Q.
  Proof.
    intros HQ. cbn [Conc.safe]. intros g a tr I Hv. cbn [wvw] in Hv.
    unfold a_st_back. cbn [fst snd].
    rewrite u64_add_l. rewrite <- Z.add_assoc.
    exists (mkWA (mkW pf (b + zlen vals) WIdle) (wc a)).
    split; [|split; [apply frame_p|exact HQ]].
    unfold Conc.tag. cbn [map].
    change (tr ++ [(0%nat, EvAcc KSt obj_back true); (0%nat, EvCli "push_ok" vals)])
      with (tr ++ [(0%nat, EvAcc KSt obj_back true)] ++ [(0%nat, EvCli "push_ok" vals)]).
    rewrite app_assoc. apply Inv_prod_store with (pf := pf); [|exact Hv].
    apply Inv_acc. exact I.
  Qed.

  Lemma tag1 t (e : ev) : Conc.tag t [e] = [(t, e)].
  Proof. reflexivity. Qed.
  Lemma tag2 t (e1 e2 : ev) tr : tr ++ Conc.tag t [e1; e2] = (tr ++ [(t, e1)]) ++ [(t, e2)].
  Proof. unfold Conc.tag. cbn [map]. rewrite <- app_assoc. reflexivity. Qed.

  Lemma Phi_push_fail g a tr t n :
    Inv g a tr -> w_mine (wc a) + cap - w_mine (wp a) < n -> Phi cap tr t (EvCli "push_fail" [n]).
  Proof.
    intros I H. destruct I. cbn. repeat split; intros; try discriminate.
    match goal with E : [_] = [_] |- _ => inversion E; subst end.
    unfold qsize. lia.
  Qed.

  (** pfront_ = front_.load(); second test; copy loop; store *)
  Lemma safe_push_reload pf b vals :
    safe 0 (Act (a_push_ld_front exp2 cap (u64 (s + b)) vals) (fun r2 =>
              let pf' := fst r2 in
              if space_lt cap pf' (u64 (s + b)) (zlen vals) then Ret pf'
              else Act (a_st_back (u64 (u64 (s + b) + zlen vals)) vals) (fun _ => Ret pf')))
         (mkW pf b WIdle) Qp.
  Proof.
    cbn [Conc.safe]. intros g a tr I Hv. cbn [wvw] in Hv.
    pose proof (zlen_nonneg vals) as Hn. pose proof cap_small as Hcs.
    pose proof I as I'. destruct I'. rewrite Hv in *. cbn [w_loc w_mine w_ph] in *.
    unfold a_push_ld_front. rewrite i_gf0.
    assert (Hrng : 0 <= w_mine (wc a) + cap - b < two64) by lia.
    destruct (space_lt cap (u64 (s + w_mine (wc a))) (u64 (s + b)) (zlen vals)) eqn:Hs; cbn [fst snd].
    - (* still no space: return false *)
      pose proof Hs as Hs0. apply space_lt_true in Hs; [|exact Hrng].
      exists (mkWA (mkW (w_mine (wc a)) b WIdle) (wc a)).
      split; [|split; [apply frame_p|]].
      + rewrite tag2. apply Inv_neutral; try reflexivity.
        * apply Inv_acc. eapply Inv_prod_reload; eauto.
        * eapply Phi_push_fail; [apply Inv_acc; exact I|]. rewrite Hv. cbn [w_mine]. exact Hs.
      + rewrite Hs0. cbn. do 2 eexists. split; reflexivity.
    - pose proof Hs as Hs0. apply space_lt_false in Hs; [|exact Hrng].
      exists (mkWA (mkW (w_mine (wc a)) b (WWrote vals)) (wc a)).
      split; [|split; [apply frame_p|]].
      + rewrite tag1. apply Inv_acc. eapply Inv_prod_write; eauto; lia.
      + rewrite Hs0. cbn [wvw wp]. apply safe_st_back. do 2 eexists. split; reflexivity.
  Qed.

  Lemma safe_push_n pf b vals :
    safe 0 (push_n exp2 cap (u64 (s + pf)) vals) (mkW pf b WIdle) Qp.
  Proof.
    unfold push_n. cbn [Conc.safe]. intros g a tr I Hv. cbn [wvw] in Hv.
    pose proof (zlen_nonneg vals) as Hn. pose proof cap_small as Hcs.
    pose proof I as I'. destruct I'. rewrite Hv in *. cbn [w_loc w_mine w_ph] in *.
    unfold a_push_ld_back. cbn [fst snd]. rewrite i_gb0.
    assert (Hrng : 0 <= pf + cap - b < two64) by lia.
    destruct (space_lt cap (u64 (s + pf)) (u64 (s + b)) (zlen vals)) eqn:Hs.
    - (* the cached pfront_ shows no space: reload *)
      exists a. split; [rewrite tag1; apply Inv_acc; exact I|]. split; [apply frame_refl|].
      cbn [wvw]. rewrite Hv. apply safe_push_reload.
    - apply space_lt_false in Hs; [|exact Hrng].
      exists (mkWA (mkW pf b (WWrote vals)) (wc a)).
      split; [|split; [apply frame_p|]].
      + rewrite tag1. apply Inv_acc. eapply Inv_prod_write; eauto; lia.
      + cbn [wvw wp]. apply safe_st_back. do 2 eexists. split; reflexivity.
  Qed.

  (** *** consumer *)
  Definition Qc : Z -> wview -> Prop :=
    fun cb l => exists CB f, cb = u64 (s + CB) /\ l = mkW CB f WIdle.

  Lemma safe_st_front cb f vals (Q : Z -> wview -> Prop) ret :
    Q ret (mkW cb (f + zlen vals) WIdle) ->
    safe 1 (Act (a_st_front (u64 (u64 (s + f) + zlen vals)) vals) (fun _ => Ret ret)) (mkW cb f (WHold vals)) Q.
  Proof.
    intros HQ. cbn [Conc.safe]. intros g a tr I Hv. cbn [wvw] in Hv.
    unfold a_st_front. cbn [fst snd].
    rewrite u64_add_l. rewrite <- Z.add_assoc.
    exists (mkWA (wp a) (mkW cb (f + zlen vals) WIdle)).
    split; [|split; [apply frame_c|exact HQ]].
    rewrite tag2. apply Inv_cons_store with (cb := cb); [|exact Hv].
    apply Inv_acc. exact I.
  Qed.

  Lemma Phi_pop_fail g a tr t n :
    Inv g a tr -> w_mine (wp a) - w_mine (wc a) < n -> Phi cap tr t (EvCli "pop_fail" [n]).
  Proof.
    intros I H. destruct I. cbn. repeat split; intros; try discriminate.
    match goal with E : [_] = [_] |- _ => inversion E; subst end.
    unfold qsize. lia.
  Qed.

  Lemma Phi_front_null g a tr t :
    Inv g a tr -> w_mine (wp a) - w_mine (wc a) < 1 -> Phi cap tr t (EvCli "front_null" []).
  Proof.
    intros I H. destruct I. cbn. repeat split; intros; try discriminate. unfold qsize. lia.
  Qed.

  Lemma Phi_front_ok g a tr t :
    Inv g a tr -> w_mine (wc a) < w_mine (wp a) ->
    Phi cap tr t (EvCli "front_ok" (read_cells exp2 cap g (u64 (s + w_mine (wc a))) 1)).
  Proof.
    intros I H. destruct I. cbn [read_cells]. rewrite idx_u64.
    cbn. repeat split; intros; try discriminate.
    match goal with E : [_] = [_] |- _ => inversion E; subst end.
    rewrite i_lenQ0. apply i_cells0. lia.
  Qed.

  (** pop( arr, n ): the reload branch *)
  Lemma safe_pop_reload cb f n :
    safe 1 (Act (a_cons_ld_back exp2 cap (u64 (s + f)) (Z.of_nat n) n no_ev (EvCli "pop_fail" [Z.of_nat n])) (fun r2 =>
              let cb' := fst r2 in
              if avail_lt cb' (u64 (s + f)) (Z.of_nat n) then Ret cb'
              else Act (a_st_front (u64 (u64 (s + f) + Z.of_nat n)) (snd r2)) (fun _ => Ret cb')))
         (mkW cb f WIdle) Qc.
  Proof.
    cbn [Conc.safe]. intros g a tr I Hv. cbn [wvw] in Hv. pose proof cap_small as Hcs.
    pose proof I as I'. destruct I'. rewrite Hv in *. cbn [w_loc w_mine w_ph] in *.
    unfold a_cons_ld_back. rewrite i_gb0.
    assert (Hrng : 0 <= w_mine (wp a) - f < two64) by lia.
    destruct (avail_lt (u64 (s + w_mine (wp a))) (u64 (s + f)) (Z.of_nat n)) eqn:Hs; cbn [fst snd]; pose proof Hs as Hs0.
    - apply avail_lt_true in Hs; [|exact Hrng].
      exists (mkWA (wp a) (mkW (w_mine (wp a)) f WIdle)).
      split; [|split; [apply frame_c|]].
      + rewrite tag2. apply Inv_neutral; try reflexivity.
        * apply Inv_acc. eapply Inv_cons_reload; eauto.
        * eapply Phi_pop_fail; [apply Inv_acc; exact I|]. rewrite Hv. cbn [w_mine]. exact Hs.
      + rewrite Hs0. cbn. do 2 eexists. split; reflexivity.
    - apply avail_lt_false in Hs; [|exact Hrng].
      exists (mkWA (wp a) (mkW (w_mine (wp a)) f (WHold (read_cells exp2 cap g (u64 (s + f)) n)))).
      split; [|split; [apply frame_c|]].
      + unfold no_ev. rewrite tag1. apply Inv_acc.
        apply (Inv_cons_hold g (mkWA (wp a) (mkW (w_mine (wp a)) f WIdle)) tr (w_mine (wp a)) f n);
          [eapply Inv_cons_reload; eauto|reflexivity|lia].
      + rewrite Hs0. cbn [wvw wc].
        destruct (read_cells_spec g n (s + f)) as (L & _).
        rewrite <- L. apply safe_st_front. rewrite L. do 2 eexists. split; reflexivity.
  Qed.

  Lemma safe_pop_n cb f n : safe 1 (pop_n exp2 cap (u64 (s + cb)) n) (mkW cb f WIdle) Qc.
  Proof.
    unfold pop_n. cbn [Conc.safe]. intros g a tr I Hv. cbn [wvw] in Hv. pose proof cap_small as Hcs.
    pose proof I as I'. destruct I'. rewrite Hv in *. cbn [w_loc w_mine w_ph] in *.
    unfold a_cons_ld_front. rewrite i_gf0.
    assert (Hrng : 0 <= cb - f < two64) by lia.
    destruct (avail_lt (u64 (s + cb)) (u64 (s + f)) (Z.of_nat n)) eqn:Hs; cbn [fst snd]; pose proof Hs as Hs0.
    - exists a. split; [rewrite tag1; apply Inv_acc; exact I|]. split; [apply frame_refl|].
      rewrite Hs0. cbn [wvw]. rewrite Hv. apply safe_pop_reload.
    - apply avail_lt_false in Hs; [|exact Hrng].
      exists (mkWA (wp a) (mkW cb f (WHold (read_cells exp2 cap g (u64 (s + f)) n)))).
      split; [|split; [apply frame_c|]].
      + unfold no_ev. rewrite tag1. apply Inv_acc. eapply Inv_cons_hold; eauto.
      + rewrite Hs0. cbn [wvw wc].
        destruct (read_cells_spec g n (s + f)) as (L & _).
        rewrite <- L. apply safe_st_front. rewrite L. do 2 eexists. split; reflexivity.
  Qed.

  (** front() as used by the stand-alone "front" operation: nothing stays pending *)
  Definition Qpeek_free : Z * option (list Z) -> wview -> Prop :=
    fun res l => exists CB f, fst res = u64 (s + CB) /\ l = mkW CB f WIdle.

  Lemma safe_peek_free_reload cb f :
    safe 1 (Act (a_cons_ld_back exp2 cap (u64 (s + f)) 1 1 (fun vals => [EvCli "front_ok" vals]) (EvCli "front_null" [])) (fun r2 =>
              let cb' := fst r2 in
              if avail_lt cb' (u64 (s + f)) 1 then Ret (cb', None) else Ret (cb', Some (snd r2))))
         (mkW cb f WIdle) Qpeek_free.
  Proof.
    cbn [Conc.safe]. intros g a tr I Hv. cbn [wvw] in Hv. pose proof cap_small as Hcs.
    pose proof I as I'. destruct I'. rewrite Hv in *. cbn [w_loc w_mine w_ph] in *.
    unfold a_cons_ld_back. rewrite i_gb0.
    assert (Hrng : 0 <= w_mine (wp a) - f < two64) by lia.
    destruct (avail_lt (u64 (s + w_mine (wp a))) (u64 (s + f)) 1) eqn:Hs; cbn [fst snd]; pose proof Hs as Hs0.
    - apply avail_lt_true in Hs; [|exact Hrng].
      exists (mkWA (wp a) (mkW (w_mine (wp a)) f WIdle)).
      split; [|split; [apply frame_c|]].
      + rewrite tag2. apply Inv_neutral; try reflexivity.
        * apply Inv_acc. eapply Inv_cons_reload; eauto.
        * eapply Phi_front_null; [apply Inv_acc; exact I|]. rewrite Hv. cbn [w_mine]. exact Hs.
      + rewrite Hs0. cbn. do 2 eexists. split; reflexivity.
    - apply avail_lt_false in Hs; [|exact Hrng].
      exists (mkWA (wp a) (mkW (w_mine (wp a)) f WIdle)).
      split; [|split; [apply frame_c|]].
      + rewrite tag2. apply Inv_neutral; try reflexivity.
        * apply Inv_acc. eapply Inv_cons_reload; eauto.
        * pose proof (Phi_front_ok g a (tr ++ [(1%nat, EvAcc KLd obj_back true)]) 1%nat) as HP.
          rewrite Hv in HP. cbn [w_mine] in HP. apply HP; [apply Inv_acc; exact I|lia].
      + rewrite Hs0. cbn. do 2 eexists. split; reflexivity.
  Qed.

  Lemma safe_peek_free cb f :
    safe 1 (peek exp2 cap (u64 (s + cb)) (fun vals => [EvCli "front_ok" vals]) (EvCli "front_null" []))
         (mkW cb f WIdle) Qpeek_free.
  Proof.
    unfold peek. cbn [Conc.safe]. intros g a tr I Hv. cbn [wvw] in Hv. pose proof cap_small as Hcs.
    pose proof I as I'. destruct I'. rewrite Hv in *. cbn [w_loc w_mine w_ph] in *.
    unfold a_cons_ld_front. rewrite i_gf0.
    assert (Hrng : 0 <= cb - f < two64) by lia.
    destruct (avail_lt (u64 (s + cb)) (u64 (s + f)) 1) eqn:Hs; cbn [fst snd]; pose proof Hs as Hs0.
    - exists a. split; [rewrite tag1; apply Inv_acc; exact I|]. split; [apply frame_refl|].
      rewrite Hs0. cbn [wvw]. rewrite Hv. apply safe_peek_free_reload.
    - apply avail_lt_false in Hs; [|exact Hrng].
      exists a. split; [|split; [apply frame_refl|]].
      + rewrite tag2. apply Inv_neutral; try reflexivity.
        * apply Inv_acc. exact I.
        * pose proof (Phi_front_ok g a (tr ++ [(1%nat, EvAcc KLd obj_front true)]) 1%nat) as HP.
          rewrite Hv in HP. cbn [w_mine] in HP. apply HP; [apply Inv_acc; exact I|lia].
      + rewrite Hs0. cbn [wvw]. rewrite Hv. cbn. do 2 eexists. split; reflexivity.
  Qed.

  (** front() inside "front + pop_front": the value read stays pending until pop_front's store *)
  Definition Qpeek_hold : Z * option (list Z) -> wview -> Prop :=
    fun res l => exists CB f, fst res = u64 (s + CB) /\
      match snd res with
      | Some vals => l = mkW CB f (WHold vals) /\ zlen vals = 1
      | None => l = mkW CB f WIdle
      end.

  Lemma safe_peek_hold_reload cb f :
    safe 1 (Act (a_cons_ld_back exp2 cap (u64 (s + f)) 1 1 no_ev (EvCli "pop_fail" [1])) (fun r2 =>
              let cb' := fst r2 in
              if avail_lt cb' (u64 (s + f)) 1 then Ret (cb', None) else Ret (cb', Some (snd r2))))
         (mkW cb f WIdle) Qpeek_hold.
  Proof.
    cbn [Conc.safe]. intros g a tr I Hv. cbn [wvw] in Hv. pose proof cap_small as Hcs.
    pose proof I as I'. destruct I'. rewrite Hv in *. cbn [w_loc w_mine w_ph] in *.
    unfold a_cons_ld_back. rewrite i_gb0.
    assert (Hrng : 0 <= w_mine (wp a) - f < two64) by lia.
    destruct (avail_lt (u64 (s + w_mine (wp a))) (u64 (s + f)) 1) eqn:Hs; cbn [fst snd]; pose proof Hs as Hs0.
    - apply avail_lt_true in Hs; [|exact Hrng].
      exists (mkWA (wp a) (mkW (w_mine (wp a)) f WIdle)).
      split; [|split; [apply frame_c|]].
      + rewrite tag2. apply Inv_neutral; try reflexivity.
        * apply Inv_acc. eapply Inv_cons_reload; eauto.
        * eapply Phi_pop_fail; [apply Inv_acc; exact I|]. rewrite Hv. cbn [w_mine]. exact Hs.
      + rewrite Hs0. cbn. do 2 eexists. split; reflexivity.
    - apply avail_lt_false in Hs; [|exact Hrng].
      exists (mkWA (wp a) (mkW (w_mine (wp a)) f (WHold (read_cells exp2 cap g (u64 (s + f)) 1)))).
      split; [|split; [apply frame_c|]].
      + unfold no_ev. rewrite tag1. apply Inv_acc.
        apply (Inv_cons_hold g (mkWA (wp a) (mkW (w_mine (wp a)) f WIdle)) tr (w_mine (wp a)) f 1);
          [eapply Inv_cons_reload; eauto|reflexivity|lia].
      + rewrite Hs0. cbn. do 2 eexists. split; [reflexivity|]. split; reflexivity.
  Qed.

  Lemma safe_peek_hold cb f :
    safe 1 (peek exp2 cap (u64 (s + cb)) no_ev (EvCli "pop_fail" [1])) (mkW cb f WIdle) Qpeek_hold.
  Proof.
    unfold peek. cbn [Conc.safe]. intros g a tr I Hv. cbn [wvw] in Hv. pose proof cap_small as Hcs.
    pose proof I as I'. destruct I'. rewrite Hv in *. cbn [w_loc w_mine w_ph] in *.
    unfold a_cons_ld_front. rewrite i_gf0.
    assert (Hrng : 0 <= cb - f < two64) by lia.
    destruct (avail_lt (u64 (s + cb)) (u64 (s + f)) 1) eqn:Hs; cbn [fst snd]; pose proof Hs as Hs0.
    - exists a. split; [rewrite tag1; apply Inv_acc; exact I|]. split; [apply frame_refl|].
      rewrite Hs0. cbn [wvw]. rewrite Hv. apply safe_peek_hold_reload.
    - apply avail_lt_false in Hs; [|exact Hrng].
      exists (mkWA (wp a) (mkW cb f (WHold (read_cells exp2 cap g (u64 (s + f)) 1)))).
      split; [|split; [apply frame_c|]].
      + unfold no_ev. rewrite tag1. apply Inv_acc. eapply Inv_cons_hold; eauto.
      + rewrite Hs0. cbn. do 2 eexists. split; [reflexivity|]. split; reflexivity.
  Qed.

  (** pop_front() right after front() returned an element: the reload branch is dead *)
  Lemma safe_pop_front cb f vals :
    zlen vals = 1 ->
    safe 1 (pop_front exp2 cap (u64 (s + cb)) vals) (mkW cb f (WHold vals)) Qc.
  Proof.
    intros Hl. unfold pop_front. cbn [Conc.safe]. intros g a tr I Hv. cbn [wvw] in Hv.
    pose proof cap_small as Hcs.
    pose proof I as I'. destruct I'. rewrite Hv in *. cbn [w_loc w_mine w_ph] in *.
    destruct (i_ch0 vals eq_refl) as (C1 & _). rewrite Hl in C1.
    unfold a_cons_ld_front. rewrite i_gf0.
    assert (Hs : avail_lt (u64 (s + cb)) (u64 (s + f)) 1 = false).
    { unfold avail_lt. rewrite avail_w by lia. apply Z.ltb_ge. lia. }
    rewrite Hs. cbn [fst snd]. rewrite Hs.
    exists a. split; [unfold no_ev; rewrite tag1; apply Inv_acc; exact I|]. split; [apply frame_refl|].
    cbn [wvw]. rewrite Hv. rewrite <- Hl. apply safe_st_front. rewrite Hl. do 2 eexists. split; reflexivity.
  Qed.

  (** *** size() and empty() *)
  Lemma Phi_trivial tr t name args :
    name <> "push_fail"%string -> name <> "pop_fail"%string -> name <> "front_null"%string ->
    name <> "front_ok"%string -> name <> "size"%string -> name <> "popfront_fail"%string ->
    Phi cap tr t (EvCli name args).
  Proof. intros. cbn. repeat split; intros; congruence. Qed.

  Lemma Phi_size tr t n : 0 <= n <= cap -> Phi cap tr t (EvCli "size" [n]).
  Proof.
    intros H. cbn. repeat split; intros; try discriminate;
      match goal with E : [_] = [_] |- _ => inversion E; subst end; lia.
  Qed.

  Lemma safe_size_p l : safe 0 size_op l (fun _ l' => l' = l).
  Proof.
    unfold size_op. cbn [Conc.safe]. intros g a tr I Hv. cbn [wvw] in Hv.
    unfold a_ld_back. cbn [fst snd]. exists a. split; [rewrite tag1; apply Inv_acc; exact I|].
    split; [apply frame_refl|]. cbn [wvw]. rewrite Hv.
    assert (Hb : g_back g = u64 (s + w_mine l)) by (destruct I; rewrite <- Hv; auto).
    rewrite Hb. clear g a tr I Hv Hb.
    intros g a tr I Hv. cbn [wvw] in Hv. unfold a_ld_front. cbn [fst snd].
    exists a. split; [|split; [apply frame_refl|cbn [wvw]; rewrite Hv; reflexivity]].
    rewrite tag2. apply Inv_neutral; try reflexivity; [apply Inv_acc; exact I|].
    apply Phi_size. pose proof cap_small as Hcs. destruct I. rewrite Hv in *. rewrite i_gf0.
    rewrite avail_w; lia.
  Qed.

  Lemma safe_size_c l : safe 1 size_op l (fun _ l' => l' = l).
  Proof.
    unfold size_op. cbn [Conc.safe]. intros g a tr I Hv. cbn [wvw] in Hv.
    unfold a_ld_back. cbn [fst snd]. exists a. split; [rewrite tag1; apply Inv_acc; exact I|].
    split; [apply frame_refl|]. cbn [wvw]. rewrite Hv.
    assert (Hb : exists B0, g_back g = u64 (s + B0) /\ w_mine l <= B0 <= w_mine l + cap).
    { destruct I. exists (w_mine (wp a)). split; [assumption|]. rewrite <- Hv. lia. }
    destruct Hb as (B0 & -> & Hb). clear g a tr I Hv.
    intros g a tr I Hv. cbn [wvw] in Hv. unfold a_ld_front. cbn [fst snd].
    exists a. split; [|split; [apply frame_refl|cbn [wvw]; rewrite Hv; reflexivity]].
    rewrite tag2. apply Inv_neutral; try reflexivity; [apply Inv_acc; exact I|].
    apply Phi_size. pose proof cap_small as Hcs. destruct I. rewrite Hv in *. rewrite i_gf0.
    rewrite avail_w; lia.
  Qed.

  Lemma safe_empty t l : safe t empty_op l (fun _ l' => l' = l).
  Proof.
    unfold empty_op. cbn [Conc.safe]. intros g a tr I Hv.
    unfold a_ld_front. cbn [fst snd]. exists a. split; [rewrite tag1; apply Inv_acc; exact I|].
    split; [apply frame_refl|]. rewrite Hv. generalize (g_front g). intros f0. clear g a tr I Hv.
    intros g a tr I Hv. unfold a_ld_back. cbn [fst snd].
    exists a. split; [|split; [apply frame_refl|rewrite Hv; reflexivity]].
    rewrite tag2. apply Inv_neutral; try reflexivity; [apply Inv_acc; exact I|].
    apply Phi_trivial; discriminate.
  Qed.

  Lemma safe_emit t e (k : prog Z) l (Q : Z -> wview -> Prop) :
    cli_args "push_ok" e = [] -> cli_args "pop_ok" e = [] -> (forall tr, Phi cap tr t e) ->
    safe t k l Q -> safe t (Emit [e] k) l Q.
  Proof.
    intros E1 E2 HP Hk. cbn [Conc.safe]. intros g a tr I Hv. exists a.
    split; [rewrite tag1; apply Inv_neutral; auto|]. split; [apply frame_refl|]. rewrite Hv. exact Hk.
  Qed.

  (** *** client programs: no volume bound *)
  Lemma safe_do_push pf b vals :
    safe 0 (do_push exp2 cap (u64 (s + pf)) vals) (mkW pf b WIdle) Qp.
  Proof.
    unfold do_push. apply safe_emit; try reflexivity.
    - intros tr. apply Phi_trivial; discriminate.
    - apply safe_push_n.
  Qed.

  Lemma safe_run_pop pf b o :
    safe 0 (run_pop exp2 cap (u64 (s + pf)) o) (mkW pf b WIdle) Qp.
  Proof.
    destruct o as [vals|v|v| |]; cbn [run_pop] in *.
    - apply safe_do_push.
    - apply (safe_do_push pf b [v]).
    - apply (safe_do_push pf b [v]).
    - unfold do_size. apply safe_emit; try reflexivity; [intros tr; apply Phi_trivial; discriminate|].
      apply Conc.safe_bind. eapply Conc.safe_weaken; [|apply safe_size_p].
      intros _ l' ->. cbn. exists pf, b. split; reflexivity.
    - unfold do_empty. apply safe_emit; try reflexivity; [intros tr; apply Phi_trivial; discriminate|].
      apply Conc.safe_bind. eapply Conc.safe_weaken; [|apply safe_empty].
      intros _ l' ->. cbn. exists pf, b. split; reflexivity.
  Qed.

  Lemma safe_run_pops os : forall pf b,
    safe 0 (run_pops exp2 cap (u64 (s + pf)) os) (mkW pf b WIdle) (@Conc.QTrue wview).
  Proof.
    induction os as [|o r IH]; intros pf b; cbn [run_pops] in *; [exact Logic.I|].
    apply Conc.safe_bind. eapply Conc.safe_weaken; [|apply safe_run_pop].
    intros pf' l' (PF' & b' & -> & ->). apply IH.
  Qed.

  Lemma safe_do_pop cb f n : safe 1 (do_pop exp2 cap (u64 (s + cb)) n) (mkW cb f WIdle) Qc.
  Proof.
    unfold do_pop. apply safe_emit; try reflexivity.
    - intros tr. apply Phi_trivial; discriminate.
    - apply safe_pop_n.
  Qed.

  Lemma safe_run_cop cb f o : safe 1 (run_cop exp2 cap (u64 (s + cb)) o) (mkW cb f WIdle) Qc.
  Proof.
    destruct o as [n| | | | | |]; cbn [run_cop]; try apply safe_do_pop.
    - unfold do_front_pop. apply safe_emit; try reflexivity; [intros tr; apply Phi_trivial; discriminate|].
      apply Conc.safe_bind. eapply Conc.safe_weaken; [|apply safe_peek_hold].
      intros [cb' [vals|]] l' (CB' & f' & E & H); cbn [fst snd] in *.
      + destruct H as [-> Hl]. subst cb'. apply safe_pop_front. exact Hl.
      + subst l' cb'. cbn. do 2 eexists. split; reflexivity.
    - unfold do_front. apply safe_emit; try reflexivity; [intros tr; apply Phi_trivial; discriminate|].
      apply Conc.safe_bind. eapply Conc.safe_weaken; [|apply safe_peek_free].
      intros res l' (CB' & f' & E & ->). cbn. do 2 eexists. split; [exact E|reflexivity].
    - unfold do_size. apply safe_emit; try reflexivity; [intros tr; apply Phi_trivial; discriminate|].
      apply Conc.safe_bind. eapply Conc.safe_weaken; [|apply safe_size_c].
      intros _ l' ->. cbn. do 2 eexists. split; reflexivity.
    - unfold do_empty. apply safe_emit; try reflexivity; [intros tr; apply Phi_trivial; discriminate|].
      apply Conc.safe_bind. eapply Conc.safe_weaken; [|apply safe_empty].
      intros _ l' ->. cbn. do 2 eexists. split; reflexivity.
  Qed.

  Lemma safe_run_cops os : forall cb f,
    safe 1 (run_cops exp2 cap (u64 (s + cb)) os) (mkW cb f WIdle) (@Conc.QTrue wview).
  Proof.
    induction os as [|o rest IH]; intros cb f; cbn [run_cops]; [exact Logic.I|].
    apply Conc.safe_bind. eapply Conc.safe_weaken; [|apply safe_run_cop].
    intros cb' l' (CB' & f' & -> & ->). apply IH.
  Qed.

  Lemma safe_begin t (k : Conc.thread G V ev) l :
    safe t k l (@Conc.QTrue wview) -> safe t (Act a_begin (fun _ => k)) l (@Conc.QTrue wview).
  Proof.
    intros Hk. cbn [Conc.safe]. intros g a tr I Hv. unfold a_begin. cbn [fst snd].
    exists a. split; [rewrite tag1; apply Inv_acc; exact I|]. split; [apply frame_refl|].
    rewrite Hv. exact Hk.
  Qed.

  Lemma init_ok pos cos : Conc.cfg_ok wvw Inv (init_cfg_at exp2 cap s pos cos).
  Proof.
    pose proof cap_pos as Hc.
    exists (mkWA (mkW 0 0 WIdle) (mkW 0 0 WIdle)). split.
    - cbn [init_cfg_at Conc.shared Conc.trace].
      constructor; cbn [wp wc w_loc w_mine w_ph init_at g_back g_front g_cells];
        rewrite ?Z.add_0_r; try reflexivity; try lia; try (intros; discriminate); try (intros; lia).
      apply hist_ok_nil.
    - intros t p Hp'. cbn [init_cfg_at Conc.threads] in Hp'.
      destruct t as [|[|t]]; cbn in Hp'.
      + inversion Hp'; subst p. unfold producer_at. apply safe_begin.
        cbn [wvw wp]. replace (u64 s) with (u64 (s + 0)) by (rewrite Z.add_0_r; reflexivity).
        apply safe_run_pops.
      + inversion Hp'; subst p. unfold consumer_at. apply safe_begin.
        cbn [wvw wc]. replace (u64 s) with (u64 (s + 0)) by (rewrite Z.add_0_r; reflexivity).
        apply safe_run_cops.
      + destruct t; discriminate.
  Qed.

  (** ** what the invariant says about every reachable configuration *)
  Lemma reach_Inv pos cos c :
    Conc.reach (init_cfg_at exp2 cap s pos cos) c ->
    exists a, Inv (Conc.shared c) a (Conc.trace c).
  Proof. intros Hr. eapply Conc.reach_Inv; [apply init_ok|exact Hr]. Qed.

End RingW.

(** ** the theorems: every capacity that divides 2^64 (>= 1, <= 2^63; automatically a power of two), every
       start offset [s], every client program — NO bound on the number of pushed elements —, EVERY schedule.
       ([0 <= s] is what the offset means; the proofs do not use it: every concrete counter is u64 of a ghost.) *)
Section Theorems.
  Variables (exp2 : bool) (cap s : Z) (pos : list pop_) (cos : list cop) (c : Conc.config G V ev).

  (** the counters are exactly the u64 images of offset + ghost lengths, and the ghost lengths are ordered *)
  Theorem ringw_counters_exact :
    cap_wrap_ok exp2 cap = true -> 0 <= s -> Conc.reach (init_cfg_at exp2 cap s pos cos) c ->
    g_back (Conc.shared c) = u64 (s + zlen (pushed_of (Conc.trace c))) /\
    g_front (Conc.shared c) = u64 (s + zlen (popped_of (Conc.trace c))) /\
    0 <= zlen (popped_of (Conc.trace c)) <= zlen (pushed_of (Conc.trace c)) /\
    zlen (pushed_of (Conc.trace c)) <= zlen (popped_of (Conc.trace c)) + cap.
  Proof.
    intros Hw _ Hreach.
    destruct (reach_Inv exp2 cap s Hw pos cos c Hreach) as (a & I). destruct I.
    rewrite i_lenP0, i_lenQ0. repeat split; try assumption; lia.
  Qed.

  (** FIFO, exactly once: the popped sequence is a prefix of the pushed sequence *)
  Theorem ringw_fifo_exact :
    cap_wrap_ok exp2 cap = true -> 0 <= s -> Conc.reach (init_cfg_at exp2 cap s pos cos) c ->
    exists rest, pushed_of (Conc.trace c) = popped_of (Conc.trace c) ++ rest.
  Proof.
    intros Hw _ Hreach.
    destruct (reach_Inv exp2 cap s Hw pos cos c Hreach) as (a & I). destruct I.
    apply pointwise_prefix; [lia|]. intros i Hi. apply i_pre0. lia.
  Qed.

  (** the elements still in the ring are exactly the pushed-but-not-popped ones, the i-th pushed element in
      the cell the code computes from the wrapped counter value u64 (s + i) *)
  Theorem ringw_contents_exact :
    cap_wrap_ok exp2 cap = true -> 0 <= s -> Conc.reach (init_cfg_at exp2 cap s pos cos) c ->
    forall i, zlen (popped_of (Conc.trace c)) <= i < zlen (pushed_of (Conc.trace c)) ->
      znth (pushed_of (Conc.trace c)) i = Some (g_cells (Conc.shared c) (idx exp2 cap (u64 (s + i)))).
  Proof.
    intros Hw _ Hreach.
    destruct (reach_Inv exp2 cap s Hw pos cos c Hreach) as (a & I). destruct I.
    intros i Hi. rewrite (idx_u64 exp2 cap Hw). apply i_cells0. lia.
  Qed.

  Theorem ringw_push_fails_only_if_no_space :
    cap_wrap_ok exp2 cap = true -> 0 <= s -> Conc.reach (init_cfg_at exp2 cap s pos cos) c ->
    forall tr1 t n tr2, Conc.trace c = tr1 ++ (t, EvCli "push_fail" [n]) :: tr2 ->
      cap - qsize tr1 < n.
  Proof.
    intros Hw _ Hreach.
    destruct (reach_Inv exp2 cap s Hw pos cos c Hreach) as (a & I). destruct I.
    intros tr1 t n tr2 E. specialize (i_hist0 _ _ _ _ E). cbn in i_hist0.
    destruct i_hist0 as (H & _). apply H; reflexivity.
  Qed.

  Theorem ringw_pop_fails_only_if_too_few :
    cap_wrap_ok exp2 cap = true -> 0 <= s -> Conc.reach (init_cfg_at exp2 cap s pos cos) c ->
    forall tr1 t n tr2, Conc.trace c = tr1 ++ (t, EvCli "pop_fail" [n]) :: tr2 ->
      qsize tr1 < n.
  Proof.
    intros Hw _ Hreach.
    destruct (reach_Inv exp2 cap s Hw pos cos c Hreach) as (a & I). destruct I.
    intros tr1 t n tr2 E. specialize (i_hist0 _ _ _ _ E). cbn in i_hist0.
    destruct i_hist0 as (_ & H & _). apply H; reflexivity.
  Qed.

  Theorem ringw_front_null_only_if_empty :
    cap_wrap_ok exp2 cap = true -> 0 <= s -> Conc.reach (init_cfg_at exp2 cap s pos cos) c ->
    forall tr1 t tr2, Conc.trace c = tr1 ++ (t, EvCli "front_null" []) :: tr2 -> qsize tr1 < 1.
  Proof.
    intros Hw _ Hreach.
    destruct (reach_Inv exp2 cap s Hw pos cos c Hreach) as (a & I). destruct I.
    intros tr1 t tr2 E. specialize (i_hist0 _ _ _ _ E). cbn in i_hist0.
    destruct i_hist0 as (_ & _ & H & _). apply H; reflexivity.
  Qed.

  (** front() returns the oldest element that has not been popped *)
  Theorem ringw_front_exact :
    cap_wrap_ok exp2 cap = true -> 0 <= s -> Conc.reach (init_cfg_at exp2 cap s pos cos) c ->
    forall tr1 t v tr2, Conc.trace c = tr1 ++ (t, EvCli "front_ok" [v]) :: tr2 ->
      znth (pushed_of tr1) (zlen (popped_of tr1)) = Some v.
  Proof.
    intros Hw _ Hreach.
    destruct (reach_Inv exp2 cap s Hw pos cos c Hreach) as (a & I). destruct I.
    intros tr1 t v tr2 E. specialize (i_hist0 _ _ _ _ E). cbn in i_hist0.
    destruct i_hist0 as (_ & _ & _ & H & _). apply H; reflexivity.
  Qed.

  Theorem ringw_size_in_bounds :
    cap_wrap_ok exp2 cap = true -> 0 <= s -> Conc.reach (init_cfg_at exp2 cap s pos cos) c ->
    forall tr1 t n tr2, Conc.trace c = tr1 ++ (t, EvCli "size" [n]) :: tr2 -> 0 <= n <= cap.
  Proof.
    intros Hw _ Hreach.
    destruct (reach_Inv exp2 cap s Hw pos cos c Hreach) as (a & I). destruct I.
    intros tr1 t n tr2 E. specialize (i_hist0 _ _ _ _ E). cbn in i_hist0.
    destruct i_hist0 as (_ & _ & _ & _ & H & _). apply H; reflexivity.
  Qed.

  (** pop_front() never fails right after front() returned an element *)
  Theorem ringw_pop_front_after_front_succeeds :
    cap_wrap_ok exp2 cap = true -> 0 <= s -> Conc.reach (init_cfg_at exp2 cap s pos cos) c ->
    forall tr1 t args tr2, Conc.trace c <> tr1 ++ (t, EvCli "popfront_fail" args) :: tr2.
  Proof.
    intros Hw _ Hreach.
    destruct (reach_Inv exp2 cap s Hw pos cos c Hreach) as (a & I). destruct I.
    intros tr1 t args tr2 E. specialize (i_hist0 _ _ _ _ E). cbn in i_hist0.
    destruct i_hist0 as (_ & _ & _ & _ & _ & H). apply H; reflexivity.
  Qed.
End Theorems.

(** ** the divisibility hypothesis is necessary: with a capacity that does not divide 2^64 the ring is WRONG
       once the counter wraps.

    Capacity 3 (Exp2 = false, [cap_ok false 3 = true]), counters at s = 2^64 - 1.  buffer_.mod( idx ) =
    idx % 3 is not continuous at 2^64:  (2^64 - 1) % 3 = 0  and the next counter value is  0,  0 % 3 = 0.
    push( {10, 11}, 2 ) writes BOTH elements to cell 0; pop( arr, 2 ) reads cell 0 twice and returns {11, 11}:
    element 10 is lost, element 11 is delivered twice. *)
Definition ring_fifo_any_cap_statement : Prop :=
  forall (exp2 : bool) (cap s : Z) (pos : list pop_) (cos : list cop) c,
    cap_ok exp2 cap = true -> 0 <= s -> Conc.reach (init_cfg_at exp2 cap s pos cos) c ->
    exists rest, pushed_of (Conc.trace c) = popped_of (Conc.trace c) ++ rest.

Theorem ring_wrap_nonpow2_refuted :
  ~ ring_fifo_any_cap_statement /\
  exists (pos : list pop_) (cos : list cop) c,
    cap_ok false 3 = true /\ Conc.reach (init_cfg_at false 3 (2 ^ 64 - 1) pos cos) c /\
    pushed_of (Conc.trace c) = [10; 11] /\ popped_of (Conc.trace c) = [11; 11].
Proof.
  set (pos := [PPush [10; 11]]).
  set (cos := [CPop 2]).
  set (sched := [0; 0; 0; 1; 1; 1; 1]%nat).
  set (c := fst (Conc.run 100 0 sched (init_cfg_at false 3 (2 ^ 64 - 1) pos cos))).
  assert (Hr : Conc.reach (init_cfg_at false 3 (2 ^ 64 - 1) pos cos) c) by apply Conc.run_reach.
  assert (Hp : pushed_of (Conc.trace c) = [10; 11]) by (vm_compute; reflexivity).
  assert (Hq : popped_of (Conc.trace c) = [11; 11]) by (vm_compute; reflexivity).
  split.
  - intros H. destruct (H false 3 (2 ^ 64 - 1) pos cos c eq_refl ltac:(lia) Hr) as (rest & E).
    rewrite Hp, Hq in E. discriminate.
  - exists pos, cos, c. repeat split; assumption.
Qed.
