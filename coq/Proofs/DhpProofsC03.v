(** * DhpProofsC03: the DHP half of C03 ("every object passed to retire() is given to its disposer exactly once,
      no later than destruction of the singleton; a pass that runs while no guard protects a retired object
      frees it").

    PROVED (for every block capacity >= 4, every sequence of retire / scan operations, every hazard list each
    scan may have collected) on the sequential core — one thread record, built from the very functions the
    concurrent model executes ([rt_push], [stage2], [rt_do_extend], [new_rblock], [final_cells]):
      [dhp_dispose_at_most_once_partial], [dhp_destroy_disposes_all_partial], [dhp_scan_frees_unguarded_partial].
    This core is where the defect repaired by /repo commit 1cc4b4f lived: [dhp_old_extend_refuted].
    NOT PROVED: the same three statements over every interleaving ([..._statement] below).  What is missing is
    the concurrent invariant "the multiset retired-and-not-disposed is the disjoint union of the cells below the
    cursor of every record and the cells not yet moved by a running help_scan" over [Conc.reach] (ownership of
    a retired array through thread_id_, exclusivity of retired blocks through the allocator); the per-record
    lemmas it needs are the ones of Proofs/DhpSeq.v ([push_spec], [stage2_spec]) and DhpSeqThm.v ([extend_spec]). *)
From Coq Require Import ZArith NArith List String Bool Lia PeanoNat Permutation.
From LV Require Import Base.Conc Base.Events Model.DhpLang Model.Dhp Proofs.DhpBase Proofs.DhpSeq Proofs.DhpSeqThm Proofs.DhpHist.
Import ListNotations.

(** ** vocabulary over traces *)
Definition disposed_of (tr : list (nat * ev)) : list nat :=
  flat_map (fun e => match classify (snd e) with HDispose p => [p] | _ => [] end) tr.

(** the objects handed to retire(): "op 9 p" events (the client operation LV.Model.Dhp.ORetire) of attached threads *)
Definition retired_ev (e : ev) : list nat :=
  match e with
  | EvCli name [code; p] => if String.eqb name "op" && Z.eqb code 9 then [Z.to_nat p] else []
  | _ => []
  end.

(** ** the statements over every interleaving (NOT proved) *)
Definition dhp_dispose_at_most_once_statement : Prop := forall fuel c ths conf,
  (4 <= c_RB c) -> c_old c = false -> c_oldtail c = false ->
  Conc.reach (init_cfg fuel c ths) conf ->
  NoDup (flat_map (fun e => retired_ev (snd e)) (Conc.trace conf)) ->       (* the client retires every object once *)
  NoDup (disposed_of (Conc.trace conf)).

Definition dhp_destroy_disposes_all_statement : Prop := forall fuel c ths conf,
  (4 <= c_RB c) -> c_old c = false -> c_oldtail c = false ->
  Conc.reach (init_cfg fuel c ths) conf ->
  (forall p, nth_error (Conc.threads conf) p <> None -> forall q, nth_error (Conc.threads conf) p = Some q -> Conc.enabled q = false) ->
  NoDup (flat_map (fun e => retired_ev (snd e)) (Conc.trace conf)) ->
  (* running smr::destruct( true ) to completion from there disposes exactly the retired and not yet disposed objects *)
  forall fuel2 d, d = Conc.run fuel2 0 [] (Conc.Cfg (Conc.shared conf)
                        [compile fuel2 (DAct a_begin (fun _ => to_unit (destruct c (S (List.length ths)))))] []) ->
  snd d = true ->
  Permutation (disposed_of (Conc.trace conf) ++ disposed_of (Conc.trace (fst d)))
              (flat_map (fun e => retired_ev (snd e)) (Conc.trace conf)).

Definition dhp_scan_frees_unguarded_statement : Prop := forall fuel c ths conf,
  (4 <= c_RB c) -> c_old c = false -> c_oldtail c = false ->
  Conc.reach (init_cfg fuel c ths) conf ->
  (* a complete scan "_scanb r" ... "_scane r" of thread t in the trace disposes every object that was in the
     retired array of r when it began and that no hazard cell held at any moment of the scan *)
  forall tr1 tr2 tr3 t r, Conc.trace conf = tr1 ++ (t, ev_scanb r) :: tr2 ++ (t, ev_scane r) :: tr3 ->
  (forall e, In e tr2 -> fst e = t -> snd e <> ev_scanb r) ->
  forall p, p <> 0 ->
  In p (flat_map (fun e => if Nat.eqb (fst e) t then retired_ev (snd e) else []) tr1) ->
  ~ In p (disposed_of tr1) ->
  (forall k, k <= List.length tr2 -> forall s, slotv (hist (tr1 ++ (t, ev_scanb r) :: firstn k tr2)) s <> p) ->
  In p (disposed_of tr2) \/ exists t', t' <> t /\ In p (flat_map (fun e => if Nat.eqb (fst e) t' then retired_ev (snd e) else []) tr1).

(** ** what is proved: the sequential core, every capacity >= 4 *)
Theorem dhp_dispose_at_most_once_partial : forall (c : cfg) (os : list sop),
  4 <= c_RB c -> c_old c = false -> NoDup (retired_of os) ->
  NoDup (snd (seq_run c 0 os (seq_init c))) /\ incl (snd (seq_run c 0 os (seq_init c))) (retired_of os) /\
  oob (fst (seq_run c 0 os (seq_init c))) = false.
Proof.
  intros c os H4 Ho Hn. pose proof (dhp_seq_at_most_once c ltac:(lia) H4 Ho os Hn) as K.
  destruct (seq_run c 0 os (seq_init c)) as [g d]. cbn. tauto.
Qed.

(** the destructor frees exactly what is pending: together, every retired pointer is freed exactly once *)
Theorem dhp_destroy_disposes_all_partial : forall (c : cfg) (os : list sop),
  4 <= c_RB c -> c_old c = false -> NoDup (retired_of os) ->
  Permutation (snd (seq_run c 0 os (seq_init c)) ++ seq_final c 0 (fst (seq_run c 0 os (seq_init c)))) (retired_of os).
Proof.
  intros c os H4 Ho Hn. pose proof (dhp_seq_at_most_once c ltac:(lia) H4 Ho os Hn) as K.
  destruct (seq_run c 0 os (seq_init c)) as [g d]. cbn. destruct K as (_&_&_&K).
  eapply Permutation_trans; [apply Permutation_app_comm|exact K].
Qed.

(** a scan frees exactly the pending pointers that are not in the hazard list it collected *)
Theorem dhp_scan_frees_unguarded_partial : forall (c : cfg) (os : list sop) (pl : list nat),
  4 <= c_RB c -> c_old c = false -> NoDup (retired_of os) ->
  let g := fst (seq_run c 0 os (seq_init c)) in
  forall p, In p (seq_final c 0 g) -> ~ In p pl -> In p (snd (seq_scan c 0 pl g)).
Proof.
  intros c os pl H4 Ho Hn g p Hp Hnp.
  pose proof (seq_run_SInv c ltac:(lia) H4 Ho os _ _ _ _ (seq_init_SInv c ltac:(lia) H4)) as S. cbn [app] in S. fold g in S.
  destruct (dhp_seq_scan_frees_unguarded c ltac:(lia) H4 Ho g 0 _ _ pl S) as (chain & w & I & E & K1 & K2).
  apply K1; auto. rewrite <- (seq_final_content c ltac:(lia) H4 g 0 chain w I). exact Hp.
Qed.
