(** * C07 instance of the wrapped Vyukov core (LV.Proofs.VyukovWrapCore): the extension is the LP-annotated trace
      of LV.Proofs.VyukovLin ([Ext07], re-used as it is).  For every configuration reachable from a queue through
      which [s0] items have passed (any [s0 >= 0]: positions start anywhere, in particular just below 2^63 or
      2^64), by any schedule that is [fresh]: the concrete state is the ghost state modulo 2^64 and the ghost
      state satisfies [VyukovCore.RealInv].  No bound on the number of operations. *)
From Coq Require Import ZArith List String Bool Lia PeanoNat.
From LV Require Import Base.Conc Base.Events Base.CInt Base.Lin Spec.Specs Model.Vyukov Model.VyukovWrap
                       Proofs.VyukovSpec Proofs.VyukovArith Proofs.VyukovCore Proofs.VyukovLin
                       Proofs.VyukovWrapArith Proofs.VyukovWrapCore.
Import ListNotations.
Local Open Scope Z_scope.

Section WInst.
  Variable k : nat.
  Hypothesis Hk : (1 <= k)%nat.
  Hypothesis Hk61 : (k <= 61)%nat.
  Variable q : qcfg.
  Hypothesis Hq : qcap q = 2 ^ Z.of_nat k.
  Variable sc : option nat.
  Variable mp : bool.
  Variable s0 : Z.
  Hypothesis Hs0 : 0 <= s0.

  Notation capn := (2 ^ k)%nat.
  Notation cap := (2 ^ Z.of_nat k).
  Notation X := (list (aev (VQ capn))).
  Notation E07 := (Ext07 k mp).
  Notation WI := (Inv k sc s0 X E07).
  Notation WIn := (WInv k sc s0 X E07).
  Notation RI := (RealInv k sc s0 X E07).
  Notation wv := (wview X unit (xview07 k)).
  Notation safe := (@Conc.safe G V ev (WAux X) (phase * Z * unit) wv WI).

  Ltac use_step S :=
    let I1 := fresh "I1" in let I2 := fresh "I2" in let I3 := fresh "I3" in let Hok := fresh "Hok" in
    match type of S with
    | ?A -> _ =>
        assert (Hok : A);
        [clear S
        |specialize (S Hok); destruct S as (I1 & I2 & I3); eexists;
         split; [exact I1|split; [exact I2|rewrite I3; clear I1 I2 I3 Hok]]]
    end.

  Definition Qop : bool -> phase * Z * unit -> Prop := fun b l => b = true -> l = (PIdle, 0, tt).

  (** a client event *)
  Lemma wemit g (a : WAux X) tr t p p' s atr' es :
    WI g a tr -> wv a t = (p, s, tt) -> es <> [] ->
    nclaims (Conc.tag t es) = 0 -> unclaimed p -> unclaimed p' ->
    (forall gg, phase_ok k gg p') -> nopos k p' ->
    (consumer p' -> consumer p \/ forall tc, sc = Some tc -> t = tc) ->
    (is_front p' -> is_front p \/ sc = Some t) ->
    (WIn a tr -> E07 (absq X (core X a)) (fun u => stat_of k (updp (ph X (core X a)) t p' u)) atr' (tr ++ Conc.tag t es)) ->
    WI g (mkW X (mkAux X (absq X (core X a)) (updp (ph X (core X a)) t p') atr') (gh X a) (upds (sl X a) t 0))
       (tr ++ Conc.tag t es) /\
    Conc.frame wv t a (mkW X (mkAux X (absq X (core X a)) (updp (ph X (core X a)) t p') atr') (gh X a) (upds (sl X a) t 0)) /\
    wv (mkW X (mkAux X (absq X (core X a)) (updp (ph X (core X a)) t p') atr') (gh X a) (upds (sl X a) t 0)) t = (p', 0, tt).
  Proof.
    intros Hi Hv Hne Hn Hu Hu' Hok Hnp Hco Hfr HE.
    exact (wstep_emit k Hk Hk61 sc s0 X unit (xview07 k) E07 g a tr t p p' s tt atr' es Hi Hv Hne Hn Hu Hu' Hok Hnp Hco Hfr
             (fun _ _ => eq_refl) HE).
  Qed.

  Lemma ne1 (e : ev) : [e] <> [].
  Proof. discriminate. Qed.

  (** response event of an operation whose linearized status is [sLin o r] *)
  Lemma wsafe_ret t p o r es :
    unclaimed p -> stat_of k p = sLin k o r -> es <> [] ->
    nclaims (Conc.tag t es) = 0 ->
    hist capn (Conc.tag t es) = [@HRes (VQ capn) t r] -> no_ub (Conc.tag t es) = true ->
    (mp = true -> hist_b capn (Conc.tag t es) = [@HRes (BFifo capn) t r]) ->
    forall s, safe t (Emit es (Ret true)) (p, s, tt) Qop.
  Proof.
    intros Hu Hst Hne Hn Hh Hub Hm s. cbn [Conc.safe]. intros g a tr Hi Hv.
    destruct (wview_inv _ _ _ _ _ _ _ _ Hv) as (Hp & _ & _).
    assert (S := fun Hok => wemit g a tr t p PIdle s (ext X (core X a) ++ [@ARes (VQ capn) t r]) es Hi Hv Hne Hn Hu I
                              (fun _ => I) (fun _ _ _ => I) (fun F => match F with end) (fun F => match F with end) Hok).
    use_step S.
    { intros [R St]. apply stat_upd_ext. exact (fun u => @Idle (VQ capn)).
      apply ext_res with (o := o); auto.
      - exact (ri_ext k sc s0 X E07 _ _ _ R).
      - cbn. rewrite Hp. exact Hst. }
    cbn. intros _. reflexivity.
  Qed.

  (** a thread whose loop fuel is exhausted stops; it gives up the position it holds *)
  Lemma wsafe_fuel t p p' :
    unclaimed p -> unclaimed p' -> stat_of k p' = stat_of k p -> (forall gg, phase_ok k gg p') -> nopos k p' ->
    (consumer p' -> consumer p) -> (is_front p' -> is_front p) ->
    forall s, safe t (Emit [EvCli "outoffuel" []] (Ret false)) (p, s, tt) Qop.
  Proof.
    intros Hu Hu' Hst Hok Hnp Hco Hfr s. cbn [Conc.safe]. intros g a tr Hi Hv.
    destruct (wview_inv _ _ _ _ _ _ _ _ Hv) as (Hp & _ & _).
    assert (S := fun HE => wemit g a tr t p p' s (ext X (core X a)) [EvCli "outoffuel" []] Hi Hv (ne1 _) eq_refl Hu Hu'
                              Hok Hnp (fun H => or_introl (Hco H)) (fun H => or_introl (Hfr H)) HE).
    use_step S.
    { intros [R St]. apply ext_neutral; auto. eapply Ext07_ext; [|exact (ri_ext k sc s0 X E07 _ _ _ R)].
      intros u. cbn. unfold updp. destruct (Nat.eqb_spec u t) as [->|]; [rewrite Hp; exact Hst|reflexivity]. }
    cbn. intros H; discriminate.
  Qed.

  Lemma np_idle : nopos k PIdle. Proof. intros ? ? ?; exact I. Qed.

  Lemma wsafe_run_op fuel t o : allowed mp sc t o -> safe t (run_op_g difw q fuel o) (PIdle, 0, tt) Qop.
  Proof.
    intros Hal. destruct o as [v| | | | |]; cbn [run_op_g Conc.safe allowed] in *.
    - (* enqueue *)
      intros g a tr Hi Hv. destruct (wview_inv _ _ _ _ _ _ _ _ Hv) as (Hp & _ & _).
      assert (S := fun Hok => wemit g a tr t PIdle (PEnq v) 0 (ext X (core X a) ++ [@AInv (VQ capn) t (VEnq v)])
                                [EvCli "inv_enq" [v]] Hi Hv (ne1 _) eq_refl I I (fun _ => I) (fun _ _ _ => I)
                                (fun F => match F with end) (fun F => match F with end) Hok).
      use_step S.
      { intros [R St]. apply stat_upd_ext. exact (fun u => @Idle (VQ capn)).
        apply ext_inv; auto.
        - exact (ri_ext k sc s0 X E07 _ _ _ R).
        - cbn. rewrite Hp. reflexivity.
        - intros _. exists (Enq v). split; reflexivity. }
      apply Conc.safe_bind. eapply Conc.safe_weaken;
        [|apply (wsafe_enqueue k Hk Hk61 q Hq sc s0 X unit (xview07 k) (xlin07 k) E07 (Ext07_acc k mp) (Ext07_ext k mp) (Ext07_lin k mp) (xview07_lin k))].
      intros [[|]| |] l Hl; cbn [Qenq finish] in *.
      + subst l. apply wsafe_ret with (o := VEnq v) (r := RBool true); try reflexivity; try exact I. apply ne1.
      + subst l. apply wsafe_ret with (o := VEnq v) (r := RBool false); try reflexivity; try exact I. apply ne1.
      + destruct Hl as (pos & ->). apply wsafe_fuel with (p' := PEnq v); try reflexivity; try exact I; auto.
        * intros ? ? ?; exact I.
      + destruct Hl.
    - (* dequeue *)
      intros g a tr Hi Hv. destruct (wview_inv _ _ _ _ _ _ _ _ Hv) as (Hp & _ & _).
      assert (S := fun Hok => wemit g a tr t PIdle (PDeq false) 0 (ext X (core X a) ++ [@AInv (VQ capn) t VDeq])
                                [EvCli "inv_deq" []] Hi Hv (ne1 _) eq_refl I I (fun _ => I) (fun _ _ _ => I)
                                (fun _ => or_intror Hal) (fun F => match F with end) Hok).
      use_step S.
      { intros [R St]. apply stat_upd_ext. exact (fun u => @Idle (VQ capn)).
        apply ext_inv; auto.
        - exact (ri_ext k sc s0 X E07 _ _ _ R).
        - cbn. rewrite Hp. reflexivity.
        - intros _. exists Deq. split; reflexivity. }
      apply Conc.safe_bind. eapply Conc.safe_weaken;
        [|apply (wsafe_dequeue k Hk Hk61 q Hq sc s0 X unit (xview07 k) (xlin07 k) E07 (Ext07_acc k mp) (Ext07_ext k mp) (Ext07_lin k mp) (xview07_lin k))].
      intros [[x|]| |] l Hl; cbn [Qdeq finish] in *.
      + subst l. apply wsafe_ret with (o := VDeq) (r := RVal (Some x)); try reflexivity; try exact I. apply ne1.
      + subst l. apply wsafe_ret with (o := VDeq) (r := RVal None); try reflexivity; try exact I. apply ne1.
      + destruct Hl as (pos & ->). apply wsafe_fuel with (p' := PDeq false); try reflexivity; try exact I; auto.
        * intros ? ? ?; exact I.
      + destruct Hl.
    - (* front *)
      destruct Hal as [Hmp Hsc].
      assert (Hc1 : forall tc, sc = Some tc -> t = tc) by (intros tc H; congruence).
      intros g a tr Hi Hv. destruct (wview_inv _ _ _ _ _ _ _ _ Hv) as (Hp & _ & _).
      assert (S := fun Hok => wemit g a tr t PIdle PFront 0 (ext X (core X a) ++ [@AInv (VQ capn) t VFront])
                                [EvCli "inv_front" []] Hi Hv (ne1 _) eq_refl I I (fun _ => I) (fun _ _ _ => I)
                                (fun _ => or_intror Hc1) (fun _ => or_intror Hsc) Hok).
      use_step S.
      { intros [R St]. apply stat_upd_ext. exact (fun u => @Idle (VQ capn)).
        apply ext_inv; auto.
        - exact (ri_ext k sc s0 X E07 _ _ _ R).
        - cbn. rewrite Hp. reflexivity.
        - intros M. congruence. }
      apply Conc.safe_bind. eapply Conc.safe_weaken;
        [|apply (wsafe_front k Hk Hk61 q Hq sc s0 X unit (xview07 k) (xlin07 k) E07 (Ext07_acc k mp) (Ext07_ext k mp) (Ext07_lin k mp) (xview07_lin k))].
      intros [[x|]| |] l Hl; cbn [Qfront finish] in *.
      + subst l. apply wsafe_ret with (o := VFront) (r := RVal (Some x)); try reflexivity; try exact I. apply ne1. intros M; congruence.
      + subst l. apply wsafe_ret with (o := VFront) (r := RVal None); try reflexivity; try exact I. apply ne1. intros M; congruence.
      + destruct Hl as (pos & ->). apply wsafe_fuel with (p' := PFront); try reflexivity; try exact I; auto.
        * intros ? ? ?; exact I.
      + destruct Hl.
    - (* pop_front *)
      destruct Hal as [Hmp Hsc].
      intros g a tr Hi Hv. destruct (wview_inv _ _ _ _ _ _ _ _ Hv) as (Hp & _ & _).
      assert (S := fun Hok => wemit g a tr t PIdle (PDeq true) 0 (ext X (core X a) ++ [@AInv (VQ capn) t VPopFront])
                                [EvCli "inv_pop" []] Hi Hv (ne1 _) eq_refl I I (fun _ => I) (fun _ _ _ => I)
                                (fun _ => or_intror Hsc) (fun F => match F with end) Hok).
      use_step S.
      { intros [R St]. apply stat_upd_ext. exact (fun u => @Idle (VQ capn)).
        apply ext_inv; auto.
        - exact (ri_ext k sc s0 X E07 _ _ _ R).
        - cbn. rewrite Hp. reflexivity.
        - intros M. congruence. }
      apply Conc.safe_bind. eapply Conc.safe_weaken;
        [|apply (wsafe_dequeue k Hk Hk61 q Hq sc s0 X unit (xview07 k) (xlin07 k) E07 (Ext07_acc k mp) (Ext07_ext k mp) (Ext07_lin k mp) (xview07_lin k))].
      intros [[x|]| |] l Hl; cbn [Qdeq finish] in *.
      + subst l. apply wsafe_ret with (o := VPopFront) (r := RBool true); try reflexivity; try exact I. apply ne1. intros M; congruence.
      + subst l. apply wsafe_ret with (o := VPopFront) (r := RBool false); try reflexivity; try exact I. apply ne1. intros M; congruence.
      + destruct Hl as (pos & ->). apply wsafe_fuel with (p' := PDeq true); try reflexivity; try exact I; auto.
        * intros ? ? ?; exact I.
      + destruct Hl.
    - (* empty *)
      intros g a tr Hi Hv. destruct (wview_inv _ _ _ _ _ _ _ _ Hv) as (Hp & _ & _).
      assert (S := fun Hok => wemit g a tr t PIdle PEmpty 0 (ext X (core X a))
                                [EvCli "inv_empty" []] Hi Hv (ne1 _) eq_refl I I (fun _ => I) (fun _ _ _ => I)
                                (fun F => match F with end) (fun F => match F with end) Hok).
      use_step S.
      { intros [R St]. apply ext_neutral; auto. eapply Ext07_ext; [|exact (ri_ext k sc s0 X E07 _ _ _ R)].
        intros u. cbn. unfold updp. destruct (Nat.eqb_spec u t) as [->|]; [rewrite Hp|]; reflexivity. }
      apply Conc.safe_bind. eapply Conc.safe_weaken;
        [|apply (wsafe_empty k Hk Hk61 q Hq sc s0 X unit (xview07 k) E07 (Ext07_acc k mp) (Ext07_ext k mp))].
      intros [b| |] l Hl; cbn [Qempty finish] in *.
      + destruct Hl as (pos & s & ->). cbn [Conc.safe]. intros g2 a2 tr2 Hi2 Hv2.
        destruct (wview_inv _ _ _ _ _ _ _ _ Hv2) as (Hp2 & _ & _).
        assert (S := fun Hok => wemit g2 a2 tr2 t (EmPos pos) PIdle s (ext X (core X a2))
                                  [EvCli "ret_empty" [b2z b]] Hi2 Hv2 (ne1 _) eq_refl I I (fun _ => I) (fun _ _ _ => I)
                                  (fun F => match F with end) (fun F => match F with end) Hok).
        use_step S.
        { intros [R St]. apply ext_neutral; auto. eapply Ext07_ext; [|exact (ri_ext k sc s0 X E07 _ _ _ R)].
          intros u. cbn. unfold updp. destruct (Nat.eqb_spec u t) as [->|]; [rewrite Hp2|]; reflexivity. }
        cbn. intros _. reflexivity.
      + destruct Hl as (pos & ->). apply wsafe_fuel with (p' := PEmpty); try reflexivity; try exact I; auto.
        * intros ? ? ?; exact I.
      + destruct Hl.
    - (* size *)
      intros g a tr Hi Hv. destruct (wview_inv _ _ _ _ _ _ _ _ Hv) as (Hp & _ & _).
      assert (S := fun Hok => wemit g a tr t PIdle PIdle 0 (ext X (core X a))
                                [EvCli "inv_size" []] Hi Hv (ne1 _) eq_refl I I (fun _ => I) (fun _ _ _ => I)
                                (fun F => match F with end) (fun F => match F with end) Hok).
      use_step S.
      { intros [R St]. apply ext_neutral; auto. eapply Ext07_ext; [|exact (ri_ext k sc s0 X E07 _ _ _ R)].
        intros u. cbn. unfold updp. destruct (Nat.eqb_spec u t) as [->|]; [rewrite Hp|]; reflexivity. }
      apply Conc.safe_bind. eapply Conc.safe_weaken;
        [|apply (wsafe_size k Hk Hk61 q sc s0 X unit (xview07 k) E07 (Ext07_acc k mp) (Ext07_ext k mp))].
      intros n l ->. cbn [Conc.safe]. intros g2 a2 tr2 Hi2 Hv2.
      destruct (wview_inv _ _ _ _ _ _ _ _ Hv2) as (Hp2 & _ & _).
      assert (S := fun Hok => wemit g2 a2 tr2 t PIdle PIdle 0 (ext X (core X a2))
                                [EvCli "ret_size" [n]] Hi2 Hv2 (ne1 _) eq_refl I I (fun _ => I) (fun _ _ _ => I)
                                (fun F => match F with end) (fun F => match F with end) Hok).
      use_step S.
      { intros [R St]. apply ext_neutral; auto. eapply Ext07_ext; [|exact (ri_ext k sc s0 X E07 _ _ _ R)].
        intros u. cbn. unfold updp. destruct (Nat.eqb_spec u t) as [->|]; [rewrite Hp2|]; reflexivity. }
      cbn. intros _. reflexivity.
  Qed.

  Lemma wsafe_run_ops fuel t os :
    (forall o, In o os -> allowed mp sc t o) ->
    safe t (run_ops_g difw q fuel os) (PIdle, 0, tt) (@Conc.QTrue (phase * Z * unit)).
  Proof.
    induction os as [|o r IH]; intros Hal; cbn [run_ops_g]; [exact I|].
    apply Conc.safe_bind. eapply Conc.safe_weaken; [|apply wsafe_run_op; apply Hal; left; reflexivity].
    intros [|] l Hl.
    - rewrite (Hl eq_refl). apply IH. intros o' Ho'. apply Hal. right; exact Ho'.
    - exact I.
  Qed.

  Lemma wsafe_thread fuel t os :
    (forall o, In o os -> allowed mp sc t o) ->
    safe t (thread_prog_g difw q fuel os) (PIdle, 0, tt) (@Conc.QTrue (phase * Z * unit)).
  Proof.
    intros Hal. unfold thread_prog_g. cbn [Conc.safe]. intros g a tr Hi Hv. cbn [a_begin fst snd].
    destruct (wview_inv _ _ _ _ _ _ _ _ Hv) as (Hp & _ & _).
    assert (S := fun Hok => wemit g a tr t PIdle PIdle 0 (ext X (core X a))
                              [EvAcc KBegin [] true] Hi Hv (ne1 _) eq_refl I I (fun _ => I) (fun _ _ _ => I)
                              (fun F => match F with end) (fun F => match F with end) Hok).
    use_step S.
    { intros [R St]. apply ext_neutral; auto. eapply Ext07_ext; [|exact (ri_ext k sc s0 X E07 _ _ _ R)].
      intros u. cbn. unfold updp. destruct (Nat.eqb_spec u t) as [->|]; [rewrite Hp|]; reflexivity. }
    apply wsafe_run_ops; exact Hal.
  Qed.

  (** ** initial configurations: any concrete state related to a ghost state that satisfies the invariant *)
  Definition caux0 : Aux X := mkAux X [] (fun _ => PIdle) [].

  Definition cfg_from (g0 : G) (fuel : nat) (ths : list (list op)) : Conc.config G V ev :=
    Conc.Cfg g0 (map (thread_prog_g difw q fuel) ths) [].

  Lemma winit_ok_gen g0 gg0 fuel ths :
    Rel k g0 gg0 -> RI gg0 caux0 [] -> programs_allowed sc mp ths ->
    Conc.cfg_ok wv WI (cfg_from g0 fuel ths).
  Proof.
    intros H0 R0 Hal. exists (mkW X caux0 gg0 (fun _ => 0)). split.
    - split; [exact H0|]. intros _. split; [exact R0|]. intros t. exact I.
    - intros t p Hp. cbn [cfg_from Conc.threads] in Hp. rewrite nth_error_map in Hp.
      destruct (nth_error ths t) as [os|] eqn:E; inversion Hp; subst.
      apply wsafe_thread. intros o Ho. eapply Hal; eauto.
  Qed.

  Theorem wreach_real_gen g0 gg0 fuel ths c :
    Rel k g0 gg0 -> RI gg0 caux0 [] -> programs_allowed sc mp ths ->
    Conc.reach (cfg_from g0 fuel ths) c -> fresh (Conc.trace c) ->
    exists a : WAux X, Rel k (Conc.shared c) (gh X a) /\ RI (gh X a) (core X a) (Conc.trace c).
  Proof.
    intros H0 R0 Hal Hr Hf. destruct (Conc.reach_Inv (winit_ok_gen g0 gg0 fuel ths H0 R0 Hal) Hr) as (a & HR & Hi).
    exists a. split; [exact HR|]. exact (proj1 (Hi Hf)).
  Qed.

  (** a queue through which [s0] items have passed *)
  Definition gh0 : G := mkG s0 s0 (fun i => s0 + (i - s0) mod cap) (fun _ => 0) 0.

  Lemma init_rel : Rel k (init_at q s0) gh0.
  Proof. constructor; cbn [init_at gh0 posE posD seqs datas cnt]; auto. intros i _. rewrite Hq. reflexivity. Qed.

  Lemma winit_real : RI gh0 caux0 [].
  Proof.
    pose proof (cap_ge2 k Hk) as C2.
    constructor; cbn [gh0 caux0 posE posD seqs datas absq ph ext]; try (intros; discriminate).
    - lia.
    - unfold nclaims; cbn. lia.
    - cbn. lia.
    - intros i Hi. cbn in Hi. lia.
    - intros p Hp. lia.
    - intros p Hp. left. unfold VyukovArith.cell. rewrite Zminus_mod_idemp_l. rewrite Z.mod_small by lia. lia.
    - intros p. pose proof (Z.mod_pos_bound (VyukovArith.cell k p - s0) cap ltac:(lia)). lia.
    - intros t. exact I.
    - intros tc t _ F. destruct F.
    - intros t F. destruct F.
    - repeat split.
      + exists (fun _ => @Idle (VQ capn)). split; reflexivity.
      + intros _. exists []. split; reflexivity.
  Qed.

  Theorem wreach_real fuel ths c :
    programs_allowed sc mp ths -> Conc.reach (init_cfg_at q s0 fuel ths) c -> fresh (Conc.trace c) ->
    exists a : WAux X, Rel k (Conc.shared c) (gh X a) /\ RI (gh X a) (core X a) (Conc.trace c).
  Proof. intros Hal Hr Hf. exact (wreach_real_gen (init_at q s0) gh0 fuel ths c init_rel winit_real Hal Hr Hf). Qed.

End WInst.

(** the constructor's state itself ([Vyukov.init]: positions 0, cell i holds i) with the wrapping programs *)
Section WInst0.
  Variable k : nat.
  Hypothesis Hk : (1 <= k)%nat.
  Hypothesis Hk61 : (k <= 61)%nat.
  Variable q : qcfg.
  Hypothesis Hq : qcap q = 2 ^ Z.of_nat k.
  Variable sc : option nat.
  Variable mp : bool.

  Notation capn := (2 ^ k)%nat.
  Notation X := (list (aev (VQ capn))).

  Lemma init_rel0 : Rel k init init.
  Proof.
    constructor; cbn [init posE posD seqs datas cnt]; auto.
    intros i Hi. symmetry. apply Z.mod_small. pose proof (cap_le_61 k Hk Hk61). rewrite m64_val.
    assert (2 ^ 61 = 2305843009213693952) by reflexivity. lia.
  Qed.

  Theorem wreach_real0 fuel ths c :
    programs_allowed sc mp ths -> Conc.reach (cfg_from q init fuel ths) c -> fresh (Conc.trace c) ->
    exists a : WAux X, Rel k (Conc.shared c) (gh X a) /\
                       RealInv k sc 0 X (Ext07 k mp) (gh X a) (core X a) (Conc.trace c).
  Proof.
    intros Hal Hr Hf.
    exact (wreach_real_gen k Hk Hk61 q Hq sc mp 0 init init fuel ths c init_rel0 (init_real k Hk sc mp) Hal Hr Hf).
  Qed.
End WInst0.
