(** * cds::sync::injecting_monitor< spin_lock >: per-node mutual exclusion, instance of
      LocksProofs.locks_mutex with one lock per node. *)
From Coq Require Import ZArith List String Bool Lia PeanoNat.
From LV Require Import Base.Conc Base.Events Model.SpinLock Model.Locks Model.LocksInj Proofs.LocksProofs.
Import ListNotations.
Local Open Scope Z_scope.

Theorem injmon_mutex nnodes fuel ths c :
  Conc.reach (LocksInj.init_cfg nnodes fuel ths) c ->
  forall node, 0 <= occ node (Conc.trace c) <= 1 /\
               (occ node (Conc.trace c) = 1 -> get_spin (Conc.shared c) node = true).
Proof. apply locks_mutex. Qed.
