(** * DhpConsThm: conservation of retired pointers in the DHP model, for every schedule.

    [dhp_retired_conserved]: in every configuration reachable from the initial one by any sequence of thread choices
    (any number of threads; any client programs in which retire() is called by attached threads only; every block
    size >= 4), if every object is retired at most once and no retired cell was written out of bounds, then every
    object handed to retire() is, at that instant, in exactly one of three places:
      - it has been given to the disposer, or
      - it is one of the cells that ~smr would free for a thread record that is on smr::thread_list_
        ([seq_final c r g] = the cells below the cursor of the retired array of r: LV.Model.Dhp.destroy_recs), or
      - it is in flight in a thread that owns a thread record (between retire() and the push; between stage 2 of a
        scan and the disposer call; being moved by help_scan).
    [dhp_retired_conserved_detached]: when no record is owned (every thread detached), the third case is empty.
    [dhp_oob_false]: the out-of-bounds flag of the model is never set; [..._nooob]: the two theorems without that hypothesis.
    [dhp_scan_begins_with_own_retired] / [dhp_scan_begins_own_rinv]: at "_scanb r" everything the scanning thread retired
    since its last "_att" event and that is not disposed is below the cursor of the (well-formed) retired array of r.
    The invariant is LV.Proofs.DhpConsInv (JW with its converse JC); the free-list hypothesis is discharged by
    LV.Proofs.DhpFlThm.dhp_flbad_false. *)
From Coq Require Import ZArith NArith List String Bool Lia PeanoNat.
From LV Require Import Base.Conc Base.Events Model.DhpLang Model.Dhp Proofs.DhpBase Proofs.DhpSeq Proofs.DhpSeqThm Proofs.DhpHist
  Proofs.DhpLangProofs Proofs.DhpInvB Proofs.DhpConsInv Proofs.DhpConsQuietB Proofs.DhpConsQuietB2 Proofs.DhpConsRulesB Proofs.DhpConsMainC
  Proofs.DhpProofsC02 Proofs.DhpProofsC03.
From LV Require Proofs.DhpFlThm Proofs.DhpConsSTrace Proofs.DhpConsSTrace2.
Import ListNotations.

Definition auxb0 : AuxB := mkAuxB (fun _ => vb0) (fun _ => RNone) (fun _ => LNo) (fun _ => []) (fun _ => 0) (fun _ => 0) (fun _ => false) [].

Lemma JB_init c : JB c (init c) auxb0 [].
Proof.
  constructor.
  - constructor; cbn; auto; try (intros; discriminate); try (intros; contradiction). split; [reflexivity|constructor].
  - constructor; cbn; auto; try (intros; discriminate); try (intros; lia).
    split; [|constructor]. intros b. split; [intros []|discriminate].
  - constructor; cbn; try (intros; discriminate); try (intros; lia); try (intros; congruence).
    split; intros; discriminate.
  - constructor.
    + intros r Hr. cbn in Hr. lia.
    + intros t p. cbn. discriminate.
    + intros t. cbn. split; [constructor|intros p []].
    + cbn. split; [constructor|intros p []].
    + intros p. cbn. congruence.
    + intros t r. cbn. discriminate.
    + intros _. constructor; cbn; try (intros; discriminate); try (intros; lia); try (intros; congruence); try (intros; contradiction).
    + reflexivity.
    + constructor; cbn; intros; discriminate.
Qed.

(** retire() is called by attached threads only: a syntactic condition on the client programs *)
Definition retire_attached (os : list op) : Prop := ra false os.

Lemma cfg_ok_initC fuel c ths : 4 <= c_RB c -> c_old c = false -> c_oldtail c = false -> Forall retire_attached ths ->
  Conc.cfg_ok viewB (InvB c) (init_cfg fuel c ths).
Proof.
  intros H4 Ho Ht Hra. exists auxb0. split.
  - cbn. intros _ _. apply JB_init.
  - intros t p Hp. unfold init_cfg in Hp. cbn [Conc.threads] in Hp. rewrite nth_error_map in Hp.
    destruct (nth_error (combine (seq 0 (List.length ths)) ths) t) as [[t' os]|] eqn:E; [|discriminate].
    cbn in Hp. inversion Hp; subst p. pose proof (nth_error_combine_seq ths _ _ _ _ E) as Et. cbn in Et. subst t'.
    apply compile_safe. apply nth_error_In in E. apply in_combine_r in E. apply spec_thread; auto.
    + apply Forall_forall. intros o _. right. exact Ht.
    + rewrite Forall_forall in Hra. apply Hra. exact E.
Qed.

(** a record is on smr::thread_list_ *)
Definition on_tlist (g : G) (r : nat) : Prop := exists l, is_tl g (tlist g) l /\ In r l.

Lemma in_skipn {A} (x : A) n l : In x (skipn n l) -> In x l.
Proof. intros H. rewrite <- (firstn_skipn n l). apply in_or_app. now right. Qed.

Section Cons.
  Variables (fuel : nat) (c : cfg) (ths : list (list op)) (conf : Conc.config G V ev).
  Hypothesis H4 : 4 <= c_RB c.
  Hypothesis Ho : c_old c = false.
  Hypothesis Ht : c_oldtail c = false.
  Hypothesis Hn : (Z.of_nat (List.length ths) + 3 < 2147483648)%Z.
  Hypothesis Hra : Forall retire_attached ths.
  Hypothesis Hr : Conc.reach (init_cfg fuel c ths) conf.
  Hypothesis Hnd : NoDup (flat_map (fun e => DhpProofsC03.retired_ev (snd e)) (Conc.trace conf)).

  Lemma reach_JB : exists a, JB c (Conc.shared conf) a (Conc.trace conf).
  Proof.
    destruct (Conc.reach_Inv (cfg_ok_initC fuel c ths H4 Ho Ht Hra) Hr) as (a & Hi). exists a. apply Hi; [|exact Hnd].
    apply (DhpFlThm.dhp_flbad_false fuel c ths conf H4 Ho Ht Hn Hr).
  Qed.

  (** the model's out-of-bounds flag is never set: no retired cell is written outside its block, no pointer is pushed
      into a record without retired array (the thread-local knowledge [vb_arr] of LV.Proofs.DhpConsInv) *)
  Theorem dhp_oob_false : oob (Conc.shared conf) = false.
  Proof. destruct reach_JB as (a & [_ _ _ [_ _ _ _ _ _ _ W8]]). exact W8. Qed.

  (** ** the ownership invariant behind "a scan frees what no guard holds": at the beginning of every scan ("_scanb r" is
         the last event of the trace: the configuration right after the step that emits it), every object the scanning
         thread has handed to retire() since its last "_att" event (which was for the scanned record r) and that is not
         yet disposed is below the cursor of the retired array of r -- the cells stage 2 of this scan goes through *)
  Lemma dhp_scan_begins_own_rinv : forall tr0 tr1 t r,
    Conc.trace conf = tr0 ++ (t, ev_att r) :: tr1 ++ [(t, ev_scanb r)] ->
    (forall e, In e tr1 -> fst e = t -> forall r', classify (snd e) <> HAtt r') ->
    forall p, In p (flat_map (fun e => if Nat.eqb (fst e) t then DhpProofsC03.retired_ev (snd e) else []) tr1) ->
    ~ In p (disposed_of (Conc.trace conf)) ->
    exists chain w, Rinv c (Conc.shared conf) r chain w /\ In p (content (Conc.shared conf) chain w).
  Proof.
    intros tr0 tr1 t r Etr Hna p Hp Hnd'. destruct reach_JB as (a & [O1 K1 R1 [W1 W2 W3 W4 W5 W6 W7 W8 [H1 H2 H3]]]).
    destruct (W7 W8) as [C1 C2 C3 C4 C5 C6 C7]. set (g := Conc.shared conf) in *. set (T := Conc.trace conf) in *.
    assert (ET : T = (tr0 ++ (t, ev_att r) :: tr1) ++ [(t, ev_scanb r)]) by (rewrite Etr, <- app_assoc; reflexivity).
    assert (Hl : DhpConsSTrace.lsb T t = Some r) by (rewrite ET, DhpConsSTrace.lsb_snoc, classify_scanb; reflexivity).
    destruct (H3 t r (H2 t r Hl)) as (Hpe & Hfr & Hmi). destruct (H1 t r Hmi) as (Hown & _ & X3).
    assert (Hin : In p (DhpConsSTrace.mine T t)).
    { rewrite ET, DhpConsSTrace.mine_snoc, classify_scanb. cbn [app].
      replace (tr0 ++ (t, ev_att r) :: tr1) with ((tr0 ++ [(t, ev_att r)]) ++ tr1) by (rewrite <- app_assoc; reflexivity).
      rewrite DhpConsSTrace.mine_app, DhpConsSTrace.mine_snoc, classify_att.
      apply DhpConsSTrace2.mine_fold_in; [exact Hna|]. right. exact Hp. }
    destruct (X3 p Hin) as [Ew|[Ew|Ew]].
    - destruct (C2 p r Ew) as (Hlt & Hi). destruct R1 as [R1 _ _ _ _ _].
      assert (Hne : rch a r <> []). { intros E. unfold ec, content, flat in Hi. rewrite E in Hi. cbn in Hi. rewrite firstn_nil, skipn_nil in Hi. contradiction. }
      destruct (R1 r Hlt) as [(E & _)|(_ & I & _)]; [contradiction|].
      exists (rch a r), (rw a r). split; [exact I|]. unfold ec in Hi. eapply in_skipn; eauto.
    - exfalso. destruct (C3 p t Ew) as ([X|X] & _); [congruence|rewrite Hfr in X; contradiction].
    - exfalso. apply Hnd'. apply (C4 p Ew).
  Qed.

  Theorem dhp_scan_begins_with_own_retired : forall tr0 tr1 t r,
    Conc.trace conf = tr0 ++ (t, ev_att r) :: tr1 ++ [(t, ev_scanb r)] ->
    (forall e, In e tr1 -> fst e = t -> forall r', classify (snd e) <> HAtt r') ->
    forall p, In p (flat_map (fun e => if Nat.eqb (fst e) t then DhpProofsC03.retired_ev (snd e) else []) tr1) ->
    ~ In p (disposed_of (Conc.trace conf)) ->
    In p (seq_final c r (Conc.shared conf)).
  Proof.
    intros tr0 tr1 t r Etr Hna p Hp Hnd'. destruct (dhp_scan_begins_own_rinv tr0 tr1 t r Etr Hna p Hp Hnd') as (chain & w & I & Hi).
    rewrite (seq_final_content c ltac:(lia) H4 _ r _ _ I). exact Hi.
  Qed.

  Theorem dhp_retired_conserved : oob (Conc.shared conf) = false ->
    forall p, In p (flat_map (fun e => DhpProofsC03.retired_ev (snd e)) (Conc.trace conf)) ->
      In p (disposed_of (Conc.trace conf)) \/
      (exists r, on_tlist (Conc.shared conf) r /\ In p (seq_final c r (Conc.shared conf))) \/
      (exists r, r < List.length (recs (Conc.shared conf)) /\ r_tid (grec (Conc.shared conf) r) <> 0).
  Proof.
    intros Hoob p Hp. destruct reach_JB as (a & [O1 K1 R1 [W1 W2 W3 W4 W5 W6 W7 W8 W9]]).
    destruct (W7 Hoob) as [C1 C2 C3 C4 C5 C6 C7]. set (g := Conc.shared conf) in *.
    pose proof (C1 p Hp) as Hw. destruct (wh a p) as [|r|t|] eqn:Ew; [congruence| | |].
    - right. left. destruct (C2 p r Ew) as (Hlt & Hin). exists r.
      assert (Hne : rch a r <> []). { intros E. unfold ec, content, flat in Hin. rewrite E in Hin. cbn in Hin. rewrite firstn_nil, skipn_nil in Hin. contradiction. }
      split.
      + exists (tl a). split; [apply O1|]. destruct (C5 r Hlt) as [X|(t & nx & X)]; [exact X|]. exfalso. apply Hne. eapply C6; eauto.
      + destruct R1 as [R1 _ _ _ _ _]. destruct (R1 r Hlt) as [(E & _)|(_ & I & _)]; [contradiction|].
        rewrite (seq_final_content c ltac:(lia) H4 g r _ _ I). unfold ec in Hin. eapply in_skipn; eauto.
    - right. right. destruct (C3 p t Ew) as (_ & Hown). destruct (vb_own (bvs a t)) as [|r l] eqn:E; [congruence|].
      destruct O1 as [_ _ _ _ O5]. destruct (O5 t r) as (X1 & X2); [rewrite E; now left|]. exists r. split; auto. rewrite X2. discriminate.
    - left. apply (C4 p Ew).
  Qed.

  (** when no thread record is owned (every thread has detached, or never attached), every retired object has been
      disposed or waits in the retired array of a record on thread_list_, where ~smr will free it *)
  Theorem dhp_retired_conserved_nooob : forall p, In p (flat_map (fun e => DhpProofsC03.retired_ev (snd e)) (Conc.trace conf)) ->
      In p (disposed_of (Conc.trace conf)) \/
      (exists r, on_tlist (Conc.shared conf) r /\ In p (seq_final c r (Conc.shared conf))) \/
      (exists r, r < List.length (recs (Conc.shared conf)) /\ r_tid (grec (Conc.shared conf) r) <> 0).
  Proof. exact (dhp_retired_conserved dhp_oob_false). Qed.

  Corollary dhp_retired_conserved_detached : oob (Conc.shared conf) = false ->
    (forall r, r < List.length (recs (Conc.shared conf)) -> r_tid (grec (Conc.shared conf) r) = 0) ->
    forall p, In p (flat_map (fun e => DhpProofsC03.retired_ev (snd e)) (Conc.trace conf)) ->
      In p (disposed_of (Conc.trace conf)) \/
      (exists r, on_tlist (Conc.shared conf) r /\ In p (seq_final c r (Conc.shared conf))).
  Proof.
    intros Hoob H0 p Hp. destruct (dhp_retired_conserved Hoob p Hp) as [H|[H|(r & H1 & H2)]]; auto. exfalso. apply H2. now apply H0.
  Qed.

  Corollary dhp_retired_conserved_detached_nooob :
    (forall r, r < List.length (recs (Conc.shared conf)) -> r_tid (grec (Conc.shared conf) r) = 0) ->
    forall p, In p (flat_map (fun e => DhpProofsC03.retired_ev (snd e)) (Conc.trace conf)) ->
      In p (disposed_of (Conc.trace conf)) \/
      (exists r, on_tlist (Conc.shared conf) r /\ In p (seq_final c r (Conc.shared conf))).
  Proof. exact (dhp_retired_conserved_detached dhp_oob_false). Qed.
End Cons.
