(** * EllenBinTree<HP> with erase: the global invariant [DS] (Owicki–Gries over [Conc.safe]) and its stability

    Ghost state: [dpub] published nodes; [dever k n] "n was on the search path of k at some time"; [ddead] internal nodes
    that were spliced out by the child CAS of help_marked; [dmax x] the largest counter of a Clean update word ever installed
    at x (the ABA counter m_nEmptyUpdate is at least that); per thread a list of persistent facts, its unlinked leaf /
    internal node, the flags it holds ([hold]), its next serial number and the status of its operation in the
    LP-annotated trace [datr].

    The update-descriptor invariants of Ellen et al. as proved here (this implementation has no helping):
      - a node's children change only by the thread that holds IFlag / DFlag at it ([r_ch]), a marked node is frozen
        ([FFz] facts are stable);
      - a Clean update word, once replaced, never comes back ([FCl] facts: "if the update word of x still is the Clean
        word w then x.child[d] still is c" are stable; [dmax]);
      - an internal node that ever was on the search path of k and was not spliced out IS on the search path of k
        ([d_evpath]); a spliced-out node is marked and unreachable ([d_dead]). *)
From Coq Require Import ZArith List String Bool Lia PeanoNat.
From LV Require Import Base.Conc Base.Events Base.Lin Spec.Specs Proofs.LinProofs.
From LV Require Proofs.MichaelListInv Proofs.MichaelListLin.
From LV Require Import Model.Ellen Proofs.EllenProofs Proofs.EllenDelBase.
Import ListNotations.
Local Open Scope Z_scope.

Inductive fact :=
| FEv (k : Z) (n : ptr)
| FFl (n : ptr) (f key : Z)
| FAv (x : ptr) (w : uword)
| FCl (x : ptr) (w : uword) (d : bool) (c : ptr)
| FFz (x : ptr) (d : bool) (c : ptr)
| FRc (c : ptr)
| FDead.

Record hold := mkH { hx : ptr; hop : ptr; hb : nat; hn : option nat; hmk : option ptr; hch : list (bool * ptr) }.
Record core := mkC {
  cleaf : option ptr; cni : option (ptr * Z * Z * ptr * ptr); chs : list hold; cser : nat; cst : status SetSpec }.
Record dview := mkDV { wf : list fact; wc : core }.
Record daux := mkDA {
  dpub : ptr -> bool; dever : Z -> ptr -> Prop; ddead : ptr -> Prop; dmax : ptr -> nat;
  dviews : nat -> dview; datr : list (aev SetSpec) }.
Definition view (a : daux) (t : nat) : dview := dviews a t.
Definition mk_a (a : daux) (t : nat) pub' ev' dead' max' (lv' : dview) atr' : daux :=
  mkDA pub' ev' dead' max' (fun u => if Nat.eqb u t then lv' else dviews a u) atr'.
Lemma view_mk_same a t p e d m lv' atr' : view (mk_a a t p e d m lv' atr') t = lv'.
Proof. unfold view, mk_a; cbn. now rewrite Nat.eqb_refl. Qed.
Lemma view_mk_other a t p e d m lv' atr' u : u <> t -> view (mk_a a t p e d m lv' atr') u = view a u.
Proof. unfold view, mk_a; cbn. intros H. destruct (Nat.eqb_spec u t); congruence. Qed.
Lemma frame_mk a t p e d m lv' atr' : Conc.frame view t a (mk_a a t p e d m lv' atr').
Proof. intros u H. now apply view_mk_other. Qed.

Definition fact_ok (g : G) (a : daux) (f : fact) : Prop :=
  match f with
  | FEv k n => dever a k n
  | FFl n f key => dpub a n = true /\ flags g n = f /\ ikey g n = key
  | FAv x w => dpub a x = true /\ (snd w = 0%nat -> (fst w <= dmax a x)%nat)
  | FCl x w d c => dpub a x = true /\ (snd w = 0%nat -> (fst w <= dmax a x)%nat /\ (upd g x = w -> child g x d = c))
  | FFz x d c => dpub a x = true /\ snd (upd g x) = 3%nat /\ child g x d = c
  | FRc c => dpub a c = true /\ (~ internal g c -> inf_of (flags g c) <> 0)
  | FDead => False
  end.

Definition hold_ok (g : G) (a : daux) (t : nat) (h : hold) : Prop :=
  dpub a (hx h) = true /\ internal g (hx h) /\ upd g (hx h) = (hop h, hb h) /\ (hb h = 1 \/ hb h = 2)%nat /\
  (4 <= hop h)%nat /\ owner_of (hop h) = t /\
  (forall y, snd (upd g y) <> 0%nat -> fst (upd g y) = hop h -> y = hx h \/ Some y = hmk h) /\
  match hn h with Some n => (dmax a (hx h) <= n /\ n < emp g (hx h))%nat | None => True end /\
  (forall d c, In (d, c) (hch h) -> child g (hx h) d = c).

Definition lv_ok (g : G) (a : daux) (t : nat) (lv : dview) : Prop :=
  let c := wc lv in
  Forall (fact_ok g a) (wf lv) /\
  match cleaf c with Some l => own_ok (dpub a) t l /\ flags g l = 0 | None => True end /\
  match cni c with
  | Some (n, f, key, l, r) => (own_ok (dpub a) t n /\ cleaf c <> Some n) /\ flags g n = f /\ ikey g n = key /\ lft g n = l /\ rgt g n = r
  | None => True
  end /\
  (Forall (hold_ok g a t) (chs c) /\ NoDup (map hop (chs c)) /\ Forall (fun h => (ser_of (hop h) < cser c)%nat) (chs c)) /\
  (forall n, (4 <= n)%nat -> owner_of n = t -> (cser c <= ser_of n)%nat ->
     dpub a n = false /\ cleaf c <> Some n /\ (forall f key l r, cni c <> Some (n, f, key, l, r)) /\
     (forall x, snd (upd g x) <> 0%nat -> fst (upd g x) <> n)).

Record DS (g : G) (a : daux) : Prop := {
  d_T : T g root (-1) 1002;
  d_root : flags g root = 5;
  d_L : node_key g (lft g root) = 1000;
  d_noroot : forall n d, dpub a n = true -> internal g n -> child g n d <> root;
  d_closed : forall n d, dpub a n = true -> internal g n -> dpub a (child g n d) = true;
  d_rootpub : dpub a root = true;
  d_null : flags g null = 0;
  d_unpub : forall x, dpub a x = false -> upd g x = (0%nat, 0%nat) /\ dmax a x = 0%nat;
  d_ver : forall x, (forall c, upd g x = (c, 0%nat) -> (c <= dmax a x)%nat) /\ (dmax a x <= emp g x)%nat;
  d_evpub : forall k n, dever a k n -> dpub a n = true;
  d_evroot : forall k, dever a k root;
  d_evchild : forall k n, dever a k n -> internal g n -> dever a k (child g n (dirk g k n));
  d_evpath : forall k n, dever a k n -> internal g n -> ~ ddead a n -> path g k root n;
  d_dead : forall n, ddead a n -> dpub a n = true /\ snd (upd g n) = 3%nat /\ ~ insub g root n;
  d_views : forall t, lv_ok g a t (view a t)
}.

Lemma insub_dpub g a x : DS g a -> insub g root x -> dpub a x = true.
Proof. intros Hs H. induction H as [|m d Hm IH Hi]; [apply (d_rootpub _ _ Hs)|now apply (d_closed _ _ Hs)]. Qed.

(** ** what one step of thread [t] may change *)
Record stepR (t : nat) (g : G) (a : daux) (g' : G) (a' : daux) : Prop := {
  r_pub : forall x, dpub a x = true -> dpub a' x = true;
  r_pubo : forall x, (4 <= x)%nat -> owner_of x <> t -> dpub a' x = dpub a x;
  r_ev : forall k n, dever a k n -> dever a' k n;
  r_max : forall x, (dmax a x <= dmax a' x)%nat;
  r_fl : forall x, dpub a x = true \/ ((4 <= x)%nat /\ owner_of x <> t) -> flags g' x = flags g x /\ ikey g' x = ikey g x;
  r_cho : forall x d, (4 <= x)%nat -> owner_of x <> t -> dpub a x = false -> child g' x d = child g x d;
  r_ch : forall x d, dpub a x = true ->
      child g' x d = child g x d \/
      (upd g' x = upd g x /\ (snd (upd g x) = 1 \/ snd (upd g x) = 2)%nat /\ owner_of (fst (upd g x)) = t);
  r_upd : forall x, upd g' x = upd g x \/
      ((snd (upd g x) = 0%nat \/ ((snd (upd g x) = 1 \/ snd (upd g x) = 2)%nat /\ owner_of (fst (upd g x)) = t)) /\
       ((snd (upd g' x) <> 0%nat /\ owner_of (fst (upd g' x)) = t) \/ (snd (upd g' x) = 0%nat /\ (dmax a x < fst (upd g' x))%nat)));
  r_maxo : forall x, dmax a' x = dmax a x \/ ((snd (upd g x) = 1 \/ snd (upd g x) = 2)%nat /\ owner_of (fst (upd g x)) = t);
  r_emp : forall x, dpub a x = true -> (emp g x <= emp g' x)%nat
}.

Lemma internal_fl g g' x : flags g' x = flags g x -> (internal g' x <-> internal g x).
Proof. intros E. unfold internal. now rewrite E. Qed.

Lemma fact_stable t g a g' a' f : stepR t g a g' a' -> fact_ok g a f -> fact_ok g' a' f.
Proof.
  intros R. destruct f as [k n|n f key|x w|x w d c|x d c|c|]; cbn [fact_ok]; [| | | | | |exact (fun H => H)].
  - apply (r_ev _ _ _ _ _ R).
  - intros (A & B & C). destruct (r_fl _ _ _ _ _ R n (or_introl A)) as [E1 E2]. rewrite E1, E2. split; [now apply (r_pub _ _ _ _ _ R)|auto].
  - intros (A & B). split; [now apply (r_pub _ _ _ _ _ R)|]. intros H. pose proof (r_max _ _ _ _ _ R x). specialize (B H). lia.
  - intros (A & B). split; [now apply (r_pub _ _ _ _ _ R)|]. intros H. destruct (B H) as [B1 B2]. pose proof (r_max _ _ _ _ _ R x) as M. split; [lia|].
    intros E. destruct (r_upd _ _ _ _ _ R x) as [U|(_ & [(U1 & _)|(U1 & U2)])].
    + rewrite U in E. destruct (r_ch _ _ _ _ _ R x d A) as [C|(_ & C & _)]; [rewrite C; now apply B2|]. rewrite E in C. lia.
    + rewrite E in U1. contradiction.
    + rewrite E in U2. lia.
  - intros (A & B & C). split; [now apply (r_pub _ _ _ _ _ R)|].
    assert (U : upd g' x = upd g x) by (destruct (r_upd _ _ _ _ _ R x) as [U|([U|([U|U] & _)] & _)]; [exact U|lia|lia|lia]).
    rewrite U. split; [exact B|]. destruct (r_ch _ _ _ _ _ R x d A) as [E|(_ & E & _)]; [now rewrite E|lia].
  - intros (A & B). split; [now apply (r_pub _ _ _ _ _ R)|]. destruct (r_fl _ _ _ _ _ R c (or_introl A)) as [E1 _].
    rewrite E1. intros N. apply B. intros X. apply N. now apply (internal_fl g g' c E1).
Qed.

(** a hold whose node, children, counter bound are untouched and whose descriptor is not installed anywhere *)
Lemma hold_stable_gen t u g a g' a' h :
  stepR t g a g' a' -> hold_ok g a u h ->
  upd g' (hx h) = upd g (hx h) -> (forall d, child g' (hx h) d = child g (hx h) d) -> dmax a' (hx h) = dmax a (hx h) ->
  (forall y, upd g' y <> upd g y -> snd (upd g' y) = 0%nat \/ fst (upd g' y) <> hop h) ->
  hold_ok g' a' u h.
Proof.
  intros R (A & B & C & D & E & F & Gq & H & I) c1 c2 c3 c4.
  destruct (r_fl _ _ _ _ _ R (hx h) (or_introl A)) as [E1 _].
  split; [now apply (r_pub _ _ _ _ _ R)|]. split; [now apply (internal_fl g g' _ E1)|]. split; [now rewrite c1|]. split; [exact D|].
  split; [exact E|]. split; [exact F|]. split; [|split].
  - intros y Hy1 Hy2. destruct (r_upd _ _ _ _ _ R y) as [U|_].
    + rewrite U in *. now apply Gq.
    + assert (N : upd g' y <> upd g y \/ upd g' y = upd g y) by (destruct (u_eqb (upd g' y) (upd g y)) eqn:X; [right|left];
        [unfold u_eqb in X; apply andb_true_iff in X; destruct X as [X1 X2]; apply Nat.eqb_eq in X1, X2; destruct (upd g' y), (upd g y); cbn in *; congruence|
         intros Z; rewrite Z in X; unfold u_eqb in X; rewrite !Nat.eqb_refl in X; discriminate]).
      destruct N as [N|N]; [destruct (c4 y N); contradiction|rewrite N in *; now apply Gq].
  - destruct (hn h) as [n|]; [|exact Logic.I]. rewrite c3. pose proof (r_emp _ _ _ _ _ R (hx h) A). lia.
  - intros d c Hin. rewrite c2. now apply I.
Qed.

Lemma hold_stable t u g a g' a' h : stepR t g a g' a' -> u <> t -> hold_ok g a u h -> hold_ok g' a' u h.
Proof.
  intros R Nu Hh. pose proof Hh as (A & B & C & D & E & F & _).
  apply (hold_stable_gen t u g a g' a' h R Hh).
  - destruct (r_upd _ _ _ _ _ R (hx h)) as [U|([U|(_ & U)] & _)]; [exact U|rewrite C in U; cbn [fst snd] in U; lia|rewrite C in U; cbn [fst snd] in U; congruence].
  - intros d. destruct (r_ch _ _ _ _ _ R (hx h) d A) as [X|(_ & _ & X)]; [exact X|rewrite C in X; cbn [fst snd] in X; congruence].
  - destruct (r_maxo _ _ _ _ _ R (hx h)) as [X|(_ & X)]; [exact X|rewrite C in X; cbn [fst snd] in X; congruence].
  - intros y Ny. destruct (r_upd _ _ _ _ _ R y) as [U|(_ & [(_ & U)|(U & _)])]; [contradiction|right; intros X; rewrite X in U; congruence|now left].
Qed.

Lemma lv_ok_other t u g a g' a' lv : stepR t g a g' a' -> u <> t -> lv_ok g a u lv -> lv_ok g' a' u lv.
Proof.
  intros R Nu (H1 & H2 & H3 & (H4 & H4b & H4c) & H5). split; [|split; [|split; [|split]]].
  - rewrite Forall_forall in *. intros f Hf. eapply fact_stable; eauto.
  - destruct (cleaf (wc lv)) as [l|]; [|exact Logic.I]. destruct H2 as [(O1 & O2 & O3) F].
    assert (No : owner_of l <> t) by congruence.
    destruct (r_fl _ _ _ _ _ R l (or_intror (conj O1 No))) as [E1 _]. rewrite E1.
    split; [|exact F]. split; [exact O1|]. split; [|exact O3]. now rewrite (r_pubo _ _ _ _ _ R l O1 No).
  - destruct (cni (wc lv)) as [[[[[m f] key] l] r]|]; [|exact Logic.I]. destruct H3 as [((O1 & O2 & O3) & O4) (F1 & F2 & F3 & F4)].
    assert (No : owner_of m <> t) by congruence.
    destruct (r_fl _ _ _ _ _ R m (or_intror (conj O1 No))) as [E1 E2]. rewrite E1, E2.
    pose proof (r_cho _ _ _ _ _ R m false O1 No O2) as C1. pose proof (r_cho _ _ _ _ _ R m true O1 No O2) as C2. cbn [child] in C1, C2.
    rewrite C1, C2. split; [|auto]. split; [|exact O4]. split; [exact O1|]. split; [|exact O3]. now rewrite (r_pubo _ _ _ _ _ R m O1 No).
  - split; [|split; [exact H4b|exact H4c]]. rewrite Forall_forall in *. intros h Hh. eapply hold_stable; eauto.
  - intros n Hn1 Hn2 Hn3. destruct (H5 n Hn1 Hn2 Hn3) as (A & B & C & D).
    assert (No : owner_of n <> t) by congruence.
    split; [now rewrite (r_pubo _ _ _ _ _ R n Hn1 No)|]. split; [exact B|]. split; [exact C|].
    intros x Hx1 Hx2. destruct (r_upd _ _ _ _ _ R x) as [U|(_ & [(_ & U)|(U & _)])].
    + rewrite U in *. now apply (D x).
    + rewrite Hx2 in U. congruence.
    + contradiction.
Qed.

(** ** steps that leave published tree fields, [dpub], [dever], [ddead] alone *)
Lemma DS_keep t g a g' max' lv' atr' :
  DS g a ->
  let a' := mk_a a t (dpub a) (dever a) (ddead a) max' lv' atr' in
  stepR t g a g' a' ->
  (forall x, dpub a x = true -> lft g' x = lft g x /\ rgt g' x = rgt g x) ->
  flags g' null = 0 ->
  (forall x, dpub a x = false -> upd g' x = (0%nat, 0%nat) /\ max' x = 0%nat) ->
  (forall x, (forall c, upd g' x = (c, 0%nat) -> (c <= max' x)%nat) /\ (max' x <= emp g' x)%nat) ->
  lv_ok g' a' t lv' ->
  DS g' a'.
Proof.
  intros Hs a' R Hlr Hnull Hun Hver Hv.
  assert (Hfl : forall x, dpub a x = true -> flags g' x = flags g x /\ ikey g' x = ikey g x) by (intros x Hx; apply (r_fl _ _ _ _ _ R); now left).
  assert (Hso : same_on g g' (insub g root)).
  { intros x Hx. pose proof (insub_dpub g a x Hs Hx) as Px. destruct (Hfl x Px). destruct (Hlr x Px). auto. }
  assert (Hch : forall x d, dpub a x = true -> child g' x d = child g x d) by (intros x d Px; destruct (Hlr x Px) as [E1 E2]; unfold child; now rewrite E1, E2).
  assert (Hin : forall x, dpub a x = true -> (internal g' x <-> internal g x)) by (intros x Px; apply internal_fl; apply (Hfl x Px)).
  assert (Hir : internal g root) by (unfold internal; rewrite (d_root _ _ Hs); reflexivity).
  constructor; cbn [dpub dever ddead dmax mk_a a'].
  - eapply T_frame; [apply (d_T _ _ Hs)|exact Hso].
  - destruct (Hfl root (d_rootpub _ _ Hs)) as [E _]. rewrite E. apply (d_root _ _ Hs).
  - destruct (Hlr root (d_rootpub _ _ Hs)) as [E _]. rewrite E.
    destruct (Hfl (lft g root) (d_closed _ _ Hs root false (d_rootpub _ _ Hs) Hir)) as [E1 E2].
    rewrite (node_key_same g g' _ E1 E2). apply (d_L _ _ Hs).
  - intros n d Pn In. rewrite (Hch n d Pn). apply (d_noroot _ _ Hs); [exact Pn|now apply Hin].
  - intros n d Pn In. rewrite (Hch n d Pn). apply (d_closed _ _ Hs); [exact Pn|now apply Hin].
  - apply (d_rootpub _ _ Hs).
  - exact Hnull.
  - exact Hun.
  - exact Hver.
  - apply (d_evpub _ _ Hs).
  - apply (d_evroot _ _ Hs).
  - intros k n En In. pose proof (d_evpub _ _ Hs k n En) as Pn. destruct (Hfl n Pn) as [E1 E2].
    assert (Ed : dirk g' k n = dirk g k n) by (unfold dirk; now rewrite E1, E2).
    rewrite Ed, (Hch n _ Pn). apply (d_evchild _ _ Hs); [exact En|now apply Hin].
  - intros k n En In Nd. pose proof (d_evpub _ _ Hs k n En) as Pn.
    eapply path_frame; [|exact Hso]. apply (d_evpath _ _ Hs); auto. now apply Hin.
  - intros n Dn. destruct (d_dead _ _ Hs n Dn) as (A & B & C). split; [exact A|]. split.
    + destruct (r_upd _ _ _ _ _ R n) as [U|([U|([U|U] & _)] & _)]; [now rewrite U|lia|lia|lia].
    + intros X. apply C. eapply insub_frame_rev; eauto.
  - intros u. destruct (Nat.eq_dec u t) as [->|Nu]; [unfold a'; rewrite view_mk_same; exact Hv|].
    unfold a'. rewrite view_mk_other by exact Nu. eapply lv_ok_other; eauto. apply (d_views _ _ Hs).
Qed.

(** ** the LP-annotated trace *)
Definition sp_op (code k : Z) : set_op :=
  if code =? 1 then SInsert k else if code =? 6 then SErase k else SContains k.

Module MI := MichaelListInv.
Module ML := MichaelListLin.

Definition hstep (out : history SetSpec) (te : nat * ev) : history SetSpec :=
  match te with
  | (t, EvCli name args) =>
      if String.eqb name "inv"%string then
        match args with
        | [c; k] => out ++ [@HInv SetSpec t (sp_op c k)]
        | _ => out
        end
      else if String.eqb name "res"%string then
        match args, MI.last_inv_op t out None with
        | [a; b], Some o =>
            let r := RBool (a =? 1) in
            if MI.is_read o r then MI.rm_last (MI.is_hinv t) out else out ++ [@HRes SetSpec t r]
        | _, _ => out
        end
      else out
  | (_, EvAcc _ _ _) => out
  end.

Definition prefill_history (keys : list nat) : history SetSpec :=
  flat_map (fun k => [@HInv SetSpec 90%nat (SInsert (Z.of_nat k)); @HRes SetSpec 90%nat (RBool true)]) keys.

(** invoke / response history from which every completed operation that did not modify the set (contains, insert ->
    false, erase -> false) has been deleted; the pre-filled keys are inserted by thread 90 before *)
Definition upd_hist (keys : list nat) (tr : list (nat * ev)) : history SetSpec :=
  fold_left hstep tr (prefill_history keys).

Definition abs (g : G) (S : list Z) : Prop := forall k, zmem k S = true <-> mem g k.

Record IL (keys : list nat) (g : G) (a : daux) (tr : list (nat * ev)) : Prop := {
  l_run : exists S st, lp_run lp_init (datr a) = Some (S, st) /\ (forall t, st t = cst (wc (view a t))) /\ abs g S;
  l_hist : erase (datr a) = upd_hist keys tr
}.

Definition exhausted (tr : list (nat * ev)) : Prop := exists t, In (t, EvCli "outoffuel"%string []) tr.
Definition DInvA (keys : list nat) (g : G) (a : daux) (tr : list (nat * ev)) : Prop :=
  DS g a /\ (IL keys g a tr \/ exhausted tr).
(** once a thread has run out of the model's loop fuel (the real code has no such bound) nothing is claimed *)
Definition DInv (keys : list nat) (g : G) (a : daux) (tr : list (nat * ev)) : Prop :=
  exhausted tr \/ DInvA keys g a tr.
Definition deadv : dview := mkDV [FDead] (mkC None None [] 0 (@Idle SetSpec)).

Section Safe.
Variable keys : list nat.

Definition DSAFE {R} (t : nat) (p : prog R) (lv : dview) : Prop :=
  @Conc.safe G V ev daux dview view (DInv keys) R t p lv (fun _ _ => True).

Lemma upd_hist_acc tr t k o ok : upd_hist keys (tr ++ Conc.tag t [EvAcc k o ok]) = upd_hist keys tr.
Proof. unfold upd_hist. rewrite fold_left_app. reflexivity. Qed.
Lemma upd_hist_snoc tr e : upd_hist keys (tr ++ [e]) = hstep (upd_hist keys tr) e.
Proof. unfold upd_hist. rewrite fold_left_app. reflexivity. Qed.
Lemma exhausted_app tr tr' : exhausted tr -> exhausted (tr ++ tr').
Proof. intros (t & H). exists t. apply in_or_app. now left. Qed.

Lemma alive g a t : DS g a -> view a t <> deadv.
Proof. intros Hs E. destruct (d_views _ _ Hs t) as (H & _). rewrite E in H. inversion H as [|? ? X]. exact X. Qed.

Lemma safe_dead {R} t (p : prog R) : DSAFE t p deadv.
Proof.
  unfold DSAFE. induction p as [r|es k IH|f k IH]; cbn [Conc.safe]; [exact Logic.I| |].
  - intros g a tr [Hex|[Hs _]] Hv; [|exfalso; eapply alive; eauto]. exists a. split; [left; now apply exhausted_app|]. split; [intros u _; reflexivity|]. rewrite Hv. exact IH.
  - intros g a tr [Hex|[Hs _]] Hv; [|exfalso; eapply alive; eauto]. exists a. split; [left; now apply exhausted_app|]. split; [intros u _; reflexivity|]. rewrite Hv. apply IH.
Qed.

Lemma D_act {R} t f (k : V -> prog R) lv :
  (forall g a tr, DInvA keys g a tr -> view a t = lv ->
     exists pub' ev' dead' max' lv' atr',
       DInvA keys (fst (fst (f g))) (mk_a a t pub' ev' dead' max' lv' atr') (tr ++ Conc.tag t (snd (f g))) /\
       DSAFE t (k (snd (fst (f g)))) lv') ->
  DSAFE t (Act f k) lv.
Proof.
  intros H. unfold DSAFE. cbn [Conc.safe]. intros g a tr [Hex|Hi] Hv.
  - exists (mk_a a t (dpub a) (dever a) (ddead a) (dmax a) deadv (datr a)). split; [left; now apply exhausted_app|]. split; [apply frame_mk|].
    rewrite view_mk_same. apply safe_dead.
  - destruct (H g a tr Hi Hv) as (pub' & ev' & dead' & max' & lv' & atr' & H1 & H2).
    exists (mk_a a t pub' ev' dead' max' lv' atr'). split; [right; exact H1|]. split; [apply frame_mk|]. now rewrite view_mk_same.
Qed.

Definition one_acc (f : G -> G * V * list ev) : Prop := forall g, exists kd ob ok, snd (f g) = [EvAcc kd ob ok].

(** the annotated trace is untouched by a step that is not a linearization point *)
Lemma IL_keep g g' a t pub' ev' dead' max' lv' tr kd ob ok :
  IL keys g a tr -> cst (wc lv') = cst (wc (view a t)) ->
  (forall S, abs g S -> abs g' S) ->
  IL keys g' (mk_a a t pub' ev' dead' max' lv' (datr a)) (tr ++ Conc.tag t [EvAcc kd ob ok]).
Proof.
  intros [(S & st & H1 & H2 & H3) H4] Hs Ha. constructor; cbn [datr mk_a].
  - exists S, st. split; [exact H1|]. split; [|now apply Ha].
    intros u. destruct (Nat.eq_dec u t) as [->|Hu]; [rewrite view_mk_same; rewrite H2; congruence|].
    rewrite view_mk_other by exact Hu. apply H2.
  - rewrite upd_hist_acc. exact H4.
Qed.

(** a linearization point *)
Lemma IL_lp g g' a t pub' ev' dead' max' lv' tr kd ob ok o :
  IL keys g a tr -> cst (wc (view a t)) = @Pending SetSpec o ->
  (forall S, abs g S -> abs g' (fst (set_step S o)) /\ cst (wc lv') = @Linearized SetSpec o (snd (set_step S o))) ->
  IL keys g' (mk_a a t pub' ev' dead' max' lv' (datr a ++ [ALin t])) (tr ++ Conc.tag t [EvAcc kd ob ok]).
Proof.
  intros [(S & st & H1 & H2 & H3) H4] Hs Ha. destruct (Ha S H3) as [Ha1 Ha2]. constructor; cbn [datr mk_a].
  - exists (fst (set_step S o)), (Lin.upd st t (@Linearized SetSpec o (snd (set_step S o)))). split; [|split; [|exact Ha1]].
    + rewrite (MI.lp_run_snoc _ _ _ H1). cbn [lp_step]. rewrite H2, Hs. reflexivity.
    + intros u. destruct (Nat.eq_dec u t) as [->|Hu]; [rewrite view_mk_same, upd_same; congruence|].
      rewrite view_mk_other by exact Hu. rewrite upd_other by exact Hu. apply H2.
  - rewrite upd_hist_acc, erase_app. cbn [erase]. rewrite app_nil_r. exact H4.
Qed.

Lemma inv_step g g' a a' tr es :
  DS g' a' -> (IL keys g a tr -> IL keys g' a' (tr ++ es)) -> (IL keys g a tr \/ exhausted tr) -> DInvA keys g' a' (tr ++ es).
Proof. intros H1 H2 [H|H]; split; auto. right. now apply exhausted_app. Qed.

Lemma abs_same_on g g' S : same_on g g' (insub g root) -> abs g S -> abs g' S.
Proof. intros Hs H k. rewrite (H k). symmetry. now apply mem_frame. Qed.

Lemma D_act_keep {R} t f (k : V -> prog R) lv :
  one_acc f ->
  (forall g a, DS g a -> view a t = lv -> exists max' lv',
     let g' := fst (fst (f g)) in
     let a' := mk_a a t (dpub a) (dever a) (ddead a) max' lv' (datr a) in
     stepR t g a g' a' /\ (forall x, dpub a x = true -> lft g' x = lft g x /\ rgt g' x = rgt g x) /\ flags g' null = 0 /\
     (forall x, dpub a x = false -> upd g' x = (0%nat, 0%nat) /\ max' x = 0%nat) /\
     (forall x, (forall c, upd g' x = (c, 0%nat) -> (c <= max' x)%nat) /\ (max' x <= emp g' x)%nat) /\
     lv_ok g' a' t lv' /\ cst (wc lv') = cst (wc lv) /\ DSAFE t (k (snd (fst (f g)))) lv') ->
  DSAFE t (Act f k) lv.
Proof.
  intros Hone H. apply D_act. intros g a tr [Hs Hil] Hv. destruct (H g a Hs Hv) as (max' & lv' & R0 & Hlr & Hn & Hu & Hver & Hok & Hst & Hk).
  exists (dpub a), (dever a), (ddead a), max', lv', (datr a). split; [|exact Hk].
  destruct (Hone g) as (kd & ob & ok & Ee). rewrite Ee.
  apply (inv_step g _ a _ tr); [exact (DS_keep t g a _ max' lv' (datr a) Hs R0 Hlr Hn Hu Hver Hok)| |exact Hil].
  intros Hl. apply (IL_keep g); [exact Hl|rewrite Hv; exact Hst|].
  intros S. apply abs_same_on. intros x Hx. pose proof (insub_dpub g a x Hs Hx) as Px.
  destruct (r_fl _ _ _ _ _ R0 x (or_introl Px)). destruct (Hlr x Px). auto.
Qed.

End Safe.
