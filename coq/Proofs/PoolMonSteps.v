(** * pool_monitor: preservation of the invariant groups of PoolMonBase by every kind of step. *)
From Coq Require Import ZArith List String Bool Lia PeanoNat.
From LV Require Import Base.Conc Base.Events Model.PoolMon Proofs.PoolMonBase.
Import ListNotations.
Local Open Scope string_scope.

Ltac eqbs :=
  repeat match goal with
         | |- context [Nat.eqb ?x ?y] => destruct (Nat.eqb_spec x y)
         | H : context [Nat.eqb ?x ?y] |- _ => destruct (Nat.eqb_spec x y)
         end.
Ltac vsimp :=
  unfold nrefs, hm, uses in *; cbn [fst snd refph bitph usesph hmph limbo b2n] in *;
  rewrite ?cntn_cons, ?cntx_cons in *.
Ltac fin := vsimp; eqbs; cbn [b2n andb] in *; subst; try congruence; try lia; try tauto.

(** ** frame lemmas: a group is preserved when nothing it reads changes *)
Section Frames.
  Variables (g g' : G) (vs : Views) (t : nat) (v' : tv).

  Lemma updf1 {A} (f : tv -> nat -> A) :
    (forall x, f v' x = f (vs t) x) -> forall t0 x, f (upd vs t v' t0) x = f (vs t0) x.
  Proof. intros H t0 x. destruct (Nat.eq_dec t0 t) as [->|N]; [rewrite upd_same; apply H|now rewrite upd_other]. Qed.

  Lemma InvM_frame :
    InvM g vs -> (forall x, lspin g' x = lspin g x) -> (forall x, hm v' x = hm (vs t) x) -> InvM g' (upd vs t v').
  Proof.
    intros (M1 & M2 & M3 & M4) Hs Hh. pose proof (updf1 hm Hh) as E.
    repeat split.
    - intros t0 x. rewrite E, Hs. apply M1.
    - intros t1 t2 x. rewrite !E. apply M2.
    - intros t0 x. rewrite E. apply M3.
    - intros x. rewrite Hs. intros H. destruct (M4 x H) as [t0 H0]. exists t0. now rewrite E.
  Qed.

  Lemma InvP_frame :
    InvP g vs -> (forall n, plock g' n = plock g n) ->
    (forall n x, uses v' n x -> uses (vs t) n x) ->
    (forall n c, fst v' = LBitA n c -> fst (vs t) = LBitA n c) ->
    InvP g' (upd vs t v').
  Proof.
    intros (P1 & P2 & P3) Hp Hu Ha. repeat split.
    - intros t0 n x H. rewrite Hp. destruct (Nat.eq_dec t0 t) as [->|N].
      + rewrite upd_same in H. eapply P1; eauto.
      + rewrite upd_other in H by exact N. eapply P1; eauto.
    - intros t0 n c H. rewrite Hp. destruct (Nat.eq_dec t0 t) as [->|N].
      + rewrite upd_same in H. eapply P2; eauto.
      + rewrite upd_other in H by exact N. eapply P2; eauto.
    - intros n n' x. rewrite !Hp. apply P3.
  Qed.

  Lemma InvL_frame :
    InvL g vs -> pool g' = pool g -> fresh g' = fresh g -> (forall n, plock g' n = plock g n) ->
    (forall x, limbo (fst v') x = limbo (fst (vs t)) x) -> InvL g' (upd vs t v').
  Proof.
    intros ((L1a & L1b) & L2 & L3 & L4) Hq Hf Hp Hl.
    assert (E : forall t0 x, limbo (fst (upd vs t v' t0)) x = limbo (fst (vs t0)) x).
    { intros t0 x. destruct (Nat.eq_dec t0 t) as [->|N]; [rewrite upd_same; apply Hl|now rewrite upd_other]. }
    split; [|split; [|split]]; rewrite ?Hq, ?Hf.
    - split; auto.
    - intros n x H. rewrite Hp in H. eapply L2; eauto.
    - intros t0 x H. rewrite E in H. destruct (L3 t0 x H) as (A & B & C). split; [|split]; auto.
      intros n. rewrite Hp. apply C.
    - intros t1 t2 x. rewrite !E. apply L4.
  Qed.

  Lemma InvO_frame tr es :
    InvO vs tr -> (forall n, occ n (Conc.tag t es) = 0%Z) -> (forall n, cntn (snd v') n = cntn (snd (vs t)) n) ->
    InvO (upd vs t v') (tr ++ Conc.tag t es).
  Proof.
    intros HO He Hc n.
    assert (E : forall t0, cntn (snd (upd vs t v' t0)) n = cntn (snd (vs t0)) n).
    { intros t0. destruct (Nat.eq_dec t0 t) as [->|N]; [rewrite upd_same; apply Hc|now rewrite upd_other]. }
    rewrite occ_app, He, Z.add_0_r. destruct (HO n) as [[Hz Hn]|[Hz [t0 [H0 Hn]]]].
    - left. split; auto. intros t0. rewrite E. apply Hn.
    - right. split; auto. exists t0. rewrite E. split; auto. intros t1 N. rewrite E. auto.
  Qed.

  (** reference group: same counters, same bits, same m_RefSpin; the thread's own phase clause is re-proved *)
  Lemma InvR_frame rf :
    InvR g vs rf -> (forall n, refspin g' n = refspin g n) ->
    (forall n, nrefs v' n = nrefs (vs t) n) -> (forall n, bitph (fst v') n = bitph (fst (vs t)) n) ->
    (match fst v' with
     | LBitS n c _ | LBitA n c => refspin g' n = c + 3
     | UBit n c o => refspin g' n = c + 1 /\ (c <> 2 -> o = None)
     | _ => True
     end) ->
    InvR g' (upd vs t v') rf.
  Proof.
    intros (R1 & R2 & R3 & R4) Hr Hn Hb Hme.
    assert (Eb : forall t0 n, bitph (fst (upd vs t v' t0)) n = bitph (fst (vs t0)) n).
    { intros t0 n. destruct (Nat.eq_dec t0 t) as [->|N]; [rewrite upd_same; apply Hb|now rewrite upd_other]. }
    repeat split.
    - intros t0 n. rewrite (updf1 nrefs Hn). apply R1.
    - intros n. rewrite Hr. destruct (R2 n) as [[[t0 H0] E]|[H0 E]].
      + left. split; auto. exists t0. now rewrite Eb.
      + right. split; auto. intros t0. now rewrite Eb.
    - intros t1 t2 n. rewrite !Eb. apply R3.
    - intros t0. destruct (Nat.eq_dec t0 t) as [->|N].
      + rewrite upd_same. exact Hme.
      + rewrite upd_other by exact N. specialize (R4 t0). destruct (fst (vs t0)); auto; rewrite !Hr; auto.
  Qed.
End Frames.

(** trace events that are neither "enter" nor "leave" *)
Lemma occ_acc n t k o ok : occ n (Conc.tag t [EvAcc k o ok]) = 0%Z.
Proof. reflexivity. Qed.
Lemma occ_cli_other n t name args :
  String.eqb name "enter" = false -> String.eqb name "leave" = false ->
  occ n (Conc.tag t [EvCli name args]) = 0%Z.
Proof.
  intros N1 N2. cbn. destruct args as [|x [|y r]]; try reflexivity.
  rewrite N1, N2. destruct (Z.eqb x (Z.of_nat n)); reflexivity.
Qed.
Lemma occ_acc_cli n t k o ok name args :
  String.eqb name "enter" = false -> String.eqb name "leave" = false ->
  occ n (Conc.tag t [EvAcc k o ok; EvCli name args]) = 0%Z.
Proof.
  intros N1 N2. change (Conc.tag t [EvAcc k o ok; EvCli name args]) with ((Conc.tag t [EvAcc k o ok] ++ Conc.tag t [EvCli name args])%list).
  rewrite occ_app, occ_acc, occ_cli_other; auto.
Qed.
