(** * Flat-combining kernel with a condition-variable style wait strategy (wakeup() = wakeup_any()) and
      invoke_exclusive, driving the counting container of harness/C23: the theorems of property C23.

    Model LV.Model.FcKernelWake ([cntw_init_cfg wk wkin ...]); proofs LV.Proofs.FcWakeProofs (part A, both
    orders of the wakeup) and LV.Proofs.FcWakeFree (no use after free and nothing lost, wakeup inside the lock). *)
From Coq Require Import ZArith List String Bool Lia PeanoNat.
From LV Require Import Base.Conc Base.Events Base.Lin Spec.Specs Model.FcKernel Model.FcKernelWake
                       Proofs.FcKernelProofs Proofs.FcContainers Proofs.FcWakeProofs.
From LV Require Proofs.FcKernelFree Proofs.FcWakeFree.
Import ListNotations.
Local Open Scope string_scope.

(** client programs: request words of the counting container; a plain [combine] needs a combine pass count >= 1 *)
Definition wops_ok (ths : list (list wop)) : Prop := FcWakeProofs.wops_ok cnt_okop ths.
Definition wpasses_ok (npass : nat) (ths : list (list wop)) : Prop := Forall (Forall (FcWakeFree.wop_pass npass)) ths.

Lemma wpasses_ok_pos npass ths : 1 <= npass -> wpasses_ok npass ths.
Proof.
  intros H. apply Forall_forall. intros os _. apply Forall_forall. intros [b op arg| |] _; cbn; auto.
Qed.

Lemma wops_ok_progs_ok npass ths : wops_ok ths -> wpasses_ok npass ths -> FcWakeFree.wprogs_ok npass ths.
Proof.
  intros Hok Hp. split; [|exact Hp]. eapply Forall_impl; [|exact Hok]. intros os Hos.
  eapply Forall_impl; [|exact Hos]. intros [b op arg| |] Ho; cbn in *; auto. apply cnt_okop_ge2. exact Ho.
Qed.

(** one combiner at a time - both orders of the wakeup, with or without wakeup_any *)
Theorem fc_wake_single_combiner wk wkin fuel mask npass ths c :
  wops_ok ths -> Conc.reach (cntw_init_cfg wk wkin fuel mask npass ths) c ->
  exists h, mon None (Conc.trace c) = Some h.
Proof.
  intros Hok Hr. unfold cntw_init_cfg in Hr.
  exact (proj1 (@fc_wake_partA CountSpec 0 cnt_enc cnt_rdec cnt_rdec_enc cnt_okop cnt_okop_ge2 cnt_dec cnt_apply cnt_apply_spec
                  cnt_P (None : cnt_P) cnt_pheld eq_refl cnt_visit cnt_visit_sound wk wkin fuel mask npass ths c Hok Hr)).
Qed.

Theorem fc_wake_exactly_once_partA wk wkin fuel mask npass ths c :
  wops_ok ths -> Conc.reach (cntw_init_cfg wk wkin fuel mask npass ths) c ->
  has_lost (Conc.trace c) = false -> lp_valid CountSpec (cnt_annot (Conc.trace c)).
Proof.
  intros Hok Hr. unfold cntw_init_cfg in Hr.
  exact (proj2 (@fc_wake_partA CountSpec 0 cnt_enc cnt_rdec cnt_rdec_enc cnt_okop cnt_okop_ge2 cnt_dec cnt_apply cnt_apply_spec
                  cnt_P (None : cnt_P) cnt_pheld eq_refl cnt_visit cnt_visit_sound wk wkin fuel mask npass ths c Hok Hr)).
Qed.

(** wakeup inside the combiner lock: no access after free, nothing lost *)
Theorem fc_wake_records_not_used_after_free wk fuel mask npass ths c :
  wops_ok ths -> wpasses_ok npass ths -> Conc.reach (cntw_init_cfg wk true fuel mask npass ths) c ->
  FcKernelFree.has_uaf (Conc.trace c) = false.
Proof.
  intros Hok Hp Hr. unfold cntw_init_cfg in Hr.
  exact (proj1 (@FcWakeFree.fc_wake_no_uaf _ _ 0 cnt_enc cnt_apply _ (None : cnt_P) cnt_visit cnt_pheldr eq_refl cnt_visit_recs
                  wk fuel mask npass _ ths c (wops_ok_progs_ok _ _ Hok Hp) Hr)).
Qed.

Theorem fc_wake_never_released_unanswered wk fuel mask npass ths c :
  wops_ok ths -> wpasses_ok npass ths -> Conc.reach (cntw_init_cfg wk true fuel mask npass ths) c ->
  has_lost (Conc.trace c) = false.
Proof.
  intros Hok Hp Hr. unfold cntw_init_cfg in Hr.
  exact (proj2 (@FcWakeFree.fc_wake_no_uaf _ _ 0 cnt_enc cnt_apply _ (None : cnt_P) cnt_visit cnt_pheldr eq_refl cnt_visit_recs
                  wk fuel mask npass _ ths c (wops_ok_progs_ok _ _ Hok Hp) Hr)).
Qed.

Theorem fc_wake_exactly_once wk fuel mask npass ths c :
  wops_ok ths -> wpasses_ok npass ths -> Conc.reach (cntw_init_cfg wk true fuel mask npass ths) c ->
  lp_valid CountSpec (cnt_annot (Conc.trace c)).
Proof.
  intros Hok Hp Hr. eapply fc_wake_exactly_once_partA; [exact Hok|exact Hr|]. eapply fc_wake_never_released_unanswered; eassumption.
Qed.

(** ** the order before the repair (wakeup after the unlock) is refuted

    Thread 1 takes the combiner lock; thread 2 and thread 0 publish their requests and fail try_lock; thread 1
    serves all three and unlocks; thread 0 returns and exits (its record: state `removed`, still linked as
    m_pHead->pNext); thread 2 wins try_lock in wait_for_combining, sees req_Response, UNLOCKS, and starts
    wakeup_any(): it loads m_pHead->nState and m_pHead->pNext = thread 0's record.  Thread 1 then runs its
    second request as combiner: compact_list unlinks thread 0's record (loop 1) and frees it (loop 2).
    Thread 2 continues its walk: nState and pNext of the freed record are read.
    (corpus/C23/uaf_wakeup_any_after_unlock.json, replayed on the real code by checks/C23.py.) *)
Definition wake_witness_ths : list (list wop) :=
  [[WReq false op_single 0%Z]; [WReq false op_single 1%Z; WReq false op_single 3%Z]; [WReq false op_single 2%Z]].

Definition wake_witness_sched : list nat :=
  repeat 1 13 ++ repeat 2 17 ++ repeat 0 13 ++ repeat 1 40 ++ repeat 0 3 ++ repeat 2 5 ++ repeat 1 42 ++ repeat 2 6.

Theorem fc_wake_records_not_used_after_free_wakeup_outside_lock_refuted :
  exists (ths : list (list wop)) c,
    wops_ok ths /\ wpasses_ok 1 ths /\ Conc.reach (cntw_init_cfg true false 400 0 1 ths) c /\
    FcKernelFree.has_uaf (Conc.trace c) = true.
Proof.
  exists wake_witness_ths.
  exists (fst (Conc.run 2000 0 wake_witness_sched (cntw_init_cfg true false 400 0 1 wake_witness_ths))).
  split; [repeat constructor|]. split; [apply wpasses_ok_pos; constructor|]. split; [apply Conc.run_reach|].
  vm_compute. reflexivity.
Qed.

(** the same programs and schedule with the wakeup inside the lock: no access after free, nothing lost, all four
    requests executed, and wakeup_any() did walk (thread 2 reads m_pHead->nState while holding the lock) *)
Example fc_wake_same_schedule_after_fix :
  let c := fst (Conc.run 2000 0 wake_witness_sched (cntw_init_cfg true true 400 0 1 wake_witness_ths)) in
  FcKernelFree.has_uaf (Conc.trace c) = false /\ has_lost (Conc.trace c) = false /\
  List.length (filter (is_ev "exec") (Conc.trace c)) = 4%nat /\
  List.length (filter (is_ev "free") (Conc.trace c)) = 2%nat.
Proof. vm_compute. repeat split; reflexivity. Qed.

(** non-vacuity of the invoke_exclusive part: two threads, one of them without a record, call invoke_exclusive
    around a request; the spin lock is contended *)
Example fc_wake_excl_nonvacuous :
  let c := fst (Conc.run 2000 0 (repeat 0 13 ++ repeat 1 8 ++ repeat 0 60 ++ repeat 1 50)
                  (cntw_init_cfg true true 400 0 1 [[WReq false op_single 0%Z; WExcl]; [WExcl; WReq false op_single 1%Z]])) in
  FcKernelFree.has_uaf (Conc.trace c) = false /\ has_lost (Conc.trace c) = false /\
  List.length (filter (is_ev "excldone") (Conc.trace c)) = 2%nat /\
  List.length (filter (is_ev "exec") (Conc.trace c)) = 2%nat.
Proof. vm_compute. repeat split; reflexivity. Qed.
