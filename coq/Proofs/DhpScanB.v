(** * DhpScanB: end of the walk, begin/end markers, the dispose events, and the specification of smr::scan. *)
From Coq Require Import ZArith NArith List String Bool Lia PeanoNat.
From LV Require Import Base.Conc Base.Events Model.DhpLang Model.Dhp Proofs.DhpBase Proofs.DhpHist
  Proofs.DhpLangProofs Proofs.DhpInvA Proofs.DhpStepsA Proofs.DhpQuietA Proofs.DhpSlotA Proofs.DhpScanA.
Import ListNotations.

Section Scan2.
  Variable c : cfg.
  Notation dsafeA := (@dsafe G ev AuxA VA viewA (InvA c)).

  (** (g) next_block_ of b read, after all its cells *)
  Lemma adv_nextb g a h ss n b j : JA c g a h -> scan_ok c g h ss -> ss_pos ss = PChain n (Some b) j -> c_GB c <= j ->
    scan_ok c g h (ss_pos_set ss (PChain n (gb_nextb (ggb g b)) 0)).
  Proof.
    intros J S E Hj. pose proof S as (_ & S0 & _). rewrite E in S0. cbn in S0.
    apply scan_ok_pos; auto.
    intros s k Hl Hk Ha. rewrite E in Ha. cbn in Ha. right. cbn. destruct Ha as [(b' & i & S' & -> & H1 & H2 & H3)|H]; [|right; exact H].
    left. destruct H3 as [(S'' & -> & Hi)|(x & S'' & -> & Hin)].
    - exfalso. cbn in Hl. destruct Hl as (r & t & k0 & _ & _ & X). lia.
    - cbn in H1. destruct H1 as (Eb & _ & _ & H1). inversion Eb; subst x.
      exists b', i, S''. split; auto. split; auto. split; [intros y Hy; apply H2; now right|].
      destruct S'' as [|y S3]; [contradiction|]. destruct Hin as [->|Hin].
      + left. exists S3. split; auto. lia.
      + right. exists y, S3. auto.
  Qed.

  (** (h) next_ of record n read *)
  Lemma adv_nextrec g a h ss n : JA c g a h -> scan_ok c g h ss ->
    (ss_pos ss = PDone n \/ exists j, ss_pos ss = PChain n None j) ->
    scan_ok c g h (ss_pos_set ss (PNode (r_next (grec g n)))).
  Proof.
    intros J S E. pose proof S as (_ & S0 & _).
    assert (Hn : after g (tlist g) n) by (destruct E as [E|(j & E)]; rewrite E in S0; exact S0).
    apply scan_ok_pos; auto.
    - cbn. destruct (r_next (grec g n)) as [m|] eqn:Em; auto. eapply after_next_inlist; eauto.
    - intros s k Hl Hk Ha. right. cbn. destruct E as [E|(j & E)]; rewrite E in Ha; cbn in Ha; auto.
      destruct Ha as [(b' & i & S' & -> & H1 & H2 & H3)|H]; auto.
      exfalso. destruct S'; [destruct H3 as [(? & ? & _)|(? & ? & ? & _)]; discriminate|cbn in H1; destruct H1; discriminate].
  Qed.

  (** (i) at the end of the list every cell that was live before the scan began has been read *)
  Lemma scan_end_seen g h ss s k : scan_ok c g h ss -> ss_pos ss = PNode None -> live c h s k -> k < ss_s0 ss ->
    In s (ss_seen ss).
  Proof.
    intros (_ & _ & _ & S3) E Hl Hk. destruct (S3 s k Hl Hk) as [X|X]; auto.
    rewrite E in X. cbn in X. destruct X as (r & _ & X). exfalso. eapply after_none; eauto.
  Qed.

  Lemma scan_end_guarded g h ss s p : scan_ok c g h ss -> ss_pos ss = PNode None -> p <> 0 ->
    guards_since c h s p (ss_s0 ss) -> In p (ss_pl ss).
  Proof.
    intros S E Hp (Hv & (w & Hw & Hlt) & (k & Hl & Hk)).
    pose proof (scan_end_seen g h ss s k S E Hl Hk) as Hseen.
    destruct S as (_ & _ & S2 & _). rewrite <- Hv. eapply S2; eauto. congruence.
  Qed.

  (** ** the begin / end markers *)
  Lemma JA_set_scan_gen g a h t o scn :
    JA c g a h ->
    let h' := mkH (hlen h) (slotv h) (lastw h) (att h) (linked h) scn (freeh h) (flbad h) in
    (forall t', t' <> t -> scn t' = scan h t') ->
    match o with Some ss => scn t = Some (ss_s0 ss) /\ scan_ok c g h' ss | None => scn t = None end ->
    JA c g (set_view a t (with_scan (views a t) o)) h'.
  Proof.
    intros J h' Hscn Ho. destruct J as [J1 J2 J3 J4 J5 J6 J7 J8 J9 J10 J11 J12 J15 J16 J17 J18 J13 J14].
    assert (V : forall t', let v := views (set_view a t (with_scan (views a t) o)) t' in
                let v0 := views a t' in
                va_tls v = va_tls v0 /\ va_unpub v = va_unpub v0 /\ va_hold v = va_hold v0 /\ va_help v = va_help v0 /\
                va_node v = va_node v0 /\ va_blk v = va_blk v0 /\ va_e v = va_e v0 /\ va_limbo v = va_limbo v0 /\
                (t' <> t -> va_scan v = va_scan v0) /\ (t' = t -> va_scan v = o)).
    { intros t'. cbn. destruct (Nat.eqb_spec t' t) as [->|N]; cbn; repeat split; auto; congruence. }
    assert (B : bown (set_view a t (with_scan (views a t) o)) = bown a) by reflexivity.
    constructor; rewrite ?B; unfold h'; cbn [hlen slotv lastw att linked scan freeh flbad]; auto.
    - intros r t' k Ha. destruct (V t') as (E1&_). rewrite E1. auto.
    - intros t' r Ht. destruct (V t') as (E1&_). rewrite E1 in Ht. auto.
    - intros t' r bt Ht. destruct (V t') as (_&E2&_). rewrite E2 in Ht. destruct (J5 t' r bt Ht) as (X1&X2&X3&X4&X5&X6).
      repeat split; auto. intros t'' bt' Ht''. destruct (V t'') as (_&E2'&_). rewrite E2' in Ht''. eauto.
    - intros t' r Ht. destruct (V t') as (_&_&E3&_&_&_&_&E8&_). rewrite E3 in Ht. rewrite E8. auto.
    - intros t' r Ht. destruct (V t') as (_&_&E3&E4&_). rewrite E4 in Ht. rewrite E3. auto.
    - intros r Hr Ha. destruct (J8 r Hr Ha) as [X|(t' & X1 & X2)]; [left; exact X|right].
      exists t'. destruct (V t') as (_&_&E3&_&_&_&_&E8&_). rewrite E3, E8. auto.
    - intros t' b Ht. destruct (V t') as (_&_&_&_&_&E6&_&E8&_). rewrite E6 in Ht. rewrite E8. auto.
    - intros t' o' lb Ht. destruct (V t') as (_&_&_&_&_&_&_&E8&_). rewrite E8 in Ht. auto.
    - intros t' e f Ht. destruct (V t') as (E1&_&_&_&_&E6&E7&_). rewrite E7 in Ht. rewrite E1, E6. eauto.
    - intros t' n Ht. destruct (V t') as (_&_&_&_&E5&_). rewrite E5 in Ht. eauto.
    - intros t'. destruct (V t') as (_&_&_&_&_&_&_&_&E9&E10). destruct (Nat.eq_dec t' t) as [->|N].
      + rewrite (E10 eq_refl). exact Ho.
      + rewrite (E9 N), (Hscn t' N). exact (J14 t').
  Qed.
End Scan2.
