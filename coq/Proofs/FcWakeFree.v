(** * Flat-combining kernel with a wait strategy that calls wakeup_any(), repaired order (wakeup inside the
      combiner lock): publication records are not used after they were freed, and no request is lost.

    Model: LV.Model.FcKernelWake with [wkin = true] (and [wk] arbitrary).  The invariant, the auxiliary state and
    the per-step lemmas are those of LV.Proofs.FcKernelFree (part C), re-used unchanged: this file only adds the
    programs that are new in LV.Model.FcKernelWake -
      - the walk of wakeup_any() along the publication list while the combiner lock is held: every record it
        touches is m_pHead or was reached through pNext from a record of the ghost publication list, and records
        of that list are not freed ([gf_pll]); compact_list - the only code that frees - needs the same lock;
      - wait_for_combining / try_combining / request with that walk before `m_Mutex.unlock()`;
      - invoke_exclusive (spin lock, walk, unlock) by a thread that may or may not own a record. *)
From Coq Require Import ZArith List String Bool Lia PeanoNat.
From LV Require Import Base.Conc Base.Events Model.FcKernel Model.FcKernelWake Proofs.FcKernelProofs Proofs.FcKernelFree.
Import ListNotations.
Local Open Scope string_scope.
Local Open Scope list_scope.

Set Implicit Arguments.

Section WakeFree.
  Variables (C Rs : Type) (rs0 : Rs) (rs_enc : Rs -> list Z).
  Variable capply : C -> nat -> Z -> C * Rs.
  Variable P : Type.
  Variable pinit : P.
  Variable pvisit : P -> C -> nat -> nat -> nat -> Z -> P * C * list (nat * Rs).
  Variable pheldr : P -> list nat.
  Hypothesis pinit_held : pheldr pinit = [].
  Hypothesis pvisit_recs : forall p c r op tid arg p' c' cs, pvisit p c r op tid arg = (p', c', cs) ->
    (forall q, In q (map fst cs) -> q = r \/ In q (pheldr p)) /\ (forall q, In q (pheldr p') -> q = r \/ In q (pheldr p)).
  Variable wk : bool.

  Notation G := (FcKernel.G C Rs).
  Notation V := (FcKernel.V Rs P).
  Notation prog := (Conc.prog G V ev).
  Notation safe := (@Conc.safe G V ev aux sview view (@Inv C Rs)).

  Notation kskip := (@FcKernel.skip_inactive C Rs P).
  Notation wwakeup := (@FcKernelWake.wakeup C Rs P wk).
  Notation wwait := (@FcKernelWake.wait_for_combining C Rs P wk true).
  Notation wtry := (@FcKernelWake.try_combining C Rs rs0 rs_enc capply P pinit pvisit wk true).
  Notation wrequest := (@FcKernelWake.request C Rs rs0 rs_enc capply P pinit pvisit wk true).
  Notation wspin := (@FcKernelWake.spin_lock C Rs P).
  Notation wexcl := (@FcKernelWake.invoke_exclusive C Rs P wk true).
  Notation wrun_ops := (@FcKernelWake.run_ops C Rs rs0 rs_enc capply P pinit pvisit wk true).
  Notation wthread_prog := (@FcKernelWake.thread_prog C Rs rs0 rs_enc capply P pinit pvisit wk true).
  Notation wthread_progs := (@FcKernelWake.thread_progs C Rs rs0 rs_enc capply P pinit pvisit wk true).
  Notation winit_cfg := (@FcKernelWake.init_cfg C Rs rs0 rs_enc capply P pinit pvisit wk true).

  Ltac nb_ld := eapply safe_nb; [apply nb_ld| |intros ?v].

  Lemma set_cur_id (l : sview) : l = set_cur l (w_cur l).
  Proof. destruct l; reflexivity. Qed.

  (** ** wakeup_any() under the combiner lock *)
  Lemma safe_wwalk t : forall fuel p l,
    w_hold l = true -> w_cur l = tgt_of p -> w_tgt l = None -> w_pp l = None ->
    safe t (kskip fuel p) l (optQ (fun _ l' => exists c, l' = set_cur l c)).
  Proof.
    induction fuel as [|fu IH]; intros p l Hh Hc Ht Hp; cbn [skip_inactive]; [exact I|].
    destruct p as [|q]; [cbn; exists (w_cur l); apply set_cur_id|]. cbn [tgt_of] in Hc.
    assert (Hn : safe t (Act (@a_ld C Rs P q FNext) (fun n => kskip fu (vn n))) l
                   (optQ (fun _ l' => exists c, l' = set_cur l c))).
    { eapply (@safe_ld_next_walk_b C Rs rs0 rs_enc); eauto. intros v. cbn [vn].
      eapply Conc.safe_weaken; [|apply IH; cbn; auto].
      intros [it|] l' Hx; [|exact I]. cbn in *. destruct Hx as (c & ->). exists c. reflexivity. }
    assert (Hlive : Live l (Some q)) by (unfold Live; right; right; split; [exact Hh|left; exact Hc]).
    nb_ld; [exact Hlive|]. destruct (Nat.eqb (vn v) st_active); [|exact Hn].
    nb_ld; [exact Hlive|]. destruct (Nat.leb req_Operation (vn v0)); [|exact Hn].
    cbn. exists (w_cur l). apply set_cur_id.
  Qed.

  Lemma safe_wakeup_in t fuel l :
    w_hold l = true -> w_cur l = None -> w_tgt l = None -> w_pp l = None ->
    safe t (wwakeup fuel) l (optQ (fun _ l' => exists c, l' = set_cur l c)).
  Proof.
    intros Hh Hc Ht Hp. unfold wakeup.
    assert (Hid : l = set_cur l None) by (rewrite <- Hc; apply set_cur_id).
    destruct wk; [|cbn; exists None; exact Hid].
    apply safe_obind. destruct fuel as [|fu]; cbn [skip_inactive]; [exact I|].
    set (l1 := set_tgt (set_cur l (Some head)) None).
    assert (E1 : forall c, set_cur l1 c = set_cur l c).
    { intros c. unfold l1. destruct l; cbn in *. subst. reflexivity. }
    assert (Hfin : forall (o : option nat) l', optQ (fun (_ : nat) l'' => exists c, l'' = set_cur l1 c) o l' ->
              optQ (fun (_ : nat) l'' => safe t (@ret C Rs P unit tt) l'' (optQ (fun _ l3 => exists c, l3 = set_cur l c))) o l').
    { intros [it|] l' Hx; [|exact I]. cbn in *. destruct Hx as (c & ->). exists c. apply E1. }
    eapply safe_nbg with (l' := l1); [apply nb_ld|left; reflexivity|apply GhostOK_start; [exact Hh|exact Hp|discriminate]|].
    intros v.
    assert (Hh1 : w_hold l1 = true) by exact Hh.
    assert (Hn : safe t (Act (@a_ld C Rs P head FNext) (fun n => kskip fu (vn n))) l1
                   (optQ (fun (_ : nat) l'' => safe t (@ret C Rs P unit tt) l'' (optQ (fun _ l3 => exists c, l3 = set_cur l c))))).
    { eapply (@safe_ld_next_walk_b C Rs rs0 rs_enc); try reflexivity; [exact Hp|]. intros v0. cbn [vn].
      eapply Conc.safe_weaken; [|apply safe_wwalk; cbn; auto].
      intros [it|] l' Hx; [|exact I]. cbn in *. destruct Hx as (c & ->). exists c. rewrite <- (E1 c). reflexivity. }
    destruct (Nat.eqb (vn v) st_active); [|exact Hn].
    nb_ld; [left; reflexivity|]. destruct (Nat.leb req_Operation (vn v0)); [|exact Hn].
    cbn. exists (Some head). rewrite <- (E1 (Some head)). unfold l1. reflexivity.
  Qed.

  Lemma Fin_set_cur r l c : Fin r l -> Fin r (set_cur l c).
  Proof. intros [a1 a2 a3 a4 a5 a6 a7]. split; cbn; auto. Qed.

  (** the loads of wait(): the thread's own record *)
  Lemma safe_wait_strategy_b R t r (k : prog R) l Q : w_my l = Some r ->
    safe t k l Q -> safe t (@wait_strategy C Rs P wk R r k) l Q.
  Proof.
    intros Hm K. unfold wait_strategy. destruct wk; [|exact K].
    assert (Hlive : Live l (Some r)) by (unfold Live; right; left; exact Hm).
    nb_ld; [exact Hlive|]. destruct (Nat.leb req_Operation (vn v)); [|exact K]. nb_ld; [exact Hlive|]. exact K.
  Qed.

  (** ** wait_for_combining / try_combining with the wakeup before the unlock *)
  Lemma safe_wait_w t r pfuel : forall fuel d l, 1 <= r -> St r false true d false l ->
    safe t (wwait fuel pfuel r) l
         (optQ (fun served l' => if served : bool then St r false true true false l' else exists d', St r true true d' false l')).
  Proof.
    induction fuel as [|fu IH]; intros d l Hr Hst; cbn [FcKernelWake.wait_for_combining]; [exact I|].
    pose proof Hst as [s1 s2 s3 s4 s5 s6 s7 s8 s9 s10 s11 s12].
    apply (@safe_ld_req_own_b C Rs rs0 rs_enc) with (r := r); auto.
    - cbn [vn]. unfold req_Response. cbn. split; cbn; auto.
    - intros v Hv1 Hv0. cbn [vn]. destruct (Nat.eqb_spec v req_Response); [contradiction|].
      apply safe_obind. eapply Conc.safe_weaken; [|apply (@safe_republish_b C Rs rs0 rs_enc); eassumption].
      intros [u|] l1 Hx; [|exact I]. cbn in Hx. pose proof Hx as [q1 q2 q3 q4 q5 q6 q7 q8 q9 q10 q11 q12].
      apply safe_wait_strategy_b with (r := r); [exact q1|].
      apply safe_xchg_b.
      + cbn [vn Nat.eqb]. eapply IH; eauto.
      + cbn [vn Nat.eqb].
        apply safe_emit_g with (l' := set_hold (clrF l1) true); [apply nolost_name; discriminate|apply GhostOK_refl|].
        apply (@safe_ld_req_own_b C Rs rs0 rs_enc) with (r := r); auto.
        * cbn [vn]. unfold req_Response. cbn [Nat.eqb].
          apply safe_obind. eapply Conc.safe_weaken; [|apply safe_wakeup_in; cbn; auto].
          intros [u0|] l2 Hx2; [|exact I]. cbn in Hx2. destruct Hx2 as (c & ->).
          apply safe_unlock_seq_b with (r := r); [apply Fin_set_cur; split; cbn; auto|]. intros l' Hl'. exact Hl'.
        * intros v2 Hv21 Hv20. cbn [vn]. destruct (Nat.eqb_spec v2 req_Response); [contradiction|].
          cbn. exists d. split; cbn; auto.
  Qed.

  Lemma safe_try_w t r fuel mask npass batch d l : 1 <= r -> (batch = true \/ 1 <= npass) ->
    St r false true d false l ->
    safe t (wtry fuel mask npass batch r) l (optQ (fun _ l' => St r false true true false l')).
  Proof.
    intros Hr Hnp Hst. unfold FcKernelWake.try_combining. pose proof Hst as [s1 s2 s3 s4 s5 s6 s7 s8 s9 s10 s11 s12].
    apply safe_xchg_b.
    - cbn [vn Nat.eqb]. apply safe_obind. eapply Conc.safe_weaken; [|eapply safe_wait_w; eassumption].
      intros [served|] l1 Hx; [|exact I]. cbn in Hx. destruct served; [exact Hx|]. destruct Hx as (d' & Hst1).
      apply safe_obind. eapply Conc.safe_weaken; [|apply (@safe_republish_b C Rs rs0 rs_enc); eassumption].
      intros [u|] l2 Hx2; [|exact I]. cbn in Hx2. apply safe_obind.
      eapply Conc.safe_weaken; [|eapply (@safe_combining_b C Rs rs0 rs_enc capply P pinit pvisit pheldr pinit_held pvisit_recs); eassumption].
      intros [u2|] l3 Hx3; [|exact I]. cbn in Hx3. apply safe_unlock_seq_b with (r := r); auto.
    - cbn [vn Nat.eqb]. eapply (@safe_as_combiner_b C Rs rs0 rs_enc capply P pinit pvisit pheldr pinit_held pvisit_recs); eauto.
      split; cbn; auto.
  Qed.

  Lemma safe_request_w t fuel mask npass batch my op arg l :
    2 <= op -> (batch = true \/ 1 <= npass) -> (forall r, my = Some r -> 1 <= r) -> Idl my l ->
    safe t (wrequest fuel mask npass batch t my op arg) l (optQ (fun r l' => 1 <= r /\ Idl (Some r) l')).
  Proof.
    intros Hop Hnp Hmy Hi. unfold FcKernelWake.request.
    apply safe_emit_g with (l' := l); [split; (constructor; [reflexivity|constructor])|apply GhostOK_refl|].
    apply safe_obind. eapply Conc.safe_weaken; [|apply (@safe_acquire_b C Rs rs0 rs_enc); eassumption].
    intros [r|] l1 Hx; [|exact I]. cbn in Hx. destruct Hx as [Hr Hst]. pose proof Hst as [s1 s2 s3 s4 s5 s6 s7 s8 s9 s10 s11 s12].
    apply (@safe_request_b C Rs rs0 rs_enc); [exact s1|exact Hop|]. intros v.
    apply safe_obind. eapply Conc.safe_weaken; [|apply safe_try_w with (r := r) (d := false); try assumption; split; cbn; auto].
    intros [u|] l2 Hx; [|exact I]. cbn in Hx. pose proof Hx as [q1 q2 q3 q4 q5 q6 q7 q8 q9 q10 q11 q12].
    apply (@safe_release_b C Rs rs0 rs_enc) with (r := r); auto. intros v2.
    apply safe_emit_g with (l' := set_done (set_wait l2 false) false); [|apply GhostOK_refl|].
    { split; (constructor; [|constructor]); destruct v2; reflexivity. }
    cbn. split; [exact Hr|split; cbn; auto].
  Qed.

  (** ** invoke_exclusive *)
  Lemma nb_ldlock : neutral_b (@a_ldlock C Rs P) None.
  Proof.
    intros g. cbn. split; [repeat split|]. split; [apply sameF_refl|]. split; [repeat constructor|]. intros _. repeat constructor.
  Qed.

  Lemma safe_spin_w t : forall fuel sp l,
    safe t (wspin fuel sp) l (optQ (fun _ l' => l' = set_hold (clrF l) true)).
  Proof.
    induction fuel as [|fu IH]; intros sp l; cbn [spin_lock]; [exact I|]. destruct sp.
    - eapply safe_nb; [apply nb_ldlock|exact I|]. intros v. destruct (Nat.eqb (vn v) 0); apply IH.
    - apply safe_xchg_b; cbn [vn Nat.eqb]; [apply IH|cbn; reflexivity].
  Qed.

  Lemma safe_excl_w t fuel my l : Idl my l -> safe t (wexcl fuel) l (optQ (fun _ l' => Idl my l')).
  Proof.
    intros [a1 a2 a3 a4 a5 a6 a7 a8 a9 a10 a11 a12]. unfold invoke_exclusive.
    apply safe_emit_g with (l' := l); [apply nolost_name; discriminate|apply GhostOK_refl|].
    apply safe_obind. eapply Conc.safe_weaken; [|apply safe_spin_w].
    intros [u|] l1 Hx; [|exact I]. cbn in Hx. subst l1.
    apply safe_emit_g with (l' := set_hold (clrF l) true); [apply nolost_name; discriminate|apply GhostOK_refl|].
    apply safe_obind. eapply Conc.safe_weaken; [|apply safe_wakeup_in; cbn; auto].
    intros [u0|] l2 Hx2; [|exact I]. cbn in Hx2. destruct Hx2 as (c & ->).
    apply safe_unlock_emit_b.
    apply safe_unlock_b; try (cbn; auto; fail). intros v.
    apply safe_emit_g with (l' := set_hold (forget (set_cur (set_hold (clrF l) true) c)) false);
      [apply nolost_name; discriminate|apply GhostOK_refl|].
    cbn. split; cbn; auto.
  Qed.

  (** ** client programs *)
  Definition wop_ge2 (o : wop) : Prop := match o with WReq _ op _ => 2 <= op | _ => True end.
  Definition wop_pass (npass : nat) (o : wop) : Prop := match o with WReq batch _ _ => batch = true \/ 1 <= npass | _ => True end.

  Lemma safe_run_ops_w t fuel mask npass : forall os my l,
    Forall wop_ge2 os -> Forall (wop_pass npass) os -> (forall r, my = Some r -> 1 <= r) -> Idl my l ->
    safe t (wrun_ops fuel mask npass t my os) l (optQ (fun _ _ => True)).
  Proof.
    induction os as [|o os IH]; intros my l H2 Hp Hmy Hi; cbn [FcKernelWake.run_ops].
    - eapply Conc.safe_weaken; [|apply (@safe_kexit_b C Rs rs0 rs_enc); exact Hi]. intros [u|] l' Hx; exact I.
    - inversion H2 as [|? ? Ho2 H2']; subst. inversion Hp as [|? ? Hop Hp']; subst. destruct o as [batch op arg| |].
      + apply safe_obind. eapply Conc.safe_weaken; [|apply safe_request_w; eassumption].
        intros [r|] l' Hx; [|exact I]. cbn in Hx. destruct Hx as [Hr Hi']. apply IH; auto. intros r0 E. inversion E; subst. exact Hr.
      + apply safe_obind. eapply Conc.safe_weaken; [|apply (@safe_kexit_b C Rs rs0 rs_enc); exact Hi].
        intros [u|] l' Hx; [|exact I]. cbn in Hx. apply IH; auto. discriminate.
      + apply safe_obind. eapply Conc.safe_weaken; [|apply safe_excl_w; exact Hi].
        intros [u|] l' Hx; [|exact I]. cbn in Hx. apply IH; auto.
  Qed.

  Lemma safe_thread_w t fuel mask npass os l :
    Forall wop_ge2 os -> Forall (wop_pass npass) os -> Idl None l ->
    safe t (wthread_prog fuel mask npass t os) l (@Conc.QTrue sview).
  Proof.
    intros H2 Hp Hi. unfold FcKernelWake.thread_prog.
    eapply safe_nb; [apply nb_begin|exact I|]. intros v. apply Conc.safe_bind.
    eapply Conc.safe_weaken; [|apply safe_run_ops_w; eauto; discriminate].
    intros [u|] l' _; [exact I|]. apply safe_emit_g with (l' := l'); [apply nolost_name; discriminate|apply GhostOK_refl|exact I].
  Qed.

  Lemma nth_error_wthread_progs fuel mask npass : forall ths t0 i p,
    nth_error (wthread_progs fuel mask npass t0 ths) i = Some p ->
    exists os, nth_error ths i = Some os /\ p = wthread_prog fuel mask npass (t0 + i) os.
  Proof.
    induction ths as [|os ths IH]; intros t0 i p H; cbn [FcKernelWake.thread_progs] in H; [destruct i; discriminate|].
    destruct i as [|i]; cbn in H.
    - inversion H; subst. exists os. split; [reflexivity|]. rewrite Nat.add_0_r. reflexivity.
    - destruct (IH _ _ _ H) as (os' & A & B). exists os'. split; [exact A|]. rewrite B. f_equal. lia.
  Qed.

  Definition wprogs_ok (npass : nat) (ths : list (list wop)) : Prop :=
    Forall (Forall wop_ge2) ths /\ Forall (Forall (wop_pass npass)) ths.

  (** the initial state is that of LV.Model.FcKernel: the invariant holds there (LV.Proofs.FcKernelFree.init_ok_b
      for the empty list of threads gives it for [aux0]) *)
  Lemma init_ok_w fuel mask npass c0 ths : wprogs_ok npass ths ->
    Conc.cfg_ok view (@Inv C Rs) (winit_cfg fuel mask npass c0 ths).
  Proof.
    intros [H2 Hp]. exists aux0. split.
    - split.
      2:{ split; [reflexivity|]. split.
          - split.
            + intros q [E|[]]. subst q. reflexivity.
            + constructor; [intros []|constructor].
            + intros r0 [E|[]]. subst r0. split; [cbn; unfold head; lia|reflexivity].
            + intros r0 [E|[]]. subst r0. reflexivity.
            + intros r0 H. unfold frd in H; cbn in H. discriminate.
          - intros u. cbn. split; cbn; try discriminate; auto. }
      apply Inv_intro0; [reflexivity| |].
      + split.
        * intros _ u. reflexivity.
        * intros u u' H. cbn in H. discriminate.
        * intros u u' r H. cbn in H. discriminate.
        * intros q [E|[]]. subst q. reflexivity.
        * constructor; [intros []|constructor].
        * intros r [].
        * intros r H. unfold stt in H; cbn in H. discriminate.
        * intros r H. unfold stt in H; cbn in H. discriminate.
        * intros r _. unfold stt; cbn. discriminate.
        * split; [unfold stt; cbn; discriminate|cbn; lia].
        * intros r. unfold stt; cbn. lia.
      + intros u. cbn. split; cbn; try discriminate; auto.
    - intros t p Hpn. cbn [FcKernelWake.init_cfg Conc.threads] in Hpn.
      destruct (nth_error_wthread_progs _ _ _ _ _ _ Hpn) as (os & A & ->).
      cbn [Nat.add]. apply safe_thread_w.
      + eapply Forall_forall in H2; [exact H2|]. eapply nth_error_In; exact A.
      + eapply Forall_forall in Hp; [exact Hp|]. eapply nth_error_In; exact A.
      + split; reflexivity.
  Qed.

  (** With the wakeup inside the combiner lock, for every schedule, any number of threads, any client programs
      (requests, thread exits, invoke_exclusive), any compact factor, whether or not the strategy's wakeup() calls
      wakeup_any(): no atomic access of the kernel is to a freed publication record, and release_record never
      meets an unanswered request. *)
  Theorem fc_wake_no_uaf fuel mask npass c0 ths c :
    wprogs_ok npass ths -> Conc.reach (winit_cfg fuel mask npass c0 ths) c ->
    has_uaf (Conc.trace c) = false /\ has_lost (Conc.trace c) = false.
  Proof.
    intros Hok Hr. destruct (Conc.reach_Inv (init_ok_w fuel mask c0 Hok) Hr) as (a & (Hl & _) & (Hu & _)). split; assumption.
  Qed.
End WakeFree.
