(** * Flat-combining kernel: invariant proof for every schedule (LV.Model.FcKernel).

    Part A (this file): mutual exclusion of combiners, ownership of publication records, and the
    linearization-point discipline "a request is executed only while it is pending, by the lock holder, and
    the requester's response is the one the execution wrote" — for every schedule, any number of threads,
    thread exits and compaction included, for every container whose callbacks satisfy
    [capply_spec] / [visit_sound].  The only thing Part A does not show is that a combiner's own request is
    reached by its own combining pass (the compiled-out `assert( pRec->is_done())`): a release of a record
    whose request is not done emits the model event "lost", and Part A is stated for traces without it. *)
From Coq Require Import ZArith List String Bool Lia PeanoNat.
From LV Require Import Base.Conc Base.Events Base.Lin Proofs.LinProofs Model.FcKernel Model.FcBatch Proofs.FcBatchProofs.
Import ListNotations.
Local Open Scope string_scope.
Local Open Scope list_scope.

Set Implicit Arguments.

(** ** trace functions *)
Definition is_ev (name : string) (te : nat * ev) : bool := is_cli name (snd te).

Definition has_lost (tr : list (nat * ev)) : bool := existsb (is_ev "lost") tr.

(** the combiner-lock monitor: "lock"/"unlock" alternate, "exec" and "free" only by the holder *)
Definition mon_step (h : option nat) (te : nat * ev) : option (option nat) :=
  let t := fst te in
  if is_ev "lock" te then (match h with None => Some (Some t) | Some _ => None end)
  else if is_ev "unlock" te then (match h with Some t' => if Nat.eqb t' t then Some None else None | None => None end)
  else if is_ev "exec" te || is_ev "free" te then
    (match h with Some t' => if Nat.eqb t' t then Some h else None | None => None end)
  else Some h.

Fixpoint mon (h : option nat) (tr : list (nat * ev)) : option (option nat) :=
  match tr with
  | [] => Some h
  | te :: r => match mon_step h te with Some h' => mon h' r | None => None end
  end.

Lemma mon_app h tr1 tr2 : mon h (tr1 ++ tr2) = match mon h tr1 with Some h' => mon h' tr2 | None => None end.
Proof. revert h; induction tr1 as [|te r IH]; intros h; cbn; auto. destruct (mon_step h te); auto. Qed.

Lemma has_lost_app tr1 tr2 : has_lost (tr1 ++ tr2) = has_lost tr1 || has_lost tr2.
Proof. unfold has_lost. apply existsb_app. Qed.

Section KProofs.
  Variable S : Spec.
  Variable rs0 : Res S.
  Variable rs_enc : Res S -> list Z.
  Variable rdec : list Z -> Res S.
  Hypothesis rdec_enc : forall r, rdec (rs_enc r) = r.
  Variable okop : nat -> bool.
  Hypothesis okop_ge2 : forall op, okop op = true -> 2 <= op.
  Variable dec : nat -> Z -> Op S.
  Variable capply : St S -> nat -> Z -> St S * Res S.
  Hypothesis capply_spec : forall c op arg, okop op = true -> capply c op arg = sstep S c (dec op arg).
  Variable P : Type.
  Variable pinit : P.
  Variable pheld : P -> list (nat * nat * Z).
  Hypothesis pinit_held : pheld pinit = [].
  Variable pvisit : P -> St S -> nat -> nat -> nat -> Z -> P * St S * list (nat * Res S).
  Hypothesis pvisit_sound : visit_sound S pheld okop dec pvisit.
  Variable chk : bool.

  Notation G := (FcKernel.G (St S) (Res S)).
  Notation V := (FcKernel.V (Res S) P).
  Notation rec := (FcKernel.rec (Res S)).
  Notation prog := (Conc.prog G V ev).
  Notation vN n := (@VN (Res S) P n).

  (** the annotated trace: invocation, linearization point (= execution by the combiner), response *)
  Definition annot1 (te : nat * ev) : list (aev S) :=
    match snd te with
    | EvCli name args =>
        if String.eqb name "inv" then
          match args with
          | [op; arg] => [AInv (fst te) (dec (Z.to_nat op) arg)]
          | _ => []
          end
        else if String.eqb name "exec" then
          match args with
          | tid :: _ => [ALin (Z.to_nat tid)]
          | _ => []
          end
        else if String.eqb name "ret" then [ARes (fst te) (rdec args)]
        else []
    | _ => []
    end.
  Definition annot (tr : list (nat * ev)) : list (aev S) := flat_map annot1 tr.

  Lemma annot_app tr1 tr2 : annot (tr1 ++ tr2) = annot tr1 ++ annot tr2.
  Proof. unfold annot. apply flat_map_app. Qed.

  (** ** auxiliary state *)
  Inductive lockst := LNone | LHeld | LInside.
  Inductive phase :=
  | PIdle
  | PInv (op : nat) (arg : Z)
  | PWait (op : nat) (arg : Z)
  | PRel (op : nat) (arg : Z) (rs : Res S).

  Record tview := mkTV {
    v_my : option nat;                    (* the thread's publication record *)
    v_ph : phase;
    v_lk : lockst;
    v_held : list (nat * nat * Z);        (* records the combiner has seen pending: (record, request word, argument) *)
    v_fin : list nat;                     (* records executed by the combiner whose req_Response store is outstanding *)
    v_cand : option nat }.                (* record seen in state `removed` by loop 2 of compact_list *)

  (** the auxiliary state is a family of per-thread components (so that updating one component leaves the
      clauses about the others syntactically unchanged) plus the specification status of every thread *)
  Record aux := mkAux {
    x_my : nat -> option nat; x_ph : nat -> phase; x_lk : nat -> lockst;
    x_held : nat -> list (nat * nat * Z); x_fin : nat -> list nat; x_cand : nat -> option nat;
    x_st : nat -> status S }.

  Definition view (a : aux) (t : nat) : tview :=
    mkTV (x_my a t) (x_ph a t) (x_lk a t) (x_held a t) (x_fin a t) (x_cand a t).

  Definition upd {A} (f : nat -> A) (t : nat) (x : A) : nat -> A := fun u => if Nat.eqb u t then x else f u.
  Lemma upd_same {A} (f : nat -> A) t x : upd f t x t = x.
  Proof. unfold upd. now rewrite Nat.eqb_refl. Qed.
  Lemma upd_other {A} (f : nat -> A) t x u : u <> t -> upd f t x u = f u.
  Proof. unfold upd. intros H. destruct (Nat.eqb_spec u t); congruence. Qed.

  Definition set_my a t x := mkAux (upd (x_my a) t x) (x_ph a) (x_lk a) (x_held a) (x_fin a) (x_cand a) (x_st a).
  Definition set_ph a t x := mkAux (x_my a) (upd (x_ph a) t x) (x_lk a) (x_held a) (x_fin a) (x_cand a) (x_st a).
  Definition set_lk a t x := mkAux (x_my a) (x_ph a) (upd (x_lk a) t x) (x_held a) (x_fin a) (x_cand a) (x_st a).
  Definition set_held a t x := mkAux (x_my a) (x_ph a) (x_lk a) (upd (x_held a) t x) (x_fin a) (x_cand a) (x_st a).
  Definition set_fin a t x := mkAux (x_my a) (x_ph a) (x_lk a) (x_held a) (upd (x_fin a) t x) (x_cand a) (x_st a).
  Definition set_cand a t x := mkAux (x_my a) (x_ph a) (x_lk a) (x_held a) (x_fin a) (upd (x_cand a) t x) (x_st a).
  Definition set_st a t x := mkAux (x_my a) (x_ph a) (x_lk a) (x_held a) (x_fin a) (x_cand a) (upd (x_st a) t x).

  (** the same updates on a view *)
  Definition vmy l x := mkTV x (v_ph l) (v_lk l) (v_held l) (v_fin l) (v_cand l).
  Definition vph l x := mkTV (v_my l) x (v_lk l) (v_held l) (v_fin l) (v_cand l).
  Definition vlk l x := mkTV (v_my l) (v_ph l) x (v_held l) (v_fin l) (v_cand l).
  Definition vheld l x := mkTV (v_my l) (v_ph l) (v_lk l) x (v_fin l) (v_cand l).
  Definition vfin l x := mkTV (v_my l) (v_ph l) (v_lk l) (v_held l) x (v_cand l).
  Definition vcand l x := mkTV (v_my l) (v_ph l) (v_lk l) (v_held l) (v_fin l) x.

  Lemma frame_refl a t : Conc.frame view t a a.
  Proof. intros t' H. reflexivity. Qed.
  Lemma frame_trans t a b c : Conc.frame view t a b -> Conc.frame view t b c -> Conc.frame view t a c.
  Proof. intros H1 H2 t' H. rewrite (H2 t' H). apply H1; exact H. Qed.

  Ltac frame_tac := intros ?t' ?H; unfold view; cbn; rewrite ?upd_other by assumption; reflexivity.
  Lemma frame_set_my a t x : Conc.frame view t a (set_my a t x). Proof. frame_tac. Qed.
  Lemma frame_set_ph a t x : Conc.frame view t a (set_ph a t x). Proof. frame_tac. Qed.
  Lemma frame_set_lk a t x : Conc.frame view t a (set_lk a t x). Proof. frame_tac. Qed.
  Lemma frame_set_held a t x : Conc.frame view t a (set_held a t x). Proof. frame_tac. Qed.
  Lemma frame_set_fin a t x : Conc.frame view t a (set_fin a t x). Proof. frame_tac. Qed.
  Lemma frame_set_cand a t x : Conc.frame view t a (set_cand a t x). Proof. frame_tac. Qed.
  Lemma frame_set_st a t u x : Conc.frame view t a (set_st a u x). Proof. intros t' H. reflexivity. Qed.

  Ltac view_tac := unfold view; cbn; rewrite ?upd_same; reflexivity.
  Lemma view_set_my a t x : view (set_my a t x) t = vmy (view a t) x. Proof. view_tac. Qed.
  Lemma view_set_ph a t x : view (set_ph a t x) t = vph (view a t) x. Proof. view_tac. Qed.
  Lemma view_set_lk a t x : view (set_lk a t x) t = vlk (view a t) x. Proof. view_tac. Qed.
  Lemma view_set_held a t x : view (set_held a t x) t = vheld (view a t) x. Proof. view_tac. Qed.
  Lemma view_set_fin a t x : view (set_fin a t x) t = vfin (view a t) x. Proof. view_tac. Qed.
  Lemma view_set_cand a t x : view (set_cand a t x) t = vcand (view a t) x. Proof. view_tac. Qed.
  Lemma view_set_st a t u x : view (set_st a u x) t = view a t. Proof. reflexivity. Qed.

  Definition unowned (a : aux) (r : nat) : Prop := forall t, x_my a t <> Some r.

  Definition recs (g : G) (r : nat) : rec := g_recs g r.

  (** *** the lock part (holds always) *)
  Record LkInv (g : G) (a : aux) (tr : list (nat * ev)) : Prop := {
    lk_free : g_lock g = false -> forall t, x_lk a t = LNone;
    lk_uniq : forall t t', x_lk a t <> LNone -> x_lk a t' <> LNone -> t = t';
    lk_mon : exists h, mon None tr = Some h /\ forall t, x_lk a t = LInside <-> h = Some t }.

  (** *** ownership and linearization-point bookkeeping (holds as long as no request was lost) *)
  Definition in_fin (a : aux) (r : nat) : Prop := exists tc, In r (x_fin a tc).

  Definition wait_ok (g : G) (a : aux) (t r op : nat) (arg : Z) : Prop :=
    okop op = true /\ r_tid (recs g r) = t /\ r_arg (recs g r) = arg /\
    ((r_req (recs g r) = op /\ x_st a t = Pending (dec op arg) /\ ~ in_fin a r) \/
     (r_req (recs g r) = op /\ (exists res, x_st a t = Linearized (dec op arg) res /\ r_res (recs g r) = res) /\ in_fin a r) \/
     (r_req (recs g r) = req_Response /\ (exists res, x_st a t = Linearized (dec op arg) res /\ r_res (recs g r) = res) /\ ~ in_fin a r)).

  Definition phase_ok (g : G) (a : aux) (t : nat) : Prop :=
    match x_ph a t, x_my a t with
    | PIdle, my => x_st a t = Idle /\ (forall r, my = Some r -> r_req (recs g r) = req_Empty)
    | PInv op arg, my => okop op = true /\ x_st a t = Pending (dec op arg) /\ (forall r, my = Some r -> r_req (recs g r) = req_Empty)
    | PWait op arg, Some r => wait_ok g a t r op arg
    | PWait _ _, None => False
    | PRel op arg rs, Some r => r_req (recs g r) = req_Empty /\ x_st a t = Linearized (dec op arg) rs
    | PRel _ _ _, None => False
    end.

  Record Rest (g : G) (a : aux) (tr : list (nat * ev)) : Prop := {
    r_inj : forall t t' r, x_my a t = Some r -> x_my a t' = Some r -> t = t';
    r_alloc : forall t r, x_my a t = Some r -> r < g_nrec g;
    r_fresh : forall r, g_nrec g <= r -> r_state (recs g r) <> st_removed;
    r_removed : forall r, r_state (recs g r) = st_removed -> unowned a r;
    r_cand : forall t r, x_cand a t = Some r -> unowned a r /\ r < g_nrec g;
    r_owned : forall r, req_Operation <= r_req (recs g r) -> exists t, x_my a t = Some r;
    r_phase : forall t, phase_ok g a t;
    r_held : forall t q o x, In (q, o, x) (x_held a t) ->
               x_lk a t = LInside /\ r_req (recs g q) = o /\ 2 <= o /\ r_arg (recs g q) = x /\ ~ In q (x_fin a t);
    r_fin : forall t q, In q (x_fin a t) ->
               x_lk a t = LInside /\ exists t' op arg, x_my a t' = Some q /\ x_ph a t' = PWait op arg;
    r_lp : lp_run lp_init (annot tr) = Some (g_cont g, x_st a) }.

  Definition Inv (g : G) (a : aux) (tr : list (nat * ev)) : Prop :=
    LkInv g a tr /\ (has_lost tr = true \/ Rest g a tr).

  Notation safe := (@Conc.safe G V ev aux tview view Inv).

  (** ** steps that do not touch what the invariant talks about *)
  Definition neutral_ev (e : ev) : Prop :=
    match e with EvAcc _ _ _ => True | EvCli name _ => name = "uaf" end.

  Definition same_req (g g' : G) : Prop :=
    forall r, r_req (recs g' r) = r_req (recs g r) /\ r_tid (recs g' r) = r_tid (recs g r) /\
              r_arg (recs g' r) = r_arg (recs g r) /\ r_res (recs g' r) = r_res (recs g r).

  Definition neutral_upd (g g' : G) : Prop :=
    g_cont g' = g_cont g /\ g_nrec g' = g_nrec g /\ same_req g g' /\
    (forall r, r_state (recs g' r) = st_removed -> r_state (recs g r) = st_removed).

  Lemma neutral_annot t es : Forall neutral_ev es -> annot (Conc.tag t es) = [].
  Proof.
    induction 1 as [|e es He _ IH]; [reflexivity|].
    change (annot (Conc.tag t (e :: es))) with (annot1 (t, e) ++ annot (Conc.tag t es)).
    rewrite IH, app_nil_r.
    unfold annot1; cbn. destruct e as [k o b|name args]; auto. cbn in He. subst name. reflexivity.
  Qed.

  Lemma neutral_mon t es h : Forall neutral_ev es -> mon h (Conc.tag t es) = Some h.
  Proof.
    induction 1 as [|e es He _ IH]; [reflexivity|].
    change (mon h (Conc.tag t (e :: es))) with
      (match mon_step h (t, e) with Some h' => mon h' (Conc.tag t es) | None => None end).
    assert (mon_step h (t, e) = Some h) as ->; [|exact IH].
    unfold mon_step, is_ev; cbn. destruct e as [k o b|name args]; auto. cbn in He. subst name. reflexivity.
  Qed.

  Lemma neutral_lost t es : Forall neutral_ev es -> has_lost (Conc.tag t es) = false.
  Proof.
    induction 1 as [|e es He _ IH]; [reflexivity|].
    change (has_lost (Conc.tag t (e :: es))) with (is_ev "lost" (t, e) || has_lost (Conc.tag t es)).
    rewrite IH, orb_false_r.
    unfold is_ev; cbn. destruct e as [k o b|name args]; auto. cbn in He. subst name. reflexivity.
  Qed.

  Definition same_at (g g' : G) (r : nat) : Prop :=
    r_req (recs g' r) = r_req (recs g r) /\ r_tid (recs g' r) = r_tid (recs g r) /\
    r_arg (recs g' r) = r_arg (recs g r) /\ r_res (recs g' r) = r_res (recs g r).

  Lemma wait_ok_ext_at g g' a t r op arg : same_at g g' r -> wait_ok g a t r op arg -> wait_ok g' a t r op arg.
  Proof. intros (E1 & E2 & E3 & E4). unfold wait_ok. rewrite E1, E2, E3, E4. tauto. Qed.

  Lemma phase_ok_ext_at g g' a t :
    (forall r, x_my a t = Some r -> same_at g g' r) -> phase_ok g a t -> phase_ok g' a t.
  Proof.
    intros Hs. unfold phase_ok.
    destruct (x_ph a t) as [|op arg|op arg|op arg rs]; destruct (x_my a t) as [r|]; auto.
    - intros [H1 H2]. split; auto. intros r0 E. inversion E; subst r0. destruct (Hs r eq_refl) as (E1 & _). rewrite E1. auto.
    - intros [H1 H2]. split; auto. intros r0 E. discriminate.
    - intros (H0 & H1 & H2). repeat split; auto. intros r0 E. inversion E; subst r0. destruct (Hs r eq_refl) as (E1 & _). rewrite E1. auto.
    - intros (H0 & H1 & H2). repeat split; auto. intros r0 E. discriminate.
    - apply wait_ok_ext_at; auto.
    - destruct (Hs r eq_refl) as (E1 & _). rewrite E1. auto.
  Qed.

  Lemma phase_ok_ext g g' a t : same_req g g' -> phase_ok g a t -> phase_ok g' a t.
  Proof. intros Hs. apply phase_ok_ext_at. intros r _. apply Hs. Qed.

  Lemma LkInv_neutral g g' a tr t es :
    LkInv g a tr -> g_lock g' = g_lock g -> Forall neutral_ev es -> LkInv g' a (tr ++ Conc.tag t es).
  Proof.
    intros [L1 L2 (h & L3 & L4)] El Hes. split.
    - rewrite El. exact L1.
    - exact L2.
    - exists h. split; [|exact L4]. rewrite mon_app, L3. apply neutral_mon; exact Hes.
  Qed.

  Lemma Rest_neutral g g' a tr t es :
    Rest g a tr -> neutral_upd g g' -> Forall neutral_ev es -> Rest g' a (tr ++ Conc.tag t es).
  Proof.
    intros R (Ec & En & Hs & Hst) Hes. destruct R. split.
    - exact r_inj0.
    - intros t0 r Hm. rewrite En. eauto.
    - intros r Hr Hx. apply (r_fresh0 r); [rewrite <- En; exact Hr|]. apply Hst; exact Hx.
    - intros r Hr. apply r_removed0. apply Hst; exact Hr.
    - intros t0 r Hc. rewrite En. exact (r_cand0 _ _ Hc).
    - intros r Hu. destruct (Hs r) as (E1 & _). rewrite E1 in Hu. auto.
    - intros t0. eapply phase_ok_ext; eauto.
    - intros t0 q o x Hin. destruct (r_held0 t0 q o x Hin) as (A & B & C & D & E).
      destruct (Hs q) as (E1 & E2 & E3 & E4). rewrite E1, E3. auto.
    - exact r_fin0.
    - rewrite annot_app, neutral_annot, app_nil_r, Ec; auto.
  Qed.

  Lemma Inv_neutral g g' a tr t es :
    Inv g a tr -> g_lock g' = g_lock g -> neutral_upd g g' -> Forall neutral_ev es -> Inv g' a (tr ++ Conc.tag t es).
  Proof.
    intros [HL HR] El Hn Hes. split.
    - eapply LkInv_neutral; eauto.
    - destruct HR as [Hl|HR]; [left|right].
      + rewrite has_lost_app, Hl. reflexivity.
      + eapply Rest_neutral; eauto.
  Qed.

  Definition neutral_act (f : G -> G * V * list ev) : Prop :=
    forall g, g_lock (fst (fst (f g))) = g_lock g /\ neutral_upd g (fst (fst (f g))) /\ Forall neutral_ev (snd (f g)).

  Lemma safe_neutral R t f (k : V -> prog R) l Q :
    neutral_act f -> (forall v, safe t (k v) l Q) -> safe t (Act f k) l Q.
  Proof.
    intros Hn Hk. cbn [Conc.safe]. intros g a tr Hi Hv. exists a. destruct (Hn g) as (H0 & H1 & H2).
    split; [eapply Inv_neutral; eauto|]. split; [apply frame_refl|]. rewrite Hv. apply Hk.
  Qed.

  Lemma neutral_upd_refl (g : G) : neutral_upd g g.
  Proof. repeat split; auto. Qed.

  Lemma acc_neutral (g : G) k r f ok : Forall neutral_ev (acc g k r f ok).
  Proof. unfold acc. constructor; [exact I|]. destruct (r_freed (g_recs g r)); repeat constructor. Qed.

  Lemma neutral_a_begin : neutral_act (@a_begin (St S) (Res S) P).
  Proof. intros g. split; [reflexivity|]. split; [apply neutral_upd_refl|]. repeat constructor. Qed.

  Lemma neutral_a_ld r f : neutral_act (@a_ld (St S) (Res S) P r f).
  Proof. intros g. split; [reflexivity|]. split; [apply neutral_upd_refl|]. apply acc_neutral. Qed.

  Lemma neutral_a_ldcount : neutral_act (@a_ldcount (St S) (Res S) P).
  Proof. intros g. split; [reflexivity|]. split; [apply neutral_upd_refl|]. repeat constructor. Qed.

  Lemma neutral_a_faacount : neutral_act (@a_faacount (St S) (Res S) P).
  Proof. intros g. split; [reflexivity|]. split; [repeat split; auto|]. repeat constructor. Qed.

  (** a store that changes only nAge / pNext / pNextAllocated, or sets nState to something else than `removed` *)
  Definition plain_fld (f : fld) (v : nat) : Prop :=
    match f with FReq => False | FState => v <> st_removed | _ => True end.

  Lemma upd_rec_neutral (g : G) r f v : plain_fld f v -> neutral_upd g (upd_rec g r (set_fld (g_recs g r) f v)).
  Proof.
    intros Hp. unfold neutral_upd, same_req, recs, upd_rec; cbn. repeat split; auto.
    - destruct (Nat.eqb_spec r0 r) as [->|]; auto. destruct f; cbn in *; tauto.
    - destruct (Nat.eqb_spec r0 r) as [->|]; auto. destruct f; cbn in *; tauto.
    - destruct (Nat.eqb_spec r0 r) as [->|]; auto. destruct f; cbn in *; tauto.
    - destruct (Nat.eqb_spec r0 r) as [->|]; auto. destruct f; cbn in *; tauto.
    - intros r0. destruct (Nat.eqb_spec r0 r) as [->|]; auto. destruct f; cbn in *; tauto.
  Qed.

  Lemma neutral_a_st r f v : plain_fld f v -> neutral_act (@a_st (St S) (Res S) P r f v).
  Proof. intros Hp g. split; [reflexivity|]. split; [apply upd_rec_neutral; exact Hp|]. apply acc_neutral. Qed.

  Lemma neutral_a_cas r f e d : plain_fld f d -> neutral_act (@a_cas (St S) (Res S) P r f e d).
  Proof.
    intros Hp g. unfold a_cas. destruct (Nat.eqb (get_fld (g_recs g r) f) e); cbn [fst snd].
    - split; [reflexivity|]. split; [apply upd_rec_neutral; exact Hp|]. apply acc_neutral.
    - split; [reflexivity|]. split; [apply neutral_upd_refl|]. apply acc_neutral.
  Qed.

  (** ** the lock *)
  Lemma Rest_set_lk g a tr t x :
    Rest g a tr -> (forall e, In e (x_held a t) -> x = LInside) -> (forall q, In q (x_fin a t) -> x = LInside) ->
    Rest g (set_lk a t x) tr.
  Proof.
    intros R Hh Hf. destruct R. split; try assumption.
    - intros t0 q o z Hin. cbn in *. destruct (r_held0 t0 q o z Hin) as (A & B). split; [|exact B].
      unfold upd. destruct (Nat.eqb_spec t0 t) as [->|]; [eapply Hh; eauto|exact A].
    - intros t0 q Hin. cbn in *. destruct (r_fin0 t0 q Hin) as (A & B). split; [|exact B].
      unfold upd. destruct (Nat.eqb_spec t0 t) as [->|]; [eapply Hf; eauto|exact A].
  Qed.

  Lemma lost_mono tr es : has_lost tr = true -> has_lost (tr ++ es) = true.
  Proof. intros H. rewrite has_lost_app, H. reflexivity. Qed.

  Lemma neutral_set_lock (g : G) b : neutral_upd g (set_lock g b).
  Proof. repeat split; auto. Qed.

  Lemma safe_xchg R t (k : V -> prog R) l Q :
    safe t (k (vN 1)) l Q -> safe t (k (vN 0)) (vlk l LHeld) Q ->
    safe t (Act (@a_xchg (St S) (Res S) P) k) l Q.
  Proof.
    intros K1 K0. cbn [Conc.safe]. intros g a tr [HL HR] Hv. unfold a_xchg; cbn [fst snd].
    assert (Hes : Forall neutral_ev [EvAcc KXchg obj_lock true]) by (repeat constructor).
    destruct (g_lock g) eqn:El.
    - exists a. split; [|split; [apply frame_refl|rewrite Hv; exact K1]].
      apply Inv_neutral with (g := g); [split; assumption|cbn; auto|apply neutral_set_lock|exact Hes].
    - exists (set_lk a t LHeld). split; [|split; [apply frame_set_lk|rewrite view_set_lk, Hv; exact K0]].
      destruct HL as [L1 L2 (h & L3 & L4)]. specialize (L1 El). split.
      + split.
        * cbn. discriminate.
        * intros t1 t2 H1 H2. cbn in H1, H2. unfold upd in *.
          destruct (Nat.eqb_spec t1 t), (Nat.eqb_spec t2 t); subst; auto;
            first [exfalso; apply H2; apply L1 | exfalso; apply H1; apply L1].
        * exists h. split; [rewrite mon_app, L3; apply neutral_mon; exact Hes|].
          intros t0. cbn. unfold upd. destruct (Nat.eqb_spec t0 t) as [->|]; [|apply L4].
          split; [discriminate|]. intros E. apply L4 in E. rewrite L1 in E. discriminate.
      + destruct HR as [Hl|HR]; [left; apply lost_mono; exact Hl|right].
        apply Rest_set_lk.
        * eapply Rest_neutral; [exact HR|apply neutral_set_lock|exact Hes].
        * intros e He. destruct e as [[q o] z]. destruct (r_held HR t q o z He) as (A & _). rewrite L1 in A. discriminate.
        * intros q Hq. destruct (r_fin HR t q Hq) as (A & _). rewrite L1 in A. discriminate.
  Qed.

  (** events that are invisible to the annotation *)
  Lemma Rest_trace g a tr es : Rest g a tr -> annot es = [] -> Rest g a (tr ++ es).
  Proof. intros R He. destruct R. split; try assumption. rewrite annot_app, He, app_nil_r. assumption. Qed.

  Lemma LkInv_set_held g a tr t x : LkInv g a tr -> LkInv g (set_held a t x) tr.
  Proof. intros [L1 L2 L3]. split; assumption. Qed.
  Lemma LkInv_set_fin g a tr t x : LkInv g a tr -> LkInv g (set_fin a t x) tr.
  Proof. intros [L1 L2 L3]. split; assumption. Qed.
  Lemma LkInv_set_cand g a tr t x : LkInv g a tr -> LkInv g (set_cand a t x) tr.
  Proof. intros [L1 L2 L3]. split; assumption. Qed.
  Lemma LkInv_set_my g a tr t x : LkInv g a tr -> LkInv g (set_my a t x) tr.
  Proof. intros [L1 L2 L3]. split; assumption. Qed.
  Lemma LkInv_set_ph g a tr t x : LkInv g a tr -> LkInv g (set_ph a t x) tr.
  Proof. intros [L1 L2 L3]. split; assumption. Qed.
  Lemma LkInv_set_st g a tr t x : LkInv g a tr -> LkInv g (set_st a t x) tr.
  Proof. intros [L1 L2 L3]. split; assumption. Qed.

  Lemma view_lk a t l : view a t = l -> x_lk a t = v_lk l.
  Proof. intros <-. reflexivity. Qed.
  Lemma view_my a t l : view a t = l -> x_my a t = v_my l.
  Proof. intros <-. reflexivity. Qed.
  Lemma view_ph a t l : view a t = l -> x_ph a t = v_ph l.
  Proof. intros <-. reflexivity. Qed.
  Lemma view_held a t l : view a t = l -> x_held a t = v_held l.
  Proof. intros <-. reflexivity. Qed.
  Lemma view_fin a t l : view a t = l -> x_fin a t = v_fin l.
  Proof. intros <-. reflexivity. Qed.
  Lemma view_cand a t l : view a t = l -> x_cand a t = v_cand l.
  Proof. intros <-. reflexivity. Qed.

  (** "lock" event: the thread that won the exchange enters the combiner role *)
  Lemma safe_emit_lock R t (k : prog R) l Q :
    v_lk l = LHeld -> safe t k (vlk l LInside) Q -> safe t (Emit [EvCli "lock" []] k) l Q.
  Proof.
    intros Hl K. cbn [Conc.safe]. intros g a tr [HL HR] Hv. pose proof (view_lk Hv) as Elk. rewrite Hl in Elk.
    exists (set_lk a t LInside). split; [|split; [apply frame_set_lk|rewrite view_set_lk, Hv; exact K]].
    destruct HL as [L1 L2 (h & L3 & L4)].
    assert (Hoth : forall t0, t0 <> t -> x_lk a t0 = LNone).
    { intros t0 Hne. destruct (x_lk a t0) eqn:E; auto; exfalso; apply Hne; apply L2; congruence. }
    assert (Hh : h = None).
    { destruct h as [t0|]; auto. pose proof (proj2 (L4 t0) eq_refl) as E0. destruct (Nat.eq_dec t0 t) as [->|Hne].
      - rewrite Elk in E0. discriminate.
      - rewrite (Hoth t0 Hne) in E0. discriminate. }
    subst h. split.
    - split.
      + intros Hf. specialize (L1 Hf t). congruence.
      + intros t1 t2 H1 H2. cbn in H1, H2. unfold upd in *.
        destruct (Nat.eqb_spec t1 t), (Nat.eqb_spec t2 t); subst; auto;
          first [exfalso; apply H2; apply Hoth; assumption | exfalso; apply H1; apply Hoth; assumption].
      + exists (Some t). split; [rewrite mon_app, L3; reflexivity|].
        intros t0. cbn. unfold upd. destruct (Nat.eqb_spec t0 t) as [->|Hne]; [tauto|].
        rewrite (Hoth t0 Hne). split; [discriminate|]. intros E; inversion E; congruence.
    - destruct HR as [Hlost|HR]; [left; apply lost_mono; exact Hlost|right].
      apply Rest_set_lk; auto. apply Rest_trace; auto.
  Qed.

  Lemma Rest_set_held_sub g a tr t h :
    Rest g a tr -> (forall e, In e h -> In e (x_held a t)) -> Rest g (set_held a t h) tr.
  Proof.
    intros R Hsub. destruct R. split; try assumption.
    intros t0 q o z Hin. cbn in Hin. unfold upd in Hin. destruct (Nat.eqb_spec t0 t) as [->|Hne].
    - apply r_held0. apply Hsub. exact Hin.
    - apply r_held0. exact Hin.
  Qed.

  (** "unlock" event: leaves the combiner role; nothing executed may be left without its response store *)
  Lemma safe_emit_unlock R t (k : prog R) l Q :
    v_lk l = LInside -> v_fin l = [] -> safe t k (vheld (vlk l LHeld) []) Q ->
    safe t (Emit [EvCli "unlock" []] k) l Q.
  Proof.
    intros Hl Hf K. cbn [Conc.safe]. intros g a tr [HL HR] Hv.
    pose proof (view_lk Hv) as Elk. rewrite Hl in Elk. pose proof (view_fin Hv) as Efin. rewrite Hf in Efin.
    exists (set_lk (set_held a t []) t LHeld).
    split; [|split; [eapply frame_trans; [apply frame_set_held|apply frame_set_lk]|rewrite view_set_lk, view_set_held, Hv; exact K]].
    destruct HL as [L1 L2 (h & L3 & L4)].
    assert (Hoth : forall t0, t0 <> t -> x_lk a t0 = LNone).
    { intros t0 Hne. destruct (x_lk a t0) eqn:E; auto; exfalso; apply Hne; apply L2; congruence. }
    assert (Hh : h = Some t) by (apply L4; exact Elk). subst h.
    split.
    - split.
      + intros Hfree. specialize (L1 Hfree t). congruence.
      + intros t1 t2 H1 H2. cbn in H1, H2. unfold upd in *.
        destruct (Nat.eqb_spec t1 t), (Nat.eqb_spec t2 t); subst; auto;
          first [exfalso; apply H2; apply Hoth; assumption | exfalso; apply H1; apply Hoth; assumption].
      + exists None. split; [rewrite mon_app, L3; cbn; unfold mon_step, is_ev; cbn; rewrite Nat.eqb_refl; reflexivity|].
        intros t0. cbn. unfold upd. destruct (Nat.eqb_spec t0 t) as [->|Hne]; [split; discriminate|].
        rewrite (Hoth t0 Hne). split; discriminate.
    - destruct HR as [Hlost|HR]; [left; apply lost_mono; exact Hlost|right].
      apply Rest_set_lk.
      + apply Rest_set_held_sub; [apply Rest_trace; auto|intros e []].
      + intros e He. cbn in He. rewrite upd_same in He. destruct He.
      + intros q Hq. cbn in Hq. rewrite Efin in Hq. destruct Hq.
  Qed.

  (** unlock: m_Mutex.unlock() *)
  Lemma safe_unlock R t (k : V -> prog R) l Q :
    v_lk l = LHeld -> (forall v, safe t (k v) (vlk l LNone) Q) ->
    safe t (Act (@a_unlock (St S) (Res S) P) k) l Q.
  Proof.
    intros Hl K. cbn [Conc.safe]. intros g a tr [HL HR] Hv. pose proof (view_lk Hv) as Elk. rewrite Hl in Elk.
    unfold a_unlock; cbn [fst snd].
    assert (Hes : Forall neutral_ev [EvAcc KSt obj_lock true]) by (repeat constructor).
    exists (set_lk a t LNone). split; [|split; [apply frame_set_lk|rewrite view_set_lk, Hv; apply K]].
    destruct HL as [L1 L2 (h & L3 & L4)].
    assert (Hoth : forall t0, t0 <> t -> x_lk a t0 = LNone).
    { intros t0 Hne. destruct (x_lk a t0) eqn:E; auto; exfalso; apply Hne; apply L2; congruence. }
    split.
    - split.
      + intros _ t0. cbn. unfold upd. destruct (Nat.eqb_spec t0 t); auto.
      + intros t1 t2 H1 H2. cbn in H1, H2. unfold upd in *.
        destruct (Nat.eqb_spec t1 t), (Nat.eqb_spec t2 t); subst; auto; try congruence;
          exfalso; apply H1; apply Hoth; assumption.
      + exists h. split; [rewrite mon_app, L3; apply neutral_mon; exact Hes|].
        intros t0. cbn. unfold upd. destruct (Nat.eqb_spec t0 t) as [->|Hne]; [|apply L4].
        split; [discriminate|]. intros E. apply L4 in E. congruence.
    - destruct HR as [Hlost|HR]; [left; apply lost_mono; exact Hlost|right].
      apply Rest_set_lk.
      + eapply Rest_neutral; [exact HR|apply neutral_set_lock|exact Hes].
      + intros e He. destruct e as [[q o] z]. destruct (r_held HR t q o z He) as (A & _). congruence.
      + intros q Hq. destruct (r_fin HR t q Hq) as (A & _). congruence.
  Qed.

  (** the combiner reads a request word: a pending request it sees stays pending until it executes it *)
  Lemma safe_ld_req R t r (k : V -> prog R) l Q :
    v_lk l = LInside -> v_fin l = [] ->
    (forall v, v < 2 -> safe t (k (vN v)) l Q) ->
    (forall v x, 2 <= v -> safe t (k (vN v)) (vheld l ((r, v, x) :: v_held l)) Q) ->
    safe t (Act (@a_ld (St S) (Res S) P r FReq) k) l Q.
  Proof.
    intros Hl Hf K1 K2. cbn [Conc.safe]. intros g a tr Hi Hv.
    pose proof (view_lk Hv) as Elk. rewrite Hl in Elk. pose proof (view_fin Hv) as Efin. rewrite Hf in Efin.
    unfold a_ld; cbn [fst snd get_fld].
    pose proof (Inv_neutral t (es := acc g KLd r FReq true) Hi eq_refl (neutral_upd_refl g) (acc_neutral g KLd r FReq true)) as Hi'.
    destruct (le_lt_dec 2 (r_req (g_recs g r))) as [Hge|Hlt].
    - pose proof (view_held Hv) as Eheld.
      exists (set_held a t ((r, r_req (g_recs g r), r_arg (g_recs g r)) :: v_held l)).
      split; [|split; [apply frame_set_held|rewrite view_set_held, Hv; apply K2; exact Hge]].
      destruct Hi' as [HL HR]. split; [apply LkInv_set_held; exact HL|].
      destruct HR as [Hlost|HR]; [left; exact Hlost|right].
      destruct HR. split; try assumption.
      intros t0 q o z Hin. cbn in Hin. unfold upd in Hin. destruct (Nat.eqb_spec t0 t) as [->|Hne]; [|apply r_held0; exact Hin].
      destruct Hin as [E|Hin]; [|apply r_held0; rewrite Eheld; exact Hin]. inversion E; subst q o z.
      rewrite Efin. repeat split; auto.
    - exists a. split; [exact Hi'|]. split; [apply frame_refl|]. rewrite Hv. apply K1. exact Hlt.
  Qed.

  (** loop 2 of compact_list reads nState: a record seen `removed` has no owner, for ever *)
  Lemma safe_ld_state_cand R t r (k : V -> prog R) l Q :
    (forall v, v <> st_removed -> safe t (k (vN v)) l Q) ->
    safe t (k (vN st_removed)) (vcand l (Some r)) Q ->
    safe t (Act (@a_ld (St S) (Res S) P r FState) k) l Q.
  Proof.
    intros K1 K2. cbn [Conc.safe]. intros g a tr Hi Hv. unfold a_ld; cbn [fst snd get_fld].
    pose proof (Inv_neutral t (es := acc g KLd r FState true) Hi eq_refl (neutral_upd_refl g) (acc_neutral g KLd r FState true)) as Hi'.
    destruct (Nat.eq_dec (r_state (g_recs g r)) st_removed) as [E|Hne].
    - exists (set_cand a t (Some r)). rewrite E.
      split; [|split; [apply frame_set_cand|rewrite view_set_cand, Hv; exact K2]].
      destruct Hi' as [HL HR]. split; [apply LkInv_set_cand; exact HL|].
      destruct HR as [Hlost|HR]; [left; exact Hlost|right].
      destruct HR. split; try assumption.
      intros t0 r0 Hc. cbn in Hc. unfold upd in Hc. destruct (Nat.eqb_spec t0 t) as [->|Hn]; [|apply (r_cand0 t0); exact Hc].
      inversion Hc; subst r0. split; [apply r_removed0; exact E|].
      destruct (le_lt_dec (g_nrec g) r) as [Hle|Hlt]; [|exact Hlt]. exfalso. apply (r_fresh0 r Hle). exact E.
    - exists a. split; [exact Hi'|]. split; [apply frame_refl|]. rewrite Hv. apply K1. exact Hne.
  Qed.
End KProofs.
