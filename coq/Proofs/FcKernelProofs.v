(** * Flat-combining kernel: invariant proof for every schedule (LV.Model.FcKernel).

    Part A (this file): mutual exclusion of combiners, ownership of publication records, and the
    linearization-point discipline "a request is executed only while it is pending, by the lock holder, and
    the requester's response is the one the execution wrote" — for every schedule, any number of threads,
    thread exits and compaction included, for every container whose callbacks satisfy
    [capply_spec] / [visit_sound].  The only thing Part A does not show is that a combiner's own request is
    reached by its own combining pass (the compiled-out `assert( pRec->is_done())`): a release of a record
    whose request is not done emits the model event "lost", and Part A is stated for traces without it. *)
From Coq Require Import ZArith List String Bool Lia PeanoNat.
From LV Require Import Base.Conc Base.Events Base.Lin Proofs.LinProofs Model.FcKernel Model.FcBatch Proofs.FcBatchProofs.
Import ListNotations.
Local Open Scope string_scope.
Local Open Scope list_scope.

Set Implicit Arguments.

(** ** trace functions *)
Definition is_ev (name : string) (te : nat * ev) : bool := is_cli name (snd te).

Definition has_lost (tr : list (nat * ev)) : bool := existsb (is_ev "lost") tr.

(** the combiner-lock monitor: "lock"/"unlock" alternate, "exec" and "free" only by the holder *)
Definition mon_step (h : option nat) (te : nat * ev) : option (option nat) :=
  let t := fst te in
  if is_ev "lock" te then (match h with None => Some (Some t) | Some _ => None end)
  else if is_ev "unlock" te then (match h with Some t' => if Nat.eqb t' t then Some None else None | None => None end)
  else if is_ev "exec" te || is_ev "free" te then
    (match h with Some t' => if Nat.eqb t' t then Some h else None | None => None end)
  else Some h.

Fixpoint mon (h : option nat) (tr : list (nat * ev)) : option (option nat) :=
  match tr with
  | [] => Some h
  | te :: r => match mon_step h te with Some h' => mon h' r | None => None end
  end.

Lemma mon_app h tr1 tr2 : mon h (tr1 ++ tr2) = match mon h tr1 with Some h' => mon h' tr2 | None => None end.
Proof. revert h; induction tr1 as [|te r IH]; intros h; cbn; auto. destruct (mon_step h te); auto. Qed.

Lemma has_lost_app tr1 tr2 : has_lost (tr1 ++ tr2) = has_lost tr1 || has_lost tr2.
Proof. unfold has_lost. apply existsb_app. Qed.

Section KProofs.
  Variable S : Spec.
  Variable rs0 : Res S.
  Variable rs_enc : Res S -> list Z.
  Variable rdec : list Z -> Res S.
  Hypothesis rdec_enc : forall r, rdec (rs_enc r) = r.
  Variable okop : nat -> bool.
  Hypothesis okop_ge2 : forall op, okop op = true -> 2 <= op.
  Variable dec : nat -> Z -> Op S.
  Variable capply : St S -> nat -> Z -> St S * Res S.
  Hypothesis capply_spec : forall c op arg, okop op = true -> capply c op arg = sstep S c (dec op arg).
  Variable P : Type.
  Variable pinit : P.
  Variable pheld : P -> list (nat * nat * Z).
  Hypothesis pinit_held : pheld pinit = [].
  Variable pvisit : P -> St S -> nat -> nat -> nat -> Z -> P * St S * list (nat * Res S).
  Hypothesis pvisit_sound : visit_sound S pheld okop dec pvisit.
  Variable chk : bool.

  Notation G := (FcKernel.G (St S) (Res S)).
  Notation V := (FcKernel.V (Res S) P).
  Notation rec := (FcKernel.rec (Res S)).
  Notation prog := (Conc.prog G V ev).
  Notation vN n := (@VN (Res S) P n).

  (** the annotated trace: invocation, linearization point (= execution by the combiner), response *)
  Definition annot1 (te : nat * ev) : list (aev S) :=
    match snd te with
    | EvCli name args =>
        if String.eqb name "inv" then
          match args with
          | [op; arg] => [AInv (fst te) (dec (Z.to_nat op) arg)]
          | _ => []
          end
        else if String.eqb name "exec" then
          match args with
          | tid :: _ => [ALin (Z.to_nat tid)]
          | _ => []
          end
        else if String.eqb name "ret" then [ARes (fst te) (rdec args)]
        else []
    | _ => []
    end.
  Definition annot (tr : list (nat * ev)) : list (aev S) := flat_map annot1 tr.

  Lemma annot_app tr1 tr2 : annot (tr1 ++ tr2) = annot tr1 ++ annot tr2.
  Proof. unfold annot. apply flat_map_app. Qed.

  (** ** auxiliary state *)
  Inductive lockst := LNone | LHeld | LInside.
  Inductive phase :=
  | PIdle
  | PInv (op : nat) (arg : Z)
  | PWait (op : nat) (arg : Z)
  | PRel (op : nat) (arg : Z) (rs : Res S).

  Record tview := mkTV {
    v_my : option nat;                    (* the thread's publication record *)
    v_ph : phase;
    v_lk : lockst;
    v_held : list (nat * nat * Z);        (* records the combiner has seen pending: (record, request word, argument) *)
    v_fin : list nat;                     (* records executed by the combiner whose req_Response store is outstanding *)
    v_cand : option nat;                  (* record seen in state `removed` by loop 2 of compact_list *)
    v_p : list (nat * nat * Z) }.         (* the requests remembered by the running fc_process loop (itPrev) *)

  (** the auxiliary state is a family of per-thread components (so that updating one component leaves the
      clauses about the others syntactically unchanged) plus the specification status of every thread *)
  Record aux := mkAux {
    x_my : nat -> option nat; x_ph : nat -> phase; x_lk : nat -> lockst;
    x_held : nat -> list (nat * nat * Z); x_fin : nat -> list nat; x_cand : nat -> option nat;
    x_p : nat -> list (nat * nat * Z);
    x_st : nat -> status S }.

  Definition view (a : aux) (t : nat) : tview :=
    mkTV (x_my a t) (x_ph a t) (x_lk a t) (x_held a t) (x_fin a t) (x_cand a t) (x_p a t).

  Definition upd {A} (f : nat -> A) (t : nat) (x : A) : nat -> A := fun u => if Nat.eqb u t then x else f u.
  Lemma upd_same {A} (f : nat -> A) t x : upd f t x t = x.
  Proof. unfold upd. now rewrite Nat.eqb_refl. Qed.
  Lemma upd_other {A} (f : nat -> A) t x u : u <> t -> upd f t x u = f u.
  Proof. unfold upd. intros H. destruct (Nat.eqb_spec u t); congruence. Qed.

  Definition set_my a t x := mkAux (upd (x_my a) t x) (x_ph a) (x_lk a) (x_held a) (x_fin a) (x_cand a) (x_p a) (x_st a).
  Definition set_ph a t x := mkAux (x_my a) (upd (x_ph a) t x) (x_lk a) (x_held a) (x_fin a) (x_cand a) (x_p a) (x_st a).
  Definition set_lk a t x := mkAux (x_my a) (x_ph a) (upd (x_lk a) t x) (x_held a) (x_fin a) (x_cand a) (x_p a) (x_st a).
  Definition set_held a t x := mkAux (x_my a) (x_ph a) (x_lk a) (upd (x_held a) t x) (x_fin a) (x_cand a) (x_p a) (x_st a).
  Definition set_fin a t x := mkAux (x_my a) (x_ph a) (x_lk a) (x_held a) (upd (x_fin a) t x) (x_cand a) (x_p a) (x_st a).
  Definition set_cand a t x := mkAux (x_my a) (x_ph a) (x_lk a) (x_held a) (x_fin a) (upd (x_cand a) t x) (x_p a) (x_st a).
  Definition set_p a t x := mkAux (x_my a) (x_ph a) (x_lk a) (x_held a) (x_fin a) (x_cand a) (upd (x_p a) t x) (x_st a).
  Definition set_st a t x := mkAux (x_my a) (x_ph a) (x_lk a) (x_held a) (x_fin a) (x_cand a) (x_p a) (upd (x_st a) t x).

  (** the same updates on a view *)
  Definition vmy l x := mkTV x (v_ph l) (v_lk l) (v_held l) (v_fin l) (v_cand l) (v_p l).
  Definition vph l x := mkTV (v_my l) x (v_lk l) (v_held l) (v_fin l) (v_cand l) (v_p l).
  Definition vlk l x := mkTV (v_my l) (v_ph l) x (v_held l) (v_fin l) (v_cand l) (v_p l).
  Definition vheld l x := mkTV (v_my l) (v_ph l) (v_lk l) x (v_fin l) (v_cand l) (v_p l).
  Definition vfin l x := mkTV (v_my l) (v_ph l) (v_lk l) (v_held l) x (v_cand l) (v_p l).
  Definition vcand l x := mkTV (v_my l) (v_ph l) (v_lk l) (v_held l) (v_fin l) x (v_p l).
  Definition vp l x := mkTV (v_my l) (v_ph l) (v_lk l) (v_held l) (v_fin l) (v_cand l) x.

  Lemma frame_refl a t : Conc.frame view t a a.
  Proof. intros t' H. reflexivity. Qed.
  Lemma frame_trans t a b c : Conc.frame view t a b -> Conc.frame view t b c -> Conc.frame view t a c.
  Proof. intros H1 H2 t' H. rewrite (H2 t' H). apply H1; exact H. Qed.

  Ltac frame_tac := intros ?t' ?H; unfold view; cbn; rewrite ?upd_other by assumption; reflexivity.
  Lemma frame_set_my a t x : Conc.frame view t a (set_my a t x). Proof. frame_tac. Qed.
  Lemma frame_set_ph a t x : Conc.frame view t a (set_ph a t x). Proof. frame_tac. Qed.
  Lemma frame_set_lk a t x : Conc.frame view t a (set_lk a t x). Proof. frame_tac. Qed.
  Lemma frame_set_held a t x : Conc.frame view t a (set_held a t x). Proof. frame_tac. Qed.
  Lemma frame_set_fin a t x : Conc.frame view t a (set_fin a t x). Proof. frame_tac. Qed.
  Lemma frame_set_cand a t x : Conc.frame view t a (set_cand a t x). Proof. frame_tac. Qed.
  Lemma frame_set_p a t x : Conc.frame view t a (set_p a t x). Proof. frame_tac. Qed.
  Lemma frame_set_st a t u x : Conc.frame view t a (set_st a u x). Proof. intros t' H. reflexivity. Qed.

  Ltac view_tac := unfold view; cbn; rewrite ?upd_same; reflexivity.
  Lemma view_set_my a t x : view (set_my a t x) t = vmy (view a t) x. Proof. view_tac. Qed.
  Lemma view_set_ph a t x : view (set_ph a t x) t = vph (view a t) x. Proof. view_tac. Qed.
  Lemma view_set_lk a t x : view (set_lk a t x) t = vlk (view a t) x. Proof. view_tac. Qed.
  Lemma view_set_held a t x : view (set_held a t x) t = vheld (view a t) x. Proof. view_tac. Qed.
  Lemma view_set_fin a t x : view (set_fin a t x) t = vfin (view a t) x. Proof. view_tac. Qed.
  Lemma view_set_cand a t x : view (set_cand a t x) t = vcand (view a t) x. Proof. view_tac. Qed.
  Lemma view_set_p a t x : view (set_p a t x) t = vp (view a t) x. Proof. view_tac. Qed.
  Lemma view_set_st a t u x : view (set_st a u x) t = view a t. Proof. reflexivity. Qed.

  Definition unowned (a : aux) (r : nat) : Prop := forall t, x_my a t <> Some r.

  Definition recs (g : G) (r : nat) : rec := g_recs g r.

  (** *** the lock part (holds always) *)
  Record LkInv (g : G) (a : aux) (tr : list (nat * ev)) : Prop := {
    lk_free : g_lock g = false -> forall t, x_lk a t = LNone;
    lk_uniq : forall t t', x_lk a t <> LNone -> x_lk a t' <> LNone -> t = t';
    lk_mon : exists h, mon None tr = Some h /\ forall t, x_lk a t = LInside <-> h = Some t }.

  (** *** ownership and linearization-point bookkeeping (holds as long as no request was lost) *)
  Definition in_fin (a : aux) (r : nat) : Prop := exists tc, In r (x_fin a tc).

  Definition wait_ok (g : G) (a : aux) (t r op : nat) (arg : Z) : Prop :=
    okop op = true /\ r_tid (recs g r) = t /\ r_arg (recs g r) = arg /\
    ((r_req (recs g r) = op /\ x_st a t = Pending (dec op arg) /\ ~ in_fin a r) \/
     (r_req (recs g r) = op /\ (exists res, x_st a t = Linearized (dec op arg) res /\ r_res (recs g r) = res) /\ in_fin a r) \/
     (r_req (recs g r) = req_Response /\ (exists res, x_st a t = Linearized (dec op arg) res /\ r_res (recs g r) = res) /\ ~ in_fin a r)).

  Definition phase_ok (g : G) (a : aux) (t : nat) : Prop :=
    match x_ph a t, x_my a t with
    | PIdle, my => x_st a t = Idle /\ (forall r, my = Some r -> r_req (recs g r) = req_Empty)
    | PInv op arg, my => okop op = true /\ x_st a t = Pending (dec op arg) /\ (forall r, my = Some r -> r_req (recs g r) = req_Empty)
    | PWait op arg, Some r => wait_ok g a t r op arg
    | PWait _ _, None => False
    | PRel op arg rs, Some r => r_req (recs g r) = req_Empty /\ x_st a t = Linearized (dec op arg) rs
    | PRel _ _ _, None => False
    end.

  Record RestC (c : St S) (g : G) (a : aux) (tr : list (nat * ev)) : Prop := {
    r_inj : forall t t' r, x_my a t = Some r -> x_my a t' = Some r -> t = t';
    r_alloc : forall t r, x_my a t = Some r -> r < g_nrec g;
    r_fresh : forall r, g_nrec g <= r -> r_state (recs g r) <> st_removed;
    r_removed : forall r, r_state (recs g r) = st_removed -> unowned a r;
    r_cand : forall t r, x_cand a t = Some r -> unowned a r /\ r < g_nrec g;
    r_owned : forall r, req_Operation <= r_req (recs g r) -> exists t, x_my a t = Some r;
    r_phase : forall t, phase_ok g a t;
    r_held : forall t q o x, In (q, o, x) (x_held a t) ->
               x_lk a t = LInside /\ r_req (recs g q) = o /\ 2 <= o /\ r_arg (recs g q) = x /\ ~ In q (x_fin a t);
    r_fin : forall t q, In q (x_fin a t) ->
               x_lk a t = LInside /\ exists t' op arg, x_my a t' = Some q /\ x_ph a t' = PWait op arg;
    r_lp : lp_run lp_init (annot tr) = Some (c, x_st a);
    r_p : forall t e, In e (x_p a t) -> In e (x_held a t);
    r_nodup : forall t, NoDup (x_fin a t) }.

  Notation Rest g a tr := (RestC (g_cont g) g a tr).

  Definition Inv (g : G) (a : aux) (tr : list (nat * ev)) : Prop :=
    LkInv g a tr /\ (has_lost tr = true \/ Rest g a tr).

  Notation safe := (@Conc.safe G V ev aux tview view Inv).

  (** ** steps that do not touch what the invariant talks about *)
  Definition neutral_ev (e : ev) : Prop :=
    match e with EvAcc _ _ _ => True | EvCli name _ => name = "uaf" end.

  Definition same_req (g g' : G) : Prop :=
    forall r, r_req (recs g' r) = r_req (recs g r) /\ r_tid (recs g' r) = r_tid (recs g r) /\
              r_arg (recs g' r) = r_arg (recs g r) /\ r_res (recs g' r) = r_res (recs g r).

  Definition neutral_upd (g g' : G) : Prop :=
    g_cont g' = g_cont g /\ g_nrec g' = g_nrec g /\ same_req g g' /\
    (forall r, r_state (recs g' r) = st_removed -> r_state (recs g r) = st_removed).

  Lemma neutral_annot t es : Forall neutral_ev es -> annot (Conc.tag t es) = [].
  Proof.
    induction 1 as [|e es He _ IH]; [reflexivity|].
    change (annot (Conc.tag t (e :: es))) with (annot1 (t, e) ++ annot (Conc.tag t es)).
    rewrite IH, app_nil_r.
    unfold annot1; cbn. destruct e as [k o b|name args]; auto. cbn in He. subst name. reflexivity.
  Qed.

  Lemma neutral_mon t es h : Forall neutral_ev es -> mon h (Conc.tag t es) = Some h.
  Proof.
    induction 1 as [|e es He _ IH]; [reflexivity|].
    change (mon h (Conc.tag t (e :: es))) with
      (match mon_step h (t, e) with Some h' => mon h' (Conc.tag t es) | None => None end).
    assert (mon_step h (t, e) = Some h) as ->; [|exact IH].
    unfold mon_step, is_ev; cbn. destruct e as [k o b|name args]; auto. cbn in He. subst name. reflexivity.
  Qed.

  Lemma neutral_lost t es : Forall neutral_ev es -> has_lost (Conc.tag t es) = false.
  Proof.
    induction 1 as [|e es He _ IH]; [reflexivity|].
    change (has_lost (Conc.tag t (e :: es))) with (is_ev "lost" (t, e) || has_lost (Conc.tag t es)).
    rewrite IH, orb_false_r.
    unfold is_ev; cbn. destruct e as [k o b|name args]; auto. cbn in He. subst name. reflexivity.
  Qed.

  Definition same_at (g g' : G) (r : nat) : Prop :=
    r_req (recs g' r) = r_req (recs g r) /\ r_tid (recs g' r) = r_tid (recs g r) /\
    r_arg (recs g' r) = r_arg (recs g r) /\ r_res (recs g' r) = r_res (recs g r).

  Lemma wait_ok_ext_at g g' a t r op arg : same_at g g' r -> wait_ok g a t r op arg -> wait_ok g' a t r op arg.
  Proof. intros (E1 & E2 & E3 & E4). unfold wait_ok. rewrite E1, E2, E3, E4. tauto. Qed.

  Lemma phase_ok_ext_at g g' a t :
    (forall r, x_my a t = Some r -> same_at g g' r) -> phase_ok g a t -> phase_ok g' a t.
  Proof.
    intros Hs. unfold phase_ok.
    destruct (x_ph a t) as [|op arg|op arg|op arg rs]; destruct (x_my a t) as [r|]; auto.
    - intros [H1 H2]. split; auto. intros r0 E. inversion E; subst r0. destruct (Hs r eq_refl) as (E1 & _). rewrite E1. auto.
    - intros [H1 H2]. split; auto. intros r0 E. discriminate.
    - intros (H0 & H1 & H2). repeat split; auto. intros r0 E. inversion E; subst r0. destruct (Hs r eq_refl) as (E1 & _). rewrite E1. auto.
    - intros (H0 & H1 & H2). repeat split; auto. intros r0 E. discriminate.
    - apply wait_ok_ext_at; auto.
    - destruct (Hs r eq_refl) as (E1 & _). rewrite E1. auto.
  Qed.

  Lemma phase_ok_ext g g' a t : same_req g g' -> phase_ok g a t -> phase_ok g' a t.
  Proof. intros Hs. apply phase_ok_ext_at. intros r _. apply Hs. Qed.

  Lemma LkInv_neutral g g' a tr t es :
    LkInv g a tr -> g_lock g' = g_lock g -> Forall neutral_ev es -> LkInv g' a (tr ++ Conc.tag t es).
  Proof.
    intros [L1 L2 (h & L3 & L4)] El Hes. split.
    - rewrite El. exact L1.
    - exact L2.
    - exists h. split; [|exact L4]. rewrite mon_app, L3. apply neutral_mon; exact Hes.
  Qed.

  Lemma Rest_neutral g g' a tr t es :
    Rest g a tr -> neutral_upd g g' -> Forall neutral_ev es -> Rest g' a (tr ++ Conc.tag t es).
  Proof.
    intros R (Ec & En & Hs & Hst) Hes. destruct R. split.
    - exact r_inj0.
    - intros t0 r Hm. rewrite En. eauto.
    - intros r Hr Hx. apply (r_fresh0 r); [rewrite <- En; exact Hr|]. apply Hst; exact Hx.
    - intros r Hr. apply r_removed0. apply Hst; exact Hr.
    - intros t0 r Hc. rewrite En. exact (r_cand0 _ _ Hc).
    - intros r Hu. destruct (Hs r) as (E1 & _). rewrite E1 in Hu. auto.
    - intros t0. eapply phase_ok_ext; eauto.
    - intros t0 q o x Hin. destruct (r_held0 t0 q o x Hin) as (A & B & C & D & E).
      destruct (Hs q) as (E1 & E2 & E3 & E4). rewrite E1, E3. auto.
    - exact r_fin0.
    - rewrite annot_app, neutral_annot, app_nil_r, Ec; auto.
    - exact r_p0.
    - exact r_nodup0.
  Qed.

  Lemma Inv_neutral g g' a tr t es :
    Inv g a tr -> g_lock g' = g_lock g -> neutral_upd g g' -> Forall neutral_ev es -> Inv g' a (tr ++ Conc.tag t es).
  Proof.
    intros [HL HR] El Hn Hes. split.
    - eapply LkInv_neutral; eauto.
    - destruct HR as [Hl|HR]; [left|right].
      + rewrite has_lost_app, Hl. reflexivity.
      + eapply Rest_neutral; eauto.
  Qed.

  Definition neutral_act (f : G -> G * V * list ev) : Prop :=
    forall g, g_lock (fst (fst (f g))) = g_lock g /\ neutral_upd g (fst (fst (f g))) /\ Forall neutral_ev (snd (f g)).

  Lemma safe_neutral R t f (k : V -> prog R) l Q :
    neutral_act f -> (forall v, safe t (k v) l Q) -> safe t (Act f k) l Q.
  Proof.
    intros Hn Hk. cbn [Conc.safe]. intros g a tr Hi Hv. exists a. destruct (Hn g) as (H0 & H1 & H2).
    split; [eapply Inv_neutral; eauto|]. split; [apply frame_refl|]. rewrite Hv. apply Hk.
  Qed.

  Lemma neutral_upd_refl (g : G) : neutral_upd g g.
  Proof. repeat split; auto. Qed.

  Lemma acc_neutral (g : G) k r f ok : Forall neutral_ev (acc g k r f ok).
  Proof. unfold acc. constructor; [exact I|]. destruct (r_freed (g_recs g r)); repeat constructor. Qed.

  Lemma neutral_a_begin : neutral_act (@a_begin (St S) (Res S) P).
  Proof. intros g. split; [reflexivity|]. split; [apply neutral_upd_refl|]. repeat constructor. Qed.

  Lemma neutral_a_ld r f : neutral_act (@a_ld (St S) (Res S) P r f).
  Proof. intros g. split; [reflexivity|]. split; [apply neutral_upd_refl|]. apply acc_neutral. Qed.

  Lemma neutral_a_ldcount : neutral_act (@a_ldcount (St S) (Res S) P).
  Proof. intros g. split; [reflexivity|]. split; [apply neutral_upd_refl|]. repeat constructor. Qed.

  Lemma neutral_a_faacount : neutral_act (@a_faacount (St S) (Res S) P).
  Proof. intros g. split; [reflexivity|]. split; [repeat split; auto|]. repeat constructor. Qed.

  (** a store that changes only nAge / pNext / pNextAllocated, or sets nState to something else than `removed` *)
  Definition plain_fld (f : fld) (v : nat) : Prop :=
    match f with FReq => False | FState => v <> st_removed | _ => True end.

  Lemma upd_rec_neutral (g : G) r f v : plain_fld f v -> neutral_upd g (upd_rec g r (set_fld (g_recs g r) f v)).
  Proof.
    intros Hp. unfold neutral_upd, same_req, recs, upd_rec; cbn. repeat split; auto.
    - destruct (Nat.eqb_spec r0 r) as [->|]; auto. destruct f; cbn in *; tauto.
    - destruct (Nat.eqb_spec r0 r) as [->|]; auto. destruct f; cbn in *; tauto.
    - destruct (Nat.eqb_spec r0 r) as [->|]; auto. destruct f; cbn in *; tauto.
    - destruct (Nat.eqb_spec r0 r) as [->|]; auto. destruct f; cbn in *; tauto.
    - intros r0. destruct (Nat.eqb_spec r0 r) as [->|]; auto. destruct f; cbn in *; tauto.
  Qed.

  Lemma neutral_a_st r f v : plain_fld f v -> neutral_act (@a_st (St S) (Res S) P r f v).
  Proof. intros Hp g. split; [reflexivity|]. split; [apply upd_rec_neutral; exact Hp|]. apply acc_neutral. Qed.

  Lemma neutral_a_cas r f e d : plain_fld f d -> neutral_act (@a_cas (St S) (Res S) P r f e d).
  Proof.
    intros Hp g. unfold a_cas. destruct (Nat.eqb (get_fld (g_recs g r) f) e); cbn [fst snd].
    - split; [reflexivity|]. split; [apply upd_rec_neutral; exact Hp|]. apply acc_neutral.
    - split; [reflexivity|]. split; [apply neutral_upd_refl|]. apply acc_neutral.
  Qed.

  (** ** the lock *)
  Lemma Rest_set_lk g a tr t x :
    Rest g a tr -> (forall e, In e (x_held a t) -> x = LInside) -> (forall q, In q (x_fin a t) -> x = LInside) ->
    Rest g (set_lk a t x) tr.
  Proof.
    intros R Hh Hf. destruct R. split; try assumption.
    - intros t0 q o z Hin. cbn in *. destruct (r_held0 t0 q o z Hin) as (A & B). split; [|exact B].
      unfold upd. destruct (Nat.eqb_spec t0 t) as [->|]; [eapply Hh; eauto|exact A].
    - intros t0 q Hin. cbn in *. destruct (r_fin0 t0 q Hin) as (A & B). split; [|exact B].
      unfold upd. destruct (Nat.eqb_spec t0 t) as [->|]; [eapply Hf; eauto|exact A].
  Qed.

  Lemma lost_mono tr es : has_lost tr = true -> has_lost (tr ++ es) = true.
  Proof. intros H. rewrite has_lost_app, H. reflexivity. Qed.

  Lemma neutral_set_lock (g : G) b : neutral_upd g (set_lock g b).
  Proof. repeat split; auto. Qed.

  Lemma safe_xchg R t (k : V -> prog R) l Q :
    safe t (k (vN 1)) l Q -> safe t (k (vN 0)) (vlk l LHeld) Q ->
    safe t (Act (@a_xchg (St S) (Res S) P) k) l Q.
  Proof.
    intros K1 K0. cbn [Conc.safe]. intros g a tr [HL HR] Hv. unfold a_xchg; cbn [fst snd].
    assert (Hes : Forall neutral_ev [EvAcc KXchg obj_lock true]) by (repeat constructor).
    destruct (g_lock g) eqn:El.
    - exists a. split; [|split; [apply frame_refl|rewrite Hv; exact K1]].
      apply Inv_neutral with (g := g); [split; assumption|cbn; auto|apply neutral_set_lock|exact Hes].
    - exists (set_lk a t LHeld). split; [|split; [apply frame_set_lk|rewrite view_set_lk, Hv; exact K0]].
      destruct HL as [L1 L2 (h & L3 & L4)]. specialize (L1 El). split.
      + split.
        * cbn. discriminate.
        * intros t1 t2 H1 H2. cbn in H1, H2. unfold upd in *.
          destruct (Nat.eqb_spec t1 t), (Nat.eqb_spec t2 t); subst; auto;
            first [exfalso; apply H2; apply L1 | exfalso; apply H1; apply L1].
        * exists h. split; [rewrite mon_app, L3; apply neutral_mon; exact Hes|].
          intros t0. cbn. unfold upd. destruct (Nat.eqb_spec t0 t) as [->|]; [|apply L4].
          split; [discriminate|]. intros E. apply L4 in E. rewrite L1 in E. discriminate.
      + destruct HR as [Hl|HR]; [left; apply lost_mono; exact Hl|right].
        apply Rest_set_lk.
        * eapply Rest_neutral; [exact HR|apply neutral_set_lock|exact Hes].
        * intros e He. destruct e as [[q o] z]. destruct (r_held HR t q o z He) as (A & _). rewrite L1 in A. discriminate.
        * intros q Hq. destruct (r_fin HR t q Hq) as (A & _). rewrite L1 in A. discriminate.
  Qed.

  (** events that are invisible to the annotation *)
  Lemma Rest_trace g a tr es : Rest g a tr -> annot es = [] -> Rest g a (tr ++ es).
  Proof. intros R He. destruct R. split; try assumption. rewrite annot_app, He, app_nil_r. assumption. Qed.

  Lemma LkInv_set_held g a tr t x : LkInv g a tr -> LkInv g (set_held a t x) tr.
  Proof. intros [L1 L2 L3]. split; assumption. Qed.
  Lemma LkInv_set_fin g a tr t x : LkInv g a tr -> LkInv g (set_fin a t x) tr.
  Proof. intros [L1 L2 L3]. split; assumption. Qed.
  Lemma LkInv_set_cand g a tr t x : LkInv g a tr -> LkInv g (set_cand a t x) tr.
  Proof. intros [L1 L2 L3]. split; assumption. Qed.
  Lemma LkInv_set_my g a tr t x : LkInv g a tr -> LkInv g (set_my a t x) tr.
  Proof. intros [L1 L2 L3]. split; assumption. Qed.
  Lemma LkInv_set_ph g a tr t x : LkInv g a tr -> LkInv g (set_ph a t x) tr.
  Proof. intros [L1 L2 L3]. split; assumption. Qed.
  Lemma LkInv_set_st g a tr t x : LkInv g a tr -> LkInv g (set_st a t x) tr.
  Proof. intros [L1 L2 L3]. split; assumption. Qed.

  Lemma view_lk a t l : view a t = l -> x_lk a t = v_lk l.
  Proof. intros <-. reflexivity. Qed.
  Lemma view_my a t l : view a t = l -> x_my a t = v_my l.
  Proof. intros <-. reflexivity. Qed.
  Lemma view_ph a t l : view a t = l -> x_ph a t = v_ph l.
  Proof. intros <-. reflexivity. Qed.
  Lemma view_held a t l : view a t = l -> x_held a t = v_held l.
  Proof. intros <-. reflexivity. Qed.
  Lemma view_fin a t l : view a t = l -> x_fin a t = v_fin l.
  Proof. intros <-. reflexivity. Qed.
  Lemma view_cand a t l : view a t = l -> x_cand a t = v_cand l.
  Proof. intros <-. reflexivity. Qed.

  (** "lock" event: the thread that won the exchange enters the combiner role *)
  Lemma safe_emit_lock R t (k : prog R) l Q :
    v_lk l = LHeld -> safe t k (vlk l LInside) Q -> safe t (Emit [EvCli "lock" []] k) l Q.
  Proof.
    intros Hl K. cbn [Conc.safe]. intros g a tr [HL HR] Hv. pose proof (view_lk Hv) as Elk. rewrite Hl in Elk.
    exists (set_lk a t LInside). split; [|split; [apply frame_set_lk|rewrite view_set_lk, Hv; exact K]].
    destruct HL as [L1 L2 (h & L3 & L4)].
    assert (Hoth : forall t0, t0 <> t -> x_lk a t0 = LNone).
    { intros t0 Hne. destruct (x_lk a t0) eqn:E; auto; exfalso; apply Hne; apply L2; congruence. }
    assert (Hh : h = None).
    { destruct h as [t0|]; auto. pose proof (proj2 (L4 t0) eq_refl) as E0. destruct (Nat.eq_dec t0 t) as [->|Hne].
      - rewrite Elk in E0. discriminate.
      - rewrite (Hoth t0 Hne) in E0. discriminate. }
    subst h. split.
    - split.
      + intros Hf. specialize (L1 Hf t). congruence.
      + intros t1 t2 H1 H2. cbn in H1, H2. unfold upd in *.
        destruct (Nat.eqb_spec t1 t), (Nat.eqb_spec t2 t); subst; auto;
          first [exfalso; apply H2; apply Hoth; assumption | exfalso; apply H1; apply Hoth; assumption].
      + exists (Some t). split; [rewrite mon_app, L3; reflexivity|].
        intros t0. cbn. unfold upd. destruct (Nat.eqb_spec t0 t) as [->|Hne]; [tauto|].
        rewrite (Hoth t0 Hne). split; [discriminate|]. intros E; inversion E; congruence.
    - destruct HR as [Hlost|HR]; [left; apply lost_mono; exact Hlost|right].
      apply Rest_set_lk; auto. apply Rest_trace; auto.
  Qed.

  Lemma Rest_clear g a tr t : Rest g a tr -> Rest g (set_held (set_p a t []) t []) tr.
  Proof.
    intros R. destruct R. split; try assumption.
    - intros t0 q o z Hin. cbn in Hin. unfold upd in Hin. destruct (Nat.eqb_spec t0 t) as [->|Hne]; [destruct Hin|].
      apply r_held0. exact Hin.
    - intros t0 e Hin. cbn in *. unfold upd in *. destruct (Nat.eqb_spec t0 t) as [->|Hne]; [destruct Hin|]. apply r_p0. exact Hin.
  Qed.

  (** "unlock" event: leaves the combiner role; nothing executed may be left without its response store *)
  Lemma safe_emit_unlock R t (k : prog R) l Q :
    v_lk l = LInside -> v_fin l = [] -> safe t k (vlk (vheld (vp l []) []) LHeld) Q ->
    safe t (Emit [EvCli "unlock" []] k) l Q.
  Proof.
    intros Hl Hf K. cbn [Conc.safe]. intros g a tr [HL HR] Hv.
    pose proof (view_lk Hv) as Elk. rewrite Hl in Elk. pose proof (view_fin Hv) as Efin. rewrite Hf in Efin.
    exists (set_lk (set_held (set_p a t []) t []) t LHeld).
    split; [|split; [eapply frame_trans; [eapply frame_trans; [apply frame_set_p|apply frame_set_held]|apply frame_set_lk]
                    |rewrite view_set_lk, view_set_held, view_set_p, Hv; exact K]].
    destruct HL as [L1 L2 (h & L3 & L4)].
    assert (Hoth : forall t0, t0 <> t -> x_lk a t0 = LNone).
    { intros t0 Hne. destruct (x_lk a t0) eqn:E; auto; exfalso; apply Hne; apply L2; congruence. }
    assert (Hh : h = Some t) by (apply L4; exact Elk). subst h.
    split.
    - split.
      + intros Hfree. specialize (L1 Hfree t). congruence.
      + intros t1 t2 H1 H2. cbn in H1, H2. unfold upd in *.
        destruct (Nat.eqb_spec t1 t), (Nat.eqb_spec t2 t); subst; auto;
          first [exfalso; apply H2; apply Hoth; assumption | exfalso; apply H1; apply Hoth; assumption].
      + exists None. split; [rewrite mon_app, L3; cbn; unfold mon_step, is_ev; cbn; rewrite Nat.eqb_refl; reflexivity|].
        intros t0. cbn. unfold upd. destruct (Nat.eqb_spec t0 t) as [->|Hne]; [split; discriminate|].
        rewrite (Hoth t0 Hne). split; discriminate.
    - destruct HR as [Hlost|HR]; [left; apply lost_mono; exact Hlost|right].
      apply Rest_set_lk.
      + apply Rest_clear. apply Rest_trace; auto.
      + intros e He. cbn in He. rewrite upd_same in He. destruct He.
      + intros q Hq. cbn in Hq. rewrite Efin in Hq. destruct Hq.
  Qed.

  (** unlock: m_Mutex.unlock() *)
  Lemma safe_unlock R t (k : V -> prog R) l Q :
    v_lk l = LHeld -> (forall v, safe t (k v) (vlk l LNone) Q) ->
    safe t (Act (@a_unlock (St S) (Res S) P) k) l Q.
  Proof.
    intros Hl K. cbn [Conc.safe]. intros g a tr [HL HR] Hv. pose proof (view_lk Hv) as Elk. rewrite Hl in Elk.
    unfold a_unlock; cbn [fst snd].
    assert (Hes : Forall neutral_ev [EvAcc KSt obj_lock true]) by (repeat constructor).
    exists (set_lk a t LNone). split; [|split; [apply frame_set_lk|rewrite view_set_lk, Hv; apply K]].
    destruct HL as [L1 L2 (h & L3 & L4)].
    assert (Hoth : forall t0, t0 <> t -> x_lk a t0 = LNone).
    { intros t0 Hne. destruct (x_lk a t0) eqn:E; auto; exfalso; apply Hne; apply L2; congruence. }
    split.
    - split.
      + intros _ t0. cbn. unfold upd. destruct (Nat.eqb_spec t0 t); auto.
      + intros t1 t2 H1 H2. cbn in H1, H2. unfold upd in *.
        destruct (Nat.eqb_spec t1 t), (Nat.eqb_spec t2 t); subst; auto; try congruence;
          exfalso; apply H1; apply Hoth; assumption.
      + exists h. split; [rewrite mon_app, L3; apply neutral_mon; exact Hes|].
        intros t0. cbn. unfold upd. destruct (Nat.eqb_spec t0 t) as [->|Hne]; [|apply L4].
        split; [discriminate|]. intros E. apply L4 in E. congruence.
    - destruct HR as [Hlost|HR]; [left; apply lost_mono; exact Hlost|right].
      apply Rest_set_lk.
      + eapply Rest_neutral; [exact HR|apply neutral_set_lock|exact Hes].
      + intros e He. destruct e as [[q o] z]. destruct (r_held HR t q o z He) as (A & _). congruence.
      + intros q Hq. destruct (r_fin HR t q Hq) as (A & _). congruence.
  Qed.

  (** the combiner reads a request word: a pending request it sees stays pending until it executes it *)
  Lemma safe_ld_req R t r (k : V -> prog R) l Q :
    v_lk l = LInside -> v_fin l = [] ->
    (forall v, v < 2 -> safe t (k (vN v)) l Q) ->
    (forall v x, 2 <= v -> safe t (k (vN v)) (vheld l ((r, v, x) :: v_held l)) Q) ->
    safe t (Act (@a_ld (St S) (Res S) P r FReq) k) l Q.
  Proof.
    intros Hl Hf K1 K2. cbn [Conc.safe]. intros g a tr Hi Hv.
    pose proof (view_lk Hv) as Elk. rewrite Hl in Elk. pose proof (view_fin Hv) as Efin. rewrite Hf in Efin.
    unfold a_ld; cbn [fst snd get_fld].
    pose proof (Inv_neutral t (es := acc g KLd r FReq true) Hi eq_refl (neutral_upd_refl g) (acc_neutral g KLd r FReq true)) as Hi'.
    destruct (le_lt_dec 2 (r_req (g_recs g r))) as [Hge|Hlt].
    - pose proof (view_held Hv) as Eheld.
      exists (set_held a t ((r, r_req (g_recs g r), r_arg (g_recs g r)) :: v_held l)).
      split; [|split; [apply frame_set_held|rewrite view_set_held, Hv; apply K2; exact Hge]].
      destruct Hi' as [HL HR]. split; [apply LkInv_set_held; exact HL|].
      destruct HR as [Hlost|HR]; [left; exact Hlost|right].
      destruct HR. split; try assumption.
      + intros t0 q o z Hin. cbn in Hin. unfold upd in Hin. destruct (Nat.eqb_spec t0 t) as [->|Hne]; [|apply r_held0; exact Hin].
        destruct Hin as [E|Hin]; [|apply r_held0; rewrite Eheld; exact Hin]. inversion E; subst q o z.
        cbn [set_held x_fin x_lk]. rewrite Efin. repeat split; auto.
      + intros t0 e Hin. cbn in *. unfold upd. destruct (Nat.eqb_spec t0 t) as [->|Hne]; [|apply r_p0; exact Hin].
        right. rewrite <- Eheld. apply r_p0. exact Hin.
    - exists a. split; [exact Hi'|]. split; [apply frame_refl|]. rewrite Hv. apply K1. exact Hlt.
  Qed.

  (** loop 2 of compact_list reads nState: a record seen `removed` has no owner, for ever *)
  Lemma safe_ld_state_cand R t r (k : V -> prog R) l Q :
    (forall v, v <> st_removed -> safe t (k (vN v)) l Q) ->
    safe t (k (vN st_removed)) (vcand l (Some r)) Q ->
    safe t (Act (@a_ld (St S) (Res S) P r FState) k) l Q.
  Proof.
    intros K1 K2. cbn [Conc.safe]. intros g a tr Hi Hv. unfold a_ld; cbn [fst snd get_fld].
    pose proof (Inv_neutral t (es := acc g KLd r FState true) Hi eq_refl (neutral_upd_refl g) (acc_neutral g KLd r FState true)) as Hi'.
    destruct (Nat.eq_dec (r_state (g_recs g r)) st_removed) as [E|Hne].
    - exists (set_cand a t (Some r)). rewrite E.
      split; [|split; [apply frame_set_cand|rewrite view_set_cand, Hv; exact K2]].
      destruct Hi' as [HL HR]. split; [apply LkInv_set_cand; exact HL|].
      destruct HR as [Hlost|HR]; [left; exact Hlost|right].
      destruct HR. split; try assumption.
      intros t0 r0 Hc. cbn in Hc. unfold upd in Hc. destruct (Nat.eqb_spec t0 t) as [->|Hn]; [|apply (r_cand0 t0); exact Hc].
      inversion Hc; subst r0. split; [apply r_removed0; exact E|].
      destruct (le_lt_dec (g_nrec g) r) as [Hle|Hlt]; [|exact Hlt]. exfalso. apply (r_fresh0 r Hle). exact E.
    - exists a. split; [exact Hi'|]. split; [apply frame_refl|]. rewrite Hv. apply K1. exact Hne.
  Qed.

  Lemma phase_ok_transfer g g' a a' t :
    x_ph a' t = x_ph a t -> x_my a' t = x_my a t -> x_st a' t = x_st a t ->
    (forall r, x_my a t = Some r -> same_at g g' r /\ (in_fin a' r <-> in_fin a r)) ->
    phase_ok g a t -> phase_ok g' a' t.
  Proof.
    intros E1 E2 E3 Hs. unfold phase_ok. rewrite E1, E2, E3.
    destruct (x_ph a t) as [|op arg|op arg|op arg rs]; destruct (x_my a t) as [r|]; auto.
    - intros [H1 H2]. split; auto. intros r0 E. inversion E; subst r0. destruct (Hs r eq_refl) as ((F1 & _) & _). rewrite F1. auto.
    - intros [H1 H2]. split; auto. intros r0 E. discriminate.
    - intros (H0 & H1 & H2). repeat split; auto. intros r0 E. inversion E; subst r0. destruct (Hs r eq_refl) as ((F1 & _) & _). rewrite F1. auto.
    - intros (H0 & H1 & H2). repeat split; auto. intros r0 E. discriminate.
    - destruct (Hs r eq_refl) as ((F1 & F2 & F3 & F4) & Hf). unfold wait_ok. rewrite F1, F2, F3, F4, E3. rewrite Hf. tauto.
    - destruct (Hs r eq_refl) as ((F1 & _) & _). rewrite F1. auto.
  Qed.

  Lemma same_at_refl (g : G) r : same_at g g r.
  Proof. repeat split. Qed.

  Lemma same_at_upd_other (g : G) q x r : r <> q -> same_at g (upd_rec g q x) r.
  Proof. intros H. unfold same_at, recs, upd_rec; cbn. destruct (Nat.eqb_spec r q); [congruence|]. repeat split. Qed.

  (** operation_done: the response word of an executed request (the stores are issued in execution order) *)
  Lemma safe_done R t q rest (k : V -> prog R) l Q :
    v_lk l = LInside -> v_fin l = q :: rest ->
    (forall v, safe t (k v) (vfin l rest) Q) ->
    safe t (Act (@a_st (St S) (Res S) P q FReq req_Response) k) l Q.
  Proof.
    intros Hl Hq K. cbn [Conc.safe]. intros g a tr [HL HR] Hv.
    pose proof (view_lk Hv) as Elk. rewrite Hl in Elk. pose proof (view_fin Hv) as Efin. rewrite Hq in Efin.
    unfold a_st; cbn [fst snd].
    set (g' := upd_rec g q (set_fld (g_recs g q) FReq req_Response)).
    exists (set_fin a t rest).
    split; [|split; [apply frame_set_fin|rewrite view_set_fin, Hv; apply K]].
    split; [apply LkInv_set_fin; eapply LkInv_neutral; [exact HL|reflexivity|apply acc_neutral]|].
    destruct HR as [Hlost|HR]; [left; apply lost_mono; exact Hlost|right].
    pose proof HL as [L1 L2 _].
    assert (Hfin_t : forall tc r0, In r0 (x_fin a tc) -> tc = t).
    { intros tc r0 Hin. destruct (r_fin HR tc r0 Hin) as (A & _). apply L2; congruence. }
    assert (Hqin : In q (x_fin a t)) by (rewrite Efin; left; reflexivity).
    pose proof (r_nodup HR t) as Hnd. rewrite Efin in Hnd. apply NoDup_cons_iff in Hnd. destruct Hnd as [Hqn Hnd].
    destruct (r_fin HR t q Hqin) as (_ & t' & op & arg & Hmy & Hph).
    pose proof (r_phase HR t') as Hpo. unfold phase_ok in Hpo. rewrite Hph, Hmy in Hpo.
    destruct Hpo as (Hok & Htid & Harg & Hcase).
    assert (Hb : r_req (recs g q) = op /\ (exists res, x_st a t' = Linearized (dec op arg) res /\ r_res (recs g q) = res)).
    { destruct Hcase as [(A & B & C)|[(A & B & C)|(A & B & C)]]; auto; exfalso; apply C; exists t; exact Hqin. }
    destruct Hb as (Hreq & res & Hst & Hres).
    assert (Hinfin : forall r0, r0 <> q -> (in_fin (set_fin a t rest) r0 <-> in_fin a r0)).
    { intros r0 Hne. unfold in_fin; cbn. split.
      - intros (tc & Hin). exists tc. unfold upd in Hin. destruct (Nat.eqb_spec tc t) as [E|Hn]; [|exact Hin].
        subst tc. rewrite Efin. right. exact Hin.
      - intros (tc & Hin). exists tc. unfold upd. destruct (Nat.eqb_spec tc t) as [E|Hn]; [|exact Hin].
        subst tc. rewrite Efin in Hin. destruct Hin as [Hin|Hin]; [congruence|exact Hin]. }
    assert (Hnotq : ~ in_fin (set_fin a t rest) q).
    { intros (tc & Hin). cbn in Hin. unfold upd in Hin. destruct (Nat.eqb_spec tc t) as [E|Hn].
      - contradiction.
      - apply Hn. eapply Hfin_t; exact Hin. }
    destruct HR. split.
    - exact r_inj0.
    - exact r_alloc0.
    - intros r Hr. unfold g', recs, upd_rec; cbn. destruct (Nat.eqb_spec r q) as [->|]; [cbn|]; apply r_fresh0; exact Hr.
    - intros r Hr. apply r_removed0. revert Hr. unfold g', recs, upd_rec; cbn. destruct (Nat.eqb_spec r q) as [->|]; auto.
    - exact r_cand0.
    - intros r Hr. apply r_owned0. revert Hr. unfold g', recs, upd_rec; cbn.
      destruct (Nat.eqb_spec r q) as [->|]; auto. cbn. unfold req_Response, req_Operation. lia.
    - intros t0. destruct (Nat.eq_dec t0 t') as [->|Hne].
      + unfold phase_ok. cbn [set_fin x_ph x_my x_st]. rewrite Hph, Hmy. unfold wait_ok.
        split; [exact Hok|]. unfold g', recs, upd_rec; cbn. rewrite Nat.eqb_refl. cbn.
        split; [exact Htid|]. split; [exact Harg|]. right. right.
        split; [reflexivity|]. split; [exists res; split; [exact Hst|exact Hres]|exact Hnotq].
      + apply phase_ok_transfer with (g := g) (a := a); try reflexivity; [|apply r_phase0].
        intros r0 Hr0. assert (r0 <> q) by (intros ->; apply Hne; eapply r_inj0; eauto).
        split; [apply same_at_upd_other; assumption|apply Hinfin; assumption].
    - intros t0 q' o z Hin. cbn [set_fin x_held x_lk x_fin] in *. destruct (r_held0 t0 q' o z Hin) as (A & B & C & D & E).
      assert (q' <> q).
      { intros ->. apply E. assert (t0 = t) by (apply L2; congruence). subst t0. exact Hqin. }
      destruct (@same_at_upd_other g q (set_fld (g_recs g q) FReq req_Response) q' H) as (F1 & _ & F3 & _).
      fold g' in F1, F3. rewrite F1, F3. repeat split; auto.
      unfold upd. destruct (Nat.eqb_spec t0 t) as [->|]; auto. intros Hx. apply E. rewrite Efin. right. exact Hx.
    - intros t0 q' Hin. cbn [set_fin x_fin x_lk x_my x_ph] in *. unfold upd in Hin.
      destruct (Nat.eqb_spec t0 t) as [->|]; [|apply r_fin0; exact Hin].
      apply r_fin0. rewrite Efin. right. exact Hin.
    - rewrite annot_app, neutral_annot, app_nil_r by apply acc_neutral. exact r_lp0.
    - exact r_p0.
    - intros t0. cbn. unfold upd. destruct (Nat.eqb_spec t0 t) as [->|]; [exact Hnd|apply r_nodup0].
  Qed.

  Lemma in_fin_set_my a t x r : in_fin (set_my a t x) r <-> in_fin a r.
  Proof. reflexivity. Qed.
  Lemma in_fin_set_ph a t x r : in_fin (set_ph a t x) r <-> in_fin a r.
  Proof. reflexivity. Qed.
  Lemma in_fin_set_st a t x r : in_fin (set_st a t x) r <-> in_fin a r.
  Proof. reflexivity. Qed.

  (** New(): a fresh publication record *)
  Lemma safe_new R t (k : V -> prog R) l Q :
    v_my l = None ->
    (forall r, safe t (k (vN r)) (vmy l (Some r)) Q) ->
    safe t (Act (@a_new (St S) (Res S) rs0 P) k) l Q.
  Proof.
    intros Hm K. cbn [Conc.safe]. intros g a tr [HL HR] Hv. pose proof (view_my Hv) as Emy. rewrite Hm in Emy.
    unfold a_new; cbn [fst snd]. set (r := g_nrec g).
    set (g' := mkG (g_count g) (g_lock g) (fun i => if Nat.eqb i r then rec0 rs0 else g_recs g i) (Datatypes.S r) (g_cont g)).
    assert (Hes : Forall neutral_ev [EvAcc KSt (obj_fld r FState) true]) by (repeat constructor).
    exists (set_my a t (Some r)). split; [|split; [apply frame_set_my|rewrite view_set_my, Hv; apply K]].
    split; [apply LkInv_set_my; eapply LkInv_neutral; [exact HL|reflexivity|exact Hes]|].
    destruct HR as [Hlost|HR]; [left; apply lost_mono; exact Hlost|right].
    assert (Hsame : forall r0, r0 <> r -> recs g' r0 = recs g r0).
    { intros r0 Hne. unfold g', recs; cbn. destruct (Nat.eqb_spec r0 r); congruence. }
    assert (Hnew : recs g' r = rec0 rs0).
    { unfold g', recs; cbn. now rewrite Nat.eqb_refl. }
    destruct HR. split.
    - intros t1 t2 r0 H1 H2. cbn in H1, H2. unfold upd in *.
      destruct (Nat.eqb_spec t1 t), (Nat.eqb_spec t2 t); subst; auto.
      + inversion H1; subst r0. apply r_alloc0 in H2. unfold r in H2. lia.
      + inversion H2; subst r0. apply r_alloc0 in H1. unfold r in H1. lia.
      + eapply r_inj0; eauto.
    - intros t0 r0 H0. cbn in H0. unfold upd in H0. unfold g'; cbn.
      destruct (Nat.eqb_spec t0 t); [inversion H0; subst; lia|]. apply r_alloc0 in H0. unfold r. lia.
    - intros r0 Hr0. unfold g' in Hr0; cbn in Hr0. rewrite Hsame by (unfold r; lia). apply r_fresh0. unfold r in *. lia.
    - intros r0 Hr0 t0. destruct (Nat.eq_dec r0 r) as [->|Hne]; [rewrite Hnew in Hr0; discriminate|].
      rewrite Hsame in Hr0 by exact Hne. cbn. unfold upd. destruct (Nat.eqb_spec t0 t); [congruence|]. apply r_removed0; exact Hr0.
    - intros t0 r0 Hc. destruct (r_cand0 t0 r0 Hc) as [Hu Hlt]. split; [|unfold g'; cbn; unfold r; lia].
      intros t1. cbn. unfold upd. destruct (Nat.eqb_spec t1 t); [|apply Hu]. unfold r. intros E; inversion E; lia.
    - intros r0 Hr0. destruct (Nat.eq_dec r0 r) as [->|Hne]; [rewrite Hnew in Hr0; cbn in Hr0; unfold req_Operation in Hr0; lia|].
      rewrite Hsame in Hr0 by exact Hne. destruct (r_owned0 r0 Hr0) as (t0 & Ht0). exists t0. cbn. unfold upd.
      destruct (Nat.eqb_spec t0 t); [congruence|exact Ht0].
    - intros t0. destruct (Nat.eq_dec t0 t) as [->|Hne].
      + specialize (r_phase0 t). unfold phase_ok in *. cbn [set_my x_ph x_my x_st]. rewrite upd_same. rewrite Emy in r_phase0.
        destruct (x_ph a t); try tauto.
        * destruct r_phase0 as [A B]. split; auto. intros r0 E; inversion E; subst r0. rewrite Hnew. reflexivity.
        * destruct r_phase0 as (A & B & C). repeat split; auto. intros r0 E; inversion E; subst r0. rewrite Hnew. reflexivity.
      + apply phase_ok_transfer with (g := g) (a := a); try (cbn; rewrite ?upd_other by exact Hne; reflexivity); [|apply r_phase0].
        intros r0 Hr0. split; [|apply in_fin_set_my]. unfold same_at. rewrite Hsame; [repeat split|].
        apply r_alloc0 in Hr0. unfold r. lia.
    - intros t0 q o z Hin. cbn [set_my x_held x_lk x_fin] in *. destruct (r_held0 t0 q o z Hin) as (A & B & C & D & E).
      assert (q <> r).
      { intros ->. destruct (r_owned0 r) as (t1 & Ht1); [rewrite B; exact C|]. apply r_alloc0 in Ht1. unfold r in Ht1. lia. }
      rewrite Hsame by assumption. auto.
    - intros t0 q Hin. cbn [set_my x_fin x_lk x_my x_ph] in *. destruct (r_fin0 t0 q Hin) as (A & t1 & op & arg & B & C).
      split; [exact A|]. exists t1, op, arg. split; [|exact C]. unfold upd. destruct (Nat.eqb_spec t1 t); [congruence|exact B].
    - rewrite annot_app, neutral_annot, app_nil_r by exact Hes. exact r_lp0.
    - exact r_p0.
    - exact r_nodup0.
  Qed.

  (** the requester stores its request word *)
  Lemma safe_request R t r op arg (k : V -> prog R) l Q :
    v_my l = Some r -> v_ph l = PInv op arg ->
    (forall v, safe t (k v) (vph l (PWait op arg)) Q) ->
    safe t (Act (@a_request (St S) (Res S) P r op t arg) k) l Q.
  Proof.
    intros Hm Hp K. cbn [Conc.safe]. intros g a tr [HL HR] Hv.
    pose proof (view_my Hv) as Emy. rewrite Hm in Emy. pose proof (view_ph Hv) as Eph. rewrite Hp in Eph.
    unfold a_request; cbn [fst snd]. set (g' := upd_rec g r (set_request (g_recs g r) op t arg)).
    exists (set_ph a t (PWait op arg)). split; [|split; [apply frame_set_ph|rewrite view_set_ph, Hv; apply K]].
    split; [apply LkInv_set_ph; eapply LkInv_neutral; [exact HL|reflexivity|apply acc_neutral]|].
    destruct HR as [Hlost|HR]; [left; apply lost_mono; exact Hlost|right].
    pose proof (r_phase HR t) as Hpo. unfold phase_ok in Hpo. rewrite Eph, Emy in Hpo. destruct Hpo as (Hok & Hst & Hreq).
    specialize (Hreq r eq_refl).
    assert (Hnew : r_req (recs g' r) = op /\ r_tid (recs g' r) = t /\ r_arg (recs g' r) = arg /\
                   r_res (recs g' r) = r_res (recs g r) /\ r_state (recs g' r) = r_state (recs g r)).
    { unfold g', recs, upd_rec; cbn. rewrite Nat.eqb_refl. repeat split. }
    destruct Hnew as (N1 & N2 & N3 & N4 & N5).
    assert (Hsame : forall r0, r0 <> r -> recs g' r0 = recs g r0).
    { intros r0 Hne. unfold g', recs, upd_rec; cbn. destruct (Nat.eqb_spec r0 r); congruence. }
    destruct HR. split.
    - exact r_inj0.
    - exact r_alloc0.
    - intros r0 Hr0. destruct (Nat.eq_dec r0 r) as [->|Hne]; [rewrite N5|rewrite Hsame by exact Hne]; apply r_fresh0; exact Hr0.
    - intros r0 Hr0. apply r_removed0. destruct (Nat.eq_dec r0 r) as [->|Hne]; [rewrite <- N5|rewrite <- Hsame by exact Hne]; exact Hr0.
    - exact r_cand0.
    - intros r0 Hr0. destruct (Nat.eq_dec r0 r) as [->|Hne]; [exists t; exact Emy|]. rewrite Hsame in Hr0 by exact Hne. auto.
    - intros t0. destruct (Nat.eq_dec t0 t) as [->|Hne].
      + unfold phase_ok. cbn [set_ph x_ph x_my x_st]. rewrite upd_same, Emy. unfold wait_ok. rewrite N1, N2, N3.
        repeat split; auto. left. repeat split; auto.
        intros (tc & Hin). destruct (r_fin0 tc r Hin) as (_ & t1 & op1 & arg1 & B & C).
        assert (t1 = t) by (eapply r_inj0; eauto). subst t1. congruence.
      + apply phase_ok_transfer with (g := g) (a := a); try (cbn; rewrite ?upd_other by exact Hne; reflexivity); [|apply r_phase0].
        intros r0 Hr0. split; [|apply in_fin_set_ph]. unfold same_at. rewrite Hsame; [repeat split|].
        intros ->. apply Hne. eapply r_inj0; eauto.
    - intros t0 q o z Hin. cbn [set_ph x_held x_lk x_fin] in *. destruct (r_held0 t0 q o z Hin) as (A & B & C & D & E).
      assert (q <> r) by (intros ->; rewrite Hreq in B; unfold req_Empty in B; lia).
      rewrite Hsame by assumption. auto.
    - intros t0 q Hin. cbn [set_ph x_fin x_lk x_my x_ph] in *. destruct (r_fin0 t0 q Hin) as (A & t1 & op1 & arg1 & B & C).
      split; [exact A|]. exists t1, op1, arg1. split; [exact B|]. unfold upd. destruct (Nat.eqb_spec t1 t) as [->|]; [congruence|exact C].
    - rewrite annot_app, neutral_annot, app_nil_r by apply acc_neutral. exact r_lp0.
    - exact r_p0.
    - exact r_nodup0.
  Qed.

  Lemma mon_quiet h t e :
    is_cli "lock" e = false -> is_cli "unlock" e = false -> is_cli "exec" e = false -> is_cli "free" e = false ->
    mon_step h (t, e) = Some h.
  Proof. intros H1 H2 H3 H4. unfold mon_step, is_ev; cbn. now rewrite H1, H2, H3, H4. Qed.

  Lemma LkInv_quiet g a tr t es :
    LkInv g a tr -> (forall h, mon h (Conc.tag t es) = Some h) -> LkInv g a (tr ++ Conc.tag t es).
  Proof.
    intros [L1 L2 (h & L3 & L4)] Hm. split; auto. exists h. split; [|exact L4]. rewrite mon_app, L3. apply Hm.
  Qed.

  (** release_record.  If the request word is not req_Response the model emits "lost" *)
  Lemma safe_release R t r op arg (k : V -> prog R) l Q :
    v_my l = Some r -> v_ph l = PWait op arg ->
    (forall rs, safe t (k (VR P rs)) (vph l (PRel op arg rs)) Q) ->
    safe t (Act (@a_release (St S) (Res S) P r) k) l Q.
  Proof.
    intros Hm Hp K. cbn [Conc.safe]. intros g a tr [HL HR] Hv.
    pose proof (view_my Hv) as Emy. rewrite Hm in Emy. pose proof (view_ph Hv) as Eph. rewrite Hp in Eph.
    unfold a_release; cbn [fst snd]. set (g' := upd_rec g r (set_fld (g_recs g r) FReq req_Empty)).
    set (rs := r_res (g_recs g r)).
    exists (set_ph a t (PRel op arg rs)). split; [|split; [apply frame_set_ph|rewrite view_set_ph, Hv; apply K]].
    assert (Hmon : forall h, mon h (Conc.tag t (acc g KSt r FReq true ++ (if Nat.eqb (r_req (g_recs g r)) req_Response then [] else [EvCli "lost" []]))) = Some h).
    { intros h. unfold Conc.tag. rewrite map_app, mon_app.
      change (map (pair t) (acc g KSt r FReq true)) with (Conc.tag t (acc g KSt r FReq true)).
      rewrite neutral_mon by apply acc_neutral. destruct (Nat.eqb (r_req (g_recs g r)) req_Response); reflexivity. }
    split; [apply LkInv_set_ph; apply LkInv_quiet; [destruct HL as [L1 L2 L3]; split; auto|exact Hmon]|].
    destruct HR as [Hlost|HR]; [left; apply lost_mono; exact Hlost|].
    destruct (Nat.eqb_spec (r_req (g_recs g r)) req_Response) as [Ereq|Nreq].
    2:{ left. rewrite has_lost_app. apply orb_true_iff. right. unfold Conc.tag. rewrite map_app. unfold has_lost.
        rewrite existsb_app. apply orb_true_iff. right. reflexivity. }
    right. rewrite app_nil_r.
    pose proof (r_phase HR t) as Hpo. unfold phase_ok in Hpo. rewrite Eph, Emy in Hpo. destruct Hpo as (Hok & Htid & Harg & Hcase).
    assert (Hc : (exists res, x_st a t = Linearized (dec op arg) res /\ r_res (recs g r) = res) /\ ~ in_fin a r).
    { pose proof (okop_ge2 Hok). unfold recs in Hcase. rewrite Ereq in Hcase. unfold req_Response in Hcase.
      destruct Hcase as [(A & _)|[(A & _)|(_ & B & C)]]; try lia. split; assumption. }
    destruct Hc as ((res & Hst & Hres) & Hnf). unfold recs in Hres. fold rs in Hres. subst res.
    assert (Hnew : r_req (recs g' r) = req_Empty /\ r_state (recs g' r) = r_state (recs g r)).
    { unfold g', recs, upd_rec; cbn. rewrite Nat.eqb_refl. split; reflexivity. }
    destruct Hnew as (N1 & N5).
    assert (Hsame : forall r0, r0 <> r -> recs g' r0 = recs g r0).
    { intros r0 Hne. unfold g', recs, upd_rec; cbn. destruct (Nat.eqb_spec r0 r); congruence. }
    destruct HR. split.
    - exact r_inj0.
    - exact r_alloc0.
    - intros r0 Hr0. destruct (Nat.eq_dec r0 r) as [->|Hne]; [rewrite N5|rewrite Hsame by exact Hne]; apply r_fresh0; exact Hr0.
    - intros r0 Hr0. apply r_removed0. destruct (Nat.eq_dec r0 r) as [->|Hne]; [rewrite <- N5|rewrite <- Hsame by exact Hne]; exact Hr0.
    - exact r_cand0.
    - intros r0 Hr0. destruct (Nat.eq_dec r0 r) as [->|Hne]; [rewrite N1 in Hr0; unfold req_Empty, req_Operation in Hr0; lia|].
      rewrite Hsame in Hr0 by exact Hne. auto.
    - intros t0. destruct (Nat.eq_dec t0 t) as [->|Hne].
      + unfold phase_ok. cbn [set_ph x_ph x_my x_st]. rewrite upd_same, Emy. split; [exact N1|exact Hst].
      + apply phase_ok_transfer with (g := g) (a := a); try (cbn; rewrite ?upd_other by exact Hne; reflexivity); [|apply r_phase0].
        intros r0 Hr0. split; [|apply in_fin_set_ph]. unfold same_at. rewrite Hsame; [repeat split|].
        intros ->. apply Hne. eapply r_inj0; eauto.
    - intros t0 q o z Hin. cbn [set_ph x_held x_lk x_fin] in *. destruct (r_held0 t0 q o z Hin) as (A & B & C & D & E).
      assert (q <> r) by (intros ->; unfold recs in B; rewrite Ereq in B; unfold req_Response in B; lia).
      rewrite Hsame by assumption. auto.
    - intros t0 q Hin. cbn [set_ph x_fin x_lk x_my x_ph] in *. destruct (r_fin0 t0 q Hin) as (A & t1 & op1 & arg1 & B & C).
      split; [exact A|]. exists t1, op1, arg1. split; [exact B|]. unfold upd. destruct (Nat.eqb_spec t1 t) as [->|]; [|exact C].
      exfalso. apply Hnf. exists t0. congruence.
    - rewrite annot_app, neutral_annot, app_nil_r by apply acc_neutral. exact r_lp0.
    - exact r_p0.
    - exact r_nodup0.
  Qed.

  (** invocation event *)
  Lemma safe_emit_inv R t op arg (k : prog R) l Q :
    v_ph l = PIdle -> okop op = true -> safe t k (vph l (PInv op arg)) Q ->
    safe t (Emit [EvCli "inv" [Z.of_nat op; arg]] k) l Q.
  Proof.
    intros Hp Hok K. cbn [Conc.safe]. intros g a tr [HL HR] Hv. pose proof (view_ph Hv) as Eph. rewrite Hp in Eph.
    exists (set_st (set_ph a t (PInv op arg)) t (Pending (dec op arg))).
    split; [|split; [eapply frame_trans; [apply frame_set_ph|apply frame_set_st]|rewrite view_set_st, view_set_ph, Hv; exact K]].
    split; [apply LkInv_set_st; apply LkInv_set_ph; apply LkInv_quiet; [exact HL|reflexivity]|].
    destruct HR as [Hlost|HR]; [left; apply lost_mono; exact Hlost|right].
    pose proof (r_phase HR t) as Hpo. unfold phase_ok in Hpo. rewrite Eph in Hpo. destruct Hpo as (Hst & Hreq).
    destruct HR. split; try assumption.
    - intros t0. destruct (Nat.eq_dec t0 t) as [->|Hne].
      + unfold phase_ok. cbn [set_st set_ph x_ph x_my x_st]. rewrite !upd_same. repeat split; auto.
      + apply phase_ok_transfer with (g := g) (a := a); try (cbn; rewrite ?upd_other by exact Hne; reflexivity); [|apply r_phase0].
        intros r0 Hr0. split; [apply same_at_refl|reflexivity].
    - intros t0 q Hin. cbn [set_st set_ph x_fin x_lk x_my x_ph] in *. destruct (r_fin0 t0 q Hin) as (A & t1 & op1 & arg1 & B & C).
      split; [exact A|]. exists t1, op1, arg1. split; [exact B|]. unfold upd. destruct (Nat.eqb_spec t1 t) as [->|]; [congruence|exact C].
    - rewrite annot_app. change (annot (Conc.tag t [EvCli "inv" [Z.of_nat op; arg]])) with [AInv t (dec (Z.to_nat (Z.of_nat op)) arg)].
      rewrite Nat2Z.id, lp_run_app, r_lp0. cbn [lp_run lp_step]. rewrite Hst. reflexivity.
  Qed.

  (** response event: the value returned is the one the combiner wrote at the execution *)
  Lemma safe_emit_ret R t op arg rs (k : prog R) l Q :
    v_ph l = PRel op arg rs -> safe t k (vph l PIdle) Q ->
    safe t (Emit [EvCli "ret" (rs_enc rs)] k) l Q.
  Proof.
    intros Hp K. cbn [Conc.safe]. intros g a tr [HL HR] Hv. pose proof (view_ph Hv) as Eph. rewrite Hp in Eph.
    exists (set_st (set_ph a t PIdle) t Idle).
    split; [|split; [eapply frame_trans; [apply frame_set_ph|apply frame_set_st]|rewrite view_set_st, view_set_ph, Hv; exact K]].
    split; [apply LkInv_set_st; apply LkInv_set_ph; apply LkInv_quiet; [exact HL|reflexivity]|].
    destruct HR as [Hlost|HR]; [left; apply lost_mono; exact Hlost|right].
    pose proof (r_phase HR t) as Hpo. unfold phase_ok in Hpo. rewrite Eph in Hpo.
    destruct (x_my a t) as [r|] eqn:Emy; [|destruct Hpo]. destruct Hpo as (Hreq & Hst).
    destruct HR. split; try assumption.
    - intros t0. destruct (Nat.eq_dec t0 t) as [->|Hne].
      + unfold phase_ok. cbn [set_st set_ph x_ph x_my x_st]. rewrite !upd_same, Emy. split; auto. intros r0 E; inversion E; subst; exact Hreq.
      + apply phase_ok_transfer with (g := g) (a := a); try (cbn; rewrite ?upd_other by exact Hne; reflexivity); [|apply r_phase0].
        intros r0 Hr0. split; [apply same_at_refl|reflexivity].
    - intros t0 q Hin. cbn [set_st set_ph x_fin x_lk x_my x_ph] in *. destruct (r_fin0 t0 q Hin) as (A & t1 & op1 & arg1 & B & C).
      split; [exact A|]. exists t1, op1, arg1. split; [exact B|]. unfold upd. destruct (Nat.eqb_spec t1 t) as [->|]; [congruence|exact C].
    - rewrite annot_app. change (annot (Conc.tag t [EvCli "ret" (rs_enc rs)])) with [ARes t (rdec (rs_enc rs))].
      rewrite rdec_enc, lp_run_app, r_lp0. cbn [lp_run lp_step]. rewrite Hst.
      assert (res_eqb S rs rs = true) as -> by (apply res_eqb_spec; reflexivity). reflexivity.
  Qed.

  (** thread exit: tls_cleanup marks the thread's record `removed` and the thread forgets it *)
  Lemma safe_exit R t r (k : V -> prog R) l Q :
    v_my l = Some r -> v_ph l = PIdle ->
    (forall v, safe t (k v) (vmy l None) Q) ->
    safe t (Act (@a_st (St S) (Res S) P r FState st_removed) k) l Q.
  Proof.
    intros Hm Hp K. cbn [Conc.safe]. intros g a tr [HL HR] Hv.
    pose proof (view_my Hv) as Emy. rewrite Hm in Emy. pose proof (view_ph Hv) as Eph. rewrite Hp in Eph.
    unfold a_st; cbn [fst snd]. set (g' := upd_rec g r (set_fld (g_recs g r) FState st_removed)).
    exists (set_my a t None). split; [|split; [apply frame_set_my|rewrite view_set_my, Hv; apply K]].
    split; [apply LkInv_set_my; eapply LkInv_neutral; [exact HL|reflexivity|apply acc_neutral]|].
    destruct HR as [Hlost|HR]; [left; apply lost_mono; exact Hlost|right].
    pose proof (r_phase HR t) as Hpo. unfold phase_ok in Hpo. rewrite Eph, Emy in Hpo. destruct Hpo as (Hst & Hreq).
    specialize (Hreq r eq_refl).
    assert (Hat : forall r0, same_at g g' r0).
    { intros r0. unfold same_at, g', recs, upd_rec; cbn. destruct (Nat.eqb_spec r0 r) as [->|]; repeat split. }
    assert (Hstate : forall r0, r0 <> r -> r_state (recs g' r0) = r_state (recs g r0)).
    { intros r0 Hne. unfold g', recs, upd_rec; cbn. destruct (Nat.eqb_spec r0 r); congruence. }
    destruct HR. split.
    - intros t1 t2 r0 H1 H2. cbn in H1, H2. unfold upd in *.
      destruct (Nat.eqb_spec t1 t), (Nat.eqb_spec t2 t); subst; try discriminate. eapply r_inj0; eauto.
    - intros t0 r0 H0. cbn in H0. unfold upd in H0. destruct (Nat.eqb_spec t0 t); [discriminate|]. apply (r_alloc0 t0). exact H0.
    - intros r0 Hr0. rewrite Hstate; [apply r_fresh0; exact Hr0|]. apply r_alloc0 in Emy. unfold g' in Hr0; cbn in Hr0. lia.
    - intros r0 Hr0 t0. cbn. unfold upd. destruct (Nat.eqb_spec t0 t) as [->|Hne]; [discriminate|].
      destruct (Nat.eq_dec r0 r) as [->|Hn]; [intros E; apply Hne; eapply r_inj0; eauto|].
      rewrite Hstate in Hr0 by exact Hn. apply r_removed0; exact Hr0.
    - intros t0 r0 Hc. destruct (r_cand0 t0 r0 Hc) as [Hu Hlt]. split; [|exact Hlt].
      intros t1. cbn. unfold upd. destruct (Nat.eqb_spec t1 t); [discriminate|apply Hu].
    - intros r0 Hr0. destruct (Hat r0) as (E1 & _). rewrite E1 in Hr0. destruct (r_owned0 r0 Hr0) as (t0 & Ht0).
      exists t0. cbn. unfold upd. destruct (Nat.eqb_spec t0 t) as [->|]; [|exact Ht0].
      rewrite Emy in Ht0. inversion Ht0; subst r0. rewrite Hreq in Hr0. unfold req_Empty, req_Operation in Hr0. lia.
    - intros t0. destruct (Nat.eq_dec t0 t) as [->|Hne].
      + unfold phase_ok. cbn [set_my x_ph x_my x_st]. rewrite upd_same, Eph. split; [exact Hst|discriminate].
      + apply phase_ok_transfer with (g := g) (a := a); try (cbn; rewrite ?upd_other by exact Hne; reflexivity); [|apply r_phase0].
        intros r0 Hr0. split; [apply Hat|apply in_fin_set_my].
    - intros t0 q o z Hin. cbn [set_my x_held x_lk x_fin] in *. destruct (r_held0 t0 q o z Hin) as (A & B & C & D & E).
      destruct (Hat q) as (E1 & _ & E3 & _). rewrite E1, E3. auto.
    - intros t0 q Hin. cbn [set_my x_fin x_lk x_my x_ph] in *. destruct (r_fin0 t0 q Hin) as (A & t1 & op1 & arg1 & B & C).
      split; [exact A|]. exists t1, op1, arg1. split; [|exact C]. unfold upd. destruct (Nat.eqb_spec t1 t) as [->|]; [congruence|exact B].
    - rewrite annot_app, neutral_annot, app_nil_r by apply acc_neutral.
      assert (g_cont g' = g_cont g) as -> by reflexivity. exact r_lp0.
    - exact r_p0.
    - exact r_nodup0.
  Qed.

  (** loop 2 of compact_list: the CAS that unlinks a record from the allocated list and frees it *)
  Lemma safe_cas_free R t pp e d victim (k : V -> prog R) l Q :
    v_lk l = LInside -> v_cand l = Some victim ->
    (forall v, safe t (k v) l Q) ->
    safe t (Act (@a_cas_free (St S) (Res S) rs0 P pp e d victim) k) l Q.
  Proof.
    intros Hl Hc K. cbn [Conc.safe]. intros g a tr [HL HR] Hv.
    pose proof (view_lk Hv) as Elk. rewrite Hl in Elk. pose proof (view_cand Hv) as Ecand. rewrite Hc in Ecand.
    unfold a_cas_free. destruct (Nat.eqb (get_fld (g_recs g pp) FNextA) e); cbn [fst snd].
    2:{ exists a. split; [|split; [apply frame_refl|rewrite Hv; apply K]].
        apply Inv_neutral with (g := g); [split; assumption|reflexivity|apply neutral_upd_refl|apply acc_neutral]. }
    set (g1 := upd_rec g pp (set_fld (g_recs g pp) FNextA d)).
    set (g' := upd_rec g1 victim (rec_poison rs0)).
    exists a. split; [|split; [apply frame_refl|rewrite Hv; apply K]].
    assert (Hmon : forall h, h = Some t -> mon h (Conc.tag t (acc g KCas pp FNextA true ++ [EvCli "free" []])) = Some h).
    { intros h ->. unfold Conc.tag. rewrite map_app, mon_app.
      change (map (pair t) (acc g KCas pp FNextA true)) with (Conc.tag t (acc g KCas pp FNextA true)).
      rewrite neutral_mon by apply acc_neutral. cbn. unfold mon_step, is_ev; cbn. rewrite Nat.eqb_refl. reflexivity. }
    split.
    - destruct HL as [L1 L2 (h & L3 & L4)]. split; auto. exists h. split; [|exact L4].
      rewrite mon_app, L3. apply Hmon. apply L4. exact Elk.
    - destruct HR as [Hlost|HR]; [left; apply lost_mono; exact Hlost|right].
      destruct (r_cand HR t Ecand) as [Hun Hlt].
      assert (Hat : forall r0, r0 <> victim -> same_at g g' r0 /\ r_state (recs g' r0) = r_state (recs g r0)).
      { intros r0 Hne. unfold same_at, g', g1, recs, upd_rec; cbn. destruct (Nat.eqb_spec r0 victim); [congruence|].
        destruct (Nat.eqb_spec r0 pp) as [->|]; repeat split. }
      assert (Hv0 : r_req (recs g' victim) = 0 /\ r_state (recs g' victim) = 0).
      { unfold g', recs, upd_rec; cbn. rewrite Nat.eqb_refl. split; reflexivity. }
      destruct HR. split.
      + exact r_inj0.
      + exact r_alloc0.
      + intros r0 Hr0. destruct (Nat.eq_dec r0 victim) as [->|Hne]; [destruct Hv0 as [_ ->]; discriminate|].
        destruct (Hat r0 Hne) as [_ ->]. apply r_fresh0. exact Hr0.
      + intros r0 Hr0. destruct (Nat.eq_dec r0 victim) as [->|Hne]; [exact Hun|].
        destruct (Hat r0 Hne) as [_ E]. rewrite E in Hr0. apply r_removed0; exact Hr0.
      + exact r_cand0.
      + intros r0 Hr0. destruct (Nat.eq_dec r0 victim) as [->|Hne]; [destruct Hv0 as [E _]; rewrite E in Hr0; unfold req_Operation in Hr0; lia|].
        destruct (Hat r0 Hne) as [(E1 & _) _]. rewrite E1 in Hr0. auto.
      + intros t0. apply phase_ok_ext_at with (g := g); [|apply r_phase0].
        intros r0 Hr0. apply Hat. intros ->. apply (Hun t0). exact Hr0.
      + intros t0 q o z Hin. destruct (r_held0 t0 q o z Hin) as (A & B & C & D & E).
        assert (q <> victim).
        { intros ->. destruct (r_owned0 victim) as (t1 & Ht1); [rewrite B; exact C|]. apply (Hun t1). exact Ht1. }
        destruct (Hat q H) as [(E1 & _ & E3 & _) _]. rewrite E1, E3. auto.
      + exact r_fin0.
      + rewrite annot_app. assert (annot (Conc.tag t (acc g KCas pp FNextA true ++ [EvCli "free" []])) = []) as ->.
        { unfold Conc.tag. rewrite map_app. unfold annot. rewrite flat_map_app.
          change (flat_map annot1 (map (pair t) (acc g KCas pp FNextA true))) with (annot (Conc.tag t (acc g KCas pp FNextA true))).
          rewrite neutral_annot by apply acc_neutral. reflexivity. }
        rewrite app_nil_r. exact r_lp0.
      + exact r_p0.
      + exact r_nodup0.
  Qed.

  (** ** executing a pending request = its linearization point *)
  Definition drop (q : nat) (h : list (nat * nat * Z)) : list (nat * nat * Z) :=
    filter (fun e => negb (Nat.eqb (fst (fst e)) q)) h.

  Lemma in_drop q h e : In e (drop q h) <-> In e h /\ fst (fst e) <> q.
  Proof.
    unfold drop. rewrite filter_In. destruct (Nat.eqb_spec (fst (fst e)) q); cbn; intuition congruence.
  Qed.

  Lemma RestC_set_cont c g a tr c0 : RestC c g a tr -> RestC c (set_cont g c0) a tr.
  Proof. intros R. destruct R. split; assumption. Qed.

  (** what the combiner knows about a record it has seen pending *)
  Lemma held_info c g a tr t q o z :
    RestC c g a tr -> (forall t1 t2, x_lk a t1 <> LNone -> x_lk a t2 <> LNone -> t1 = t2) ->
    In (q, o, z) (x_held a t) ->
    okop o = true /\ r_req (recs g q) = o /\ r_arg (recs g q) = z /\ x_lk a t = LInside /\ ~ In q (x_fin a t) /\
    x_my a (r_tid (recs g q)) = Some q /\ x_ph a (r_tid (recs g q)) = PWait o z /\
    x_st a (r_tid (recs g q)) = Pending (dec o z).
  Proof.
    intros R L2 Hin. destruct (r_held R t q o z Hin) as (A & B & C & D & E).
    destruct (r_owned R q) as (t' & Hmy); [rewrite B; exact C|].
    pose proof (r_phase R t') as Hpo. unfold phase_ok in Hpo. rewrite Hmy in Hpo.
    destruct (x_ph a t') as [|op arg|op arg|op arg rs] eqn:Eph.
    - destruct Hpo as [_ Hq]. rewrite (Hq q eq_refl) in B. unfold req_Empty in B. lia.
    - destruct Hpo as (_ & _ & Hq). rewrite (Hq q eq_refl) in B. unfold req_Empty in B. lia.
    - destruct Hpo as (Hok & Htid & Harg & Hcase).
      destruct Hcase as [(F1 & F2 & F3)|[(F1 & F2 & F3)|(F1 & F2 & F3)]].
      + assert (op = o) by congruence. assert (arg = z) by congruence. subst op arg. rewrite Htid.
        repeat split; first [assumption|congruence].
      + exfalso. destruct F3 as (tc & Hc). destruct (r_fin R tc q Hc) as (G1 & _).
        assert (tc = t) by (apply L2; congruence). subst tc. contradiction.
      + rewrite F1 in B. unfold req_Response in B. lia.
    - destruct Hpo as [Hq _]. rewrite Hq in B. unfold req_Empty in B. lia.
  Qed.

  Definition lin_aux (a : aux) (t q t' : nat) (o : Op S) (rs : Res S) : aux :=
    set_st (set_p (set_fin (set_held a t (drop q (x_held a t))) t (x_fin a t ++ [q])) t (drop q (x_p a t))) t' (Linearized o rs).

  Lemma lin_one c g a tr t q o z :
    RestC c g a tr -> (forall t1 t2, x_lk a t1 <> LNone -> x_lk a t2 <> LNone -> t1 = t2) ->
    In (q, o, z) (x_held a t) ->
    let x := recs g q in
    let rs := snd (sstep S c (dec o z)) in
    RestC (fst (sstep S c (dec o z))) (upd_rec g q (set_res x rs))
          (lin_aux a t q (r_tid x) (dec o z) rs)
          (tr ++ [(t, ev_exec rs_enc x rs)]).
  Proof.
    intros R L2 Hin x rs. subst x.
    destruct (@held_info c g a tr t q o z R L2 Hin) as (Hok & Hreq & Harg & Hlk & Hnf & Hmy & Hph & Hst).
    set (x := recs g q) in *. set (t' := r_tid x) in *.
    set (g' := upd_rec g q (set_res x rs)).
    assert (Hq : r_req (recs g' q) = r_req x /\ r_tid (recs g' q) = r_tid x /\ r_arg (recs g' q) = r_arg x /\
                 r_res (recs g' q) = rs /\ r_state (recs g' q) = r_state x).
    { unfold g', recs, upd_rec; cbn. rewrite Nat.eqb_refl. repeat split. }
    destruct Hq as (Q1 & Q2 & Q3 & Q4 & Q5).
    assert (Hsame : forall r0, r0 <> q -> recs g' r0 = recs g r0).
    { intros r0 Hne. unfold g', recs, upd_rec; cbn. destruct (Nat.eqb_spec r0 q); congruence. }
    assert (Hfin_t : forall tc r0, In r0 (x_fin a tc) -> tc = t).
    { intros tc r0 Hc. destruct (r_fin R tc r0 Hc) as (A & _). apply L2; congruence. }
    assert (Hinfin : forall r0, r0 <> q -> (in_fin (lin_aux a t q t' (dec o z) rs) r0 <-> in_fin a r0)).
    { intros r0 Hne. unfold in_fin, lin_aux; cbn. split.
      - intros (tc & Hc). exists tc. unfold upd in Hc. destruct (Nat.eqb_spec tc t) as [E|Hn]; [|exact Hc].
        subst tc. apply in_app_or in Hc. destruct Hc as [Hc|[Hc|[]]]; [exact Hc|congruence].
      - intros (tc & Hc). exists tc. unfold upd. destruct (Nat.eqb_spec tc t) as [E|Hn]; [|exact Hc].
        subst tc. apply in_or_app. left. exact Hc. }
    destruct R. split.
    - exact r_inj0.
    - exact r_alloc0.
    - intros r0 Hr0. destruct (Nat.eq_dec r0 q) as [->|Hne]; [rewrite Q5|rewrite Hsame by exact Hne]; apply r_fresh0; exact Hr0.
    - intros r0 Hr0. apply r_removed0. destruct (Nat.eq_dec r0 q) as [->|Hne]; [rewrite Q5 in Hr0|rewrite Hsame in Hr0 by exact Hne]; exact Hr0.
    - exact r_cand0.
    - intros r0 Hr0. apply r_owned0. destruct (Nat.eq_dec r0 q) as [->|Hne]; [rewrite Q1 in Hr0|rewrite Hsame in Hr0 by exact Hne]; exact Hr0.
    - intros t0. destruct (Nat.eq_dec t0 t') as [->|Hne].
      + unfold phase_ok, lin_aux. cbn [set_st set_p set_fin set_held x_ph x_my x_st]. rewrite Hph, Hmy. unfold wait_ok.
        cbn [set_st set_p set_fin set_held x_st]. rewrite upd_same.
        rewrite Q1, Q2, Q3, Q4. repeat split; auto. right. left. repeat split; auto.
        * exists rs. split; reflexivity.
        * exists t. cbn. rewrite upd_same. apply in_or_app. right. left. reflexivity.
      + apply phase_ok_transfer with (g := g) (a := a); try (unfold lin_aux; cbn; rewrite ?upd_other by exact Hne; reflexivity); [|apply r_phase0].
        intros r0 Hr0. assert (r0 <> q) by (intros ->; apply Hne; eapply r_inj0; eauto).
        split; [unfold same_at; rewrite Hsame by assumption; repeat split|apply Hinfin; assumption].
    - intros t0 q' o' z' Hin'. unfold lin_aux in *. cbn [set_st set_p set_fin set_held x_held x_lk x_fin] in *. unfold upd in *.
      destruct (Nat.eqb_spec t0 t) as [E|Hne].
      + subst t0. apply in_drop in Hin'. destruct Hin' as [Hin' Hneq]. cbn in Hneq.
        destruct (r_held0 t q' o' z' Hin') as (A & B & C & D & E). rewrite Hsame by exact Hneq.
        repeat split; auto. intros F. apply in_app_or in F. destruct F as [F|[F|[]]]; [contradiction|congruence].
      + destruct (r_held0 t0 q' o' z' Hin') as (A & _). exfalso. apply Hne. apply L2; congruence.
    - intros t0 q' Hin'. unfold lin_aux in *. cbn [set_st set_p set_fin set_held x_my x_ph x_lk x_fin] in *. unfold upd in Hin'.
      destruct (Nat.eqb_spec t0 t) as [E|Hne].
      + subst t0. apply in_app_or in Hin'. destruct Hin' as [Hin'|[<-|[]]]; [apply r_fin0; exact Hin'|split; [exact Hlk|exists t', o, z; split; assumption]].
      + apply r_fin0. exact Hin'.
    - rewrite annot_app. change (annot [(t, ev_exec rs_enc x rs)]) with [ALin (Sp:=S) (Z.to_nat (Z.of_nat (r_tid x)))].
      rewrite Nat2Z.id, lp_run_app, r_lp0. cbn [lp_run lp_step]. fold t'. rewrite Hst. reflexivity.
    - intros t0 e Hin'. unfold lin_aux in *. cbn [set_st set_p set_fin set_held x_p x_held] in *. unfold upd in *.
      destruct (Nat.eqb_spec t0 t) as [E|Hne]; [|apply r_p0; exact Hin'].
      subst t0. apply in_drop in Hin'. apply in_drop. split; [apply r_p0; tauto|tauto].
    - intros t0. unfold lin_aux. cbn [set_st set_p set_fin set_held x_fin]. unfold upd.
      destruct (Nat.eqb_spec t0 t) as [E|Hne]; [|apply r_nodup0].
      subst t0. apply NoDup_app_disj; [apply r_nodup0|repeat constructor; intros []|].
      intros y Hy [<-|[]]. contradiction.
  Qed.
  Lemma tag_app t (es1 es2 : list ev) : Conc.tag t (es1 ++ es2) = Conc.tag t es1 ++ Conc.tag t es2.
  Proof. unfold Conc.tag. apply map_app. Qed.

  Lemma mon_exec_holder t x rs : mon (Some t) [(t, ev_exec rs_enc x rs)] = Some (Some t).
  Proof. cbn. unfold mon_step, is_ev; cbn. rewrite Nat.eqb_refl. reflexivity. Qed.

  Lemma LkInv_lin_aux g a tr t q t' o rs : LkInv g a tr -> LkInv g (lin_aux a t q t' o rs) tr.
  Proof. intros [L1 L2 L3]. split; assumption. Qed.

  Lemma view_lin_aux a t q t' o rs :
    view (lin_aux a t q t' o rs) t =
    vp (vfin (vheld (view a t) (drop q (x_held a t))) (x_fin a t ++ [q])) (drop q (x_p a t)).
  Proof. unfold view, lin_aux; cbn. rewrite !upd_same. reflexivity. Qed.

  Lemma frame_lin_aux a t q t' o rs : Conc.frame view t a (lin_aux a t q t' o rs).
  Proof. intros u Hu. unfold view, lin_aux; cbn. rewrite !upd_other by exact Hu. reflexivity. Qed.

  (** fc_apply: the combiner executes a request it has seen pending *)
  Lemma safe_apply R t r o z (k : V -> prog R) l Q :
    v_lk l = LInside -> v_fin l = [] -> In (r, o, z) (v_held l) ->
    (forall v, safe t (k v) (vp (vfin (vheld l (drop r (v_held l))) [r]) (drop r (v_p l))) Q) ->
    safe t (Act (@a_apply (St S) (Res S) rs_enc capply P r) k) l Q.
  Proof.
    intros Hl Hf Hin K. cbn [Conc.safe]. intros g a tr [HL HR] Hv.
    pose proof (view_lk Hv) as Elk. rewrite Hl in Elk. pose proof (view_fin Hv) as Efin. rewrite Hf in Efin.
    pose proof (view_held Hv) as Eheld. rewrite <- Eheld in Hin.
    unfold a_apply. set (x := g_recs g r).
    destruct (capply (g_cont g) (r_req x) (r_arg x)) as [c' rs] eqn:Hcap. cbn [fst snd].
    assert (Hview : forall t' oo, view (lin_aux a t r t' oo rs) t =
                      vp (vfin (vheld l (drop r (v_held l))) [r]) (drop r (v_p l))).
    { intros t' oo. rewrite view_lin_aux, Hv, Efin. rewrite <- Hv. reflexivity. }
    destruct HR as [Hlost|HR].
    - (* a request was lost earlier: only the lock part is maintained *)
      exists (lin_aux a t r 0 (dec o z) rs).
      split; [|split; [apply frame_lin_aux|rewrite Hview; apply K]].
      split; [|left; apply lost_mono; exact Hlost].
      apply LkInv_lin_aux. destruct HL as [L1 L2 (h & L3 & L4)]. split; auto.
      exists h. split; [|exact L4]. rewrite tag_app, app_assoc, mon_app, mon_app, L3, neutral_mon by apply acc_neutral.
      assert (h = Some t) as -> by (apply L4; exact Elk). apply mon_exec_holder.
    - pose proof HL as [L1 L2 _].
      destruct (@held_info (g_cont g) g a tr t r o z HR L2 Hin) as (Hok & Hreq & Harg & _).
      unfold recs in Hreq, Harg. fold x in Hreq, Harg. rewrite Hreq, Harg, (capply_spec _ _ Hok) in Hcap.
      exists (lin_aux a t r (r_tid x) (dec o z) rs).
      split; [|split; [apply frame_lin_aux|rewrite Hview; apply K]].
      split.
      + apply LkInv_lin_aux. destruct HL as [L1' L2' (h & L3 & L4)]. split; auto.
        exists h. split; [|exact L4]. rewrite tag_app, app_assoc, mon_app, mon_app, L3, neutral_mon by apply acc_neutral.
        assert (h = Some t) as -> by (apply L4; exact Elk). apply mon_exec_holder.
      + right. rewrite tag_app, app_assoc.
        assert (R1 : Rest g a (tr ++ Conc.tag t (acc g KLd r FReq true))).
        { eapply Rest_neutral; [exact HR|apply neutral_upd_refl|apply acc_neutral]. }
        pose proof (@lin_one (g_cont g) g a _ t r o z R1 L2 Hin) as R2. cbn zeta in R2.
        fold x in R2. rewrite Hcap in R2. cbn [fst snd] in R2.
        apply RestC_set_cont with (c0 := c') in R2. exact R2.
  Qed.

  (** *** the same for the batch of requests completed by one fc_process iteration *)
  Definition dropl (qs : list nat) (h : list (nat * nat * Z)) : list (nat * nat * Z) :=
    fold_left (fun h q => drop q h) qs h.

  Lemma in_dropl qs : forall h e, In e (dropl qs h) <-> In e h /\ ~ In (fst (fst e)) qs.
  Proof.
    induction qs as [|q qs IH]; intros h e; cbn [dropl fold_left]; [cbn; tauto|].
    fold (dropl qs (drop q h)). rewrite IH, in_drop. cbn. intuition congruence.
  Qed.

  Definition env_of (g : G) : env := fun q => (r_req (recs g q), r_arg (recs g q)).

  Fixpoint lin_many (a : aux) (t : nat) (g : G) (comps : list (nat * Res S)) : aux :=
    match comps with
    | [] => a
    | (q, rs) :: rest =>
        let x := recs g q in
        lin_many (lin_aux a t q (r_tid x) (dec (r_req x) (r_arg x)) rs) t (upd_rec g q (set_res x rs)) rest
    end.

  Lemma view_lin_many comps : forall a t g,
    view (lin_many a t g comps) t =
    vp (vfin (vheld (view a t) (dropl (map fst comps) (x_held a t))) (x_fin a t ++ map fst comps)) (dropl (map fst comps) (x_p a t)).
  Proof.
    induction comps as [|[q rs] rest IH]; intros a t g; cbn [lin_many map fst dropl fold_left].
    - rewrite app_nil_r. reflexivity.
    - rewrite IH, view_lin_aux. unfold lin_aux; cbn. rewrite !upd_same. unfold dropl. rewrite <- app_assoc. reflexivity.
  Qed.

  Lemma frame_lin_many comps : forall a t g, Conc.frame view t a (lin_many a t g comps).
  Proof.
    induction comps as [|[q rs] rest IH]; intros a t g; cbn [lin_many]; [apply frame_refl|].
    eapply frame_trans; [apply frame_lin_aux|apply IH].
  Qed.

  Lemma LkInv_lin_many comps : forall g0 a tr t g, LkInv g0 a tr -> LkInv g0 (lin_many a t g comps) tr.
  Proof.
    induction comps as [|[q rs] rest IH]; intros g0 a tr t g H; cbn [lin_many]; auto. apply IH. apply LkInv_lin_aux. exact H.
  Qed.

  Lemma mon_write_comps comps : forall (g : G) t,
    mon (Some t) (Conc.tag t (snd (write_comps rs_enc g comps))) = Some (Some t).
  Proof.
    induction comps as [|[q rs] rest IH]; intros g t; cbn [write_comps]; [reflexivity|].
    destruct (write_comps rs_enc (upd_rec g q (set_res (g_recs g q) rs)) rest) as [g' es] eqn:Hw. cbn [snd].
    change (Conc.tag t (ev_exec rs_enc (g_recs g q) rs :: es)) with ((t, ev_exec rs_enc (g_recs g q) rs) :: Conc.tag t es).
    cbn [mon]. unfold mon_step, is_ev; cbn. rewrite Nat.eqb_refl.
    specialize (IH (upd_rec g q (set_res (g_recs g q) rs)) t). rewrite Hw in IH. exact IH.
  Qed.

  Lemma env_of_upd_res (g : G) q rs q' : env_of (upd_rec g q (set_res (g_recs g q) rs)) q' = env_of g q'.
  Proof. unfold env_of, recs, upd_rec; cbn. destruct (Nat.eqb_spec q' q) as [->|]; reflexivity. Qed.

  Lemma run_comps_ext rho rho' c cs : (forall q, rho' q = rho q) -> run_comps S dec rho c cs -> run_comps S dec rho' c cs.
  Proof.
    intros He. revert c. induction cs as [|[q rs] cs IH]; intros c; cbn; auto. unfold op_of. rewrite He. intros [A B]. split; auto.
  Qed.

  Lemma final_comps_ext rho rho' c cs : (forall q, rho' q = rho q) -> final_comps S dec rho' c cs = final_comps S dec rho c cs.
  Proof.
    intros He. revert c. induction cs as [|[q rs] cs IH]; intros c; cbn; auto. unfold op_of. rewrite He. apply IH.
  Qed.

  Lemma lin_many_ok comps : forall c g a tr t,
    RestC c g a tr -> (forall t1 t2, x_lk a t1 <> LNone -> x_lk a t2 <> LNone -> t1 = t2) ->
    (forall q, In q (map fst comps) -> exists o z, In (q, o, z) (x_held a t)) ->
    NoDup (map fst comps) -> run_comps S dec (env_of g) c comps ->
    RestC (final_comps S dec (env_of g) c comps) (fst (write_comps rs_enc g comps)) (lin_many a t g comps)
          (tr ++ Conc.tag t (snd (write_comps rs_enc g comps))).
  Proof.
    induction comps as [|[q rs] rest IH]; intros c g a tr t R L2 Hheld Hnd Hrun.
    - cbn. rewrite app_nil_r. exact R.
    - cbn [write_comps lin_many final_comps].
      destruct (write_comps rs_enc (upd_rec g q (set_res (g_recs g q) rs)) rest) as [g2 es] eqn:Hw. cbn [fst snd].
      destruct (Hheld q (or_introl eq_refl)) as (o & z & Hin).
      destruct (@held_info c g a tr t q o z R L2 Hin) as (Hok & Hreq & Harg & _).
      assert (Hop : op_of S dec (env_of g) q = dec o z).
      { unfold op_of, env_of; cbn [fst snd]. rewrite Hreq, Harg. reflexivity. }
      cbn [run_comps] in Hrun. destruct Hrun as [Hrs Hrun]. rewrite Hop in Hrs, Hrun. rewrite Hop.
      pose proof (@lin_one c g a tr t q o z R L2 Hin) as R1. cbn zeta in R1. rewrite Hrs in R1. unfold recs in R1.
      cbn [map fst] in Hnd. apply NoDup_cons_iff in Hnd. destruct Hnd as [Hq Hnd].
      change (Conc.tag t (ev_exec rs_enc (g_recs g q) rs :: es)) with ([(t, ev_exec rs_enc (g_recs g q) rs)] ++ Conc.tag t es).
      rewrite app_assoc.
      specialize (IH (fst (sstep S c (dec o z))) (upd_rec g q (set_res (g_recs g q) rs))
                     (lin_aux a t q (r_tid (g_recs g q)) (dec o z) rs) (tr ++ [(t, ev_exec rs_enc (g_recs g q) rs)]) t R1).
      rewrite Hw in IH. cbn [fst snd] in IH.
      assert (Hd : dec (r_req (recs g q)) (r_arg (recs g q)) = dec o z) by (rewrite Hreq, Harg; reflexivity).
      rewrite Hd.
      rewrite <- (@final_comps_ext (env_of g) (env_of (upd_rec g q (set_res (g_recs g q) rs))) (fst (sstep S c (dec o z))) rest (fun q' => env_of_upd_res g q rs q')).
      apply IH.
      + exact L2.
      + intros q' Hq'. destruct (Hheld q' (or_intror Hq')) as (o' & z' & Hin'). exists o', z'.
        unfold lin_aux; cbn. rewrite upd_same. apply in_drop. split; [exact Hin'|]. cbn. intros ->. contradiction.
      + exact Hnd.
      + eapply run_comps_ext; [|exact Hrun]. intros; apply env_of_upd_res.
  Qed.
  Lemma LkInv_set_p g a tr t x : LkInv g a tr -> LkInv g (set_p a t x) tr.
  Proof. intros [L1 L2 L3]. split; assumption. Qed.

  Lemma RestC_set_p c g a tr t x : RestC c g a tr -> (forall e, In e x -> In e (x_held a t)) -> RestC c g (set_p a t x) tr.
  Proof.
    intros R Hx. destruct R. split; try assumption.
    intros t0 e Hin. cbn in *. unfold upd in Hin. destruct (Nat.eqb_spec t0 t) as [->|]; [apply Hx; exact Hin|apply r_p0; exact Hin].
  Qed.

  Lemma x_held_lin_many comps a t g : x_held (lin_many a t g comps) t = dropl (map fst comps) (x_held a t).
  Proof. pose proof (view_lin_many comps a t g) as H. apply (f_equal v_held) in H. exact H. Qed.

  Lemma write_comps_lock comps : forall (g : G), g_lock (fst (write_comps rs_enc g comps)) = g_lock g.
  Proof.
    induction comps as [|[q rs] rest IH]; intros g; cbn [write_comps]; [reflexivity|].
    specialize (IH (upd_rec g q (set_res (g_recs g q) rs))).
    destruct (write_comps rs_enc (upd_rec g q (set_res (g_recs g q) rs)) rest) as [g' es]. cbn [fst] in *. rewrite IH. reflexivity.
  Qed.

  (** one iteration of the fc_process loop *)
  Lemma safe_visit R t p r o z (k : V -> prog R) l Q :
    v_lk l = LInside -> v_fin l = [] -> In (r, o, z) (v_held l) -> v_p l = pheld p ->
    (forall p' comps, safe t (k (VV p' comps))
        (vp (vfin (vheld l (dropl (map fst comps) (v_held l))) (map fst comps)) (pheld p')) Q) ->
    safe t (Act (@a_visit (St S) (Res S) rs_enc P pvisit p r) k) l Q.
  Proof.
    intros Hl Hf Hin Hp K. cbn [Conc.safe]. intros g a tr [HL HR] Hv.
    pose proof (view_lk Hv) as Elk. rewrite Hl in Elk. pose proof (view_fin Hv) as Efin. rewrite Hf in Efin.
    pose proof (view_held Hv) as Eheld. rewrite <- Eheld in Hin.
    assert (Ep : x_p a t = pheld p) by (rewrite <- Hp, <- Hv; reflexivity).
    unfold a_visit. set (x := g_recs g r).
    destruct (pvisit p (g_cont g) r (r_req x) (r_tid x) (r_arg x)) as [[p' c'] comps] eqn:Hpv.
    destruct (write_comps rs_enc g comps) as [g' es] eqn:Hw. cbn [fst snd].
    exists (set_p (lin_many a t g comps) t (pheld p')).
    split; [|split; [eapply frame_trans; [apply frame_lin_many|apply frame_set_p]|]].
    2:{ assert (Hview : view (set_p (lin_many a t g comps) t (pheld p')) t =
                        vp (vfin (vheld l (dropl (map fst comps) (v_held l))) (map fst comps)) (pheld p')).
        { rewrite view_set_p, view_lin_many, Efin. subst l. reflexivity. }
        rewrite Hview. apply K. }
    assert (HLk : LkInv (set_cont g' c') (set_p (lin_many a t g comps) t (pheld p')) (tr ++ Conc.tag t (acc g KLd r FReq true ++ es))).
    { apply LkInv_set_p. apply LkInv_lin_many. destruct HL as [L1 L2 (h & L3 & L4)]. split.
      - intros Hfree. apply L1. pose proof (write_comps_lock comps g) as Hk. rewrite Hw in Hk. cbn in Hk, Hfree. congruence.
      - exact L2.
      - exists h. split; [|exact L4]. rewrite tag_app, app_assoc, mon_app, mon_app, L3, neutral_mon by apply acc_neutral.
        assert (h = Some t) as -> by (apply L4; exact Elk).
        pose proof (mon_write_comps comps g t) as Hm. rewrite Hw in Hm. exact Hm. }
    split; [exact HLk|].
    destruct HR as [Hlost|HR]; [left; apply lost_mono; exact Hlost|right].
    pose proof HL as [L1 L2 _].
    assert (R1 : Rest g a (tr ++ Conc.tag t (acc g KLd r FReq true))).
    { eapply Rest_neutral; [exact HR|apply neutral_upd_refl|apply acc_neutral]. }
    destruct (@held_info (g_cont g) g a _ t r o z R1 L2 Hin) as (Hok & Hreq & Harg & _).
    unfold recs in Hreq, Harg. fold x in Hreq, Harg. rewrite Hreq, Harg in Hpv.
    assert (Hag : agrees okop (env_of g) (pheld p)).
    { intros q oq zq He. rewrite <- Ep in He. apply (r_p R1) in He.
      destruct (@held_info (g_cont g) g a _ t q oq zq R1 L2 He) as (A & B & C & _). unfold env_of. rewrite B, C. auto. }
    assert (Hr : env_of g r = (o, z)) by (unfold env_of, recs; fold x; rewrite Hreq, Harg; reflexivity).
    destruct (@pvisit_sound (env_of g) _ _ _ _ _ _ _ _ _ Hpv Hr Hok Hag) as (V1 & V2 & V3 & V4 & V5 & V6).
    assert (Hmem : forall q, In q (map fst comps) -> exists o' z', In (q, o', z') (x_held a t)).
    { intros q Hq. destruct (V2 q Hq) as [->|Hq'].
      - exists o, z. exact Hin.
      - apply in_map_iff in Hq'. destruct Hq' as ([[q1 o1] z1] & E & He). cbn in E. subst q1.
        exists o1, z1. apply (r_p R1). rewrite Ep. exact He. }
    pose proof (@lin_many_ok comps (g_cont g) g a _ t R1 L2 Hmem V1 V3) as R2.
    rewrite Hw in R2. cbn [fst snd] in R2. rewrite V4 in R2.
    rewrite tag_app, app_assoc.
    apply RestC_set_p; [apply RestC_set_cont; exact R2|].
    intros e He. rewrite x_held_lin_many. apply in_dropl. destruct (V6 e He) as [[->|Hold] Hno].
    - split; [exact Hin|exact Hno].
    - split; [apply (r_p R1); rewrite Ep; exact Hold|exact Hno].
  Qed.

  (** the response stores of one iteration *)
  Lemma safe_dones R t comps : forall (k : prog R) l Q,
    v_lk l = LInside -> (exists rest, v_fin l = map fst comps ++ rest /\ safe t k (vfin l rest) Q) ->
    safe t (dones comps k) l Q.
  Proof.
    induction comps as [|[q rs] rest IH]; intros k l Q Hl (rest0 & Hf & K); cbn [dones].
    - cbn in Hf. destruct l; cbn in *; subst. exact K.
    - eapply safe_done; [exact Hl|exact Hf|]. intros v. apply IH; [exact Hl|]. exists rest0. split; [reflexivity|exact K].
  Qed.

  (** a neutral step at which the thread forgets (part of) the requests remembered by fc_process *)
  Lemma safe_neutral_p R t f (k : V -> prog R) l p' Q :
    neutral_act f -> (forall e, In e p' -> In e (v_held l)) -> (forall v, safe t (k v) (vp l p') Q) ->
    safe t (Act f k) l Q.
  Proof.
    intros Hn Hsub Hk. cbn [Conc.safe]. intros g a tr Hi Hv. destruct (Hn g) as (H0 & H1 & H2).
    exists (set_p a t p'). split; [|split; [apply frame_set_p|rewrite view_set_p, Hv; apply Hk]].
    destruct (Inv_neutral t Hi H0 H1 H2) as [HL HR]. split; [apply LkInv_set_p; exact HL|].
    destruct HR as [Hlost|HR]; [left; exact Hlost|right]. apply RestC_set_p; [exact HR|].
    intros e He. rewrite (view_held Hv). apply Hsub; exact He.
  Qed.
  (** ** the programs *)
  Notation kpublish := (@publish (St S) (Res S) P).
  Notation krepublish := (@republish (St S) (Res S) P).
  Notation kpush_loop := (@push_loop (St S) (Res S) P).
  Notation kcpass := (@cpass (St S) (Res S) rs_enc capply P).
  Notation kpasses := (@passes (St S) (Res S) rs_enc capply P).
  Notation kskip := (@skip_inactive (St S) (Res S) P).
  Notation kwalk := (@process_walk (St S) (Res S) rs_enc P pvisit).
  Notation kfc_process := (@fc_process (St S) (Res S) rs_enc P pinit pvisit).
  Notation kprocess_passes := (@process_passes (St S) (Res S) rs_enc P pinit pvisit).
  Notation kis_published := (@is_published (St S) (Res S) P).
  Notation kcompact1 := (@compact1 (St S) (Res S) P).
  Notation kcompact2 := (@compact2 (St S) (Res S) rs0 P chk).
  Notation kcompact_list := (@compact_list (St S) (Res S) rs0 P chk).
  Notation kcombining := (@combining (St S) (Res S) rs0 rs_enc capply P pinit pvisit chk).
  Notation kwait := (@wait_for_combining (St S) (Res S) P).
  Notation ktry := (@try_combining (St S) (Res S) rs0 rs_enc capply P pinit pvisit chk).
  Notation krequest := (@request (St S) (Res S) rs0 rs_enc capply P pinit pvisit chk).
  Notation kacquire := (@acquire_record (St S) (Res S) rs0 P).
  Notation kexit := (@thread_exit (St S) (Res S) P).
  Notation krun_ops := (@run_ops (St S) (Res S) rs0 rs_enc capply P pinit pvisit chk).
  Notation kthread_prog := (@thread_prog (St S) (Res S) rs0 rs_enc capply P pinit pvisit chk).

  Definition optQ {A} (Pq : A -> tview -> Prop) : option A -> tview -> Prop :=
    fun o l => match o with None => True | Some x => Pq x l end.

  Lemma safe_obind A B t (p : prog (option A)) (q : A -> prog (option B)) l (Pq : B -> tview -> Prop) :
    safe t p l (optQ (fun x l' => safe t (q x) l' (optQ Pq))) -> safe t (obind p q) l (optQ Pq).
  Proof.
    intros H. unfold obind. apply Conc.safe_bind. eapply Conc.safe_weaken; [|exact H].
    intros [x|] l' Hx; unfold optQ in *; cbn in *; auto.
  Qed.

  Lemma safe_ret A t (x : A) l (Pq : A -> tview -> Prop) : Pq x l -> safe t (@ret (St S) (Res S) P A x) l (optQ Pq).
  Proof. intros H. exact H. Qed.
  Lemma safe_fail A t l (Pq : A -> tview -> Prop) : safe t (@fail (St S) (Res S) P A) l (optQ Pq).
  Proof. exact I. Qed.

  Ltac neutral_side :=
    first [ apply neutral_a_ld | apply neutral_a_begin | apply neutral_a_ldcount | apply neutral_a_faacount
          | apply neutral_a_st; cbn; first [exact I | unfold st_active, st_inactive, st_removed; lia]
          | apply neutral_a_cas; cbn; first [exact I | unfold st_active, st_inactive, st_removed; lia] ].
  Ltac neu := apply safe_neutral; [neutral_side|intros ?v].

  Lemma safe_push_loop t f r l (Pq : unit -> tview -> Prop) :
    (f = FNext \/ f = FNextA) -> Pq tt l -> forall fuel p, safe t (kpush_loop fuel f r p) l (optQ Pq).
  Proof.
    intros Hf HQ. induction fuel as [|fu IH]; intros p; cbn [push_loop]; [exact I|].
    destruct Hf as [-> | ->]; neu; neu; destruct (Nat.eqb (vn v0) p); try exact HQ; apply IH.
  Qed.

  Lemma safe_publish t fuel r l (Pq : unit -> tview -> Prop) : Pq tt l -> safe t (kpublish fuel r) l (optQ Pq).
  Proof.
    intros HQ. unfold publish. neu. neu. neu. destruct (Nat.eqb r head); [exact HQ|]. neu.
    destruct (Nat.eqb (vn v2) (Datatypes.S r)); [exact HQ|]. apply safe_push_loop; auto.
  Qed.

  Lemma safe_republish t fuel r l (Pq : unit -> tview -> Prop) : Pq tt l -> safe t (krepublish fuel r) l (optQ Pq).
  Proof.
    intros HQ. unfold republish. neu. destruct (Nat.eqb (vn v) st_active); [exact HQ|]. apply safe_publish; exact HQ.
  Qed.

  Definition Comb (l : tview) : Prop := v_lk l = LInside /\ v_fin l = [].
  Definition same_cl (l l' : tview) : Prop := v_my l' = v_my l /\ v_ph l' = v_ph l.
  Lemma same_cl_refl l : same_cl l l. Proof. split; reflexivity. Qed.
  Lemma same_cl_trans l1 l2 l3 : same_cl l1 l2 -> same_cl l2 l3 -> same_cl l1 l3.
  Proof. intros [A B] [C D]. split; congruence. Qed.

  (** combining_pass *)
  Lemma safe_cpass t age : forall fuel p b l l0, Comb l -> same_cl l0 l ->
    safe t (kcpass fuel age p b) l (optQ (fun _ l' => Comb l' /\ same_cl l0 l')).
  Proof.
    induction fuel as [|fu IH]; intros p b l l0 Hc Hs; cbn [cpass]; [exact I|].
    destruct p as [|r]; [split; assumption|].
    neu. destruct (Nat.eqb (vn v) st_active).
    - destruct Hc as [Hlk Hfin]. apply safe_ld_req; auto.
      + intros v1 Hv1. cbn [vn]. destruct (Nat.leb_spec req_Operation v1); [unfold req_Operation in *; lia|].
        neu. apply IH; [split; assumption|assumption].
      + intros v1 x Hv1. cbn [vn]. destruct (Nat.leb_spec req_Operation v1); [|unfold req_Operation in *; lia].
        neu. eapply safe_apply with (o := v1) (z := x); [exact Hlk|exact Hfin|left; reflexivity|].
        intros v3. eapply safe_done; [exact Hlk|reflexivity|]. intros v4. neu.
        apply IH; [split; [exact Hlk|reflexivity]|]. destruct Hs as [A B]. split; [exact A|exact B].
    - neu. apply IH; assumption.
  Qed.

  Lemma safe_passes t fuel age : forall n nE nU l l0, Comb l -> same_cl l0 l ->
    safe t (kpasses fuel age n nE nU) l (optQ (fun _ l' => Comb l' /\ same_cl l0 l')).
  Proof.
    induction n as [|n IH]; intros nE nU l l0 Hc Hs; cbn [passes]; [split; assumption|].
    apply safe_obind. eapply Conc.safe_weaken; [|apply safe_cpass; eassumption].
    intros [b|] l' Hx; [|exact I]. unfold optQ in Hx. destruct Hx as [Hc' Hs']. destruct b; [apply IH; assumption|].
    destruct (Nat.ltb nU (Datatypes.S nE)); [apply safe_ret; split; assumption|apply IH; assumption].
  Qed.

  (** kernel::iterator::skip_inactive: the record it stops at has been seen pending *)
  Definition at_pending (it : nat) (l : tview) : Prop :=
    it = 0 \/ exists r o z, it = Datatypes.S r /\ In (r, o, z) (v_held l).

  Lemma safe_skip t : forall fuel p l l0, Comb l -> same_cl l0 l ->
    safe t (kskip fuel p) l (optQ (fun it l' => Comb l' /\ same_cl l0 l' /\ v_p l' = v_p l /\ at_pending it l')).
  Proof.
    induction fuel as [|fu IH]; intros p l l0 Hc Hs; cbn [skip_inactive]; [exact I|].
    destruct p as [|r]; [repeat split; try apply Hc; try apply Hs; left; reflexivity|].
    neu. destruct (Nat.eqb (vn v) st_active).
    - destruct Hc as [Hlk Hfin]. apply safe_ld_req; auto.
      + intros v1 Hv1. cbn [vn]. destruct (Nat.leb_spec req_Operation v1); [unfold req_Operation in *; lia|].
        neu. apply IH; [split; assumption|assumption].
      + intros v1 x Hv1. cbn [vn]. destruct (Nat.leb_spec req_Operation v1); [|unfold req_Operation in *; lia].
        cbn. repeat split; auto; try apply Hs. right. exists r, v1, x. split; [reflexivity|left; reflexivity].
    - neu. apply IH; assumption.
  Qed.

  (** the same, forgetting what a previous fc_process call remembered *)
  Lemma safe_skip_reset t fuel r l l0 : Comb l -> same_cl l0 l ->
    safe t (kskip fuel (Datatypes.S r)) l (optQ (fun it l' => Comb l' /\ same_cl l0 l' /\ v_p l' = [] /\ at_pending it l')).
  Proof.
    intros Hc Hs. destruct fuel as [|fu]; cbn [skip_inactive]; [exact I|].
    apply safe_neutral_p with (p' := []); [neutral_side|intros e []|intros v].
    assert (Hc' : Comb (vp l [])) by exact Hc. assert (Hs' : same_cl l0 (vp l [])) by exact Hs.
    destruct (Nat.eqb (vn v) st_active).
    - destruct Hc' as [Hlk Hfin]. apply safe_ld_req; auto.
      + intros v1 Hv1. cbn [vn]. destruct (Nat.leb_spec req_Operation v1); [unfold req_Operation in *; lia|].
        neu. eapply Conc.safe_weaken; [|apply safe_skip; [split; eassumption|eassumption]].
        intros [it|] l' Hx; [|exact I]. exact Hx.
      + intros v1 x Hv1. cbn [vn]. destruct (Nat.leb_spec req_Operation v1); [|unfold req_Operation in *; lia].
        cbn. repeat split; auto; try apply Hs. right. exists r, v1, x. split; [reflexivity|left; reflexivity].
    - neu. eapply Conc.safe_weaken; [|apply safe_skip; eassumption].
      intros [it|] l' Hx; [|exact I]. exact Hx.
  Qed.
  (** the fc_process loop *)
  Lemma safe_walk t : forall fuel it p l l0, Comb l -> same_cl l0 l -> v_p l = pheld p -> at_pending it l ->
    safe t (kwalk fuel it p) l (optQ (fun _ l' => Comb l' /\ same_cl l0 l')).
  Proof.
    induction fuel as [|fu IH]; intros it p l l0 Hc Hs Hp Hat; cbn [process_walk]; [exact I|].
    destruct it as [|r]; [apply safe_ret; split; assumption|].
    destruct Hat as [Hat|(r' & o & z & E & Hin)]; [discriminate|]. inversion E; subst r'.
    destruct Hc as [Hlk Hfin].
    eapply safe_visit with (o := o) (z := z); [exact Hlk|exact Hfin|exact Hin|exact Hp|].
    intros p' comps. apply safe_dones; [exact Hlk|]. exists []. split; [cbn; rewrite app_nil_r; reflexivity|].
    neu. apply safe_obind. eapply Conc.safe_weaken; [|apply safe_skip with (l0 := l0); [split; [exact Hlk|reflexivity]|exact Hs]].
    intros [it'|] l' Hx; [|exact I]. unfold optQ in Hx. destruct Hx as (Hc' & Hs' & Hp' & Hat').
    apply IH; auto.
  Qed.

  Lemma safe_fc_process t fuel l l0 : Comb l -> same_cl l0 l ->
    safe t (kfc_process fuel) l (optQ (fun _ l' => Comb l' /\ same_cl l0 l')).
  Proof.
    intros Hc Hs. unfold fc_process. apply safe_obind.
    eapply Conc.safe_weaken; [|apply safe_skip_reset with (l0 := l0); assumption].
    intros [it|] l' Hx; [|exact I]. unfold optQ in Hx. destruct Hx as (Hc' & Hs' & Hp' & Hat').
    apply safe_walk; auto. rewrite pinit_held. exact Hp'.
  Qed.

  Lemma safe_process_passes t fuel : forall n l l0, Comb l -> same_cl l0 l ->
    safe t (kprocess_passes fuel n) l (optQ (fun _ l' => Comb l' /\ same_cl l0 l')).
  Proof.
    induction n as [|n IH]; intros l l0 Hc Hs; cbn [process_passes]; [apply safe_ret; split; assumption|].
    apply safe_obind. eapply Conc.safe_weaken; [|apply safe_fc_process with (l0 := l0); assumption].
    intros [u|] l' Hx; [|exact I]. unfold optQ in Hx. destruct Hx as [Hc' Hs']. apply IH; assumption.
  Qed.

  Lemma safe_is_published t r l (Pq : bool -> tview -> Prop) : (forall b, Pq b l) ->
    forall fuel p, safe t (kis_published fuel r p) l (optQ Pq).
  Proof.
    intros HQ. induction fuel as [|fu IH]; intros p; cbn [is_published]; [exact I|].
    destruct p as [|q]; [apply HQ|]. destruct (Nat.eqb q r); [apply HQ|]. neu. apply IH.
  Qed.

  Lemma safe_compact2 t : forall fuel pp p l l0, Comb l -> same_cl l0 l ->
    safe t (kcompact2 fuel pp p) l (optQ (fun _ l' => Comb l' /\ same_cl l0 l')).
  Proof.
    induction fuel as [|fu IH]; intros pp p l l0 Hc Hs; cbn [compact2]; [exact I|].
    destruct p as [|r]; [apply safe_ret; split; assumption|].
    apply safe_ld_state_cand.
    - intros v Hv. cbn [vn]. destruct (Nat.eqb_spec v st_removed); [contradiction|]. neu. apply IH; assumption.
    - cbn [vn]. rewrite Nat.eqb_refl.
      assert (Hc' : Comb (vcand l (Some r))) by exact Hc. assert (Hs' : same_cl l0 (vcand l (Some r))) by exact Hs.
      apply safe_obind.
      assert (Hk : forall pub, safe t (if pub : bool then Act (@a_ld (St S) (Res S) P r FNextA) (fun n => kcompact2 fu r (vn n))
                                else Act (@a_ld (St S) (Res S) P r FNextA) (fun nx =>
                                     Act (@a_cas_free (St S) (Res S) rs0 P pp (Datatypes.S r) (vn nx) r) (fun v =>
                                     if Nat.eqb (vn v) (Datatypes.S r) then kcompact2 fu pp (vn nx)
                                     else match vn v with
                                          | O => @fail (St S) (Res S) P unit
                                          | Datatypes.S r' => Act (@a_ld (St S) (Res S) P r' FNextA) (fun n => kcompact2 fu r' (vn n))
                                          end)))
                           (vcand l (Some r)) (optQ (fun _ l' => Comb l' /\ same_cl l0 l'))).
      { intros [|].
        - neu. apply IH; assumption.
        - neu. apply safe_cas_free with (victim := r); [apply Hc'|reflexivity|]. intros v1.
          destruct (Nat.eqb (vn v1) (Datatypes.S r)); [apply IH; assumption|].
          destruct (vn v1) as [|r']; [exact I|]. neu. apply IH; assumption. }
      destruct chk.
      + neu. eapply Conc.safe_weaken; [|apply safe_is_published with (Pq := fun b l' => l' = vcand l (Some r)); reflexivity].
        intros [pub|] l' Hx; [|exact I]. unfold optQ in Hx. subst l'. apply Hk.
      + apply (Hk false).
  Qed.

  Lemma safe_compact1 t age mask l (Pq : bool -> tview -> Prop) : (forall b, Pq b l) ->
    forall fuel pp p, safe t (kcompact1 fuel age mask pp p) l (optQ Pq).
  Proof.
    intros HQ. induction fuel as [|fu IH]; intros pp p; cbn [compact1]; [exact I|].
    destruct p as [|r]; [apply HQ|]. neu. destruct (Nat.eqb (vn v) st_active).
    - neu. destruct (Nat.ltb (vn v0 + mask) age).
      + neu. neu. destruct (Nat.eqb (vn v2) (Datatypes.S r)); [neu; apply IH|].
        destruct (vn v2) as [|r']; [exact I|]. neu. apply IH.
      + neu. apply IH.
    - destruct (Nat.eqb (vn v) st_removed).
      + neu. neu. destruct (Nat.eqb (vn v1) (Datatypes.S r)); [apply IH|apply HQ].
      + neu. apply IH.
  Qed.

  Lemma safe_compact_list t fuel age mask : forall tries l l0, Comb l -> same_cl l0 l ->
    safe t (kcompact_list tries fuel age mask) l (optQ (fun _ l' => Comb l' /\ same_cl l0 l')).
  Proof.
    induction tries as [|tr IH]; intros l l0 Hc Hs; cbn [compact_list]; [exact I|].
    neu. apply safe_obind.
    eapply Conc.safe_weaken; [|apply safe_compact1 with (Pq := fun b l' => l' = l); reflexivity].
    intros [fin|] l' Hx; [|exact I]. unfold optQ in Hx. subst l'. destruct fin; [|apply IH; assumption].
    neu. apply safe_compact2; assumption.
  Qed.

  Lemma safe_combining t fuel mask npass batch l l0 : Comb l -> same_cl l0 l ->
    safe t (kcombining fuel mask npass batch) l (optQ (fun _ l' => Comb l' /\ same_cl l0 l')).
  Proof.
    intros Hc Hs. unfold combining. neu. apply safe_obind.
    assert (Hend : forall l', Comb l' -> same_cl l0 l' ->
              safe t (if Nat.eqb (Nat.land (Datatypes.S (vn v)) mask) 0 then kcompact_list fuel fuel (Datatypes.S (vn v)) mask
                      else @ret (St S) (Res S) P unit tt) l' (optQ (fun _ l'' => Comb l'' /\ same_cl l0 l''))).
    { intros l' Hc' Hs'. destruct (Nat.eqb (Nat.land (Datatypes.S (vn v)) mask) 0); [apply safe_compact_list; assumption|apply safe_ret; split; assumption]. }
    destruct batch.
    - apply safe_obind. eapply Conc.safe_weaken; [|apply safe_process_passes with (l0 := l0); assumption].
      intros [u|] l' Hx; [|exact I]. unfold optQ in Hx. destruct Hx as [Hc' Hs'].
      apply safe_obind. eapply Conc.safe_weaken; [|apply safe_cpass with (l0 := l0); assumption].
      intros [b|] l'' Hx; [|exact I]. unfold optQ in Hx. destruct Hx as [Hc'' Hs''].
      apply safe_ret. apply Hend; assumption.
    - eapply Conc.safe_weaken; [|apply safe_passes with (l0 := l0); assumption].
      intros [u|] l' Hx; [|exact I]. unfold optQ in Hx. destruct Hx as [Hc' Hs']. apply Hend; assumption.
  Qed.
  (** the client side: a thread outside the combiner role *)
  Definition Out (l : tview) : Prop := v_lk l = LNone /\ v_fin l = [].

  Lemma safe_unlock_seq t l l0 : v_lk l = LInside -> v_fin l = [] -> same_cl l0 l ->
    forall (Pq : unit -> tview -> Prop), (forall l', Out l' -> same_cl l0 l' -> Pq tt l') ->
    safe t (Emit [EvCli "unlock" []] (Act (@a_unlock (St S) (Res S) P) (fun _ => @ret (St S) (Res S) P unit tt))) l (optQ Pq).
  Proof.
    intros Hlk Hfin Hs Pq HQ. apply safe_emit_unlock; [exact Hlk|exact Hfin|].
    apply safe_unlock; [reflexivity|]. intros v. apply safe_ret. apply HQ; [split; [reflexivity|exact Hfin]|exact Hs].
  Qed.

  Lemma safe_as_combiner t fuel mask npass batch r l l0 : v_lk l = LHeld -> v_fin l = [] -> same_cl l0 l ->
    safe t (@as_combiner (St S) (Res S) rs0 rs_enc capply P pinit pvisit chk fuel mask npass batch r) l
         (optQ (fun _ l' => Out l' /\ same_cl l0 l')).
  Proof.
    intros Hlk Hfin Hs. unfold as_combiner. apply safe_emit_lock; [exact Hlk|].
    apply safe_obind. apply safe_republish. apply safe_obind.
    eapply Conc.safe_weaken; [|apply safe_combining with (l0 := l0); [split; [reflexivity|exact Hfin]|exact Hs]].
    intros [u|] l' Hx; [|exact I]. unfold optQ in Hx. destruct Hx as [[Hlk' Hfin'] Hs'].
    apply safe_unlock_seq with (l0 := l0); auto.
  Qed.

  Lemma safe_wait t pfuel r : forall fuel l l0, Out l -> same_cl l0 l ->
    safe t (kwait fuel pfuel r) l
         (optQ (fun served l' => same_cl l0 l' /\ v_fin l' = [] /\ v_lk l' = if served : bool then LNone else LInside)).
  Proof.
    induction fuel as [|fu IH]; intros l l0 [Hlk Hfin] Hs; cbn [wait_for_combining]; [exact I|].
    neu. destruct (Nat.eqb (vn v) req_Response); [apply safe_ret; repeat split; try apply Hs; assumption|].
    apply safe_obind. apply safe_republish.
    apply safe_xchg.
    - cbn [vn Nat.eqb]. apply IH; [split; assumption|assumption].
    - cbn [vn Nat.eqb]. apply safe_emit_lock; [reflexivity|]. neu.
      destruct (Nat.eqb (vn v0) req_Response).
      + apply safe_emit_unlock; [reflexivity|exact Hfin|]. apply safe_unlock; [reflexivity|]. intros v1.
        apply safe_ret. repeat split; try apply Hs. exact Hfin.
      + apply safe_ret. repeat split; try apply Hs. exact Hfin.
  Qed.

  Lemma safe_try t fuel mask npass batch r l l0 : Out l -> same_cl l0 l ->
    safe t (ktry fuel mask npass batch r) l (optQ (fun _ l' => Out l' /\ same_cl l0 l')).
  Proof.
    intros [Hlk Hfin] Hs. unfold try_combining. apply safe_xchg.
    - cbn [vn Nat.eqb]. apply safe_obind.
      eapply Conc.safe_weaken; [|apply safe_wait with (l0 := l0); [split; assumption|assumption]].
      intros [served|] l' Hx; [|exact I]. unfold optQ in Hx. destruct Hx as (Hs' & Hfin' & Hlk').
      destruct served; [apply safe_ret; split; [split; assumption|assumption]|].
      apply safe_obind. apply safe_republish. apply safe_obind.
      eapply Conc.safe_weaken; [|apply safe_combining with (l0 := l0); [split; assumption|exact Hs']].
      intros [u|] l'' Hx; [|exact I]. unfold optQ in Hx. destruct Hx as [[Hlk'' Hfin''] Hs''].
      apply safe_unlock_seq with (l0 := l0); auto.
    - cbn [vn Nat.eqb]. apply safe_as_combiner; [reflexivity|exact Hfin|exact Hs].
  Qed.

  Lemma safe_acquire t fuel my l : v_my l = my ->
    safe t (kacquire fuel my) l (optQ (fun r l' => l' = vmy l (Some r))).
  Proof.
    intros Hm. destruct my as [r|]; cbn [acquire_record].
    - assert (El : l = vmy l (Some r)) by (destruct l; cbn in *; subst; reflexivity).
      neu. destruct (Nat.eqb (vn v) st_active); [apply safe_ret; exact El|].
      apply safe_obind. apply safe_publish. apply safe_ret. exact El.
    - apply safe_new; [exact Hm|]. intros r. cbn [vn]. neu. apply safe_obind. apply safe_push_loop; [right; reflexivity|].
      apply safe_obind. apply safe_publish. apply safe_ret. reflexivity.
  Qed.

  Definition Idle_at (my : option nat) (l : tview) : Prop := v_my l = my /\ v_ph l = PIdle /\ Out l.

  Lemma safe_krequest t fuel mask npass batch my op arg l : okop op = true -> Idle_at my l ->
    safe t (krequest fuel mask npass batch t my op arg) l (optQ (fun r l' => Idle_at (Some r) l')).
  Proof.
    intros Hok (Hm & Hp & Ho). unfold request.
    apply safe_emit_inv; [exact Hp|exact Hok|].
    apply safe_obind. eapply Conc.safe_weaken; [|apply safe_acquire; exact Hm].
    intros [r|] l' Hx; [|exact I]. unfold optQ in Hx. subst l'.
    apply safe_request with (op := op) (arg := arg); [reflexivity|reflexivity|]. intros v.
    apply safe_obind.
    eapply Conc.safe_weaken; [|apply safe_try with (l0 := vph (vmy (vph l (PInv op arg)) (Some r)) (PWait op arg)); [exact Ho|apply same_cl_refl]].
    intros [u|] l' Hx; [|exact I]. unfold optQ in Hx. destruct Hx as [Ho' [Hm' Hp']]. cbn in Hm', Hp'.
    apply safe_release with (op := op) (arg := arg); [exact Hm'|exact Hp'|]. intros rs.
    apply safe_emit_ret with (op := op) (arg := arg); [reflexivity|]. apply safe_ret.
    repeat split; try apply Ho'. exact Hm'.
  Qed.

  Lemma safe_kexit t my l : Idle_at my l -> safe t (kexit my) l (optQ (fun _ l' => Idle_at None l')).
  Proof.
    intros (Hm & Hp & Ho). destruct my as [r|]; cbn [thread_exit].
    - apply safe_exit; [exact Hm|exact Hp|]. intros v. apply safe_ret. repeat split; try apply Ho. exact Hp.
    - apply safe_ret. repeat split; try apply Ho; assumption.
  Qed.

  Definition cop_ok (o : cop) : Prop := match o with CReq _ op _ => okop op = true | CExit => True end.

  Lemma safe_run_ops t fuel mask npass : forall os my l, Forall cop_ok os -> Idle_at my l ->
    safe t (krun_ops fuel mask npass t my os) l (optQ (fun _ _ => True)).
  Proof.
    induction os as [|o os IH]; intros my l Hall Hi; cbn [run_ops].
    - eapply Conc.safe_weaken; [|apply safe_kexit; exact Hi]. intros [u|] l' Hx; exact I.
    - inversion Hall as [|? ? Ho Hall']; subst. destruct o as [batch op arg|].
      + apply safe_obind. eapply Conc.safe_weaken; [|apply safe_krequest; [exact Ho|exact Hi]].
        intros [r|] l' Hx; [|exact I]. unfold optQ in Hx. apply IH; assumption.
      + apply safe_obind. eapply Conc.safe_weaken; [|apply safe_kexit; exact Hi].
        intros [u|] l' Hx; [|exact I]. unfold optQ in Hx. apply IH; assumption.
  Qed.

  Lemma safe_emit_quiet R t name (k : prog R) l Q :
    name <> "inv" -> name <> "exec" -> name <> "ret" -> name <> "lock" -> name <> "unlock" -> name <> "free" ->
    safe t k l Q -> safe t (Emit [EvCli name []] k) l Q.
  Proof.
    intros N1 N2 N3 N4 N5 N6 K. cbn [Conc.safe]. intros g a tr [HL HR] Hv. exists a.
    split; [|split; [apply frame_refl|rewrite Hv; exact K]].
    assert (E : forall n, name <> n -> String.eqb name n = false) by (intros n Hn; apply String.eqb_neq; exact Hn).
    split.
    - apply LkInv_quiet; [exact HL|]. intros h. cbn. unfold mon_step, is_ev, is_cli; cbn.
      rewrite (E _ N4), (E _ N5), (E _ N2), (E _ N6). reflexivity.
    - destruct HR as [Hl|HR]; [left; apply lost_mono; exact Hl|right]. apply Rest_trace; [exact HR|].
      cbn. unfold annot1; cbn. rewrite (E _ N1), (E _ N2), (E _ N3). reflexivity.
  Qed.

  Lemma safe_kthread t fuel mask npass os l : Forall cop_ok os -> Idle_at None l ->
    safe t (kthread_prog fuel mask npass t os) l (@Conc.QTrue tview).
  Proof.
    intros Hall Hi. unfold thread_prog. neu. apply Conc.safe_bind.
    eapply Conc.safe_weaken; [|apply safe_run_ops; eassumption].
    intros [u|] l' _; [exact I|]. apply safe_emit_quiet; try discriminate. exact I.
  Qed.
  (** ** every reachable configuration *)
  Definition aux0 : aux :=
    mkAux (fun _ => None) (fun _ => PIdle) (fun _ => LNone) (fun _ => []) (fun _ => []) (fun _ => None) (fun _ => [])
          (fun _ => Idle).

  Notation kthread_progs := (@thread_progs (St S) (Res S) rs0 rs_enc capply P pinit pvisit chk).
  Notation kinit_cfg := (@init_cfg (St S) (Res S) rs0 rs_enc capply P pinit pvisit chk).

  Lemma nth_error_thread_progs fuel mask npass : forall ths t0 i p,
    nth_error (kthread_progs fuel mask npass t0 ths) i = Some p ->
    exists os, nth_error ths i = Some os /\ p = kthread_prog fuel mask npass (t0 + i) os.
  Proof.
    induction ths as [|os ths IH]; intros t0 i p H; cbn [thread_progs] in H; [destruct i; discriminate|].
    destruct i as [|i]; cbn in H.
    - inversion H; subst. exists os. split; [reflexivity|]. rewrite Nat.add_0_r. reflexivity.
    - destruct (IH _ _ _ H) as (os' & A & B). exists os'. split; [exact A|]. rewrite B. f_equal. lia.
  Qed.

  Definition ops_ok (ths : list (list cop)) : Prop := Forall (Forall cop_ok) ths.

  Lemma init_ok fuel mask npass ths : ops_ok ths ->
    Conc.cfg_ok view Inv (kinit_cfg fuel mask npass (sinit S) ths).
  Proof.
    intros Hok. exists aux0. split.
    - split.
      + split.
        * intros _ t. reflexivity.
        * intros t t' H. exfalso; apply H; reflexivity.
        * exists None. split; [reflexivity|]. intros t. cbn. split; discriminate.
      + right. split.
        * intros t t' r H. discriminate.
        * intros t r H. discriminate.
        * intros r _. cbn. unfold st_removed. discriminate.
        * intros r H. cbn in H. unfold st_removed in H. discriminate.
        * intros t r H. discriminate.
        * intros r H. cbn in H. unfold req_Operation in H. lia.
        * intros t. unfold phase_ok; cbn. split; [reflexivity|discriminate].
        * intros t q o x [].
        * intros t q [].
        * reflexivity.
        * intros t e [].
        * intros t. constructor.
    - intros t p Hp. cbn [kinit_cfg Conc.threads] in Hp. destruct (nth_error_thread_progs _ _ _ _ _ _ Hp) as (os & A & ->).
      cbn [Nat.add]. apply safe_kthread.
      + eapply Forall_forall in Hok; [exact Hok|]. eapply nth_error_In; exact A.
      + repeat split.
  Qed.

  (** Part A: for every schedule (every sequence of thread choices), any number of threads, any client
      programs made of requests (through combine or batch_combine) and thread exits:
      - the combiner lock is taken by at most one thread at a time, and requests are executed and records
        freed only by the thread holding it (the trace monitor [mon] never fails);
      - as long as no record is released with its request unanswered, the trace annotated with
        "execution by the combiner = linearization point" is a valid LP-trace of the container's
        sequential specification. *)
  Theorem fc_partA fuel mask npass ths c :
    ops_ok ths -> Conc.reach (kinit_cfg fuel mask npass (sinit S) ths) c ->
    (exists h, mon None (Conc.trace c) = Some h) /\
    (has_lost (Conc.trace c) = false -> lp_valid S (annot (Conc.trace c))).
  Proof.
    intros Hok Hr. destruct (Conc.reach_Inv (init_ok fuel mask npass Hok) Hr) as (a & [HL HR]).
    split.
    - destruct HL as [_ _ (h & Hm & _)]. exists h. exact Hm.
    - intros Hnl. destruct HR as [Hl|HR]; [congruence|]. eexists. apply (r_lp HR).
  Qed.
End KProofs.
