(** * WeakRingBuffer<T> is an exact SPSC FIFO: for every schedule of producer and consumer, every capacity,
      every client program.

    Ghost sequences are read off the trace: [pushed_of tr] = concatenation of the arguments of the
    "push_ok" events, [popped_of tr] = the same for "pop_ok".  Both events are emitted in the very step of the
    store that publishes / releases the elements, so |pushed_of tr| = back_ and |popped_of tr| = front_ at
    every instant ([i_lenP], [i_lenQ]).

    Invariant (Owicki-Gries with per-thread views, rule Conc.safe):
      pfront_ <= front_ <= cback_ <= back_ <= pfront_ + capacity,
      cells [front_, back_) hold pushed_of[front_ ..], popped_of = pushed_of[0 .. front_),
      while the producer sits between its copy loop and back_.store the cells [back_, back_+n) hold the batch
      and back_+n <= pfront_+capacity; while the consumer sits between its reads and front_.store the values it
      holds are pushed_of[front_ .. front_+n) and front_+n <= cback_. *)
From Coq Require Import ZArith List String Bool Lia PeanoNat.
From LV Require Import Base.Conc Base.Events Model.Ring Proofs.RingBase.
Import ListNotations.
Local Open Scope Z_scope.

(** ** ghost sequences of a trace *)
Definition cli_args (name : string) (e : ev) : list Z :=
  match e with EvCli n args => if String.eqb n name then args else [] | _ => [] end.

Fixpoint collect (name : string) (tr : list (nat * ev)) : list Z :=
  match tr with
  | [] => []
  | (_, e) :: r => cli_args name e ++ collect name r
  end.

Definition pushed_of := collect "push_ok".
Definition popped_of := collect "pop_ok".

Lemma collect_app name tr tr' : collect name (tr ++ tr') = collect name tr ++ collect name tr'.
Proof.
  induction tr as [|[t e] r IH]; cbn [collect app]; [reflexivity|]. rewrite IH, app_assoc. reflexivity.
Qed.

Lemma collect_snoc name tr t e : collect name (tr ++ [(t, e)]) = collect name tr ++ cli_args name e.
Proof. rewrite collect_app. cbn [collect]. rewrite app_nil_r. reflexivity. Qed.

(** number of elements in the ring according to the trace = back_ - front_ at that instant *)
Definition qsize (tr : list (nat * ev)) : Z := zlen (pushed_of tr) - zlen (popped_of tr).

(** what every response event must satisfy w.r.t. the trace before it (= the state at the instant of the
    atomic access that decided the response; the response is emitted in the same step) *)
Definition Phi (cap : Z) (tr1 : list (nat * ev)) (t : nat) (e : ev) : Prop :=
  match e with
  | EvCli name args =>
      (name = "push_fail"%string -> forall n, args = [n] -> cap - qsize tr1 < n) /\
      (name = "pop_fail"%string -> forall n, args = [n] -> qsize tr1 < n) /\
      (name = "front_null"%string -> qsize tr1 < 1) /\
      (name = "front_ok"%string -> forall v, args = [v] ->
         znth (pushed_of tr1) (zlen (popped_of tr1)) = Some v) /\
      (name = "size"%string -> forall n, args = [n] -> 0 <= n <= cap) /\
      (name = "popfront_fail"%string -> False)
  | _ => True
  end.

Inductive phase := Idle | PWrote (vals : list Z) | CHold (vals : list Z).
(** thread-local knowledge: [lv_loc] = pfront_ / cback_, [lv_mine] = the counter this thread owns (back_ /
    front_), [lv_rem] = number of elements the producer may still push (wrap-around budget) *)
Record lview := mkL { lv_loc : Z; lv_mine : Z; lv_rem : Z; lv_ph : phase }.
Record Aux := mkA { pv : lview; cv : lview }.
Definition view (a : Aux) (t : nat) : lview :=
  match t with O => pv a | S O => cv a | _ => mkL 0 0 0 Idle end.

Section Ring.
  Variables (exp2 : bool) (cap : Z).
  Hypothesis Hcap : cap_ok exp2 cap = true.

  Lemma cap_pos : 1 <= cap.
  Proof. unfold cap_ok in Hcap. apply andb_prop in Hcap. destruct Hcap as [H _]. apply Z.leb_le in H. exact H. Qed.

  Record Inv (g : G) (a : Aux) (tr : list (nat * ev)) : Prop := mkInv {
    i_minep : lv_mine (pv a) = g_back g;
    i_minec : lv_mine (cv a) = g_front g;
    i_chain : 0 <= lv_loc (pv a) /\ lv_loc (pv a) <= g_front g /\ g_front g <= lv_loc (cv a) /\
              lv_loc (cv a) <= g_back g /\ g_back g <= lv_loc (pv a) + cap;
    i_bound : 0 <= lv_rem (pv a) /\ g_back g + lv_rem (pv a) + cap < two64;
    i_lenP : zlen (pushed_of tr) = g_back g;
    i_lenQ : zlen (popped_of tr) = g_front g;
    i_pre : forall i, 0 <= i < g_front g -> znth (popped_of tr) i = znth (pushed_of tr) i;
    i_cells : forall i, g_front g <= i < g_back g ->
                znth (pushed_of tr) i = Some (g_cells g (idx exp2 cap i));
    i_pw : forall vals, lv_ph (pv a) = PWrote vals ->
             g_back g + zlen vals <= lv_loc (pv a) + cap /\ zlen vals <= lv_rem (pv a) /\
             forall j, 0 <= j < zlen vals -> znth vals j = Some (g_cells g (idx exp2 cap (g_back g + j)));
    i_ch : forall vals, lv_ph (cv a) = CHold vals ->
             g_front g + zlen vals <= lv_loc (cv a) /\
             forall j, 0 <= j < zlen vals -> znth vals j = znth (pushed_of tr) (g_front g + j);
    i_hist : hist_ok (Phi cap) tr
  }.

  Notation safe := (@Conc.safe G V ev Aux lview view Inv).

  (** ** memory lemmas *)
  Lemma write_cells_spec vals : forall g b,
    0 <= b -> b + zlen vals < two64 -> zlen vals <= cap ->
    let g' := write_cells exp2 cap g b vals in
    g_front g' = g_front g /\ g_back g' = g_back g /\
    (forall j, 0 <= j < zlen vals -> znth vals j = Some (g_cells g' (idx exp2 cap (b + j)))) /\
    (forall x, (forall j, 0 <= j < zlen vals -> x <> idx exp2 cap (b + j)) -> g_cells g' x = g_cells g x).
  Proof.
    induction vals as [|v r IH]; intros g b Hb Hw Hn; cbn [write_cells].
    - cbn. repeat split; auto. intros j Hj. unfold zlen in Hj. cbn in Hj. lia.
    - assert (Hl : zlen (v :: r) = 1 + zlen r) by (unfold zlen; cbn [List.length]; lia).
      pose proof (zlen_nonneg r) as Hr.
      rewrite Hl in *. rewrite u64_small by lia.
      destruct (IH (set_cell g (idx exp2 cap b) v) (b + 1) ltac:(lia) ltac:(lia) ltac:(lia))
        as (F & B & W & U).
      cbn zeta. split; [rewrite F; reflexivity|]. split; [rewrite B; reflexivity|]. split.
      + intros j Hj. destruct (Z.eq_dec j 0) as [->|Hj0].
        * rewrite znth_cons_0. rewrite Z.add_0_r. rewrite U.
          -- cbn. rewrite Z.eqb_refl. reflexivity.
          -- intros j' Hj'. apply idx_inj_window; auto; lia.
        * rewrite znth_cons_S by lia. rewrite W by lia. do 3 f_equal. lia.
      + intros x Hx. rewrite U.
        * cbn. destruct (Z.eqb_spec x (idx exp2 cap b)) as [E|E]; [|reflexivity].
          exfalso. apply (Hx 0 ltac:(lia)). rewrite Z.add_0_r. exact E.
        * intros j Hj. replace (b + 1 + j) with (b + (1 + j)) by lia. apply Hx. lia.
  Qed.

  Lemma read_cells_spec g n : forall f,
    0 <= f -> f + Z.of_nat n < two64 ->
    zlen (read_cells exp2 cap g f n) = Z.of_nat n /\
    forall j, 0 <= j < Z.of_nat n ->
      znth (read_cells exp2 cap g f n) j = Some (g_cells g (idx exp2 cap (f + j))).
  Proof.
    induction n as [|n IH]; intros f Hf Hw; cbn [read_cells].
    - split; [reflexivity|]. intros j Hj. lia.
    - rewrite u64_small by lia. destruct (IH (f + 1) ltac:(lia) ltac:(lia)) as (L & R). split.
      + unfold zlen in *. cbn [List.length]. lia.
      + intros j Hj. destruct (Z.eq_dec j 0) as [->|Hj0].
        * rewrite znth_cons_0, Z.add_0_r. reflexivity.
        * rewrite znth_cons_S by lia. rewrite R by lia. do 3 f_equal. lia.
  Qed.

  (** ** invariant preservation, one lemma per kind of step *)

  (** an event that is neither push_ok nor pop_ok and satisfies [Phi] *)
  Lemma Inv_neutral g a tr t e :
    Inv g a tr -> cli_args "push_ok" e = [] -> cli_args "pop_ok" e = [] -> Phi cap tr t e ->
    Inv g a (tr ++ [(t, e)]).
  Proof.
    intros I E1 E2 HP. destruct I.
    constructor; unfold pushed_of, popped_of in *; rewrite ?collect_snoc, ?E1, ?E2, ?app_nil_r; auto.
    apply hist_ok_snoc; assumption.
  Qed.

  Lemma Inv_acc g a tr t k o ok : Inv g a tr -> Inv g a (tr ++ [(t, EvAcc k o ok)]).
  Proof. intros I. apply Inv_neutral; auto. exact Logic.I. Qed.

  (** producer: copy loop *)
  Lemma Inv_prod_write g a tr pf b R pf' vals :
    Inv g a tr -> pv a = mkL pf b R Idle -> zlen vals <= R ->
    pf <= pf' -> pf' <= g_front g -> g_back g + zlen vals <= pf' + cap ->
    Inv (write_cells exp2 cap g (g_back g) vals) (mkA (mkL pf' b R (PWrote vals)) (cv a)) tr.
  Proof.
    intros I Hpv Hn H1 H2 H3. destruct I. rewrite Hpv in *. cbn [lv_loc lv_mine lv_rem lv_ph] in *.
    pose proof (zlen_nonneg vals) as Hv.
    destruct (write_cells_spec vals g (g_back g) ltac:(lia) ltac:(lia) ltac:(lia)) as (F & B & W & U).
    assert (Hold : forall i, g_front g <= i < g_back g ->
              g_cells (write_cells exp2 cap g (g_back g) vals) (idx exp2 cap i) = g_cells g (idx exp2 cap i)).
    { intros i Hi. apply U. intros j Hj. apply idx_inj_window; auto; lia. }
    constructor; cbn [pv cv lv_loc lv_mine lv_rem lv_ph]; rewrite ?F, ?B; auto; try lia.
    - intros i Hi. rewrite Hold by lia. auto.
    - intros vals' E. inversion E; subst vals'. repeat split; try lia. exact W.
  Qed.

  (** producer: pfront_ = front_.load() without anything else *)
  Lemma Inv_prod_reload g a tr pf b R R' :
    Inv g a tr -> pv a = mkL pf b R Idle -> 0 <= R' <= R ->
    Inv g (mkA (mkL (g_front g) b R' Idle) (cv a)) tr.
  Proof.
    intros I Hpv HR. destruct I. rewrite Hpv in *. cbn [lv_loc lv_mine lv_rem lv_ph] in *.
    constructor; cbn [pv cv lv_loc lv_mine lv_rem lv_ph]; auto; try lia.
    intros vals E. discriminate.
  Qed.

  (** producer: back_.store( back + n ) together with its "push_ok" event *)
  Lemma Inv_prod_store g a tr pf b R vals :
    Inv g a tr -> pv a = mkL pf b R (PWrote vals) ->
    Inv (set_back g (b + zlen vals)) (mkA (mkL pf (b + zlen vals) (R - zlen vals) Idle) (cv a))
        (tr ++ [(0%nat, EvCli "push_ok" vals)]).
  Proof.
    intros I Hpv. destruct I. rewrite Hpv in *. cbn [lv_loc lv_mine lv_rem lv_ph] in *.
    destruct (i_pw0 vals eq_refl) as (W1 & W2 & W3).
    pose proof (zlen_nonneg vals) as Hv. subst b.
    constructor; cbn [pv cv lv_loc lv_mine lv_rem lv_ph set_back g_front g_back g_cells];
      unfold pushed_of, popped_of in *; rewrite ?collect_snoc; cbn [cli_args String.eqb Ascii.eqb Bool.eqb];
      rewrite ?app_nil_r; auto; try lia.
    - rewrite zlen_app. lia.
    - intros i Hi. rewrite znth_app1 by lia. auto.
    - intros i Hi. destruct (Z.lt_ge_cases i (g_back g)) as [Hlt|Hge].
      + rewrite znth_app1 by lia. apply i_cells0. lia.
      + rewrite znth_app2 by lia. rewrite i_lenP0. rewrite W3 by lia. do 3 f_equal. lia.
    - intros vals' E. discriminate.
    - intros vals' E. destruct (i_ch0 vals' E) as (C1 & C2). split; [exact C1|].
      intros j Hj. rewrite znth_app1 by lia. auto.
    - apply hist_ok_snoc; [assumption|]. cbn. repeat split; intros; discriminate.
  Qed.

  (** consumer: cback_ = back_.load() *)
  Lemma Inv_cons_reload g a tr cb f r ph :
    Inv g a tr -> cv a = mkL cb f r ph ->
    Inv g (mkA (pv a) (mkL (g_back g) f r ph)) tr.
  Proof.
    intros I Hcv. destruct I. rewrite Hcv in *. cbn [lv_loc lv_mine lv_rem lv_ph] in *.
    constructor; cbn [pv cv lv_loc lv_mine lv_rem lv_ph]; auto; try lia.
    intros vals E. destruct (i_ch0 vals E) as (C1 & C2). split; [lia|exact C2].
  Qed.

  (** consumer: the read loop *)
  Lemma Inv_cons_hold g a tr cb f r n :
    Inv g a tr -> cv a = mkL cb f r Idle -> f + Z.of_nat n <= cb ->
    Inv g (mkA (pv a) (mkL cb f r (CHold (read_cells exp2 cap g f n)))) tr.
  Proof.
    intros I Hcv Hn. destruct I. rewrite Hcv in *. cbn [lv_loc lv_mine lv_rem lv_ph] in *.
    destruct (read_cells_spec g n f ltac:(lia) ltac:(lia)) as (L & Rd).
    constructor; cbn [pv cv lv_loc lv_mine lv_rem lv_ph]; auto; try lia.
    intros vals E. inversion E; subst vals. rewrite L. split; [lia|].
    intros j Hj. rewrite Rd by lia. symmetry. subst f. apply i_cells0. lia.
  Qed.

  (** consumer: front_.store( front + n ) together with its "pop_ok" event *)
  Lemma Inv_cons_store g a tr cb f r vals :
    Inv g a tr -> cv a = mkL cb f r (CHold vals) ->
    Inv (set_front g (f + zlen vals)) (mkA (pv a) (mkL cb (f + zlen vals) r Idle))
        (tr ++ [(1%nat, EvCli "pop_ok" vals)]).
  Proof.
    intros I Hcv. destruct I. rewrite Hcv in *. cbn [lv_loc lv_mine lv_rem lv_ph] in *.
    destruct (i_ch0 vals eq_refl) as (C1 & C2).
    pose proof (zlen_nonneg vals) as Hv. subst f.
    constructor; cbn [pv cv lv_loc lv_mine lv_rem lv_ph set_front g_front g_back g_cells];
      unfold pushed_of, popped_of in *; rewrite ?collect_snoc; cbn [cli_args String.eqb Ascii.eqb Bool.eqb];
      rewrite ?app_nil_r; auto; try lia.
    - rewrite zlen_app. lia.
    - intros i Hi. destruct (Z.lt_ge_cases i (g_front g)) as [Hlt|Hge].
      + rewrite znth_app1 by lia. apply i_pre0. lia.
      + rewrite znth_app2 by lia. rewrite i_lenQ0. rewrite C2 by lia. f_equal. lia.
    - intros i Hi. apply i_cells0. lia.
    - intros vals' E. discriminate.
    - apply hist_ok_snoc; [assumption|]. cbn. repeat split; intros; discriminate.
  Qed.

  (** ** the operations are safe *)
  Definition upd_pv (a : Aux) (l : lview) : Aux := mkA l (cv a).
  Definition upd_cv (a : Aux) (l : lview) : Aux := mkA (pv a) l.

  Lemma frame_p a l : Conc.frame view 0 a (mkA l (cv a)).
  Proof. intros t' Ht. destruct t' as [|[|t']]; [congruence| |]; reflexivity. Qed.
  Lemma frame_c a l : Conc.frame view 1 a (mkA (pv a) l).
  Proof. intros t' Ht. destruct t' as [|[|t']]; [|congruence|]; reflexivity. Qed.
  Lemma frame_refl t a : Conc.frame view t a a.
  Proof. intros t' Ht. reflexivity. Qed.

  Lemma space_lt_false pf back n :
    0 <= pf + cap - back < two64 -> space_lt cap pf back n = false -> back + n <= pf + cap.
  Proof. unfold space_lt. intros H E. rewrite u64_small in E by exact H. apply Z.ltb_ge in E. lia. Qed.
  Lemma space_lt_true pf back n :
    0 <= pf + cap - back < two64 -> space_lt cap pf back n = true -> pf + cap - back < n.
  Proof. unfold space_lt. intros H E. rewrite u64_small in E by exact H. apply Z.ltb_lt in E. lia. Qed.
  Lemma avail_lt_false cb f n :
    0 <= cb - f < two64 -> avail_lt cb f n = false -> f + n <= cb.
  Proof. unfold avail_lt. intros H E. rewrite u64_small in E by exact H. apply Z.ltb_ge in E. lia. Qed.
  Lemma avail_lt_true cb f n :
    0 <= cb - f < two64 -> avail_lt cb f n = true -> cb - f < n.
  Proof. unfold avail_lt. intros H E. rewrite u64_small in E by exact H. apply Z.ltb_lt in E. lia. Qed.

  Definition Qp (R : Z) : Z -> lview -> Prop :=
    fun pf l => exists b, l = mkL pf b R Idle.

  (** the final store of a push *)
  Lemma safe_st_back pf b R vals (Q : Z -> lview -> Prop) r :
    Q r (mkL pf (b + zlen vals) (R - zlen vals) Idle) ->
    safe 0 (Act (a_st_back (u64 (b + zlen vals)) vals) (fun _ => Ret r)) (mkL pf b R (PWrote vals)) Q.
  Proof.
    intros HQ. cbn [Conc.safe]. intros g a tr I Hv. cbn [view] in Hv.
    unfold a_st_back. cbn [fst snd].
    pose proof (zlen_nonneg vals) as Hn.
    assert (Hb : u64 (b + zlen vals) = b + zlen vals).
    { destruct I. rewrite Hv in *. cbn [lv_loc lv_mine lv_rem lv_ph] in *.
      destruct (i_pw0 vals eq_refl) as (W1 & W2 & _). apply u64_small. lia. }
    rewrite Hb.
    exists (mkA (mkL pf (b + zlen vals) (R - zlen vals) Idle) (cv a)).
    split; [|split; [apply frame_p|exact HQ]].
    unfold Conc.tag. cbn [map].
    change (tr ++ [(0%nat, EvAcc KSt obj_back true); (0%nat, EvCli "push_ok" vals)])
      with (tr ++ [(0%nat, EvAcc KSt obj_back true)] ++ [(0%nat, EvCli "push_ok" vals)]).
    rewrite app_assoc. apply Inv_prod_store with (pf := pf) (R := R); [|exact Hv].
    apply Inv_acc. exact I.
  Qed.

  Lemma tag1 t (e : ev) : Conc.tag t [e] = [(t, e)].
  Proof. reflexivity. Qed.
  Lemma tag2 t (e1 e2 : ev) tr : tr ++ Conc.tag t [e1; e2] = (tr ++ [(t, e1)]) ++ [(t, e2)].
  Proof. unfold Conc.tag. cbn [map]. rewrite <- app_assoc. reflexivity. Qed.

  Lemma Phi_push_fail g a tr t n :
    Inv g a tr -> g_front g + cap - g_back g < n -> Phi cap tr t (EvCli "push_fail" [n]).
  Proof.
    intros I H. destruct I. cbn. repeat split; intros; try discriminate.
    match goal with E : [_] = [_] |- _ => inversion E; subst end.
    unfold qsize. lia.
  Qed.

  (** pfront_ = front_.load(); second test; copy loop; store *)
  Lemma safe_push_reload pf b R vals :
    zlen vals <= R ->
    safe 0 (Act (a_push_ld_front exp2 cap b vals) (fun r2 =>
              let pf' := fst r2 in
              if space_lt cap pf' b (zlen vals) then Ret pf'
              else Act (a_st_back (u64 (b + zlen vals)) vals) (fun _ => Ret pf')))
         (mkL pf b R Idle) (Qp (R - zlen vals)).
  Proof.
    intros HR. cbn [Conc.safe]. intros g a tr I Hv. cbn [view] in Hv.
    pose proof (zlen_nonneg vals) as Hn.
    pose proof I as I'. destruct I'. rewrite Hv in *. cbn [lv_loc lv_mine lv_rem lv_ph] in *.
    unfold a_push_ld_front. subst b.
    assert (Hrng : 0 <= g_front g + cap - g_back g < two64) by lia.
    destruct (space_lt cap (g_front g) (g_back g) (zlen vals)) eqn:Hs; cbn [fst snd].
    - (* still no space: return false *)
      pose proof Hs as Hs0. apply space_lt_true in Hs; [|exact Hrng].
      exists (mkA (mkL (g_front g) (g_back g) (R - zlen vals) Idle) (cv a)).
      split; [|split; [apply frame_p|]].
      + rewrite tag2. apply Inv_neutral; try reflexivity.
        * apply Inv_acc. eapply Inv_prod_reload; eauto. lia.
        * eapply Phi_push_fail; [apply Inv_acc; exact I|exact Hs].
      + rewrite Hs0. cbn. eexists. reflexivity.
    - pose proof Hs as Hs0. apply space_lt_false in Hs; [|exact Hrng].
      exists (mkA (mkL (g_front g) (g_back g) R (PWrote vals)) (cv a)).
      split; [|split; [apply frame_p|]].
      + rewrite tag1. apply Inv_acc. eapply Inv_prod_write; eauto; lia.
      + rewrite Hs0. cbn [view pv]. apply safe_st_back. eexists. reflexivity.
  Qed.

  Lemma safe_push_n pf b R vals :
    zlen vals <= R ->
    safe 0 (push_n exp2 cap pf vals) (mkL pf b R Idle) (Qp (R - zlen vals)).
  Proof.
    intros HR. unfold push_n. cbn [Conc.safe]. intros g a tr I Hv. cbn [view] in Hv.
    pose proof (zlen_nonneg vals) as Hn.
    pose proof I as I'. destruct I'. rewrite Hv in *. cbn [lv_loc lv_mine lv_rem lv_ph] in *.
    unfold a_push_ld_back. cbn [fst snd]. subst b.
    assert (Hrng : 0 <= pf + cap - g_back g < two64) by lia.
    destruct (space_lt cap pf (g_back g) (zlen vals)) eqn:Hs.
    - (* the cached pfront_ shows no space: reload *)
      exists a. split; [rewrite tag1; apply Inv_acc; exact I|]. split; [apply frame_refl|].
      cbn [view]. rewrite Hv. apply safe_push_reload. exact HR.
    - apply space_lt_false in Hs; [|exact Hrng].
      exists (mkA (mkL pf (g_back g) R (PWrote vals)) (cv a)).
      split; [|split; [apply frame_p|]].
      + rewrite tag1. apply Inv_acc. eapply Inv_prod_write; eauto; lia.
      + cbn [view pv]. apply safe_st_back. eexists. reflexivity.
  Qed.

  (** *** consumer *)
  Definition Qc (r : Z) : Z -> lview -> Prop :=
    fun cb l => exists f, l = mkL cb f r Idle.

  Lemma safe_st_front cb f r vals (Q : Z -> lview -> Prop) ret :
    Q ret (mkL cb (f + zlen vals) r Idle) ->
    safe 1 (Act (a_st_front (u64 (f + zlen vals)) vals) (fun _ => Ret ret)) (mkL cb f r (CHold vals)) Q.
  Proof.
    intros HQ. cbn [Conc.safe]. intros g a tr I Hv. cbn [view] in Hv.
    unfold a_st_front. cbn [fst snd].
    pose proof (zlen_nonneg vals) as Hn.
    assert (Hb : u64 (f + zlen vals) = f + zlen vals).
    { destruct I. rewrite Hv in *. cbn [lv_loc lv_mine lv_rem lv_ph] in *.
      destruct (i_ch0 vals eq_refl) as (C1 & _). apply u64_small. lia. }
    rewrite Hb.
    exists (mkA (pv a) (mkL cb (f + zlen vals) r Idle)).
    split; [|split; [apply frame_c|exact HQ]].
    rewrite tag2. apply Inv_cons_store with (cb := cb) (r := r); [|exact Hv].
    apply Inv_acc. exact I.
  Qed.

  Lemma Phi_pop_fail g a tr t n :
    Inv g a tr -> g_back g - g_front g < n -> Phi cap tr t (EvCli "pop_fail" [n]).
  Proof.
    intros I H. destruct I. cbn. repeat split; intros; try discriminate.
    match goal with E : [_] = [_] |- _ => inversion E; subst end.
    unfold qsize. lia.
  Qed.

  Lemma Phi_front_null g a tr t :
    Inv g a tr -> g_back g - g_front g < 1 -> Phi cap tr t (EvCli "front_null" []).
  Proof.
    intros I H. destruct I. cbn. repeat split; intros; try discriminate. unfold qsize. lia.
  Qed.

  Lemma read_cells_1 g f : 0 <= f < two64 -> read_cells exp2 cap g f 1 = [g_cells g (idx exp2 cap f)].
  Proof. reflexivity. Qed.

  Lemma Phi_front_ok g a tr t :
    Inv g a tr -> g_front g < g_back g ->
    Phi cap tr t (EvCli "front_ok" (read_cells exp2 cap g (g_front g) 1)).
  Proof.
    intros I H. destruct I. cbn. repeat split; intros; try discriminate.
    match goal with E : [_] = [_] |- _ => inversion E; subst end.
    rewrite i_lenQ0. apply i_cells0. lia.
  Qed.

  (** pop( arr, n ): the reload branch *)
  Lemma safe_pop_reload cb f r n :
    safe 1 (Act (a_cons_ld_back exp2 cap f (Z.of_nat n) n no_ev (EvCli "pop_fail" [Z.of_nat n])) (fun r2 =>
              let cb' := fst r2 in
              if avail_lt cb' f (Z.of_nat n) then Ret cb'
              else Act (a_st_front (u64 (f + Z.of_nat n)) (snd r2)) (fun _ => Ret cb')))
         (mkL cb f r Idle) (Qc r).
  Proof.
    cbn [Conc.safe]. intros g a tr I Hv. cbn [view] in Hv.
    pose proof I as I'. destruct I'. rewrite Hv in *. cbn [lv_loc lv_mine lv_rem lv_ph] in *.
    unfold a_cons_ld_back. subst f.
    assert (Hrng : 0 <= g_back g - g_front g < two64) by lia.
    destruct (avail_lt (g_back g) (g_front g) (Z.of_nat n)) eqn:Hs; cbn [fst snd]; pose proof Hs as Hs0.
    - apply avail_lt_true in Hs; [|exact Hrng].
      exists (mkA (pv a) (mkL (g_back g) (g_front g) r Idle)).
      split; [|split; [apply frame_c|]].
      + rewrite tag2. apply Inv_neutral; try reflexivity.
        * apply Inv_acc. eapply Inv_cons_reload; eauto.
        * eapply Phi_pop_fail; [apply Inv_acc; exact I|exact Hs].
      + rewrite Hs0. cbn. eexists. reflexivity.
    - apply avail_lt_false in Hs; [|exact Hrng].
      exists (mkA (pv a) (mkL (g_back g) (g_front g) r (CHold (read_cells exp2 cap g (g_front g) n)))).
      split; [|split; [apply frame_c|]].
      + unfold no_ev. rewrite tag1. apply Inv_acc.
        apply (Inv_cons_hold g (mkA (pv a) (mkL (g_back g) (g_front g) r Idle)) tr (g_back g) (g_front g) r n);
          [eapply Inv_cons_reload; eauto|reflexivity|lia].
      + rewrite Hs0. cbn [view cv].
        destruct (read_cells_spec g n (g_front g) ltac:(lia) ltac:(lia)) as (L & _).
        rewrite <- L. apply safe_st_front. rewrite L. eexists. reflexivity.
  Qed.

  Lemma safe_pop_n cb f r n : safe 1 (pop_n exp2 cap cb n) (mkL cb f r Idle) (Qc r).
  Proof.
    unfold pop_n. cbn [Conc.safe]. intros g a tr I Hv. cbn [view] in Hv.
    pose proof I as I'. destruct I'. rewrite Hv in *. cbn [lv_loc lv_mine lv_rem lv_ph] in *.
    unfold a_cons_ld_front. subst f.
    assert (Hrng : 0 <= cb - g_front g < two64) by lia.
    destruct (avail_lt cb (g_front g) (Z.of_nat n)) eqn:Hs; cbn [fst snd]; pose proof Hs as Hs0.
    - exists a. split; [rewrite tag1; apply Inv_acc; exact I|]. split; [apply frame_refl|].
      rewrite Hs0. cbn [view]. rewrite Hv. apply safe_pop_reload.
    - apply avail_lt_false in Hs; [|exact Hrng].
      exists (mkA (pv a) (mkL cb (g_front g) r (CHold (read_cells exp2 cap g (g_front g) n)))).
      split; [|split; [apply frame_c|]].
      + unfold no_ev. rewrite tag1. apply Inv_acc. eapply Inv_cons_hold; eauto.
      + rewrite Hs0. cbn [view cv].
        destruct (read_cells_spec g n (g_front g) ltac:(lia) ltac:(lia)) as (L & _).
        rewrite <- L. apply safe_st_front. rewrite L. eexists. reflexivity.
  Qed.

  (** front() as used by the stand-alone "front" operation: nothing stays pending *)
  Definition Qpeek_free (r : Z) : Z * option (list Z) -> lview -> Prop :=
    fun res l => exists f, l = mkL (fst res) f r Idle.

  Lemma safe_peek_free_reload cb f r :
    safe 1 (Act (a_cons_ld_back exp2 cap f 1 1 (fun vals => [EvCli "front_ok" vals]) (EvCli "front_null" [])) (fun r2 =>
              let cb' := fst r2 in
              if avail_lt cb' f 1 then Ret (cb', None) else Ret (cb', Some (snd r2))))
         (mkL cb f r Idle) (Qpeek_free r).
  Proof.
    cbn [Conc.safe]. intros g a tr I Hv. cbn [view] in Hv.
    pose proof I as I'. destruct I'. rewrite Hv in *. cbn [lv_loc lv_mine lv_rem lv_ph] in *.
    unfold a_cons_ld_back. subst f.
    assert (Hrng : 0 <= g_back g - g_front g < two64) by lia.
    destruct (avail_lt (g_back g) (g_front g) 1) eqn:Hs; cbn [fst snd]; pose proof Hs as Hs0.
    - apply avail_lt_true in Hs; [|exact Hrng].
      exists (mkA (pv a) (mkL (g_back g) (g_front g) r Idle)).
      split; [|split; [apply frame_c|]].
      + rewrite tag2. apply Inv_neutral; try reflexivity.
        * apply Inv_acc. eapply Inv_cons_reload; eauto.
        * eapply Phi_front_null; [apply Inv_acc; exact I|exact Hs].
      + rewrite Hs0. cbn. eexists. reflexivity.
    - apply avail_lt_false in Hs; [|exact Hrng].
      exists (mkA (pv a) (mkL (g_back g) (g_front g) r Idle)).
      split; [|split; [apply frame_c|]].
      + rewrite tag2. apply Inv_neutral; try reflexivity.
        * apply Inv_acc. eapply Inv_cons_reload; eauto.
        * eapply Phi_front_ok; [apply Inv_acc; exact I|lia].
      + rewrite Hs0. cbn. eexists. reflexivity.
  Qed.

  Lemma safe_peek_free cb f r :
    safe 1 (peek exp2 cap cb (fun vals => [EvCli "front_ok" vals]) (EvCli "front_null" []))
         (mkL cb f r Idle) (Qpeek_free r).
  Proof.
    unfold peek. cbn [Conc.safe]. intros g a tr I Hv. cbn [view] in Hv.
    pose proof I as I'. destruct I'. rewrite Hv in *. cbn [lv_loc lv_mine lv_rem lv_ph] in *.
    unfold a_cons_ld_front. subst f.
    assert (Hrng : 0 <= cb - g_front g < two64) by lia.
    destruct (avail_lt cb (g_front g) 1) eqn:Hs; cbn [fst snd]; pose proof Hs as Hs0.
    - exists a. split; [rewrite tag1; apply Inv_acc; exact I|]. split; [apply frame_refl|].
      rewrite Hs0. cbn [view]. rewrite Hv. apply safe_peek_free_reload.
    - apply avail_lt_false in Hs; [|exact Hrng].
      exists a. split; [|split; [apply frame_refl|]].
      + rewrite tag2. apply Inv_neutral; try reflexivity.
        * apply Inv_acc. exact I.
        * eapply Phi_front_ok; [apply Inv_acc; exact I|lia].
      + rewrite Hs0. cbn [view]. rewrite Hv. cbn. eexists. reflexivity.
  Qed.

  (** front() inside "front + pop_front": the value read stays pending until pop_front's store *)
  Definition Qpeek_hold (r : Z) : Z * option (list Z) -> lview -> Prop :=
    fun res l => exists f,
      match snd res with
      | Some vals => l = mkL (fst res) f r (CHold vals) /\ zlen vals = 1
      | None => l = mkL (fst res) f r Idle
      end.

  Lemma safe_peek_hold_reload cb f r :
    safe 1 (Act (a_cons_ld_back exp2 cap f 1 1 no_ev (EvCli "pop_fail" [1])) (fun r2 =>
              let cb' := fst r2 in
              if avail_lt cb' f 1 then Ret (cb', None) else Ret (cb', Some (snd r2))))
         (mkL cb f r Idle) (Qpeek_hold r).
  Proof.
    cbn [Conc.safe]. intros g a tr I Hv. cbn [view] in Hv.
    pose proof I as I'. destruct I'. rewrite Hv in *. cbn [lv_loc lv_mine lv_rem lv_ph] in *.
    unfold a_cons_ld_back. subst f.
    assert (Hrng : 0 <= g_back g - g_front g < two64) by lia.
    destruct (avail_lt (g_back g) (g_front g) 1) eqn:Hs; cbn [fst snd]; pose proof Hs as Hs0.
    - apply avail_lt_true in Hs; [|exact Hrng].
      exists (mkA (pv a) (mkL (g_back g) (g_front g) r Idle)).
      split; [|split; [apply frame_c|]].
      + rewrite tag2. apply Inv_neutral; try reflexivity.
        * apply Inv_acc. eapply Inv_cons_reload; eauto.
        * eapply Phi_pop_fail; [apply Inv_acc; exact I|exact Hs].
      + rewrite Hs0. cbn. eexists. reflexivity.
    - apply avail_lt_false in Hs; [|exact Hrng].
      exists (mkA (pv a) (mkL (g_back g) (g_front g) r (CHold (read_cells exp2 cap g (g_front g) 1)))).
      split; [|split; [apply frame_c|]].
      + unfold no_ev. rewrite tag1. apply Inv_acc.
        apply (Inv_cons_hold g (mkA (pv a) (mkL (g_back g) (g_front g) r Idle)) tr (g_back g) (g_front g) r 1);
          [eapply Inv_cons_reload; eauto|reflexivity|lia].
      + rewrite Hs0. cbn. eexists. split; reflexivity.
  Qed.

  Lemma safe_peek_hold cb f r :
    safe 1 (peek exp2 cap cb no_ev (EvCli "pop_fail" [1])) (mkL cb f r Idle) (Qpeek_hold r).
  Proof.
    unfold peek. cbn [Conc.safe]. intros g a tr I Hv. cbn [view] in Hv.
    pose proof I as I'. destruct I'. rewrite Hv in *. cbn [lv_loc lv_mine lv_rem lv_ph] in *.
    unfold a_cons_ld_front. subst f.
    assert (Hrng : 0 <= cb - g_front g < two64) by lia.
    destruct (avail_lt cb (g_front g) 1) eqn:Hs; cbn [fst snd]; pose proof Hs as Hs0.
    - exists a. split; [rewrite tag1; apply Inv_acc; exact I|]. split; [apply frame_refl|].
      rewrite Hs0. cbn [view]. rewrite Hv. apply safe_peek_hold_reload.
    - apply avail_lt_false in Hs; [|exact Hrng].
      exists (mkA (pv a) (mkL cb (g_front g) r (CHold (read_cells exp2 cap g (g_front g) 1)))).
      split; [|split; [apply frame_c|]].
      + unfold no_ev. rewrite tag1. apply Inv_acc. eapply Inv_cons_hold; eauto.
      + rewrite Hs0. cbn. eexists. split; reflexivity.
  Qed.

  (** pop_front() right after front() returned an element: the reload branch is dead *)
  Lemma safe_pop_front cb f r vals :
    zlen vals = 1 ->
    safe 1 (pop_front exp2 cap cb vals) (mkL cb f r (CHold vals)) (Qc r).
  Proof.
    intros Hl. unfold pop_front. cbn [Conc.safe]. intros g a tr I Hv. cbn [view] in Hv.
    pose proof I as I'. destruct I'. rewrite Hv in *. cbn [lv_loc lv_mine lv_rem lv_ph] in *.
    destruct (i_ch0 vals eq_refl) as (C1 & _). rewrite Hl in C1.
    unfold a_cons_ld_front. subst f.
    assert (Hs : avail_lt cb (g_front g) 1 = false).
    { unfold avail_lt. rewrite u64_small by lia. apply Z.ltb_ge. lia. }
    rewrite Hs. cbn [fst snd]. rewrite Hs.
    exists a. split; [unfold no_ev; rewrite tag1; apply Inv_acc; exact I|]. split; [apply frame_refl|].
    cbn [view]. rewrite Hv. rewrite <- Hl. apply safe_st_front. rewrite Hl. eexists. reflexivity.
  Qed.

  (** *** size() and empty() *)
  Lemma Phi_trivial tr t name args :
    name <> "push_fail"%string -> name <> "pop_fail"%string -> name <> "front_null"%string ->
    name <> "front_ok"%string -> name <> "size"%string -> name <> "popfront_fail"%string ->
    Phi cap tr t (EvCli name args).
  Proof. intros. cbn. repeat split; intros; congruence. Qed.

  Lemma Phi_size tr t n : 0 <= n <= cap -> Phi cap tr t (EvCli "size" [n]).
  Proof.
    intros H. cbn. repeat split; intros; try discriminate;
      match goal with E : [_] = [_] |- _ => inversion E; subst end; lia.
  Qed.

  Lemma safe_size_p l : safe 0 size_op l (fun _ l' => l' = l).
  Proof.
    unfold size_op. cbn [Conc.safe]. intros g a tr I Hv. cbn [view] in Hv.
    unfold a_ld_back. cbn [fst snd]. exists a. split; [rewrite tag1; apply Inv_acc; exact I|].
    split; [apply frame_refl|]. cbn [view]. rewrite Hv.
    assert (Hb : g_back g = lv_mine l) by (destruct I; rewrite <- Hv; auto).
    rewrite Hb. clear g a tr I Hv Hb.
    intros g a tr I Hv. cbn [view] in Hv. unfold a_ld_front. cbn [fst snd].
    exists a. split; [|split; [apply frame_refl|cbn [view]; rewrite Hv; reflexivity]].
    rewrite tag2. apply Inv_neutral; try reflexivity; [apply Inv_acc; exact I|].
    apply Phi_size. destruct I. rewrite Hv in *. rewrite i_minep0.
    rewrite u64_small; lia.
  Qed.

  Lemma safe_size_c l : safe 1 size_op l (fun _ l' => l' = l).
  Proof.
    unfold size_op. cbn [Conc.safe]. intros g a tr I Hv. cbn [view] in Hv.
    unfold a_ld_back. cbn [fst snd]. exists a. split; [rewrite tag1; apply Inv_acc; exact I|].
    split; [apply frame_refl|]. cbn [view]. rewrite Hv.
    assert (Hb : lv_mine l <= g_back g <= lv_mine l + cap /\ g_back g < two64 /\ 0 <= lv_mine l).
    { destruct I. rewrite <- Hv. rewrite i_minec0. lia. }
    revert Hb. generalize (g_back g). intros b Hb. clear g a tr I Hv.
    intros g a tr I Hv. cbn [view] in Hv. unfold a_ld_front. cbn [fst snd].
    exists a. split; [|split; [apply frame_refl|cbn [view]; rewrite Hv; reflexivity]].
    rewrite tag2. apply Inv_neutral; try reflexivity; [apply Inv_acc; exact I|].
    apply Phi_size. destruct I. rewrite Hv in *. rewrite <- i_minec0.
    rewrite u64_small; lia.
  Qed.

  Lemma safe_empty t l : safe t empty_op l (fun _ l' => l' = l).
  Proof.
    unfold empty_op. cbn [Conc.safe]. intros g a tr I Hv.
    unfold a_ld_front. cbn [fst snd]. exists a. split; [rewrite tag1; apply Inv_acc; exact I|].
    split; [apply frame_refl|]. rewrite Hv. generalize (g_front g). intros f0. clear g a tr I Hv.
    intros g a tr I Hv. unfold a_ld_back. cbn [fst snd].
    exists a. split; [|split; [apply frame_refl|rewrite Hv; reflexivity]].
    rewrite tag2. apply Inv_neutral; try reflexivity; [apply Inv_acc; exact I|].
    apply Phi_trivial; discriminate.
  Qed.

  Lemma safe_emit t e (k : prog Z) l (Q : Z -> lview -> Prop) :
    cli_args "push_ok" e = [] -> cli_args "pop_ok" e = [] -> (forall tr, Phi cap tr t e) ->
    safe t k l Q -> safe t (Emit [e] k) l Q.
  Proof.
    intros E1 E2 HP Hk. cbn [Conc.safe]. intros g a tr I Hv. exists a.
    split; [rewrite tag1; apply Inv_neutral; auto|]. split; [apply frame_refl|]. rewrite Hv. exact Hk.
  Qed.

  (** *** client programs *)
  Definition vol_op (o : pop_) : Z :=
    match o with PPush vals => zlen vals | PPush1 _ => 1 | PEnqWith _ => 1 | _ => 0 end.
  Fixpoint vol (os : list pop_) : Z :=
    match os with [] => 0 | o :: r => vol_op o + vol r end.

  Lemma vol_nonneg os : 0 <= vol os.
  Proof.
    induction os as [|o r IH]; cbn [vol]; [lia|].
    assert (0 <= vol_op o) by (destruct o; cbn; try lia; apply zlen_nonneg). lia.
  Qed.

  Lemma safe_do_push pf b R vals :
    zlen vals <= R -> safe 0 (do_push exp2 cap pf vals) (mkL pf b R Idle) (Qp (R - zlen vals)).
  Proof.
    intros H. unfold do_push. apply safe_emit; try reflexivity.
    - intros tr. apply Phi_trivial; discriminate.
    - apply safe_push_n. exact H.
  Qed.

  Lemma safe_run_pop pf b R o :
    vol_op o <= R -> safe 0 (run_pop exp2 cap pf o) (mkL pf b R Idle) (Qp (R - vol_op o)).
  Proof.
    intros H. destruct o as [vals|v|v| |]; cbn [run_pop vol_op] in *.
    - apply safe_do_push. exact H.
    - apply (safe_do_push pf b R [v]). exact H.
    - apply (safe_do_push pf b R [v]). exact H.
    - unfold do_size. apply safe_emit; try reflexivity; [intros tr; apply Phi_trivial; discriminate|].
      apply Conc.safe_bind. eapply Conc.safe_weaken; [|apply safe_size_p].
      intros _ l' ->. cbn. exists b. f_equal. lia.
    - unfold do_empty. apply safe_emit; try reflexivity; [intros tr; apply Phi_trivial; discriminate|].
      apply Conc.safe_bind. eapply Conc.safe_weaken; [|apply safe_empty].
      intros _ l' ->. cbn. exists b. f_equal. lia.
  Qed.

  Lemma safe_run_pops os : forall pf b R,
    vol os <= R -> safe 0 (run_pops exp2 cap pf os) (mkL pf b R Idle) (@Conc.QTrue lview).
  Proof.
    induction os as [|o r IH]; intros pf b R H; cbn [run_pops vol] in *; [exact Logic.I|].
    pose proof (vol_nonneg r) as Hr.
    apply Conc.safe_bind. eapply Conc.safe_weaken; [|apply safe_run_pop; lia].
    intros pf' l' (b' & ->). apply IH. lia.
  Qed.

  Lemma safe_do_pop cb f r n : safe 1 (do_pop exp2 cap cb n) (mkL cb f r Idle) (Qc r).
  Proof.
    unfold do_pop. apply safe_emit; try reflexivity.
    - intros tr. apply Phi_trivial; discriminate.
    - apply safe_pop_n.
  Qed.

  Lemma safe_run_cop cb f r o : safe 1 (run_cop exp2 cap cb o) (mkL cb f r Idle) (Qc r).
  Proof.
    destruct o as [n| | | | | |]; cbn [run_cop]; try apply safe_do_pop.
    - unfold do_front_pop. apply safe_emit; try reflexivity; [intros tr; apply Phi_trivial; discriminate|].
      apply Conc.safe_bind. eapply Conc.safe_weaken; [|apply safe_peek_hold].
      intros [cb' [vals|]] l' (f' & H); cbn [fst snd] in *.
      + destruct H as [-> Hl]. apply safe_pop_front. exact Hl.
      + subst l'. cbn. eexists. reflexivity.
    - unfold do_front. apply safe_emit; try reflexivity; [intros tr; apply Phi_trivial; discriminate|].
      apply Conc.safe_bind. eapply Conc.safe_weaken; [|apply safe_peek_free].
      intros res l' (f' & ->). cbn. eexists. reflexivity.
    - unfold do_size. apply safe_emit; try reflexivity; [intros tr; apply Phi_trivial; discriminate|].
      apply Conc.safe_bind. eapply Conc.safe_weaken; [|apply safe_size_c].
      intros _ l' ->. cbn. eexists. reflexivity.
    - unfold do_empty. apply safe_emit; try reflexivity; [intros tr; apply Phi_trivial; discriminate|].
      apply Conc.safe_bind. eapply Conc.safe_weaken; [|apply safe_empty].
      intros _ l' ->. cbn. eexists. reflexivity.
  Qed.

  Lemma safe_run_cops os : forall cb f r,
    safe 1 (run_cops exp2 cap cb os) (mkL cb f r Idle) (@Conc.QTrue lview).
  Proof.
    induction os as [|o rest IH]; intros cb f r; cbn [run_cops]; [exact Logic.I|].
    apply Conc.safe_bind. eapply Conc.safe_weaken; [|apply safe_run_cop].
    intros cb' l' (f' & ->). apply IH.
  Qed.

  Lemma safe_begin t (k : Conc.thread G V ev) l :
    safe t k l (@Conc.QTrue lview) -> safe t (Act a_begin (fun _ => k)) l (@Conc.QTrue lview).
  Proof.
    intros Hk. cbn [Conc.safe]. intros g a tr I Hv. unfold a_begin. cbn [fst snd].
    exists a. split; [rewrite tag1; apply Inv_acc; exact I|]. split; [apply frame_refl|].
    rewrite Hv. exact Hk.
  Qed.

  Lemma init_ok pos cos :
    vol pos + cap < two64 ->
    Conc.cfg_ok view Inv (init_cfg exp2 cap pos cos).
  Proof.
    intros Hvol. pose proof (vol_nonneg pos) as Hp. pose proof cap_pos as Hc.
    exists (mkA (mkL 0 0 (vol pos) Idle) (mkL 0 0 0 Idle)). split.
    - unfold two64 in *. cbn. constructor; cbn; try lia; try reflexivity; try (intros; discriminate); try (intros; lia).
      apply hist_ok_nil.
    - intros t p Hp'. cbn [init_cfg Conc.threads] in Hp'.
      destruct t as [|[|t]]; cbn in Hp'.
      + inversion Hp'; subst p. unfold producer. apply safe_begin. apply safe_run_pops. lia.
      + inversion Hp'; subst p. unfold consumer. apply safe_begin. apply safe_run_cops.
      + destruct t; discriminate.
  Qed.

  (** ** what the invariant says about every reachable configuration *)
  Lemma reach_Inv pos cos c :
    vol pos + cap < two64 -> Conc.reach (init_cfg exp2 cap pos cos) c ->
    exists a, Inv (Conc.shared c) a (Conc.trace c).
  Proof. intros Hvol Hr. eapply Conc.reach_Inv; [apply init_ok; exact Hvol|exact Hr]. Qed.

End Ring.

(** ** the theorems: every capacity >= 1 (a power of two when the buffer uses the mask), every client
       program whose total push volume stays below 2^64 - capacity, EVERY schedule *)
Section Theorems.
  Variables (exp2 : bool) (cap : Z) (pos : list pop_) (cos : list cop) (c : Conc.config G V ev).
  Hypothesis Hcap : cap_ok exp2 cap = true.
  Hypothesis Hvol : vol pos + cap < two64.
  Hypothesis Hreach : Conc.reach (init_cfg exp2 cap pos cos) c.

  (** the counters are exactly the lengths of the ghost sequences, and they are ordered *)
  Theorem ring_counters_exact :
    g_back (Conc.shared c) = zlen (pushed_of (Conc.trace c)) /\
    g_front (Conc.shared c) = zlen (popped_of (Conc.trace c)) /\
    0 <= g_front (Conc.shared c) <= g_back (Conc.shared c) /\
    g_back (Conc.shared c) <= g_front (Conc.shared c) + cap /\
    g_back (Conc.shared c) < two64.
  Proof.
    destruct (reach_Inv exp2 cap Hcap pos cos c Hvol Hreach) as (a & I). destruct I.
    pose proof (cap_pos exp2 cap Hcap). repeat split; try lia.
  Qed.

  (** FIFO, exactly once: the popped sequence is a prefix of the pushed sequence *)
  Theorem ring_fifo_exact :
    exists rest, pushed_of (Conc.trace c) = popped_of (Conc.trace c) ++ rest.
  Proof.
    destruct (reach_Inv exp2 cap Hcap pos cos c Hvol Hreach) as (a & I). destruct I.
    apply pointwise_prefix; [lia|]. intros i Hi. apply i_pre0. lia.
  Qed.

  (** the elements still in the ring are exactly the pushed-but-not-popped ones, in their cells *)
  Theorem ring_contents_exact :
    forall i, g_front (Conc.shared c) <= i < g_back (Conc.shared c) ->
      znth (pushed_of (Conc.trace c)) i = Some (g_cells (Conc.shared c) (idx exp2 cap i)).
  Proof.
    destruct (reach_Inv exp2 cap Hcap pos cos c Hvol Hreach) as (a & I). destruct I. exact i_cells0.
  Qed.

  Theorem ring_push_fails_only_if_no_space :
    forall tr1 t n tr2, Conc.trace c = tr1 ++ (t, EvCli "push_fail" [n]) :: tr2 ->
      cap - qsize tr1 < n.
  Proof.
    destruct (reach_Inv exp2 cap Hcap pos cos c Hvol Hreach) as (a & I). destruct I.
    intros tr1 t n tr2 E. specialize (i_hist0 _ _ _ _ E). cbn in i_hist0.
    destruct i_hist0 as (H & _). apply H; reflexivity.
  Qed.

  Theorem ring_pop_fails_only_if_too_few :
    forall tr1 t n tr2, Conc.trace c = tr1 ++ (t, EvCli "pop_fail" [n]) :: tr2 ->
      qsize tr1 < n.
  Proof.
    destruct (reach_Inv exp2 cap Hcap pos cos c Hvol Hreach) as (a & I). destruct I.
    intros tr1 t n tr2 E. specialize (i_hist0 _ _ _ _ E). cbn in i_hist0.
    destruct i_hist0 as (_ & H & _). apply H; reflexivity.
  Qed.

  Theorem ring_front_null_only_if_empty :
    forall tr1 t tr2, Conc.trace c = tr1 ++ (t, EvCli "front_null" []) :: tr2 -> qsize tr1 < 1.
  Proof.
    destruct (reach_Inv exp2 cap Hcap pos cos c Hvol Hreach) as (a & I). destruct I.
    intros tr1 t tr2 E. specialize (i_hist0 _ _ _ _ E). cbn in i_hist0.
    destruct i_hist0 as (_ & _ & H & _). apply H; reflexivity.
  Qed.

  (** front() returns the oldest element that has not been popped *)
  Theorem ring_front_exact :
    forall tr1 t v tr2, Conc.trace c = tr1 ++ (t, EvCli "front_ok" [v]) :: tr2 ->
      znth (pushed_of tr1) (zlen (popped_of tr1)) = Some v.
  Proof.
    destruct (reach_Inv exp2 cap Hcap pos cos c Hvol Hreach) as (a & I). destruct I.
    intros tr1 t v tr2 E. specialize (i_hist0 _ _ _ _ E). cbn in i_hist0.
    destruct i_hist0 as (_ & _ & _ & H & _). apply H; reflexivity.
  Qed.

  Theorem ring_size_in_bounds :
    forall tr1 t n tr2, Conc.trace c = tr1 ++ (t, EvCli "size" [n]) :: tr2 -> 0 <= n <= cap.
  Proof.
    destruct (reach_Inv exp2 cap Hcap pos cos c Hvol Hreach) as (a & I). destruct I.
    intros tr1 t n tr2 E. specialize (i_hist0 _ _ _ _ E). cbn in i_hist0.
    destruct i_hist0 as (_ & _ & _ & _ & H & _). apply H; reflexivity.
  Qed.

  (** pop_front() never fails right after front() returned an element *)
  Theorem ring_pop_front_after_front_succeeds :
    forall tr1 t args tr2, Conc.trace c <> tr1 ++ (t, EvCli "popfront_fail" args) :: tr2.
  Proof.
    destruct (reach_Inv exp2 cap Hcap pos cos c Hvol Hreach) as (a & I). destruct I.
    intros tr1 t args tr2 E. specialize (i_hist0 _ _ _ _ E). cbn in i_hist0.
    destruct i_hist0 as (_ & _ & _ & _ & _ & H). apply H; reflexivity.
  Qed.
End Theorems.
