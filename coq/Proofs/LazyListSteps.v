(** * LazyListSteps: every kind of atomic step of the LazyList model preserves the structural invariant [IS]. *)
From Coq Require Import ZArith List String Bool Lia PeanoNat.
From LV Require Import Base.Conc Base.Events.
From LV Require Import Model.LazyList Proofs.LazyListBase Proofs.LazyListInv.
Import ListNotations.
Local Open Scope Z_scope.

Definition same_list_fields (g g' : G) : Prop :=
  forall x, nkey (heap g' x) = nkey (heap g x) /\ nnext (heap g' x) = nnext (heap g x) /\ nmark (heap g' x) = nmark (heap g x).

Lemma gnext_same g g' succ : same_list_fields g g' -> forall x, gnext g' succ x = gnext g succ x.
Proof. intros H x. unfold gnext. destruct (succ x); auto. apply H. Qed.

(** steps that change at most lock fields: loads, lock acquisition / release, hazard-pointer traffic, counters *)
Lemma IS_soft g g' a t lv' L :
  IS g a L -> same_list_fields g g' -> nalloc g' = nalloc g ->
  (forall u n, u <> t -> holds (view a u) n -> heap g' n = heap g n) ->
  (forall u n k nx, u <> t -> lv_own (view a u) = Some (n, k, nx) -> heap g' n = heap g n) ->
  Forall (fact_ok g' (a_pub a)) (lv_facts lv') -> Forall (held_ok g' (a_pub a)) (lv_held lv') ->
  (forall u n, u <> t -> holds lv' n -> holds (view a u) n -> False) ->
  own_ok g' (a_pub a) (lv_own lv') -> lv_own lv' = lv_own (view a t) ->
  lv_hole lv' = lv_hole (view a t) ->
  (forall p c s, lv_hole lv' = Some (p, c, s) -> In (p, Some (c, false)) (lv_held lv') /\ holds lv' c) ->
  IS g' (mk_a a t (a_pub a) (a_succ a) lv') L.
Proof.
  intros H Hsame Hna Hheld Hown Hf Hh Hex Ho Hoe Hhe Hhole.
  apply (IS_step g g' a t (a_pub a) (a_succ a) lv' L L H); auto.
  - eapply chain_ext; [| |apply (s_chain _ _ _ H)].
    + intros x _. apply gnext_same. exact Hsame.
    + intros x _. apply kf_ext. intros y. apply Hsame.
  - apply (s_pubL _ _ _ H).
  - intros n Hn. destruct (Hsame n) as (K1 & K2 & K3). rewrite Hna, K2, K3. apply (s_pub _ _ _ H). exact Hn.
  - destruct (s_ends _ _ _ H) as (E1 & E2 & E3 & E4). destruct (Hsame HEAD) as (_ & _ & K1). destruct (Hsame TAIL) as (_ & K3 & K2).
    rewrite K1, K2, K3, Hna. auto.
  - intros c s E. destruct (s_succ _ _ _ H c s E) as (K1 & K2 & u & p & K3). destruct (Hsame c) as (_ & _ & J). rewrite J.
    repeat split; auto. destruct (Nat.eq_dec u t) as [->|Hu].
    + left. exists p. rewrite Hhe. exact K3.
    + right. exists u, p. auto.
  - intros n _. apply Hsame.
  - lia.
  - intros u n k nx Hu E. split; [eapply Hown; eauto|]. pose proof (s_own _ _ _ H u) as K. rewrite E in K. cbn in K. tauto.
  - intros u p c s Hu E. destruct (s_hole _ _ _ H u p c s E) as (K1 & _ & _ & K4 & _). auto.
  - intros u n k nx n' k' nx' Hu E1 E2. rewrite Hoe in E1.
    exact (s_disj _ _ _ H t u n k nx n' k' nx' (fun e => Hu (eq_sym e)) E1 E2).
  - intros p c s E. destruct (Hhole p c s E) as [J1 J2]. rewrite Hhe in E.
    destruct (s_hole _ _ _ H t p c s E) as (K1 & _ & _ & K4 & K5). auto 6.
Qed.

(** the fresh item: id [S (nalloc g)] *)
Definition alloc_g (g : G) (k : Z) : G :=
  mkG (upd_heap (heap g) (S (nalloc g)) (mkNode k 0 false false)) (S (nalloc g)) (count g).

Lemma heap_alloc_old g k x : (x <= nalloc g)%nat -> heap (alloc_g g k) x = heap g x.
Proof. intros H. unfold alloc_g, upd_heap; cbn. destruct (Nat.eqb_spec x (S (nalloc g))); [lia|reflexivity]. Qed.

Lemma pz_range g a L x : IS g a L -> pz (a_pub a) x -> (1 <= x <= nalloc g)%nat.
Proof.
  intros H [->|[->|Hx]]; destruct (s_ends _ _ _ H) as (_ & _ & E & _); unfold HEAD, TAIL; try lia.
  apply (pub_range _ _ _ _ H) in Hx. lia.
Qed.

Lemma held_range g a L t n : IS g a L -> holds (view a t) n -> (1 <= n <= nalloc g)%nat.
Proof.
  intros H [o Ho]. pose proof (s_held _ _ _ H t) as K. rewrite Forall_forall in K. specialize (K _ Ho).
  destruct K as (K & _). eapply pz_range; eauto.
Qed.

Lemma IS_alloc g a t lv' L k :
  IS g a L ->
  lv_facts lv' = lv_facts (view a t) -> lv_held lv' = lv_held (view a t) -> lv_hole lv' = lv_hole (view a t) ->
  lv_own lv' = Some (S (nalloc g), k, 0%nat) ->
  IS (alloc_g g k) (mk_a a t (a_pub a) (a_succ a) lv') L.
Proof.
  intros H Ef Eh Ehole Eo.
  assert (Hpub : forall x, pz (a_pub a) x -> heap (alloc_g g k) x = heap g x).
  { intros x Hx. apply heap_alloc_old. apply (pz_range _ _ _ _ H) in Hx. lia. }
  assert (HinC : forall x, In x (HEAD :: L ++ [TAIL]) -> heap (alloc_g g k) x = heap g x).
  { intros x Hx. apply Hpub. eapply chain_in_pz; eauto. }
  apply (IS_step g _ a t (a_pub a) (a_succ a) lv' L L H); auto.
  - eapply chain_ext; [| |apply (s_chain _ _ _ H)].
    + intros x Hx. unfold gnext. rewrite HinC; auto. destruct Hx as [<-|Hx]; [left; reflexivity|right; apply in_or_app; left; exact Hx].
    + intros x Hx. unfold kf. rewrite HinC; auto.
  - apply (s_pubL _ _ _ H).
  - intros n Hn. rewrite Hpub by (right; right; exact Hn). destruct (s_pub _ _ _ H n Hn) as (K1 & K2 & K3).
    cbn [alloc_g nalloc]. repeat split; auto; lia.
  - destruct (s_ends _ _ _ H) as (E1 & E2 & E3 & E4). rewrite !Hpub by (unfold pz; auto). cbn [alloc_g nalloc]. repeat split; auto.
  - intros c s E. destruct (s_succ _ _ _ H c s E) as (K1 & K2 & u & p & K3). rewrite Hpub by (right; right; exact K1).
    repeat split; auto. destruct (Nat.eq_dec u t) as [->|Hu].
    + left. exists p. rewrite Ehole. exact K3.
    + right. exists u, p. auto.
  - intros n Hn. rewrite Hpub by (right; right; exact Hn). reflexivity.
  - cbn. lia.
  - intros u n Hu Hn. apply heap_alloc_old. apply (held_range _ _ _ _ _ H) in Hn. lia.
  - intros u n k' nx Hu E. pose proof (s_own _ _ _ H u) as K. rewrite E in K. cbn in K. destruct K as (K1 & K2 & _).
    split; auto. apply heap_alloc_old. lia.
  - intros u p c s Hu E. destruct (s_hole _ _ _ H u p c s E) as (K1 & _ & _ & K4 & _). auto.
  - rewrite Ef. eapply Forall_impl; [|apply (s_facts _ _ _ H)]. intros [n k'] (K1 & K2). split; auto.
    rewrite Hpub by (right; right; exact K1). exact K2.
  - rewrite Eh. pose proof (s_held _ _ _ H t) as K. rewrite Forall_forall in *. intros e He. specialize (K e He).
    unfold held_ok in *. destruct K as (K1 & K2 & K3). rewrite Hpub by exact K1. auto.
  - intros u n Hu [o Ho] Hn. rewrite Eh in Ho. apply Hu. symmetry. eapply (s_excl _ _ _ H); eauto. exists o; exact Ho.
  - rewrite Eo. cbn [own_ok alloc_g nalloc heap]. unfold upd_heap. rewrite Nat.eqb_refl.
    destruct (s_ends _ _ _ H) as (_ & _ & E & _). repeat split; try lia.
    destruct (a_pub a (S (nalloc g))) eqn:Ep; auto. apply (pub_range _ _ _ _ H) in Ep. lia.
  - intros u n1 k1 nx1 n2 k2 nx2 Hu E1 E2. rewrite Eo in E1. inversion E1; subst.
    pose proof (s_own _ _ _ H u) as K. rewrite E2 in K. cbn in K. lia.
  - intros p c s E. rewrite Ehole in E. destruct (s_hole _ _ _ H t p c s E) as (K1 & K2 & K3 & K4 & K5).
    unfold holds in *. rewrite Eh. auto 6.
Qed.

(** ** stores to m_pNext *)
Definition set_obs (h : list (nat * obs)) (n : nat) (v : nat * bool) : list (nat * obs) :=
  map (fun e => if Nat.eqb (fst e) n then (n, Some v) else e) h.

Lemma set_obs_holds h n v x : (exists o, In (x, o) (set_obs h n v)) <-> (exists o, In (x, o) h).
Proof.
  unfold set_obs. split.
  - intros [o Ho]. apply in_map_iff in Ho. destruct Ho as ([y oy] & E & Hy). cbn [fst] in E.
    destruct (Nat.eqb_spec y n); inversion E; subst; eauto.
  - intros [o Ho]. destruct (Nat.eqb_spec x n) as [->|Hx].
    + exists (Some v). apply in_map_iff. exists (n, o). cbn [fst]. rewrite Nat.eqb_refl. auto.
    + exists o. apply in_map_iff. exists (x, o). cbn [fst]. destruct (Nat.eqb_spec x n); [contradiction|auto].
Qed.

Lemma set_obs_in_same h n v o : In (n, o) h -> In (n, Some v) (set_obs h n v).
Proof. intros H. unfold set_obs. apply in_map_iff. exists (n, o). cbn [fst]. rewrite Nat.eqb_refl. auto. Qed.

Lemma set_obs_in_other h n v x o : x <> n -> In (x, o) h -> In (x, o) (set_obs h n v).
Proof.
  intros Hx H. unfold set_obs. apply in_map_iff. exists (x, o). cbn [fst]. destruct (Nat.eqb_spec x n); [contradiction|auto].
Qed.

Lemma set_obs_ok g pub h n v :
  (forall e, In e h -> fst e <> n -> held_ok g pub e) ->
  (forall o, In (n, o) h -> pz pub n /\ nlock (heap g n) = true /\ nnext (heap g n) = fst v /\ nmark (heap g n) = snd v) ->
  Forall (held_ok g pub) (set_obs h n v).
Proof.
  intros H Hn. rewrite Forall_forall. intros e He. unfold set_obs in He. apply in_map_iff in He.
  destruct He as ([y oy] & E & Hy). cbn [fst] in E. destruct (Nat.eqb_spec y n) as [->|Hne]; subst e.
  - destruct (Hn _ Hy) as (K1 & K2 & K3 & K4). unfold held_ok. cbn [fst snd]. destruct v as [vx vm]. auto.
  - apply H; auto.
Qed.

Lemma held_ok_frame g g' pub pub' h :
  (forall x, pub x = true -> pub' x = true) ->
  (forall e, In e h -> heap g' (fst e) = heap g (fst e)) ->
  Forall (held_ok g pub) h -> Forall (held_ok g' pub') h.
Proof.
  intros Hp Hh H. rewrite Forall_forall in *. intros e He. specialize (H e He). unfold held_ok in *.
  rewrite (Hh e He). destruct H as ([K|[K|K]] & K2 & K3); repeat split; auto; unfold pz; auto.
Qed.

Lemma held_entry g a L t n o : IS g a L -> In (n, o) (lv_held (view a t)) -> held_ok g (a_pub a) (n, o).
Proof. intros H Hin. pose proof (s_held _ _ _ H t) as K. rewrite Forall_forall in K. apply K. exact Hin. Qed.

(** a store to the caller's own unlinked node *)
Lemma IS_own_store g a t lv' L n k nx p :
  IS g a L -> lv_own (view a t) = Some (n, k, nx) ->
  lv_facts lv' = lv_facts (view a t) -> lv_held lv' = lv_held (view a t) -> lv_hole lv' = lv_hole (view a t) ->
  lv_own lv' = Some (n, k, p) ->
  IS (set_next g n p false) (mk_a a t (a_pub a) (a_succ a) lv') L.
Proof.
  intros H Hown Ef Eh Ehole Eo.
  pose proof (s_own _ _ _ H t) as Kown. rewrite Hown in Kown. cbn [own_ok] in Kown. destruct Kown as (Kn & Knp & Knh).
  assert (Hpz : forall x, pz (a_pub a) x -> heap (set_next g n p false) x = heap g x).
  { intros x Hx. apply heap_set_next_other. destruct Hx as [->|[->|Hx]]; unfold HEAD, TAIL; try lia. congruence. }
  assert (HinC : forall x, In x (HEAD :: L ++ [TAIL]) -> heap (set_next g n p false) x = heap g x).
  { intros x Hx. apply Hpz. eapply chain_in_pz; eauto. }
  apply (IS_step g _ a t (a_pub a) (a_succ a) lv' L L H).
  - eapply chain_ext; [| |apply (s_chain _ _ _ H)].
    + intros x Hx. unfold gnext. rewrite HinC; auto. destruct Hx as [<-|Hx]; [left; reflexivity|right; apply in_or_app; left; exact Hx].
    + intros x Hx. unfold kf. rewrite HinC; auto.
  - auto.
  - apply (s_pubL _ _ _ H).
  - intros x Hx. rewrite Hpz by (right; right; exact Hx). apply (s_pub _ _ _ H). exact Hx.
  - destruct (s_ends _ _ _ H) as (E1 & E2 & E3 & E4). rewrite !Hpz by (unfold pz; auto). auto.
  - intros c s E. destruct (s_succ _ _ _ H c s E) as (K1 & K2 & u & q & K3). rewrite Hpz by (right; right; exact K1).
    repeat split; auto. destruct (Nat.eq_dec u t) as [->|Hu].
    + left. exists q. rewrite Ehole. exact K3.
    + right. exists u, q. auto.
  - intros x Hx. rewrite Hpz by (right; right; exact Hx). reflexivity.
  - cbn. lia.
  - intros u x Hu [o Ho]. apply Hpz. pose proof (held_entry _ _ _ _ _ _ H Ho) as K. apply K.
  - intros u x k' nx' Hu E. pose proof (s_own _ _ _ H u) as K. rewrite E in K. cbn in K. destruct K as (K1 & K2 & _).
    split; auto. apply heap_set_next_other.
    intros ->. exact (s_disj _ _ _ H t u n k nx n k' nx' (fun e => Hu (eq_sym e)) Hown E eq_refl).
  - intros u q c s Hu E. destruct (s_hole _ _ _ H u q c s E) as (K1 & _ & _ & K4 & _). auto.
  - rewrite Ef. eapply Forall_impl; [|apply (s_facts _ _ _ H)]. intros [x k'] (K1 & K2). split; auto.
    rewrite Hpz by (right; right; exact K1). exact K2.
  - rewrite Eh. eapply (held_ok_frame g _ (a_pub a) (a_pub a)); [auto| |apply (s_held _ _ _ H)].
    intros e He. apply Hpz. destruct e as [x o]. pose proof (held_entry _ _ _ _ _ _ H He) as K. apply K.
  - intros u x Hu [o Ho] Hn. rewrite Eh in Ho. apply Hu. symmetry. eapply (s_excl _ _ _ H); eauto. exists o; exact Ho.
  - rewrite Eo. cbn [own_ok]. rewrite heap_set_next_same, Knh. cbn. auto.
  - intros u n1 k1 nx1 n2 k2 nx2 Hu E1 E2. rewrite Eo in E1. inversion E1; subst.
    exact (s_disj _ _ _ H t u n1 k1 nx n2 k2 nx2 (fun e => Hu (eq_sym e)) Hown E2).
  - intros q c s E. rewrite Ehole in E. destruct (s_hole _ _ _ H t q c s E) as (K1 & K2 & K3 & K4 & K5).
    unfold holds in *. rewrite Eh. auto 6.
Qed.

Definition pub_add (pub : nat -> bool) (n : nat) : nat -> bool := fun x => if Nat.eqb x n then true else pub x.

(** link_node's second store: the caller's node [n] becomes the successor of [m] (whose lock the caller holds) *)
Lemma IS_link g a t lv' L m n k pc :
  IS g a L -> In (m, Some (pc, false)) (lv_held (view a t)) -> lv_own (view a t) = Some (n, k, pc) ->
  lv_hole (view a t) = None ->
  (pc = TAIL \/ a_pub a pc = true) ->
  elt (kf g m) (EKey k) -> elt (EKey k) (kf g pc) ->
  lv_facts lv' = FPub n k :: lv_facts (view a t) -> lv_held lv' = set_obs (lv_held (view a t)) m (n, false) ->
  lv_own lv' = None -> lv_hole lv' = None ->
  exists L', IS (set_next g m n false) (mk_a a t (pub_add (a_pub a) n) (a_succ a) lv') L' /\ ~ In n L /\
             (forall x, In x L' <-> x = n \/ In x L).
Proof.
  intros H Hm Hown Hhole Hpc Hk1 Hk2 Ef Eh Eo Ehole.
  pose proof (s_own _ _ _ H t) as Kown. rewrite Hown in Kown. cbn [own_ok] in Kown. destruct Kown as (Kn & Knp & Knh).
  destruct (held_entry _ _ _ _ _ _ H Hm) as (Hmz & Hml & Hmn & Hmm). cbn [fst snd] in *.
  destruct (s_ends _ _ _ H) as (E1 & E2 & E3 & E4).
  assert (HmT : m <> TAIL).
  { intros ->. rewrite E4 in Hmn. destruct Hpc as [->|Hp]; [discriminate|]. apply (pub_range _ _ _ _ H) in Hp. lia. }
  pose proof (pz_unmarked_in _ _ _ _ H Hmz HmT Hmm) as HmL.
  assert (HnC : ~ In n (HEAD :: L ++ [TAIL])).
  { intros Hx. apply (chain_in_pz _ _ _ _ H) in Hx. destruct Hx as [->|[->|Hx]]; unfold HEAD, TAIL in *; try lia. congruence. }
  assert (Hnm : n <> m) by (intros ->; apply HnC; destruct HmL as [<-|HmL]; [left; reflexivity|right; apply in_or_app; left; exact HmL]).
  set (g' := set_next g m n false).
  assert (Hkey : forall x, nkey (heap g' x) = nkey (heap g x)).
  { intros x. unfold g'. destruct (Nat.eq_dec x m) as [->|Hx]; [rewrite heap_set_next_same; reflexivity|now rewrite heap_set_next_other]. }
  assert (Hsm : a_succ a m = None) by (eapply succ_none_unmarked; eauto).
  assert (Hsn : a_succ a n = None).
  { destruct (a_succ a n) eqn:E; auto. apply (s_succ _ _ _ H) in E. destruct E as (E & _). congruence. }
  destruct (chain_insert HEAD TAIL (gnext g (a_succ a)) (gnext g' (a_succ a)) (kf g) L m n (s_chain _ _ _ H) HmL HnC) as (L' & Hch & HL').
  { unfold gnext. rewrite Hsm. unfold g'. rewrite heap_set_next_same. reflexivity. }
  { unfold gnext. rewrite Hsn, Hsm. unfold g'. rewrite heap_set_next_other by exact Hnm. rewrite Knh, Hmn. reflexivity. }
  { intros x Hxm Hxn. unfold gnext. unfold g'. rewrite heap_set_next_other by exact Hxm. reflexivity. }
  { replace (kf g n) with (EKey k); [exact Hk1|]. unfold kf. unfold HEAD, TAIL.
    destruct (Nat.eqb_spec n 1); [lia|]. destruct (Nat.eqb_spec n 2); [lia|]. rewrite Knh. reflexivity. }
  { replace (kf g n) with (EKey k).
    - unfold gnext. rewrite Hsm, Hmn. exact Hk2.
    - unfold kf. unfold HEAD, TAIL. destruct (Nat.eqb_spec n 1); [lia|]. destruct (Nat.eqb_spec n 2); [lia|]. rewrite Knh. reflexivity. }
  exists L'. split; [|split; [intros E; apply HnC; right; apply in_or_app; left; exact E|exact HL']].
  assert (Hadd : forall x, a_pub a x = true -> pub_add (a_pub a) n x = true).
  { intros x Hx. unfold pub_add. destruct (Nat.eqb x n); auto. }
  assert (Hpzadd : forall x, pz (a_pub a) x -> pz (pub_add (a_pub a) n) x).
  { intros x [->|[->|Hx]]; unfold pz; auto. }
  assert (Hpcz : pz (a_pub a) pc) by (destruct Hpc as [->|Hp]; unfold pz; auto).
  assert (Hoth : forall x, x <> m -> heap g' x = heap g x) by (intros x Hx; unfold g'; now apply heap_set_next_other).
  assert (Hnotm : forall u x, u <> t -> holds (view a u) x -> x <> m).
  { intros u x Hu Hx ->. apply Hu. eapply (s_excl _ _ _ H); eauto. eexists; exact Hm. }
  apply (IS_step g g' a t (pub_add (a_pub a) n) (a_succ a) lv' L L' H).
  - eapply chain_ext; [| |exact Hch]; [intros; reflexivity|]. intros x _. apply kf_ext. exact Hkey.
  - exact Hadd.
  - intros x Hx. apply HL' in Hx. destruct Hx as [->|Hx]; [unfold pub_add; now rewrite Nat.eqb_refl|].
    apply Hadd. apply (s_pubL _ _ _ H). exact Hx.
  - intros x Hp. change (nalloc g') with (nalloc g). destruct (Nat.eq_dec x n) as [->|Hxn].
    + split; [exact Kn|]. rewrite Hoth by exact Hnm. rewrite Knh. cbn [nnext nmark]. split; [apply Hpzadd; exact Hpcz|].
      intros _. apply HL'. left; reflexivity.
    + unfold pub_add in Hp. destruct (Nat.eqb_spec x n) as [|_]; [contradiction|].
      destruct (s_pub _ _ _ H x Hp) as (K1 & K2 & K3). split; auto.
      destruct (Nat.eq_dec x m) as [->|Hx].
      * unfold g'. rewrite heap_set_next_same. cbn [nnext nmark]. split.
        -- right. right. unfold pub_add. now rewrite Nat.eqb_refl.
        -- intros _. apply HL'. right. apply K3. exact Hmm.
      * rewrite Hoth by exact Hx. split; [apply Hpzadd; exact K2|]. intros Hu. apply HL'. right. auto.
  - repeat split; auto.
    + destruct (Nat.eq_dec m HEAD) as [->|Hx]; [unfold g'; rewrite heap_set_next_same; reflexivity|]. rewrite Hoth by auto. exact E1.
    + rewrite Hoth by auto. exact E2.
    + rewrite Hoth by auto. exact E4.
  - intros c s E. destruct (s_succ _ _ _ H c s E) as (K1 & K2 & u & q & K3).
    assert (c <> m) by congruence. rewrite Hoth by auto. repeat split; auto.
    right. exists u, q. repeat split; auto. intros ->. congruence.
  - intros x _. apply Hkey.
  - cbn. lia.
  - intros u x Hu Hx. apply Hoth. eapply Hnotm; eauto.
  - intros u x k' nx' Hu E. pose proof (s_own _ _ _ H u) as K. rewrite E in K. cbn in K. destruct K as (K1 & K2 & _).
    split.
    + apply Hoth. destruct Hmz as [->|[->|Hp]]; unfold HEAD, TAIL; try lia. congruence.
    + unfold pub_add. destruct (Nat.eqb_spec x n) as [->|]; [|exact K2].
      exfalso. exact (s_disj _ _ _ H t u n k pc n k' nx' (fun e => Hu (eq_sym e)) Hown E eq_refl).
  - intros u q c s Hu E. destruct (s_hole _ _ _ H u q c s E) as (K1 & _ & _ & K4 & _). split; auto. apply HL'. auto.
  - rewrite Ef. constructor.
    + cbn [fact_ok]. unfold pub_add. rewrite Nat.eqb_refl, Hkey, Knh. auto.
    + eapply Forall_impl; [|apply (s_facts _ _ _ H)]. intros [x k'] (K1 & K2). split; auto. rewrite Hkey. exact K2.
  - rewrite Eh. apply set_obs_ok.
    + intros [x o] He Hx. cbn [fst] in Hx. pose proof (held_entry _ _ _ _ _ _ H He) as K.
      unfold held_ok in *. cbn [fst snd] in *. rewrite Hoth by exact Hx. destruct K as (K1 & K2 & K3). auto.
    + intros o Ho. unfold g'. rewrite heap_set_next_same. cbn. auto.
  - intros u x Hu Hx Hx'. unfold holds in Hx. rewrite Eh in Hx. rewrite set_obs_holds in Hx.
    apply Hu. symmetry. eapply (s_excl _ _ _ H); eauto.
  - rewrite Eo. exact I.
  - intros u n1 k1 nx1 n2 k2 nx2 Hu Eq1. rewrite Eo in Eq1. discriminate.
  - intros q c s E. rewrite Ehole in E. discriminate.
Qed.

Definition succ_set (succ : nat -> option nat) (c : nat) (v : option nat) : nat -> option nat :=
  fun x => if Nat.eqb x c then v else succ x.

(** unlink_node's first store: [c] is marked (logically deleted); its predecessor [p] still points to it *)
Lemma IS_mark g a t lv' L p c nx :
  IS g a L -> In (p, Some (c, false)) (lv_held (view a t)) -> In (c, Some (nx, false)) (lv_held (view a t)) ->
  a_pub a c = true -> lv_hole (view a t) = None ->
  lv_facts lv' = lv_facts (view a t) -> lv_held lv' = set_obs (lv_held (view a t)) c (HEAD, true) ->
  lv_own lv' = lv_own (view a t) -> lv_hole lv' = Some (p, c, nx) ->
  IS (set_next g c HEAD true) (mk_a a t (a_pub a) (succ_set (a_succ a) c (Some nx)) lv') L /\ In c L.
Proof.
  intros H Hp Hc Hcp Hhole Ef Eh Eo Ehole.
  destruct (held_entry _ _ _ _ _ _ H Hp) as (Hpz & Hpl & Hpn & Hpm). cbn [fst snd] in *.
  destruct (held_entry _ _ _ _ _ _ H Hc) as (_ & Hcl & Hcn & Hcm). cbn [fst snd] in *.
  destruct (s_ends _ _ _ H) as (E1 & E2 & E3 & E4).
  pose proof (pub_range _ _ _ _ H Hcp) as Hcr.
  assert (HcL : In c L) by (apply (s_pub _ _ _ H c Hcp); exact Hcm).
  assert (Hpc : p <> c).
  { intros ->. (* c would be its own successor *)
    assert (Hg : gnext g (a_succ a) c = c) by (rewrite (gnext_unmarked _ _ _ _ H Hcm); exact Hpn).
    destruct (chain_split HEAD TAIL _ _ _ c (s_chain _ _ _ H) (or_intror HcL)) as (L1 & L2 & _ & H2 & _ & N2 & HT & _).
    destruct L2 as [|y L2]; cbn [glinked] in H2.
    - rewrite Hg in H2. contradiction.
    - destruct H2 as [Hy _]. rewrite Hg in Hy. apply (N2 y); [left; reflexivity|auto]. }
  split; [|exact HcL].
  set (g' := set_next g c HEAD true).
  assert (Hoth : forall x, x <> c -> heap g' x = heap g x) by (intros x Hx; unfold g'; now apply heap_set_next_other).
  assert (Hkey : forall x, nkey (heap g' x) = nkey (heap g x)).
  { intros x. destruct (Nat.eq_dec x c) as [->|Hx]; [unfold g'; rewrite heap_set_next_same; reflexivity|now rewrite Hoth]. }
  assert (Hsc : a_succ a c = None) by (eapply succ_none_unmarked; eauto).
  assert (Hnotc : forall u x, u <> t -> holds (view a u) x -> x <> c).
  { intros u x Hu Hx ->. apply Hu. eapply (s_excl _ _ _ H); eauto. eexists; exact Hc. }
  apply (IS_step g g' a t (a_pub a) (succ_set (a_succ a) c (Some nx)) lv' L L H).
  - eapply chain_ext; [| |apply (s_chain _ _ _ H)].
    + intros x _. unfold gnext, succ_set. destruct (Nat.eqb_spec x c) as [->|Hx].
      * rewrite Hsc. symmetry. exact Hcn.
      * rewrite Hoth by exact Hx. reflexivity.
    + intros x _. apply kf_ext. exact Hkey.
  - auto.
  - apply (s_pubL _ _ _ H).
  - intros x Hx. change (nalloc g') with (nalloc g). destruct (s_pub _ _ _ H x Hx) as (K1 & K2 & K3). split; auto.
    destruct (Nat.eq_dec x c) as [->|Hxc].
    + unfold g'. rewrite heap_set_next_same. cbn [nnext nmark]. split; [left; reflexivity|discriminate].
    + rewrite Hoth by exact Hxc. auto.
  - repeat split; auto; rewrite Hoth; auto; unfold HEAD, TAIL; lia.
  - intros c' s E. unfold succ_set in E. destruct (Nat.eqb_spec c' c) as [->|Hx].
    + inversion E; subst s. split; auto. split; [unfold g'; rewrite heap_set_next_same; reflexivity|].
      left. exists p. exact Ehole.
    + destruct (s_succ _ _ _ H c' s E) as (K1 & K2 & u & q & K3). rewrite Hoth by exact Hx. repeat split; auto.
      right. exists u, q. repeat split; auto. intros ->. congruence.
  - intros x _. apply Hkey.
  - cbn. lia.
  - intros u x Hu Hx. apply Hoth. eapply Hnotc; eauto.
  - intros u x k' nx' Hu E. pose proof (s_own _ _ _ H u) as K. rewrite E in K. cbn in K. destruct K as (K1 & K2 & _).
    split; auto. apply Hoth. congruence.
  - intros u q c' s Hu E. destruct (s_hole _ _ _ H u q c' s E) as (K1 & _ & K3 & K4 & _). split; auto.
    unfold succ_set. destruct (Nat.eqb_spec c' c) as [->|]; auto. exfalso. eapply Hnotc; eauto.
  - rewrite Ef. eapply Forall_impl; [|apply (s_facts _ _ _ H)]. intros [x k'] (K1 & K2). split; auto. rewrite Hkey. exact K2.
  - rewrite Eh. apply set_obs_ok.
    + intros [x o] He Hx. cbn [fst] in Hx. pose proof (held_entry _ _ _ _ _ _ H He) as K.
      unfold held_ok in *. cbn [fst snd] in *. rewrite Hoth by exact Hx. exact K.
    + intros o Ho. unfold g'. rewrite heap_set_next_same. cbn. repeat split; auto. right; right; exact Hcp.
  - intros u x Hu Hx Hx'. unfold holds in Hx. rewrite Eh in Hx. rewrite set_obs_holds in Hx.
    apply Hu. symmetry. eapply (s_excl _ _ _ H); eauto.
  - rewrite Eo. pose proof (s_own _ _ _ H t) as K. destruct (lv_own (view a t)) as [[[n k] nx']|]; cbn [own_ok] in *; auto.
    destruct K as (K1 & K2 & K3). change (nalloc g') with (nalloc g). repeat split; try lia; auto. rewrite Hoth by congruence. exact K3.
  - intros u n1 k1 nx1 n2 k2 nx2 Hu Eq1 Eq2. rewrite Eo in Eq1.
    exact (s_disj _ _ _ H t u n1 k1 nx1 n2 k2 nx2 (fun e => Hu (eq_sym e)) Eq1 Eq2).
  - intros q c' s E. rewrite Ehole in E. inversion E; subst q c' s.
    split; [unfold succ_set; now rewrite Nat.eqb_refl|]. rewrite Eh.
    split; [apply set_obs_in_other; auto|]. split; [unfold holds; rewrite Eh; eexists; eapply set_obs_in_same; exact Hc|].
    split; [exact HcL|]. rewrite <- Hcn. apply (s_pub _ _ _ H c Hcp).
Qed.

(** unlink_node's second store: the predecessor is swung past the marked node *)
Lemma IS_bypass g a t lv' L p c nx :
  IS g a L -> lv_hole (view a t) = Some (p, c, nx) ->
  lv_facts lv' = lv_facts (view a t) -> lv_held lv' = set_obs (lv_held (view a t)) p (nx, false) ->
  lv_own lv' = lv_own (view a t) -> lv_hole lv' = None ->
  exists L', IS (set_next g p nx false) (mk_a a t (a_pub a) (succ_set (a_succ a) c None) lv') L' /\
             In c L /\ nmark (heap g c) = true /\ (forall x, In x L' <-> In x L /\ x <> c).
Proof.
  intros H Hhole Ef Eh Eo Ehole.
  destruct (s_hole _ _ _ H t p c nx Hhole) as (Hsc & Hp & [oc Hc] & HcL & Hnxz).
  destruct (held_entry _ _ _ _ _ _ H Hp) as (Hpz & Hpl & Hpn & Hpm). cbn [fst snd] in *.
  destruct (s_succ _ _ _ H c nx Hsc) as (Hcp & Hcm & _).
  destruct (s_ends _ _ _ H) as (E1 & E2 & E3 & E4).
  pose proof (pub_range _ _ _ _ H Hcp) as Hcr.
  assert (HpT : p <> TAIL) by (intros ->; rewrite E4 in Hpn; lia).
  pose proof (pz_unmarked_in _ _ _ _ H Hpz HpT Hpm) as HpL.
  assert (Hpc : p <> c) by congruence.
  set (g' := set_next g p nx false).
  assert (Hoth : forall x, x <> p -> heap g' x = heap g x) by (intros x Hx; unfold g'; now apply heap_set_next_other).
  assert (Hkey : forall x, nkey (heap g' x) = nkey (heap g x)).
  { intros x. destruct (Nat.eq_dec x p) as [->|Hx]; [unfold g'; rewrite heap_set_next_same; reflexivity|now rewrite Hoth]. }
  assert (Hsp : a_succ a p = None) by (eapply succ_none_unmarked; eauto).
  destruct (chain_remove HEAD TAIL (gnext g (a_succ a)) (gnext g' (succ_set (a_succ a) c None)) (kf g) L p c (s_chain _ _ _ H) HpL) as (L' & Hch & _ & HL').
  { unfold gnext. rewrite Hsp. exact Hpn. }
  { unfold TAIL. lia. }
  { unfold gnext, succ_set. destruct (Nat.eqb_spec p c); [contradiction|]. rewrite Hsp, Hsc. unfold g'. rewrite heap_set_next_same. reflexivity. }
  { intros x Hxp Hxc. unfold gnext, succ_set. destruct (Nat.eqb_spec x c); [contradiction|]. rewrite Hoth by exact Hxp. reflexivity. }
  exists L'. split; [|split; [exact HcL|split; [exact Hcm|exact HL']]].
  assert (Hnotp : forall u x, u <> t -> holds (view a u) x -> x <> p).
  { intros u x Hu Hx ->. apply Hu. eapply (s_excl _ _ _ H); eauto. eexists; exact Hp. }
  assert (Hnotc : forall u x, u <> t -> holds (view a u) x -> x <> c).
  { intros u x Hu Hx ->. apply Hu. eapply (s_excl _ _ _ H); eauto. eexists; exact Hc. }
  apply (IS_step g g' a t (a_pub a) (succ_set (a_succ a) c None) lv' L L' H).
  - eapply chain_ext; [| |exact Hch]; [intros; reflexivity|]. intros x _. apply kf_ext. exact Hkey.
  - auto.
  - intros x Hx. apply HL' in Hx. apply (s_pubL _ _ _ H). tauto.
  - intros x Hx. change (nalloc g') with (nalloc g). destruct (s_pub _ _ _ H x Hx) as (K1 & K2 & K3). split; auto.
    destruct (Nat.eq_dec x p) as [->|Hxp].
    + unfold g'. rewrite heap_set_next_same. cbn [nnext nmark]. split; [exact Hnxz|].
      intros _. apply HL'. split; [apply K3; exact Hpm|exact Hpc].
    + rewrite Hoth by exact Hxp. split; auto. intros Hu. apply HL'. split; auto. congruence.
  - repeat split; auto.
    + destruct (Nat.eq_dec p HEAD) as [->|Hx]; [unfold g'; rewrite heap_set_next_same; reflexivity|]. rewrite Hoth by auto. exact E1.
    + rewrite Hoth by auto. exact E2.
    + rewrite Hoth by auto. exact E4.
  - intros c' s E. unfold succ_set in E. destruct (Nat.eqb_spec c' c) as [->|Hx]; [discriminate|].
    destruct (s_succ _ _ _ H c' s E) as (K1 & K2 & u & q & K3).
    assert (c' <> p) by congruence. rewrite Hoth by auto. repeat split; auto.
    right. exists u, q. repeat split; auto. intros ->. rewrite Hhole in K3. inversion K3. congruence.
  - intros x _. apply Hkey.
  - cbn. lia.
  - intros u x Hu Hx. apply Hoth. eapply Hnotp; eauto.
  - intros u x k' nx' Hu E. pose proof (s_own _ _ _ H u) as K. rewrite E in K. cbn in K. destruct K as (K1 & K2 & _).
    split; auto. apply Hoth. destruct Hpz as [->|[->|Hpp]]; unfold HEAD, TAIL; try lia. congruence.
  - intros u q c' s Hu E. destruct (s_hole _ _ _ H u q c' s E) as (K1 & _ & K3 & K4 & _).
    assert (c' <> c) by (eapply Hnotc; eauto). split.
    + unfold succ_set. destruct (Nat.eqb_spec c' c); [contradiction|exact K1].
    + apply HL'. auto.
  - rewrite Ef. eapply Forall_impl; [|apply (s_facts _ _ _ H)]. intros [x k'] (K1 & K2). split; auto. rewrite Hkey. exact K2.
  - rewrite Eh. apply set_obs_ok.
    + intros [x o] He Hx. cbn [fst] in Hx. pose proof (held_entry _ _ _ _ _ _ H He) as K.
      unfold held_ok in *. cbn [fst snd] in *. rewrite Hoth by exact Hx. exact K.
    + intros o Ho. unfold g'. rewrite heap_set_next_same. cbn. auto.
  - intros u x Hu Hx Hx'. unfold holds in Hx. rewrite Eh in Hx. rewrite set_obs_holds in Hx.
    apply Hu. symmetry. eapply (s_excl _ _ _ H); eauto.
  - rewrite Eo. pose proof (s_own _ _ _ H t) as K. destruct (lv_own (view a t)) as [[[n k] nx']|]; cbn [own_ok] in *; auto.
    destruct K as (K1 & K2 & K3). change (nalloc g') with (nalloc g). repeat split; try lia; auto. rewrite Hoth; [exact K3|].
    destruct Hpz as [->|[->|Hpp]]; unfold HEAD, TAIL; try lia. congruence.
  - intros u n1 k1 nx1 n2 k2 nx2 Hu Eq1 Eq2. rewrite Eo in Eq1.
    exact (s_disj _ _ _ H t u n1 k1 nx1 n2 k2 nx2 (fun e => Hu (eq_sym e)) Eq1 Eq2).
  - intros q c' s E. rewrite Ehole in E. discriminate.
Qed.
