(** * RcuPtr: the invariant of the RCU core (LV.Proofs.RcuGpInv) carried over to the container client of LV.Model.RcuPtr.

    Every program of the RCU core keeps its [safe] proof when it runs on the extended state ([psafe_lift]); the
    container's own accesses touch nothing the core invariant looks at; batch_retire of general_instant (several
    "retire" events, ONE synchronize, several "dispose" events) is new and proved here ([step_ev_dispose_at]).
    Result: [dispose_safe] and [sync_waits] for every schedule of the client, strict or not. *)
From Coq Require Import ZArith List String Bool Lia PeanoNat.
From LV Require Import Base.Conc Base.Events Model.RcuGp Model.RcuPtr Proofs.RcuBits Proofs.RcuGpInv Proofs.RcuGpSteps
  Proofs.RcuGpWriter Proofs.RcuGpSafe.
Import ListNotations.
Local Open Scope string_scope.
Local Open Scope list_scope.
Local Open Scope Z_scope.

(** auxiliary state: the core's, plus per thread the positions of its "retire" events *)
Definition PAux := (Aux * (nat -> list (nat * Z)))%type.
Definition PL := (L * list (nat * Z))%type.
Definition pview (a : PAux) (t : nat) : PL := (fst a t, snd a t).
Definition PInv (g : PG) (a : PAux) (tr : trace) : Prop :=
  Inv (pg_base g) (fst a) tr /\ forall t k p, In (k, p) (snd a t) -> at_ tr k t (is_retire p).

Notation psafe := (@Conc.safe PG V ev PAux PL pview PInv).

Definition updB (b : nat -> list (nat * Z)) (t : nat) (x : list (nat * Z)) : nat -> list (nat * Z) :=
  fun y => if Nat.eqb y t then x else b y.

Lemma pframe a a' b b' t :
  Conc.frame view t a a' -> (forall t', t' <> t -> b' t' = b t') -> Conc.frame pview t (a, b) (a', b').
Proof. intros F Fb t' Ht. unfold pview. cbn. rewrite (Fb t' Ht). specialize (F t' Ht). unfold view in F. rewrite F. reflexivity. Qed.

Lemma psafe_bind {A B} t (p : pprog A) (q : A -> pprog B) Q l :
  psafe t p l (fun r l' => psafe t (q r) l' Q) -> psafe t (pbind p q) l Q.
Proof. apply Conc.safe_bind. Qed.

Lemma psafe_weaken {R} t (p : pprog R) (Q Q' : R -> PL -> Prop) l :
  (forall r l', Q r l' -> Q' r l') -> psafe t p l Q -> psafe t p l Q'.
Proof. intros H. apply Conc.safe_weaken. exact H. Qed.

(** ** programs of the core *)
Lemma psafe_lift {R} t (p : prog R) : forall l bl (Q : R -> L -> Prop),
  safe t p l Q -> psafe t (lift p) (l, bl) (fun r l' => Q r (fst l') /\ snd l' = bl).
Proof.
  induction p as [r|es k IH|f k IH]; intros l bl Q H; cbn [lift Conc.safe] in *.
  - split; [exact H|reflexivity].
  - intros g [a b] tr [HI HB] Hv. unfold pview in Hv. cbn [fst snd] in Hv. inversion Hv as [[Ha Hb]].
    destruct (H (pg_base g) a tr HI Ha) as (a' & H1 & H2 & H3).
    exists (a', b). split; [split; [exact H1|intros t0 k0 p0 Hin; apply at_app_l; eapply HB; eauto]|].
    split; [apply pframe; [exact H2|reflexivity]|].
    unfold pview. cbn [fst snd]. rewrite Hb. apply IH. exact H3.
  - intros g [a b] tr [HI HB] Hv. unfold pview in Hv. cbn [fst snd] in Hv. inversion Hv as [[Ha Hb]].
    destruct (H (pg_base g) a tr HI Ha) as (a' & H1 & H2 & H3).
    exists (a', b). unfold lift_act. cbn [fst snd pg_base].
    split; [split; [exact H1|intros t0 k0 p0 Hin; apply at_app_l; eapply HB; eauto]|].
    split; [apply pframe; [exact H2|reflexivity]|].
    unfold pview. cbn [fst snd]. rewrite Hb. apply IH. exact H3.
Qed.

(** ** the container's own accesses and events *)
Definition cli_neutral (n : string) : Prop := forall args, neutral (EvCli n args).

Definition ev_ok (es : list ev) : Prop :=
  (exists kd o ok, es = [EvAcc kd o ok]) \/
  (exists kd o ok n args, es = [EvAcc kd o ok; EvCli n args] /\ neutral (EvCli n args)).

Fixpoint pquiet {R} (p : pprog R) : Prop :=
  match p with
  | Ret _ => True
  | Emit es k => (exists n args, es = cli n args /\ neutral (EvCli n args)) /\ pquiet k
  | Act f k => (forall g, pg_base (fst (fst (f g))) = pg_base g /\ ev_ok (snd (f g))) /\ forall v, pquiet (k v)
  end.

Lemma pquiet_bind {A B} (p : pprog A) (q : A -> pprog B) :
  pquiet p -> (forall r, pquiet (q r)) -> pquiet (pbind p q).
Proof.
  induction p as [r|es k IH|f k IH]; intros H Hq; cbn [pbind Conc.bind pquiet] in *.
  - apply Hq.
  - destruct H as (H1 & H2). split; [exact H1|]. apply IH; assumption.
  - destruct H as (H1 & H2). split; [exact H1|]. intros v. apply IH; auto.
Qed.

Lemma PInv_evs g g' a tr t es :
  pg_base g' = pg_base g -> ev_ok es -> PInv g a tr -> PInv g' a (tr ++ Conc.tag t es).
Proof.
  intros Eb Hes [HI HB]. unfold PInv. rewrite Eb. destruct Hes as [(kd & o & ok & ->)|(kd & o & ok & n & args & -> & N)].
  - split; [rewrite tag1; eapply Inv_acc; [| | | | | |exact HI]; reflexivity|].
    intros t0 k0 p0 Hin. apply at_app_l. eapply HB; eauto.
  - change (Conc.tag t [EvAcc kd o ok; EvCli n args]) with ([(t, EvAcc kd o ok)] ++ [(t, EvCli n args)]).
    rewrite app_assoc. split.
    + apply Inv_cli_neutral; [exact N|]. eapply Inv_acc; [| | | | | |exact HI]; reflexivity.
    + intros t0 k0 p0 Hin. apply at_app_l. apply at_app_l. eapply HB; eauto.
Qed.

Lemma psafe_pquiet {R} t (p : pprog R) : forall l, pquiet p -> psafe t p l (fun _ l' => l' = l).
Proof.
  induction p as [r|es k IH|f k IH]; intros l H; cbn [Conc.safe pquiet] in *.
  - reflexivity.
  - destruct H as ((n & args & -> & N) & H2). intros g a tr [HI HB] Hv. exists a. split.
    + split; [unfold cli; rewrite tag1; apply Inv_cli_neutral; assumption|].
      intros t0 k0 p0 Hin. apply at_app_l. eapply HB; eauto.
    + split; [intros ? ?; reflexivity|]. rewrite Hv. apply IH; exact H2.
  - destruct H as (H1 & H2). intros g a tr HI Hv. exists a. destruct (H1 g) as (Eb & Hes). split.
    + apply PInv_evs with (g := g); assumption.
    + split; [intros ? ?; reflexivity|]. rewrite Hv. apply IH. apply H2.
Qed.

Lemma psafe_quiet_then {A B} t (p : pprog A) (q : A -> pprog B) l Q :
  pquiet p -> (forall r, psafe t (q r) l Q) -> psafe t (pbind p q) l Q.
Proof.
  intros Hp Hq. apply psafe_bind. eapply psafe_weaken; [|apply psafe_pquiet; exact Hp].
  intros r l' ->. apply Hq.
Qed.

Lemma psafe_emit_neutral {R} t name args (k : pprog R) l Q :
  neutral (EvCli name args) -> psafe t k l Q -> psafe t (Emit (cli name args) k) l Q.
Proof.
  intros N H. cbn [Conc.safe]. intros g a tr [HI HB] Hv. exists a. split.
  - split; [unfold cli; rewrite tag1; apply Inv_cli_neutral; assumption|].
    intros t0 k0 p0 Hin. apply at_app_l. eapply HB; eauto.
  - split; [intros ? ?; reflexivity|]. rewrite Hv. exact H.
Qed.

Ltac neu := apply neutral_cli; reflexivity.

Lemma ev_ok1 kd o ok : ev_ok (acc kd o ok).
Proof. left. exists kd, o, ok. reflexivity. Qed.

Lemma psafe_act_quiet {R} t (f : pact) (k : V -> pprog R) l Q :
  (forall g, pg_base (fst (fst (f g))) = pg_base g /\ ev_ok (snd (f g))) -> (forall v, psafe t (k v) l Q) ->
  psafe t (Act f k) l Q.
Proof.
  intros H1 H2. cbn [Conc.safe]. intros g a tr HI Hv. exists a. destruct (H1 g) as (Eb & Hes). split.
  - apply PInv_evs with (g := g); assumption.
  - split; [intros ? ?; reflexivity|]. rewrite Hv. apply H2.
Qed.

Lemma psafe_payload {R} t p n (k : pprog R) l Q :
  neutral (EvCli n [p]) -> psafe t k l Q -> psafe t (Act (a_pl_ld p) (fun _ => Emit (cli n [p]) k)) l Q.
Proof.
  intros N Hk. apply psafe_act_quiet; [intros g; split; [reflexivity|apply ev_ok1]|]. intros _.
  apply psafe_emit_neutral; assumption.
Qed.


Lemma pquiet_search fuel : forall ch, pquiet (search fuel ch).
Proof.
  induction fuel as [|f IH]; intros ch; cbn [search pquiet]; [exact I|].
  split; [intros g; split; [reflexivity|apply ev_ok1]|]. intros v.
  destruct (vz v =? 0); [exact I|]. cbn [pquiet].
  split; [intros g; split; [reflexivity|apply ev_ok1]|]. intros m.
  destruct (vz m =? 0); [exact I|]. cbn [pquiet]. split.
  - intros g. unfold a_unlink. destruct (pg_head g =? vz v); cbn [fst snd]; split; try reflexivity; [|apply ev_ok1].
    right. exists KCas, obj_phead, true. destruct (vz m =? 1); eexists; eexists; (split; [reflexivity|neu]).
  - intros ok. destruct ((vz ok =? 1) && (vz m =? 1)); apply IH.
Qed.

Lemma pquiet_unlink_node fuel cur mask ch : pquiet (unlink_node fuel cur mask ch).
Proof.
  unfold unlink_node. cbn [pquiet]. split.
  - intros g. unfold a_mark. destruct (pg_mark g cur =? 0); cbn [fst snd]; split; try reflexivity; [|apply ev_ok1].
    right. exists KCas, (obj_pmark cur), true. destruct (mask =? 3); eexists; eexists; (split; [reflexivity|neu]).
  - intros ok. destruct (vz ok =? 0); [exact I|]. cbn [pquiet]. split.
    + intros g. unfold a_unlink. destruct (pg_head g =? cur); cbn [fst snd]; split; try reflexivity; [|apply ev_ok1].
      right. exists KCas, obj_phead, true. destruct (mask =? 1); eexists; eexists; (split; [reflexivity|neu]).
    + intros ok2. destruct (vz ok2 =? 1); [exact I|]. apply pquiet_bind; [apply pquiet_search|].
      intros [[x ch']|]; exact I.
Qed.

Lemma pquiet_remove_try fuel mask ch : pquiet (remove_try fuel mask ch).
Proof.
  unfold remove_try. apply pquiet_bind; [apply pquiet_search|]. intros [[cur ch1]|]; [|exact I].
  destruct (cur =? 0); [exact I|]. apply pquiet_bind; [apply pquiet_unlink_node|].
  intros [[[|] ch2]|]; exact I.
Qed.

Lemma pquiet_extract_loop fuel n : forall ch, pquiet (extract_loop n fuel ch).
Proof.
  induction n as [|n IH]; intros ch; cbn [extract_loop]; [exact I|].
  apply pquiet_bind; [apply pquiet_remove_try|]. intros [ch1|p ch1|ch1|]; cbn [pquiet]; auto.
Qed.

Lemma pquiet_insert_loop fuel n : forall ch, pquiet (insert_loop n fuel ch).
Proof.
  induction n as [|n IH]; intros ch; cbn [insert_loop]; [exact I|].
  apply pquiet_bind; [apply pquiet_search|]. intros [[cur ch1]|]; [|exact I].
  destruct (cur =? 0); [|exact I]. cbn [pquiet]. split.
  - intros g. unfold a_link. destruct (pg_head g =? 0); cbn [fst snd]; split; try reflexivity; [|apply ev_ok1].
    right. exists KCas, obj_phead, true. eexists; eexists; (split; [reflexivity|neu]).
  - intros v. destruct (vz v =? 0); [apply IH|exact I].
Qed.

Lemma pquiet_payload {R} p n (k : pprog R) :
  neutral (EvCli n [p]) -> pquiet k -> pquiet (Act (a_pl_ld p) (fun _ => Emit (cli n [p]) k)).
Proof.
  intros N Hk. cbn [pquiet]. split; [intros g; split; [reflexivity|apply ev_ok1]|]. intros _.
  split; [|exact Hk]. exists n, [p]. split; [reflexivity|exact N].
Qed.

(** ** batch_retire: "dispose p" after a grace period that began at or after the "retire p" event *)
Lemma step_ev_dispose_at g a tr t i k p st :
  Inv g a tr -> l_w (a t) = WFin i -> at_ tr k t (is_retire p) -> (k <= i)%nat -> st = WFin i \/ st = WIdle ->
  Inv g (updA a t (set_w (a t) st)) (tr ++ [(t, EvCli "dispose" [p])]).
Proof.
  intros (I1 & I2 & I3 & I4) Hw M1 Hki Hst. inv_split.
  - eapply InvRec_ext; [| | | | |exact I1]; auto. same_fields t.
  - apply InvLock_nonholder; [exact I2|rewrite Hw; intros []|destruct Hst as [-> | ->]; intros []].
  - pose proof (WC _ _ I3 t) as C0. rewrite Hw in C0.
    rewrite app_len1. apply InvW_writer with (n := List.length tr); [lia|exact I3| |].
    + destruct Hst as [-> | ->]; [exact C0|exact I].
    + destruct Hst as [-> | ->]; cbn; [|discriminate]. intros i0 E; inversion E; subst i0.
      pose proof (WB _ _ I3 t i) as B. rewrite Hw in B. specialize (B eq_refl). lia.
  - pose proof (WC _ _ I3 t) as C0. rewrite Hw in C0. cbn in C0.
    assert (C : forall r, ~ old a k r).
    { intros r (s & Hs & Hl). apply (C0 r). exists s. split; [exact Hs|lia]. }
    assert (I4' := I4). destruct I4 as [T3 T4 TM0 TR0 SW0 DS0]. constructor.
    + intros r s. upd_cases r t; cbn; intros Hc; destruct (T3 _ s Hc) as (A & B); (split; [apply at_app_l; exact A|]);
        intros b Hb Hat; (destruct (at_snoc_inv _ _ _ _ _ _ Hat) as [Hat'|(_ & _ & X)]; [eapply B; eauto|discriminate]).
    + intros r s Hat. destruct (at_snoc_inv _ _ _ _ _ _ Hat) as [Hat'|(_ & _ & X)]; [|discriminate].
      assert (Ecs : l_cs (updA a t (set_w (a t) st) r) = l_cs (a r)) by (upd_cases r t; auto). rewrite Ecs.
      destruct (T4 r s Hat') as [A|(b & Hb & Hrb & Hs)]; [left; exact A|].
      right. exists b. split; [exact Hb|]. split; [apply at_app_l; exact Hrb|exact Hs].
    + intros w j. upd_cases w t; cbn; intros Hc; destruct (TM0 _ j Hc) as (A & B); (split; [apply at_app_l; exact A|]);
        intros k0 Hk Hat; (destruct (at_snoc_inv _ _ _ _ _ _ Hat) as [Hat'|(_ & _ & X)]; [eapply B; eauto|discriminate]).
    + intros w j q. upd_cases w t; cbn; intros Hc; apply at_app_l; eapply TR0; eauto.
    + apply sync_waits_snoc; [reflexivity|assumption].
    + intros w q d Hd.
      destruct (at_snoc_inv _ _ _ _ _ _ Hd) as [Hd'|(-> & -> & X)].
      * pose proof (at_lt _ _ _ _ Hd') as Ld.
        destruct (DS0 w q d Hd') as (k1 & w' & Hk & Hr & Hall). exists k1, w'. split; [exact Hk|]. split; [apply at_app_l; exact Hr|].
        intros r s Ho. destruct (Hall r s) as (b & Hb & Hat).
        -- eapply open_at_app_inv; eauto. lia.
        -- exists b. split; [exact Hb|]. apply at_app_l; exact Hat.
      * assert (q = p).
        { unfold is_dispose, cli_is in X. cbn in X. apply Z.eqb_eq in X. auto. }
        subst q. exists k, t. pose proof (at_lt _ _ _ _ M1) as Li. split; [exact Li|]. split; [apply at_app_l; exact M1|].
        intros r s Ho. apply open_at_app_inv in Ho; [|lia].
        destruct (old_reader_left a tr r s k t (is_retire p) I4' C Ho M1) as (b & Hb & Hat).
        -- intros e E1 E2. unfold is_retire, is_runlock0, cli_is in *. destruct e as [|n [|x l]]; try discriminate.
           apply andb_prop in E1, E2. destruct E1 as (E1 & _), E2 as (E2 & _). apply String.eqb_eq in E1, E2. congruence.
        -- exists b. split; [exact Hb|]. apply at_app_l; exact Hat.
Qed.

Definition covered (ps : list Z) (bl : list (nat * Z)) (i : nat) : Prop :=
  forall p, In p ps -> exists k, In (k, p) bl /\ (k <= i)%nat.

Lemma updB_same b t x : updB b t x t = x.
Proof. unfold updB. now rewrite Nat.eqb_refl. Qed.

(** one "retire p" event: the marker moves to it *)
Lemma psafe_retire1 {R} t p (k : pprog R) l Q :
  ~ holder (l_w (fst l)) ->
  (forall l' i, rfields (fst l') = rfields (fst l) -> l_w (fst l') = WStart i ->
     (forall i0, widx (l_w (fst l)) = Some i0 -> (i0 <= i)%nat) ->
     snd l' = (i, p) :: snd l -> psafe t k l' Q) ->
  psafe t (Emit (cli "retire" [p]) k) l Q.
Proof.
  intros Hnh Hk. cbn [Conc.safe]. intros g [a b] tr [HI HB] Hv. unfold pview in Hv. cbn [fst snd] in Hv.
  set (n := List.length tr).
  set (l1 := set_w (set_rm (a t) (Some (n, p))) (WStart n)).
  exists (updA a t l1, updB b t ((n, p) :: b t)). split; [split|split].
  - unfold cli. rewrite tag1. cbn [fst]. apply step_ev_begin; try reflexivity.
    + exact HI.
    + replace (a t) with (fst l) by (rewrite <- Hv; reflexivity). exact Hnh.
    + right. split; [reflexivity|]. split; [reflexivity|]. exists p. split; [|reflexivity].
      unfold is_retire, cli_is. cbn. apply Z.eqb_refl.
  - cbn [snd]. intros t0 k0 p0. unfold updB. destruct (Nat.eqb_spec t0 t) as [->|Hne].
    + intros [E|Hin].
      * inversion E; subst k0 p0. unfold cli. rewrite tag1. apply at_snoc_last. unfold is_retire, cli_is. cbn. apply Z.eqb_refl.
      * apply at_app_l. eapply HB; eauto.
    + intros Hin. apply at_app_l. eapply HB; eauto.
  - apply pframe; [apply frame_updA|]. intros t' Ht. unfold updB. destruct (Nat.eqb_spec t' t); congruence.
  - unfold pview. cbn [fst snd]. rewrite updA_same, updB_same. apply Hk with (i := n); cbn [fst snd].
    + rewrite <- Hv. reflexivity.
    + reflexivity.
    + intros i0 Hi0. destruct HI as (_ & _ & I3 & _). apply (WB _ _ I3 t). rewrite <- Hv in Hi0. exact Hi0.
    + rewrite <- Hv. reflexivity.
Qed.

Lemma covered_weaken ps bl i x i' : covered ps bl i -> (i <= i')%nat -> covered ps (x :: bl) i'.
Proof. intros H Hi p Hp. destruct (H p Hp) as (k & Hin & Hk). exists k. split; [right; exact Hin|lia]. Qed.

Lemma psafe_retires_more {R} t rest : forall done l (k : pprog R) Q i0,
  l_w (fst l) = WStart i0 -> covered done (snd l) i0 ->
  (forall l' i, rfields (fst l') = rfields (fst l) -> l_w (fst l') = WStart i -> covered (done ++ rest) (snd l') i ->
     psafe t k l' Q) ->
  psafe t (emit_all "retire" rest k) l Q.
Proof.
  induction rest as [|p r IH]; intros done l k Q i0 Hw Hc Hk; cbn [emit_all].
  - apply Hk with (i := i0); auto. rewrite app_nil_r. exact Hc.
  - apply psafe_retire1; [rewrite Hw; intros []|]. intros l' i Hr Hw' Hi Hs.
    apply IH with (done := done ++ [p]) (i0 := i); [exact Hw'| |].
    + intros q Hq. apply in_app_or in Hq. destruct Hq as [Hq|[<-|[]]].
      * rewrite Hs. eapply covered_weaken; [exact Hc| |exact Hq]. apply Hi. rewrite Hw. reflexivity.
      * exists i. rewrite Hs. split; [left; reflexivity|lia].
    + intros l'' i' Hr' Hw'' Hc'. apply Hk with (i := i'); [congruence|exact Hw''|].
      rewrite <- app_assoc in Hc'. exact Hc'.
Qed.

Lemma psafe_dispose1 {R} t p (k : pprog R) l Q i st :
  l_w (fst l) = WFin i -> (exists k0, In (k0, p) (snd l) /\ (k0 <= i)%nat) -> st = WFin i \/ st = WIdle ->
  (forall l', rfields (fst l') = rfields (fst l) -> l_w (fst l') = st -> snd l' = snd l -> psafe t k l' Q) ->
  psafe t (Emit (cli "dispose" [p]) k) l Q.
Proof.
  intros Hw (k0 & Hin & Hk0) Hst Hk. cbn [Conc.safe]. intros g [a b] tr [HI HB] Hv. unfold pview in Hv. cbn [fst snd] in Hv.
  assert (Ea : a t = fst l) by (rewrite <- Hv; reflexivity). assert (Eb : b t = snd l) by (rewrite <- Hv; reflexivity).
  exists (updA a t (set_w (a t) st), b). split; [split|split].
  - unfold cli. rewrite tag1. cbn [fst]. eapply step_ev_dispose_at; [exact HI|rewrite Ea; exact Hw| |exact Hk0|exact Hst].
    apply HB. cbn [snd]. rewrite Eb. exact Hin.
  - cbn [snd]. intros t0 k1 p0 Hi. apply at_app_l. eapply HB; eauto.
  - apply pframe; [apply frame_updA|reflexivity].
  - unfold pview. cbn [fst snd]. rewrite updA_same. apply Hk; cbn [fst snd]; [rewrite Ea; reflexivity|reflexivity|exact Eb].
Qed.

Lemma psafe_disposes t p ps : forall l (Q : bool -> PL -> Prop) i,
  l_w (fst l) = WFin i -> covered (p :: ps) (snd l) i ->
  (forall l', rfields (fst l') = rfields (fst l) -> l_w (fst l') = WIdle -> Q true l') ->
  psafe t (emit_all "dispose" (p :: ps) (Ret true)) l Q.
Proof.
  revert p. induction ps as [|q r IH]; intros p l Q i Hw Hc HQ; cbn [emit_all].
  - apply psafe_dispose1 with (i := i) (st := WIdle); [exact Hw|apply Hc; left; reflexivity|right; reflexivity|].
    intros l' Hr Hw' _. cbn. apply HQ; assumption.
  - apply psafe_dispose1 with (i := i) (st := WFin i); [exact Hw|apply Hc; left; reflexivity|left; reflexivity|].
    intros l' Hr Hw' Hs. apply IH with (i := i); [exact Hw'| |].
    + intros x Hx. rewrite Hs. apply Hc. right; exact Hx.
    + intros l'' Hr' Hw''. apply HQ; congruence.
Qed.

Definition PIdle (rec : option nat) (d : nat) (l : PL) : Prop := Idle rec d (fst l).

Lemma Idle_rfields rec d l l' : Idle rec d l -> rfields l' = rfields l -> l_w l' = WIdle -> Idle rec d l'.
Proof.
  intros (H1 & H2 & H3 & H4 & H5) Hr Hw. unfold rfields in Hr. inversion Hr. repeat split; congruence.
Qed.

Lemma psafe_do_batch t fuel rec d ps l (Q : bool -> PL -> Prop) :
  PIdle rec d l -> (forall l', PIdle rec d l' -> Q true l') -> (forall l', Q false l') ->
  psafe t (do_batch fuel ps) l Q.
Proof.
  intros HI HT HF. unfold do_batch. destruct ps as [|p ps]; [cbn; apply HT; exact HI|].
  pose proof HI as (H1 & H2 & H3 & H4 & H5). cbn [emit_all].
  apply psafe_retire1; [rewrite H5; intros []|]. intros l1 i1 Hr1 Hw1 _ Hs1.
  apply psafe_retires_more with (done := [p]) (i0 := i1); [exact Hw1| |].
  { intros q [<-|[]]. exists i1. rewrite Hs1. split; [left; reflexivity|lia]. }
  intros l2 i2 Hr2 Hw2 Hc2. destruct l2 as [la lb]. cbn [fst snd] in *.
  apply psafe_bind. eapply psafe_weaken; [|apply psafe_lift; eapply safe_synchronize with (i := i2)
     (Q := fun ok l' => ok = true -> l' = set_w la (WFin i2)); [exact Hw2|intros _; reflexivity|intros l' X; discriminate X]].
  intros [|] [la' lb'] (HQ & Hsn); cbn [fst snd] in *; [|cbn; apply HF].
  specialize (HQ eq_refl). subst la' lb'.
  apply psafe_disposes with (i := i2); cbn [fst snd]; [reflexivity|exact Hc2|].
  intros l' Hr' Hw'. apply HT. unfold PIdle. eapply Idle_rfields; [exact HI| |exact Hw'].
  rewrite Hr'. change (rfields (set_w la (WFin i2))) with (rfields la). rewrite Hr2. exact Hr1.
Qed.

Lemma psafe_do_release t fuel rec d ps l (Q : bool -> PL -> Prop) :
  PIdle rec d l -> (forall l', PIdle rec d l' -> Q true l') -> (forall l', Q false l') ->
  psafe t (do_release fuel ps) l Q.
Proof.
  intros HI HT HF. unfold do_release. destruct ps as [|p ps]; [cbn; apply HT; exact HI|].
  apply psafe_emit_neutral; [neu|]. apply psafe_do_batch with (rec := rec) (d := d); assumption.
Qed.

(** ** lock / unlock of the client *)
Lemma psafe_rlock t m d l (Q : unit -> PL -> Prop) :
  PIdle (Some m) d l -> depth_ok d = true -> (forall l', PIdle (Some m) (S d) l' -> Q tt l') ->
  psafe t (p_rlock m d) l Q.
Proof.
  intros HI Hok HQ. destruct l as [la lb]. unfold p_rlock.
  eapply psafe_weaken; [|apply psafe_lift; apply safe_do_rlock with (Q := fun _ l' => Idle (Some m) (S d) l'); [exact HI|exact Hok|auto]].
  intros [] l' (H & _). apply HQ. exact H.
Qed.

Lemma psafe_runlock t m d l (Q : unit -> PL -> Prop) :
  PIdle (Some m) (S d) l -> (forall l', PIdle (Some m) d l' -> Q tt l') ->
  psafe t (p_runlock m (S d)) l Q.
Proof.
  intros HI HQ. destruct l as [la lb]. unfold p_runlock.
  eapply psafe_weaken; [|apply psafe_lift; apply safe_do_runlock with (Q := fun _ l' => Idle (Some m) d l'); [exact HI|auto]].
  intros [] l' (H & _). apply HQ. exact H.
Qed.

(** ** client operations *)
Definition PIdleS (s : pst) (l : PL) : Prop :=
  PIdle (s_rec s) (s_depth s) l /\ (s_rec s = None -> s_depth s = O).

Definition PQOp : option pst -> PL -> Prop :=
  fun r l' => match r with Some s' => PIdleS s' l' | None => True end.

Lemma depth_ok_0 : depth_ok O = true.
Proof. reflexivity. Qed.

Section Ops.
  Variables (strict : bool) (fuel : nat) (t : nat).

  Lemma release_then rec d ps l (s' : pst) :
    PIdle rec d l -> s_rec s' = rec -> s_depth s' = d -> (rec = None -> d = O) ->
    psafe t (pbind (do_release fuel ps) (fun ok => if ok then Ret (Some s') else Ret None)) l PQOp.
  Proof.
    intros HI E1 E2 E3. apply psafe_bind. apply psafe_do_release with (rec := rec) (d := d); [exact HI| |intros l'; exact I].
    intros l' HI'. cbn. split; [rewrite E1, E2; exact HI'|rewrite E1, E2; exact E3].
  Qed.

  Lemma erase_loop_safe n m : forall ch l (Q : option (Z * list Z) -> PL -> Prop),
    PIdle (Some m) O l -> (forall r l', PIdle (Some m) O l' -> Q (Some r) l') -> (forall l', Q None l') ->
    psafe t (erase_loop n fuel m ch) l Q.
  Proof.
    induction n as [|n IH]; intros ch l Q HI HS HN; cbn [erase_loop]; [apply HN|].
    apply psafe_bind. apply psafe_rlock; [exact HI|reflexivity|]. intros l1 HI1.
    apply psafe_quiet_then; [apply pquiet_remove_try|].
    intros [ch1|p ch1|ch1|]; [| | |apply HN].
    - apply psafe_bind. apply psafe_runlock; [exact HI1|]. intros l2 HI2. apply HS; exact HI2.
    - apply psafe_bind. apply psafe_runlock; [exact HI1|]. intros l2 HI2. apply HS; exact HI2.
    - apply psafe_bind. apply psafe_runlock; [exact HI1|]. intros l2 HI2. apply IH; auto.
  Qed.

  Lemma run_pop_safe s o l : PIdleS s l -> psafe t (run_pop strict fuel t s o) l PQOp.
  Proof.
    intros (HI & Hnd). destruct s as [rec d rpp rpc xp]. cbn [s_rec s_depth s_rpp s_rpc s_xp] in *.
    destruct o; cbn [run_pop s_rec s_depth s_rpp s_rpc s_xp]; unfold outside; cbn [s_rec s_depth s_rpp s_rpc s_xp].
    - (* attach *) destruct rec as [m|]; [split; assumption|]. rewrite (Hnd eq_refl) in *.
      destruct l as [la lb]. apply psafe_bind.
      eapply psafe_weaken; [|apply psafe_lift; apply safe_attach; exact HI].
      intros [m|] l' (HQ & _); cbn in HQ; [|exact I].
      apply psafe_emit_neutral; [neu|]. split; [exact HQ|discriminate].
    - (* detach *) destruct rec as [m|]; [|split; assumption]. destruct d as [|d]; [|split; assumption].
      destruct l as [la lb]. apply psafe_bind.
      eapply psafe_weaken; [|apply psafe_lift; apply safe_detach with (Q := fun _ l' => Idle None O l'); [exact HI|auto]].
      intros [] l' (HQ & _). apply psafe_emit_neutral; [neu|]. split; [exact HQ|reflexivity].
    - (* rlock *) destruct rec as [m|]; [|split; assumption]. destruct (depth_ok d) eqn:Hok; [|split; assumption].
      apply psafe_bind. apply psafe_rlock; auto. intros l' HI'. split; [exact HI'|discriminate].
    - (* runlock *) destruct rec as [m|]; [|split; assumption]. destruct d as [|d]; [split; assumption|].
      apply psafe_bind. apply psafe_runlock; auto. intros l' HI'. split; [exact HI'|discriminate].
    - (* insert *) destruct rec as [m|]; [|split; assumption]. destruct d as [|d]; cbn [Nat.eqb]; [|split; assumption].
      unfold op_insert. apply psafe_bind. apply psafe_rlock; [exact HI|reflexivity|]. intros l1 HI1.
      apply psafe_quiet_then; [apply pquiet_insert_loop|]. intros [[p ch]|]; [|exact I].
      apply psafe_bind. apply psafe_runlock; [exact HI1|]. intros l2 HI2.
      apply psafe_emit_neutral; [neu|]. apply release_then with (rec := Some m) (d := O); auto; try discriminate.
    - (* find *) destruct rec as [m|]; [|split; assumption]. destruct d as [|d]; cbn [Nat.eqb]; [|split; assumption].
      unfold op_find. apply psafe_bind. apply psafe_rlock; [exact HI|reflexivity|]. intros l1 HI1.
      apply psafe_quiet_then; [apply pquiet_search|]. intros [[p ch]|]; [|exact I].
      apply psafe_quiet_then.
      { destruct (p =? 0); [exact I|]. apply pquiet_payload; [neu|exact I]. }
      intros _. apply psafe_bind. apply psafe_runlock; [exact HI1|]. intros l2 HI2.
      apply release_then with (rec := Some m) (d := O); auto; try discriminate.
    - (* get *) destruct (Nat.eqb d 0); cbv iota; [split; assumption|]. unfold op_get.
      apply psafe_quiet_then; [apply pquiet_search|]. intros [[p ch]|]; [|exact I].
      apply psafe_emit_neutral; [neu|]. split; assumption.
    - (* deref *) destruct (Nat.eqb d 0 || (rpp =? 0)); cbv iota; [split; assumption|]. unfold op_deref. cbn [s_rpp].
      apply psafe_payload; [neu|]. split; assumption.
    - (* rp_release *) destruct (Nat.eqb d 0 || negb strict); cbv iota; [|split; assumption]. unfold op_rp_release. cbn [s_rpc s_rec s_depth s_xp].
      apply release_then with (rec := rec) (d := d); auto.
    - (* erase *) destruct rec as [m|]; [|split; assumption]. destruct d as [|d]; cbn [Nat.eqb]; [|split; assumption].
      unfold op_erase. apply psafe_bind. apply erase_loop_safe; [exact HI| |intros l'; exact I].
      intros [p ch] l1 HI1. apply psafe_emit_neutral; [neu|].
      apply release_then with (rec := Some m) (d := O); auto; try discriminate.
    - (* extract *) destruct rec as [m|]; [|split; assumption].
      destruct d as [|d]; cbn [Nat.eqb andb]; [|split; assumption]. destruct (xp =? 0); cbv iota; [|split; assumption].
      unfold op_extract. apply psafe_bind. apply psafe_rlock; [exact HI|reflexivity|]. intros l1 HI1.
      apply psafe_quiet_then; [apply pquiet_extract_loop|]. intros [[p ch]|]; [|exact I].
      apply psafe_bind. apply psafe_runlock; [exact HI1|]. intros l2 HI2.
      apply psafe_emit_neutral; [neu|]. apply release_then with (rec := Some m) (d := O); auto; try discriminate.
    - (* xderef *) destruct (xp =? 0); cbv iota; [split; assumption|]. unfold op_xderef. cbn [s_xp].
      apply psafe_payload; [neu|]. split; assumption.
    - (* xp_release *) destruct (xp =? 0); cbv iota; [split; assumption|].
      destruct (Nat.eqb d 0 || negb strict); cbv iota; [|split; assumption]. unfold op_xp_release. cbn [s_rpc s_rec s_depth s_xp s_rpp].
      apply release_then with (rec := rec) (d := d); auto.
  Qed.

  Lemma p_leave_all_safe m d : forall l (Q : unit -> PL -> Prop),
    PIdle (Some m) d l -> (forall l', PIdle (Some m) O l' -> Q tt l') -> psafe t (p_leave_all m d) l Q.
  Proof.
    induction d as [|d IH]; intros l Q HI HQ; cbn [p_leave_all].
    - apply HQ; exact HI.
    - apply psafe_bind. apply psafe_runlock; [exact HI|]. intros l' HI'. apply IH; auto.
  Qed.

  Lemma p_finish_safe s l : PIdleS s l -> psafe t (p_finish fuel s) l (@Conc.QTrue PL).
  Proof.
    intros (HI & Hnd). destruct s as [rec d rpp rpc xp]. cbn [s_rec s_depth s_rpp s_rpc s_xp] in *. unfold p_finish.
    cbn [s_rec s_depth s_rpp s_rpc s_xp].
    assert (K : forall l1, PIdle rec O l1 ->
      psafe t (pbind (do_release fuel rpc) (fun ok =>
        if ok then
          pbind (if xp =? 0 then Ret true else do_release fuel [xp]) (fun ok' =>
            if ok' then
              match rec with
              | Some m => pbind (lift (detach m)) (fun _ => Emit (cli "detach" []) (Ret tt))
              | None => Ret tt
              end
            else Emit (cli "outoffuel" []) (Ret tt))
        else Emit (cli "outoffuel" []) (Ret tt))) l1 (@Conc.QTrue PL)).
    { intros l1 HI1. apply psafe_bind. apply psafe_do_release with (rec := rec) (d := O); [exact HI1| |].
      - intros l2 HI2. apply psafe_bind.
        assert (X : forall l3, PIdle rec O l3 ->
                  psafe t (match rec with
                           | Some m => pbind (lift (detach m)) (fun _ => Emit (cli "detach" []) (Ret tt))
                           | None => Ret tt end) l3 (@Conc.QTrue PL)).
        { intros [la lb] HI3. destruct rec as [m|]; [|exact I]. apply psafe_bind.
          eapply psafe_weaken; [|apply psafe_lift; apply safe_detach with (Q := fun _ _ => True); [exact HI3|auto]].
          intros [] l' _. apply psafe_emit_neutral; [neu|exact I]. }
        destruct (xp =? 0); [cbn; apply X; exact HI2|].
        apply psafe_do_release with (rec := rec) (d := O); [exact HI2| |].
        + intros l3 HI3. apply X; exact HI3.
        + intros l3. apply psafe_emit_neutral; [neu|exact I].
      - intros l2. apply psafe_emit_neutral; [neu|exact I]. }
    apply psafe_bind. destruct rec as [m|].
    - apply p_leave_all_safe with (d := d); [exact HI|]. intros l' HI'. apply K; exact HI'.
    - cbn. apply K. rewrite (Hnd eq_refl) in HI. exact HI.
  Qed.

  Lemma run_pops_safe os : forall s l, PIdleS s l -> psafe t (run_pops strict fuel t s os) l (@Conc.QTrue PL).
  Proof.
    induction os as [|o r IH]; intros s l HI; cbn [run_pops].
    - apply p_finish_safe; exact HI.
    - apply psafe_bind. eapply psafe_weaken; [|apply run_pop_safe; exact HI].
      intros [s'|] l' HQ; cbn in HQ.
      + apply IH; exact HQ.
      + apply psafe_emit_neutral; [neu|exact I].
  Qed.
End Ops.

Lemma pthread_safe strict fuel t os : psafe t (pthread strict fuel t os) (l0, []) (@Conc.QTrue PL).
Proof.
  unfold pthread. cbn [Conc.safe]. intros g a tr HI Hv. exists a. split.
  - apply PInv_evs with (g := g); [reflexivity|apply ev_ok1|exact HI].
  - split; [intros ? ?; reflexivity|]. rewrite Hv. apply run_pops_safe. split; [repeat split|reflexivity].
Qed.

Lemma pinit_ok strict fuel ths : Conc.cfg_ok pview PInv (pinit_cfg strict fuel ths).
Proof.
  exists (fun _ => l0, fun _ => []). split.
  - cbn [pinit_cfg Conc.shared Conc.trace]. split; [|intros t k p []].
    destruct (init_ok 0 []) as (a & HI & _). cbn [init_cfg Conc.shared Conc.trace] in HI. cbn [pinit pg_base fst].
    (* the core invariant of the initial state, re-derived for the constant auxiliary state *)
    split; [|split; [|split]].
    + constructor; cbn; try discriminate; try contradiction; auto.
      * intros m _. exists false. reflexivity.
      * intros r. repeat split; auto.
    + constructor; cbn; try contradiction; try (intros w w' []).
      exists false. split; [reflexivity|discriminate].
    + constructor; cbn; [discriminate|intros; exact I].
    + constructor; cbn; try discriminate.
      * intros r s (e & H & _). destruct s; discriminate.
      * intros w i j (e & H & _). destruct i; discriminate.
      * intros w p d (e & H & _). destruct d; discriminate.
  - intros t p Hp. cbn [pinit_cfg Conc.threads] in Hp. rewrite nth_error_map in Hp.
    destruct (nth_error (number O ths) t) as [x|] eqn:E; [|discriminate]. inversion Hp; subst p.
    apply nth_error_number in E. cbn in E. rewrite E. unfold pview. cbn [fst snd]. apply pthread_safe.
Qed.

(** ** the core's theorems for the container client, for every schedule *)
Theorem ptr_dispose_safe_all strict fuel ths c :
  Conc.reach (pinit_cfg strict fuel ths) c -> dispose_safe (Conc.trace c).
Proof.
  intros Hr. destruct (Conc.reach_Inv (pinit_ok strict fuel ths) Hr) as (a & (_ & _ & _ & I4) & _). apply (DS _ _ I4).
Qed.

Theorem ptr_sync_waits_all strict fuel ths c :
  Conc.reach (pinit_cfg strict fuel ths) c -> sync_waits (Conc.trace c).
Proof.
  intros Hr. destruct (Conc.reach_Inv (pinit_ok strict fuel ths) Hr) as (a & (_ & _ & _ & I4) & _). apply (SW _ _ I4).
Qed.
