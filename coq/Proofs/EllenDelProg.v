(** * EllenBinTree<HP> with erase: the functions of the model (search, insert, erase, contains) preserve [DInv] *)
From Coq Require Import ZArith List String Bool Lia PeanoNat.
From LV Require Import Base.Conc Base.Events Base.Lin Spec.Specs Proofs.LinProofs.
From LV Require Import Model.Ellen Proofs.EllenProofs Proofs.EllenDelBase Proofs.EllenDelInv Proofs.EllenDelSteps Proofs.EllenDelCas Proofs.EllenDelOps.
Import ListNotations.
Local Open Scope Z_scope.

Lemma In_hrep op h0 h' l : In h0 l -> hop h0 = op -> In h' (hrep op h' l).
Proof. intros H E. unfold hrep. apply in_map_iff. exists h0. split; [|exact H]. rewrite E, Nat.eqb_refl. reflexivity. Qed.

Section Prog.
Variable keys : list nat.
Notation DSAFE := (DSAFE keys).
Notation DSm := (DSm keys).

Ltac qo := first [apply q_begin|apply q_ld_flags|apply q_ld_child|apply q_ld_upd|apply q_faa_cnt|apply q_fas_cnt|apply q_guard_st|apply q_guard_ld|apply q_sync|apply q_ret_ld|apply q_ret_st].
Ltac oo := first [apply o_begin|apply o_ld_flags|apply o_ld_child|apply o_ld_upd|apply o_faa_cnt|apply o_fas_cnt|apply o_guard_st|apply o_guard_ld|apply o_sync|apply o_ret_ld|apply o_ret_st].
Ltac snx := apply Sm_nx; [qo|oo|intros ?].

Lemma D_absurd {R} t f (k : V -> prog R) lv : (forall g a, DS g a -> view a t = lv -> False) -> DSAFE t (Act f k) lv.
Proof. intros H. unfold EllenDelInv.DSAFE. cbn [Conc.safe]. intros g a tr [Hs _] Hv. exfalso. eauto. Qed.

Definition tlk (t : nat) (lv : dview) (s : TL) : Prop := tid s = t /\ (cser (wc lv) <= ser s)%nat.
Lemma tlk_vle t lv lv1 s : vle lv lv1 -> tlk t lv s -> tlk t lv1 s.
Proof. intros [_ E] [H1 H2]. split; [exact H1|rewrite E; exact H2]. Qed.
Lemma tlk_alloc1 t lv s x s1 : alloc1 s = (x, s1) -> tlk t lv s -> tlk t lv s1.
Proof. unfold alloc1. destruct (fl s); intros E H; inversion E; subst; exact H. Qed.
Lemma tlk_allocn t lv : forall n s xs s1, allocn n s = (xs, s1) -> tlk t lv s -> tlk t lv s1.
Proof.
  induction n as [|n IH]; intros s xs s1 E H; cbn [allocn] in E; [inversion E; subst; exact H|].
  destruct (alloc1 s) as [x s'] eqn:Ea. destruct (allocn n s') as [ys s2] eqn:En. inversion E; subst.
  eapply IH; [exact En|]. eapply tlk_alloc1; eauto.
Qed.
Lemma alloc1_tid s x s1 : alloc1 s = (x, s1) -> tid s1 = tid s /\ ser s1 = ser s.
Proof. unfold alloc1. destruct (fl s); intros E; inversion E; subst; auto. Qed.

Lemma Sm_assign {R} t s slot (k : prog R) lv : DSm t k lv -> DSm t (g_assign s slot k) lv.
Proof. intros H. unfold g_assign. snx. snx. exact H. Qed.
Lemma Sm_clear {R} t s slot (k : prog R) lv : DSm t k lv -> DSm t (g_clear s slot k) lv.
Proof. intros H. unfold g_clear. snx. exact H. Qed.
Lemma Sm_copy {R} t s a b (k : prog R) lv : DSm t k lv -> DSm t (g_copy s a b k) lv.
Proof. intros H. unfold g_copy. snx. snx. snx. exact H. Qed.
Lemma Sm_retire {R} t s (k : prog R) lv : DSm t k lv -> DSm t (retire s k) lv.
Proof. intros H. unfold retire. snx. snx. exact H. Qed.
Lemma Sm_free_all {R} t slots : forall s (k : TL -> prog R) lv,
  tlk t lv s -> (forall s', tlk t lv s' -> DSm t (k s') lv) -> DSm t (g_free_all s slots k) lv.
Proof.
  induction slots as [|x r IH]; intros s k lv Ht H; cbn [g_free_all]; [now apply H|]. apply Sm_clear. apply IH; [exact Ht|exact H].
Qed.

Lemma T_ga_protect_upd {R} t fuel : forall s slot p (k : option uword -> prog R) lv,
  pubk lv p ->
  (forall lv1, vle lv lv1 -> DSm t (k None) lv1) ->
  (forall up lv1, vle lv lv1 -> In (FAv p up) (wf lv1) -> DSm t (k (Some up)) lv1) ->
  DSm t (ga_protect_upd fuel s slot p k) lv.
Proof.
  induction fuel as [|f IH]; intros s slot p k lv Hp H0 H; cbn [ga_protect_upd]; [apply H0, vle_refl|].
  apply Sm_ld_upd; [exact Hp|]. intros w1 lv1 V1 I1. snx. snx. snx. cbn [vw].
  destruct (u_eqb w1 (vw v1)); [now apply H|]. apply IH; [eapply pubk_mono; eauto| |].
  - intros lv2 V2. apply H0. eapply vle_trans; eauto.
  - intros up lv2 V2. apply H. eapply vle_trans; eauto.
Qed.

(** [c] was read as the child of [p] in the direction [rl] of [k0], while the update word of [p] was [updp] *)
Definition Pinfo (lv : dview) (k0 : Z) (p : ptr) (updp : uword) (rl : bool) (c : ptr) : Prop :=
  kpath lv k0 p /\ In (FEv k0 c) (wf lv) /\
  (exists fp kp, In (FFl p fp kp) (wf lv) /\ is_internal_f fp = true /\ rl = (0 <=? cmp_node k0 fp kp)) /\
  In (FCl p updp rl c) (wf lv) /\ (p = root -> In (FRc c) (wf lv)).
Lemma Pinfo_mono lv lv1 k0 p u rl c : vle lv lv1 -> Pinfo lv k0 p u rl c -> Pinfo lv1 k0 p u rl c.
Proof.
  intros V (A & B & (fp & kp & C1 & C2 & C3) & D & E). split; [eapply kpath_mono; eauto|]. split; [eapply vle_in; eauto|].
  split; [exists fp, kp; split; [eapply vle_in; eauto|auto]|]. split; [eapply vle_in; eauto|]. intros X. eapply vle_in; eauto.
Qed.

Lemma T_ga_protect_child {R} t fuel : forall s slot k0 pp fp kp up (k : option ptr -> prog R) lv,
  kpath lv k0 pp -> In (FFl pp fp kp) (wf lv) -> is_internal_f fp = true -> In (FAv pp up) (wf lv) ->
  (forall lv1, vle lv lv1 -> DSm t (k None) lv1) ->
  (forall c lv1, vle lv lv1 -> c <> root -> Pinfo lv1 k0 pp up (0 <=? cmp_node k0 fp kp) c -> DSm t (k (Some c)) lv1) ->
  DSm t (ga_protect_child fuel s slot pp (0 <=? cmp_node k0 fp kp) k) lv.
Proof.
  induction fuel as [|f IH]; intros s slot k0 pp fp kp up k lv H1 H2 H3 H4 H0 Hk; cbn [ga_protect_child]; [apply H0, vle_refl|].
  apply (Sm_ld_child_s keys t k0 pp fp kp up); auto. intros c1 lv1 V1 N1 I1 I2 I3. snx. snx.
  apply (Sm_ld_child_s keys t k0 pp fp kp up); [eapply kpath_mono; eauto|eapply vle_in; eauto|exact H3|eapply vle_in; eauto|].
  intros c2 lv2 V2 N2 _ _ _. cbn [vptr]. assert (V02 : vle lv lv2) by (eapply vle_trans; eauto).
  destruct (Nat.eqb c1 c2).
  - apply Hk; [exact V02|exact N1|]. apply (Pinfo_mono lv1 lv2); [exact V2|].
    refine (conj (kpath_mono _ _ _ _ V1 H1) (conj I1 (conj _ (conj I2 I3)))). exists fp, kp. split; [eapply vle_in; eauto|auto].
  - apply (IH s slot k0 pp fp kp up k lv2); [eapply kpath_mono; eauto|eapply vle_in; eauto|exact H3|eapply vle_in; eauto| |].
    + intros lv3 V3. apply H0. eapply vle_trans; eauto.
    + intros c lv3 V3. apply Hk. eapply vle_trans; eauto.
Qed.

Lemma T_protect_child {R} t fuel : forall s slots k0 pp fp kp up (k : option ptr -> prog R) kf lv,
  kpath lv k0 pp -> In (FFl pp fp kp) (wf lv) -> is_internal_f fp = true -> In (FAv pp up) (wf lv) ->
  (forall lv1, vle lv lv1 -> DSm t (k None) lv1) ->
  (forall c lv1, vle lv lv1 -> c <> root -> Pinfo lv1 k0 pp up (0 <=? cmp_node k0 fp kp) c -> DSm t (k (Some c)) lv1) ->
  (forall lv1, vle lv lv1 -> DSm t kf lv1) ->
  DSm t (protect_child fuel s slots pp (0 <=? cmp_node k0 fp kp) up k kf) lv.
Proof.
  induction fuel as [|f IH]; intros s slots k0 pp fp kp up k kf lv H1 H2 H3 H4 H0 Hk Hf; cbn [protect_child]; [apply Hf, vle_refl|].
  apply (T_ga_protect_child t (S f) s _ k0 pp fp kp up); auto. intros c lv1 V1 Nc Ic.
  apply (T_ga_protect_child t (S f) s _ k0 pp fp kp up); [eapply kpath_mono; eauto|eapply vle_in; eauto|exact H3|eapply vle_in; eauto|intros; apply Hf; eapply vle_trans; eauto|].
  intros cv lv2 V2 _ _. assert (V02 : vle lv lv2) by (eapply vle_trans; eauto). snx.
  destruct (negb (u_eqb (vw v) up)); [now apply H0|].
  destruct (negb (Nat.eqb c cv)).
  { apply (IH s slots k0 pp fp kp up k kf lv2); [eapply kpath_mono; eauto|eapply vle_in; eauto|exact H3|eapply vle_in; eauto| | |].
    - intros lv3 V3. apply H0. eapply vle_trans; eauto.
    - intros c' lv3 V3. apply Hk. eapply vle_trans; eauto.
    - intros lv3 V3. apply Hf. eapply vle_trans; eauto. }
  assert (Ic2 : Pinfo lv2 k0 pp up (0 <=? cmp_node k0 fp kp) c) by (exact (Pinfo_mono _ _ _ _ _ _ _ V2 Ic)).
  destruct (Nat.eqb c null); [apply Sm_clear; now apply Hk|].
  apply Sm_ld_flags; [right; exists k0; apply Ic2|]. intros fc kc lv3 V3 _ _ _ _. assert (V03 : vle lv lv3) by (eapply vle_trans; eauto).
  assert (Ic3 : Pinfo lv3 k0 pp up (0 <=? cmp_node k0 fp kp) c) by (exact (Pinfo_mono _ _ _ _ _ _ _ V3 Ic2)).
  cbn [Ellen.vfl]. destruct (is_internal_f fc); [apply Sm_clear|apply Sm_assign, Sm_clear]; now apply Hk.
Qed.

(** state of the descent of search *)
Definition GPinfo (lv : dview) (k0 : Z) (gp p : ptr) (updgp : uword) (rp : bool) : Prop :=
  (gp = null /\ p = root) \/ (gp <> null /\ p <> root /\ Pinfo lv k0 gp updgp rp p).
Lemma GPinfo_mono lv lv1 k0 gp p u rp : vle lv lv1 -> GPinfo lv k0 gp p u rp -> GPinfo lv1 k0 gp p u rp.
Proof. intros V [H|(A & B & C)]; [now left|right]. split; [exact A|]. split; [exact B|]. eapply Pinfo_mono; eauto. Qed.

Definition Jst (lv : dview) (k0 : Z) (st : sst) : Prop :=
  (x_leaf st = root /\ x_p st = null) \/
  (x_leaf st <> root /\ x_p st <> null /\ Pinfo lv k0 (x_p st) (x_updp st) (x_rl st) (x_leaf st) /\
   GPinfo lv k0 (x_gp st) (x_p st) (x_updgp st) (x_rp st)).

Definition RS (lv : dview) (k0 : Z) (r : sres) (found : bool) : Prop :=
  Pinfo lv k0 (r_p r) (r_updp r) (r_rl r) (r_leaf r) /\ r_leaf r <> root /\
  (exists f0 kl, In (FFl (r_leaf r) f0 kl) (wf lv) /\ is_internal_f f0 = false /\ found = (cmp_node k0 f0 (lkey (r_leaf r)) =? 0)) /\
  GPinfo lv k0 (r_gp r) (r_p r) (r_updgp r) (r_rp r).

Lemma RS_mono lv lv1 k0 r fd : vle lv lv1 -> RS lv k0 r fd -> RS lv1 k0 r fd.
Proof.
  intros V (A & B & (f0 & kl & C1 & C2 & C3) & D). split; [eapply Pinfo_mono; eauto|]. split; [exact B|].
  split; [exists f0, kl; split; [eapply vle_in; eauto|auto]|eapply GPinfo_mono; eauto].
Qed.
Lemma Jst_mono lv lv1 k0 st : vle lv lv1 -> Jst lv k0 st -> Jst lv1 k0 st.
Proof.
  intros V [H|(A & B & C & D)]; [now left|right]. split; [exact A|]. split; [exact B|]. split; [eapply Pinfo_mono; eauto|eapply GPinfo_mono; eauto].
Qed.
Lemma Jst0 lv k0 : Jst lv k0 st0.
Proof. left. split; reflexivity. Qed.

Lemma T_srch {R} t fuel : forall s slots k0 st (k : sres -> bool -> prog R) kf lv,
  Jst lv k0 st ->
  (forall r found lv1, vle lv lv1 -> RS lv1 k0 r found -> DSm t (k r found) lv1) ->
  (forall lv1, vle lv lv1 -> DSm t kf lv1) ->
  DSm t (srch fuel s slots k0 st k kf) lv.
Proof.
  induction fuel as [|f IH]; intros s slots k0 st k kf lv HJ Hk Hf; cbn [srch]; [apply Hf, vle_refl|].
  assert (Hkn : pubk lv (x_leaf st)).
  { destruct HJ as [(E & _)|(_ & _ & (_ & A1 & _) & _)]; [left; exact E|right; eauto]. }
  apply Sm_ld_flags; [exact Hkn|]. intros f1 key1 lv1 V1 I1 F0 F5 _. cbn [Ellen.vfl].
  assert (HJ1 : Jst lv1 k0 st) by (eapply Jst_mono; eauto).
  destruct (is_internal_f f1) eqn:Ei1.
  - apply Sm_copy, Sm_copy, Sm_copy. cbv zeta. set (pp := x_leaf st).
    assert (Hretry : forall lv2, vle lv1 lv2 -> DSm t (srch f s slots k0 (st_retry (x_p st) (x_updp st) (x_rl st)) k kf) lv2).
    { intros lv2 V2. apply IH.
      - left. split; reflexivity.
      - intros r found lv3 V3. apply Hk. eapply vle_trans; [exact V1|]. eapply vle_trans; eauto.
      - intros lv3 V3. apply Hf. eapply vle_trans; [exact V1|]. eapply vle_trans; eauto. }
    apply T_ga_protect_upd; [eapply pubk_mono; eauto|intros lv2 V2; apply Hf; eapply vle_trans; eauto|].
    intros up lv2 V2 Iup.
    destruct (Nat.eqb (snd up) 1 || Nat.eqb (snd up) 3); [now apply Hretry|].
    assert (Hkn2 : pubk lv2 pp) by (eapply pubk_mono; [|exact Hkn]; eapply vle_trans; eauto).
    apply Sm_ld_flags; [exact Hkn2|]. intros f2 key2 lv3 V3 I3 _ _ Fc. cbn [Ellen.vfl vkey].
    assert (V13 : vle lv1 lv3) by (eapply vle_trans; eauto).
    assert (E21 : f1 = f2) by (apply (Fc f1 key1); eapply vle_in; eauto).
    assert (Hpp : kpath lv3 k0 pp).
    { destruct HJ as [(E & _)|(_ & _ & (_ & A1 & _) & _)]; [left; exact E|right; eapply vle_in; [|exact A1]; eapply vle_trans; eauto]. }
    assert (Hppn : pp <> null) by (intros E; specialize (F0 E); subst f1; discriminate).
    apply (T_protect_child t (S f) s slots k0 pp f2 key2 up); [exact Hpp|exact I3|congruence|exact (vle_in _ _ _ V3 Iup)| | |].
    + intros lv4 V4. apply Hretry. eapply vle_trans; eauto.
    + intros c lv4 V4 Nc Ic. apply IH.
      * right. cbn [x_leaf x_p x_gp x_updp x_updgp x_rl x_rp]. split; [exact Nc|]. split; [exact Hppn|]. split; [exact Ic|].
        assert (V04 : vle lv lv4) by (eapply vle_trans; [exact V1|]; eapply vle_trans; [exact V13|exact V4]).
        destruct HJ as [(E1 & E2)|(A1 & A2 & A3 & A4)].
        -- left. split; [exact E2|exact E1].
        -- right. split; [exact A2|]. split; [exact A1|]. eapply Pinfo_mono; eauto.
      * intros r found lv5 V5. apply Hk. eapply vle_trans; [exact V1|]. eapply vle_trans; [exact V13|]. eapply vle_trans; eauto.
      * intros lv5 V5. apply Hf. eapply vle_trans; [exact V1|]. eapply vle_trans; [exact V13|]. eapply vle_trans; eauto.
    + intros lv4 V4. apply Hf. eapply vle_trans; [exact V1|]. eapply vle_trans; eauto.
  - apply Sm_ld_flags; [eapply pubk_mono; eauto|]. intros f2 key2 lv2 V2 I2 _ _ Fc. cbn [Ellen.vfl].
    assert (E21 : f1 = f2) by (apply (Fc f1 key1); exact I1).
    assert (V02 : vle lv lv2) by (eapply vle_trans; eauto).
    apply Hk; [exact V02|]. destruct HJ as [(E & _)|(A1 & A2 & A3 & A4)].
    { specialize (F5 E). subst f1. discriminate. }
    unfold RS. cbn [r_p r_leaf r_rl r_gp r_updp r_updgp r_rp]. split; [eapply Pinfo_mono; eauto|]. split; [exact A1|].
    split; [exists f2, key2; split; [exact I2|split; [congruence|reflexivity]]|eapply GPinfo_mono; eauto].
Qed.

(** ** insert *)
Definition ni_ok (lv : dview) (ni : ptr) : Prop := exists fn key l r, cni (wc lv) = Some (ni, fn, key, l, r) /\ (fn = 1 \/ fn = 3).

Lemma uw_eta (w : uword) : snd w = 0%nat -> (fst w, 0%nat) = w.
Proof. destruct w; cbn; intros ->; reflexivity. Qed.

Lemma T_try_insert {R} t s k0 leaf ni r (k : TL -> bool -> prog R) lv :
  (t < 64)%nat -> tlk t lv s -> 0 <= k0 < 8 -> RS lv k0 r false -> snd (r_updp r) = 0%nat ->
  cleaf (wc lv) = Some leaf -> lkey leaf = k0 -> ni_ok lv ni -> cst (wc lv) = @Pending SetSpec (SInsert k0) ->
  (forall s' lv1, tlk t lv1 s' -> cleaf (wc lv1) = Some leaf -> ni_ok lv1 ni -> cst (wc lv1) = @Pending SetSpec (SInsert k0) -> DSm t (k s' false) lv1) ->
  (forall s' lv1, tlk t lv1 s' -> cst (wc lv1) = @Linearized SetSpec (SInsert k0) (RBool true) -> DSm t (k s' true) lv1) ->
  DSm t (try_insert s k0 leaf ni r k) lv.
Proof.
  intros Hlt Ht Hk0 HRS Hcl Hleaf Hlk (fn & keyn & ca & cb & Hni & Hfn) Hst Hkf Hkt. unfold try_insert.
  destruct HRS as ((Hp & Hl & (fp & kp & P1 & P2 & P3) & Hfc & Hrc) & Nlr & (f0s & kls & L1 & L2 & L3) & GP).
  destruct r as [xgp xp xleaf xupdp xupdgp xrp xrl]. cbn [r_gp r_p r_leaf r_updp r_updgp r_rp r_rl] in *. subst xrl.
  pose (r := mkS xgp xp xleaf xupdp xupdgp xrp (0 <=? cmp_node k0 fp kp)). fold r.
  cbv beta. match goal with |- ?G => idtac G end. apply Sm_nx; [apply q_ld_child|apply o_ld_child|intros v].
  destruct (negb (Nat.eqb (vptr v) (r_leaf r))).
  { apply Hkf; auto. exists fn, keyn, ca, cb; auto. }
  apply Sm_ld_flags; [right; exists k0; exact Hl|]. intros f0 kl lv2 V2 I2 _ _ Fc. cbn [Ellen.vfl].
  pose proof V2 as [V2i V2c].
  assert (Ef0 : f0s = f0) by (apply (Fc f0s kls); exact L1).
  assert (Hni2 : cni (wc lv2) = Some (ni, fn, keyn, ca, cb)) by (rewrite V2c; exact Hni).
  set (ncmp := cmp_node k0 f0 (lkey (r_leaf r))).
  assert (Hnz : (ncmp =? 0) = false) by (unfold ncmp; rewrite <- Ef0; symmetry; exact L3).
  assert (Hrest : forall fn' keyn' a' b' lv3, incl (wf lv2) (wf lv3) ->
            wc lv3 = mkC (cleaf (wc lv)) (Some (ni, fn', keyn', a', b')) (chs (wc lv)) (cser (wc lv)) (cst (wc lv)) ->
            (fn' = 1 \/ fn' = 3) -> ins_shape k0 (r_p r) (r_leaf r) f0 leaf fn' keyn' a' b' ->
            DSm t (let (g, s1) := alloc1 s in
                     let (op, s2) := new_obj s1 2 0 in
                     g_assign s2 g
                       (Act (a_cas_upd (r_p r) (fst (r_updp r), 0%nat) (op, 2%nat)) (fun c0 =>
                          if vok c0 then help_insert r ni op (retire s2 (g_clear s2 g (k (free1 g s2) true)))
                          else g_clear s2 g (k (free1 g s2) false)))) lv3).
  { intros fn' keyn' a' b' lv3 Vi Ec Hfn3 Hshape.
    assert (In3 : forall f, In f (wf lv) -> In f (wf lv3)) by (intros f Hf; apply Vi, V2i, Hf).
    destruct (alloc1 s) as [g s1] eqn:Ea. unfold new_obj. destruct (alloc1_tid _ _ _ Ea) as [Et Es]. destruct Ht as [Ht1 Ht2].
    set (op := mk_id (tid s1) (ser s1) 2 0). set (s2 := mkTL (tid s1) (fl s1) (S (ser s1))).
    assert (Hop1 : (4 <= op)%nat) by apply mk_id_ge.
    assert (Hop2 : owner_of op = t) by (unfold op; rewrite Et, Ht1; apply mk_id_owner; lia).
    assert (Hop3 : ser_of op = ser s1) by (unfold op; rewrite Et, Ht1; apply mk_id_ser; lia).
    apply Sm_assign.
    apply (Sm_cas_flag keys t (r_p r) (r_updp r) op 2 [(r_rl r, r_leaf r)]); auto.
    - destruct Hp as [E|E]; [left; exact E|right; exists k0; now apply In3].
    - exists fp, kp. split; [now apply In3|exact P2].
    - rewrite Ec. cbn [cser]. lia.
    - intros d c [E|[]]. inversion E; subst. now apply In3.
    - intros cur. cbn [vok]. apply Sm_clear. apply Hkf.
      + split; [cbn [free1 tid s2]; congruence|]. rewrite Ec. cbn [cser free1 ser s2]. lia.
      + rewrite Ec. exact Hleaf.
      + exists fn', keyn', a', b'. rewrite Ec. auto.
      + rewrite Ec. exact Hst.
    - cbn [vok]. unfold help_insert.
      set (h0 := mkH (r_p r) op 2 None None [(r_rl r, r_leaf r)]).
      apply (Sm_cas_child_ins keys t k0 (r_p r) fp kp (r_leaf r) f0 kl ni fn' keyn' a' b' leaf op [(r_rl r, r_leaf r)]); cbn [wf wc cni cleaf chs cst].
      + exact Hk0.
      + destruct Hp as [E|E]; [left; exact E|right; now apply In3].
      + now apply In3.
      + exact P2.
      + now apply Vi.
      + rewrite <- Ef0. exact L2.
      + rewrite Ec. reflexivity.
      + rewrite Ec. exact Hleaf.
      + exact Hlk.
      + exact Hshape.
      + now left.
      + now left.
      + rewrite Ec. exact Hst.
      + rewrite Ec. cbn [chs cser]. set (h1 := mkH (r_p r) op 2 None None []).
        eapply (Sm_faa_emp keys t (r_p r) op 2 None []); cbn [wf wc chs].
        * apply (In_hrep op h0); [now left|reflexivity].
        * intros n. cbn [vn]. eapply (Sm_cas_unflag keys t (r_p r) op 2 n None []); unfold set_chs; cbn [wf wc chs cleaf cni cser cst].
          -- apply (In_hrep op h1); [apply (In_hrep op h0); [now left|reflexivity]|reflexivity].
          -- apply Sm_retire, Sm_clear. apply Hkt; [|reflexivity]. split; [cbn [free1 tid s2]; congruence|]. cbn [wc cser free1 ser s2]. lia. }
  assert (Hstep : forall inf key' x y,
            (ins_shape k0 (r_p r) (r_leaf r) f0 leaf (Z.lor 1 inf) key' x y) -> (inf = 0 \/ inf = 2) ->
            DSm t (set_inf ni inf (Act (a_st_left_key ni key' x) (fun _ => Act (a_st_right ni y) (fun _ =>
                     let (g, s1) := alloc1 s in
                     let (op, s2) := new_obj s1 2 0 in
                     g_assign s2 g
                       (Act (a_cas_upd (r_p r) (fst (r_updp r), 0%nat) (op, 2%nat)) (fun c0 =>
                          if vok c0 then help_insert r ni op (retire s2 (g_clear s2 g (k (free1 g s2) true)))
                          else g_clear s2 g (k (free1 g s2) false))))))) lv2).
  { intros inf key' x y Hshape Hinf. unfold set_inf.
    apply (Sm_ld_flags_own keys t ni fn keyn ca cb); [exact Hni2|]. cbn [Ellen.vfl]. rewrite (lor_land_fn fn inf Hfn).
    eapply (Sm_own_ni keys t _ _ lv2 ni fn keyn ca cb (Z.lor 1 inf) keyn ca cb); [apply o_st_flags|apply os_st_flags|exact Hni2| |].
    { intros g E1 E2 E3 E4. cbn [a_st_flags fst snd flags ikey lft rgt]. unfold upd1. rewrite Nat.eqb_refl. auto. }
    intros _. set (lv3 := set_ni lv2 (Some (ni, Z.lor 1 inf, keyn, ca, cb))).
    eapply (Sm_own_ni keys t _ _ lv3 ni (Z.lor 1 inf) keyn ca cb (Z.lor 1 inf) key' x cb); [apply o_st_left_key|apply os_st_left_key|reflexivity| |].
    { intros g E1 E2 E3 E4. cbn [a_st_left_key fst snd flags ikey lft rgt]. unfold upd1. rewrite Nat.eqb_refl. auto. }
    intros _. set (lv4 := set_ni lv3 (Some (ni, Z.lor 1 inf, key', x, cb))).
    eapply (Sm_own_ni keys t _ _ lv4 ni (Z.lor 1 inf) key' x cb (Z.lor 1 inf) key' x y); [apply o_st_right|apply os_st_right|reflexivity| |].
    { intros g E1 E2 E3 E4. cbn [a_st_right set_child fst snd flags ikey lft rgt]. unfold upd1. rewrite Nat.eqb_refl. auto. }
    intros _. apply (Hrest (Z.lor 1 inf) key' x y); auto.
    - cbn. apply incl_refl.
    - cbn [set_ni lv4 lv3 wc cleaf cni chs cser cst]. rewrite V2c. reflexivity.
    - destruct Hinf as [->| ->]; [left|right]; reflexivity. }
  destruct (Z.ltb_spec ncmp 0) as [Hc|Hc].
  - destruct (Nat.eqb_spec (r_gp r) null) as [Eg|Ng]; cbn [negb].
    + apply (Hstep 2 0 leaf (r_leaf r)); [|now right]. left. fold ncmp. split; [exact Hc|]. split; [reflexivity|]. split; [reflexivity|].
      right. split; [|reflexivity]. destruct GP as [(_ & E)|(N & _)]; [exact E|contradiction].
    + apply (Hstep 0 (lkey (r_leaf r)) leaf (r_leaf r)); [|now left]. left. fold ncmp. split; [exact Hc|]. split; [reflexivity|]. split; [reflexivity|].
      left. split; [|split; reflexivity]. destruct GP as [(E & _)|(_ & N & _)]; [contradiction|exact N].
  - apply (Hstep 0 k0 (r_leaf r) leaf); [|now left]. right. fold ncmp. apply Z.eqb_neq in Hnz. split; [lia|]. repeat split; reflexivity.
Qed.

End Prog.
