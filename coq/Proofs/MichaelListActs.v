(** * MichaelListActs: the proof rule [Conc.safe] for each atomic access of the MichaelList model. *)
From Coq Require Import ZArith List String Bool Lia PeanoNat.
From LV Require Import Base.Conc Base.Events Base.Lin Spec.Specs Proofs.LinProofs.
From LV Require Import Model.MichaelList Proofs.MichaelListBase Proofs.MichaelListInv Proofs.MichaelListSteps Proofs.MichaelListLin.
Import ListNotations.
Local Open Scope Z_scope.

Notation safe := (@Conc.safe G V ev aux lview view Inv).

Definition lv_with (lv : lview) (F : list fact) : lview := mkLV F (lv_own lv) (lv_st lv).

(** [l] is a pointer cell the thread may use: m_pHead or the next field of a node it knows to be published *)
Definition ppub (F : list fact) (l : nat) : Prop := l = 0%nat \/ exists k, In (FPub l k) F.
(** the key of [l] (minus infinity for the head) is below [k] *)
Definition klt (F : list fact) (l : nat) (k : Z) : Prop := l = 0%nat \/ exists kl, In (FPub l kl) F /\ kl < k.

Lemma ppub_incl F F' l : incl F F' -> ppub F l -> ppub F' l.
Proof. intros H [->|[k Hk]]; [left; reflexivity|right; exists k; auto]. Qed.
Lemma klt_incl F F' l k : incl F F' -> klt F l k -> klt F' l k.
Proof. intros H [->|(kl & Hk & Hlt)]; [left; reflexivity|right; exists kl; auto]. Qed.

Lemma facts_of_view g a L t lv : IS g a L -> view a t = lv -> Forall (fact_ok g (a_pub a)) (lv_facts lv).
Proof. intros H <-. apply (is_facts _ _ _ H). Qed.

Lemma fact_in g a L t lv f : IS g a L -> view a t = lv -> In f (lv_facts lv) -> fact_ok g (a_pub a) f.
Proof. intros H Hv Hf. pose proof (facts_of_view _ _ _ _ _ H Hv) as K. rewrite Forall_forall in K. auto. Qed.

Lemma ppub_pubz g a L t lv l : IS g a L -> view a t = lv -> ppub (lv_facts lv) l -> pubz a l.
Proof.
  intros H Hv [->|[k Hk]]; [left; reflexivity|]. right.
  pose proof (fact_in _ _ _ _ _ _ H Hv Hk) as K. cbn in K. tauto.
Qed.

Lemma abs_ext g g' L S : (forall x, heap g' x = heap g x) -> abs g L S -> abs g' L S.
Proof.
  intros H Ha k. rewrite (Ha k). split; intros (n & H1 & H2 & H3); exists n; rewrite ?H in *; auto.
Qed.

(** ** accesses without effect on the list (hazard slots, sync_, retired cursor, item counter) *)
Definition neutral (f : act) (v : V) : Prop :=
  forall g, exists g' kd ob, f g = (g', v, [EvAcc kd ob true]) /\ (forall x, heap g' x = heap g x) /\ nalloc g' = nalloc g.

Lemma neutral_nop kd ob : neutral (a_nop kd ob) v0.
Proof. intros g. exists g, kd, ob. auto. Qed.
Lemma neutral_cnt kd d : neutral (a_cnt kd d) v0.
Proof. intros g. eexists _, kd, obj_count. split; [reflexivity|]. cbn. auto. Qed.

(** an access that changes neither list nor allocator; the thread may have learnt new facts *)
Lemma Inv_acc g g' a t lv lv' L tr kd ob ok :
  IS g a L -> IL g a tr L -> view a t = lv ->
  (forall x, heap g' x = heap g x) -> nalloc g' = nalloc g ->
  Forall (fact_ok g (a_pub a)) (lv_facts lv') -> lv_own lv' = lv_own lv -> lv_st lv' = lv_st lv ->
  Inv g' (mk_a a t (a_pub a) lv' (a_atr a)) (tr ++ Conc.tag t [EvAcc kd ob ok]).
Proof.
  intros HS HL Hv H1 H2 Hf Ho Hs. exists L. split.
  - apply (IS_neutral g g' a t lv' (a_atr a) L HS H1 H2 Hf). congruence.
  - apply (IL_acc g g' a t (a_pub a) lv' L L tr kd ob ok HL); [congruence|]. intros S. apply abs_ext. exact H1.
Qed.

Lemma Inv_acc_same g a t lv L tr kd ob ok :
  IS g a L -> IL g a tr L -> view a t = lv ->
  Inv g (mk_a a t (a_pub a) lv (a_atr a)) (tr ++ Conc.tag t [EvAcc kd ob ok]).
Proof.
  intros HS HL Hv. eapply Inv_acc; eauto. eapply facts_of_view; eauto.
Qed.

Lemma safe_neutral {R} t f v (k : V -> prog R) lv Q :
  neutral f v -> safe t (k v) lv Q -> safe t (Act f k) lv Q.
Proof.
  intros Hf Hk. cbn [Conc.safe]. intros g a tr (L & HS & HL) Hv.
  destruct (Hf g) as (g' & kd & ob & E & H1 & H2). rewrite E. cbn [fst snd].
  exists (mk_a a t (a_pub a) lv (a_atr a)). split; [|split; [apply frame_mk|rewrite view_mk_same; exact Hk]].
  eapply Inv_acc; eauto. eapply facts_of_view; eauto.
Qed.

(** ** loads *)
Definition newfacts (l : nat) (v : V) : list fact :=
  (if Nat.eqb (vptr v) 0 then [] else [FPub (vptr v) (vkey v)]) ++
  (if vmark v then [FFrozen l (vptr v)] else []).

Lemma safe_ld {R} t l (k : V -> prog R) lv Q :
  ppub (lv_facts lv) l ->
  (forall v, safe t (k v) (lv_with lv (newfacts l v ++ lv_facts lv)) Q) ->
  safe t (Act (a_ld l) k) lv Q.
Proof.
  intros Hl Hk. cbn [Conc.safe]. intros g a tr (L & HS & HL) Hv.
  unfold a_ld, rd. cbn [fst snd].
  set (v := mkV (nnext (heap g l)) (nmark (heap g l)) (nkey (heap g (nnext (heap g l))))).
  pose proof (ppub_pubz _ _ _ _ _ _ HS Hv Hl) as Hpz.
  exists (mk_a a t (a_pub a) (lv_with lv (newfacts l v ++ lv_facts lv)) (a_atr a)).
  split; [|split; [apply frame_mk|rewrite view_mk_same; apply Hk]].
  apply (Inv_acc g g a t lv _ L tr KLd (obj_loc l) true HS HL Hv (fun _ => eq_refl) eq_refl); [|reflexivity|reflexivity].
  cbn [lv_with lv_facts].
  apply Forall_app. split; [|eapply facts_of_view; eauto].
  unfold newfacts. apply Forall_app. split.
  - subst v; cbn [vptr vkey]. destruct (Nat.eqb_spec (nnext (heap g l)) 0); constructor; [|constructor].
    cbn [fact_ok]. repeat split; auto. destruct (pubz_next _ _ _ _ HS Hpz); [contradiction|assumption].
  - subst v; cbn [vmark vptr]. destruct (nmark (heap g l)) eqn:Em; constructor; [|constructor].
    cbn [fact_ok]. assert (l <> 0%nat).
    { intros ->. rewrite (is_head _ _ _ HS) in Em. discriminate. }
    repeat split; auto. destruct Hpz; [contradiction|assumption].
Qed.

(** ** the three CASes *)
Lemma zmem_zdel k k' S : zmem k (zdel k' S) = true <-> k <> k' /\ zmem k S = true.
Proof.
  unfold zmem, zdel. induction S as [|x S IH]; cbn [filter existsb].
  - split; [discriminate|intros [_ H]; discriminate].
  - destruct (Z.eqb_spec k' x) as [->|Hx]; cbn [negb].
    + rewrite IH. destruct (Z.eqb_spec k x) as [->|Hk]; cbn [orb]; tauto.
    + cbn [existsb]. rewrite orb_true_iff, IH. destruct (Z.eqb_spec k x) as [->|Hk]; intuition congruence.
Qed.

Lemma keys_inj g L n n' : chain_ok g L -> In n L -> In n' L -> nkey (heap g n) = nkey (heap g n') -> n = n'.
Proof.
  intros [_ Hs] Hn Hn' E.
  pose proof (sorted_nonzero _ _ Hs) as Hnz.
  apply osorted_tail in Hs. apply osorted_nodup in Hs.
  revert Hs Hn Hn'. clear -E Hnz. induction L as [|x L IH]; cbn [map In]; intros Hs Hn Hn'; [contradiction|].
  inversion Hs; subst.
  assert (K : forall y, In y L -> nkey (heap g y) = nkey (heap g x) -> False).
  { intros y Hy Ey. apply H1. assert (okey g x = okey g y) as ->; [|apply in_map; exact Hy].
    unfold okey. destruct (Nat.eqb_spec x 0) as [Ex|_]; [exfalso; apply (Hnz x); [left; reflexivity|exact Ex]|].
    destruct (Nat.eqb_spec y 0) as [Ey0|_]; [exfalso; apply (Hnz y); [right; exact Hy|exact Ey0]|]. congruence. }
  destruct Hn as [->|Hn], Hn' as [->|Hn']; auto.
  - exfalso. eapply K; eauto.
  - exfalso. eapply K; eauto.
  - apply IH; auto. intros y Hy. apply Hnz. right; exact Hy.
Qed.

(** physical removal of a marked node: helping in [search], second CAS of [unlink_node] *)
Lemma safe_cas_unlink {R} t m c nx (k : V -> prog R) lv Q :
  ppub (lv_facts lv) m -> In (FFrozen c nx) (lv_facts lv) ->
  safe t (k (vok true)) lv Q -> safe t (k (vok false)) lv Q ->
  safe t (Act (a_cas m c nx false) k) lv Q.
Proof.
  intros Hm Hfz Hk1 Hk0. cbn [Conc.safe]. intros g a tr (L & HS & HL) Hv.
  pose proof (ppub_pubz _ _ _ _ _ _ HS Hv Hm) as Hpz.
  pose proof (fact_in _ _ _ _ _ _ HS Hv Hfz) as (Hc0 & Hcp & Hcm & Hcn).
  unfold a_cas, rd. destruct (Nat.eqb_spec (nnext (heap g m)) c) as [E1|E1]; cbn [andb].
  - destruct (nmark (heap g m)) eqn:E2; cbn [negb fst snd].
    + (* failed *)
      exists (mk_a a t (a_pub a) lv (a_atr a)). split; [|split; [apply frame_mk|rewrite view_mk_same; exact Hk0]].
      eapply Inv_acc_same; eauto.
    + assert (HF : Forall (fact_ok (wr g m nx false) (a_pub a)) (lv_facts lv)).
      { eapply facts_stable; [|eapply facts_of_view; eauto]. intros n Hn. rewrite nkey_wr. repeat split; auto.
        - assert (n <> m) by congruence. rewrite heap_wr_other; auto.
        - assert (n <> m) by congruence. rewrite heap_wr_other; auto. }
      destruct (IS_unlink g a t lv (a_atr a) L m c nx HS Hpz E2 E1 Hc0 Hcp Hcm Hcn HF) as (L' & HS' & HcL & HL'); [congruence|].
      exists (mk_a a t (a_pub a) lv (a_atr a)). split; [|split; [apply frame_mk|rewrite view_mk_same; exact Hk1]].
      exists L'. split; [exact HS'|].
      apply (IL_acc g _ a t (a_pub a) lv L L' tr KCas (obj_loc m) true HL); [congruence|].
      intros S Ha k0. rewrite (Ha k0). split.
      * intros (n & H1 & H2 & H3). exists n. assert (n <> c) by congruence.
        split; [apply HL'; auto|]. rewrite nkey_wr. split; auto.
        destruct (Nat.eq_dec n m) as [->|Hn]; [rewrite heap_wr_same; reflexivity|now rewrite heap_wr_other].
      * intros (n & H1 & H2 & H3). exists n. apply HL' in H1. destruct H1 as [H1 Hnc]. rewrite nkey_wr in H3.
        split; auto. split; auto.
        destruct (Nat.eq_dec n m) as [->|Hn]; [exact E2|now rewrite heap_wr_other in H2].
  - cbn [fst snd].
    exists (mk_a a t (a_pub a) lv (a_atr a)). split; [|split; [apply frame_mk|rewrite view_mk_same; exact Hk0]].
    eapply Inv_acc_same; eauto.
Qed.

(** logical deletion: the linearization point of erase / unlink / extract *)
Lemma safe_cas_mark {R} t c kc nx (k : V -> prog R) lv Q :
  In (FPub c kc) (lv_facts lv) -> lv_st lv = @Pending SetSpec (SErase kc) ->
  safe t (k (vok true)) (mkLV (FFrozen c nx :: lv_facts lv) (lv_own lv) (@Linearized SetSpec (SErase kc) (RBool true))) Q ->
  safe t (k (vok false)) lv Q ->
  safe t (Act (a_cas c nx nx true) k) lv Q.
Proof.
  intros Hc Hst Hk1 Hk0. cbn [Conc.safe]. intros g a tr (L & HS & HL) Hv.
  pose proof (fact_in _ _ _ _ _ _ HS Hv Hc) as (Hc0 & Hcp & Hck).
  unfold a_cas, rd. destruct (Nat.eqb_spec (nnext (heap g c)) nx) as [E1|E1]; cbn [andb].
  - destruct (nmark (heap g c)) eqn:E2; cbn [negb fst snd].
    + exists (mk_a a t (a_pub a) lv (a_atr a)). split; [|split; [apply frame_mk|rewrite view_mk_same; exact Hk0]].
      eapply Inv_acc_same; eauto.
    + set (lv' := mkLV (FFrozen c nx :: lv_facts lv) (lv_own lv) (@Linearized SetSpec (SErase kc) (RBool true))).
      assert (HF : Forall (fact_ok (wr g c nx true) (a_pub a)) (lv_facts lv')).
      { cbn [lv' lv_facts]. constructor.
        - cbn [fact_ok]. rewrite heap_wr_same. cbn. auto.
        - eapply facts_stable; [|eapply facts_of_view; eauto]. intros n Hn. rewrite nkey_wr. repeat split; auto.
          + assert (n <> c) by congruence. rewrite heap_wr_other; auto.
          + assert (n <> c) by congruence. rewrite heap_wr_other; auto. }
      pose proof (IS_mark g a t lv' (a_atr a ++ [ALin t]) L c nx HS Hcp E2 E1 HF) as HS'.
      exists (mk_a a t (a_pub a) lv' (a_atr a ++ [ALin t])).
      split; [|split; [apply frame_mk|rewrite view_mk_same; exact Hk1]].
      exists L. split; [apply HS'; cbn; congruence|].
      eapply IL_lp; eauto; [rewrite Hv; exact Hst|].
      intros S Ha.
      assert (HcL : In c L) by (apply (is_pub _ _ _ HS c Hcp); exact E2).
      assert (Hz : zmem kc S = true) by (apply Ha; exists c; auto).
      cbn [set_step]. rewrite Hz. cbn [fst snd]. split; [|reflexivity].
      intros k0. rewrite zmem_zdel, (Ha k0). split.
      * intros (Hne & n & H1 & H2 & H3). exists n. split; auto. rewrite nkey_wr. split; auto.
        assert (n <> c) by (intros ->; congruence). now rewrite heap_wr_other.
      * intros (n & H1 & H2 & H3). rewrite nkey_wr in H3.
        assert (Hnc : n <> c) by (intros ->; rewrite heap_wr_same in H2; discriminate).
        rewrite heap_wr_other in H2 by exact Hnc. split; [|exists n; auto].
        intros ->. apply Hnc. eapply keys_inj; eauto; [apply (is_chain _ _ _ HS)|congruence].
  - cbn [fst snd].
    exists (mk_a a t (a_pub a) lv (a_atr a)). split; [|split; [apply frame_mk|rewrite view_mk_same; exact Hk0]].
    eapply Inv_acc_same; eauto.
Qed.

(** linking the caller's node: the linearization point of a successful insert / inserting update *)
Definition ins_op (o : set_op) (kk : Z) : Prop := o = SInsert kk \/ o = SUpdate kk true.
Definition ins_res (o : set_op) : res := match o with SUpdate _ _ => RPair true true | _ => RBool true end.

Lemma safe_cas_link {R} t m pc n kk o (k : V -> prog R) lv Q :
  ppub (lv_facts lv) m -> klt (lv_facts lv) m kk ->
  (pc = 0%nat \/ exists kc, In (FPub pc kc) (lv_facts lv) /\ kk < kc) ->
  lv_own lv = Some (n, kk, pc) -> lv_st lv = @Pending SetSpec o -> ins_op o kk ->
  safe t (k (vok true)) (mkLV (FPub n kk :: lv_facts lv) None (@Linearized SetSpec o (ins_res o))) Q ->
  safe t (k (vok false)) lv Q ->
  safe t (Act (a_cas m pc n false) k) lv Q.
Proof.
  intros Hm Hkm Hkc Hown Hst Hop Hk1 Hk0. cbn [Conc.safe]. intros g a tr (L & HS & HL) Hv.
  pose proof (ppub_pubz _ _ _ _ _ _ HS Hv Hm) as Hpz.
  unfold a_cas, rd. destruct (Nat.eqb_spec (nnext (heap g m)) pc) as [E1|E1]; cbn [andb].
  - destruct (nmark (heap g m)) eqn:E2; cbn [negb fst snd].
    + exists (mk_a a t (a_pub a) lv (a_atr a)). split; [|split; [apply frame_mk|rewrite view_mk_same; exact Hk0]].
      eapply Inv_acc_same; eauto.
    + set (lv' := mkLV (FPub n kk :: lv_facts lv) None (@Linearized SetSpec o (ins_res o))).
      pose proof (is_own _ _ _ HS t) as Kown. rewrite Hv, Hown in Kown. cbn [own_ok] in Kown. destruct Kown as (Kn & Knp & Knh).
      assert (Hnm : n <> m).
      { intros ->. destruct Hpz as [->|Hp]; [lia|congruence]. }
      assert (HF : Forall (fact_ok (wr g m n false) (pub_add (a_pub a) n)) (lv_facts lv')).
      { cbn [lv' lv_facts]. constructor.
        - cbn [fact_ok]. unfold pub_add. rewrite Nat.eqb_refl, nkey_wr, Knh. cbn. repeat split; auto. lia.
        - eapply facts_stable; [|eapply facts_of_view; eauto]. intros x Hx. rewrite nkey_wr.
          split; [unfold pub_add; destruct (Nat.eqb x n); auto|]. split; auto. intros Hmk.
          assert (x <> m) by congruence. rewrite heap_wr_other; auto. }
      assert (Hk1' : olt (okey g m) (Some kk)).
      { unfold okey. destruct Hkm as [->|(kl & Hkl & Hlt)]; [exact I|].
        pose proof (fact_in _ _ _ _ _ _ HS Hv Hkl) as (K0 & _ & K2). destruct (Nat.eqb_spec m 0); [contradiction|].
        cbn. lia. }
      assert (Hk2' : pc = 0%nat \/ kk < nkey (heap g pc)).
      { destruct Hkc as [->|(kc & Hkc & Hlt)]; [left; reflexivity|right].
        pose proof (fact_in _ _ _ _ _ _ HS Hv Hkc) as (_ & _ & K2). lia. }
      rewrite <- Hv in Hown.
      destruct (IS_link g a t lv' (a_atr a ++ [ALin t]) L m n kk pc HS Hpz E2 E1 Hown Hk1' Hk2' HF eq_refl) as (L' & HS' & HnL & HL').
      exists (mk_a a t (pub_add (a_pub a) n) lv' (a_atr a ++ [ALin t])).
      split; [|split; [apply frame_mk|rewrite view_mk_same; exact Hk1]].
      exists L'. split; [exact HS'|].
      eapply IL_lp; eauto; [rewrite Hv; exact Hst|].
      intros S Ha.
      assert (Hkey : forall x, nkey (heap (wr g m n false) x) = nkey (heap g x)) by (intros; apply nkey_wr).
      assert (Hz : zmem kk S = false).
      { destruct (zmem kk S) eqn:Ez; auto. exfalso. apply Ha in Ez. destruct Ez as (x & H1 & H2 & H3).
        apply HnL. replace n with x; [exact H1|].
        eapply (keys_inj (wr g m n false) L'); [apply (is_chain _ _ _ HS')|apply HL'; auto|apply HL'; auto|].
        rewrite !Hkey, Knh. exact H3. }
      assert (Hmark : forall x, x <> n -> nmark (heap (wr g m n false) x) = nmark (heap g x)).
      { intros x Hx. destruct (Nat.eq_dec x m) as [->|Hxm]; [rewrite heap_wr_same; cbn; congruence|now rewrite heap_wr_other]. }
      assert (Habs : abs (wr g m n false) L' (kk :: S)).
      { intros k0. cbn [zmem existsb]. rewrite orb_true_iff. fold (zmem k0 S). rewrite (Ha k0). split.
        - intros [Ek|(x & H1 & H2 & H3)].
          + apply Z.eqb_eq in Ek. subst k0. exists n. split; [apply HL'; auto|].
            rewrite heap_wr_other by exact Hnm. rewrite Knh. auto.
          + exists x. assert (x <> n) by (intros ->; contradiction).
            split; [apply HL'; auto|]. rewrite Hkey, Hmark; auto.
        - intros (x & H1 & H2 & H3). apply HL' in H1. destruct H1 as [->|H1].
          + left. rewrite Hkey, Knh in H3. cbn in H3. subst k0. apply Z.eqb_refl.
          + right. exists x. assert (x <> n) by (intros ->; contradiction).
            rewrite Hkey in H3. rewrite Hmark in H2; auto. }
      destruct Hop as [->| ->]; cbn [set_step ins_res]; rewrite Hz; cbn [fst snd]; auto.
  - cbn [fst snd].
    exists (mk_a a t (a_pub a) lv (a_atr a)). split; [|split; [apply frame_mk|rewrite view_mk_same; exact Hk0]].
    eapply Inv_acc_same; eauto.
Qed.

(** ** stores to the caller's own node *)
Lemma safe_alloc_st {R} t kk p (k : V -> prog R) lv Q :
  (forall n, safe t (k (mkV n false kk)) (mkLV (lv_facts lv) (Some (n, kk, p)) (lv_st lv)) Q) ->
  safe t (Act (a_alloc_st kk p) k) lv Q.
Proof.
  intros Hk. cbn [Conc.safe]. intros g a tr (L & HS & HL) Hv. unfold a_alloc_st. cbn [fst snd].
  change (mkG (upd_heap (heap g) (S (nalloc g)) (mkNode kk p false)) (S (nalloc g)) (count g)) with (alloc_g g kk p).
  set (lv' := mkLV (lv_facts lv) (Some (S (nalloc g), kk, p)) (lv_st lv)).
  exists (mk_a a t (a_pub a) lv' (a_atr a)). split; [|split; [apply frame_mk|rewrite view_mk_same; apply Hk]].
  exists L. split.
  - apply (IS_alloc g a t lv' (a_atr a) L kk p HS); [exact (facts_of_view _ _ _ _ _ HS Hv)|reflexivity].
  - apply (IL_acc g _ a t (a_pub a) lv' L L tr KSt (obj_loc (LNext (S (nalloc g)))) true HL); [cbn; congruence|].
    intros S Ha k0. rewrite (Ha k0).
    assert (Hold : forall x, In x L -> heap (alloc_g g kk p) x = heap g x).
    { intros x Hx. unfold alloc_g; cbn [heap]. apply upd_heap_other.
      apply (is_pubL _ _ _ HS) in Hx. apply (is_pub _ _ _ HS) in Hx. lia. }
    split; intros (x & H1 & H2 & H3); exists x; (split; [exact H1|]);
      [rewrite (Hold x H1)|rewrite (Hold x H1) in H2, H3]; auto.
Qed.

Lemma safe_st_next {R} t n kk nx p (k : V -> prog R) lv Q :
  lv_own lv = Some (n, kk, nx) ->
  (forall v, vptr v = n -> safe t (k v) (mkLV (lv_facts lv) (Some (n, kk, p)) (lv_st lv)) Q) ->
  safe t (Act (a_st_next n p) k) lv Q.
Proof.
  intros Hown Hk. cbn [Conc.safe]. intros g a tr (L & HS & HL) Hv. unfold a_st_next, LNext. cbn [fst snd].
  set (lv' := mkLV (lv_facts lv) (Some (n, kk, p)) (lv_st lv)).
  exists (mk_a a t (a_pub a) lv' (a_atr a)). split; [|split; [apply frame_mk|rewrite view_mk_same; apply Hk; reflexivity]].
  rewrite <- Hv in Hown.
  pose proof (is_own _ _ _ HS t) as Kown. rewrite Hown in Kown. cbn [own_ok] in Kown. destruct Kown as (Kn & Knp & Knh).
  exists L. split.
  - apply (IS_own_store g a t lv' (a_atr a) L n kk nx p HS Hown); [cbn [lv' lv_facts]; rewrite <- Hv; apply (is_facts _ _ _ HS)|reflexivity].
  - apply (IL_acc g _ a t (a_pub a) lv' L L tr KSt (obj_loc (LNext n)) true HL); [cbn; congruence|].
    intros S Ha k0. rewrite (Ha k0).
    assert (Hold : forall x, In x L -> heap (wr g n p false) x = heap g x).
    { intros x Hx. apply heap_wr_other. apply (is_pubL _ _ _ HS) in Hx. congruence. }
    split; intros (x & H1 & H2 & H3); exists x; (split; [exact H1|]);
      [rewrite (Hold x H1)|rewrite (Hold x H1) in H2, H3]; auto.
Qed.

(** ** client events *)
Lemma safe_emit_other {R} t name args (k : prog R) lv Q :
  String.eqb name "inv" = false -> String.eqb name "ret" = false ->
  safe t k lv Q -> safe t (Emit [EvCli name args] k) lv Q.
Proof.
  intros N1 N2 Hk. cbn [Conc.safe]. intros g a tr (L & HS & HL) Hv.
  exists (mk_a a t (a_pub a) lv (a_atr a)). split; [|split; [apply frame_mk|rewrite view_mk_same; exact Hk]].
  exists L. split; [apply (IS_neutral g g a t _ _ L HS (fun _ => eq_refl) eq_refl); [exact (facts_of_view _ _ _ _ _ HS Hv)|cbn; congruence]|].
  apply IL_cli_other; auto. congruence.
Qed.

Lemma safe_emit_inv {R} t c kk x v (k : prog R) lv Q :
  lv_st lv = @Idle SetSpec ->
  safe t k (mkLV (lv_facts lv) (lv_own lv) (@Pending SetSpec (spec_op c kk x))) Q ->
  safe t (Emit [EvCli "inv" [c; kk; x; v]] k) lv Q.
Proof.
  intros Hi Hk. cbn [Conc.safe]. intros g a tr (L & HS & HL) Hv.
  set (lv' := mkLV (lv_facts lv) (lv_own lv) (@Pending SetSpec (spec_op c kk x))).
  exists (mk_a a t (a_pub a) lv' (a_atr a ++ [@AInv SetSpec t (spec_op c kk x)])).
  split; [|split; [apply frame_mk|rewrite view_mk_same; exact Hk]].
  exists L. split; [apply (IS_neutral g g a t _ _ L HS (fun _ => eq_refl) eq_refl); [exact (facts_of_view _ _ _ _ _ HS Hv)|cbn; congruence]|].
  apply IL_inv; auto. congruence.
Qed.

Lemma safe_emit_ret_lin {R} t o r a1 b1 (k : prog R) lv Q :
  lv_st lv = @Linearized SetSpec o r -> res_of o a1 b1 = r -> is_read o r = false ->
  safe t k (mkLV (lv_facts lv) (lv_own lv) (@Idle SetSpec)) Q ->
  safe t (Emit [EvCli "ret" [a1; b1]] k) lv Q.
Proof.
  intros Hs Hr Hrd Hk. cbn [Conc.safe]. intros g a tr (L & HS & HL) Hv.
  set (lv' := mkLV (lv_facts lv) (lv_own lv) (@Idle SetSpec)).
  exists (mk_a a t (a_pub a) lv' (a_atr a ++ [@ARes SetSpec t r])).
  split; [|split; [apply frame_mk|rewrite view_mk_same; exact Hk]].
  exists L. split; [apply (IS_neutral g g a t _ _ L HS (fun _ => eq_refl) eq_refl); [exact (facts_of_view _ _ _ _ _ HS Hv)|cbn; congruence]|].
  eapply IL_ret_lin; eauto. congruence.
Qed.

Lemma safe_emit_ret_read {R} t o a1 b1 (k : prog R) lv Q :
  lv_st lv = @Pending SetSpec o -> is_read o (res_of o a1 b1) = true ->
  safe t k (mkLV (lv_facts lv) (lv_own lv) (@Idle SetSpec)) Q ->
  safe t (Emit [EvCli "ret" [a1; b1]] k) lv Q.
Proof.
  intros Hs Hrd Hk. cbn [Conc.safe]. intros g a tr (L & HS & HL) Hv.
  set (lv' := mkLV (lv_facts lv) (lv_own lv) (@Idle SetSpec)).
  destruct (IL_ret_read g a t lv' L tr o a1 b1 HL) as (atr' & HL'); auto; [congruence|].
  exists (mk_a a t (a_pub a) lv' atr').
  split; [|split; [apply frame_mk|rewrite view_mk_same; exact Hk]].
  exists L. split; [apply (IS_neutral g g a t _ _ L HS (fun _ => eq_refl) eq_refl); [exact (facts_of_view _ _ _ _ _ HS Hv)|cbn; congruence]|exact HL'].
Qed.
