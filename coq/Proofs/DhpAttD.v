(** * DhpAttD: a new thread record: creation, thread_id_ store, next_ write, push on thread_list_. *)
From Coq Require Import ZArith NArith List String Bool Lia PeanoNat.
From LV Require Import Base.Conc Base.Events Model.DhpLang Model.Dhp Proofs.DhpBase Proofs.DhpHist
  Proofs.DhpLangProofs Proofs.DhpInvA Proofs.DhpStepsA Proofs.DhpQuietA Proofs.DhpSlotA Proofs.DhpScanA Proofs.DhpScanC
  Proofs.DhpPresA Proofs.DhpAllocA Proofs.DhpAllocB Proofs.DhpViewA Proofs.DhpDetB Proofs.DhpDetC Proofs.DhpAttA Proofs.DhpAttC.
Import ListNotations.

Definition with_unpub (l : VA) (u : option (nat * (bool * option (option nat)))) : VA :=
  mkVA (va_tls l) u (va_hold l) (va_help l) (va_node l) (va_blk l) (va_e l) (va_limbo l) (va_scan l).
Definition with_unpub_hold (l : VA) (u : option (nat * (bool * option (option nat)))) (hd : option nat) : VA :=
  mkVA (va_tls l) u hd (va_help l) (va_node l) (va_blk l) (va_e l) (va_limbo l) (va_scan l).

Section AttD.
  Variable c : cfg.

  (** views that differ from [a] only in [va_unpub] / [va_hold] of thread t *)
  Lemma views_unpub_hold a t l u hd : views a t = l ->
    let a' := upd_aux a t (with_unpub_hold l u hd) (bown a) in
    (forall t', t' <> t -> views a' t' = views a t') /\ views a' t = with_unpub_hold (views a t) u hd /\
    forall t', va_tls (views a' t') = va_tls (views a t') /\ va_help (views a' t') = va_help (views a t') /\
               va_node (views a' t') = va_node (views a t') /\ va_blk (views a' t') = va_blk (views a t') /\
               va_e (views a' t') = va_e (views a t') /\ va_limbo (views a' t') = va_limbo (views a t') /\
               va_scan (views a' t') = va_scan (views a t').
  Proof.
    intros Hv a'. assert (V : forall t', t' <> t -> views a' t' = views a t') by (intros t' N; unfold a'; now apply upd_aux_other).
    assert (Vs : views a' t = with_unpub_hold (views a t) u hd) by (unfold a'; rewrite upd_aux_same, Hv; reflexivity).
    split; auto. split; auto. intros t'. destruct (Nat.eq_dec t' t) as [->|N]; [rewrite Vs; cbn; repeat split; auto|rewrite (V t' N); repeat split; reflexivity].
  Qed.

  (** next_ of an unpublished record written *)
  Lemma JA_unpub_next g a h t l r bt nx old :
    JA c g a h -> views a t = l -> va_unpub l = Some (r, (bt, nx)) ->
    JA c (upd_rec g r (rs_next old)) (upd_aux a t (with_unpub_hold l (Some (r, (bt, Some old))) (va_hold l)) (bown a)) h.
  Proof.
    intros J Hv Hu. pose proof J as [J1 J2 J3 J4 J5 J6 J7 J8 J9 J10 J11 J12 J15 J16 J17 J18 J13 J14].
    set (g' := upd_rec g r (rs_next old)).
    destruct (views_unpub_hold a t l (Some (r, (bt, Some old))) (va_hold l) Hv) as (V & Vs & F).
    set (a' := upd_aux a t (with_unpub_hold l (Some (r, (bt, Some old))) (va_hold l)) (bown a)) in *.
    rewrite <- Hv in Hu. destruct (J5 t r _ Hu) as (Rlt & Ratt & Rnl & Rext & Rinfo & Runi).
    assert (Eo : forall r', r' <> r -> grec g' r' = grec g r') by (intros r' N; unfold g'; apply grec_upd_rec_other; congruence).
    assert (Es : grec g' r = rs_next old (grec g r)) by (unfold g'; now apply grec_upd_rec_same).
    assert (Lr : List.length (recs g') = List.length (recs g)) by (unfold g', upd_rec; cbn; apply upd_nth_length).
    assert (Et : tlist g' = tlist g) by reflexivity. assert (Lgb : gbs g' = gbs g) by reflexivity.
    assert (Esl : forall r', r_slots (grec g' r') = r_slots (grec g r')).
    { intros r'. destruct (Nat.eq_dec r' r) as [->|N]; [rewrite Es; reflexivity|now rewrite Eo]. }
    assert (Etid : forall r', r_tid (grec g' r') = r_tid (grec g r')).
    { intros r'. destruct (Nat.eq_dec r' r) as [->|N]; [rewrite Es; reflexivity|now rewrite Eo]. }
    assert (Ex : forall r', r_ext (grec g' r') = r_ext (grec g r')).
    { intros r'. destruct (Nat.eq_dec r' r) as [->|N]; [rewrite Es; reflexivity|now rewrite Eo]. }
    assert (Rc : forall o l0, ~ In r l0 -> (rchain g o l0 <-> rchain g' o l0)).
    { intros o' l'; revert o'; induction l' as [|x l' IH]; intros o' Hn; cbn; [tauto|].
      assert (x <> r) by (intros ->; apply Hn; now left). rewrite (Eo x H), Lr, IH; [tauto|]. intros K. apply Hn. now right. }
    destruct J1 as (L & HL & HLnd). pose proof (Rnl L HL) as RnL.
    assert (HL' : rchain g' (tlist g) L) by (now apply Rc).
    assert (Af : forall o r', after g o r' -> after g' o r').
    { intros o r' (S & H1 & H2 & H3). assert (HnS : ~ In r S) by (intros K; apply RnL; apply (H3 L HL); exact K).
      exists S. split; [now apply Rc|]. split; auto. intros L2 HL2. rewrite Et in HL2. rewrite (rchain_fun _ _ _ _ HL2 HL'). now apply H3. }
    assert (Gc : forall o S, gchain c g o S <-> gchain c g' o S).
    { intros o S. split; apply gchain_ext; try (apply Nat.le_refl); intros; split; reflexivity. }
    assert (Nin : forall r', after g (tlist g) r' -> r' <> r).
    { intros r' (S & H1 & H2 & H3) ->. apply RnL. apply (H3 L HL). exact H2. }
    assert (B : bown a' = bown a) by reflexivity.
    constructor; rewrite ?B, ?Lr, ?Et, ?Lgb.
    - exists L. split; auto.
    - intros r' t' k Ha. destruct (J2 r' t' k Ha) as (X1&X2&X3&X4&X5&X6&X7&X8&X9). destruct (F t') as (E&_). rewrite E, Etid, Esl, Ex.
      split; auto. split; auto. split; auto. split; auto. split; auto. split; auto. split; [now apply Gc|]. split; auto.
    - intros t' r' Ht. destruct (F t') as (E&_). rewrite E in Ht. auto.
    - exact J4.
    - intros t' r' bt' Ht. destruct (Nat.eq_dec t' t) as [->|N].
      + rewrite Vs in Ht. cbn in Ht. inversion Ht; subst r' bt'. rewrite Es. cbn [r_tid r_next r_ext rs_next].
        split; auto. split; auto. split; [intros L2 HL2; rewrite (rchain_fun _ _ _ _ HL2 HL'); exact RnL|]. split; auto. split.
        * unfold unpub_info in *. cbn [fst snd r_tid r_next rs_next] in *. split; [destruct nx; tauto|reflexivity].
        * intros t'' bt'' Ht''. destruct (Nat.eq_dec t'' t) as [->|N']; auto. rewrite (V t'' N') in Ht''. eauto.
      + rewrite (V t' N) in Ht. destruct (J5 t' r' bt' Ht) as (X1&X2&X3&X4&X5&X6).
        assert (r' <> r). { intros ->. apply N. eauto. }
        rewrite (Eo r' H). split; auto. split; auto. split; [intros L2 HL2; rewrite (rchain_fun _ _ _ _ HL2 HL'); now apply X3|]. split; auto. split; auto.
        intros t'' bt'' Ht''. destruct (Nat.eq_dec t'' t) as [->|N'].
        * rewrite Vs in Ht''. cbn in Ht''. inversion Ht''. congruence.
        * rewrite (V t'' N') in Ht''. eauto.
    - intros t' r' Ht. assert (Hh : va_hold (views a t') = Some r') by (destruct (Nat.eq_dec t' t) as [->|N]; [rewrite Vs in Ht; cbn in Ht; rewrite <- Hv in Ht; exact Ht|now rewrite (V t' N) in Ht]).
      destruct (F t') as (_&_&_&_&_&E6&_). rewrite E6. destruct (J6 t' r' Hh) as (X1&X2&X3&X4&X5&X6).
      rewrite Etid, Esl, Ex. repeat split; auto.
    - intros t' r' Ht. destruct (F t') as (_&E2&_). rewrite E2 in Ht. destruct (J7 t' r' Ht) as (X1&X2&X3). rewrite Etid. split; auto. split; auto.
      destruct (Nat.eq_dec t' t) as [->|N]; [rewrite Vs; cbn; rewrite <- Hv; exact X3|now rewrite (V t' N)].
    - intros r' Hr Ha. rewrite Ex. destruct (J8 r' Hr Ha) as [X|(t' & X1 & X2)]; [now left|right]. exists t'.
      destruct (F t') as (_&_&_&_&_&E6&_). rewrite E6. split; auto. destruct (Nat.eq_dec t' t) as [->|N]; [rewrite Vs; cbn; rewrite <- Hv; exact X1|now rewrite (V t' N)].
    - intros t' b' Ht. destruct (F t') as (_&_&_&E4&_&E6&_). rewrite E4 in Ht. rewrite E6. exact (J9 t' b' Ht).
    - intros t' o lb' Ht. destruct (F t') as (_&_&_&_&_&E6&_). rewrite E6 in Ht. destruct (J10 t' o lb' Ht) as (X1&X2&X3). split; [now apply Gc|auto].
    - exact J11.
    - exact J12.
    - intros r' Hr. rewrite Esl. auto.
    - exact J16.
    - intros t' e f Ht. destruct (F t') as (E1&_&_&E4&E5&_). rewrite E5 in Ht. rewrite E1, E4.
      destruct (J17 t' e f Ht) as (r' & X1 & X2 & X3). exists r'. rewrite Ex. auto.
    - intros t' n Ht. destruct (F t') as (_&_&E3&_). rewrite E3 in Ht. apply Af. eauto.
    - intros s. rewrite <- J13. destruct s as [r' i|x i]; cbn [slot_get]; [now rewrite Esl|reflexivity].
    - intros t'. destruct (F t') as (_&_&_&_&_&_&E7). rewrite E7. specialize (J14 t').
      destruct (va_scan (views a t')) as [ss|]; auto. destruct J14 as (X1 & X2). split; auto.
      apply (scan_ok_frame c g g' h h ss); [lia|intros s; left; auto|exact Af|left; exact Et| | |exact X2].
      + intros n0 Hn0. rewrite (Eo n0 (Nin n0 Hn0)). reflexivity.
      + intros s k Hl Hk. split; auto. split; auto. intros n0 o S0 b i E Hin Hg Hi. split; auto. now apply Gc.
  Qed.
End AttD.
