(** * DhpScanA: smr::scan keeps the C02 invariant, and when its stage 2 hands a pointer to the disposer no
      hazard cell guards that pointer since before the scan began. *)
From Coq Require Import ZArith NArith List String Bool Lia PeanoNat.
From LV Require Import Base.Conc Base.Events Model.DhpLang Model.Dhp Proofs.DhpBase Proofs.DhpHist
  Proofs.DhpLangProofs Proofs.DhpInvA Proofs.DhpStepsA Proofs.DhpQuietA Proofs.DhpSlotA.
Import ListNotations.

Definition with_scan (l : VA) (o : option sstate) : VA :=
  mkVA (va_tls l) (va_unpub l) (va_hold l) (va_help l) (va_node l) (va_blk l) (va_e l) (va_limbo l) o.

Lemma with_scan_same l : with_scan l (va_scan l) = l.
Proof. destruct l; reflexivity. Qed.

Section Scan.
  Variable c : cfg.
  Notation dsafeA := (@dsafe G ev AuxA VA viewA (InvA c)).

  (** changing only the scan component of one thread's view *)
  Lemma JA_set_scan g a h t o :
    JA c g a h ->
    match o with Some ss => scan h t = Some (ss_s0 ss) /\ scan_ok c g h ss | None => scan h t = None end ->
    JA c g (set_view a t (with_scan (views a t) o)) h.
  Proof.
    intros J Ho. destruct J as [J1 J2 J3 J4 J5 J6 J7 J8 J9 J10 J11 J12 J15 J16 J17 J18 J13 J14].
    assert (V : forall t', let v := views (set_view a t (with_scan (views a t) o)) t' in
                let v0 := views a t' in
                va_tls v = va_tls v0 /\ va_unpub v = va_unpub v0 /\ va_hold v = va_hold v0 /\ va_help v = va_help v0 /\
                va_node v = va_node v0 /\ va_blk v = va_blk v0 /\ va_e v = va_e v0 /\ va_limbo v = va_limbo v0 /\
                (t' <> t -> va_scan v = va_scan v0) /\ (t' = t -> va_scan v = o)).
    { intros t'. cbn. destruct (Nat.eqb_spec t' t) as [->|N]; cbn; repeat split; auto; congruence. }
    assert (B : bown (set_view a t (with_scan (views a t) o)) = bown a) by reflexivity.
    constructor; rewrite ?B; auto.
    - intros r t' k Ha. destruct (V t') as (E1&_). rewrite E1. auto.
    - intros t' r Ht. destruct (V t') as (E1&_). rewrite E1 in Ht. auto.
    - intros t' r bt Ht. destruct (V t') as (_&E2&_). rewrite E2 in Ht. destruct (J5 t' r bt Ht) as (X1&X2&X3&X4&X5&X6).
      repeat split; auto. intros t'' bt' Ht''. destruct (V t'') as (_&E2'&_). rewrite E2' in Ht''. eauto.
    - intros t' r Ht. destruct (V t') as (_&_&E3&_&_&_&_&E8&_). rewrite E3 in Ht. rewrite E8. auto.
    - intros t' r Ht. destruct (V t') as (_&_&E3&E4&_). rewrite E4 in Ht. rewrite E3. auto.
    - intros r Hr Ha. destruct (J8 r Hr Ha) as [X|(t' & X1 & X2)]; [left; exact X|right].
      exists t'. destruct (V t') as (_&_&E3&_&_&_&_&E8&_). rewrite E3, E8. auto.
    - intros t' b Ht. destruct (V t') as (_&_&_&_&_&E6&_&E8&_). rewrite E6 in Ht. rewrite E8. auto.
    - intros t' o' lb Ht. destruct (V t') as (_&_&_&_&_&_&_&E8&_). rewrite E8 in Ht. auto.
    - intros t' e f Ht. destruct (V t') as (E1&_&_&_&_&E6&E7&_). rewrite E7 in Ht. rewrite E1, E6. eauto.
    - intros t' n Ht. destruct (V t') as (_&_&_&_&E5&_). rewrite E5 in Ht. eauto.
    - intros t'. destruct (V t') as (_&_&_&_&_&_&_&_&E9&E10). destruct (Nat.eq_dec t' t) as [->|N].
      + rewrite (E10 eq_refl). exact Ho.
      + rewrite (E9 N). apply J14.
  Qed.

  (** ** a step of the scanning thread that only moves its own scan state *)
  Lemma InvA_scan_adv g a tr t es l ss ss' :
    InvA c g a tr -> viewA a t = l -> va_scan l = Some ss -> Forall qev es -> ss_s0 ss' = ss_s0 ss ->
    (forall h, JA c g a h -> scan_ok c g h ss -> scan_ok c g h ss') ->
    InvA c g (set_view a t (with_scan l (Some ss'))) (tr ++ Conc.tag t es).
  Proof.
    intros Hi Hv Hs Hq Hs0 Hadv Hfl.
    destruct (InvA_quiet c g g a tr t es Hi (quietG_refl g) Hq Hfl) as (J & ND). split; [|exact ND].
    unfold viewA in Hv. rewrite <- Hv. apply JA_set_scan; auto.
    pose proof (ja_scan _ _ _ _ J t) as K. rewrite Hv, Hs in K. destruct K as (K1 & K2). split; [congruence|auto].
  Qed.

  Lemma dsafe_load_adv {X R} t (f : A X) (k : X -> @dprog G ev R) l ss (nxt : G -> sstate) Q :
    va_scan l = Some ss -> (forall g, fst (fst (f g)) = g /\ Forall qev (snd (f g))) ->
    (forall g, ss_s0 (nxt g) = ss_s0 ss) ->
    (forall g a h, viewA a t = l -> JA c g a h -> scan_ok c g h ss -> scan_ok c g h (nxt g)) ->
    (forall g, dsafeA t (k (snd (fst (f g)))) (with_scan l (Some (nxt g))) Q) -> dsafeA t (DAct f k) l Q.
  Proof.
    intros Hs Hf H0 Hadv Hk. cbn [dsafe]. intros g a tr Hi Hv. destruct (Hf g) as (E & Hq).
    exists (set_view a t (with_scan l (Some (nxt g)))). rewrite E.
    split; [eapply InvA_scan_adv; eauto; intros h J S; eapply Hadv; eauto|]. split; [apply frame_set_view|]. rewrite view_set_same. apply Hk.
  Qed.

  Lemma dsafe_locread_adv {X R} t (f : G -> G * X) (k : X -> @dprog G ev R) l ss (nxt : G -> sstate) Q :
    va_scan l = Some ss -> (forall g, fst (f g) = g) -> (forall g, ss_s0 (nxt g) = ss_s0 ss) ->
    (forall g a h, viewA a t = l -> JA c g a h -> scan_ok c g h ss -> scan_ok c g h (nxt g)) ->
    (forall g, dsafeA t (k (snd (f g))) (with_scan l (Some (nxt g))) Q) -> dsafeA t (DLoc f k) l Q.
  Proof.
    intros Hs Hf H0 Hadv Hk. cbn [dsafe]. intros g a tr Hi Hv.
    exists (set_view a t (with_scan l (Some (nxt g)))). rewrite Hf.
    split; [|split; [apply frame_set_view|rewrite view_set_same; apply Hk]].
    pose proof (InvA_scan_adv g a tr t [] l ss (nxt g) Hi Hv Hs (Forall_nil _) (H0 g)) as K.
    cbn in K. rewrite app_nil_r in K. apply K. intros h J S. eapply Hadv; eauto.
  Qed.

  (** ** facts about the thread list *)
  Lemma rchain_split g : forall S o n, rchain g o S -> In n S ->
    exists S2, rchain g (r_next (grec g n)) S2 /\ incl S2 S.
  Proof.
    induction S as [|x S IH]; intros o n H Hin; [contradiction|].
    cbn in H. destruct H as (H0 & H1 & H2). destruct Hin as [->|Hin].
    - exists S. split; auto. intros y Hy; now right.
    - destruct (IH _ n H2 Hin) as (S2 & K1 & K2). exists S2. split; auto. intros y Hy; right; auto.
  Qed.

  Lemma after_cons g n r : after g (Some n) r -> r = n \/ after g (r_next (grec g n)) r.
  Proof.
    intros (S & H1 & H2 & H3). destruct S as [|x S]; [contradiction|]. cbn in H1. destruct H1 as (E & _ & H1).
    inversion E; subst x. destruct H2 as [->|H2]; [now left|right].
    exists S. split; auto. split; auto. intros L HL y Hy. apply (H3 L HL). now right.
  Qed.

  Lemma after_next_inlist g n m : after g (tlist g) n -> r_next (grec g n) = Some m -> after g (tlist g) m.
  Proof.
    intros (S & H1 & H2 & H3) E. destruct (rchain_split g S _ n H1 H2) as (S2 & K1 & K2).
    exists S. split; auto. split; auto. rewrite E in K1. destruct S2 as [|y S2]; [discriminate K1|].
    cbn in K1. destruct K1 as (E' & _). inversion E'; subst y. apply K2. now left.
  Qed.

  Lemma after_none g r : ~ after g None r.
  Proof. intros (S & H1 & H2 & _). destruct S; [contradiction|]. cbn in H1. destruct H1; discriminate. Qed.

  Lemma after_head g n : (exists L, rchain g (tlist g) L) -> tlist g = Some n -> after g (tlist g) n.
  Proof.
    intros (L & HL) E. exists L. split; auto. split.
    - rewrite E in HL. destruct L as [|x L]; [discriminate HL|]. cbn in HL. destruct HL as (E' & _). inversion E'. now left.
    - intros L' HL'. rewrite (rchain_fun g _ _ _ HL HL'). apply incl_refl.
  Qed.

  (** ** moving the position / reading a cell *)
  Definition ss_pos_set (ss : sstate) (p : pos) : sstate := mkSS (ss_s0 ss) (ss_pl ss) (ss_seen ss) p.
  Definition ss_load (ss : sstate) (s : gref) (v : nat) (p : pos) : sstate :=
    mkSS (ss_s0 ss) (if Nat.eqb v 0 then ss_pl ss else v :: ss_pl ss) (s :: ss_seen ss) p.

  Lemma scan_ok_pos g h ss p' : scan_ok c g h ss -> pos_ok g p' ->
    (forall s k, live c h s k -> k < ss_s0 ss -> ahead c g h (ss_pos ss) s -> In s (ss_seen ss) \/ ahead c g h p' s) ->
    scan_ok c g h (ss_pos_set ss p').
  Proof.
    intros (S1 & S0 & S2 & S3) Hp Ha. unfold scan_ok. cbn. split; auto. split; auto. split; auto.
    intros s k Hl Hk. destruct (S3 s k Hl Hk) as [X|X]; auto. eapply Ha; eauto.
  Qed.

  Lemma scan_ok_load g h ss s v p' : scan_ok c g h ss -> slotv h s = v -> pos_ok g p' ->
    (forall s' k, live c h s' k -> k < ss_s0 ss -> ahead c g h (ss_pos ss) s' -> s' = s \/ In s' (ss_seen ss) \/ ahead c g h p' s') ->
    scan_ok c g h (ss_load ss s v p').
  Proof.
    intros (S1 & S0 & S2 & S3) Hv Hp Ha. unfold scan_ok. cbn. split; auto. split; auto. split.
    - intros s' w [<-|Hin] Hw Hlt Hnz.
      + rewrite Hv in *. destruct (Nat.eqb_spec v 0); [contradiction|now left].
      + specialize (S2 s' w Hin Hw Hlt Hnz). destruct (Nat.eqb v 0); auto. now right.
    - intros s' k Hl Hk. destruct (S3 s' k Hl Hk) as [X|X]; [left; now right|].
      destruct (Ha s' k Hl Hk X) as [->|[Y|Y]]; [left; now left|left; now right|now right].
  Qed.

  (** a live cell belongs to an attached record *)
  Lemma live_srec g a h s k : JA c g a h -> live c h s k ->
    exists r t k0, srec h s r /\ att h r = Some (t, k0).
  Proof.
    intros J Hl. destruct s as [r i|b i]; cbn in Hl.
    - destruct Hl as (t & H1 & H2). exists r, t, k. split; [reflexivity|auto].
    - destruct Hl as (r & t & k0 & H1 & H2 & H3). exists r, t, k0. split; [exists k; auto|auto].
  Qed.

  Lemma srec_att_unique g a h s r r' t t' k k' : JA c g a h -> srec h s r -> srec h s r' ->
    att h r = Some (t, k) -> att h r' = Some (t', k') -> r = r'.
  Proof.
    intros J H1 H2 A1 A2. destruct s as [r0 i|b i]; cbn in *; [congruence|].
    destruct H1 as (k1 & H1), H2 as (k2 & H2).
    destruct (ja_att _ _ _ _ J r t k A1) as (_&_&_&_&_&_&_&_&X).
    destruct (ja_att _ _ _ _ J r' t' k' A2) as (_&_&_&_&_&_&_&_&Y).
    destruct (X b k1 H1) as (E1&_). destruct (Y b k2 H2) as (E2&_). congruence.
  Qed.

  Lemma srec_unatt g a h s r : JA c g a h -> srec h s r -> att h r = None -> exists i, s = GI r i.
  Proof.
    intros J H1 Ha. destruct s as [r0 i|b i]; cbn in *; [subst; eauto|].
    rewrite (ja_unatt _ _ _ _ J r Ha) in H1. destruct H1 as (k & []).
  Qed.

  (** (b) thread_list_ loaded *)
  Lemma adv_start g a h ss : JA c g a h -> scan_ok c g h ss -> ss_pos ss = PStart ->
    scan_ok c g h (ss_pos_set ss (PNode (tlist g))).
  Proof.
    intros J S E. apply scan_ok_pos; auto.
    - cbn. destruct (tlist g) as [n|] eqn:Et; auto. rewrite <- Et. apply after_head; auto.
      destruct (ja_list _ _ _ _ J) as (L & HL & _). eauto.
    - intros s k Hl Hk _. right. cbn. destruct (live_srec g a h s k J Hl) as (r & t & k0 & H1 & H2).
      exists r. split; auto. destruct (ja_att _ _ _ _ J r t k0 H2) as (_&_&_&_&X&_). exact X.
  Qed.

  (** (c) thread_id_ of record n loaded *)
  Lemma adv_tid g a h ss n : JA c g a h -> scan_ok c g h ss -> ss_pos ss = PNode (Some n) ->
    scan_ok c g h (ss_pos_set ss (if Nat.eqb (r_tid (grec g n)) 0 then PDone n else PInit n 0)).
  Proof.
    intros J S E. pose proof S as (_ & S0 & _). rewrite E in S0. cbn in S0.
    apply scan_ok_pos; auto; [destruct (Nat.eqb _ 0); exact S0|].
    intros s k Hl Hk Ha. rewrite E in Ha. cbn in Ha. destruct Ha as (r & H1 & H2). right.
    destruct (after_cons g n r H2) as [->|H3].
    - destruct (live_srec g a h s k J Hl) as (r' & t & k0 & H4 & H5).
      destruct (att h n) as [[t' k']|] eqn:Ea.
      + destruct (ja_att _ _ _ _ J n t' k' Ea) as (_&Etid&_). rewrite Etid. cbn.
        destruct s as [r0 i|b i]; cbn in H1.
        * subst r0. left. exists i. split; auto. lia.
        * right; left. exists b, i. split; auto.
      + exfalso. destruct (srec_unatt g a h s n J H1 Ea) as (i & ->). cbn in Hl. destruct Hl as (t0 & X & _). congruence.
    - destruct (Nat.eqb _ 0); cbn; [exists r; auto|right; right; exists r; auto].
  Qed.

  (** (d) cell j of the initial array of n loaded *)
  Lemma adv_init g a h ss n j : JA c g a h -> scan_ok c g h ss -> ss_pos ss = PInit n j ->
    scan_ok c g h (ss_load ss (GI n j) (slot_get g (GI n j)) (PInit n (S j))).
  Proof.
    intros J S E. pose proof S as (_ & S0 & _). rewrite E in S0. cbn in S0.
    apply scan_ok_load; auto; [symmetry; apply (ja_slot _ _ _ _ J)|].
    intros s k Hl Hk Ha. rewrite E in Ha. cbn in Ha. destruct Ha as [(i & -> & Hi)|[H|H]].
    - destruct (Nat.eq_dec i j) as [->|N]; [now left|]. right; right. cbn. left. exists i. split; auto. lia.
    - right; right. cbn. right; left. exact H.
    - right; right. cbn. right; right. exact H.
  Qed.

  (** (e) extended_list_ of n loaded, after the whole initial array *)
  Lemma adv_ext g a h ss n j : JA c g a h -> scan_ok c g h ss -> ss_pos ss = PInit n j -> eff_H c <= j ->
    scan_ok c g h (ss_pos_set ss (PChain n (r_ext (grec g n)) 0)).
  Proof.
    intros J S E Hj. pose proof S as (_ & S0 & _). rewrite E in S0. cbn in S0.
    apply scan_ok_pos; auto.
    intros s k Hl Hk Ha. rewrite E in Ha. cbn in Ha. right. cbn. destruct Ha as [(i & -> & Hi)|[(b & i & -> & Hs)|H]].
    - exfalso. cbn in Hl. destruct Hl as (t & _ & X). lia.
    - left. cbn in Hs. destruct Hs as (k1 & Hs).
      destruct (att h n) as [[t' k']|] eqn:Ea; [|rewrite (ja_unatt _ _ _ _ J n Ea) in Hs; contradiction].
      destruct (ja_att _ _ _ _ J n t' k' Ea) as (_&_&_&_&_&_&X&_).
      assert (Hin : In b (map fst (linked h n))) by (apply in_map_iff; exists (b, k1); auto).
      exists b, i, (map fst (linked h n)). split; auto. split; auto. split; [apply incl_refl|].
      destruct (map fst (linked h n)) as [|x S'] eqn:Em; [contradiction|]. destruct Hin as [->|Hin].
      + left. exists S'. split; auto. lia.
      + right. exists x, S'. auto.
    - right. exact H.
  Qed.

  (** (f) cell j of extension block b loaded *)
  Lemma adv_chain g a h ss n b j : JA c g a h -> scan_ok c g h ss -> ss_pos ss = PChain n (Some b) j ->
    scan_ok c g h (ss_load ss (GE b j) (slot_get g (GE b j)) (PChain n (Some b) (S j))).
  Proof.
    intros J S E. pose proof S as (_ & S0 & _). rewrite E in S0. cbn in S0.
    apply scan_ok_load; auto; [symmetry; apply (ja_slot _ _ _ _ J)|].
    intros s k Hl Hk Ha. rewrite E in Ha. cbn in Ha. destruct Ha as [(b' & i & S' & -> & H1 & H2 & H3)|H].
    - destruct H3 as [(S'' & -> & Hi)|(x & S'' & -> & Hin)].
      + pose proof H1 as H1'. cbn in H1. destruct H1 as (Eb & _). inversion Eb; subst b'.
        destruct (Nat.eq_dec i j) as [->|N]; [now left|]. right; right. cbn. left.
        exists b, i, (b :: S''). split; auto. split; [exact H1'|]. split; auto. left. exists S''. split; auto. lia.
      + right; right. cbn. left. exists b', i, (x :: S''). split; auto. split; auto. split; auto. right. exists x, S''. auto.
    - right; right. cbn. right. exact H.
  Qed.
End Scan.
