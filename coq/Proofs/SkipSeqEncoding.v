(** * How checks/C15.py presents extract_min / extract_max to the verified checker.

    Property C15 asks of extract_min (resp. extract_max) three clauses only:
      (1) an empty result only if the container was empty at some instant of the call,
      (2) a returned key was present,
      (3) no key present throughout the call is smaller (resp. larger).
    A strictly linearizable extract_min ([SExtractMin] of [SetSpec]) is more than that, and the skip list
    does not provide it (the minimum is located first and removed later).  The check therefore encodes
        extract_min -> k      as   [SErase k] returning [RBool true]          (clause 2)
        extract_min -> empty  as   [SExtractMin] returning [RVal None]         (clause 1)
    and decides clause 3 per smaller key j by adding a phantom [SContains j] -> false spanning the call.
    This file proves that the encoding is exactly as strong as intended:
      - [extract_min_as_erase]: whenever the strict specification returns k, "erase k -> true" is a legal
        step with the same successor state, so the encoding never rejects a strictly linearizable history
        ([encode_legal]);
      - [extract_min_spec_clauses] / [extract_max_spec_clauses]: the strict specification itself satisfies
        the three clauses (sanity of Spec.Specs). *)
From Coq Require Import ZArith List Bool Lia.
From LV Require Import Base.Lin Spec.Specs.
Import ListNotations.
Local Open Scope Z_scope.

Lemma zmem_In k s : zmem k s = true <-> In k s.
Proof.
  unfold zmem. rewrite existsb_exists. split.
  - intros (x & Hx & E). apply Z.eqb_eq in E. now subst.
  - intros H. exists k. split; auto. apply Z.eqb_refl.
Qed.

Lemma fold_min_le l : forall x, fold_left Z.min l x <= x /\ (forall y, In y l -> fold_left Z.min l x <= y).
Proof.
  induction l as [|a l IH]; intros x; cbn [fold_left].
  - split; [lia|intros y []].
  - destruct (IH (Z.min x a)) as [H1 H2]. split; [lia|].
    intros y [->|Hy]; [lia|auto].
Qed.

Lemma fold_min_In l : forall x, fold_left Z.min l x = x \/ In (fold_left Z.min l x) l.
Proof.
  induction l as [|a l IH]; intros x; cbn [fold_left]; [now left|].
  destruct (IH (Z.min x a)) as [H|H].
  - rewrite H. destruct (Z.min_spec x a) as [[_ ->]|[_ ->]]; [now left|right; now left].
  - right; now right.
Qed.

Lemma fold_max_ge l : forall x, x <= fold_left Z.max l x /\ (forall y, In y l -> y <= fold_left Z.max l x).
Proof.
  induction l as [|a l IH]; intros x; cbn [fold_left].
  - split; [lia|intros y []].
  - destruct (IH (Z.max x a)) as [H1 H2]. split; [lia|].
    intros y [->|Hy]; [lia|auto].
Qed.

Lemma fold_max_In l : forall x, fold_left Z.max l x = x \/ In (fold_left Z.max l x) l.
Proof.
  induction l as [|a l IH]; intros x; cbn [fold_left]; [now left|].
  destruct (IH (Z.max x a)) as [H|H].
  - rewrite H. destruct (Z.max_spec x a) as [[_ ->]|[_ ->]]; [right; now left|now left].
  - right; now right.
Qed.

(** the strict specification satisfies the property's clauses *)
Theorem extract_min_spec_clauses (s : list Z) :
  match snd (set_step s SExtractMin) with
  | RVal None => s = []
  | RVal (Some k) => In k s /\ (forall j, In j s -> k <= j) /\ fst (set_step s SExtractMin) = zdel k s
  | _ => False
  end.
Proof.
  destruct s as [|x l]; cbn [set_step fst snd]; [reflexivity|].
  unfold zmin. destruct (fold_min_le l x) as [H1 H2]. repeat split.
  - destruct (fold_min_In l x) as [->|H]; [now left|now right].
  - intros j [<-|Hj]; auto.
Qed.

Theorem extract_max_spec_clauses (s : list Z) :
  match snd (set_step s SExtractMax) with
  | RVal None => s = []
  | RVal (Some k) => In k s /\ (forall j, In j s -> j <= k) /\ fst (set_step s SExtractMax) = zdel k s
  | _ => False
  end.
Proof.
  destruct s as [|x l]; cbn [set_step fst snd]; [reflexivity|].
  unfold zmax. destruct (fold_max_ge l x) as [H1 H2]. repeat split.
  - destruct (fold_max_In l x) as [->|H]; [now left|now right].
  - intros j [<-|Hj]; auto.
Qed.

(** the encoding of one (operation, result) pair of a sequential history *)
Definition encode (p : set_op * res) : set_op * res :=
  match p with
  | (SExtractMin, RVal (Some k)) => (SErase k, RBool true)
  | (SExtractMax, RVal (Some k)) => (SErase k, RBool true)
  | _ => p
  end.

Theorem extract_min_as_erase (s : list Z) k :
  snd (set_step s SExtractMin) = RVal (Some k) ->
  set_step s (SErase k) = (fst (set_step s SExtractMin), RBool true).
Proof.
  intros H. pose proof (extract_min_spec_clauses s) as C. rewrite H in C. destruct C as (Hin & _ & E).
  rewrite E. cbn [set_step]. apply zmem_In in Hin. rewrite Hin. reflexivity.
Qed.

Theorem extract_max_as_erase (s : list Z) k :
  snd (set_step s SExtractMax) = RVal (Some k) ->
  set_step s (SErase k) = (fst (set_step s SExtractMax), RBool true).
Proof.
  intros H. pose proof (extract_max_spec_clauses s) as C. rewrite H in C. destruct C as (Hin & _ & E).
  rewrite E. cbn [set_step]. apply zmem_In in Hin. rewrite Hin. reflexivity.
Qed.

(** one encoded step: same successor state, the encoded result *)
Lemma encode_step (s : list Z) (o : set_op) (r : res) :
  snd (set_step s o) = r ->
  snd (set_step s (fst (encode (o, r)))) = snd (encode (o, r)) /\
  fst (set_step s (fst (encode (o, r)))) = fst (set_step s o).
Proof.
  intros H. destruct o; try (cbn [encode fst snd]; split; [exact H|reflexivity]).
  - (* extract_min *)
    destruct r as [|b|[k|]|b1 b2]; try (cbn [encode fst snd]; split; [exact H|reflexivity]).
    cbn [encode fst snd]. rewrite (extract_min_as_erase s k H). split; reflexivity.
  - destruct r as [|b|[k|]|b1 b2]; try (cbn [encode fst snd]; split; [exact H|reflexivity]).
    cbn [encode fst snd]. rewrite (extract_max_as_erase s k H). split; reflexivity.
Qed.

(** every legal sequential history of the strict specification stays legal after encoding: the encoded
    check accepts every strictly linearizable history (it is weaker, never incomparable) *)
Theorem encode_legal : forall (l : list (set_op * res)) (s : list Z),
  @legal SetSpec s l -> @legal SetSpec s (map encode l).
Proof.
  induction l as [|[o r] l IH]; intros s H; cbn [map legal] in *; [exact I|].
  destruct H as [Hr Hl]. cbn [sstep SetSpec mkSpec] in *.
  destruct (encode_step s o r Hr) as [E1 E2].
  destruct (encode (o, r)) as [o' r'] eqn:Eo. cbn [fst snd] in *.
  split; [exact E1|]. change (@legal SetSpec (fst (set_step s o')) (map encode l)).
  rewrite E2. apply IH. exact Hl.
Qed.
